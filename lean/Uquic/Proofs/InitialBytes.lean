/-
Helper lemmas for C10: big-endian bytes and QUIC varints — the model's serialiser
(`Model.Initial.beBytes`, `varintBytesW`) against the observer's parser
(`Spec.Observe.beNat`, `readVarint`).
-/
import Uquic.Model.UQuic.Initial
import Uquic.Spec.Observe

namespace Uquic.Proofs.Initial
open Uquic.Model.Initial Uquic.Spec.Observe

theorem beBytes_length (w v : Nat) : (beBytes w v).length = w := by
  induction w with
  | zero => simp [beBytes]
  | succ w ih => simp [beBytes, ih]

theorem beNat_beBytes (w v : Nat) : beNat (beBytes w v) = v % 256 ^ w := by
  induction w with
  | zero => simp [beBytes, beNat, Nat.mod_one]
  | succ w ih =>
    simp only [beBytes, beNat, beBytes_length, ih]
    rw [Nat.mod_pow_succ]
    rw [Nat.mul_comm]
    omega

theorem beNat_beBytes_of_lt (w v : Nat) (h : v < 256 ^ w) : beNat (beBytes w v) = v := by
  rw [beNat_beBytes, Nat.mod_eq_of_lt h]

theorem varintPrefix_pow (w : Nat) (hw : w = 1 ∨ w = 2 ∨ w = 4 ∨ w = 8) : 2 ^ varintPrefix w = w := by
  rcases hw with h | h | h | h <;> subst h <;> decide

theorem varintPrefix_le (w : Nat) : varintPrefix w ≤ 3 := by
  unfold varintPrefix; repeat' split
  all_goals omega

/-- shape of a forced-width varint: a first byte carrying the prefix, then `w-1` big-endian bytes -/
theorem varintBytesW_succ (w v : Nat) :
    varintBytesW (w + 1) v = (v / 256 ^ w % 256 + 64 * varintPrefix (w + 1)) :: beBytes w v := by
  simp [varintBytesW, beBytes]

theorem varintBytesW_length (w v : Nat) : (varintBytesW w v).length = w := by
  cases w with
  | zero => simp [varintBytesW, beBytes]
  | succ w => simp [varintBytesW_succ, beBytes_length]

/-- parse ∘ serialise for varints of any legal width -/
theorem readVarint_varintBytesW (w v : Nat) (rest : List Nat)
    (hw : w = 1 ∨ w = 2 ∨ w = 4 ∨ w = 8) (hv : v < 64 * 256 ^ (w - 1)) :
    readVarint (varintBytesW w v ++ rest) = some (v, w, rest) := by
  obtain ⟨k, rfl⟩ : ∃ k, w = k + 1 := by rcases hw with h | h | h | h <;> exact ⟨w - 1, by omega⟩
  have hk : k + 1 - 1 = k := by omega
  rw [hk] at hv
  have hpos : 0 < 256 ^ k := Nat.pow_pos (by decide)
  have ht : v / 256 ^ k < 64 := by
    apply (Nat.div_lt_iff_lt_mul hpos).2; omega
  have htm : v / 256 ^ k % 256 = v / 256 ^ k := Nat.mod_eq_of_lt (by omega)
  have hp := varintPrefix_le (k + 1)
  have hpw := varintPrefix_pow (k + 1) hw
  rw [varintBytesW_succ, htm]
  simp only [List.cons_append, readVarint]
  have hdiv : (v / 256 ^ k + 64 * varintPrefix (k + 1)) / 64 = varintPrefix (k + 1) := by omega
  have hmod : (v / 256 ^ k + 64 * varintPrefix (k + 1)) % 64 = v / 256 ^ k := by omega
  rw [hdiv, hmod, hpw, hk]
  have hlen : ¬ (beBytes k v ++ rest).length < k := by simp [beBytes_length]
  rw [if_neg hlen]
  have htake : (beBytes k v ++ rest).take k = beBytes k v := by
    rw [List.take_append_of_le_length (by simp [beBytes_length])]
    exact List.take_of_length_le (by simp [beBytes_length])
  have hdrop : (beBytes k v ++ rest).drop k = rest := by
    rw [List.drop_append_of_le_length (by simp [beBytes_length])]
    simp [List.drop_of_length_le, beBytes_length]
  rw [htake, hdrop, beNat_beBytes]
  have := Nat.div_add_mod v (256 ^ k)
  have hc : v / 256 ^ k * 256 ^ k = 256 ^ k * (v / 256 ^ k) := Nat.mul_comm _ _
  simp only [Option.some.injEq, Prod.mk.injEq, and_true]
  omega

theorem varintLen_cases (v : Nat) : varintLen v = 1 ∨ varintLen v = 2 ∨ varintLen v = 4 ∨ varintLen v = 8 := by
  unfold varintLen; repeat' split
  all_goals simp

theorem varintLen_bound (v : Nat) (hv : v < 4611686018427387904) : v < 64 * 256 ^ (varintLen v - 1) := by
  unfold varintLen
  split
  · simp; omega
  · split
    · simp; omega
    · split
      · simp; omega
      · simp; omega

theorem readVarint_varintBytes (v : Nat) (rest : List Nat) (hv : v < 4611686018427387904) :
    readVarint (varintBytes v ++ rest) = some (v, varintLen v, rest) :=
  readVarint_varintBytesW _ _ _ (varintLen_cases v) (varintLen_bound v hv)

theorem varintBytes_length (v : Nat) : (varintBytes v).length = varintLen v := varintBytesW_length _ _

end Uquic.Proofs.Initial
