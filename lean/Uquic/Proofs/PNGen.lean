/-
Helper lemmas for C05: packet-number generators and nonce injectivity.
-/
import Uquic.Model.Crypto.PN
import Uquic.Model.Crypto.Bytes

namespace Uquic.Proofs.PNGen
open Uquic.Model.PN Uquic.Model.Bytes

/-- invariant of the skipping generator: the next number to skip is never behind `next` -/
def WF (g : SkipGen) : Prop := g.next ≤ g.nextToSkip

theorem new_wf (i p m d : Int) (hd : 0 ≤ d) : WF (SkipGen.new i p m d) := by
  simp [WF, SkipGen.new, SkipGen.generateNewSkip]; omega

theorem pop_wf (g : SkipGen) (d : Int) (hd : 0 ≤ d) (h : WF g) : WF (g.pop d).1 := by
  unfold WF at *
  unfold SkipGen.pop
  split
  · simp [SkipGen.generateNewSkip]; omega
  · simp; omega

theorem pop_next_gt (g : SkipGen) (d : Int) : (g.pop d).2.2 < (g.pop d).1.next ∧ g.next ≤ (g.pop d).2.2 := by
  unfold SkipGen.pop
  split <;> simp [SkipGen.generateNewSkip] <;> omega

theorem peek_eq_pop (g : SkipGen) (d : Int) : g.peek = (g.pop d).2.2 := by
  unfold SkipGen.peek SkipGen.pop
  split <;> simp

/-- everything a run of `Pop`s guarantees, by induction over the draws -/
theorem run_props (ds : List Int) : ∀ (g : SkipGen), WF g → (∀ d ∈ ds, 0 ≤ d) →
    (∀ o ∈ g.run ds, g.next ≤ o.2) ∧
    List.Pairwise (· < ·) ((g.run ds).map (·.2)) ∧
    (∀ s ∈ skippedOf (g.run ds), g.next ≤ s ∧ s ∉ (g.run ds).map (·.2) ∧ s + 1 ∈ (g.run ds).map (·.2)) := by
  induction ds with
  | nil => intro g _ _; simp [SkipGen.run, skippedOf]
  | cons d ds ih =>
    intro g hwf hds
    have hd : 0 ≤ d := hds d (by simp)
    have hds' : ∀ d ∈ ds, 0 ≤ d := fun x hx => hds x (by simp [hx])
    obtain ⟨ih1, ih2, ih3⟩ := ih (g.pop d).1 (pop_wf g d hd hwf) hds'
    have ⟨hgt, hge⟩ := pop_next_gt g d
    have hrun : g.run (d :: ds) = ((g.pop d).2.1, (g.pop d).2.2) :: (g.pop d).1.run ds := by
      simp [SkipGen.run]
    rw [hrun]
    refine ⟨?_, ?_, ?_⟩
    · intro o ho
      simp only [List.mem_cons] at ho
      rcases ho with rfl | ho
      · exact hge
      · have := ih1 o ho; omega
    · simp only [List.map_cons, List.pairwise_cons]
      refine ⟨?_, ih2⟩
      intro b hb
      simp only [List.mem_map] at hb
      obtain ⟨o, ho, rfl⟩ := hb
      have := ih1 o ho; omega
    · intro s hs
      simp only [skippedOf, List.filterMap_cons] at hs
      have later : ∀ s ∈ skippedOf ((g.pop d).1.run ds),
          g.next ≤ s ∧ s ∉ List.map (·.2) (((g.pop d).2.1, (g.pop d).2.2) :: (g.pop d).1.run ds) ∧
          s + 1 ∈ List.map (·.2) (((g.pop d).2.1, (g.pop d).2.2) :: (g.pop d).1.run ds) := by
        intro s hs
        obtain ⟨a, b, c⟩ := ih3 s hs
        refine ⟨by omega, ?_, ?_⟩
        · simp only [List.map_cons, List.mem_cons, not_or]
          exact ⟨by omega, b⟩
        · simp only [List.map_cons, List.mem_cons]; exact Or.inr c
      by_cases hsk : g.next = g.nextToSkip
      · have e1 : (g.pop d).2.1 = true := by simp [SkipGen.pop, hsk]
        have e2 : (g.pop d).2.2 = g.next + 1 := by simp [SkipGen.pop, hsk]
        have e3 : (g.pop d).1.next = g.next + 2 := by simp [SkipGen.pop, hsk, SkipGen.generateNewSkip]
        simp only [e1, if_true, List.mem_cons] at hs
        rcases hs with rfl | hs
        · refine ⟨by omega, ?_, ?_⟩
          · simp only [List.map_cons, List.mem_cons, not_or, List.mem_map, not_exists, not_and]
            refine ⟨by omega, ?_⟩
            intro o ho hh
            have := ih1 o ho; omega
          · simp only [List.map_cons, List.mem_cons]; left; omega
        · exact later s hs
      · have e1 : (g.pop d).2.1 = false := by simp [SkipGen.pop, hsk]
        simp only [e1] at hs
        exact later s (by simpa [skippedOf] using hs)

/-! ### big-endian encoding and the nonce -/

theorem fromBE_snoc (bs : List UInt8) (b : UInt8) : fromBE (bs ++ [b]) = fromBE bs * 256 + b.toNat := by
  simp [fromBE, List.foldl_append]

theorem fromBE_beBytes (k : Nat) : ∀ n, fromBE (beBytes k n) = n % 256 ^ k := by
  induction k with
  | zero => intro n; simp [beBytes, fromBE, Nat.mod_one]
  | succ k ih =>
    intro n
    rw [beBytes, fromBE_snoc, ih]
    have h1 : (UInt8.ofNat (n % 256)).toNat = n % 256 := by
      simp [UInt8.toNat_ofNat']
    rw [h1, Nat.pow_succ, Nat.mul_comm (256 ^ k) 256, Nat.mod_mul]
    omega

theorem beBytes_length (k : Nat) : ∀ n, (beBytes k n).length = k := by
  induction k with
  | zero => intro n; simp [beBytes]
  | succ k ih => intro n; simp [beBytes, ih]

theorem beBytes_inj (k : Nat) (a b : Nat) (ha : a < 256 ^ k) (hb : b < 256 ^ k)
    (h : beBytes k a = beBytes k b) : a = b := by
  have := congrArg fromBE h
  rwa [fromBE_beBytes, fromBE_beBytes, Nat.mod_eq_of_lt ha, Nat.mod_eq_of_lt hb] at this

theorem xorBytes_cancel : ∀ (iv x y : List UInt8), x.length = y.length → x.length ≤ iv.length →
    xorBytes iv x = xorBytes iv y → x = y := by
  intro iv
  induction iv with
  | nil => intro x y hxy hx _; cases x <;> cases y <;> simp_all
  | cons i iv ih =>
    intro x y hxy hx h
    cases x with
    | nil => cases y <;> simp_all
    | cons a x =>
      cases y with
      | nil => simp at hxy
      | cons b y =>
        simp only [xorBytes, List.zipWith_cons_cons, List.cons.injEq] at h
        obtain ⟨h1, h2⟩ := h
        have hab : a = b := by
          have := congrArg (i ^^^ ·) h1
          simpa [← UInt8.xor_assoc, UInt8.xor_self] using this
        subst hab
        congr 1
        exact ih x y (by simpa using hxy) (by simpa using hx) h2

end Uquic.Proofs.PNGen
