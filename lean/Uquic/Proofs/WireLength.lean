import Uquic.Proofs.WireAck

/-! `Length()` predicts exactly the number of bytes `Append` writes. -/

namespace Uquic.Proofs.Wire
open Uquic.Model.Wire Uquic.Model.Wire.Varint

theorem fits_iff (v : Nat) : fits v = true ↔ v ≤ maxVarInt8 := by simp [fits]

theorem encAll_length (vs : List Nat) (h : ∀ v ∈ vs, v ≤ maxVarInt8) : (encAll vs).length = lenAll vs := by
  induction vs with
  | nil => simp [encAll, lenAll]
  | cons v vs ih =>
    have h1 := h v (by simp)
    have h2 := ih (fun x hx => h x (by simp [hx]))
    simp only [encAll, lenAll, List.flatMap_cons, List.length_append, List.map_cons, List.sum_cons] at *
    rw [len_enc v h1, h2]

theorem all_fit {vs : List Nat} (h : vs.any (fun v => !fits v) = false) : ∀ v ∈ vs, v ≤ maxVarInt8 := by
  intro v hv
  have := List.any_eq_false.mp h v hv
  simpa [fits] using this

theorem lenAll_append (a b : List Nat) : lenAll (a ++ b) = lenAll a + lenAll b := by simp [lenAll]
theorem lenAll_cons (a : Nat) (b : List Nat) : lenAll (a :: b) = len a + lenAll b := by simp [lenAll]

theorem length_exact_ack (ranges : List AckRange) (d e0 e1 ce : Nat) (h : (Frame.ack ranges d e0 e1 ce).panics = false) :
    (Frame.ack ranges d e0 e1 ce).bytes.length = (Frame.ack ranges d e0 e1 ce).length := by
  match ranges, h with
  | [], h => simp [Frame.panics] at h
  | r0 :: rest, h =>
    simp only [Frame.panics, Bool.false_or, Frame.varints] at h
    have hfit := all_fit h
    have hmr := maxRanges_eq
    have htake : (r0 :: rest).take maxNumAckRanges = r0 :: rest.take (maxNumAckRanges - 1) := by
      rw [hmr]; rfl
    simp only [Frame.bytes, Frame.length, List.length_append, List.length_singleton]
    rw [encAll_length _ hfit]
    unfold ackFields
    rw [htake]
    simp only [List.drop_succ_cons, List.drop_zero, lenAll_append, lenAll_cons]
    have hcnt : len (min (r0 :: rest).length maxNumAckRanges - 1) = 1 := by
      unfold len; rw [max1_eq, hmr, if_pos (by omega)]
    rw [hcnt]
    by_cases hecn : hasECN e0 e1 ce = true
    · simp [hecn, lenAll]; omega
    · simp [hecn, lenAll]; omega

theorem len_const : len ftResetStream = 1 ∧ len ftResetStreamAt = 1 ∧ len ftAckFrequency = 2 ∧ len ftImmediateAck = 1 := by
  decide

theorem length_exact (f : Frame) (hw : f.wellTyped = true) (h : f.panics = false) : f.bytes.length = f.length := by
  obtain ⟨c1, c2, c3, c4⟩ := len_const
  cases f with
  | ack ranges d e0 e1 ce => exact length_exact_ack ranges d e0 e1 ce h
  | ping => simp [Frame.bytes, Frame.length]
  | handshakeDone => simp [Frame.bytes, Frame.length]
  | immediateAck => simp [Frame.bytes, Frame.length, len_enc ftImmediateAck (by decide)]
  | pathChallenge d => simp [Frame.wellTyped] at hw; simp [Frame.bytes, Frame.length, hw]
  | pathResponse d => simp [Frame.wellTyped] at hw; simp [Frame.bytes, Frame.length, hw]
  | newConnectionID seq rpt cid tok =>
    simp [Frame.wellTyped] at hw
    simp [Frame.panics, Frame.varints, fits] at h
    simp [Frame.bytes, Frame.length, len_enc, h, hw] <;> omega
  | resetStream sid ec fs rs =>
    simp [Frame.panics, Frame.varints, fits] at h
    by_cases hp : posI64 rs = true
    · have h0 : rs ≠ 0 := by simp [posI64] at hp; omega
      simp [h0, hp] at h
      simp [Frame.bytes, Frame.length, h0, hp, len_enc, h, c2, show ftResetStreamAt ≤ maxVarInt8 by decide]
      omega
    · have hp' : posI64 rs = false := by simpa using hp
      by_cases h0 : rs = 0
      · subst h0
        have hz : posI64 0 = false := by decide
        simp [hz] at h
        simp [Frame.bytes, Frame.length, hz, len_enc, h, c1, show ftResetStream ≤ maxVarInt8 by decide]
        omega
      · simp [h0, hp'] at h
        simp [Frame.bytes, Frame.length, h0, hp', len_enc, h, c2, show ftResetStreamAt ≤ maxVarInt8 by decide]
        omega
  | stopSending sid ec =>
    simp [Frame.panics, Frame.varints, fits] at h
    simp [Frame.bytes, Frame.length, len_enc, h] <;> omega
  | crypto off data =>
    simp [Frame.panics, Frame.varints, fits] at h
    simp [Frame.bytes, Frame.length, len_enc, h]; omega
  | newToken tok =>
    simp [Frame.panics, Frame.varints, fits] at h
    simp [Frame.bytes, Frame.length, len_enc, h] <;> omega
  | stream sid off data fin dlp =>
    simp [Frame.panics, Frame.varints, fits] at h
    by_cases h0 : off = 0 <;> cases dlp <;> simp_all [Frame.bytes, Frame.length, len_enc] <;> omega
  | maxData v =>
    simp [Frame.panics, Frame.varints, fits] at h
    simp [Frame.bytes, Frame.length, len_enc, h] <;> omega
  | maxStreamData sid v =>
    simp [Frame.panics, Frame.varints, fits] at h
    simp [Frame.bytes, Frame.length, len_enc, h] <;> omega
  | maxStreams t v =>
    simp [Frame.panics, Frame.varints, fits] at h
    simp [Frame.bytes, Frame.length, len_enc, h] <;> omega
  | dataBlocked v =>
    simp [Frame.panics, Frame.varints, fits] at h
    simp [Frame.bytes, Frame.length, len_enc, h] <;> omega
  | streamDataBlocked sid v =>
    simp [Frame.panics, Frame.varints, fits] at h
    simp [Frame.bytes, Frame.length, len_enc, h] <;> omega
  | streamsBlocked t v =>
    simp [Frame.panics, Frame.varints, fits] at h
    simp [Frame.bytes, Frame.length, len_enc, h] <;> omega
  | retireConnectionID seq =>
    simp [Frame.panics, Frame.varints, fits] at h
    simp [Frame.bytes, Frame.length, len_enc, h] <;> omega
  | connectionClose isApp ec ft reason =>
    simp [Frame.panics, Frame.varints, fits] at h
    cases isApp <;> simp_all [Frame.bytes, Frame.length, len_enc] <;> omega
  | datagram dlp data =>
    simp [Frame.panics, Frame.varints, fits] at h
    cases dlp <;> simp_all [Frame.bytes, Frame.length, len_enc] <;> omega
  | ackFrequency seq th mad rt =>
    simp [Frame.panics, Frame.varints, fits] at h
    simp [Frame.bytes, Frame.length, len_enc, h, c3, show ftAckFrequency ≤ maxVarInt8 by decide]
    omega

end Uquic.Proofs.Wire
