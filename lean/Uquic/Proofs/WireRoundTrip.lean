import Uquic.Proofs.WireDecode
import Uquic.Spec.WireMon

/-! Encoder → decoder round trip at the level of whole frames (type included). -/

namespace Uquic.Proofs.Wire
open Uquic.Model.Wire Uquic.Model.Wire.Varint Uquic.Spec.WireMon

/-- the frame type number `Append` writes -/
def _root_.Uquic.Model.Wire.Frame.typ : Frame → Nat
  | .ping => ftPing
  | .ack _ _ e0 e1 ce => if hasECN e0 e1 ce then ftAckECN else ftAck
  | .resetStream _ _ _ rs => if rs = 0 then ftResetStream else ftResetStreamAt
  | .stopSending _ _ => ftStopSending
  | .crypto _ _ => ftCrypto
  | .newToken _ => ftNewToken
  | .stream _ off _ fin dlp => streamTypeByte fin dlp (off ≠ 0)
  | .maxData _ => ftMaxData
  | .maxStreamData _ _ => ftMaxStreamData
  | .maxStreams t _ => match t with | .bidi => ftBidiMaxStreams | .uni => ftUniMaxStreams
  | .dataBlocked _ => ftDataBlocked
  | .streamDataBlocked _ _ => 0x15
  | .streamsBlocked t _ => match t with | .bidi => ftBidiStreamBlocked | .uni => ftUniStreamBlocked
  | .newConnectionID _ _ _ _ => ftNewConnectionID
  | .retireConnectionID _ => ftRetireConnectionID
  | .pathChallenge _ => ftPathChallenge
  | .pathResponse _ => ftPathResponse
  | .connectionClose isApp _ _ _ => if isApp then ftApplicationClose else ftConnectionClose
  | .handshakeDone => ftHandshakeDone
  | .datagram dlp _ => 0x30 + (if dlp then 1 else 0)
  | .ackFrequency _ _ _ _ => ftAckFrequency
  | .immediateAck => ftImmediateAck

/-- `ParseType` lets frame type `t` through in context `c` -/
def typeAccepted (c : Ctx) (t : Nat) : Prop :=
  (isValidRFC9000 t
    || (c.supportsDatagrams && isDatagramFrameType t)
    || (c.supportsResetStreamAt && decide (t = ftResetStreamAt))
    || (c.supportsAckFrequency && (decide (t = ftAckFrequency) || decide (t = ftImmediateAck)))) = true
  ∧ isAllowedAtEncLevel t c.lvl = some true

instance (c : Ctx) (t : Nat) : Decidable (typeAccepted c t) := by unfold typeAccepted; infer_instance

/-- a greedy frame extends to the end of the packet -/
def _root_.Uquic.Model.Wire.Frame.greedy : Frame → Bool
  | .stream _ _ _ _ dlp => !dlp
  | .datagram dlp _ => !dlp
  | _ => false

def _root_.Uquic.Model.Wire.Frame.isAck : Frame → Bool
  | .ack _ _ _ _ _ => true
  | _ => false

/-- the exponent `ParseAckFrame` uses -/
def effExp (c : Ctx) : Nat := if c.lvl ≠ encryption1RTT then defaultAckDelayExponent else c.ackDelayExponent

theorem parseType_enc (c : Ctx) (t : Nat) (rest : Bytes) (ht0 : t ≠ 0) (htm : t ≤ maxVarInt8) (hacc : typeAccepted c t) :
    parseType c (enc t ++ rest) = .ok t (len t) := by
  unfold parseType
  have hpos : 0 < (enc t).length := by rw [len_enc t htm]; exact len_pos t htm
  have hne : (enc t ++ rest).isEmpty = false := by
    cases h : enc t with
    | nil => rw [h] at hpos; simp at hpos
    | cons x xs => simp
  unfold parseTypeAux
  simp only [hne, Bool.false_eq_true, if_false, parse_enc t htm rest, ht0]
  obtain ⟨h1, h2⟩ := hacc
  simp only [h1, Bool.not_true, Bool.false_eq_true, if_false, h2]
  simp

theorem decode_of_body (c : Ctx) (t : Nat) (body : Bytes) (f : Frame) (n : Nat) (ht0 : t ≠ 0) (htm : t ≤ maxVarInt8)
    (hacc : typeAccepted c t) (hbody : parseBody c t body = .ok (f, n)) :
    decode c (enc t ++ body) = .frame f (len t + n) := by
  unfold decode
  rw [parseType_enc c t body ht0 htm hacc]
  have : (enc t ++ body).drop (len t) = body := by
    rw [← len_enc t htm]; simp
  simp only [this, hbody]

theorem u8_eq_enc (t : Nat) (h : t ≤ 63) : [u8 t] = enc t := by
  unfold enc; rw [max1_eq]; simp [h]

end Uquic.Proofs.Wire

namespace Uquic.Proofs.Wire
open Uquic.Model.Wire Uquic.Model.Wire.Varint Uquic.Spec.WireMon

/-! ### dispatch: which parser a frame type reaches -/

theorem stMin : Uquic.Gen.Wire.streamTypeMin.toNat = 8 := by decide
theorem stMax : Uquic.Gen.Wire.streamTypeMax.toNat = 15 := by decide

theorem isStream_iff (t : Nat) : isStreamFrameType t = true ↔ 8 ≤ t ∧ t ≤ 15 := by
  simp [isStreamFrameType, stMin, stMax]

theorem body_stream (c : Ctx) (t : Nat) (h : 8 ≤ t ∧ t ≤ 15) (b : Bytes) : parseBody c t b = parseStream b t := by
  simp [parseBody, (isStream_iff t).mpr h]
theorem body_ack (c : Ctx) (b : Bytes) : parseBody c ftAck b = parseAck b false (effExp c) := by
  simp (config := {decide := true}) [parseBody, effExp]
theorem body_ackECN (c : Ctx) (b : Bytes) : parseBody c ftAckECN b = parseAck b true (effExp c) := by
  simp (config := {decide := true}) [parseBody, effExp]
theorem body_dg (c : Ctx) (t : Nat) (h : t = 0x30 ∨ t = 0x31) (b : Bytes) : parseBody c t b = parseDatagram b t := by
  rcases h with rfl | rfl <;> simp (config := {decide := true}) [parseBody]
theorem body_ping (c : Ctx) (b : Bytes) : parseBody c ftPing b = .ok (.ping, 0) := by
  simp (config := {decide := true}) [parseBody, parseLessCommon]
theorem body_resetStream (c : Ctx) (b : Bytes) : parseBody c ftResetStream b = parseResetStream b false := by
  simp (config := {decide := true}) [parseBody, parseLessCommon]
theorem body_resetStreamAt (c : Ctx) (b : Bytes) : parseBody c ftResetStreamAt b = parseResetStream b true := by
  simp (config := {decide := true}) [parseBody, parseLessCommon]
theorem body_stopSending (c : Ctx) (b : Bytes) : parseBody c ftStopSending b = parseStopSending b := by
  simp (config := {decide := true}) [parseBody, parseLessCommon]
theorem body_crypto (c : Ctx) (b : Bytes) : parseBody c ftCrypto b = parseCrypto b := by
  simp (config := {decide := true}) [parseBody, parseLessCommon]
theorem body_newToken (c : Ctx) (b : Bytes) : parseBody c ftNewToken b = parseNewToken b := by
  simp (config := {decide := true}) [parseBody, parseLessCommon]
theorem body_maxData (c : Ctx) (b : Bytes) : parseBody c ftMaxData b = parseMaxData b := by
  simp (config := {decide := true}) [parseBody, parseLessCommon]
theorem body_maxStreamData (c : Ctx) (b : Bytes) : parseBody c ftMaxStreamData b = parseMaxStreamData b := by
  simp (config := {decide := true}) [parseBody, parseLessCommon]
theorem body_maxStreamsBidi (c : Ctx) (b : Bytes) : parseBody c ftBidiMaxStreams b = parseMaxStreams b ftBidiMaxStreams := by
  simp (config := {decide := true}) [parseBody, parseLessCommon]
theorem body_maxStreamsUni (c : Ctx) (b : Bytes) : parseBody c ftUniMaxStreams b = parseMaxStreams b ftUniMaxStreams := by
  simp (config := {decide := true}) [parseBody, parseLessCommon]
theorem body_dataBlocked (c : Ctx) (b : Bytes) : parseBody c ftDataBlocked b = parseDataBlocked b := by
  simp (config := {decide := true}) [parseBody, parseLessCommon]
theorem body_streamDataBlocked (c : Ctx) (b : Bytes) : parseBody c 0x15 b = parseStreamDataBlocked b := by
  simp (config := {decide := true}) [parseBody, parseLessCommon]
theorem body_streamsBlockedBidi (c : Ctx) (b : Bytes) :
    parseBody c ftBidiStreamBlocked b = parseStreamsBlocked b ftBidiStreamBlocked := by
  simp (config := {decide := true}) [parseBody, parseLessCommon]
theorem body_streamsBlockedUni (c : Ctx) (b : Bytes) :
    parseBody c ftUniStreamBlocked b = parseStreamsBlocked b ftUniStreamBlocked := by
  simp (config := {decide := true}) [parseBody, parseLessCommon]
theorem body_newConnectionID (c : Ctx) (b : Bytes) : parseBody c ftNewConnectionID b = parseNewConnectionID b := by
  simp (config := {decide := true}) [parseBody, parseLessCommon]
theorem body_retireConnectionID (c : Ctx) (b : Bytes) : parseBody c ftRetireConnectionID b = parseRetireConnectionID b := by
  simp (config := {decide := true}) [parseBody, parseLessCommon]
theorem body_pathChallenge (c : Ctx) (b : Bytes) : parseBody c ftPathChallenge b = parsePathChallenge b := by
  simp (config := {decide := true}) [parseBody, parseLessCommon]
theorem body_pathResponse (c : Ctx) (b : Bytes) : parseBody c ftPathResponse b = parsePathResponse b := by
  simp (config := {decide := true}) [parseBody, parseLessCommon]
theorem body_connectionClose (c : Ctx) (b : Bytes) :
    parseBody c ftConnectionClose b = parseConnectionClose b ftConnectionClose := by
  simp (config := {decide := true}) [parseBody, parseLessCommon]
theorem body_applicationClose (c : Ctx) (b : Bytes) :
    parseBody c ftApplicationClose b = parseConnectionClose b ftApplicationClose := by
  simp (config := {decide := true}) [parseBody, parseLessCommon]
theorem body_handshakeDone (c : Ctx) (b : Bytes) : parseBody c ftHandshakeDone b = .ok (.handshakeDone, 0) := by
  simp (config := {decide := true}) [parseBody, parseLessCommon]
theorem body_ackFrequency (c : Ctx) (b : Bytes) : parseBody c ftAckFrequency b = parseAckFrequency b := by
  simp (config := {decide := true}) [parseBody, parseLessCommon]
theorem body_immediateAck (c : Ctx) (b : Bytes) : parseBody c ftImmediateAck b = .ok (.immediateAck, 0) := by
  simp (config := {decide := true}) [parseBody, parseLessCommon]

end Uquic.Proofs.Wire
