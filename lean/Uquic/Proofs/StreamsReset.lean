/-
0-RTT rejection at the level of the whole `streamsMap` (C15): which operations can change the
outgoing stream limits, and what the limits are after `ResetFor0RTT` followed by
`HandleTransportParameters`.
-/
import Uquic.Proofs.StreamsMapLift

set_option linter.unusedSimpArgs false
set_option linter.unusedVariables false

namespace Uquic.Proofs.Streams
open Uquic.Model.Streams

/-- the whole-map operations that may change an outgoing limit: MAX_STREAMS, transport parameters
    (both raise it) and `ResetFor0RTT` (fresh maps, limit gone) -/
def _root_.Uquic.Model.Streams.MapOp.setsLimit : MapOp → Bool
  | .maxStreams _ _ => true
  | .params _ _ => true
  | .resetFor0RTT => true
  | _ => false

/-! ### sub-map operations other than `SetMaxStream` leave `maxStream` alone -/

theorem updProc_max (o : Outgoing) (w : Nat) (f : Proc → Proc) : (o.updProc w f).maxStream = o.maxStream := rfl
theorem dropProc_max (o : Outgoing) (w : Nat) : (o.dropProc w).maxStream = o.maxStream := rfl

theorem maybeUnblock_max (o : Outgoing) : o.maybeUnblock.maxStream = o.maxStream := by
  unfold Outgoing.maybeUnblock
  split
  · rfl
  · split <;> rfl

theorem maybeSendBlocked_max (o : Outgoing) : o.maybeSendBlocked.1.maxStream = o.maxStream := by
  unfold Outgoing.maybeSendBlocked
  split <;> rfl

theorem openStream_max (o : Outgoing) : o.openStream.1.maxStream = o.maxStream := by
  unfold Outgoing.openStream
  split
  · rfl
  · split
    · exact maybeSendBlocked_max o
    · rfl

theorem syncCall_max (o : Outgoing) (w : Nat) (b : Bool) : (o.syncCall w b).1.maxStream = o.maxStream := by
  unfold Outgoing.syncCall
  split
  · rfl
  · split
    · rfl
    · split
      · rfl
      · split
        · rfl
        · exact maybeSendBlocked_max _

theorem recv_max (o : Outgoing) (w : Nat) : (o.recv w).maxStream = o.maxStream := by
  unfold Outgoing.recv
  split
  · rfl
  · split
    · rfl
    · split
      · rfl
      · split <;> rfl

theorem ctxDone_max (o : Outgoing) (w : Nat) : (o.ctxDone w).maxStream = o.maxStream := by
  unfold Outgoing.ctxDone
  split
  · rfl
  · split <;> rfl

theorem wakeLocked_max (o : Outgoing) (w : Nat) : (o.wakeLocked w).1.maxStream = o.maxStream := by
  unfold Outgoing.wakeLocked
  split
  · rfl
  · split
    · rfl
    · split
      · rfl
      · split
        · rfl
        · simp only [Outgoing.openRaw]
          split
          · rfl
          · simp only [dropProc_max, maybeUnblock_max]

theorem cancelLocked_max (o : Outgoing) (w : Nat) : (o.cancelLocked w).1.maxStream = o.maxStream := by
  unfold Outgoing.cancelLocked
  split
  · rfl
  · split
    · rfl
    · simp only [dropProc_max, maybeUnblock_max]

theorem cancelCtx_max (o : Outgoing) (w : Nat) : (o.cancelCtx w).maxStream = o.maxStream := rfl

theorem deleteStream_max (o : Outgoing) (id : SID) : (o.deleteStream id).1.maxStream = o.maxStream := by
  unfold Outgoing.deleteStream
  split <;> rfl

theorem closeWithError_max (o : Outgoing) (e : Err) : (o.closeWithError e).maxStream = o.maxStream := rfl

/-! ### the whole map -/

theorem onOut_max {α} (m : Map) (c : Nat) (f : Outgoing → Outgoing × α) (d : α)
    (hf : ∀ o, (f o).1.maxStream = o.maxStream) (t : STyp) :
    ((m.onOut c f d).1.out t).maxStream = (m.out t).maxStream := by
  rcases onOut_out m c f d t with h | h
  · rw [h]
  · rw [h, hf]

theorem setOut_max (m : Map) (t t' : STyp) (o : Outgoing) (h : o.maxStream = (m.out t).maxStream) :
    ((m.setOut t o).out t').maxStream = (m.out t').maxStream := by
  rw [setOut_out]
  split
  · next h' => subst h'; exact h
  · rfl

theorem closeMap_out (m : Map) (e : Err) (t : STyp) :
    ((m.closeWithError e).1.out t).maxStream = (m.out t).maxStream ∧ (m.closeWithError e).1.pers = m.pers := by
  unfold Map.closeWithError
  simp only
  split
  · cases t <;> exact ⟨rfl, rfl⟩
  · cases t <;> exact ⟨rfl, rfl⟩

/-- a step that is not MAX_STREAMS / transport parameters / ResetFor0RTT keeps the perspective and both
    outgoing limits (whether or not the map is alive) -/
theorem step_keeps_limits (m : Map) (op : MapOp) (h : op.setsLimit = false) (t : STyp) :
    ((m.step op).1.out t).maxStream = (m.out t).maxStream ∧ (m.step op).1.pers = m.pers := by
  unfold Map.step
  split
  · exact ⟨rfl, rfl⟩
  cases op with
  | openStream t' =>
    simp only
    split
    · exact ⟨rfl, rfl⟩
    · exact ⟨setOut_max m t' t _ (openStream_max _), by cases t' <;> rfl⟩
  | openSync t' c b =>
    simp only
    split
    · exact ⟨rfl, rfl⟩
    · exact ⟨setOut_max m t' t _ (syncCall_max _ c b), by cases t' <;> rfl⟩
  | accept t' c =>
    simp only
    split
    · exact ⟨rfl, rfl⟩
    · exact ⟨by rw [setInc_out], by cases t' <;> rfl⟩
  | cancelCtx c =>
    simp only
    refine ⟨?_, ?_⟩
    · rw [(onIn_out _ c _ () t).1]; exact onOut_max m c _ () (fun o => cancelCtx_max o c) t
    · rw [(onIn_out _ c _ () t).2.1]; exact (onOut_inc m c _ () t).2.1
  | outRecv c => exact ⟨onOut_max m c _ () (fun o => recv_max o c) t, (onOut_inc m c _ () t).2.1⟩
  | outCtxDone c => exact ⟨onOut_max m c _ () (fun o => ctxDone_max o c) t, (onOut_inc m c _ () t).2.1⟩
  | outWakeLocked c => exact ⟨onOut_max m c _ none (fun o => wakeLocked_max o c) t, (onOut_inc m c _ none t).2.1⟩
  | outCancelLocked c => exact ⟨onOut_max m c _ none (fun o => cancelLocked_max o c) t, (onOut_inc m c _ none t).2.1⟩
  | accLocked c => exact ⟨by rw [(onIn_out m c _ (none, []) t).1], (onIn_out m c _ (none, []) t).2.1⟩
  | accRecv c => exact ⟨by rw [(onIn_out m c _ () t).1], (onIn_out m c _ () t).2.1⟩
  | accCtx c => exact ⟨by rw [(onIn_out m c _ none t).1], (onIn_out m c _ none t).2.1⟩
  | recvFrame id =>
    simp only [Map.getReceiveStream]
    split
    · split
      · exact ⟨rfl, rfl⟩
      · cases t <;> exact ⟨rfl, rfl⟩
    · split
      · exact ⟨rfl, rfl⟩
      · cases t <;> exact ⟨rfl, rfl⟩
  | sendFrame id =>
    simp only [Map.getSendStream]
    split
    · split <;> exact ⟨rfl, rfl⟩
    · split
      · exact ⟨rfl, rfl⟩
      · cases t <;> exact ⟨rfl, rfl⟩
  | delete id =>
    simp only [Map.deleteStream]
    split
    · exact ⟨setOut_max m _ t _ (deleteStream_max _ id), by cases (typeOf id) <;> rfl⟩
    · exact ⟨by rw [setInc_out], by cases (typeOf id) <;> rfl⟩
  | maxStreams t' n => simp [MapOp.setsLimit] at h
  | params nb nu => simp [MapOp.setsLimit] at h
  | close e => exact closeMap_out m e t
  | resetFor0RTT => simp [MapOp.setsLimit] at h
  | useResetMaps => cases t <;> exact ⟨rfl, rfl⟩

theorem run_keeps_limits (ops : List MapOp) (h : ∀ op ∈ ops, op.setsLimit = false) (t : STyp) :
    ∀ m : Map, ((ops.foldl (fun m o => (m.step o).1) m).out t).maxStream = (m.out t).maxStream ∧
      (ops.foldl (fun m o => (m.step o).1) m).pers = m.pers := by
  induction ops with
  | nil => intro m; exact ⟨rfl, rfl⟩
  | cons o os ih =>
    intro m
    simp only [List.foldl_cons]
    obtain ⟨a, b⟩ := ih (fun op hop => h op (by simp [hop])) (m.step o).1
    obtain ⟨c, d⟩ := step_keeps_limits m o (h o (by simp)) t
    exact ⟨a.trans c, b.trans d⟩

/-! ### ResetFor0RTT, then transport parameters -/

/-- `ResetFor0RTT` that did not panic leaves fresh outgoing maps: no limit -/
theorem reset_out_fresh (m : Map) (hd : m.dead = false) (hp : (m.step .resetFor0RTT).2.panic = false) (t : STyp) :
    (m.step .resetFor0RTT).1.out t = Outgoing.new t m.pers ∧ (m.step .resetFor0RTT).1.pers = m.pers := by
  have hp' : m.resetFor0RTT.2 = false := by
    simpa [Map.step, hd] using hp
  have hs : (m.step .resetFor0RTT).1 = m.resetFor0RTT.1 := by simp [Map.step, hd]
  rw [hs]
  have hpc := (closeMap_out { m with reset := true } .rejected0RTT t).2
  unfold Map.resetFor0RTT at hp' ⊢
  simp only at hp' ⊢
  split
  · next hpan => simp [hpan] at hp'
  · simp only at hpc
    refine ⟨?_, hpc⟩
    cases t <;> simp only [Map.out] <;> rw [hpc]

theorem numToID_ge (n : Int) (hn : 0 ≤ n) (t : STyp) (p : Persp) : invalidStreamNum ≤ numToID n t p := by
  have e1 : invalidStreamNum = -1 := rfl
  have e2 : invalidStreamID = -1 := rfl
  unfold numToID
  split
  · omega
  · cases t <;> cases p <;> simp only <;> omega

/-- `SetMaxStream` on a map whose limit is not above `id` makes `id` the limit -/
theorem setMaxStream_max (o : Outgoing) (id : SID) (h : o.maxStream ≤ id) : (o.setMaxStream id).1.maxStream = id := by
  unfold Outgoing.setMaxStream
  split
  · show o.maxStream = id; omega
  · simp only
    split
    · rw [maybeUnblock_max, maybeSendBlocked_max]
    · rw [maybeUnblock_max]

/-- `SetMaxStream` never lowers the limit: the limit afterwards is the larger of the two -/
theorem setMaxStream_max_eq (o : Outgoing) (id : SID) : (o.setMaxStream id).1.maxStream = max o.maxStream id := by
  by_cases h : id ≤ o.maxStream
  · have : (o.setMaxStream id).1 = o := by simp [Outgoing.setMaxStream, h]
    rw [this]; omega
  · rw [setMaxStream_max o id (by omega)]; omega

/-- transport parameters: each outgoing limit becomes the larger of the old one and the parameter's -/
theorem params_limits (m : Map) (hd : m.dead = false) (nb nu : Int) (t : STyp) :
    ((m.step (.params nb nu)).1.out t).maxStream = max (m.out t).maxStream (numToID (limOf nb nu t) t m.pers) ∧
    (m.step (.params nb nu)).1.pers = m.pers := by
  simp only [Map.step, hd, Bool.false_eq_true, if_false, Map.handleParams, Map.handleMaxStreams]
  cases t
  · exact ⟨setMaxStream_max_eq _ _, rfl⟩
  · exact ⟨setMaxStream_max_eq _ _, rfl⟩

/-- **After `ResetFor0RTT` and any operations that do not touch the limits, transport parameters `p` make
    the outgoing limits exactly `p`'s** — whatever the map looked like before the reset. -/
theorem limits_after_reset (m0 : Map) (mid : List MapOp) (pb pu : Int) (hpb : 0 ≤ pb) (hpu : 0 ≤ pu)
    (hd0 : m0.dead = false) (hnp : (m0.step .resetFor0RTT).2.panic = false)
    (hmid : ∀ op ∈ mid, op.setsLimit = false)
    (halive : ((MapOp.resetFor0RTT :: mid).foldl (fun m o => (m.step o).1) m0).dead = false) (t : STyp) :
    (((MapOp.resetFor0RTT :: (mid ++ [.params pb pu])).foldl (fun m o => (m.step o).1) m0).out t).maxStream
      = numToID (limOf pb pu t) t m0.pers ∧
    ((MapOp.resetFor0RTT :: (mid ++ [.params pb pu])).foldl (fun m o => (m.step o).1) m0).pers = m0.pers := by
  simp only [List.foldl_cons, List.foldl_append, List.foldl_nil] at halive ⊢
  obtain ⟨r1, r2⟩ := reset_out_fresh m0 hd0 hnp t
  obtain ⟨k1, k2⟩ := run_keeps_limits mid hmid t (m0.step .resetFor0RTT).1
  obtain ⟨p1, p2⟩ := params_limits _ halive pb pu t
  refine ⟨?_, by rw [p2, k2, r2]⟩
  rw [p1, k1, k2, r1, r2]
  have hge := numToID_ge (limOf pb pu t) (by cases t <;> simpa [limOf]) t m0.pers
  have : (Outgoing.new t m0.pers).maxStream = invalidStreamNum := rfl
  rw [this]; omega

end Uquic.Proofs.Streams
