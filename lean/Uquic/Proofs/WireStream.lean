import Uquic.Proofs.WireFrames

namespace Uquic.Proofs.Wire
open Uquic.Model.Wire Uquic.Model.Wire.Varint

/-! ### STREAM -/

theorem parseStream_of (typ : Nat) {p1 po pl : Bytes} {sid off : Nat} (data r : Bytes)
    (h1 : Decodes p1 sid)
    (ho : if typ / 4 % 2 = 1 then Decodes po off else (po = [] ∧ off = 0))
    (hl : if typ / 2 % 2 = 1 then Decodes pl data.length else (pl = [] ∧ r = []))
    (hbuf : ¬(data.length ≥ minStreamFrameBufferSize ∧ data.length > maxPacketBufferSize))
    (hmax : off + data.length ≤ maxByteCount) :
    parseStream (p1 ++ po ++ pl ++ data ++ r) typ =
      .ok (.stream sid off data (typ % 2 = 1) (typ / 2 % 2 = 1), p1.length + po.length + pl.length + data.length) := by
  unfold parseStream
  simp only [List.append_assoc, takeV_of_decodes h1]
  by_cases hto : typ / 4 % 2 = 1
  · simp only [hto, if_true] at ho
    simp only [hto, decide_true, if_true, takeV_of_decodes ho]
    by_cases htl : typ / 2 % 2 = 1
    · simp only [htl, if_true] at hl
      simp only [htl, decide_true, if_true, takeV_of_decodes hl]
      have : ¬ (data.length > (data ++ r).length) := by simp
      simp only [this, if_false]
      rw [if_neg hbuf, if_neg (by omega)]
      simp; omega
    · simp only [htl, if_false] at hl
      obtain ⟨hpl, hr⟩ := hl
      subst hpl; subst hr
      simp only [htl, decide_false, if_false, Bool.false_eq_true, List.nil_append, List.append_nil]
      rw [if_neg hbuf, if_neg (by omega)]
      simp; omega
  · simp only [hto, if_false] at ho
    obtain ⟨hpo, hoff⟩ := ho
    subst hpo; subst hoff
    simp only [hto, decide_false, if_false, Bool.false_eq_true, List.nil_append]
    by_cases htl : typ / 2 % 2 = 1
    · simp only [htl, if_true] at hl
      simp only [htl, decide_true, if_true, takeV_of_decodes hl]
      have : ¬ (data.length > (data ++ r).length) := by simp
      simp only [this, if_false]
      rw [if_neg hbuf, if_neg (by omega)]
      simp; omega
    · simp only [htl, if_false] at hl
      obtain ⟨hpl, hr⟩ := hl
      subst hpl; subst hr
      simp only [htl, decide_false, if_false, Bool.false_eq_true, List.nil_append, List.append_nil]
      rw [if_neg hbuf, if_neg (by omega)]
      simp

/-- after the stream ID and the optional offset: the length / data part -/
theorem parseStream_tail (typ sid off startLen : Nat) (b2 : Bytes) (f : Frame) (n : Nat)
    (h : (match (if typ / 2 % 2 = 1 then
              match takeV b2 with
              | Except.error e => Except.error e
              | Except.ok (dataLen, b) => if List.length b < dataLen then Except.error Err.eof else Except.ok (dataLen, b)
            else Except.ok (List.length b2, b2) : Except Err (Nat × Bytes)) with
          | Except.error e => Except.error e
          | Except.ok (dataLen, b) =>
            if minStreamFrameBufferSize ≤ dataLen ∧ maxPacketBufferSize < dataLen then Except.error Err.eof
            else if maxByteCount < off + dataLen then Except.error Err.streamOverflow
            else Except.ok (Frame.stream sid off (List.take dataLen b) (decide (typ % 2 = 1)) (decide (typ / 2 % 2 = 1)),
                  startLen - List.length b + dataLen)) = Except.ok (f, n)) :
    ∃ pl data r, b2 = pl ++ data ++ r ∧
      (if typ / 2 % 2 = 1 then Decodes pl data.length else (pl = [] ∧ r = [])) ∧
      ¬(data.length ≥ minStreamFrameBufferSize ∧ data.length > maxPacketBufferSize) ∧
      off + data.length ≤ maxByteCount ∧
      f = .stream sid off data (typ % 2 = 1) (typ / 2 % 2 = 1) ∧ n = startLen - (data ++ r).length + data.length := by
  by_cases htl : typ / 2 % 2 = 1
  · simp only [htl, if_true] at h
    rcases takeV_cases b2 with he | ⟨pl, b3, dl, rfl, hdl, htl'⟩
    · simp [he] at h
    · simp only [htl'] at h
      by_cases hgt : b3.length < dl
      · simp [hgt] at h
      · simp only [hgt, if_false] at h
        by_cases hbuf : minStreamFrameBufferSize ≤ dl ∧ maxPacketBufferSize < dl
        · simp [hbuf] at h
        · rw [if_neg hbuf] at h
          by_cases hov : maxByteCount < off + dl
          · simp [hov] at h
          · rw [if_neg hov] at h
            simp only [Except.ok.injEq, Prod.mk.injEq] at h
            have hmin : (b3.take dl).length = dl := by simp; omega
            refine ⟨pl, b3.take dl, b3.drop dl, by simp, ?_, by rw [hmin]; exact hbuf, by rw [hmin]; omega, ?_, ?_⟩
            · simp only [htl, if_true, hmin]; exact hdl
            · simp [htl, h.1.symm]
            · rw [hmin, ← h.2]; simp
  · simp only [htl, if_false] at h
    by_cases hbuf : minStreamFrameBufferSize ≤ b2.length ∧ maxPacketBufferSize < b2.length
    · simp [hbuf] at h
    · rw [if_neg hbuf] at h
      by_cases hov : maxByteCount < off + b2.length
      · simp [hov] at h
      · rw [if_neg hov] at h
        simp only [Except.ok.injEq, Prod.mk.injEq] at h
        refine ⟨[], b2, [], by simp, by simp [htl], hbuf, by omega, ?_, ?_⟩
        · simp [htl, h.1.symm]
        · rw [← h.2]; simp

theorem parseStream_inv (b : Bytes) (typ : Nat) (f : Frame) (n : Nat) (h : parseStream b typ = .ok (f, n)) :
    ∃ p1 po pl data r sid off, b = p1 ++ po ++ pl ++ data ++ r ∧ Decodes p1 sid ∧
      (if typ / 4 % 2 = 1 then Decodes po off else (po = [] ∧ off = 0)) ∧
      (if typ / 2 % 2 = 1 then Decodes pl data.length else (pl = [] ∧ r = [])) ∧
      ¬(data.length ≥ minStreamFrameBufferSize ∧ data.length > maxPacketBufferSize) ∧
      off + data.length ≤ maxByteCount ∧
      f = .stream sid off data (typ % 2 = 1) (typ / 2 % 2 = 1) ∧ n = p1.length + po.length + pl.length + data.length := by
  unfold parseStream at h
  rcases takeV_cases b with he | ⟨p1, b1, sid, rfl, hd1, ht1⟩
  · simp [he] at h
  · simp only [ht1] at h
    by_cases hto : typ / 4 % 2 = 1
    · simp only [hto, decide_true, if_true] at h
      rcases takeV_cases b1 with he | ⟨po, b2, off, rfl, hdo, hto'⟩
      · simp [he] at h
      · simp only [hto'] at h
        obtain ⟨pl, data, r, rfl, hl, hbuf, hmax, hf, hn⟩ := parseStream_tail typ sid off _ b2 f n h
        refine ⟨p1, po, pl, data, r, sid, off, by simp, hd1, by simp [hto]; exact hdo, hl, hbuf, hmax, hf, ?_⟩
        rw [hn]; simp; omega
    · simp only [hto, decide_false, if_false, Bool.false_eq_true] at h
      obtain ⟨pl, data, r, rfl, hl, hbuf, hmax, hf, hn⟩ := parseStream_tail typ sid 0 _ b1 f n h
      refine ⟨p1, [], pl, data, r, sid, 0, by simp, hd1, by simp [hto], hl, by simpa using hbuf, by simpa using hmax, hf, ?_⟩
      rw [hn]; simp; omega

end Uquic.Proofs.Wire
