/-
Helper lemmas for C20: the pacer along arbitrary operation histories of the sender, and the
absence of 64-bit overflow under the stated ranges.
-/
import Uquic.Model.Cong.Sender
import Uquic.Proofs.CongPacer
import Uquic.Proofs.CongInv

namespace Uquic.Proofs.Cong

open Uquic.Model.Cong

/-- what each operation does to the pacer -/
theorem step_pacer (s : Sender) (op : Op) :
    (s.step op).1.pacer =
      match op with
      | .sent t _ b _ => s.pacer.sentPacket s.bw t b
      | .setMDS m => if m < s.mds then s.pacer else { s.pacer with mds := m }
      | _ => s.pacer := by
  cases op with
  | sent t pn b r =>
    simp only [Sender.step, Sender.onPacketSent]
    split <;> rfl
  | acked pn b prior t =>
    simp only [Sender.step, Sender.onPacketAcked]
    split
    · rfl
    · simp only [Sender.maybeIncreaseCwnd]
      repeat' split
      all_goals rfl
  | lost pn b prior =>
    simp only [Sender.step, Sender.onCongestionEvent]
    split <;> rfl
  | exitSS =>
    simp only [Sender.step, Sender.maybeExitSlowStart]
    repeat' split
    all_goals rfl
  | setMDS m =>
    simp only [Sender.step, Sender.setMaxDatagramSize]
    split
    · rfl
    · split <;> rfl
  | rtt r => rfl
  | idle => rfl

/-- bytes of the `sent` operations of a history that the pacer authorised
(`HasPacingBudget(t)` held and the packet is no larger than the maximum datagram size) -/
def authBytes : Sender → List Op → Nat
  | _, [] => 0
  | s, op :: ops =>
    (match op with
     | .sent t _ b _ => if s.hasPacingBudget t = true ∧ b ≤ s.mds then b else 0
     | _ => 0) + authBytes (s.step op).1 ops

/-- Σ over the `sent` operations of ⌊1.25·bw·Δt/10⁹⌋ (bw, Δt as the sender sees them at that send) -/
def allowance : Sender → List Op → Nat
  | _, [] => 0
  | s, op :: ops =>
    (match op with
     | .sent t _ _ _ => tokens s.pacer s.bw t
     | _ => 0) + allowance (s.step op).1 ops

/-- hypotheses on a history: send times are never the "unset" value 0 (monotime.Now() is never 0)
and datagram sizes stay in the range where the pacer's overflow substitute is conservative -/
def PacerHyp (ops : List Op) : Prop :=
  ∀ op ∈ ops, (∀ t pn b r, op = Op.sent t pn b r → t ≠ 0) ∧ (∀ m, op = Op.setMDS m → PacerMDSOk m)

theorem pacer_trace (ops : List Op) : ∀ (s : Sender),
    s.pacer.lastSent ≠ 0 → PacerMDSOk s.pacer.mds → PacerHyp ops →
    authBytes s ops + (s.run ops).pacer.budgetAtLastSent ≤ s.pacer.budgetAtLastSent + allowance s ops := by
  induction ops with
  | nil => intro s _ _ _; simp [authBytes, allowance, Sender.run]
  | cons op ops ih =>
    intro s hT hm hyp
    have hyp' : PacerHyp ops := fun o ho => hyp o (List.mem_cons_of_mem _ ho)
    have hop := hyp op (List.mem_cons_self ..)
    have hp := step_pacer s op
    cases op with
    | sent t pn b r =>
      simp only [] at hp
      simp only [Sender.run, List.foldl_cons, authBytes, allowance]
      have hsp := sentPacket_spec s.pacer s.bw t b
      simp only [] at hsp
      obtain ⟨h1, h2, h3, h4⟩ := hsp
      have ht : t ≠ 0 := hop.1 t pn b r rfl
      have hT' : (s.step (.sent t pn b r)).1.pacer.lastSent ≠ 0 := by rw [hp, h1]; exact ht
      have hm' : PacerMDSOk (s.step (.sent t pn b r)).1.pacer.mds := by rw [hp, h2]; exact hm
      have := ih (s.step (.sent t pn b r)).1 hT' hm' hyp'
      rw [hp] at this
      have hbt := budget_le_tokens s.pacer s.bw t hT hm
      simp only [Sender.run] at this
      by_cases ha : s.hasPacingBudget t = true ∧ b ≤ s.mds
      · simp only [ha, and_self, if_true]
        have hb : b ≤ s.pacer.budget s.bw t := by
          have : s.mds ≤ s.pacer.budget s.bw t := by
            have := ha.1; simp only [Sender.hasPacingBudget, Sender.budget] at this; exact of_decide_eq_true this
          omega
        have := h4 hb
        omega
      · simp only [ha, if_false]
        omega
    | setMDS m =>
      simp only [] at hp
      simp only [Sender.run, List.foldl_cons, authBytes, allowance]
      have hT' : (s.step (.setMDS m)).1.pacer.lastSent ≠ 0 := by rw [hp]; split <;> exact hT
      have hm' : PacerMDSOk (s.step (.setMDS m)).1.pacer.mds := by
        rw [hp]; split
        · exact hm
        · exact hop.2 m rfl
      have hB : (s.step (.setMDS m)).1.pacer.budgetAtLastSent = s.pacer.budgetAtLastSent := by rw [hp]; split <;> rfl
      have := ih _ hT' hm' hyp'
      simp only [Sender.run] at this
      omega
    | acked pn b prior t =>
      simp only [] at hp
      simp only [Sender.run, List.foldl_cons, authBytes, allowance]
      have := ih (s.step (.acked pn b prior t)).1 (by rw [hp]; exact hT) (by rw [hp]; exact hm) hyp'
      simp only [Sender.run] at this
      rw [hp] at this; omega
    | lost pn b prior =>
      simp only [] at hp
      simp only [Sender.run, List.foldl_cons, authBytes, allowance]
      have := ih (s.step (.lost pn b prior)).1 (by rw [hp]; exact hT) (by rw [hp]; exact hm) hyp'
      simp only [Sender.run] at this
      rw [hp] at this; omega
    | exitSS =>
      simp only [] at hp
      simp only [Sender.run, List.foldl_cons, authBytes, allowance]
      have := ih (s.step .exitSS).1 (by rw [hp]; exact hT) (by rw [hp]; exact hm) hyp'
      simp only [Sender.run] at this
      rw [hp] at this; omega
    | rtt r =>
      simp only [] at hp
      simp only [Sender.run, List.foldl_cons, authBytes, allowance]
      have := ih (s.step (.rtt r)).1 (by rw [hp]; exact hT) (by rw [hp]; exact hm) hyp'
      simp only [Sender.run] at this
      rw [hp] at this; omega
    | idle =>
      simp only [] at hp
      simp only [Sender.run, List.foldl_cons, authBytes, allowance]
      have := ih (s.step .idle).1 (by rw [hp]; exact hT) (by rw [hp]; exact hm) hyp'
      simp only [Sender.run] at this
      rw [hp] at this; omega

/-- over any interval that starts with a send: authorised bytes ≤ one burst + the tokens of the
later sends -/
theorem pacer_interval (s : Sender) (t pn : Int) (b : Nat) (r : Bool) (rest : List Op)
    (ht : t ≠ 0) (hm : PacerMDSOk s.pacer.mds) (hyp : PacerHyp rest) :
    authBytes s (.sent t pn b r :: rest) ≤
      maxBurstSize s.bw s.pacer.mds + allowance (s.step (.sent t pn b r)).1 rest := by
  have hp := step_pacer s (.sent t pn b r)
  simp only [] at hp
  have hsp := sentPacket_spec s.pacer s.bw t b
  simp only [] at hsp
  obtain ⟨h1, h2, h3, h4⟩ := hsp
  have hT' : (s.step (.sent t pn b r)).1.pacer.lastSent ≠ 0 := by rw [hp, h1]; exact ht
  have hm' : PacerMDSOk (s.step (.sent t pn b r)).1.pacer.mds := by rw [hp, h2]; exact hm
  have htr := pacer_trace rest (s.step (.sent t pn b r)).1 hT' hm' hyp
  rw [hp] at htr
  have hbb := budget_le_burst s.pacer s.bw t
  simp only [authBytes]
  by_cases ha : s.hasPacingBudget t = true ∧ b ≤ s.mds
  · simp only [ha, and_self, if_true]
    have hb : b ≤ s.pacer.budget s.bw t := by
      have : s.mds ≤ s.pacer.budget s.bw t := by
        have := ha.1; simp only [Sender.hasPacingBudget, Sender.budget] at this; exact of_decide_eq_true this
      omega
    have := h4 hb
    omega
  · simp only [ha, if_false]
    omega


/-! ### the allowance in terms of elapsed time -/

theorem wrapI64_of_range (i : Int) (h0 : 0 ≤ i) (h1 : i < 2 ^ 63) : wrapI64 i = i := by
  unfold wrapI64 u64OfI64 i64OfU64
  have : i % 2 ^ 64 = i := Int.emod_eq_of_lt h0 (by omega)
  rw [this]
  have h2 : i.toNat < 2 ^ 63 := by omega
  rw [if_pos h2]
  omega

theorem div_add_div_le (a b c : Nat) (hc : 0 < c) : a / c + b / c ≤ (a + b) / c := by
  rw [Nat.le_div_iff_mul_le hc, Nat.add_mul]
  have := Nat.div_mul_le_self a c
  have := Nat.div_mul_le_self b c
  omega

/-- time of the last send of a history (or the given start) -/
def lastSendTime : Int → List Op → Int
  | T, [] => T
  | T, op :: ops => match op with
    | .sent t _ _ _ => lastSendTime t ops
    | _ => lastSendTime T ops

/-- send times are non-decreasing from `T` on (and no gap reaches 2^63 ns ≈ 292 years) -/
def TimesMono : Int → List Op → Prop
  | _, [] => True
  | T, op :: ops => match op with
    | .sent t _ _ _ => T ≤ t ∧ t - T < 2 ^ 63 ∧ TimesMono t ops
    | _ => TimesMono T ops

/-- the pacer's bandwidth is at most `W` at every send of the history -/
def BwBounded (W : Nat) : Sender → List Op → Prop
  | _, [] => True
  | s, op :: ops => (match op with | .sent _ _ _ _ => s.bw ≤ W | _ => True) ∧ BwBounded W (s.step op).1 ops

theorem lastSendTime_ge (ops : List Op) : ∀ T, TimesMono T ops → T ≤ lastSendTime T ops := by
  induction ops with
  | nil => intro T _; exact Int.le_refl _
  | cons op ops ih =>
    intro T h
    cases op with
    | sent t pn b r =>
      simp only [TimesMono] at h
      simp only [lastSendTime]
      have := ih t h.2.2
      omega
    | acked pn b prior t => exact ih T h
    | lost pn b prior => exact ih T h
    | exitSS => exact ih T h
    | setMDS m => exact ih T h
    | rtt r => exact ih T h
    | idle => exact ih T h

theorem tokens_le (p : Pacer) (bw W : Nat) (t : Int) (hW : bw ≤ W) (h0 : p.lastSent ≤ t) (h1 : t - p.lastSent < 2 ^ 63) :
    tokens p bw t ≤ W * (t - p.lastSent).toNat / nsPerSecond := by
  unfold tokens
  rw [wrapI64_of_range _ (by omega) h1]
  simp only []
  split
  · exact Nat.div_le_div_right (Nat.mul_le_mul_right _ hW)
  · exact Nat.zero_le _

/-- with non-decreasing send times and bandwidth at most `W` at every send, the tokens granted over
a history are at most `⌊W · elapsed / 10⁹⌋` -/
theorem allowance_le_elapsed (W : Nat) (ops : List Op) : ∀ (s : Sender),
    TimesMono s.pacer.lastSent ops → BwBounded W s ops →
    allowance s ops ≤ W * (lastSendTime s.pacer.lastSent ops - s.pacer.lastSent).toNat / nsPerSecond := by
  induction ops with
  | nil => intro s _ _; simp [allowance]
  | cons op ops ih =>
    intro s hm hb
    have hp := step_pacer s op
    have hb' : BwBounded W (s.step op).1 ops := hb.2
    cases op with
    | sent t pn b r =>
      simp only [] at hp
      have hsp := (sentPacket_spec s.pacer s.bw t b).1
      simp only [TimesMono] at hm
      obtain ⟨h0, h1, hm'⟩ := hm
      have hbw : s.bw ≤ W := hb.1
      have hT : (s.step (.sent t pn b r)).1.pacer.lastSent = t := by rw [hp]; exact hsp
      have hih := ih (s.step (.sent t pn b r)).1 (by rw [hT]; exact hm') hb'
      rw [hT] at hih
      have htk := tokens_le s.pacer s.bw W t hbw h0 h1
      have hge := lastSendTime_ge ops t hm'
      simp only [allowance, lastSendTime]
      have hsum : (lastSendTime t ops - s.pacer.lastSent).toNat =
          (t - s.pacer.lastSent).toNat + (lastSendTime t ops - t).toNat := by omega
      rw [hsum, Nat.mul_add]
      have := div_add_div_le (W * (t - s.pacer.lastSent).toNat) (W * (lastSendTime t ops - t).toNat) nsPerSecond (by decide)
      omega
    | acked pn b prior t =>
      simp only [] at hp
      have := ih (s.step (.acked pn b prior t)).1 (by rw [hp]; exact hm) hb'
      rw [hp] at this
      simpa [allowance, lastSendTime] using this
    | lost pn b prior =>
      simp only [] at hp
      have := ih (s.step (.lost pn b prior)).1 (by rw [hp]; exact hm) hb'
      rw [hp] at this
      simpa [allowance, lastSendTime] using this
    | exitSS =>
      simp only [] at hp
      have := ih (s.step .exitSS).1 (by rw [hp]; exact hm) hb'
      rw [hp] at this
      simpa [allowance, lastSendTime] using this
    | setMDS m =>
      simp only [] at hp
      have hT : (s.step (.setMDS m)).1.pacer.lastSent = s.pacer.lastSent := by rw [hp]; split <;> rfl
      have := ih (s.step (.setMDS m)).1 (by rw [hT]; exact hm) hb'
      rw [hT] at this
      simpa [allowance, lastSendTime] using this
    | rtt r =>
      simp only [] at hp
      have := ih (s.step (.rtt r)).1 (by rw [hp]; exact hm) hb'
      rw [hp] at this
      simpa [allowance, lastSendTime] using this
    | idle =>
      simp only [] at hp
      have := ih (s.step .idle).1 (by rw [hp]; exact hm) hb'
      rw [hp] at this
      simpa [allowance, lastSendTime] using this

end Uquic.Proofs.Cong
