/-
Helper lemmas for C20: the pacer along arbitrary operation histories of the sender, and the
absence of 64-bit overflow under the stated ranges.
-/
import Uquic.Model.Cong.Sender
import Uquic.Proofs.CongPacer
import Uquic.Proofs.CongInv

namespace Uquic.Proofs.Cong

open Uquic.Model.Cong

/-- what each operation does to the pacer -/
theorem step_pacer (s : Sender) (op : Op) :
    (s.step op).1.pacer =
      match op with
      | .sent t _ b _ => s.pacer.sentPacket s.bw t b
      | .setMDS m => if m < s.mds then s.pacer else { s.pacer with mds := m }
      | _ => s.pacer := by
  cases op with
  | sent t pn b r =>
    simp only [Sender.step, Sender.onPacketSent]
    split <;> rfl
  | acked pn b prior t =>
    simp only [Sender.step, Sender.onPacketAcked]
    split
    · rfl
    · simp only [Sender.maybeIncreaseCwnd]
      repeat' split
      all_goals rfl
  | lost pn b prior =>
    simp only [Sender.step, Sender.onCongestionEvent]
    split <;> rfl
  | exitSS =>
    simp only [Sender.step, Sender.maybeExitSlowStart]
    repeat' split
    all_goals rfl
  | setMDS m =>
    simp only [Sender.step, Sender.setMaxDatagramSize]
    split
    · rfl
    · split <;> rfl
  | rtt r => rfl
  | idle => rfl

/-- bytes of the `sent` operations of a history that the pacer authorised
(`HasPacingBudget(t)` held and the packet is no larger than the maximum datagram size) -/
def authBytes : Sender → List Op → Nat
  | _, [] => 0
  | s, op :: ops =>
    (match op with
     | .sent t _ b _ => if s.hasPacingBudget t = true ∧ b ≤ s.mds then b else 0
     | _ => 0) + authBytes (s.step op).1 ops

/-- Σ over the `sent` operations of ⌊1.25·bw·Δt/10⁹⌋ (bw, Δt as the sender sees them at that send) -/
def allowance : Sender → List Op → Nat
  | _, [] => 0
  | s, op :: ops =>
    (match op with
     | .sent t _ _ _ => tokens s.pacer s.bw t
     | _ => 0) + allowance (s.step op).1 ops

/-- hypotheses on a history: send times are never the "unset" value 0 (monotime.Now() is never 0)
and datagram sizes stay in the range where the pacer's overflow substitute is conservative -/
def PacerHyp (ops : List Op) : Prop :=
  ∀ op ∈ ops, (∀ t pn b r, op = Op.sent t pn b r → t ≠ 0) ∧ (∀ m, op = Op.setMDS m → PacerMDSOk m)

theorem pacer_trace (ops : List Op) : ∀ (s : Sender),
    s.pacer.lastSent ≠ 0 → PacerMDSOk s.pacer.mds → PacerHyp ops →
    authBytes s ops + (s.run ops).pacer.budgetAtLastSent ≤ s.pacer.budgetAtLastSent + allowance s ops := by
  induction ops with
  | nil => intro s _ _ _; simp [authBytes, allowance, Sender.run]
  | cons op ops ih =>
    intro s hT hm hyp
    have hyp' : PacerHyp ops := fun o ho => hyp o (List.mem_cons_of_mem _ ho)
    have hop := hyp op (List.mem_cons_self ..)
    have hp := step_pacer s op
    cases op with
    | sent t pn b r =>
      simp only [] at hp
      simp only [Sender.run, List.foldl_cons, authBytes, allowance]
      have hsp := sentPacket_spec s.pacer s.bw t b
      simp only [] at hsp
      obtain ⟨h1, h2, h3, h4⟩ := hsp
      have ht : t ≠ 0 := hop.1 t pn b r rfl
      have hT' : (s.step (.sent t pn b r)).1.pacer.lastSent ≠ 0 := by rw [hp, h1]; exact ht
      have hm' : PacerMDSOk (s.step (.sent t pn b r)).1.pacer.mds := by rw [hp, h2]; exact hm
      have := ih (s.step (.sent t pn b r)).1 hT' hm' hyp'
      rw [hp] at this
      have hbt := budget_le_tokens s.pacer s.bw t hT hm
      simp only [Sender.run] at this
      by_cases ha : s.hasPacingBudget t = true ∧ b ≤ s.mds
      · simp only [ha, and_self, if_true]
        have hb : b ≤ s.pacer.budget s.bw t := by
          have : s.mds ≤ s.pacer.budget s.bw t := by
            have := ha.1; simp only [Sender.hasPacingBudget, Sender.budget] at this; exact of_decide_eq_true this
          omega
        have := h4 hb
        omega
      · simp only [ha, if_false]
        omega
    | setMDS m =>
      simp only [] at hp
      simp only [Sender.run, List.foldl_cons, authBytes, allowance]
      have hT' : (s.step (.setMDS m)).1.pacer.lastSent ≠ 0 := by rw [hp]; split <;> exact hT
      have hm' : PacerMDSOk (s.step (.setMDS m)).1.pacer.mds := by
        rw [hp]; split
        · exact hm
        · exact hop.2 m rfl
      have hB : (s.step (.setMDS m)).1.pacer.budgetAtLastSent = s.pacer.budgetAtLastSent := by rw [hp]; split <;> rfl
      have := ih _ hT' hm' hyp'
      simp only [Sender.run] at this
      omega
    | acked pn b prior t =>
      simp only [] at hp
      simp only [Sender.run, List.foldl_cons, authBytes, allowance]
      have := ih (s.step (.acked pn b prior t)).1 (by rw [hp]; exact hT) (by rw [hp]; exact hm) hyp'
      simp only [Sender.run] at this
      rw [hp] at this; omega
    | lost pn b prior =>
      simp only [] at hp
      simp only [Sender.run, List.foldl_cons, authBytes, allowance]
      have := ih (s.step (.lost pn b prior)).1 (by rw [hp]; exact hT) (by rw [hp]; exact hm) hyp'
      simp only [Sender.run] at this
      rw [hp] at this; omega
    | exitSS =>
      simp only [] at hp
      simp only [Sender.run, List.foldl_cons, authBytes, allowance]
      have := ih (s.step .exitSS).1 (by rw [hp]; exact hT) (by rw [hp]; exact hm) hyp'
      simp only [Sender.run] at this
      rw [hp] at this; omega
    | rtt r =>
      simp only [] at hp
      simp only [Sender.run, List.foldl_cons, authBytes, allowance]
      have := ih (s.step (.rtt r)).1 (by rw [hp]; exact hT) (by rw [hp]; exact hm) hyp'
      simp only [Sender.run] at this
      rw [hp] at this; omega
    | idle =>
      simp only [] at hp
      simp only [Sender.run, List.foldl_cons, authBytes, allowance]
      have := ih (s.step .idle).1 (by rw [hp]; exact hT) (by rw [hp]; exact hm) hyp'
      simp only [Sender.run] at this
      rw [hp] at this; omega

/-- over any interval that starts with a send: authorised bytes ≤ one burst + the tokens of the
later sends -/
theorem pacer_interval (s : Sender) (t pn : Int) (b : Nat) (r : Bool) (rest : List Op)
    (ht : t ≠ 0) (hm : PacerMDSOk s.pacer.mds) (hyp : PacerHyp rest) :
    authBytes s (.sent t pn b r :: rest) ≤
      maxBurstSize s.bw s.pacer.mds + allowance (s.step (.sent t pn b r)).1 rest := by
  have hp := step_pacer s (.sent t pn b r)
  simp only [] at hp
  have hsp := sentPacket_spec s.pacer s.bw t b
  simp only [] at hsp
  obtain ⟨h1, h2, h3, h4⟩ := hsp
  have hT' : (s.step (.sent t pn b r)).1.pacer.lastSent ≠ 0 := by rw [hp, h1]; exact ht
  have hm' : PacerMDSOk (s.step (.sent t pn b r)).1.pacer.mds := by rw [hp, h2]; exact hm
  have htr := pacer_trace rest (s.step (.sent t pn b r)).1 hT' hm' hyp
  rw [hp] at htr
  have hbb := budget_le_burst s.pacer s.bw t
  simp only [authBytes]
  by_cases ha : s.hasPacingBudget t = true ∧ b ≤ s.mds
  · simp only [ha, and_self, if_true]
    have hb : b ≤ s.pacer.budget s.bw t := by
      have : s.mds ≤ s.pacer.budget s.bw t := by
        have := ha.1; simp only [Sender.hasPacingBudget, Sender.budget] at this; exact of_decide_eq_true this
      omega
    have := h4 hb
    omega
  · simp only [ha, if_false]
    omega

end Uquic.Proofs.Cong
