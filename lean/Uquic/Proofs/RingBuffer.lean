import Uquic.Model.Util.RingBuffer

namespace Uquic.Model.Util.RingBuffer
namespace RB

theorem toList_length (r : RB) : r.toList.length = r.len := by simp [toList]

theorem toList_getElem? (r : RB) (i : Nat) :
    r.toList[i]? = if i < r.len then some (r.ring.getD (idx r.head i r.cap) 0) else none := by
  unfold toList
  by_cases hi : i < r.len <;> simp [hi]

theorem put_len (r : RB) (x : Int) (h : r.WF) (hf : r.full = false) (hc : 0 < r.cap) :
    (r.put x).len = r.len + 1 := by
  obtain ⟨h0, h1, h2⟩ := h
  have ⟨hh, ht⟩ := h1 hc
  unfold cap at *
  simp only [len, put, cap, next, hf, List.length_set, Bool.false_or]
  grind

theorem put_WF (r : RB) (x : Int) (h : r.WF) (hf : r.full = false) (hc : 0 < r.cap) :
    (r.put x).WF := by
  obtain ⟨h0, h1, h2⟩ := h
  have ⟨hh, ht⟩ := h1 hc
  unfold cap at *
  simp only [WF, put, cap, next, hf, List.length_set, Bool.false_or]
  grind

theorem put_toList (r : RB) (x : Int) (h : r.WF) (hf : r.full = false) (hc : 0 < r.cap) :
    (r.put x).toList = r.toList ++ [x] := by
  have hl := put_len r x h hf hc
  obtain ⟨h0, h1, h2⟩ := h
  have ⟨hh, ht⟩ := h1 hc
  apply List.ext_getElem?
  intro i
  rw [toList_getElem?, hl, List.getElem?_append, toList_getElem?, toList_length]
  have hlen : r.len < r.cap := by
    unfold len cap at *; simp only [hf]; grind
  have hcap : (r.put x).cap = r.cap := by simp [put, cap]
  rw [hcap]
  simp only [put, List.getD_eq_getElem?_getD, List.getElem?_set]
  by_cases hi : i < r.len
  · have : r.tail ≠ idx r.head i r.cap := by
      unfold idx len cap at *; simp only [hf] at *; grind
    simp [hi, this]; omega
  · by_cases hi2 : i = r.len
    · have : r.tail = idx r.head i r.cap := by
        unfold idx len cap at *; simp only [hf] at *; grind
      have ht' : r.tail < r.ring.length := ht
      simp [hi2]
      simp [hi2] at this
      simp [← this, ht']
    · have : ¬ i < r.len + 1 := by omega
      simp [hi, this]
      omega

theorem grow_head (r : RB) : r.grow.head = 0 := rfl

theorem grow_full (r : RB) : r.grow.full = false := rfl

theorem grow_cap_pos (r : RB) : 0 < r.grow.cap := by
  simp only [grow, cap, List.length_append, List.length_drop, List.length_take, List.length_replicate]
  split <;> omega

theorem grow_WF (r : RB) (h : r.WF) : r.grow.WF := by
  obtain ⟨h0, h1, h2⟩ := h
  unfold cap at *
  simp only [WF, grow, cap, List.length_append, List.length_drop, List.length_take, List.length_replicate]
  grind

theorem grow_len (r : RB) : r.grow.len = r.cap := by
  simp [len, grow, cap]

theorem len_of_full_or_cap0 (r : RB) (h : r.WF) (hf : r.full = true ∨ r.cap = 0) : r.len = r.cap := by
  obtain ⟨h0, h1, h2⟩ := h
  unfold len
  rcases hf with hf | hf
  · simp [hf]
  · have := h0 hf
    simp [this, hf]

theorem grow_toList (r : RB) (h : r.WF) (hf : r.full = true ∨ r.cap = 0) :
    r.grow.toList = r.toList := by
  have hl := len_of_full_or_cap0 r h hf
  obtain ⟨h0, h1, h2⟩ := h
  apply List.ext_getElem?
  intro i
  rw [toList_getElem?, toList_getElem?, grow_len, hl]
  by_cases hi : i < r.cap
  · have hc : 0 < r.cap := by omega
    have ⟨hh, ht⟩ := h1 hc
    have hgc : i < r.grow.cap := by
      simp only [grow, cap, List.length_append, List.length_drop, List.length_take, List.length_replicate]
      unfold cap at *
      split <;> omega
    have hidx : idx r.grow.head i r.grow.cap = i := by
      unfold idx; simp [grow_head, hgc]
    simp only [hi, if_true, hidx]
    unfold cap at *
    simp only [grow, List.getD_eq_getElem?_getD, List.getElem?_append, List.length_append, List.length_drop, List.length_take, List.getElem?_drop, List.getElem?_take, idx]
    grind
  · simp [hi]

theorem prep_spec (r : RB) (h : r.WF) :
    r.prep.WF ∧ r.prep.toList = r.toList ∧ r.prep.full = false ∧ 0 < r.prep.cap := by
  unfold prep
  by_cases hc : (r.full || decide (r.ring.length = 0)) = true
  · have hf : r.full = true ∨ r.cap = 0 := by
      unfold cap; simpa using hc
    rw [if_pos hc]
    exact ⟨grow_WF r h, grow_toList r h hf, grow_full r, grow_cap_pos r⟩
  · rw [if_neg hc]
    have : r.full = false ∧ ¬ r.ring.length = 0 := by simpa using hc
    refine ⟨h, rfl, this.1, ?_⟩
    unfold cap; omega

theorem pushBack_spec (r : RB) (x : Int) (h : r.WF) :
    (r.pushBack x).WF ∧ (r.pushBack x).toList = r.toList ++ [x] := by
  obtain ⟨hw, hl, hf, hc⟩ := prep_spec r h
  unfold pushBack
  exact ⟨put_WF _ x hw hf hc, by rw [put_toList _ x hw hf hc, hl]⟩

theorem empty_iff_len (r : RB) (h : r.WF) : r.empty = true ↔ r.len = 0 := by
  obtain ⟨h0, h1, h2⟩ := h
  unfold empty len cap at *
  by_cases hf : r.full = true
  · simp [hf]; have := h2 hf; grind
  · simp [hf]; grind

theorem dropFront_WF (r : RB) (h : r.WF) (he : r.empty = false) : r.dropFront.WF := by
  have hne : ¬ r.len = 0 := by
    rw [← empty_iff_len r h]; simp [he]
  obtain ⟨h0, h1, h2⟩ := h
  unfold len cap at *
  simp only [WF, dropFront, cap, next, List.length_set]
  grind

theorem dropFront_len (r : RB) (h : r.WF) (he : r.empty = false) : r.dropFront.len + 1 = r.len := by
  have hne : ¬ r.len = 0 := by
    rw [← empty_iff_len r h]; simp [he]
  obtain ⟨h0, h1, h2⟩ := h
  unfold len cap at *
  simp only [dropFront, next, List.length_set]
  grind

theorem toList_eq_cons_dropFront (r : RB) (h : r.WF) (he : r.empty = false) :
    r.toList = r.ring.getD r.head 0 :: r.dropFront.toList := by
  have hl := dropFront_len r h he
  have hlc : r.len ≤ r.cap := by
    unfold len; obtain ⟨h0, h1, h2⟩ := h; grind
  obtain ⟨h0, h1, h2⟩ := h
  apply List.ext_getElem?
  intro i
  rw [toList_getElem?]
  cases i with
  | zero =>
    have : 0 < r.len := by omega
    have hc : 0 < r.cap := by omega
    have ⟨hh, ht⟩ := h1 hc
    simp [this, idx, hh]
  | succ j =>
    rw [List.getElem?_cons_succ, toList_getElem?]
    by_cases hj : j < r.dropFront.len
    · have hj' : j + 1 < r.len := by omega
      have hc : 0 < r.cap := by omega
      have ⟨hh, ht⟩ := h1 hc
      have hcap : r.dropFront.cap = r.cap := by simp [dropFront, cap]
      have hidx : idx r.dropFront.head j r.dropFront.cap = idx r.head (j + 1) r.cap := by
        rw [hcap]; unfold cap at *; simp only [dropFront, idx, next]; grind
      have hne : r.head ≠ idx r.head (j + 1) r.cap := by
        unfold idx; grind
      rw [hidx, if_pos hj, if_pos hj']
      simp only [dropFront, List.getD_eq_getElem?_getD, List.getElem?_set]
      simp [hne]
    · have hj' : ¬ j + 1 < r.len := by omega
      simp [hj, hj']

theorem clear_WF (r : RB) : r.clear.WF := by
  simp only [WF, clear, cap, List.length_replicate]
  grind

theorem clear_toList (r : RB) : r.clear.toList = [] := by
  simp [toList, clear, len]

theorem init_WF (n : Nat) : (({} : RB).init n).WF := by
  simp only [WF, init, cap, List.length_replicate]
  grind

theorem init_toList (n : Nat) : (({} : RB).init n).toList = [] := by
  simp [toList, init, len]

theorem toList_eq_nil_iff (r : RB) (h : r.WF) : r.toList = [] ↔ r.empty = true := by
  rw [empty_iff_len r h, ← toList_length, List.length_eq_zero_iff]

theorem popFront_nil (r : RB) (h : r.WF) (hq : r.toList = []) : r.popFront = (none, r) := by
  have := (toList_eq_nil_iff r h).1 hq
  simp [popFront, this]

theorem popFront_cons (r : RB) (h : r.WF) (v : Int) (q : List Int) (hq : r.toList = v :: q) :
    r.popFront = (some v, r.dropFront) ∧ r.dropFront.WF ∧ r.dropFront.toList = q := by
  have he : r.empty = false := by
    cases hE : r.empty with
    | false => rfl
    | true => have := (toList_eq_nil_iff r h).2 hE; simp [this] at hq
  have hc := toList_eq_cons_dropFront r h he
  rw [hq] at hc
  injection hc with hv hq'
  refine ⟨?_, dropFront_WF r h he, hq'.symm⟩
  simp [popFront, he, hv]

theorem peekFront_spec (r : RB) (h : r.WF) : r.peekFront = r.toList.head? := by
  cases hE : r.empty with
  | true =>
    have := (toList_eq_nil_iff r h).2 hE
    simp [peekFront, hE, this]
  | false =>
    rw [toList_eq_cons_dropFront r h hE]
    simp [peekFront, hE]

theorem run_eq (ops : List Op) : ∀ (r : RB) (q : List Int), r.WF → r.toList = q →
    runRB r ops = runQ q ops := by
  induction ops with
  | nil => intros; rfl
  | cons o os ih =>
    intro r q hw hq
    cases o with
    | push x =>
      have ⟨hw', hl'⟩ := pushBack_spec r x hw
      simp only [runRB, runQ, stepRB, stepQ]
      rw [ih _ (q ++ [x]) hw' (by rw [hl', hq])]
    | pop =>
      cases q with
      | nil =>
        have := popFront_nil r hw hq
        simp only [runRB, runQ, stepRB, stepQ, this]
        rw [ih r [] hw hq]
      | cons v q' =>
        have ⟨h1, h2, h3⟩ := popFront_cons r hw v q' hq
        simp only [runRB, runQ, stepRB, stepQ, h1]
        rw [ih _ q' h2 h3]
    | peek =>
      have hp := peekFront_spec r hw
      rw [hq] at hp
      cases q with
      | nil =>
        simp only [runRB, runQ, stepRB, stepQ, hp, List.head?_nil]
        rw [ih r [] hw hq]
      | cons v q' =>
        simp only [runRB, runQ, stepRB, stepQ, hp, List.head?_cons]
        rw [ih r _ hw hq]
    | len =>
      simp only [runRB, runQ, stepRB, stepQ]
      rw [ih r q hw hq, ← hq, toList_length]
    | empty =>
      simp only [runRB, runQ, stepRB, stepQ]
      rw [ih r q hw hq]
      have : r.empty = q.isEmpty := by
        rw [← hq, Bool.eq_iff_iff, List.isEmpty_iff, toList_eq_nil_iff r hw]
      rw [this]
    | clear =>
      simp only [runRB, runQ, stepRB, stepQ]
      rw [ih _ [] (clear_WF r) (clear_toList r)]

end RB
end Uquic.Model.Util.RingBuffer
