/-
Trace-level lift (C15), part 4: every operation of the whole map other than `ResetFor0RTT`, from a state that
satisfies `MInv`, is a `CompTr`: each current sub-map makes zero, one (or, for no operation, more) of its own steps, and
the ids / frames the map step shows are exactly what those sub-map steps emitted, each in the projection of its own
(stream type, direction).
-/
import Uquic.Proofs.StreamsTraceInv

set_option linter.unusedSimpArgs false
set_option linter.unusedVariables false

namespace Uquic.Proofs.Streams
open Uquic.Model.Streams

theorem out_ne_cases (t : STyp) : (t ≠ .bidi → t = .uni) ∧ (t ≠ .uni → t = .bidi) := by
  cases t <;> simp

/-- an operation dispatched by caller id to an outgoing map (current or replaced) -/
theorem CompTr.of_onOut {α} {pers : Persp} {nb nu : Int} (m : Map) (h : MInv pers nb nu m) (c : Nat)
    (f : Outgoing → Outgoing × α) (d : α) (g : α → MapEv) (oop : OutOp) (hw : oop.wf)
    (hst : ∀ o, (f o).1 = (o.step oop).1)
    (hev : ∀ o, evIds (g (f o).2) = openedOf (o.step oop).2 ∧ (g (f o).2).frames = (o.step oop).2.frames)
    (hd : evIds (g d) = [] ∧ (g d).frames = [])
    (hcl : ∀ o, o.closeErr ≠ none → evIds (g (f o).2) = [] ∧ (g (f o).2).frames = []) :
    CompTr pers m (m.onOut c f d).1 (g (m.onOut c f d).2) := by
  rcases onOut_cases m c f d with e | e | e <;> rw [e]
  · obtain ⟨hf, ⟨k, hk⟩, hty, hpe⟩ := h.outFacts .bidi
    exact CompTr.of_out pers m _ _ .bidi oop hw k hf hk hty hpe (hst m.outBidi)
      (fun t ht => by cases t; rfl; exact absurd rfl ht) (fun t => by cases t <;> rfl)
      (hev m.outBidi).1 (hev m.outBidi).2
  · obtain ⟨hf, ⟨k, hk⟩, hty, hpe⟩ := h.outFacts .uni
    exact CompTr.of_out pers m _ _ .uni oop hw k hf hk hty hpe (hst m.outUni)
      (fun t ht => by cases t; exact absurd rfl ht; rfl) (fun t => by cases t <;> rfl)
      (hev m.outUni).1 (hev m.outUni).2
  · have hs : evIds (g (onOutList c f d m.oldOut).2) = [] ∧ (g (onOutList c f d m.oldOut).2).frames = [] := by
      rcases onOutList_res c f d m.oldOut with h1 | ⟨o, ho, h1⟩ <;> rw [h1]
      · exact hd
      · exact hcl o (h.oldOut o ho)
    exact CompTr.silent pers m _ _ (fun t => by cases t <;> rfl) (fun t => by cases t <;> rfl) hs.1 hs.2

/-- an operation dispatched by caller id to an incoming map (current or replaced) -/
theorem CompTr.of_onIn {α} {pers : Persp} (m : Map) (hinv : ∀ t, InInv (firstIncoming t pers) (m.inc t))
    (hdead : ∀ t, (m.inc t).dead = false) (hty : ∀ t, (m.inc t).typ = t) (hold : ∀ i ∈ m.oldIn, i.closeErr ≠ none)
    (c : Nat) (f : Incoming → Incoming × α) (d : α) (g : α → MapEv) (iop : InOp)
    (hw : ∀ t, iop.wf (firstIncoming t pers))
    (hst : ∀ t, (f (m.inc t)).1 = ((m.inc t).step iop).1)
    (hev : ∀ t, evIds (g (f (m.inc t)).2) = streamsOfRets ((m.inc t).step iop).2.rets ∧
                (g (f (m.inc t)).2).frames = ((m.inc t).step iop).2.frames)
    (hd : evIds (g d) = [] ∧ (g d).frames = [])
    (hcl : ∀ i, i.closeErr ≠ none → evIds (g (f i).2) = [] ∧ (g (f i).2).frames = []) :
    CompTr pers m (m.onIn c f d).1 (g (m.onIn c f d).2) := by
  rcases onIn_cases m c f d with e | e | e <;> rw [e]
  · exact CompTr.of_in pers m _ _ .bidi iop (hw .bidi) (hinv .bidi) (hdead .bidi) (hty .bidi) (hst .bidi)
      (fun t ht => by cases t; rfl; exact absurd rfl ht) (fun t => by cases t <;> rfl)
      (hev .bidi).1 (hev .bidi).2
  · exact CompTr.of_in pers m _ _ .uni iop (hw .uni) (hinv .uni) (hdead .uni) (hty .uni) (hst .uni)
      (fun t ht => by cases t; exact absurd rfl ht; rfl) (fun t => by cases t <;> rfl)
      (hev .uni).1 (hev .uni).2
  · have hs : evIds (g (onInList c f d m.oldIn).2) = [] ∧ (g (onInList c f d m.oldIn).2).frames = [] := by
      rcases onInList_res c f d m.oldIn with h1 | ⟨o, ho, h1⟩ <;> rw [h1]
      · exact hd
      · exact hcl o (hold o ho)
    exact CompTr.silent pers m _ _ (fun t => by cases t <;> rfl) (fun t => by cases t <;> rfl) hs.1 hs.2

theorem evIds_empty : evIds ({} : MapEv) = [] := rfl

theorem evIds_rets (c : Nat) (r : Option Ret) (fs : List Frame) :
    evIds ({ rets := optRet c r, frames := fs } : MapEv) = idsOfOptRet r := by
  simp [evIds, idsOfOptRet, streamsOfRets_optRet]

theorem idsOfOptRet_err (e : Err) : idsOfOptRet (some (.err e)) = [] := rfl

/-- `getReceiveStream` / `getSendStream` reaching the incoming map of the id's type -/
theorem CompTr.of_getOrOpen {pers : Persp} {nb nu : Int} (hnb : 0 ≤ nb) (hnu : 0 ≤ nu) (m : Map) (h : MInv pers nb nu m)
    (hd : m.dead = false) (id : SID) (h0 : 0 ≤ id) (hi : initiatedBy id ≠ m.pers) (t0 : STyp) (ht : typeOf id = t0)
    (m' : Map) (ev : MapEv) (hm' : m' = m.setInc t0 ((m.inc t0).getOrOpen id).1)
    (hids : evIds ev = []) (hfr : ev.frames = []) : CompTr pers m m' ev := by
  have hp : m.pers = pers := h.reach.hp
  have hdi := inc_dead m hd t0
  refine CompTr.of_in pers m m' ev t0 (.getOrOpen id) ?_ (h.incFacts hnb hnu t0).1 hdi (h.incFacts hnb hnu t0).2 ?_ ?_ ?_ ?_ ?_
  · exact incoming_class t0 pers id h0 ht (by rw [← hp]; exact hi)
  · rw [hm', setInc_inc]; simp [in_step_getOrOpen _ _ hdi]
  · intro t hne; rw [hm', setInc_inc]; simp [hne]
  · intro t; rw [hm', setInc_out]
  · rw [hids]; simp [Incoming.step, hdi, streamsOfRets]
  · rw [hfr]; simp [Incoming.step, hdi]

theorem close_tr {pers : Persp} {nb nu : Int} (hnb : 0 ≤ nb) (hnu : 0 ≤ nu) (m : Map) (h : MInv pers nb nu m)
    (hd : m.dead = false) (e : Err) (ev : MapEv) (hids : evIds ev = []) (hfr : ev.frames = []) :
    CompTr pers m (m.closeWithError e).1 ev := by
  have hb := in_step_close m.inBidi e (inc_dead m hd .bidi)
  have hu := in_step_close m.inUni e (inc_dead m hd .uni)
  have S := ev_silent
  have hbev : ∀ i : Incoming, i.dead = false → acceptedIds [(i.step (.close e)).2] = [] ∧ msVals [(i.step (.close e)).2] = [] := by
    intro i hi
    simp [acceptedIds, msVals, Incoming.step, hi, streamsOfRets, msOfFrames]
  have hout : ∀ t, ∃ os : List OutOp, (∀ o ∈ os, o.wf) ∧ ((m.closeWithError e).1).out t = ((m.out t).run os).1 ∧
      evOpened t pers ev = openedIds ((m.out t).run os).2 ∧ evBlocked t ev = sbVals ((m.out t).run os).2 := by
    intro t
    refine ⟨[.close e], by simp [OutOp.wf], ?_, ?_, ?_⟩
    · unfold Map.closeWithError
      simp only
      split <;> cases t <;> rfl
    · rw [(S t pers ev hids hfr).1]; simp [orun_cons, orun_nil, openedIds, openedOf, Outgoing.step, idsOfOptRet, streamsOfRets]
    · rw [(S t pers ev hids hfr).2.2.1]; simp [orun_cons, orun_nil, sbVals, Outgoing.step, sbOfFrames]
  refine ⟨hout, ?_⟩
  intro t
  cases hp : (m.inBidi.closeWithError e).2 with
  | true =>
    cases t with
    | bidi =>
      refine ⟨[.close e], by simp [InOp.wf], ?_, ?_, ?_⟩
      · unfold Map.closeWithError; simp only [hp, if_true]; exact hb.symm
      · rw [(S .bidi pers ev hids hfr).2.1]; exact ((hbev _ (inc_dead m hd .bidi)).1).symm
      · rw [(S .bidi pers ev hids hfr).2.2.2]; exact ((hbev _ (inc_dead m hd .bidi)).2).symm
    | uni =>
      refine ⟨[], by simp, ?_, ?_, ?_⟩
      · unfold Map.closeWithError; simp only [hp, if_true]; rfl
      · rw [(S .uni pers ev hids hfr).2.1]; rfl
      · rw [(S .uni pers ev hids hfr).2.2.2]; rfl
  | false =>
    cases t with
    | bidi =>
      refine ⟨[.close e], by simp [InOp.wf], ?_, ?_, ?_⟩
      · unfold Map.closeWithError; simp only [hp, Bool.false_eq_true, if_false]; exact hb.symm
      · rw [(S .bidi pers ev hids hfr).2.1]; exact ((hbev _ (inc_dead m hd .bidi)).1).symm
      · rw [(S .bidi pers ev hids hfr).2.2.2]; exact ((hbev _ (inc_dead m hd .bidi)).2).symm
    | uni =>
      refine ⟨[.close e], by simp [InOp.wf], ?_, ?_, ?_⟩
      · unfold Map.closeWithError; simp only [hp, Bool.false_eq_true, if_false]; exact hu.symm
      · rw [(S .uni pers ev hids hfr).2.1]; exact ((hbev _ (inc_dead m hd .uni)).1).symm
      · rw [(S .uni pers ev hids hfr).2.2.2]; exact ((hbev _ (inc_dead m hd .uni)).2).symm

/-- **the step lemma of the trace lift** -/
theorem map_step_tr {pers : Persp} {nb nu : Int} (hnb : 0 ≤ nb) (hnu : 0 ≤ nu) (m : Map) (op : MapOp)
    (h : MInv pers nb nu m) (hw : op.wf) (hnr : op ≠ .resetFor0RTT) : CompTr pers m (m.step op).1 (m.step op).2 := by
  by_cases hd : m.dead = true
  · have : m.step op = (m, {}) := by simp [Map.step, hd]
    rw [this]
    exact CompTr.silent pers m m {} (fun _ => rfl) (fun _ => rfl) rfl rfl
  have hd' : m.dead = false := by simpa using hd
  have hp : m.pers = pers := h.reach.hp
  have OF := fun t => h.outFacts t
  have IF := fun t => h.incFacts hnb hnu t
  have hdi := fun t => inc_dead m hd' t
  have sameO : ∀ t, (m.out t) = m.out t := fun _ => rfl
  unfold Map.step
  simp only [hd', Bool.false_eq_true, if_false]
  cases op with
  | openStream t0 =>
    simp only
    split
    · exact CompTr.silent pers m m _ (fun _ => rfl) (fun _ => rfl) rfl rfl
    · obtain ⟨hf, ⟨k, hk⟩, hty, hpe⟩ := OF t0
      refine CompTr.of_out pers m _ _ t0 .openStream trivial k hf hk hty hpe ?_ ?_ ?_ ?_ ?_
      · rw [setOut_out]; simp [Outgoing.step]
      · intro t ht; rw [setOut_out]; simp [ht]
      · intro t; rw [setOut_inc]
      · simp [evIds, openedOf, Outgoing.step]
      · simp [Outgoing.step]
  | openSync t0 c b =>
    simp only
    split
    · exact CompTr.silent pers m m _ (fun _ => rfl) (fun _ => rfl) rfl rfl
    · obtain ⟨hf, ⟨k, hk⟩, hty, hpe⟩ := OF t0
      refine CompTr.of_out pers m _ _ t0 (.syncCall c b) trivial k hf hk hty hpe ?_ ?_ ?_ ?_ ?_
      · rw [setOut_out]; simp [Outgoing.step]
      · intro t ht; rw [setOut_out]; simp [ht]
      · intro t; rw [setOut_inc]
      · simp [evIds, openedOf, Outgoing.step]
      · simp [Outgoing.step]
  | accept t0 c =>
    simp only
    split
    · exact CompTr.silent pers m m _ (fun _ => rfl) (fun _ => rfl) rfl rfl
    · refine CompTr.of_in pers m _ _ t0 (.accCall c) trivial (IF t0).1 (hdi t0) (IF t0).2 ?_ ?_ ?_ ?_ ?_
      · rw [setInc_inc]; simp [Incoming.step]
      · intro t ht; rw [setInc_inc]; simp [ht]
      · intro t; rw [setInc_out]
      · simp [evIds, Incoming.step, idsOfOptRet, streamsOfRets]
      · simp [Incoming.step]
  | cancelCtx c =>
    simp only
    have x := CompTr.of_onOut m h c (fun o => (o.cancelCtx c, ())) () (fun _ => ({} : MapEv)) (.cancelCtx c) trivial
      (fun _ => rfl) (fun _ => ⟨rfl, rfl⟩) ⟨rfl, rfl⟩ (fun _ _ => ⟨rfl, rfl⟩)
    have hinc := fun t => (onOut_inc m c (fun o => (o.cancelCtx c, ())) () t).1
    have hold := (onOut_old m c (fun o => (o.cancelCtx c, ())) () (fun o h => h) h.oldOut).2
    have y := CompTr.of_onIn (pers := pers) (m.onOut c (fun o => (o.cancelCtx c, ())) ()).1
      (fun t => by rw [hinc]; exact (IF t).1) (fun t => by rw [hinc]; exact hdi t) (fun t => by rw [hinc]; exact (IF t).2)
      (by rw [hold]; exact h.oldIn) c (fun i => (i.cancelCtx c, ())) () (fun _ => ({} : MapEv)) (.cancelCtx c)
      (fun _ => trivial) (fun _ => rfl) (fun _ => ⟨rfl, rfl⟩) ⟨rfl, rfl⟩ (fun _ _ => ⟨rfl, rfl⟩)
    exact x.comp y rfl rfl
  | outRecv c =>
    exact CompTr.of_onOut m h c (fun o => (o.recv c, ())) () (fun _ => ({} : MapEv)) (.recv c) trivial
      (fun _ => rfl) (fun _ => ⟨rfl, rfl⟩) ⟨rfl, rfl⟩ (fun _ _ => ⟨rfl, rfl⟩)
  | outCtxDone c =>
    exact CompTr.of_onOut m h c (fun o => (o.ctxDone c, ())) () (fun _ => ({} : MapEv)) (.ctxDone c) trivial
      (fun _ => rfl) (fun _ => ⟨rfl, rfl⟩) ⟨rfl, rfl⟩ (fun _ _ => ⟨rfl, rfl⟩)
  | outWakeLocked c =>
    exact CompTr.of_onOut m h c (fun o => o.wakeLocked c) none (fun r => ({ rets := optRet c r } : MapEv)) (.wakeLocked c) trivial
      (fun _ => rfl)
      (fun o => ⟨by simp [evIds, openedOf, Outgoing.step, idsOfOptRet], by simp [Outgoing.step]⟩)
      ⟨rfl, rfl⟩
      (fun o hc => ⟨by rw [evIds_rets]; exact (wakeLocked_closed o c hc).2, rfl⟩)
  | outCancelLocked c =>
    exact CompTr.of_onOut m h c (fun o => o.cancelLocked c) none (fun r => ({ rets := optRet c r } : MapEv)) (.cancelLocked c) trivial
      (fun _ => rfl)
      (fun o => ⟨by simp [evIds, openedOf, Outgoing.step, idsOfOptRet], by simp [Outgoing.step]⟩)
      ⟨rfl, rfl⟩
      (fun o _ => ⟨by rw [evIds_rets]; exact (cancelLocked_closed o c).2, rfl⟩)
  | accLocked c =>
    exact CompTr.of_onIn (pers := pers) m (fun t => (IF t).1) hdi (fun t => (IF t).2) h.oldIn c (fun i => i.accLocked c) (none, [])
      (fun x => ({ rets := optRet c x.1, frames := x.2 } : MapEv)) (.accLocked c) (fun _ => trivial)
      (fun t => (in_step_accLocked _ c (hdi t)).symm)
      (fun t => ⟨by simp [evIds, Incoming.step, hdi t, idsOfOptRet, optRet]; cases ((m.inc t).accLocked c).2.1 <;> rfl,
                 by simp [Incoming.step, hdi t]⟩)
      ⟨rfl, rfl⟩
      (fun i hc => ⟨by rw [evIds_rets]; exact (accLocked_closed i c hc).2.1, (accLocked_closed i c hc).2.2⟩)
  | accRecv c =>
    exact CompTr.of_onIn (pers := pers) m (fun t => (IF t).1) hdi (fun t => (IF t).2) h.oldIn c (fun i => (i.accRecv c, ())) ()
      (fun _ => ({} : MapEv)) (.accRecv c) (fun _ => trivial) (fun _ => rfl) (fun _ => ⟨rfl, rfl⟩) ⟨rfl, rfl⟩
      (fun _ _ => ⟨rfl, rfl⟩)
  | accCtx c =>
    exact CompTr.of_onIn (pers := pers) m (fun t => (IF t).1) hdi (fun t => (IF t).2) h.oldIn c (fun i => i.accCtx c) none
      (fun r => ({ rets := optRet c r } : MapEv)) (.accCtx c) (fun _ => trivial) (fun _ => rfl)
      (fun t => ⟨by simp [evIds, Incoming.step, idsOfOptRet, optRet]; cases ((m.inc t).accCtx c).2 <;> rfl,
                 by simp [Incoming.step]⟩)
      ⟨rfl, rfl⟩
      (fun i _ => ⟨by rw [evIds_rets]; exact (accCtx_closed i c).2, rfl⟩)
  | recvFrame id =>
    simp only [Map.getReceiveStream]
    cases ht : typeOf id with
    | uni =>
      simp only
      split
      · exact CompTr.silent pers m m _ (fun _ => rfl) (fun _ => rfl) rfl rfl
      · next hi => exact CompTr.of_getOrOpen hnb hnu m h hd' id hw hi .uni ht _ _ rfl rfl rfl
    | bidi =>
      simp only
      split
      · exact CompTr.silent pers m m _ (fun _ => rfl) (fun _ => rfl) rfl rfl
      · next hi => exact CompTr.of_getOrOpen hnb hnu m h hd' id hw hi .bidi ht _ _ rfl rfl rfl
  | sendFrame id =>
    simp only [Map.getSendStream]
    cases ht : typeOf id with
    | uni =>
      simp only
      split <;> exact CompTr.silent pers m m _ (fun _ => rfl) (fun _ => rfl) rfl rfl
    | bidi =>
      simp only
      split
      · exact CompTr.silent pers m m _ (fun _ => rfl) (fun _ => rfl) rfl rfl
      · next hi => exact CompTr.of_getOrOpen hnb hnu m h hd' id hw hi .bidi ht _ _ rfl rfl rfl
  | delete id =>
    simp only [Map.deleteStream]
    split
    · obtain ⟨hf, ⟨k, hk⟩, hty, hpe⟩ := OF (typeOf id)
      refine CompTr.of_out pers m _ _ (typeOf id) (.delete id) trivial k hf hk hty hpe ?_ ?_ ?_ ?_ ?_
      · rw [setOut_out]; simp [Outgoing.step]
      · intro t ht; rw [setOut_out]; simp [ht]
      · intro t; rw [setOut_inc]
      · simp [evIds, openedOf, Outgoing.step, idsOfOptRet, streamsOfRets]
      · simp [Outgoing.step]
    · refine CompTr.of_in pers m _ _ (typeOf id) (.delete id) trivial (IF _).1 (hdi _) (IF _).2 ?_ ?_ ?_ ?_ ?_
      · rw [setInc_inc]; simp [in_step_delete _ _ (hdi _)]
      · intro t ht; rw [setInc_inc]; simp [ht]
      · intro t; rw [setInc_out]
      · simp [evIds, Incoming.step, hdi, idsOfOptRet, streamsOfRets]
      · simp [Incoming.step, hdi]
  | maxStreams t0 n =>
    simp only [Map.handleMaxStreams]
    obtain ⟨hf, ⟨k, hk⟩, hty, hpe⟩ := OF t0
    refine CompTr.of_out pers m _ _ t0 (.setMax n) hw k hf hk hty hpe ?_ ?_ ?_ ?_ ?_
    · rw [setOut_out]; simp [Outgoing.step, hty, hpe, hp]
    · intro t ht; rw [setOut_out]; simp [ht]
    · intro t; rw [setOut_inc]
    · simp [evIds, openedOf, Outgoing.step, idsOfOptRet, streamsOfRets]
    · simp [Outgoing.step, hty, hpe, hp]
  | params nb' nu' =>
    simp only [Map.handleParams, Map.handleMaxStreams]
    obtain ⟨hf1, ⟨k1, hk1⟩, hty1, hpe1⟩ := OF .bidi
    obtain ⟨hf2, ⟨k2, hk2⟩, hty2, hpe2⟩ := OF .uni
    have x : CompTr pers m (m.setOut .bidi ((m.out .bidi).setMaxStream (numToID nb' .bidi m.pers)).1)
        ({ frames := ((m.out .bidi).setMaxStream (numToID nb' .bidi m.pers)).2 } : MapEv) := by
      refine CompTr.of_out pers m _ _ .bidi (.setMax nb') hw.1 k1 hf1 hk1 hty1 hpe1 ?_ ?_ ?_ ?_ ?_
      · rw [setOut_out]; simp [Outgoing.step, hty1, hpe1, hp]
      · intro t ht; rw [setOut_out]; simp [ht]
      · intro t; rw [setOut_inc]
      · simp [evIds, openedOf, Outgoing.step, idsOfOptRet, streamsOfRets]
      · simp [Outgoing.step, hty1, hpe1, hp]
    have y : CompTr pers (m.setOut .bidi ((m.out .bidi).setMaxStream (numToID nb' .bidi m.pers)).1)
        ((m.setOut .bidi ((m.out .bidi).setMaxStream (numToID nb' .bidi m.pers)).1).setOut .uni
          ((m.out .uni).setMaxStream (numToID nu' .uni m.pers)).1)
        ({ frames := ((m.out .uni).setMaxStream (numToID nu' .uni m.pers)).2 } : MapEv) := by
      refine CompTr.of_out pers _ _ _ .uni (.setMax nu') hw.2 k2 hf2 hk2 hty2 hpe2 ?_ ?_ ?_ ?_ ?_
      · rw [setOut_out]
        show _ = ((m.out .uni).step (.setMax nu')).1
        simp [Outgoing.step, hty2, hpe2, hp]
      · intro t ht; rw [setOut_out]; simp [ht]
      · intro t; rw [setOut_inc]
      · show _ = openedOf ((m.out .uni).step (.setMax nu')).2
        simp [evIds, openedOf, Outgoing.step, idsOfOptRet, streamsOfRets]
      · show _ = ((m.out .uni).step (.setMax nu')).2.frames
        simp [Outgoing.step, hty2, hpe2, hp]
    exact x.comp y rfl rfl
  | close e =>
    simp only
    exact close_tr hnb hnu m h hd' e _ rfl rfl
  | resetFor0RTT => exact absurd rfl hnr
  | useResetMaps => exact CompTr.silent pers m _ _ (fun t => by cases t <;> rfl) (fun t => by cases t <;> rfl) rfl rfl

end Uquic.Proofs.Streams
