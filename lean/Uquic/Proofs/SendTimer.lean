/-
C01 (glue): the run-loop timer covers every deadline the connection may act on in its blocking mode.
-/
import Uquic.Model.Conn.Timer

namespace Uquic.Proofs.Timer
open Uquic.Model.Conn.Timer

theorem fold_le (d : Int) (o : Option Int) : fold d o ≤ d := by
  unfold fold; split
  · split <;> omega
  · omega

theorem fold_le_some (d t : Int) : fold d (some t) ≤ t := by
  unfold fold; simp only; split <;> omega

end Uquic.Proofs.Timer

namespace Uquic.Proofs.Timer
open Uquic.Model.Conn.Timer

theorem deadline_le_base (i : Input) : deadline i ≤ baseDeadline i := by
  unfold deadline
  simp only
  split
  · omega
  · split
    · exact Int.le_trans (fold_le _ _) (fold_le _ _)
    · exact Int.le_trans (fold_le _ _) (Int.le_trans (fold_le _ _) (fold_le _ _))

theorem deadline_le_loss (i : Input) (hb : i.blocked ≠ .hardBlocked) (t : Int) (hl : i.loss = some t) : deadline i ≤ t := by
  unfold deadline
  have hb' : (i.blocked == Blocked.hardBlocked) = false := by simp [hb]
  simp only [hb', Bool.false_eq_true, ↓reduceIte, hl]
  split
  · exact fold_le_some _ _
  · exact Int.le_trans (fold_le _ _) (fold_le_some _ _)

theorem deadline_le_ack (i : Input) (hb : i.blocked ≠ .hardBlocked) (t : Int) (ha : i.ackAlarm = some t) : deadline i ≤ t := by
  unfold deadline
  have hb' : (i.blocked == Blocked.hardBlocked) = false := by simp [hb]
  simp only [hb', Bool.false_eq_true, ↓reduceIte, ha]
  split
  · exact Int.le_trans (fold_le _ _) (fold_le_some _ _)
  · exact Int.le_trans (fold_le _ _) (Int.le_trans (fold_le _ _) (fold_le_some _ _))

theorem deadline_le_pacing (i : Input) (hb : i.blocked = .none) (t : Int) (hp : i.pacing = some t) : deadline i ≤ t := by
  unfold deadline
  simp only [hb, hp]
  exact fold_le_some _ _

end Uquic.Proofs.Timer
