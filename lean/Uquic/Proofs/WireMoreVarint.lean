import Uquic.Proofs.WireVarint
import Uquic.Model.Wire.MoreVarint

/-! `quicvarint.Read` (byte-reader variant) agrees with `quicvarint.Parse`. -/

set_option linter.unusedSimpArgs false

namespace Uquic.Proofs.WireMore
open Uquic.Proofs.Wire
open Uquic.Model.Wire Uquic.Model.Wire.Varint Uquic.Model.Wire.Varint.BR

theorem pow_class (x : Nat) (h : x < 256) :
    (x / 64 = 0 ∧ 2 ^ (x / 64) = 1) ∨ (x / 64 = 1 ∧ 2 ^ (x / 64) = 2) ∨ (x / 64 = 2 ∧ 2 ^ (x / 64) = 4)
      ∨ (x / 64 = 3 ∧ 2 ^ (x / 64) = 8) := by
  have : x / 64 = 0 ∨ x / 64 = 1 ∨ x / 64 = 2 ∨ x / 64 = 3 := by omega
  rcases this with h | h | h | h <;> simp [h]

/-- whenever `Parse` succeeds on the unread bytes, `Read` returns the same value and leaves the reader
    exactly `n` bytes further -/
theorem readBR_of_parse (b : Bytes) (v n : Nat) (h : parse b = .ok (v, n)) : readBR b = (some v, b.drop n) := by
  match b with
  | [] => simp [parse] at h
  | b0 :: rest =>
    rcases pow_class b0.toNat b0.toNat_lt with ⟨hq, hp⟩ | ⟨hq, hp⟩ | ⟨hq, hp⟩ | ⟨hq, hp⟩
    · rw [parse_w1 _ _ hq] at h
      simp only [Except.ok.injEq, Prod.mk.injEq] at h
      obtain ⟨rfl, rfl⟩ := h
      simp [readBR, readByte, hp]
    · match rest with
      | [] => simp [parse, hq] at h
      | b1 :: r =>
        rw [parse_w2 _ _ _ hq] at h
        simp only [Except.ok.injEq, Prod.mk.injEq] at h
        obtain ⟨rfl, rfl⟩ := h
        simp [readBR, readByte, hp]
    · match rest with
      | [] => simp [parse, hq] at h
      | [_] => simp [parse, hq] at h
      | [_, _] => simp [parse, hq] at h
      | b1 :: b2 :: b3 :: r =>
        rw [parse_w4 _ _ _ _ _ hq] at h
        simp only [Except.ok.injEq, Prod.mk.injEq] at h
        obtain ⟨rfl, rfl⟩ := h
        simp [readBR, readByte, hp]
    · match rest with
      | [] => simp [parse, hq] at h
      | [_] => simp [parse, hq] at h
      | [_, _] => simp [parse, hq] at h
      | [_, _, _] => simp [parse, hq] at h
      | [_, _, _, _] => simp [parse, hq] at h
      | [_, _, _, _, _] => simp [parse, hq] at h
      | [_, _, _, _, _, _] => simp [parse, hq] at h
      | b1 :: b2 :: b3 :: b4 :: b5 :: b6 :: b7 :: r =>
        rw [parse_w8 _ _ _ _ _ _ _ _ _ hq] at h
        simp only [Except.ok.injEq, Prod.mk.injEq] at h
        obtain ⟨rfl, rfl⟩ := h
        simp [readBR, readByte, hp]

/-- whenever `Parse` fails (`io.EOF` on an empty slice, `io.ErrUnexpectedEOF` on a truncated one),
    `Read` fails too — with the reader's own error — after having drained the reader -/
theorem readBR_of_parse_error (b : Bytes) (e : VErr) (h : parse b = .error e) : readBR b = (none, []) := by
  match b with
  | [] => simp [readBR, readByte]
  | b0 :: rest =>
    rcases pow_class b0.toNat b0.toNat_lt with ⟨hq, hp⟩ | ⟨hq, hp⟩ | ⟨hq, hp⟩ | ⟨hq, hp⟩
    · rw [parse_w1 _ _ hq] at h; simp at h
    · match rest with
      | [] => simp [readBR, readByte, hp]
      | b1 :: r => rw [parse_w2 _ _ _ hq] at h; simp at h
    · match rest with
      | [] => simp [readBR, readByte, hp]
      | [_] => simp [readBR, readByte, hp]
      | [_, _] => simp [readBR, readByte, hp]
      | b1 :: b2 :: b3 :: r => rw [parse_w4 _ _ _ _ _ hq] at h; simp at h
    · match rest with
      | [] => simp [readBR, readByte, hp]
      | [_] => simp [readBR, readByte, hp]
      | [_, _] => simp [readBR, readByte, hp]
      | [_, _, _] => simp [readBR, readByte, hp]
      | [_, _, _, _] => simp [readBR, readByte, hp]
      | [_, _, _, _, _] => simp [readBR, readByte, hp]
      | [_, _, _, _, _, _] => simp [readBR, readByte, hp]
      | b1 :: b2 :: b3 :: b4 :: b5 :: b6 :: b7 :: r => rw [parse_w8 _ _ _ _ _ _ _ _ _ hq] at h; simp at h

/-- the branch-for-branch model of `Read` is the `read` the `wire` correspondence driver compares with
    the real code: same value, same number of bytes taken from the reader -/
theorem readBR_eq_read (b : Bytes) : (readBR b).1 = (Varint.read b).1 ∧ b.length - (readBR b).2.length = (Varint.read b).2 := by
  unfold Varint.read
  cases h : parse b with
  | ok x =>
    obtain ⟨v, n⟩ := x
    obtain ⟨hn, _⟩ := parse_ok_inv b v n h
    rw [readBR_of_parse b v n h]
    simp only [List.length_drop, true_and]
    omega
  | error e =>
    rw [readBR_of_parse_error b e h]
    cases b <;> simp

end Uquic.Proofs.WireMore
