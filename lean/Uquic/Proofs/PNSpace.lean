/-
Helper lemmas for C05: packet numbers stay fresh across ResetForRetry.
-/
import Uquic.Model.Crypto.PNSpace
import Uquic.Proofs.PNGen

namespace Uquic.Proofs.PNSpace
open Uquic.Model.PN Uquic.Model.PNSpace Uquic.Proofs.PNGen

theorem peek_ge_next (g : SkipGen) : g.next ≤ g.peek := by
  unfold SkipGen.peek; split <;> omega

theorem new_next (i p m d : Int) : (SkipGen.new i p m d).next = i := by
  simp [SkipGen.new, SkipGen.generateNewSkip]

theorem runApp_props (ops : List AppOp) : ∀ (g : SkipGen), WF g →
    (∀ op ∈ ops, match op with | .pop d => 0 ≤ d | .retry d => 0 ≤ d) →
    (∀ o ∈ runApp g ops, g.next ≤ o) ∧ List.Pairwise (· < ·) (runApp g ops) := by
  induction ops with
  | nil => intro g _ _; simp [runApp]
  | cons op rest ih =>
    intro g hwf hd
    have hrest : ∀ op ∈ rest, match op with | .pop d => 0 ≤ d | .retry d => 0 ≤ d :=
      fun o ho => hd o (List.mem_cons_of_mem _ ho)
    cases op with
    | pop d =>
      have hd0 : 0 ≤ d := hd (.pop d) (by simp)
      obtain ⟨ih1, ih2⟩ := ih (g.pop d).1 (pop_wf g d hd0 hwf) hrest
      have ⟨hgt, hge⟩ := pop_next_gt g d
      simp only [runApp]
      refine ⟨?_, ?_⟩
      · intro o ho
        simp only [List.mem_cons] at ho
        rcases ho with rfl | ho
        · exact hge
        · have := ih1 o ho; omega
      · simp only [List.pairwise_cons]
        exact ⟨fun b hb => by have := ih1 b hb; omega, ih2⟩
    | retry d =>
      have hd0 : 0 ≤ d := hd (.retry d) (by simp)
      obtain ⟨ih1, ih2⟩ := ih (SkipGen.new g.peek skipInitialPeriod skipMaxPeriod d) (new_wf _ _ _ d hd0) hrest
      simp only [runApp]
      refine ⟨?_, ih2⟩
      intro o ho
      have := ih1 o ho
      rw [new_next] at this
      have := peek_ge_next g
      omega

theorem runSeq_props (ops : List SeqOp) : ∀ (g : SeqGen),
    (∀ o ∈ runSeq g ops, g.next ≤ o) ∧ List.Pairwise (· < ·) (runSeq g ops) := by
  induction ops with
  | nil => intro g; simp [runSeq]
  | cons op rest ih =>
    intro g
    cases op with
    | pop =>
      obtain ⟨ih1, ih2⟩ := ih g.pop.1
      simp only [runSeq, SeqGen.pop] at *
      refine ⟨?_, ?_⟩
      · intro o ho
        simp only [List.mem_cons] at ho
        rcases ho with rfl | ho
        · exact Int.le_refl _
        · have := ih1 o ho; omega
      · simp only [List.pairwise_cons]
        exact ⟨fun b hb => by have := ih1 b hb; omega, ih2⟩
    | retry =>
      obtain ⟨ih1, ih2⟩ := ih { next := g.peek }
      simp only [runSeq, SeqGen.peek] at *
      exact ⟨ih1, ih2⟩

end Uquic.Proofs.PNSpace
