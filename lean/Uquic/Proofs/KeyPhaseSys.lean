/-
Two-party invariant for C05: the key generations of two honest endpoints never differ by more than one,
whatever the network does.
-/
import Uquic.Spec.KeyPhaseSys
import Uquic.Proofs.KeyPhase

namespace Uquic.Proofs.KeyPhaseSys
open Uquic.Model.KeyPhase Uquic.Spec.KeyPhaseSys Uquic.Proofs.KeyPhase

/-- facts about side `x` relative to its peer `y` -/
structure SideInv (x y : Side) : Prop where
  ph : 0 ≤ x.ka.keyPhase
  lastGe : -1 ≤ x.last
  sentOk : ∀ q ∈ x.sent, q.1 ≤ x.ka.keyPhase ∧ q.2 ≤ x.last ∧
    (x.ka.firstSentWithCurrentKey ≠ -1 → q.2 ≥ x.ka.firstSentWithCurrentKey → q.1 = x.ka.keyPhase) ∧
    (x.ka.firstSentWithCurrentKey = -1 → q.1 < x.ka.keyPhase)
  fsLast : x.ka.firstSentWithCurrentKey ≠ -1 → x.ka.firstSentWithCurrentKey ≤ x.last
  laLast : x.ka.largestAcked ≤ x.last
  /-- what the peer opened are packets `x` sealed, of a generation the peer has reached -/
  openedOk : ∀ q ∈ y.opened, q ∈ x.sent ∧ q.1 ≤ y.ka.keyPhase
  /-- an accepted ACK for a packet of the current phase means the peer has reached this phase -/
  acked : x.ka.firstSentWithCurrentKey ≠ -1 → x.ka.largestAcked ≥ x.ka.firstSentWithCurrentKey →
    y.ka.keyPhase ≥ x.ka.keyPhase
  lock : x.ka.keyPhase ≤ y.ka.keyPhase + 1

theorem init_inv : SideInv {} {} := by
  constructor <;> simp <;> decide

/-- fields of the AEAD after `KeyPhase()` -/
theorem kpb_fields (a : KA) (e : Env) :
    let a' := (a.keyPhaseBit e).1
    (a'.keyPhase = a.keyPhase ∧ a'.firstSentWithCurrentKey = a.firstSentWithCurrentKey ∧ a'.largestAcked = a.largestAcked) ∨
    (a'.keyPhase = a.keyPhase + 1 ∧ a'.firstSentWithCurrentKey = -1 ∧ a'.largestAcked = a.largestAcked ∧
      a.updateAllowed = true) := by
  unfold KA.keyPhaseBit
  by_cases h : a.shouldInitiateKeyUpdate e = true
  · right; simp only [h, if_true]; exact ⟨rfl, rfl, rfl, shouldInitiate_allowed a e h⟩
  · left; simp [h]

/-- fields of the AEAD after `Seal(pn)` -/
theorem seal_fields (a : KA) (pn : Int) :
    (a.seal pn).1.keyPhase = a.keyPhase ∧ (a.seal pn).1.largestAcked = a.largestAcked ∧
    (a.seal pn).1.firstSentWithCurrentKey = (if a.firstSentWithCurrentKey = -1 then pn else a.firstSentWithCurrentKey) := by
  unfold KA.seal
  rw [invalidPN_eq]
  by_cases c1 : a.firstSentWithCurrentKey = -1 <;> by_cases c2 : a.firstPacketNumber = -1 <;> simp [c1, c2]

/-- fields of the AEAD after `Open`: with `d` the decision taken -/
theorem open_fields (a : KA) (e : Env) (t pn kp : Int) (p : Pkt) :
    let d := (a.dropExpired t).openDecide pn kp p
    let a' := (a.open e t pn kp p).1
    ((a.open e t pn kp p).2 = .ok ↔ d.1 = .ok) ∧
    a'.keyPhase = (if d = (.ok, .next) then a.keyPhase + 1 else a.keyPhase) ∧
    a'.firstSentWithCurrentKey = (if d = (.ok, .next) then -1 else a.firstSentWithCurrentKey) ∧
    a'.largestAcked = a.largestAcked := by
  obtain ⟨_, hok, _⟩ := openU_fst a e t pn kp p
  obtain ⟨y1, y2, y3, _⟩ := openU_state a e t pn kp p
  obtain ⟨f1, f2, _⟩ := openApply_fields (a.dropExpired t) e t pn ((a.dropExpired t).openDecide pn kp p)
  have f0 := openApply_phase (a.dropExpired t) e t pn ((a.dropExpired t).openDecide pn kp p)
  obtain ⟨e1, e2, _, _, e5, _⟩ := dropExpired_fields a t
  have hopen : (a.open e t pn kp p) = ((a.openU e t pn kp p).1, (a.openU e t pn kp p).2.1) := by simp [KA.open]
  simp only [hopen]
  refine ⟨hok, ?_, ?_, ?_⟩
  · rw [y1, f0, e1]
  · rw [y2, f1, e2, invalidPN_eq]
  · rw [y3, f2, e5]

/-- the generation of an authentic packet that `Open` accepted, relative to the phase before/after -/
theorem open_ok_gen (a : KA) (e : Env) (t pn : Int) (g : Int)
    (h : (a.open e t pn (bit g) { gen := g, authentic := true }).2 = .ok) :
    g ≤ (a.open e t pn (bit g) { gen := g, authentic := true }).1.keyPhase ∧
    ((a.open e t pn (bit g) { gen := g, authentic := true }).1.keyPhase ≠ a.keyPhase → g = a.keyPhase + 1) := by
  obtain ⟨hok, hk, _, _⟩ := open_fields a e t pn (bit g) { gen := g, authentic := true }
  have h' := hok.1 h
  obtain ⟨d1, _⟩ := dropExpired_fields a t
  have hs := openDecide_ok (a.dropExpired t) pn (bit g) { gen := g, authentic := true }
    ((a.dropExpired t).openDecide pn (bit g) { gen := g, authentic := true }).2 (by rw [← h'])
  rw [d1] at hs
  simp only at hs
  rw [hk]
  rcases hs.2 with ⟨hu, hg, _⟩ | ⟨hu, hg, _⟩ | ⟨hu, hg, _⟩
  · have hd : (a.dropExpired t).openDecide pn (bit g) { gen := g, authentic := true } ≠ (.ok, .next) := by
      intro hc; rw [hc] at hu; cases hu
    simp [hd]; omega
  · have hd : (a.dropExpired t).openDecide pn (bit g) { gen := g, authentic := true } ≠ (.ok, .next) := by
      intro hc; rw [hc] at hu; cases hu
    simp [hd]; omega
  · have hd : (a.dropExpired t).openDecide pn (bit g) { gen := g, authentic := true } = (.ok, .next) := by
      apply Prod.ext
      · exact h'
      · exact hu
    simp [hd]; omega

/-- an unauthentic packet never changes the key phase, the first sent number or the largest acked -/
theorem junk_fields (a : KA) (e : Env) (t pn kp gen : Int) :
    let a' := (a.open e t pn kp { gen := gen, authentic := false }).1
    a'.keyPhase = a.keyPhase ∧ a'.firstSentWithCurrentKey = a.firstSentWithCurrentKey ∧ a'.largestAcked = a.largestAcked := by
  obtain ⟨_, hk, hf, hl⟩ := open_fields a e t pn kp { gen := gen, authentic := false }
  have hd : (a.dropExpired t).openDecide pn kp { gen := gen, authentic := false } ≠ (.ok, .next) := by
    intro hc
    have := openDecide_ok _ pn kp { gen := gen, authentic := false } .next hc
    simp at this
  simp only [hd, if_false] at hk hf
  exact ⟨hk, hf, hl⟩



/-- a local roll is only possible when the peer has reached our phase -/
theorem roll_needs_peer (x y : Side) (hx : SideInv x y) (hy : SideInv y x) (h : x.ka.updateAllowed = true) :
    x.ka.keyPhase ≤ y.ka.keyPhase := by
  have := (updateAllowed_iff x.ka).1 h
  rcases this.2 with h0 | ⟨h1, _, h3⟩
  · have := hy.ph; omega
  · exact hx.acked (by rwa [invalidPN_eq] at h1) h3

theorem kp_inv (e : Env) (x y : Side) (hx : SideInv x y) (hy : SideInv y x) :
    SideInv { x with ka := (x.ka.keyPhaseBit e).1 } y ∧ SideInv y { x with ka := (x.ka.keyPhaseBit e).1 } := by
  obtain ⟨x1, x2, x3, x4, x5, x6, x7, x8⟩ := hx
  obtain ⟨y1, y2, y3, y4, y5, y6, y7, y8⟩ := hy
  have hroll := roll_needs_peer x y ⟨x1, x2, x3, x4, x5, x6, x7, x8⟩ ⟨y1, y2, y3, y4, y5, y6, y7, y8⟩
  rcases kpb_fields x.ka e with ⟨k, f, l⟩ | ⟨k, f, l, ha⟩
  · refine ⟨⟨?_, x2, ?_, ?_, ?_, x6, ?_, ?_⟩, ⟨y1, y2, y3, y4, y5, ?_, ?_, ?_⟩⟩ <;> simp only [k, f, l] <;> assumption
  · have hk := hroll ha
    refine ⟨⟨?_, x2, ?_, ?_, ?_, x6, ?_, ?_⟩, ⟨y1, y2, y3, y4, y5, ?_, ?_, ?_⟩⟩ <;> simp only [k, f, l]
    · omega
    · intro q hq; obtain ⟨a1, a2, _, _⟩ := x3 q hq
      exact ⟨by omega, a2, fun h => absurd rfl h, fun _ => by omega⟩
    · intro h; exact absurd rfl h
    · exact x5
    · intro h; exact absurd rfl h
    · omega
    · intro q hq; obtain ⟨a1, a2⟩ := y6 q hq; exact ⟨a1, by omega⟩
    · intro h1 h2; have := y7 h1 h2; omega
    · omega

theorem seal_inv (e : Env) (x y : Side) (pn : Int) (hpn : x.last < pn) (hx : SideInv x y) (hy : SideInv y x) :
    SideInv (Act.apply e x (.sealPkt pn)) y ∧ SideInv y (Act.apply e x (.sealPkt pn)) := by
  obtain ⟨hx', hy'⟩ := kp_inv e x y hx hy
  generalize hx1 : ({ x with ka := (x.ka.keyPhaseBit e).1 } : Side) = x1 at hx' hy'
  have hap : Act.apply e x (.sealPkt pn) =
      { x1 with ka := (x1.ka.seal pn).1, last := pn, sent := (x1.ka.keyPhase, pn) :: x1.sent } := by
    subst hx1; rfl
  have hl : x1.last < pn := by subst hx1; exact hpn
  rw [hap]
  obtain ⟨x1_, x2, x3, x4, x5, x6, x7, x8⟩ := hx'
  obtain ⟨y1, y2, y3, y4, y5, y6, y7, y8⟩ := hy'
  obtain ⟨k, l, f⟩ := seal_fields x1.ka pn
  refine ⟨⟨?_, ?_, ?_, ?_, ?_, ?_, ?_, ?_⟩, ⟨y1, y2, y3, y4, y5, ?_, ?_, ?_⟩⟩ <;> simp only [k, l, f]
  · exact x1_
  · omega
  · intro q hq
    simp only [List.mem_cons] at hq
    rcases hq with rfl | hq
    · refine ⟨Int.le_refl _, Int.le_refl _, fun _ _ => rfl, ?_⟩
      split <;> intro h <;> omega
    · obtain ⟨a1, a2, a3, a4⟩ := x3 q hq
      refine ⟨a1, by omega, ?_, ?_⟩
      · split
        · intro _ h; omega
        · rename_i hf; intro _ h; exact a3 hf h
      · split
        · intro h; omega
        · rename_i hf; intro h; exact absurd h hf
  · split
    · intro _; exact Int.le_refl _
    · rename_i hf; intro _; have := x4 hf; omega
  · omega
  · intro q hq; obtain ⟨a1, a2⟩ := x6 q hq; exact ⟨List.mem_cons_of_mem _ a1, a2⟩
  · split
    · intro _ h; omega
    · rename_i hf; intro _ h; exact x7 hf h
  · exact x8
  · exact y6
  · exact y7
  · exact y8

theorem recv_inv (e : Env) (x y : Side) (q : Int × Int) (t : Int) (hq : q ∈ y.sent) (hx : SideInv x y) (hy : SideInv y x) :
    SideInv (Act.apply e x (.recv q t)) y ∧ SideInv y (Act.apply e x (.recv q t)) := by
  obtain ⟨x1, x2, x3, x4, x5, x6, x7, x8⟩ := hx
  obtain ⟨y1, y2, y3, y4, y5, y6, y7, y8⟩ := hy
  obtain ⟨hok, hk, hf, hl⟩ := open_fields x.ka e t q.2 (bit q.1) { gen := q.1, authentic := true }
  have hgen := open_ok_gen x.ka e t q.2 q.1
  obtain ⟨q1, _, _, _⟩ := y3 q hq
  simp only [Act.apply]
  generalize hr : x.ka.open e t q.2 (bit q.1) { gen := q.1, authentic := true } = r at *
  generalize hd : (x.ka.dropExpired t).openDecide q.2 (bit q.1) { gen := q.1, authentic := true } = d at *
  by_cases hn : d = (.ok, .next)
  · -- remote key update accepted
    simp only [hn, if_true] at hk hf
    have hrok : r.2 = .ok := hok.2 (by rw [hn])
    obtain ⟨g1, g2⟩ := hgen hrok
    have hg : q.1 = x.ka.keyPhase + 1 := g2 (by omega)
    refine ⟨⟨?_, x2, ?_, ?_, ?_, x6, ?_, ?_⟩, ⟨y1, y2, y3, y4, y5, ?_, ?_, ?_⟩⟩ <;> simp only [hk, hf, hl, hrok, if_true]
    · omega
    · intro p hp; obtain ⟨a1, a2, _, _⟩ := x3 p hp
      exact ⟨by omega, a2, fun h => absurd rfl h, fun _ => by omega⟩
    · intro h; exact absurd rfl h
    · exact x5
    · intro h; exact absurd rfl h
    · omega
    · intro p hp
      simp only [List.mem_cons] at hp
      rcases hp with rfl | hp
      · exact ⟨hq, by omega⟩
      · obtain ⟨a1, a2⟩ := y6 p hp; exact ⟨a1, by omega⟩
    · intro h1 h2; have := y7 h1 h2; omega
    · omega
  · simp only [hn, if_false] at hk hf
    refine ⟨⟨?_, x2, ?_, ?_, ?_, x6, ?_, ?_⟩, ⟨y1, y2, y3, y4, y5, ?_, ?_, ?_⟩⟩ <;> simp only [hk, hf, hl] <;> try assumption
    intro p hp
    split at hp
    · rename_i hrok
      simp only [List.mem_cons] at hp
      rcases hp with rfl | hp
      · have := (hgen hrok).1; rw [hk] at this; exact ⟨hq, this⟩
      · exact y6 p hp
    · exact y6 p hp

theorem junk_inv (e : Env) (x y : Side) (t pn kpb gen : Int) (hx : SideInv x y) (hy : SideInv y x) :
    SideInv (Act.apply e x (.junk t pn kpb gen)) y ∧ SideInv y (Act.apply e x (.junk t pn kpb gen)) := by
  obtain ⟨x1, x2, x3, x4, x5, x6, x7, x8⟩ := hx
  obtain ⟨y1, y2, y3, y4, y5, y6, y7, y8⟩ := hy
  obtain ⟨k, f, l⟩ := junk_fields x.ka e t pn kpb gen
  simp only [Act.apply]
  refine ⟨⟨?_, x2, ?_, ?_, ?_, x6, ?_, ?_⟩, ⟨y1, y2, y3, y4, y5, ?_, ?_, ?_⟩⟩ <;> simp only [k, f, l] <;> assumption

theorem ack_inv (e : Env) (x y : Side) (pn : Int) (hv : ∃ g, (g, pn) ∈ y.opened) (hx : SideInv x y) (hy : SideInv y x) :
    SideInv (Act.apply e x (.ack pn)) y ∧ SideInv y (Act.apply e x (.ack pn)) := by
  obtain ⟨x1, x2, x3, x4, x5, x6, x7, x8⟩ := hx
  obtain ⟨y1, y2, y3, y4, y5, y6, y7, y8⟩ := hy
  obtain ⟨g, hg⟩ := hv
  obtain ⟨hs, hgy⟩ := x6 _ hg
  obtain ⟨s1, s2, s3, _⟩ := x3 _ hs
  simp only at s1 s2 s3 hgy
  simp only [Act.apply]
  unfold KA.setLargestAcked
  rw [invalidPN_eq]
  split
  · exact ⟨⟨x1, x2, x3, x4, x5, x6, x7, x8⟩, ⟨y1, y2, y3, y4, y5, y6, y7, y8⟩⟩
  · refine ⟨⟨x1, x2, x3, x4, ?_, x6, ?_, x8⟩, ⟨y1, y2, y3, y4, y5, y6, y7, y8⟩⟩ <;> simp only
    · exact s2
    · intro h1 h2; have := s3 h1 h2; omega

theorem confirm_inv (e : Env) (x y : Side) (hx : SideInv x y) (hy : SideInv y x) :
    SideInv (Act.apply e x .confirm) y ∧ SideInv y (Act.apply e x .confirm) := by
  obtain ⟨x1, x2, x3, x4, x5, x6, x7, x8⟩ := hx
  obtain ⟨y1, y2, y3, y4, y5, y6, y7, y8⟩ := hy
  exact ⟨⟨x1, x2, x3, x4, x5, x6, x7, x8⟩, ⟨y1, y2, y3, y4, y5, y6, y7, y8⟩⟩

theorem act_inv (e : Env) (x y : Side) (act : Act) (hv : act.ok x y) (hx : SideInv x y) (hy : SideInv y x) :
    SideInv (act.apply e x) y ∧ SideInv y (act.apply e x) := by
  cases act with
  | sealPkt pn => exact seal_inv e x y pn hv hx hy
  | kp => exact kp_inv e x y hx hy
  | recv q t => exact recv_inv e x y q t hv hx hy
  | junk t pn kpb gen => exact junk_inv e x y t pn kpb gen hx hy
  | ack pn => exact ack_inv e x y pn hv hx hy
  | confirm => exact confirm_inv e x y hx hy

theorem reach_inv (e : Env) (s : Sys) (h : Reach e s) : SideInv s.a s.b ∧ SideInv s.b s.a := by
  induction h with
  | init => exact ⟨init_inv, init_inv⟩
  | stepA s act _ hv ih => exact act_inv e s.a s.b act hv ih.1 ih.2
  | stepB s act _ hv ih => exact (act_inv e s.b s.a act hv ih.2 ih.1).symm

end Uquic.Proofs.KeyPhaseSys
