/-
C01: what each step of the SendStream model does to the state, in `{ s with … }` form.
-/
import Uquic.Proofs.SendInv

namespace Uquic.Proofs.Send
open Uquic.Model.Stream.Send Uquic.Spec.SendRun

theorem isNewlyCompleted_stable (s : State) : Stable s (isNewlyCompleted s).1 := by
  obtain ⟨c, hc⟩ := isNewlyCompleted_fst s
  rw [hc]; constructor <;> rfl

theorem Stable.trans {a b c : State} (h1 : Stable a b) (h2 : Stable b c) : Stable a c :=
  ⟨h2.written.trans h1.written, h2.emitted.trans h1.emitted, h2.resetErr.trans h1.resetErr,
   h2.shutdown.trans h1.shutdown, h2.finishedWriting.trans h1.finishedWriting,
   h2.reliableSize.trans h1.reliableSize, h2.supportsResetAt.trans h1.supportsResetAt, h2.sid.trans h1.sid⟩

/-! ### acked / lost -/

theorem acked_stable (s : State) (i : Nat) : Stable s (acked s i).1 := by
  unfold acked
  split
  · exact Stable.rfl' s
  · simp only
    split
    · constructor <;> rfl
    · split
      · constructor <;> rfl
      · exact Stable.trans (by constructor <;> rfl) (isNewlyCompleted_stable _)

theorem lost_stable (s : State) (i : Nat) : Stable s (lost s i).1 := by
  unfold lost
  split
  · exact Stable.rfl' s
  · simp only
    split
    · constructor <;> rfl
    · split
      · constructor <;> rfl
      · split
        · exact Stable.trans (by constructor <;> rfl) (isNewlyCompleted_stable _)
        · constructor <;> rfl

/-- `acked` on a live stream (classic reset semantics) whose count is positive -/
theorem acked_live {s : State} {i : Nat} {f : Frame} (hl : Live s) (hf : lookupOutstanding s i = some f)
    (hpos : 1 ≤ s.numOutstanding) :
    ∃ c, (acked s i).1 = { s with outstanding := removeOutstanding s i,
                                   ackedRanges := (f.offset, f.offset + f.data.length) :: s.ackedRanges,
                                   ackedFin := s.ackedFin || f.fin,
                                   numOutstanding := s.numOutstanding - 1, completed := c } := by
  unfold acked
  simp only [hf, hl.1, Option.isSome_none, Bool.false_and, Bool.false_eq_true, if_false]
  have : ¬ (s.numOutstanding - 1 < 0) := by omega
  simp only [this, if_false]
  exact isNewlyCompleted_fst _

theorem lost_live {s : State} {i : Nat} {f : Frame} (hl : Live s) (hf : lookupOutstanding s i = some f)
    (hpos : 1 ≤ s.numOutstanding) :
    (lost s i).1 = { s with outstanding := removeOutstanding s i, numOutstanding := s.numOutstanding - 1,
                             retransQ := s.retransQ ++ [{ f with dataLenPresent := true }] } := by
  unfold lost
  simp only [hf, hl.1, Option.isSome_none, Bool.false_and, Bool.false_eq_true, if_false]
  have : ¬ (s.numOutstanding - 1 < 0) := by omega
  simp only [this, if_false]

/-! ### pop -/

theorem maxDataLen_le (sid : Nat) (f : Frame) (m : Nat) : f.maxDataLen sid m ≤ m := by
  unfold Frame.maxDataLen
  simp only
  split
  · omega
  · split <;> omega

/-- the hypotheses on `nextFrame` that the invariant provides -/
def NfOk (s : State) : Prop :=
  ∀ g, s.nextFrame = some g → g.offset = s.writeOffset ∧ g.fin = false ∧ g.data ≠ [] ∧ g.data.length ≤ maxPacketBufferSize

/-- result of `popNewStreamFrame` when it returns a frame -/
def PopNewOk (s s' : State) (f : Frame) : Prop :=
  ∃ nf' dfw' sig', s' = { s with nextFrame := nf', dataForWriting := dfw', signal := sig' } ∧
    f.offset = s.writeOffset ∧ f.fin = false ∧ f.data ≠ [] ∧ f.data.length ≤ maxPacketBufferSize ∧
    tail s = f.data ++ (nfDataOf nf' ++ dfw') ∧
    (∀ g, nf' = some g → g.offset = s.writeOffset + f.data.length ∧ g.fin = false ∧ g.data ≠ [] ∧ g.data.length ≤ maxPacketBufferSize) ∧
    (s.dataForWriting = [] → dfw' = [])

theorem popNew_spec (s : State) (mb mdl : Nat) (hmb : mb ≤ maxPacketBufferSize) (hmdl : 0 < mdl)
    (hnf : NfOk s) (hne : ¬(s.dataForWriting = [] ∧ s.nextFrame = none)) :
    ((popNewStreamFrame s mb mdl).2.1 = none → (popNewStreamFrame s mb mdl).1 = s) ∧
    (∀ f, (popNewStreamFrame s mb mdl).2.1 = some f → PopNewOk s (popNewStreamFrame s mb mdl).1 f) := by
  unfold popNewStreamFrame
  cases hn : s.nextFrame with
  | some nf =>
    obtain ⟨h1, h2, h3, h4⟩ := hnf nf hn
    simp only
    by_cases hm : min mdl (nf.maxDataLen s.sid mb) = 0
    · simp [hm]
    · simp only [hm, ↓reduceIte]
      by_cases hlt : nf.data.length > min mdl (nf.maxDataLen s.sid mb)
      · simp only [hlt, ↓reduceIte]
        refine ⟨by simp, ?_⟩
        intro f hf
        simp only [Option.some.injEq] at hf
        subst hf
        refine ⟨_, _, _, rfl, h1, h2, ?_, ?_, ?_, ?_, fun h => h⟩
        · simp only [ne_eq, List.take_eq_nil_iff, not_or]; exact ⟨hm, h3⟩
        · simp only [List.length_take]; omega
        · simp only [tail, nfData, hn, nfDataOf]
          rw [← List.append_assoc, List.take_append_drop]
        · intro g hg
          simp only [Option.some.injEq] at hg
          subst hg
          simp only [List.length_take, List.length_drop, ne_eq, List.drop_eq_nil_iff, true_and]
          refine ⟨by omega, by omega, by omega⟩
      · simp only [hlt, ↓reduceIte]
        refine ⟨by simp, ?_⟩
        intro f hf
        simp only [Option.some.injEq] at hf
        subst hf
        refine ⟨none, s.dataForWriting, true, rfl, h1, h2, h3, h4, ?_, by simp, fun h => h⟩
        simp [tail, nfData, hn, nfDataOf]
  | none =>
    have hd : s.dataForWriting ≠ [] := fun h => hne ⟨h, hn⟩
    have hlen : 0 < s.dataForWriting.length := List.length_pos_iff.mpr hd
    simp only
    by_cases hm : Frame.maxDataLen s.sid { offset := s.writeOffset, data := [], fin := false, dataLenPresent := true } mb = 0
    · simp [hm]
    · have hmle := maxDataLen_le s.sid { offset := s.writeOffset, data := [], fin := false, dataLenPresent := true } mb
      simp only [hm, ↓reduceIte]
      by_cases hall : s.dataForWriting.length ≤ min (Frame.maxDataLen s.sid { offset := s.writeOffset, data := [], fin := false, dataLenPresent := true } mb) mdl
      · simp only [hall, ↓reduceIte]
        have he : s.dataForWriting.isEmpty = false := by simp [hd]
        simp only [he, Bool.false_and, Bool.false_eq_true, ↓reduceIte]
        refine ⟨by simp, ?_⟩
        intro f hf
        simp only [Option.some.injEq] at hf
        subst hf
        refine ⟨none, [], true, ?_, rfl, rfl, hd, by simp only; omega, ?_, by simp, fun _ => rfl⟩
        · simp
        · simp [tail, nfData, hn, nfDataOf]
      · simp only [hall, ↓reduceIte]
        generalize hN : min (Frame.maxDataLen s.sid { offset := s.writeOffset, data := [], fin := false, dataLenPresent := true } mb) mdl = n at *
        have hnpos : 0 < n := by omega
        have hnle : n ≤ maxPacketBufferSize := by omega
        have he : (List.take n s.dataForWriting).isEmpty = false := by
          simp only [List.isEmpty_eq_false_iff, ne_eq, List.take_eq_nil_iff, not_or]; exact ⟨by omega, hd⟩
        simp only [he, Bool.false_and, Bool.false_eq_true, ↓reduceIte]
        refine ⟨by simp, ?_⟩
        intro f hf
        simp only [Option.some.injEq] at hf
        subst hf
        split
        · refine ⟨none, s.dataForWriting.drop n, true, ?_, rfl, rfl, ?_, ?_, ?_, by simp, ?_⟩
          · simp
          · simp only [ne_eq, List.take_eq_nil_iff, not_or]; exact ⟨by omega, hd⟩
          · simp only [List.length_take]; omega
          · simp [tail, nfData, hn, nfDataOf]
          · intro h; exact absurd h hd
        · refine ⟨none, s.dataForWriting.drop n, s.signal, ?_, rfl, rfl, ?_, ?_, ?_, by simp, ?_⟩
          · simp
          · simp only [ne_eq, List.take_eq_nil_iff, not_or]; exact ⟨by omega, hd⟩
          · simp only [List.length_take]; omega
          · simp [tail, nfData, hn, nfDataOf]
          · intro h; exact absurd h hd

/-- more about the frame `popNewStreamFrame` returns: it respects the data limit, and when it comes out
    of `nextFrame` it is a prefix of it, the rest stays in `nextFrame`, `dataForWriting` is untouched -/
theorem popNew_extra (s : State) (mb mdl : Nat) (f : Frame) (hf : (popNewStreamFrame s mb mdl).2.1 = some f) :
    f.data.length ≤ mdl ∧
    ∀ nf, s.nextFrame = some nf →
      (popNewStreamFrame s mb mdl).1.dataForWriting = s.dataForWriting ∧
      f.data ++ nfData (popNewStreamFrame s mb mdl).1 = nf.data := by
  unfold popNewStreamFrame at hf ⊢
  cases hn : s.nextFrame with
  | some nf =>
    simp only [hn] at hf ⊢
    by_cases hm : min mdl (nf.maxDataLen s.sid mb) = 0
    · simp [hm] at hf
    · simp only [hm, ↓reduceIte] at hf ⊢
      by_cases hlt : nf.data.length > min mdl (nf.maxDataLen s.sid mb)
      · simp only [hlt, ↓reduceIte, Option.some.injEq] at hf
        simp only [hlt, ↓reduceIte]
        subst hf
        refine ⟨by simp only [List.length_take]; omega, fun nf' hnf' => ?_⟩
        simp only [Option.some.injEq] at hnf'
        subst hnf'
        exact ⟨trivial, by simp [nfData, nfDataOf]⟩
      · simp only [hlt, ↓reduceIte, Option.some.injEq] at hf
        simp only [hlt, ↓reduceIte]
        subst hf
        refine ⟨by omega, fun nf' hnf' => ?_⟩
        simp only [Option.some.injEq] at hnf'
        subst hnf'
        exact ⟨trivial, by simp [nfData, nfDataOf]⟩
  | none =>
    simp only [hn] at hf ⊢
    refine ⟨?_, fun nf h => by simp at h⟩
    by_cases hm : Frame.maxDataLen s.sid { offset := s.writeOffset, data := [], fin := false, dataLenPresent := true } mb = 0
    · simp [hm] at hf
    · simp only [hm, ↓reduceIte] at hf
      by_cases hall : s.dataForWriting.length ≤ min (Frame.maxDataLen s.sid { offset := s.writeOffset, data := [], fin := false, dataLenPresent := true } mb) mdl
      · simp only [hall, ↓reduceIte] at hf
        split at hf
        · simp at hf
        · simp only [Option.some.injEq] at hf
          subst hf
          simp only; omega
      · simp only [hall, ↓reduceIte] at hf
        split at hf
        · simp at hf
        · simp only [Option.some.injEq] at hf
          subst hf
          simp only [List.length_take]; omega

/-- the five things `popNewOrRetransmittedStreamFrame` can do on a live stream -/
inductive PopKind (s : State) (mb : Nat) (s' : State) (out : PopOut) : Prop
  | nothing (h1 : s' = s) (h2 : out.frame = none)
  | retransWhole (g : Frame) (rest : List Frame) (hq : s.retransQ = g :: rest)
      (h1 : s' = { s with retransQ := rest }) (h2 : out.frame = some g)
  | retransSplit (g : Frame) (rest : List Frame) (hq : s.retransQ = g :: rest)
      (hn : g.maxDataLen s.sid mb ≠ 0) (hfit : mb < g.length s.sid)
      (h1 : s' = { s with retransQ := { g with data := g.data.drop (g.maxDataLen s.sid mb), offset := g.offset + g.maxDataLen s.sid mb } :: rest })
      (h2 : out.frame = some { offset := g.offset, data := g.data.take (g.maxDataLen s.sid mb), fin := false, dataLenPresent := g.dataLenPresent })
  | finOnly (hd : s.dataForWriting = []) (hnf : s.nextFrame = none) (hfw : s.finishedWriting = true) (hfs : s.finSent = false)
      (h1 : s' = { s with finSent := true })
      (h2 : out.frame = some { offset := s.writeOffset, data := [], fin := true, dataLenPresent := true })
  | newData (f0 : Frame) (s1 : State) (hq : s.retransQ = []) (hok : PopNewOk s s1 f0) (fin : Bool)
      (hfin : fin = (s.finishedWriting && s1.dataForWriting.isEmpty && s1.nextFrame.isNone && !s.finSent))
      (h1 : s' = { s1 with writeOffset := s.writeOffset + f0.data.length, finSent := s.finSent || fin })
      (h2 : out.frame = some { f0 with fin := fin })
      (hmono : nfLen s ≤ f0.data.length + nfLen s1)

theorem nfLen_eq (s : State) : nfLen s = (nfData s).length := by
  unfold nfLen nfData nfDataOf; cases s.nextFrame <;> rfl

theorem retransQ_eta (s : State) {q : List Frame} (h : s.retransQ = q) : { s with retransQ := q } = s := by
  cases s; simp_all

theorem popInner_live (s : State) (mb win : Nat) (nb : Bool) (hl : Live s) (hmb : mb ≤ maxPacketBufferSize)
    (hnf : NfOk s) : PopKind s mb (popInner s mb win nb).1 (popInner s mb win nb).2 := by
  unfold popInner
  simp only [hl.2, hl.1, Bool.false_eq_true, ↓reduceIte, Option.isSome_none, Bool.false_and]
  cases hq : s.retransQ with
  | cons g rest =>
    simp only [List.isEmpty_cons, Bool.not_false, ↓reduceIte, maybeGetRetransmission, hq]
    rcases hsp : g.maybeSplitOff s.sid mb with ⟨new, f', b⟩
    cases b with
    | false =>
      simp only [Option.isSome_some, Bool.true_or, ↓reduceIte]
      exact .retransWhole g rest hq rfl rfl
    | true =>
      cases new with
      | none =>
        have := maybeSplitOff_none hsp
        subst this
        simp only [Option.isSome_none, Bool.false_or, ↓reduceIte]
        exact .nothing (retransQ_eta s hq) rfl
      | some new =>
        obtain ⟨_, hfit, hn, hnew, hf'⟩ := maybeSplitOff_some hsp
        subst hnew hf'
        simp only [Option.isSome_some, Bool.true_or, ↓reduceIte]
        exact .retransSplit g rest hq hn hfit rfl rfl
  | nil =>
    simp only [List.isEmpty_nil, Bool.not_true, Bool.false_eq_true, ↓reduceIte]
    by_cases he : s.dataForWriting = [] ∧ s.nextFrame = none
    · obtain ⟨hd, hn⟩ := he
      simp only [hd, hn, List.isEmpty_nil, Option.isNone_none, Bool.and_self, ↓reduceIte]
      by_cases hf : s.finishedWriting = true ∧ s.finSent = false
      · simp only [hf.1, hf.2, Bool.not_false, Bool.and_self, ↓reduceIte]
        exact .finOnly hd hn hf.1 hf.2 (by cases s; simp_all [Live]) (by simp)
      · have : (s.finishedWriting && !s.finSent) = false := by
          cases h1 : s.finishedWriting <;> cases h2 : s.finSent <;> simp_all
        simp only [this, Bool.false_eq_true, ↓reduceIte]
        exact .nothing rfl rfl
    · have : (s.dataForWriting.isEmpty && s.nextFrame.isNone) = false := by
        cases h1 : s.dataForWriting <;> cases h2 : s.nextFrame <;> simp_all
      simp only [this, Bool.false_eq_true, ↓reduceIte]
      by_cases hw : win = 0
      · simp only [hw, ↓reduceIte]
        exact .nothing rfl rfl
      · simp only [hw, ↓reduceIte]
        obtain ⟨h1, h2⟩ := popNew_spec s mb win hmb (by omega) hnf he
        have hx := popNew_extra s mb win
        rcases hp : popNewStreamFrame s mb win with ⟨s1, fo, more⟩
        rw [hp] at h1 h2 hx
        cases fo with
        | none =>
          simp only at h1 ⊢
          exact .nothing (h1 trivial) rfl
        | some f0 =>
          have hok := h2 f0 rfl
          simp only at hok ⊢
          obtain ⟨nf', dfw', sig', hs1, _⟩ := id hok
          have hr : s1.resetErr = none := by rw [hs1]; exact hl.1
          have hfw : s1.finishedWriting = s.finishedWriting := by rw [hs1]
          have hfs : s1.finSent = s.finSent := by rw [hs1]
          have hwo : s1.writeOffset = s.writeOffset := by rw [hs1]
          refine .newData f0 s1 hq hok (s.finishedWriting && s1.dataForWriting.isEmpty && s1.nextFrame.isNone && !s.finSent) rfl ?_ ?_ ?_
          · rw [hfw, hfs, hwo, hr]
            simp only [Option.isNone_none, Bool.and_true]
            cases hc : (s.finishedWriting && s1.dataForWriting.isEmpty && s1.nextFrame.isNone && !s.finSent) <;> simp
          · rw [hfw, hfs, hr]
            simp only [Option.isNone_none, Bool.and_true]
          · obtain ⟨_, hbuf⟩ := hx f0 rfl
            simp only at hbuf
            cases hn : s.nextFrame with
            | none => simp [nfLen, hn]
            | some nf =>
              have := congrArg List.length (hbuf nf hn).2
              simp only [List.length_append] at this
              rw [nfLen_eq s1]
              simp only [nfLen, hn]; omega

/-! ### Write -/

theorem writeIter_live (t : State) (p : Pending) (hl : Live t) (hnf : NfOk t) :
    ∃ nf' dfw' pd', (writeIter t p).1 = { t with nextFrame := nf', dataForWriting := dfw', pending := pd' } ∧
      nfDataOf nf' ++ dfw' = tail t ∧
      (∀ g, nf' = some g → g.offset = t.writeOffset ∧ g.fin = false ∧ g.data ≠ [] ∧ g.data.length ≤ maxPacketBufferSize) ∧
      (pd' = none → dfw' = []) := by
  unfold writeIter
  by_cases hc : (canBuffer t && !t.dataForWriting.isEmpty) = true
  · simp only [hc, ↓reduceIte, writeEpilogue, beq_self_eq_true]
    simp only [Bool.and_eq_true, Bool.not_eq_eq_eq_not, Bool.not_true, List.isEmpty_eq_false_iff] at hc
    obtain ⟨hcb, hd⟩ := hc
    simp only [canBuffer, nfLen] at hcb
    refine ⟨_, [], none, rfl, ?_, ?_, fun _ => rfl⟩
    · cases hn : t.nextFrame <;> simp [nfDataOf, tail, nfData, hn]
    · intro g hg
      cases hn : t.nextFrame with
      | none =>
        simp only [hn, Option.some.injEq] at hg hcb
        subst hg
        exact ⟨rfl, rfl, hd, by simpa using hcb⟩
      | some f =>
        obtain ⟨h1, h2, h3, h4⟩ := hnf f hn
        simp only [hn, Option.some.injEq] at hg hcb
        subst hg
        exact ⟨h1, h2, by simp [h3], by simpa using hcb⟩
  · simp only [hc, Bool.false_eq_true, ↓reduceIte, hl.1, hl.2, Option.isSome_none, Bool.or_false]
    by_cases hd : t.dataForWriting = []
    · simp only [hd, List.isEmpty_nil, ↓reduceIte, writeEpilogue, List.length_nil, Nat.sub_zero, beq_self_eq_true]
      refine ⟨t.nextFrame, [], none, ?_, ?_, ?_, fun _ => rfl⟩
      · cases t; simp_all
      · simp [tail, nfData, nfDataOf, hd]
      · intro g hg; exact hnf g hg
    · have : t.dataForWriting.isEmpty = false := by simp [hd]
      simp only [this, Bool.false_eq_true, ↓reduceIte]
      refine ⟨t.nextFrame, t.dataForWriting, some { p with notified := true }, rfl, ?_, ?_, fun h => by simp at h⟩
      · simp [tail, nfData, nfDataOf]
      · intro g hg; exact hnf g hg

theorem writeEpilogue_stable (s : State) (a b : Nat) : Stable s (writeEpilogue s a b).1 := by
  unfold writeEpilogue
  split
  · exact Stable.rfl' s
  split
  · exact Stable.rfl' s
  split
  · exact Stable.trans (by constructor <;> rfl) (isNewlyCompleted_stable _)
  · exact Stable.rfl' s

theorem writeIter_stable (t : State) (p : Pending) : Stable t (writeIter t p).1 := by
  unfold writeIter
  split
  · exact Stable.trans (by constructor <;> rfl) (writeEpilogue_stable _ _ _)
  · split
    · exact Stable.trans (by constructor <;> rfl) (writeEpilogue_stable _ _ _)
    · constructor <;> rfl

/-- the state after `writeCall`: unchanged-but-flags when rejected, else one pass of the loop on the
    state that has taken `p` -/
theorem writeCall_fst (s : State) (p : Bytes) :
    (writeCall s p).1 = s ∨
    (s.resetErr.isSome = true ∧ ∃ c, (writeCall s p).1 = { s with cancellationFlagged := true, completed := c }) ∨
    (s.pending = none ∧ s.resetErr = none ∧ s.shutdown = false ∧ s.finishedWriting = false ∧ p ≠ [] ∧
      (writeCall s p).1 = (writeIter { s with dataForWriting := p, written := s.written ++ p, pending := some { plen := p.length, notified := false } } { plen := p.length, notified := false }).1) := by
  unfold writeCall
  split
  · exact .inl rfl
  rename_i hp
  split
  · rename_i hr
    refine .inr (.inl ⟨hr, ?_⟩)
    exact isNewlyCompleted_fst _
  rename_i hr
  split
  · exact .inl rfl
  rename_i hs
  split
  · exact .inl rfl
  rename_i hf
  split
  · exact .inl rfl
  rename_i he
  refine .inr (.inr ⟨by simpa using hp, by simpa using hr, by simpa using hs, by simpa using hf, by simpa using he, ?_⟩)
  simp only
  split <;> simp_all

theorem wake_fst (s : State) :
    (wake s).1 = s ∨ ∃ p, s.pending = some p ∧ s.signal = true ∧ (wake s).1 = (writeIter { s with signal := false } p).1 := by
  unfold wake
  split
  · exact .inl rfl
  · rename_i p hp
    split
    · exact .inl rfl
    · rename_i hs
      exact .inr ⟨p, hp, by simpa using hs, rfl⟩

theorem close_fst (s : State) :
    (close s).1 = s ∨ (s.shutdown = false ∧ s.finishedWriting = false ∧
      ∃ cf c, (close s).1 = { s with finishedWriting := true, cancellationFlagged := cf, completed := c }) := by
  unfold close
  split
  · exact .inl rfl
  · rename_i h
    simp only [Bool.or_eq_true, not_or, Bool.not_eq_true] at h
    refine .inr ⟨h.1, h.2, ?_⟩
    simp only
    by_cases hc : s.resetErr.isSome = true
    · simp only [hc, ↓reduceIte]
      obtain ⟨c, hc'⟩ := isNewlyCompleted_fst { s with finishedWriting := true, cancellationFlagged := true }
      exact ⟨true, c, hc'⟩
    · simp only [hc, Bool.false_eq_true, ↓reduceIte]
      obtain ⟨c, hc'⟩ := isNewlyCompleted_fst { s with finishedWriting := true }
      exact ⟨s.cancellationFlagged, c, hc'⟩

/-- fields that `cancelWrite`, `stopSending`, `closeForShutdown` leave alone -/
structure Quiet (s s' : State) : Prop where
  written : s'.written = s.written
  emitted : s'.emitted = s.emitted
  finishedWriting : s'.finishedWriting = s.finishedWriting
  supportsResetAt : s'.supportsResetAt = s.supportsResetAt
  sid : s'.sid = s.sid
  reliableSize : s'.reliableSize = s.reliableSize ∨ s'.reliableSize = 0

theorem Stable.quiet {s s' : State} (h : Stable s s') : Quiet s s' :=
  ⟨h.written, h.emitted, h.finishedWriting, h.supportsResetAt, h.sid, .inl h.reliableSize⟩

theorem cancelWrite_spec (s : State) (c : Nat) : Quiet s (cancelWrite s c).1 ∧ ¬ Live (cancelWrite s c).1 := by
  unfold cancelWrite
  split
  · rename_i h
    exact ⟨⟨rfl, rfl, rfl, rfl, rfl, .inl rfl⟩, fun hl => by simp_all [Live]⟩
  · split
    · rename_i hr
      obtain ⟨c', hc⟩ := isNewlyCompleted_fst { s with cancellationFlagged := true }
      simp only [hc]
      refine ⟨⟨rfl, rfl, rfl, rfl, rfl, .inl rfl⟩, fun hl => ?_⟩
      have := hl.1; simp only at this; simp [this] at hr
    · exact ⟨⟨rfl, rfl, rfl, rfl, rfl, .inl rfl⟩, fun hl => by have := hl.1; simp at this⟩

theorem stopSending_spec (s : State) (c : Nat) : Quiet s (stopSending s c).1 ∧ ¬ Live (stopSending s c).1 := by
  unfold stopSending
  split
  · rename_i h
    exact ⟨⟨rfl, rfl, rfl, rfl, rfl, .inl rfl⟩, fun hl => by simp_all [Live]⟩
  · split
    · rename_i hr
      exact ⟨⟨rfl, rfl, rfl, rfl, rfl, .inl rfl⟩, fun hl => by simp_all [Live]⟩
    · exact ⟨⟨rfl, rfl, rfl, rfl, rfl, .inr rfl⟩, fun hl => by have := hl.1; simp at this⟩

theorem shutdownStep_spec (s : State) :
    Quiet s (shutdownStep s) ∧ (Live (shutdownStep s) → shutdownStep s = { s with signal := true }) := by
  unfold shutdownStep
  split
  · exact ⟨⟨rfl, rfl, rfl, rfl, rfl, .inl rfl⟩, fun hl => by have := hl.2; simp at this⟩
  · exact ⟨⟨rfl, rfl, rfl, rfl, rfl, .inl rfl⟩, fun _ => rfl⟩

theorem getControlFrame_spec (s : State) : Stable s (getControlFrame s).1 ∧ (s.queuedReset = none → (getControlFrame s).1 = s) := by
  unfold getControlFrame
  split
  · exact ⟨Stable.rfl' s, fun _ => rfl⟩
  · rename_i f hf
    exact ⟨by constructor <;> rfl, fun h => by simp [h] at hf⟩

theorem resetAcked_stable (s : State) (f : ResetFrame) : Stable s (resetAcked s f).1 := by
  unfold resetAcked
  split
  · exact Stable.rfl' s
  · simp only
    split
    · constructor <;> rfl
    · exact Stable.trans (by constructor <;> rfl) (isNewlyCompleted_stable _)

theorem resetLost_stable (s : State) (f : ResetFrame) : Stable s (resetLost s f).1 := by
  unfold resetLost
  split
  · exact Stable.rfl' s
  · constructor <;> rfl

end Uquic.Proofs.Send
