/-
Accounting lemmas for property C06: `bytesInFlight` equals the total size of the tracked packets that are
counted in flight, `numOutstanding` equals the number of outstanding packets, and the
`panic("negative bytes_in_flight")` / `panic("negative number of outstanding packets")` branches are dead.
-/
import Uquic.Proofs.SentLedger

namespace Uquic.Proofs.Sent
open Uquic.Model.Sent List

/-- weighted sum over the packets stored in a history slice -/
def wsum (w : Packet → Int) : List (Option Packet) → Int
  | [] => 0
  | none :: r => wsum w r
  | some p :: r => w p + wsum w r

/-- contribution of a packet to `bytesInFlight` -/
def flightOf (p : Packet) : Int := if p.inFlight then p.length else 0
/-- contribution of a packet to `numOutstanding` -/
def outOf (p : Packet) : Int := if p.outstanding then 1 else 0

@[simp] theorem wsum_nil (w : Packet → Int) : wsum w [] = 0 := rfl
@[simp] theorem wsum_none (w : Packet → Int) (r : List (Option Packet)) : wsum w (none :: r) = wsum w r := rfl
@[simp] theorem wsum_some (w : Packet → Int) (p : Packet) (r : List (Option Packet)) : wsum w (some p :: r) = w p + wsum w r := rfl

theorem wsum_append (w : Packet → Int) (a b : List (Option Packet)) : wsum w (a ++ b) = wsum w a + wsum w b := by
  induction a with
  | nil => simp
  | cons x xs ih => cases x <;> simp [ih] <;> omega

@[simp] theorem wsum_dropNones (w : Packet → Int) (l : List (Option Packet)) : wsum w (dropNones l) = wsum w l := by
  induction l with
  | nil => rfl
  | cons x xs ih => cases x <;> simp [dropNones, ih]

theorem wsum_set_none (w : Packet → Int) {l : List (Option Packet)} {i : Nat} {p : Packet} (h : l[i]? = some (some p)) :
    wsum w (l.set i none) = wsum w l - w p := by
  induction l generalizing i with
  | nil => simp at h
  | cons x xs ih =>
    cases i with
    | zero => simp at h; subst h; simp; omega
    | succ j =>
      simp at h
      have := ih h
      cases x <;> simp [this] <;> omega

theorem cleanupStart_packets (h : Hist) : h.cleanupStart.packets = dropNones h.packets := by
  unfold Hist.cleanupStart
  simp only []
  split
  · rename_i e; simp at e; simp [e]
  · rfl

theorem wsum_nonneg (w : Packet → Int) (l : List (Option Packet)) (hw : ∀ p, some p ∈ l → 0 ≤ w p) : 0 ≤ wsum w l := by
  induction l with
  | nil => simp
  | cons x xs ih =>
    cases x with
    | none => simp; exact ih (fun p hp => hw p (List.mem_cons_of_mem _ hp))
    | some q =>
      have h1 := hw q (by simp)
      have h2 := ih (fun p hp => hw p (List.mem_cons_of_mem _ hp))
      simp; omega

theorem wsum_mem_le (w : Packet → Int) (l : List (Option Packet)) (hw : ∀ p, some p ∈ l → 0 ≤ w p) {p : Packet}
    (hp : some p ∈ l) : w p ≤ wsum w l := by
  induction l with
  | nil => simp at hp
  | cons x xs ih =>
    have hw' : ∀ p, some p ∈ xs → 0 ≤ w p := fun p hp => hw p (List.mem_cons_of_mem _ hp)
    rcases List.mem_cons.mp hp with h | h
    · subst h
      have := wsum_nonneg w xs hw'
      simp; omega
    · have h2 := ih hw' h
      cases x with
      | none => simpa using h2
      | some q =>
        have h1 := hw q (by simp)
        simp; omega

/-- general shape of what `Remove` does to the slice -/
theorem remove_packets {h h' : Hist} {pn : PN} {p : Packet} (e : h.remove pn = .ok h' p) :
    ∃ idx, h.packets[idx]? = some (some p) ∧
      (h'.packets = h.packets.set idx none ∨ h'.packets = dropNones (h.packets.set idx none)) ∧
      h'.probes = h.probes ∧ h'.numOutstanding = outAfter h.numOutstanding p ∧ h'.skipped = h.skipped := by
  unfold Hist.remove at e
  cases e1 : h.getIndex pn with
  | none => simp [e1] at e
  | some idx =>
    simp only [e1] at e
    cases e2 : (h.packets[idx]?).join with
    | none => simp [e2] at e
    | some q =>
      simp only [e2] at e
      split at e
      · simp at e
      · split at e
        · simp at e
        · simp only [RemoveRes.ok.injEq] at e
          obtain ⟨e3, e4⟩ := e
          subst e4
          refine ⟨idx, join_some e2, ?_⟩
          subst e3
          split
          · exact ⟨Or.inl rfl, rfl, rfl, rfl⟩
          · exact ⟨Or.inr (cleanupStart_packets _), by simp, by simp, by simp⟩

theorem declareLost_packets {h h' : Hist} {pn : PN} {p : Packet} (hl : h.lookup pn = some p) (e : h.declareLost pn = .ok h') :
    ∃ idx, h.packets[idx]? = some (some p) ∧
      (h'.packets = h.packets.set idx none ∨ h'.packets = dropNones (h.packets.set idx none)) ∧
      h'.probes = h.probes ∧ h'.numOutstanding = outAfter h.numOutstanding p ∧ h'.skipped = h.skipped := by
  obtain ⟨idx, e1, e2⟩ := lookup_some hl
  unfold Hist.declareLost at e
  simp only [e1, e2, Option.join_some] at e
  split at e
  · simp at e
  · simp only [LostRes.ok.injEq] at e
    subst e
    refine ⟨idx, e2, ?_⟩
    split
    · exact ⟨Or.inr (cleanupStart_packets _), by simp, by simp, by simp⟩
    · exact ⟨Or.inl rfl, rfl, rfl, rfl⟩

theorem wsum_after {w : Packet → Int} {l l' : List (Option Packet)} {idx : Nat} {p : Packet}
    (e : l[idx]? = some (some p)) (h : l' = l.set idx none ∨ l' = dropNones (l.set idx none)) :
    wsum w l' = wsum w l - w p := by
  rcases h with h | h <;> subst h <;> simp [wsum_set_none w e]

theorem mem_after {l l' : List (Option Packet)} {idx : Nat} {q : Packet}
    (h : l' = l.set idx none ∨ l' = dropNones (l.set idx none)) (hq : some q ∈ l') : some q ∈ l := by
  rcases h with h | h <;> subst h
  · exact mem_set_none hq
  · exact mem_set_none (mem_dropNones hq)

/-! ### the per-history invariant -/

/-- packets counted in flight are ack-eliciting non-probe packets; sizes are non-negative; `numOutstanding`
    is the number of outstanding packets; path probes are never counted in flight -/
structure FlightOKH (h : Hist) : Prop where
  inflight : ∀ p, some p ∈ h.packets → p.inFlight = true → p.pathProbe = false ∧ p.ackEliciting = true
  nonneg : ∀ p, some p ∈ h.packets → 0 ≤ p.length
  count : h.numOutstanding = wsum outOf h.packets
  probes : ∀ x ∈ h.probes, x.2.inFlight = false
  /-- the slice never starts with a nil entry (so `Remove`'s "cleanup failed" check cannot fire) -/
  head : h.packets.head? ≠ some none

theorem flightOf_nonneg {h : Hist} (f : FlightOKH h) : ∀ p, some p ∈ h.packets → 0 ≤ flightOf p := by
  intro p hp
  unfold flightOf
  split
  · exact f.nonneg p hp
  · omega

theorem outOf_nonneg (p : Packet) : 0 ≤ outOf p := by unfold outOf; split <;> omega

theorem FlightOKH_after {h h' : Hist} {idx : Nat} {p : Packet} (f : FlightOKH h) (e : h.packets[idx]? = some (some p))
    (hp : h'.packets = h.packets.set idx none ∨ h'.packets = dropNones (h.packets.set idx none))
    (hpr : h'.probes = h.probes) (hn : h'.numOutstanding = outAfter h.numOutstanding p)
    (hh : h'.packets.head? ≠ some none) : FlightOKH h' where
  inflight := fun q hq => f.inflight q (mem_after hp hq)
  nonneg := fun q hq => f.nonneg q (mem_after hp hq)
  count := by
    rw [hn, wsum_after e hp, f.count]
    unfold outAfter outOf
    split <;> omega
  probes := by rw [hpr]; exact f.probes
  head := hh

theorem outAfter_eq (n : Int) (p : Packet) : outAfter n p = n - outOf p := by
  unfold outAfter outOf; split <;> omega

theorem head_dropNones (l : List (Option Packet)) : (dropNones l).head? ≠ some none := by
  induction l with
  | nil => simp [dropNones]
  | cons x xs ih => cases x <;> simp [dropNones]; exact ih

/-- `Remove` succeeds on a tracked packet, and keeps the invariant -/
theorem remove_ok {h : Hist} {pn : PN} {p : Packet} (f : FlightOKH h) (hl : h.lookup pn = some p) :
    ∃ h', h.remove pn = .ok h' p ∧ FlightOKH h' ∧ wsum flightOf h'.packets = wsum flightOf h.packets - flightOf p := by
  obtain ⟨idx, e1, e2⟩ := lookup_some hl
  have hout : 0 ≤ outAfter h.numOutstanding p := by
    have := wsum_mem_le outOf h.packets (fun q _ => outOf_nonneg q) (List.mem_of_getElem? e2)
    rw [outAfter_eq, f.count]; omega
  unfold Hist.remove
  simp only [e1, e2, Option.join_some]
  rw [if_neg (by omega)]
  -- the resulting slice
  generalize hh2 : (if ((h.packets.set idx none).take idx).any Option.isSome = true
      then ({ h with packets := h.packets.set idx none, numOutstanding := outAfter h.numOutstanding p } : Hist)
      else ({ h with packets := h.packets.set idx none, numOutstanding := outAfter h.numOutstanding p } : Hist).cleanupStart) = h2
  have hpk : h2.packets = h.packets.set idx none ∨ h2.packets = dropNones (h.packets.set idx none) := by
    subst hh2; split
    · exact Or.inl rfl
    · exact Or.inr (cleanupStart_packets _)
  have hpr : h2.probes = h.probes := by subst hh2; split <;> simp
  have hno : h2.numOutstanding = outAfter h.numOutstanding p := by subst hh2; split <;> simp
  have hhead : h2.packets.head? ≠ some none := by
    subst hh2
    split
    · rename_i hb
      -- some entry before idx is non-nil, so idx > 0 and the head is unchanged
      simp only []
      cases idx with
      | zero => simp at hb
      | succ j =>
        have : (h.packets.set (j + 1) none).head? = h.packets.head? := by
          cases h.packets with
          | nil => rfl
          | cons a as => simp
        rw [this]; exact f.head
    · rw [cleanupStart_packets]; exact head_dropNones _
  have hne : ∀ t, h2.packets ≠ none :: t := by
    intro t ht; rw [ht] at hhead; simp at hhead
  cases hpk2 : h2.packets with
  | nil =>
    simp only []
    exact ⟨h2, rfl, FlightOKH_after f e2 hpk hpr hno hhead, wsum_after e2 hpk⟩
  | cons a as =>
    cases a with
    | none => exact absurd hpk2 (hne as)
    | some q =>
      simp only []
      exact ⟨h2, rfl, FlightOKH_after f e2 hpk hpr hno hhead, wsum_after e2 hpk⟩

/-- `DeclareLost` succeeds on a tracked packet, and keeps the invariant -/
theorem declareLost_ok {h : Hist} {pn : PN} {p : Packet} (f : FlightOKH h) (hl : h.lookup pn = some p) :
    ∃ h', h.declareLost pn = .ok h' ∧ FlightOKH h' ∧ wsum flightOf h'.packets = wsum flightOf h.packets - flightOf p := by
  obtain ⟨idx, e1, e2⟩ := lookup_some hl
  have hout : 0 ≤ outAfter h.numOutstanding p := by
    have := wsum_mem_le outOf h.packets (fun q _ => outOf_nonneg q) (List.mem_of_getElem? e2)
    rw [outAfter_eq, f.count]; omega
  unfold Hist.declareLost
  simp only [e1, e2, Option.join_some]
  rw [if_neg (by omega)]
  refine ⟨_, rfl, ?_, ?_⟩
  · by_cases h0 : idx = 0
    · simp only [h0, if_true]
      subst h0
      exact FlightOKH_after f e2 (Or.inr (cleanupStart_packets _)) (by simp) (by simp)
        (by rw [cleanupStart_packets]; exact head_dropNones _)
    · simp only [h0, if_false]
      refine FlightOKH_after f e2 (Or.inl rfl) rfl rfl ?_
      simp only []
      cases idx with
      | zero => exact absurd rfl h0
      | succ j =>
        have : (h.packets.set (j + 1) none).head? = h.packets.head? := by
          cases h.packets with
          | nil => rfl
          | cons a as => simp
        rw [this]; exact f.head
  · by_cases h0 : idx = 0
    · simp only [h0, if_true]; subst h0
      exact wsum_after e2 (Or.inr (cleanupStart_packets _))
    · simp only [h0, if_false]
      exact wsum_after e2 (Or.inl rfl)

def spaceFlight : Option Space → Int
  | some sp => wsum flightOf sp.hist.packets
  | none => 0

/-- total size of the tracked packets counted in flight -/
def total (s : State) : Int := spaceFlight s.initial + spaceFlight s.handshake + wsum flightOf s.app.hist.packets

def FlightOKS : Option Space → Prop
  | some sp => FlightOKH sp.hist
  | none => True

structure FOK (s : State) : Prop where
  ini : FlightOKS s.initial
  hs : FlightOKS s.handshake
  app : FlightOKH s.app.hist

/-- the accounting invariant -/
def FInv (s : State) : Prop := FOK s ∧ s.bytesInFlight = total s

theorem spaceFlight_nonneg {o : Option Space} (f : FlightOKS o) : 0 ≤ spaceFlight o := by
  cases o with
  | none => simp [spaceFlight]
  | some sp => exact wsum_nonneg _ _ (flightOf_nonneg f)

theorem total_frame {s : State} {lvl : Level} {sp : Space} (f : FOK s) (h : s.getSpace lvl = some sp) :
    ∃ rest : Int, 0 ≤ rest ∧ total s = wsum flightOf sp.hist.packets + rest ∧
      ∀ (s' : State) (sp' : Space), s'.initial = s.initial → s'.handshake = s.handshake → s'.app = s.app →
        total (s'.setSpace lvl sp') = wsum flightOf sp'.hist.packets + rest := by
  have n1 := spaceFlight_nonneg f.ini
  have n2 := spaceFlight_nonneg f.hs
  have n3 := wsum_nonneg _ _ (flightOf_nonneg f.app)
  cases lvl with
  | invalid => simp [State.getSpace] at h
  | initial =>
    simp only [State.getSpace] at h
    refine ⟨spaceFlight s.handshake + wsum flightOf s.app.hist.packets, by omega, ?_, ?_⟩
    · simp [total, h, spaceFlight]; omega
    · intro s' sp' a b c; simp [total, State.setSpace, spaceFlight, b, c]; omega
  | handshake =>
    simp only [State.getSpace] at h
    refine ⟨spaceFlight s.initial + wsum flightOf s.app.hist.packets, by omega, ?_, ?_⟩
    · simp [total, h, spaceFlight]; omega
    · intro s' sp' a b c; simp [total, State.setSpace, spaceFlight, a, c]; omega
  | zeroRTT =>
    simp only [State.getSpace, Option.some.injEq] at h
    refine ⟨spaceFlight s.initial + spaceFlight s.handshake, by omega, ?_, ?_⟩
    · subst h; simp [total]; omega
    · intro s' sp' a b c; simp [total, State.setSpace, a, b]; omega
  | oneRTT =>
    simp only [State.getSpace, Option.some.injEq] at h
    refine ⟨spaceFlight s.initial + spaceFlight s.handshake, by omega, ?_, ?_⟩
    · subst h; simp [total]; omega
    · intro s' sp' a b c; simp [total, State.setSpace, a, b]; omega

theorem FOK_getSpace {s : State} {lvl : Level} {sp : Space} (f : FOK s) (h : s.getSpace lvl = some sp) : FlightOKH sp.hist := by
  obtain ⟨a, b, c⟩ := f
  cases lvl <;> simp only [State.getSpace] at h
  · simp at h
  · rw [h] at a; exact a
  · rw [h] at b; exact b
  · simp at h; subst h; exact c
  · simp at h; subst h; exact c

theorem FOK_setSpace {s s' : State} {lvl : Level} {sp : Space} (f : FOK s) (a : s'.initial = s.initial)
    (b : s'.handshake = s.handshake) (c : s'.app = s.app) (h : FlightOKH sp.hist) : FOK (s'.setSpace lvl sp) := by
  obtain ⟨x, y, z⟩ := f
  cases lvl <;> simp only [State.setSpace] <;> constructor <;> simp only [a, b, c, FlightOKS] <;> assumption

theorem FOK_eq {s s' : State} (a : s'.initial = s.initial) (b : s'.handshake = s.handshake) (c : s'.app = s.app)
    (f : FOK s) : FOK s' := by
  obtain ⟨x, y, z⟩ := f
  constructor <;> simp only [a, b, c] <;> assumption

theorem total_eq {s s' : State} (a : s'.initial = s.initial) (b : s'.handshake = s.handshake) (c : s'.app = s.app) :
    total s' = total s := by simp [total, a, b, c]

theorem removeBif_eq {b : Int} {p : Packet} (h : flightOf p ≤ b) : removeBif b p = some (b - flightOf p) := by
  unfold removeBif flightOf at *
  split
  · rename_i hi; simp only [hi, if_true] at h ⊢; rw [if_neg (by omega)]
  · simp

theorem flightOf_zero {h : Hist} (f : FlightOKH h) {p : Packet} (hp : some p ∈ h.packets)
    (hc : ¬ ((!p.pathProbe) = true ∧ p.ackEliciting = true)) : flightOf p = 0 := by
  unfold flightOf
  split
  · rename_i hi
    obtain ⟨a, b⟩ := f.inflight p hp hi
    exfalso; apply hc; simp [a, b]
  · rfl

theorem lossStep_flight {la lst ld : Int} {pn : PN} {p : Packet} {a : LossAcc} (f : FlightOKH a.hist)
    (hl : a.hist.lookup pn = some p) (hn : a.panic = none) (hb : wsum flightOf a.hist.packets ≤ a.bfl) :
    (lossStep la lst ld pn p a).panic = none ∧ FlightOKH (lossStep la lst ld pn p a).hist ∧
      (lossStep la lst ld pn p a).bfl - wsum flightOf (lossStep la lst ld pn p a).hist.packets = a.bfl - wsum flightOf a.hist.packets := by
  unfold lossStep
  have hmem := lookup_mem hl
  have hle := wsum_mem_le flightOf a.hist.packets (flightOf_nonneg f) hmem
  split
  · obtain ⟨h', e1, e2, e3⟩ := declareLost_ok f hl
    simp only [e1]
    split
    · rw [removeBif_eq (by omega)]
      simp only []
      exact ⟨hn, e2, by omega⟩
    · rename_i hc
      have := flightOf_zero f hmem hc
      simp only []
      exact ⟨hn, e2, by omega⟩
  · split
    · exact ⟨hn, f, rfl⟩
    · exact ⟨hn, f, rfl⟩

theorem lossLoop_flight (la lst ld : Int) (n : Nat) :
    ∀ (pn : PN) (a : LossAcc), FlightOKH a.hist → a.panic = none → wsum flightOf a.hist.packets ≤ a.bfl →
      (lossLoop la lst ld n pn a).panic = none ∧ FlightOKH (lossLoop la lst ld n pn a).hist ∧
      (lossLoop la lst ld n pn a).bfl - wsum flightOf (lossLoop la lst ld n pn a).hist.packets = a.bfl - wsum flightOf a.hist.packets := by
  induction n with
  | zero => intro pn a f hn _; exact ⟨hn, f, rfl⟩
  | succ n ih =>
    intro pn a f hn hb
    unfold lossLoop
    simp only [hn, Option.isSome_none, Bool.false_eq_true, if_false]
    cases hl : a.hist.lookup pn with
    | none => simp only []; exact ih _ _ f hn hb
    | some p =>
      simp only []
      split
      · exact ⟨hn, f, rfl⟩
      · obtain ⟨s1, s2, s3⟩ := lossStep_flight (la := la) (lst := lst) (ld := ld) f hl hn hb
        obtain ⟨i1, i2, i3⟩ := ih (pn + 1) _ s2 s1 (by omega)
        exact ⟨i1, i2, by omega⟩


end Uquic.Proofs.Sent
