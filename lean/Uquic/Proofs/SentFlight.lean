/-
Accounting lemmas for property C06: `bytesInFlight` equals the total size of the tracked packets that are
counted in flight, `numOutstanding` equals the number of outstanding packets, and the
`panic("negative bytes_in_flight")` / `panic("negative number of outstanding packets")` branches are dead.
-/
import Uquic.Proofs.SentLedger

namespace Uquic.Proofs.Sent
open Uquic.Model.Sent List

/-- weighted sum over the packets stored in a history slice -/
def wsum (w : Packet → Int) : List (Option Packet) → Int
  | [] => 0
  | none :: r => wsum w r
  | some p :: r => w p + wsum w r

/-- contribution of a packet to `bytesInFlight` -/
def flightOf (p : Packet) : Int := if p.inFlight then p.length else 0
/-- contribution of a packet to `numOutstanding` -/
def outOf (p : Packet) : Int := if p.outstanding then 1 else 0

@[simp] theorem wsum_nil (w : Packet → Int) : wsum w [] = 0 := rfl
@[simp] theorem wsum_none (w : Packet → Int) (r : List (Option Packet)) : wsum w (none :: r) = wsum w r := rfl
@[simp] theorem wsum_some (w : Packet → Int) (p : Packet) (r : List (Option Packet)) : wsum w (some p :: r) = w p + wsum w r := rfl

theorem wsum_append (w : Packet → Int) (a b : List (Option Packet)) : wsum w (a ++ b) = wsum w a + wsum w b := by
  induction a with
  | nil => simp
  | cons x xs ih => cases x <;> simp [ih] <;> omega

@[simp] theorem wsum_dropNones (w : Packet → Int) (l : List (Option Packet)) : wsum w (dropNones l) = wsum w l := by
  induction l with
  | nil => rfl
  | cons x xs ih => cases x <;> simp [dropNones, ih]

theorem wsum_set_none (w : Packet → Int) {l : List (Option Packet)} {i : Nat} {p : Packet} (h : l[i]? = some (some p)) :
    wsum w (l.set i none) = wsum w l - w p := by
  induction l generalizing i with
  | nil => simp at h
  | cons x xs ih =>
    cases i with
    | zero => simp at h; subst h; simp; omega
    | succ j =>
      simp at h
      have := ih h
      cases x <;> simp [this] <;> omega

theorem cleanupStart_packets (h : Hist) : h.cleanupStart.packets = dropNones h.packets := by
  unfold Hist.cleanupStart
  simp only []
  split
  · rename_i e; simp at e; simp [e]
  · rfl

theorem wsum_nonneg (w : Packet → Int) (l : List (Option Packet)) (hw : ∀ p, some p ∈ l → 0 ≤ w p) : 0 ≤ wsum w l := by
  induction l with
  | nil => simp
  | cons x xs ih =>
    cases x with
    | none => simp; exact ih (fun p hp => hw p (List.mem_cons_of_mem _ hp))
    | some q =>
      have h1 := hw q (by simp)
      have h2 := ih (fun p hp => hw p (List.mem_cons_of_mem _ hp))
      simp; omega

theorem wsum_mem_le (w : Packet → Int) (l : List (Option Packet)) (hw : ∀ p, some p ∈ l → 0 ≤ w p) {p : Packet}
    (hp : some p ∈ l) : w p ≤ wsum w l := by
  induction l with
  | nil => simp at hp
  | cons x xs ih =>
    have hw' : ∀ p, some p ∈ xs → 0 ≤ w p := fun p hp => hw p (List.mem_cons_of_mem _ hp)
    rcases List.mem_cons.mp hp with h | h
    · subst h
      have := wsum_nonneg w xs hw'
      simp; omega
    · have h2 := ih hw' h
      cases x with
      | none => simpa using h2
      | some q =>
        have h1 := hw q (by simp)
        simp; omega

/-- general shape of what `Remove` does to the slice -/
theorem remove_packets {h h' : Hist} {pn : PN} {p : Packet} (e : h.remove pn = .ok h' p) :
    ∃ idx, h.packets[idx]? = some (some p) ∧
      (h'.packets = h.packets.set idx none ∨ h'.packets = dropNones (h.packets.set idx none)) ∧
      h'.probes = h.probes ∧ h'.numOutstanding = outAfter h.numOutstanding p ∧ h'.skipped = h.skipped := by
  unfold Hist.remove at e
  cases e1 : h.getIndex pn with
  | none => simp [e1] at e
  | some idx =>
    simp only [e1] at e
    cases e2 : (h.packets[idx]?).join with
    | none => simp [e2] at e
    | some q =>
      simp only [e2] at e
      split at e
      · simp at e
      · split at e
        · simp at e
        · simp only [RemoveRes.ok.injEq] at e
          obtain ⟨e3, e4⟩ := e
          subst e4
          refine ⟨idx, join_some e2, ?_⟩
          subst e3
          split
          · exact ⟨Or.inl rfl, rfl, rfl, rfl⟩
          · exact ⟨Or.inr (cleanupStart_packets _), by simp, by simp, by simp⟩

theorem declareLost_packets {h h' : Hist} {pn : PN} {p : Packet} (hl : h.lookup pn = some p) (e : h.declareLost pn = .ok h') :
    ∃ idx, h.packets[idx]? = some (some p) ∧
      (h'.packets = h.packets.set idx none ∨ h'.packets = dropNones (h.packets.set idx none)) ∧
      h'.probes = h.probes ∧ h'.numOutstanding = outAfter h.numOutstanding p ∧ h'.skipped = h.skipped := by
  obtain ⟨idx, e1, e2⟩ := lookup_some hl
  unfold Hist.declareLost at e
  simp only [e1, e2, Option.join_some] at e
  split at e
  · simp at e
  · simp only [LostRes.ok.injEq] at e
    subst e
    refine ⟨idx, e2, ?_⟩
    split
    · exact ⟨Or.inr (cleanupStart_packets _), by simp, by simp, by simp⟩
    · exact ⟨Or.inl rfl, rfl, rfl, rfl⟩

theorem wsum_after {w : Packet → Int} {l l' : List (Option Packet)} {idx : Nat} {p : Packet}
    (e : l[idx]? = some (some p)) (h : l' = l.set idx none ∨ l' = dropNones (l.set idx none)) :
    wsum w l' = wsum w l - w p := by
  rcases h with h | h <;> subst h <;> simp [wsum_set_none w e]

theorem mem_after {l l' : List (Option Packet)} {idx : Nat} {q : Packet}
    (h : l' = l.set idx none ∨ l' = dropNones (l.set idx none)) (hq : some q ∈ l') : some q ∈ l := by
  rcases h with h | h <;> subst h
  · exact mem_set_none hq
  · exact mem_set_none (mem_dropNones hq)

/-! ### the per-history invariant -/

/-- packets counted in flight are ack-eliciting non-probe packets; sizes are non-negative; `numOutstanding`
    is the number of outstanding packets; path probes are never counted in flight -/
structure FlightOKH (h : Hist) : Prop where
  inflight : ∀ p, some p ∈ h.packets → p.inFlight = true → p.pathProbe = false ∧ p.ackEliciting = true
  nonneg : ∀ p, some p ∈ h.packets → 0 ≤ p.length
  count : h.numOutstanding = wsum outOf h.packets
  /-- path probes are never counted in flight, and carry no StreamFrames (the path manager builds them
      from PATH_CHALLENGE / PATH_RESPONSE / PADDING frames only) -/
  probes : ∀ x ∈ h.probes, x.2.inFlight = false ∧ x.2.sframes = []
  /-- the slice never starts with a nil entry (so `Remove`'s "cleanup failed" check cannot fire) -/
  head : h.packets.head? ≠ some none

theorem flightOf_nonneg {h : Hist} (f : FlightOKH h) : ∀ p, some p ∈ h.packets → 0 ≤ flightOf p := by
  intro p hp
  unfold flightOf
  split
  · exact f.nonneg p hp
  · omega

theorem outOf_nonneg (p : Packet) : 0 ≤ outOf p := by unfold outOf; split <;> omega

theorem FlightOKH_after {h h' : Hist} {idx : Nat} {p : Packet} (f : FlightOKH h) (e : h.packets[idx]? = some (some p))
    (hp : h'.packets = h.packets.set idx none ∨ h'.packets = dropNones (h.packets.set idx none))
    (hpr : h'.probes = h.probes) (hn : h'.numOutstanding = outAfter h.numOutstanding p)
    (hh : h'.packets.head? ≠ some none) : FlightOKH h' where
  inflight := fun q hq => f.inflight q (mem_after hp hq)
  nonneg := fun q hq => f.nonneg q (mem_after hp hq)
  count := by
    rw [hn, wsum_after e hp, f.count]
    unfold outAfter outOf
    split <;> omega
  probes := by rw [hpr]; exact f.probes
  head := hh

theorem outAfter_eq (n : Int) (p : Packet) : outAfter n p = n - outOf p := by
  unfold outAfter outOf; split <;> omega

theorem head_dropNones (l : List (Option Packet)) : (dropNones l).head? ≠ some none := by
  induction l with
  | nil => simp [dropNones]
  | cons x xs ih => cases x <;> simp [dropNones]; exact ih

/-- `Remove` succeeds on a tracked packet, and keeps the invariant -/
theorem remove_ok {h : Hist} {pn : PN} {p : Packet} (f : FlightOKH h) (hl : h.lookup pn = some p) :
    ∃ h', h.remove pn = .ok h' p ∧ FlightOKH h' ∧ wsum flightOf h'.packets = wsum flightOf h.packets - flightOf p := by
  obtain ⟨idx, e1, e2⟩ := lookup_some hl
  have hout : 0 ≤ outAfter h.numOutstanding p := by
    have := wsum_mem_le outOf h.packets (fun q _ => outOf_nonneg q) (List.mem_of_getElem? e2)
    rw [outAfter_eq, f.count]; omega
  unfold Hist.remove
  simp only [e1, e2, Option.join_some]
  rw [if_neg (by omega)]
  -- the resulting slice
  generalize hh2 : (if ((h.packets.set idx none).take idx).any Option.isSome = true
      then ({ h with packets := h.packets.set idx none, numOutstanding := outAfter h.numOutstanding p } : Hist)
      else ({ h with packets := h.packets.set idx none, numOutstanding := outAfter h.numOutstanding p } : Hist).cleanupStart) = h2
  have hpk : h2.packets = h.packets.set idx none ∨ h2.packets = dropNones (h.packets.set idx none) := by
    subst hh2; split
    · exact Or.inl rfl
    · exact Or.inr (cleanupStart_packets _)
  have hpr : h2.probes = h.probes := by subst hh2; split <;> simp
  have hno : h2.numOutstanding = outAfter h.numOutstanding p := by subst hh2; split <;> simp
  have hhead : h2.packets.head? ≠ some none := by
    subst hh2
    split
    · rename_i hb
      -- some entry before idx is non-nil, so idx > 0 and the head is unchanged
      simp only []
      cases idx with
      | zero => simp at hb
      | succ j =>
        have : (h.packets.set (j + 1) none).head? = h.packets.head? := by
          cases h.packets with
          | nil => rfl
          | cons a as => simp
        rw [this]; exact f.head
    · rw [cleanupStart_packets]; exact head_dropNones _
  have hne : ∀ t, h2.packets ≠ none :: t := by
    intro t ht; rw [ht] at hhead; simp at hhead
  cases hpk2 : h2.packets with
  | nil =>
    simp only []
    exact ⟨h2, rfl, FlightOKH_after f e2 hpk hpr hno hhead, wsum_after e2 hpk⟩
  | cons a as =>
    cases a with
    | none => exact absurd hpk2 (hne as)
    | some q =>
      simp only []
      exact ⟨h2, rfl, FlightOKH_after f e2 hpk hpr hno hhead, wsum_after e2 hpk⟩

/-- `DeclareLost` succeeds on a tracked packet, and keeps the invariant -/
theorem declareLost_ok {h : Hist} {pn : PN} {p : Packet} (f : FlightOKH h) (hl : h.lookup pn = some p) :
    ∃ h', h.declareLost pn = .ok h' ∧ FlightOKH h' ∧ wsum flightOf h'.packets = wsum flightOf h.packets - flightOf p := by
  obtain ⟨idx, e1, e2⟩ := lookup_some hl
  have hout : 0 ≤ outAfter h.numOutstanding p := by
    have := wsum_mem_le outOf h.packets (fun q _ => outOf_nonneg q) (List.mem_of_getElem? e2)
    rw [outAfter_eq, f.count]; omega
  unfold Hist.declareLost
  simp only [e1, e2, Option.join_some]
  rw [if_neg (by omega)]
  refine ⟨_, rfl, ?_, ?_⟩
  · by_cases h0 : idx = 0
    · simp only [h0, if_true]
      subst h0
      exact FlightOKH_after f e2 (Or.inr (cleanupStart_packets _)) (by simp) (by simp)
        (by rw [cleanupStart_packets]; exact head_dropNones _)
    · simp only [h0, if_false]
      refine FlightOKH_after f e2 (Or.inl rfl) rfl rfl ?_
      simp only []
      cases idx with
      | zero => exact absurd rfl h0
      | succ j =>
        have : (h.packets.set (j + 1) none).head? = h.packets.head? := by
          cases h.packets with
          | nil => rfl
          | cons a as => simp
        rw [this]; exact f.head
  · by_cases h0 : idx = 0
    · simp only [h0, if_true]; subst h0
      exact wsum_after e2 (Or.inr (cleanupStart_packets _))
    · simp only [h0, if_false]
      exact wsum_after e2 (Or.inl rfl)

def spaceFlight : Option Space → Int
  | some sp => wsum flightOf sp.hist.packets
  | none => 0

/-- total size of the tracked packets counted in flight -/
def total (s : State) : Int := spaceFlight s.initial + spaceFlight s.handshake + wsum flightOf s.app.hist.packets

def FlightOKS : Option Space → Prop
  | some sp => FlightOKH sp.hist
  | none => True

structure FOK (s : State) : Prop where
  ini : FlightOKS s.initial
  hs : FlightOKS s.handshake
  app : FlightOKH s.app.hist

/-- the accounting invariant -/
def FInv (s : State) : Prop := FOK s ∧ s.bytesInFlight = total s

theorem spaceFlight_nonneg {o : Option Space} (f : FlightOKS o) : 0 ≤ spaceFlight o := by
  cases o with
  | none => simp [spaceFlight]
  | some sp => exact wsum_nonneg _ _ (flightOf_nonneg f)

theorem total_frame {s : State} {lvl : Level} {sp : Space} (f : FOK s) (h : s.getSpace lvl = some sp) :
    ∃ rest : Int, 0 ≤ rest ∧ total s = wsum flightOf sp.hist.packets + rest ∧
      ∀ (s' : State) (sp' : Space), s'.initial = s.initial → s'.handshake = s.handshake → s'.app = s.app →
        total (s'.setSpace lvl sp') = wsum flightOf sp'.hist.packets + rest := by
  have n1 := spaceFlight_nonneg f.ini
  have n2 := spaceFlight_nonneg f.hs
  have n3 := wsum_nonneg _ _ (flightOf_nonneg f.app)
  cases lvl with
  | invalid => simp [State.getSpace] at h
  | initial =>
    simp only [State.getSpace] at h
    refine ⟨spaceFlight s.handshake + wsum flightOf s.app.hist.packets, by omega, ?_, ?_⟩
    · simp [total, h, spaceFlight]; omega
    · intro s' sp' a b c; simp [total, State.setSpace, spaceFlight, b, c]; omega
  | handshake =>
    simp only [State.getSpace] at h
    refine ⟨spaceFlight s.initial + wsum flightOf s.app.hist.packets, by omega, ?_, ?_⟩
    · simp [total, h, spaceFlight]; omega
    · intro s' sp' a b c; simp [total, State.setSpace, spaceFlight, a, c]; omega
  | zeroRTT =>
    simp only [State.getSpace, Option.some.injEq] at h
    refine ⟨spaceFlight s.initial + spaceFlight s.handshake, by omega, ?_, ?_⟩
    · subst h; simp [total]; omega
    · intro s' sp' a b c; simp [total, State.setSpace, a, b]; omega
  | oneRTT =>
    simp only [State.getSpace, Option.some.injEq] at h
    refine ⟨spaceFlight s.initial + spaceFlight s.handshake, by omega, ?_, ?_⟩
    · subst h; simp [total]; omega
    · intro s' sp' a b c; simp [total, State.setSpace, a, b]; omega

theorem FOK_getSpace {s : State} {lvl : Level} {sp : Space} (f : FOK s) (h : s.getSpace lvl = some sp) : FlightOKH sp.hist := by
  obtain ⟨a, b, c⟩ := f
  cases lvl <;> simp only [State.getSpace] at h
  · simp at h
  · rw [h] at a; exact a
  · rw [h] at b; exact b
  · simp at h; subst h; exact c
  · simp at h; subst h; exact c

theorem FOK_setSpace {s s' : State} {lvl : Level} {sp : Space} (f : FOK s) (a : s'.initial = s.initial)
    (b : s'.handshake = s.handshake) (c : s'.app = s.app) (h : FlightOKH sp.hist) : FOK (s'.setSpace lvl sp) := by
  obtain ⟨x, y, z⟩ := f
  cases lvl <;> simp only [State.setSpace] <;> constructor <;> simp only [a, b, c, FlightOKS] <;> assumption

theorem FOK_eq {s s' : State} (a : s'.initial = s.initial) (b : s'.handshake = s.handshake) (c : s'.app = s.app)
    (f : FOK s) : FOK s' := by
  obtain ⟨x, y, z⟩ := f
  constructor <;> simp only [a, b, c] <;> assumption

theorem total_eq {s s' : State} (a : s'.initial = s.initial) (b : s'.handshake = s.handshake) (c : s'.app = s.app) :
    total s' = total s := by simp [total, a, b, c]

theorem removeBif_eq {b : Int} {p : Packet} (h : flightOf p ≤ b) : removeBif b p = some (b - flightOf p) := by
  unfold removeBif flightOf at *
  split
  · rename_i hi; simp only [hi, if_true] at h ⊢; rw [if_neg (by omega)]
  · simp

theorem flightOf_zero {h : Hist} (f : FlightOKH h) {p : Packet} (hp : some p ∈ h.packets)
    (hc : ¬ ((!p.pathProbe) = true ∧ p.ackEliciting = true)) : flightOf p = 0 := by
  unfold flightOf
  split
  · rename_i hi
    obtain ⟨a, b⟩ := f.inflight p hp hi
    exfalso; apply hc; simp [a, b]
  · rfl

theorem lossStep_flight {la lst ld : Int} {pn : PN} {p : Packet} {a : LossAcc} (f : FlightOKH a.hist)
    (hl : a.hist.lookup pn = some p) (hn : a.panic = none) (hb : wsum flightOf a.hist.packets ≤ a.bfl) :
    (lossStep la lst ld pn p a).panic = none ∧ FlightOKH (lossStep la lst ld pn p a).hist ∧
      (lossStep la lst ld pn p a).bfl - wsum flightOf (lossStep la lst ld pn p a).hist.packets = a.bfl - wsum flightOf a.hist.packets := by
  unfold lossStep
  have hmem := lookup_mem hl
  have hle := wsum_mem_le flightOf a.hist.packets (flightOf_nonneg f) hmem
  split
  · obtain ⟨h', e1, e2, e3⟩ := declareLost_ok f hl
    simp only [e1]
    split
    · rw [removeBif_eq (by omega)]
      simp only []
      exact ⟨hn, e2, by omega⟩
    · rename_i hc
      have := flightOf_zero f hmem hc
      simp only []
      exact ⟨hn, e2, by omega⟩
  · split
    · exact ⟨hn, f, rfl⟩
    · exact ⟨hn, f, rfl⟩

theorem lossLoop_flight (la lst ld : Int) (n : Nat) :
    ∀ (pn : PN) (a : LossAcc), FlightOKH a.hist → a.panic = none → wsum flightOf a.hist.packets ≤ a.bfl →
      (lossLoop la lst ld n pn a).panic = none ∧ FlightOKH (lossLoop la lst ld n pn a).hist ∧
      (lossLoop la lst ld n pn a).bfl - wsum flightOf (lossLoop la lst ld n pn a).hist.packets = a.bfl - wsum flightOf a.hist.packets := by
  induction n with
  | zero => intro pn a f hn _; exact ⟨hn, f, rfl⟩
  | succ n ih =>
    intro pn a f hn hb
    unfold lossLoop
    simp only [hn, Option.isSome_none, Bool.false_eq_true, if_false]
    cases hl : a.hist.lookup pn with
    | none => simp only []; exact ih _ _ f hn hb
    | some p =>
      simp only []
      split
      · exact ⟨hn, f, rfl⟩
      · obtain ⟨s1, s2, s3⟩ := lossStep_flight (la := la) (lst := lst) (ld := ld) f hl hn hb
        obtain ⟨i1, i2, i3⟩ := ih (pn + 1) _ s2 s1 (by omega)
        exact ⟨i1, i2, by omega⟩


/-- bytesInFlight minus what the histories account for (zero between operations; positive while
    `ReceivedAck` has taken packets out of the history but not yet out of `bytesInFlight`) -/
def delta (s : State) : Int := s.bytesInFlight - total s

theorem delta_withBif (s : State) (b : Int) : delta { s with bytesInFlight := b } = b - total s := rfl

theorem detectLostPackets_flight {s : State} {env : Env} {now : Time} {lvl : Level} {sp : Space} (f : FOK s)
    (hg : s.getSpace lvl = some sp) (hd : 0 ≤ delta s) :
    (s.detectLostPackets env now lvl).2.2 = none ∧ FOK (s.detectLostPackets env now lvl).1 ∧
      delta (s.detectLostPackets env now lvl).1 = delta s := by
  unfold State.detectLostPackets
  simp only [hg]
  obtain ⟨rest, r0, r1, r2⟩ := total_frame f hg
  have fsp := FOK_getSpace f hg
  have hb : wsum flightOf sp.hist.packets ≤ s.bytesInFlight := by unfold delta at hd; omega
  obtain ⟨l1, l2, l3⟩ := lossLoop_flight sp.largestAcked (now - lossDelayOf env) (lossDelayOf env) sp.hist.packets.length sp.hist.first
    { hist := sp.hist, bfl := s.bytesInFlight } fsp rfl hb
  refine ⟨l1, ?_, ?_⟩
  · exact FOK_eq (s := s.setSpace lvl _) rfl rfl rfl (FOK_setSpace f rfl rfl rfl l2)
  · have t1 := r2 s { sp with hist := (lossLoop sp.largestAcked (now - lossDelayOf env) (lossDelayOf env) sp.hist.packets.length sp.hist.first { hist := sp.hist, bfl := s.bytesInFlight }).hist, lossTime := (lossLoop sp.largestAcked (now - lossDelayOf env) (lossDelayOf env) sp.hist.packets.length sp.hist.first { hist := sp.hist, bfl := s.bytesInFlight }).lossTime } rfl rfl rfl
    change delta { (s.setSpace lvl _) with bytesInFlight := _ } = delta s
    rw [delta_withBif, t1]
    unfold delta
    rw [r1]
    simp only [] at l3 ⊢
    omega

theorem removeProbe_subset {pn : PN} {l : List (PN × Packet)} {x : PN × Packet} (h : x ∈ (removeProbe pn l).2) : x ∈ l := by
  induction l with
  | nil => simp [removeProbe] at h
  | cons y ys ih =>
    obtain ⟨q, pk⟩ := y
    unfold removeProbe at h
    split at h
    · exact List.mem_cons_of_mem _ h
    · simp only [List.mem_cons] at h ⊢
      rcases h with h | h
      · exact Or.inl h
      · exact Or.inr (ih h)

theorem removeProbe_fst_mem {pn : PN} {l : List (PN × Packet)} {p : Packet} (h : (removeProbe pn l).1 = some p) : (pn, p) ∈ l := by
  induction l with
  | nil => simp [removeProbe] at h
  | cons y ys ih =>
    obtain ⟨q, pk⟩ := y
    unfold removeProbe at h
    split at h
    · rename_i hq; simp at h; subst hq h; simp
    · exact List.mem_cons_of_mem _ (ih h)

theorem lostProbesLoop_subset (pns : List PN) : ∀ (pr : List (PN × Packet)) (evs : List Ev) (disc : List Frame) (x : PN × Packet),
    x ∈ (lostProbesLoop pns pr evs disc).1 → x ∈ pr := by
  induction pns with
  | nil => intro pr evs disc x h; exact h
  | cons pn rest ih =>
    intro pr evs disc x h
    simp only [lostProbesLoop] at h
    cases hq : removeProbe pn pr with
    | mk o pr' =>
      have hsub : ∀ y, y ∈ pr' → y ∈ pr := by
        intro y hy; have := @removeProbe_subset pn pr y; rw [hq] at this; exact this hy
      cases o with
      | some p => simp only [hq] at h; exact hsub _ (ih _ _ _ _ h)
      | none => simp only [hq] at h; exact hsub _ (ih _ _ _ _ h)

theorem detectLostPathProbes_flight (sp : Space) (now : Time) (f : FlightOKH sp.hist) :
    FlightOKH (detectLostPathProbes sp now).1.hist ∧ (detectLostPathProbes sp now).1.hist.packets = sp.hist.packets := by
  refine ⟨?_, detectLostPathProbes_packets sp now⟩
  unfold detectLostPathProbes
  split
  · exact f
  · exact { inflight := f.inflight, nonneg := f.nonneg, count := f.count, head := f.head,
            probes := fun x hx => f.probes x (lostProbesLoop_subset _ _ _ _ _ hx) }


theorem remove_cases (h : Hist) (pn : PN) :
    h.remove pn = .notFound ∨ h.remove pn = .panic .nilPacket ∨ ∃ p, h.lookup pn = some p := by
  unfold Hist.remove Hist.lookup
  cases e1 : h.getIndex pn with
  | none => left; rfl
  | some idx =>
    simp only []
    cases e2 : (h.packets[idx]?).join with
    | none => right; left; rfl
    | some q => right; right; exact ⟨q, rfl⟩

/-- what the packets appended to `h.ackedPackets` contribute to `bytesInFlight` -/
def doneSum : List (PN × Packet) → Int
  | [] => 0
  | x :: r => flightOf x.2 + doneSum r

theorem doneSum_append (a b : List (PN × Packet)) : doneSum (a ++ b) = doneSum a + doneSum b := by
  induction a with
  | nil => simp [doneSum]
  | cons x xs ih => simp [doneSum, ih]; omega

def ProbesOK (l : List (PN × Packet)) : Prop := ∀ x ∈ l, x.2.inFlight = false ∧ x.2.sframes = []

theorem collect_probesOK (multi : Bool) (lowest largest : PN) (pk : List (Option Packet)) :
    ∀ (pn : PN) (rem : List Range) (probes stash : List (PN × Packet)) (acc : List PN), ProbesOK probes → ProbesOK stash →
      ProbesOK (CollectRes.probes (collect multi lowest largest pn pk rem probes stash acc)) ∧
      ProbesOK (CollectRes.stash (collect multi lowest largest pn pk rem probes stash acc)) := by
  induction pk with
  | nil => intro pn rem probes stash acc h1 h2; simp [collect, CollectRes.probes, CollectRes.stash]; exact ⟨h1, h2⟩
  | cons x xs ih =>
    intro pn rem probes stash acc h1 h2
    cases x with
    | none => simp only [collect]; exact ih _ _ _ _ _ h1 h2
    | some p =>
      simp only [collect]
      split
      · exact ih _ _ _ _ _ h1 h2
      · split
        · exact ⟨h1, h2⟩
        · split
          · exact ih _ _ _ _ _ h1 h2
          · split
            · exact ⟨h1, h2⟩
            · split
              · cases hr : removeProbe pn probes with
                | mk o probes' =>
                  have hsub : ProbesOK probes' := by
                    intro y hy; have := @removeProbe_subset pn probes y; rw [hr] at this; exact h1 y (this hy)
                  cases o with
                  | some q =>
                    simp only []
                    apply ih _ _ _ _ _ hsub
                    intro y hy
                    simp only [List.mem_append, List.mem_singleton] at hy
                    rcases hy with hy | hy
                    · exact h2 y hy
                    · subst hy
                      have := @removeProbe_fst_mem pn probes q (by rw [hr])
                      exact h1 _ this
                  | none => simp only []; exact ih _ _ _ _ _ hsub h2
              · exact ih _ _ _ _ _ h1 h2

theorem ackedLoop_flight (lvl : Level) (acc : List PN) :
    ∀ (h : Hist) (stash : List (PN × Packet)) (evs : List Ev) (done : List (PN × Packet)), FlightOKH h → ProbesOK stash →
      (∀ x ∈ done, 0 ≤ flightOf x.2) →
      let r := ackedLoop lvl acc h stash evs done
      (r.2.2.2.2 = .ok ∨ r.2.2.2.2 = .err .notFound ∨ r.2.2.2.2 = .panic .nilPacket) ∧
      (r.2.2.2.2 = .ok → FlightOKH r.1 ∧ (∀ x ∈ r.2.2.2.1, 0 ≤ flightOf x.2) ∧
         wsum flightOf r.1.packets + doneSum r.2.2.2.1 = wsum flightOf h.packets + doneSum done) := by
  induction acc with
  | nil => intro h stash evs done f _ hd; exact ⟨Or.inl rfl, fun _ => ⟨f, hd, rfl⟩⟩
  | cons pn rest ih =>
    intro h stash evs done f hs hd
    simp only [ackedLoop]
    rcases remove_cases h pn with hr | hr | ⟨p, hl⟩
    · simp [hr]
    · simp [hr]
    · obtain ⟨h', e1, e2, e3⟩ := remove_ok f hl
      simp only [e1]
      have hmem := lookup_mem hl
      have hp0 : 0 ≤ flightOf p := flightOf_nonneg f p hmem
      by_cases hpp : p.pathProbe = true
      · simp only [hpp, if_true]
        have hz : flightOf p = 0 := flightOf_zero f hmem (by simp [hpp])
        cases hq : removeProbe pn stash with
        | mk o st' =>
          have hsub : ProbesOK st' := by
            intro y hy; have := @removeProbe_subset pn stash y; rw [hq] at this; exact hs y (this hy)
          cases o with
          | some q =>
            simp only []
            have hqz : flightOf q = 0 := by
              have := @removeProbe_fst_mem pn stash q (by rw [hq])
              have := (hs _ this).1
              unfold flightOf; simp_all
            have hd' : ∀ x ∈ done ++ [(pn, q)], 0 ≤ flightOf x.2 := by
              intro x hx; simp only [List.mem_append, List.mem_singleton] at hx
              rcases hx with hx | hx
              · exact hd x hx
              · subst hx; simp only []; omega
            obtain ⟨i1, i2⟩ := ih h' st' _ (done ++ [(pn, q)]) e2 hsub hd'
            refine ⟨i1, fun hok => ?_⟩
            obtain ⟨j1, j2, j3⟩ := i2 hok
            refine ⟨j1, j2, ?_⟩
            rw [j3, doneSum_append]; simp only [doneSum]; omega
          | none =>
            simp only []
            have hd' : ∀ x ∈ done ++ [(pn, p)], 0 ≤ flightOf x.2 := by
              intro x hx; simp only [List.mem_append, List.mem_singleton] at hx
              rcases hx with hx | hx
              · exact hd x hx
              · subst hx; exact hp0
            obtain ⟨i1, i2⟩ := ih h' st' _ (done ++ [(pn, p)]) e2 hsub hd'
            refine ⟨i1, fun hok => ?_⟩
            obtain ⟨j1, j2, j3⟩ := i2 hok
            refine ⟨j1, j2, ?_⟩
            rw [j3, doneSum_append]; simp only [doneSum]; omega
      · have hpf : p.pathProbe = false := by simpa using hpp
        simp only [hpf, Bool.false_eq_true, if_false]
        have hd' : ∀ x ∈ done ++ [(pn, p)], 0 ≤ flightOf x.2 := by
          intro x hx; simp only [List.mem_append, List.mem_singleton] at hx
          rcases hx with hx | hx
          · exact hd x hx
          · subst hx; exact hp0
        obtain ⟨i1, i2⟩ := ih h' stash _ (done ++ [(pn, p)]) e2 hs hd'
        refine ⟨i1, fun hok => ?_⟩
        obtain ⟨j1, j2, j3⟩ := i2 hok
        refine ⟨j1, j2, ?_⟩
        rw [j3, doneSum_append]; simp only [doneSum]; omega

theorem removeBifAll_eq : ∀ (l : List (PN × Packet)) (b : Int), (∀ x ∈ l, 0 ≤ flightOf x.2) → doneSum l ≤ b →
    removeBifAll b l = some (b - doneSum l) := by
  intro l
  induction l with
  | nil => intro b _ _; simp [removeBifAll, doneSum]
  | cons x xs ih =>
    intro b h0 hb
    obtain ⟨pn, p⟩ := x
    have h1 : ∀ y ∈ xs, 0 ≤ flightOf y.2 := fun y hy => h0 y (List.mem_cons_of_mem _ hy)
    have hx := h0 (pn, p) (by simp)
    have hs : 0 ≤ doneSum xs := by
      clear ih hb
      induction xs with
      | nil => simp [doneSum]
      | cons z zs ihz =>
        have := h1 z (by simp)
        have := ihz (fun y hy => h0 y (by simp at hy ⊢; rcases hy with hy | hy; exact Or.inl hy; exact Or.inr (Or.inr hy))) (fun y hy => h1 y (List.mem_cons_of_mem _ hy))
        simp [doneSum]; omega
    simp only [doneSum] at hb hx
    simp only [removeBifAll]
    rw [removeBif_eq (by omega)]
    simp only []
    rw [ih _ h1 (by omega)]
    simp only [doneSum]
    congr 1; omega


theorem getSpace_setSpace {s : State} {lvl : Level} {sp0 : Space} (h : s.getSpace lvl = some sp0) (sp : Space) :
    (s.setSpace lvl sp).getSpace lvl = some sp := by
  cases lvl <;> simp [State.getSpace, State.setSpace] at h ⊢

theorem total_nonneg {s : State} (f : FOK s) : 0 ≤ total s := by
  have n1 := spaceFlight_nonneg f.ini
  have n2 := spaceFlight_nonneg f.hs
  have n3 := wsum_nonneg _ _ (flightOf_nonneg f.app)
  unfold total; omega

theorem ackTail_flight {s : State} {env : Env} {lvl : Level} {now : Time} {largest : PN} {sp : Space} {h2 : Hist}
    {evs : List Ev} {removed : List (PN × Packet)} {sdisc : List Frame} {n : Nat} {rest : Int}
    (f : FOK s) (hg : s.getSpace lvl = some sp) (f2 : FlightOKH h2) (hr : ∀ x ∈ removed, 0 ≤ flightOf x.2)
    (fr : ∀ (s' : State) (sp' : Space), s'.initial = s.initial → s'.handshake = s.handshake → s'.app = s.app →
        total (s'.setSpace lvl sp') = wsum flightOf sp'.hist.packets + rest)
    (hb : s.bytesInFlight = wsum flightOf h2.packets + rest + doneSum removed) :
    (s.ackTail env lvl now largest sp h2 evs removed sdisc n).2.res = .ok ∧
      FInv (s.ackTail env lvl now largest sp h2 evs removed sdisc n).1 := by
  unfold State.ackTail
  simp only []
  have t2 := fr s { sp with hist := h2, largestAcked := max sp.largestAcked largest } rfl rfl rfl
  have fs2 : FOK (s.setSpace lvl { sp with hist := h2, largestAcked := max sp.largestAcked largest }) := FOK_setSpace f rfl rfl rfl f2
  have hg2 := getSpace_setSpace hg { sp with hist := h2, largestAcked := max sp.largestAcked largest }
  have hds : 0 ≤ doneSum removed := by
    clear hb
    induction removed with
    | nil => simp [doneSum]
    | cons z zs ih =>
      have := hr z (by simp)
      have := ih (fun y hy => hr y (List.mem_cons_of_mem _ hy))
      simp [doneSum]; omega
  have hd2 : delta (s.setSpace lvl { sp with hist := h2, largestAcked := max sp.largestAcked largest }) = doneSum removed := by
    unfold delta
    rw [t2]
    have : (s.setSpace lvl { sp with hist := h2, largestAcked := max sp.largestAcked largest }).bytesInFlight = s.bytesInFlight := by
      cases lvl <;> rfl
    rw [this, hb]; simp only []; omega
  generalize s.setSpace lvl { sp with hist := h2, largestAcked := max sp.largestAcked largest } = s2 at fs2 hg2 hd2 ⊢
  obtain ⟨l1, l2, l3⟩ := @detectLostPackets_flight s2 env now lvl _ fs2 hg2 (by omega)
  cases hd : s2.detectLostPackets env now lvl with
  | mk s3 r =>
    obtain ⟨evsL, pl⟩ := r
    rw [hd] at l1 l2 l3
    simp only [] at l1 l2 l3
    subst l1
    simp only []
    have hpp : ∀ r : Space × List Ev × List Frame, FlightOKH r.1.hist → r.1.hist.packets = s3.app.hist.packets →
        FOK ({ s3 with app := r.1 } : State) ∧ total ({ s3 with app := r.1 } : State) = total s3 := by
      intro r q1 q2
      exact ⟨⟨l2.ini, l2.hs, q1⟩, by simp [total, q2]⟩
    have hr2 : FlightOKH (if lvl = Level.oneRTT then detectLostPathProbes s3.app now else (s3.app, [], [])).1.hist ∧
        (if lvl = Level.oneRTT then detectLostPathProbes s3.app now else (s3.app, [], [])).1.hist.packets = s3.app.hist.packets := by
      split
      · exact detectLostPathProbes_flight s3.app now l2.app
      · exact ⟨l2.app, rfl⟩
    generalize (if lvl = Level.oneRTT then detectLostPathProbes s3.app now else (s3.app, [], [])) = rr at hr2 ⊢
    obtain ⟨q1, q2⟩ := hpp rr hr2.1 hr2.2
    have hle : doneSum removed ≤ s3.bytesInFlight := by
      have := total_nonneg l2
      unfold delta at l3 hd2; omega
    rw [removeBifAll_eq removed _ hr hle]
    simp only []
    refine ⟨trivial, ?_, ?_⟩
    · exact FOK_eq (s := { s3 with app := rr.1 }) rfl rfl rfl q1
    · change s3.bytesInFlight - doneSum removed = total ({ s3 with app := rr.1 } : State)
      rw [q2]; unfold delta at l3 hd2; omega


/-- the ways `ReceivedAck` can end without completing (none of them is one of the accounting panics) -/
def AckFail (r : Res) : Prop :=
  r = .err .bugAckedNotEmpty ∨ r = .err .ackSkipped ∨ r = .err .bugWrongPacket ∨ r = .err .notFound ∨
  r = .panic .nilPacket ∨ r = .err .ackUnsent ∨ r = .panic .nilSpace ∨ r = .panic .emptyAck

theorem ackCore_flight {s : State} {env : Env} {ranges : List Range} {lvl : Level} {now : Time} {sp : Space}
    {lowest largest : PN} (fi : FInv s) (hg : s.getSpace lvl = some sp) :
    ((s.ackCore env ranges lvl now sp lowest largest).2.res = .ok ∧ FInv (s.ackCore env ranges lvl now sp lowest largest).1) ∨
      AckFail (s.ackCore env ranges lvl now sp lowest largest).2.res := by
  obtain ⟨f, hb⟩ := fi
  obtain ⟨rest, r0, r1, r2⟩ := total_frame f hg
  have fsp := FOK_getSpace f hg
  unfold State.ackCore
  by_cases h1 : s.ackedBuf > 0
  · simp only [h1, if_true]; right; left; rfl
  · by_cases h2' : lvl = .oneRTT ∧ sp.hist.skipped.any (acksPacketBin ranges lowest largest)
    · simp only [h1, h2', if_false]; right; right; left; simp
    · simp only [h1, h2', if_false]
      have cp := collect_probesOK (decide (ranges.length > 1)) lowest largest sp.hist.packets sp.hist.first ranges.reverse sp.hist.probes [] []
        fsp.probes (by intro x hx; simp at hx)
      cases hc : collect (decide (ranges.length > 1)) lowest largest sp.hist.first sp.hist.packets ranges.reverse sp.hist.probes [] [] with
      | bug probes stash acc => right; right; right; left; rfl
      | done probes stash acc =>
        rw [hc] at cp
        simp only [CollectRes.probes, CollectRes.stash] at cp
        simp only []
        have f1 : FlightOKH { sp.hist with probes := probes } :=
          { inflight := fsp.inflight, nonneg := fsp.nonneg, count := fsp.count, head := fsp.head, probes := cp.1 }
        have al := ackedLoop_flight lvl acc { sp.hist with probes := probes } stash [] [] f1 cp.2 (by intro x hx; simp at hx)
        cases ha : ackedLoop lvl acc { sp.hist with probes := probes } stash [] [] with
        | mk h2 r =>
          obtain ⟨stash', evs, removed, res⟩ := r
          rw [ha] at al
          simp only [] at al
          obtain ⟨a1, a2⟩ := al
          rcases a1 with a1 | a1 | a1
          · subst a1
            obtain ⟨b1, b2, b3⟩ := a2 rfl
            simp only []
            by_cases hre : removed.isEmpty = true
            · simp only [hre, if_true]; left; exact ⟨trivial, f, hb⟩
            · simp only [hre]
              left
              refine ackTail_flight f hg b1 b2 r2 ?_
              simp only [doneSum] at b3
              rw [hb, r1]; omega
          · subst a1; right; right; right; right; left; rfl
          · subst a1; right; right; right; right; right; left; rfl

theorem receivedAck_flight {s : State} {env : Env} {ranges : List Range} {lvl : Level} {now : Time} (fi : FInv s) :
    ((s.receivedAck env ranges lvl now).2.res = .ok ∧ FInv (s.receivedAck env ranges lvl now).1) ∨
      AckFail (s.receivedAck env ranges lvl now).2.res := by
  unfold State.receivedAck
  cases hg : s.getSpace lvl with
  | none => right; simp [AckFail]
  | some sp =>
    cases hh : ranges.head? with
    | none => right; simp [AckFail]
    | some top =>
      cases hl : ranges.getLast? with
      | none => right; simp [AckFail]
      | some bot =>
        simp only []
        by_cases hle : top.2 > sp.largestSent
        · simp only [hle, if_true]; right; simp [AckFail]
        · simp only [hle, if_false]
          obtain ⟨e1, e2, e3, e4, _⟩ := completeValidation_spec s env lvl now
          generalize s.completeValidation env lvl now = s1 at e1 e2 e3 e4 ⊢
          have fi1 : FInv s1 := ⟨FOK_eq e1 e2 e3 fi.1, by rw [e4, total_eq e1 e2 e3]; exact fi.2⟩
          have hg' : s1.getSpace lvl = some sp := by rw [getSpace_congr e1 e2 e3]; exact hg
          exact ackCore_flight fi1 hg'


/-- not one of the accounting panics ("negative bytes_in_flight", "negative number of outstanding packets",
    "cleanup failed") -/
def Benign (r : Res) : Prop :=
  r ≠ .panic .negativeBytesInFlight ∧ r ≠ .panic .negativeOutstanding ∧ r ≠ .panic .cleanupFailed

theorem Benign_ok : Benign .ok := by simp [Benign]
theorem Benign_err (c : ErrCode) : Benign (.err c) := by simp [Benign]

theorem head_append {l : List (Option Packet)} (x : Option Packet) (h : l.head? ≠ some none) (hx : l = [] → x ≠ none) :
    (l ++ [x]).head? ≠ some none := by
  cases l with
  | nil => simp; exact hx rfl
  | cons a as => simpa using h

theorem FlightOKH_skippedPacket {h h' : Hist} {pn : PN} (f : FlightOKH h) (e : h.skippedPacket pn = some h') :
    FlightOKH h' ∧ wsum flightOf h'.packets = wsum flightOf h.packets := by
  unfold Hist.skippedPacket at e
  cases e1 : h.checkSeq pn with
  | none => simp [e1] at e
  | some h1 =>
    obtain ⟨a, b, c, d⟩ := checkSeq_packets e1
    simp only [e1, Option.some.injEq] at e
    subst e
    by_cases he : h1.packets.isEmpty = true
    · simp only [he, if_true]
      rw [a] at he ⊢
      exact ⟨{ inflight := f.inflight, nonneg := f.nonneg, count := by rw [d]; exact f.count, probes := by rw [b]; exact f.probes, head := f.head }, rfl⟩
    · have he' : h1.packets.isEmpty = false := by simpa using he
      simp only [he', Bool.false_eq_true, if_false]
      rw [a] at he ⊢
      refine ⟨{ inflight := ?_, nonneg := ?_, count := ?_, probes := by rw [b]; exact f.probes, head := ?_ }, ?_⟩
      · intro p hp; simp at hp; exact f.inflight p hp
      · intro p hp; simp at hp; exact f.nonneg p hp
      · simp only [d, wsum_append, wsum_none, wsum_nil]; rw [f.count]; omega
      · apply head_append _ f.head
        intro hn; simp [hn] at he
      · simp [wsum_append]

theorem Space.pop_flight {sp sp' : Space} {nts pn : PN} {sk : List PN} (e : sp.pop nts = some (sp', pn, sk)) (f : FlightOKH sp.hist) :
    FlightOKH sp'.hist ∧ wsum flightOf sp'.hist.packets = wsum flightOf sp.hist.packets := by
  unfold Space.pop at e
  cases hg : sp.gen.pop nts with
  | mk b r =>
    obtain ⟨pn', g⟩ := r
    cases b with
    | true =>
      simp only [hg] at e
      cases hs : sp.hist.skippedPacket (pn' - 1) with
      | none => simp [hs] at e
      | some h =>
        simp only [hs, Option.some.injEq, Prod.mk.injEq] at e
        obtain ⟨e1, _, _⟩ := e
        subst e1
        exact FlightOKH_skippedPacket f hs
    | false =>
      simp only [hg, Option.some.injEq, Prod.mk.injEq] at e
      obtain ⟨e1, _, _⟩ := e
      subst e1
      exact ⟨f, rfl⟩

theorem popPacketNumber_flight {s : State} {lvl : Level} {nts : PN} (fi : FInv s) :
    ((s.popPacketNumber lvl nts).2.res = .ok → FInv (s.popPacketNumber lvl nts).1) ∧ Benign (s.popPacketNumber lvl nts).2.res := by
  unfold State.popPacketNumber
  cases hg : s.getSpace lvl with
  | none => simp [Benign]
  | some sp =>
    simp only []
    cases hp : sp.pop nts with
    | none => simp [Benign]
    | some r =>
      obtain ⟨sp', pn, sk⟩ := r
      simp only []
      refine ⟨fun _ => ?_, Benign_ok⟩
      obtain ⟨p1, p2⟩ := Space.pop_flight hp (FOK_getSpace fi.1 hg)
      obtain ⟨rest, r0, r1, r2⟩ := total_frame fi.1 hg
      refine ⟨FOK_setSpace fi.1 rfl rfl rfl p1, ?_⟩
      rw [r2 s sp' rfl rfl rfl, p2, ← r1]
      have : (s.setSpace lvl sp').bytesInFlight = s.bytesInFlight := by cases lvl <;> rfl
      rw [this]; exact fi.2


theorem FlightOKH_sentPacket {h h' : Hist} {pn : PN} {p : Packet} (f : FlightOKH h) (e : h.sentPacket pn p = some h')
    (h1 : p.inFlight = true → p.pathProbe = false ∧ p.ackEliciting = true) (h2 : 0 ≤ p.length) :
    FlightOKH h' ∧ wsum flightOf h'.packets = wsum flightOf h.packets + flightOf p := by
  obtain ⟨a, b, c, _⟩ := sentPacket_spec e
  refine ⟨{ inflight := ?_, nonneg := ?_, count := ?_, probes := by rw [b]; exact f.probes, head := ?_ }, ?_⟩
  · intro q hq; rw [a] at hq; simp at hq
    rcases hq with hq | hq
    · exact f.inflight q hq
    · subst hq; exact h1
  · intro q hq; rw [a] at hq; simp at hq
    rcases hq with hq | hq
    · exact f.nonneg q hq
    · subst hq; exact h2
  · rw [c, a, wsum_append, f.count]; simp only [wsum_some, wsum_nil, outOf]; split <;> omega
  · rw [a]; exact head_append _ f.head (by simp)
  · rw [a, wsum_append]; simp

theorem FlightOKH_sentPathProbePacket {h h' : Hist} {pn : PN} {p : Packet} (f : FlightOKH h) (e : h.sentPathProbePacket pn p = some h')
    (h1 : p.inFlight = false) (h1' : p.sframes = []) :
    FlightOKH h' ∧ wsum flightOf h'.packets = wsum flightOf h.packets := by
  obtain ⟨a, b, c, _⟩ := sentPathProbePacket_spec e
  refine ⟨{ inflight := ?_, nonneg := ?_, count := ?_, probes := ?_, head := ?_ }, ?_⟩
  · intro q hq; rw [a] at hq; simp at hq
    rcases hq with hq | hq
    · exact f.inflight q hq
    · subst hq; intro hc; simp [dummyProbe] at hc
  · intro q hq; rw [a] at hq; simp at hq
    rcases hq with hq | hq
    · exact f.nonneg q hq
    · subst hq; simp [dummyProbe]
  · rw [c, a, wsum_append, f.count]; simp [outOf, dummyProbe, Packet.outstanding]
  · intro x hx; rw [b] at hx; simp at hx
    rcases hx with hx | hx
    · exact f.probes x hx
    · subst hx; exact ⟨h1, h1'⟩
  · rw [a]; exact head_append _ f.head (by simp)
  · rw [a, wsum_append]; simp [flightOf, dummyProbe]

theorem FInv_setTimer {s : State} (env : Env) (now : Time) (fi : FInv s) : FInv (s.setTimer env now) :=
  ⟨⟨fi.1.ini, fi.1.hs, fi.1.app⟩, fi.2⟩

theorem sentPacket_flight {s : State} {env : Env} {t : Time} {pn la : PN} {sframes frames : List Frame} {lvl : Level}
    {size : Int} {mtu probe : Bool} (fi : FInv s) (hs : 0 ≤ size) (hpr : probe = true → sframes = []) :
    ((s.sentPacket env t pn la sframes frames lvl size mtu probe).2 = .ok →
       FInv (s.sentPacket env t pn la sframes frames lvl size mtu probe).1) ∧
      Benign (s.sentPacket env t pn la sframes frames lvl size mtu probe).2 := by
  unfold State.sentPacket
  simp only []
  have hgc : ({ s with bytesSent := s.bytesSent + size } : State).getSpace lvl = s.getSpace lvl := getSpace_congr rfl rfl rfl lvl
  rw [hgc]
  cases hg : s.getSpace lvl with
  | none => simp [Benign]
  | some sp =>
    simp only []
    obtain ⟨rest, r0, r1, r2⟩ := total_frame fi.1 hg
    have fsp := FOK_getSpace fi.1 hg
    have hbif : ∀ (s' : State) (sp' : Space), (s'.setSpace lvl sp').bytesInFlight = s'.bytesInFlight := by
      intro s' sp'; cases lvl <;> rfl
    cases probe with
    | true =>
      simp only [if_true]
      cases hsp : sp.hist.sentPathProbePacket pn { sendTime := t, level := lvl, length := size, frames := frames, sframes := sframes, largestAcked := la, mtuProbe := mtu, pathProbe := true } with
      | none => simp [Benign]
      | some h =>
        simp only []
        refine ⟨fun _ => ?_, Benign_ok⟩
        obtain ⟨p1, p2⟩ := FlightOKH_sentPathProbePacket fsp hsp rfl (hpr rfl)
        apply FInv_setTimer
        refine ⟨?_, ?_⟩
        · change FOK (State.setSpace _ lvl _)
          exact FOK_setSpace (s := s) (s' := { s with bytesSent := s.bytesSent + size }) fi.1 rfl rfl rfl p1
        · change (State.setSpace _ lvl _).bytesInFlight = total (State.setSpace _ lvl _)
          rw [hbif, r2 { s with bytesSent := s.bytesSent + size } _ rfl rfl rfl]
          simp only [p2, ← r1]; exact fi.2
    | false =>
      simp only [Bool.false_eq_true, if_false]
      by_cases hae : ({ sendTime := t, level := lvl, length := size, frames := frames, sframes := sframes, largestAcked := la, mtuProbe := mtu, pathProbe := false } : Packet).ackEliciting = true
      · simp only [hae, if_true]
        cases hsp : sp.hist.sentPacket pn { sendTime := t, level := lvl, length := size, frames := frames, sframes := sframes, largestAcked := la, mtuProbe := mtu, pathProbe := false, inFlight := true } with
        | none => simp [Benign]
        | some h =>
          simp only []
          refine ⟨fun _ => ?_, Benign_ok⟩
          obtain ⟨p1, p2⟩ := FlightOKH_sentPacket fsp hsp (fun _ => ⟨rfl, hae⟩) hs
          apply FInv_setTimer
          refine ⟨?_, ?_⟩
          · change FOK (State.setSpace _ lvl _)
            exact FOK_setSpace (s := s) (s' := State.aeSent { s with bytesSent := s.bytesSent + size } size) fi.1 rfl rfl rfl p1
          · change (State.setSpace _ lvl _).bytesInFlight = total (State.setSpace _ lvl _)
            rw [hbif, r2 (State.aeSent { s with bytesSent := s.bytesSent + size } size) _ rfl rfl rfl]
            simp only [p2, flightOf, State.aeSent, if_true]
            have := fi.2; omega
      · rw [if_neg hae]
        cases hsp : sp.hist.sentPacket pn { sendTime := t, level := lvl, length := size, frames := frames, sframes := sframes, largestAcked := la, mtuProbe := mtu, pathProbe := false } with
        | none => simp [Benign]
        | some h =>
          simp only []
          refine ⟨fun _ => ?_, Benign_ok⟩
          obtain ⟨p1, p2⟩ := FlightOKH_sentPacket fsp hsp (fun hc => by simp at hc) hs
          have key : FInv (({ s with bytesSent := s.bytesSent + size } : State).setSpace lvl { sp with largestSent := pn, hist := h }) := by
            refine ⟨FOK_setSpace (s := s) (s' := { s with bytesSent := s.bytesSent + size }) fi.1 rfl rfl rfl p1, ?_⟩
            rw [hbif, r2 { s with bytesSent := s.bytesSent + size } _ rfl rfl rfl]
            simp only [p2, flightOf]
            have := fi.2; simp; omega
          split
          · exact FInv_setTimer _ _ key
          · exact key


theorem Benign_panic_of {c : PanicCause} (h1 : c ≠ .negativeBytesInFlight) (h2 : c ≠ .negativeOutstanding) (h3 : c ≠ .cleanupFailed) :
    Benign (.panic c) := by simp [Benign, h1, h2, h3]

/-- `detectLostPackets` under the invariant: it either finds no space (nil dereference) or completes -/
theorem detectLostPackets_flight' {s : State} {env : Env} {now : Time} {lvl : Level} (f : FOK s) (hd : 0 ≤ delta s) :
    ((s.detectLostPackets env now lvl).2.2 = none ∧ FOK (s.detectLostPackets env now lvl).1 ∧
      delta (s.detectLostPackets env now lvl).1 = delta s) ∨ (s.detectLostPackets env now lvl).2.2 = some .nilSpace := by
  cases hg : s.getSpace lvl with
  | none => right; unfold State.detectLostPackets; simp [hg]
  | some sp => left; exact detectLostPackets_flight f hg hd

theorem FInv_delta {s : State} (fi : FInv s) : delta s = 0 := by unfold delta; rw [fi.2]; omega
theorem FInv_of_delta {s : State} (f : FOK s) (h : delta s = 0) : FInv s := ⟨f, by unfold delta at h; omega⟩

theorem ptoSwitch_flight {s : State} {lvl : Level} {nts : PN} {evs0 : List Ev} {disc0 : List Frame} (fi : FInv s) :
    ((s.ptoSwitch lvl nts evs0 disc0).2.res = .ok → FInv (s.ptoSwitch lvl nts evs0 disc0).1) ∧
      Benign (s.ptoSwitch lvl nts evs0 disc0).2.res := by
  unfold State.ptoSwitch
  have fi' : FInv ({ s with ptoCount := s.ptoCount + 1, numProbesToSend := s.numProbesToSend + 2 } : State) :=
    ⟨⟨fi.1.ini, fi.1.hs, fi.1.app⟩, fi.2⟩
  cases lvl with
  | initial => exact ⟨fun _ => ⟨⟨fi.1.ini, fi.1.hs, fi.1.app⟩, fi.2⟩, Benign_ok⟩
  | handshake => exact ⟨fun _ => ⟨⟨fi.1.ini, fi.1.hs, fi.1.app⟩, fi.2⟩, Benign_ok⟩
  | invalid => exact ⟨fun h => by simp at h, Benign_err _⟩
  | zeroRTT => exact ⟨fun h => by simp at h, Benign_err _⟩
  | oneRTT =>
    simp only []
    cases hp : s.app.pop nts with
    | none => exact ⟨fun h => by simp at h, by simp [Benign]⟩
    | some r =>
      obtain ⟨sp, pn, sk⟩ := r
      simp only []
      obtain ⟨p1, p2⟩ := Space.pop_flight hp fi.1.app
      cases hs : sp.hist.skippedPacket pn with
      | none => exact ⟨fun h => by simp at h, by simp [Benign]⟩
      | some h =>
        simp only []
        obtain ⟨q1, q2⟩ := FlightOKH_skippedPacket p1 hs
        refine ⟨fun _ => ⟨⟨fi.1.ini, fi.1.hs, q1⟩, ?_⟩, Benign_ok⟩
        have := fi.2
        simp only [total] at this ⊢
        rw [q2, p2]; exact this

theorem ptoFire_flight {s : State} {env : Env} {now : Time} {nts : PN} {evs0 : List Ev} {disc0 : List Frame} (fi : FInv s) :
    ((s.ptoFire env now nts evs0 disc0).2.res = .ok → FInv (s.ptoFire env now nts evs0 disc0).1) ∧
      Benign (s.ptoFire env now nts evs0 disc0).2.res := by
  unfold State.ptoFire
  split
  · exact ⟨fun _ => fi, Benign_ok⟩
  · cases hg : s.getSpace (s.getPTOTimeAndSpace env now).2 with
    | none => exact ⟨fun h => by simp at h, by simp [Benign]⟩
    | some ps =>
      simp only []
      split
      · exact ⟨fun _ => fi, Benign_ok⟩
      · exact ptoSwitch_flight fi

theorem timeoutMain_flight {s : State} {env : Env} {now : Time} {nts : PN} {evs0 : List Ev} {disc0 : List Frame} (fi : FInv s) :
    ((s.timeoutMain env now nts evs0 disc0).2.res = .ok → FInv (s.timeoutMain env now nts evs0 disc0).1) ∧
      Benign (s.timeoutMain env now nts evs0 disc0).2.res := by
  unfold State.timeoutMain State.timeoutMainG
  split
  · simp only []
    rcases detectLostPackets_flight' (env := env) (now := now) (lvl := s.getLossTimeAndSpace.2) fi.1 (by rw [FInv_delta fi]; omega) with h | h
    · obtain ⟨h1, h2, h3⟩ := h
      rw [h1]
      exact ⟨fun _ => FInv_of_delta h2 (by rw [h3, FInv_delta fi]), Benign_ok⟩
    · rw [h]
      exact ⟨fun h => by simp at h, by simp [Benign]⟩
  · split
    · unfold State.antiDeadlockProbe
      simp only []
      have fi' : FInv ({ s with ptoCount := s.ptoCount + 1, numProbesToSend := s.numProbesToSend + 1 } : State) :=
        ⟨⟨fi.1.ini, fi.1.hs, fi.1.app⟩, fi.2⟩
      split
      · exact ⟨fun _ => ⟨⟨fi.1.ini, fi.1.hs, fi.1.app⟩, fi.2⟩, Benign_ok⟩
      · split
        · exact ⟨fun _ => ⟨⟨fi.1.ini, fi.1.hs, fi.1.app⟩, fi.2⟩, Benign_ok⟩
        · exact ⟨fun h => by simp at h, Benign_err _⟩
    · exact ptoFire_flight fi

theorem onLossDetectionTimeout_flight {s : State} {env : Env} {now : Time} {nts : PN} (fi : FInv s) :
    ((s.onLossDetectionTimeout env now nts).2.res = .ok → FInv (s.onLossDetectionTimeout env now nts).1) ∧
      Benign (s.onLossDetectionTimeout env now nts).2.res := by
  unfold State.onLossDetectionTimeout State.timeoutBody
  simp only []
  have key : ∀ r : Space × List Ev × List Frame, FlightOKH r.1.hist → r.1.hist.packets = s.app.hist.packets →
      FInv ({ s with app := r.1 } : State) := by
    intro r q1 q2
    exact ⟨⟨fi.1.ini, fi.1.hs, q1⟩, by have := fi.2; simp only [total] at this ⊢; rw [q2]; exact this⟩
  have hr : FlightOKH (if s.handshakeConfirmed = true then detectLostPathProbes s.app now else (s.app, [], [])).1.hist ∧
      (if s.handshakeConfirmed = true then detectLostPathProbes s.app now else (s.app, [], [])).1.hist.packets = s.app.hist.packets := by
    split
    · exact detectLostPathProbes_flight s.app now fi.1.app
    · exact ⟨fi.1.app, rfl⟩
  generalize (if s.handshakeConfirmed = true then detectLostPathProbes s.app now else (s.app, [], [])) = rr at hr ⊢
  obtain ⟨t1, t2⟩ := @timeoutMain_flight _ env now nts rr.2.1 rr.2.2 (key rr hr.1 hr.2)
  exact ⟨fun h => FInv_setTimer _ _ (t1 h), t2⟩


theorem queueProbePacket_flight {s : State} {lvl : Level} (fi : FInv s) :
    ((s.queueProbePacket lvl).2.res = .ok → FInv (s.queueProbePacket lvl).1) ∧ Benign (s.queueProbePacket lvl).2.res := by
  unfold State.queueProbePacket
  cases hg : s.getSpace lvl with
  | none => exact ⟨fun h => by simp at h, by simp [Benign]⟩
  | some sp =>
    simp only []
    cases hf : sp.hist.firstOutstanding with
    | none => exact ⟨fun _ => fi, Benign_ok⟩
    | some r =>
      obtain ⟨pn, p⟩ := r
      simp only []
      have hl := firstOutstanding_lookup hf
      have fsp := FOK_getSpace fi.1 hg
      obtain ⟨h', e1, e2, e3⟩ := declareLost_ok fsp hl
      simp only [e1]
      obtain ⟨rest, r0, r1, r2⟩ := total_frame fi.1 hg
      have hbif : (s.setSpace lvl { sp with hist := h' }).bytesInFlight = s.bytesInFlight := by cases lvl <;> rfl
      have hle := wsum_mem_le flightOf sp.hist.packets (flightOf_nonneg fsp) (lookup_mem hl)
      rw [hbif, removeBif_eq (by have := fi.2; omega)]
      simp only []
      refine ⟨fun _ => ⟨?_, ?_⟩, Benign_ok⟩
      · exact FOK_eq (s := s.setSpace lvl { sp with hist := h' }) rfl rfl rfl (FOK_setSpace fi.1 rfl rfl rfl e2)
      · change s.bytesInFlight - flightOf p = total (s.setSpace lvl { sp with hist := h' })
        rw [r2 s _ rfl rfl rfl]; simp only [e3]; have := fi.2; omega

theorem removeBifPackets_eq : ∀ (l : List (Option Packet)) (b : Int), (∀ p, some p ∈ l → 0 ≤ flightOf p) → wsum flightOf l ≤ b →
    removeBifPackets b l = some (b - wsum flightOf l) := by
  intro l
  induction l with
  | nil => intro b _ _; simp [removeBifPackets]
  | cons x xs ih =>
    intro b h0 hb
    have h1 : ∀ p, some p ∈ xs → 0 ≤ flightOf p := fun p hp => h0 p (List.mem_cons_of_mem _ hp)
    cases x with
    | none => simp only [removeBifPackets, wsum_none] at hb ⊢; exact ih b h1 hb
    | some q =>
      have hq := h0 q (by simp)
      have hs := wsum_nonneg flightOf xs h1
      simp only [wsum_some] at hb
      simp only [removeBifPackets]
      rw [removeBif_eq (by omega)]
      simp only []
      rw [ih _ h1 (by omega)]
      simp only [wsum_some]; congr 1; omega

theorem FInv_afterDrop {s : State} (env : Env) (now : Time) (fi : FInv s) : FInv (s.afterDrop env now) :=
  ⟨⟨fi.1.ini, fi.1.hs, fi.1.app⟩, fi.2⟩

theorem drop0RTTLoop_flight (n : Nat) :
    ∀ (pn : PN) (h : Hist) (bfl : Int) (disc : List Frame), FlightOKH h → wsum flightOf h.packets ≤ bfl →
      (drop0RTTLoop n pn h bfl disc).2.2.2 = none ∧ FlightOKH (drop0RTTLoop n pn h bfl disc).1 ∧
      (drop0RTTLoop n pn h bfl disc).2.1 - wsum flightOf (drop0RTTLoop n pn h bfl disc).1.packets = bfl - wsum flightOf h.packets := by
  induction n with
  | zero => intro pn h bfl disc f _; exact ⟨rfl, f, rfl⟩
  | succ n ih =>
    intro pn h bfl disc f hb
    unfold drop0RTTLoop
    cases hl : h.lookup pn with
    | none => simp only []; exact ih _ _ _ _ f hb
    | some p =>
      simp only []
      split
      · exact ⟨rfl, f, rfl⟩
      · have hle := wsum_mem_le flightOf h.packets (flightOf_nonneg f) (lookup_mem hl)
        rw [removeBif_eq (by omega)]
        simp only []
        obtain ⟨h', e1, e2, e3⟩ := remove_ok f hl
        simp only [e1]
        obtain ⟨i1, i2, i3⟩ := ih (pn + 1) h' (bfl - flightOf p) (disc ++ p.allFrames) e2 (by omega)
        exact ⟨i1, i2, by omega⟩

theorem dropPackets_flight {s : State} {env : Env} {lvl : Level} {now : Time} (fi : FInv s) :
    ((s.dropPackets env lvl now).2.res = .ok → FInv (s.dropPackets env lvl now).1) ∧ Benign (s.dropPackets env lvl now).2.res := by
  unfold State.dropPackets
  simp only []
  generalize hs1 : (if s.isClient ∧ lvl = .handshake then ({ s with peerCompleted := true } : State) else s) = s1
  have e1 : s1.initial = s.initial := by subst hs1; split <;> rfl
  have e2 : s1.handshake = s.handshake := by subst hs1; split <;> rfl
  have e3 : s1.app = s.app := by subst hs1; split <;> rfl
  have e4 : s1.bytesInFlight = s.bytesInFlight := by subst hs1; split <;> rfl
  have fi1 : FInv s1 := ⟨FOK_eq e1 e2 e3 fi.1, by rw [e4, total_eq e1 e2 e3]; exact fi.2⟩
  clear hs1 e1 e2 e3 e4 fi
  have n1 := spaceFlight_nonneg fi1.1.ini
  have n2 := spaceFlight_nonneg fi1.1.hs
  have n3 := wsum_nonneg _ _ (flightOf_nonneg fi1.1.app)
  have hb := fi1.2
  cases lvl with
  | invalid => exact ⟨fun h => by simp at h, by simp [Benign]⟩
  | oneRTT => exact ⟨fun h => by simp at h, by simp [Benign]⟩
  | initial =>
    simp only []
    cases hi : s1.initial with
    | none => exact ⟨fun _ => fi1, Benign_ok⟩
    | some sp =>
      simp only []
      have fsp : FlightOKH sp.hist := by have := fi1.1.ini; rw [hi] at this; exact this
      have hsi : spaceFlight s1.initial = wsum flightOf sp.hist.packets := by rw [hi]; rfl
      simp only [total, hsi] at hb n1
      rw [removeBifPackets_eq _ _ (flightOf_nonneg fsp) (by omega)]
      simp only []
      refine ⟨fun _ => FInv_afterDrop _ _ ⟨⟨trivial, fi1.1.hs, fi1.1.app⟩, ?_⟩, Benign_ok⟩
      simp only [total]
      have : spaceFlight (none : Option Space) = 0 := rfl
      rw [this]; omega
  | handshake =>
    simp only []
    cases hi : s1.handshake with
    | none => exact ⟨fun _ => fi1, Benign_ok⟩
    | some sp =>
      simp only []
      have fsp : FlightOKH sp.hist := by have := fi1.1.hs; rw [hi] at this; exact this
      have hsi : spaceFlight s1.handshake = wsum flightOf sp.hist.packets := by rw [hi]; rfl
      simp only [total, hsi] at hb n2
      rw [removeBifPackets_eq _ _ (flightOf_nonneg fsp) (by omega)]
      simp only []
      refine ⟨fun _ => FInv_afterDrop _ _ ⟨⟨fi1.1.ini, trivial, fi1.1.app⟩, ?_⟩, Benign_ok⟩
      simp only [total]
      have : spaceFlight (none : Option Space) = 0 := rfl
      rw [this]; omega
  | zeroRTT =>
    simp only []
    simp only [total] at hb
    obtain ⟨l1, l2, l3⟩ := drop0RTTLoop_flight s1.app.hist.packets.length s1.app.hist.first s1.app.hist s1.bytesInFlight [] fi1.1.app (by omega)
    rw [l1]
    simp only []
    refine ⟨fun _ => FInv_afterDrop _ _ ⟨⟨fi1.1.ini, fi1.1.hs, l2⟩, ?_⟩, Benign_ok⟩
    simp only [total]; omega


theorem FlightOKH_empty : FlightOKH ({} : Hist) :=
  { inflight := by intro p hp; simp at hp, nonneg := by intro p hp; simp at hp, count := rfl,
    probes := by intro x hx; simp at hx, head := by simp }

theorem Space.new_flight (pn : PN) (app : Bool) (nts : PN) :
    FlightOKH (Space.new pn app nts).hist ∧ wsum flightOf (Space.new pn app nts).hist.packets = 0 :=
  ⟨FlightOKH_empty, rfl⟩

/-- caller contract of `ResetForRetry`: nothing is in flight in the Handshake space (a Retry is only
    processed before the first Handshake packet is sent) -/
theorem resetForRetry_flight {s : State} {nts : PN} (fi : FInv s) (hv : spaceFlight s.handshake = 0) :
    ((s.resetForRetry nts).2.res = .ok → FInv (s.resetForRetry nts).1) ∧ Benign (s.resetForRetry nts).2.res := by
  unfold State.resetForRetry
  simp only []
  cases hi : s.initial with
  | none => exact ⟨fun h => by simp at h, by simp [Benign]⟩
  | some ini =>
    simp only []
    refine ⟨fun _ => ⟨⟨(Space.new_flight _ _ _).1, fi.1.hs, (Space.new_flight _ _ _).1⟩, ?_⟩, Benign_ok⟩
    simp only [total, spaceFlight, (Space.new_flight _ _ _).2]
    simp only [spaceFlight] at hv
    omega

theorem migrateLoop_flight (n : Nat) :
    ∀ (pn : PN) (h : Hist) (bfl : Int) (evs : List Ev), FlightOKH h → wsum flightOf h.packets ≤ bfl →
      (migrateLoop n pn h bfl evs).2.2.2 = none ∧ FlightOKH (migrateLoop n pn h bfl evs).1 ∧
      (migrateLoop n pn h bfl evs).2.1 - wsum flightOf (migrateLoop n pn h bfl evs).1.packets = bfl - wsum flightOf h.packets := by
  induction n with
  | zero => intro pn h bfl evs f _; exact ⟨rfl, f, rfl⟩
  | succ n ih =>
    intro pn h bfl evs f hb
    unfold migrateLoop
    cases hl : h.lookup pn with
    | none => simp only []; exact ih _ _ _ _ f hb
    | some p =>
      simp only []
      obtain ⟨h', e1, e2, e3⟩ := declareLost_ok f hl
      simp only [e1]
      have hmem := lookup_mem hl
      have hle := wsum_mem_le flightOf h.packets (flightOf_nonneg f) hmem
      by_cases hpp : p.pathProbe = true
      · simp only [hpp, Bool.not_true, Bool.false_eq_true, if_false]
        have hz : flightOf p = 0 := flightOf_zero f hmem (by simp [hpp])
        obtain ⟨i1, i2, i3⟩ := ih (pn + 1) h' bfl evs e2 (by omega)
        exact ⟨i1, i2, by omega⟩
      · have hpf : p.pathProbe = false := by simpa using hpp
        simp only [hpf, Bool.not_false, if_true]
        rw [removeBif_eq (by omega)]
        simp only []
        split
        · obtain ⟨i1, i2, i3⟩ := ih (pn + 1) h' (bfl - flightOf p) (evs ++ p.allFrames.map Ev.lost) e2 (by omega)
          exact ⟨i1, i2, by omega⟩
        · obtain ⟨i1, i2, i3⟩ := ih (pn + 1) h' (bfl - flightOf p) evs e2 (by omega)
          exact ⟨i1, i2, by omega⟩

theorem migrateProbes_subset (n : Nat) : ∀ (i : Nat) (cur stale removed : List (PN × Packet)) (x : PN × Packet),
    x ∈ (migrateProbes n i cur stale removed).1 → x ∈ cur := by
  induction n with
  | zero => intro i cur stale removed x h; exact h
  | succ n ih =>
    intro i cur stale removed x h
    unfold migrateProbes at h
    cases hx : (cur ++ stale)[i]? with
    | none => simp only [hx] at h; exact h
    | some y =>
      obtain ⟨pn, pk⟩ := y
      simp only [hx] at h
      cases hq : removeProbe pn cur with
      | mk o cur' =>
        have hsub : ∀ y, y ∈ cur' → y ∈ cur := by
          intro y hy; have := @removeProbe_subset pn cur y; rw [hq] at this; exact this hy
        cases o with
        | none => simp only [hq] at h; exact ih _ _ _ _ _ h
        | some p =>
          cases hlast : cur.getLast? with
          | none => simp only [hq, hlast] at h; exact ih _ _ _ _ _ h
          | some last => simp only [hq, hlast] at h; exact hsub _ (ih _ _ _ _ _ h)

theorem migratedPath_flight {s : State} {env : Env} {now : Time} (fi : FInv s) :
    ((s.migratedPath env now).2.res = .ok → FInv (s.migratedPath env now).1) ∧ Benign (s.migratedPath env now).2.res := by
  unfold State.migratedPath
  simp only []
  have n1 := spaceFlight_nonneg fi.1.ini
  have n2 := spaceFlight_nonneg fi.1.hs
  have hb := fi.2
  simp only [total] at hb
  obtain ⟨l1, l2, l3⟩ := migrateLoop_flight s.app.hist.packets.length s.app.hist.first s.app.hist s.bytesInFlight [] fi.1.app (by omega)
  rw [l1]
  simp only []
  refine ⟨fun _ => FInv_setTimer _ _ ⟨⟨fi.1.ini, fi.1.hs, ?_⟩, ?_⟩, Benign_ok⟩
  · exact { inflight := l2.inflight, nonneg := l2.nonneg, count := l2.count, head := l2.head,
            probes := fun x hx => l2.probes x (migrateProbes_subset _ _ _ _ _ _ hx) }
  · simp only [total]; omega

theorem receivedBytes_flight {s : State} {env : Env} {n : Int} {t : Time} (fi : FInv s) : FInv (s.receivedBytes env n t) := by
  unfold State.receivedBytes
  simp only []
  split
  · exact ⟨⟨fi.1.ini, fi.1.hs, fi.1.app⟩, fi.2⟩
  · exact ⟨⟨fi.1.ini, fi.1.hs, fi.1.app⟩, fi.2⟩

theorem receivedPacket_flight {s : State} {env : Env} {l : Level} {t : Time} (fi : FInv s) : FInv (s.receivedPacket env l t) := by
  unfold State.receivedPacket
  split
  · exact ⟨⟨fi.1.ini, fi.1.hs, fi.1.app⟩, fi.2⟩
  · exact fi

/-- caller contract under which the accounting theorems hold: packet sizes are non-negative, path-probe
    packets carry no StreamFrames, and a Retry arrives only while nothing is in flight in the Handshake space -/
def Valid (s : State) : Op → Prop
  | .send _ _ _ size _ probe _ sframes => 0 ≤ size ∧ (probe = true → sframes = [])
  | .retry => spaceFlight s.handshake = 0
  | _ => True

theorem AckFail_Benign {r : Res} (h : AckFail r) : Benign r := by
  rcases h with h | h | h | h | h | h | h | h <;> subst h <;> simp [Benign]

theorem step_flight {s : State} {op : Op} {e : StepEnv} (fi : FInv s) (hv : Valid s op) :
    ((s.step op e).2.res = .ok → FInv (s.step op e).1) ∧ Benign (s.step op e).2.res := by
  cases op with
  | send lvl now la size mtu probe frames sframes =>
    simp only [State.step]
    obtain ⟨p1, p2⟩ := @popPacketNumber_flight s lvl e.nts fi
    rcases popPacketNumber_res s lvl e.nts with hp | hp
    · simp only [hp]
      exact sentPacket_flight (p1 hp) hv.1 hv.2
    · cases hr : (s.popPacketNumber lvl e.nts).2.res with
      | ok => simp [hr, Res.isPanic] at hp
      | err c => simp [hr, Res.isPanic] at hp
      | panic c =>
        simp only []
        rw [hr] at p2
        exact ⟨fun h => by rw [hr] at h; simp at h, by rw [hr]; exact p2⟩
  | ack lvl now ranges =>
    simp only [State.step]
    rcases @receivedAck_flight s e.env ranges lvl now fi with h | h
    · exact ⟨fun _ => h.2, by rw [h.1]; exact Benign_ok⟩
    · refine ⟨fun hok => ?_, AckFail_Benign h⟩
      rw [hok] at h; simp [AckFail] at h
  | timeout now => exact onLossDetectionTimeout_flight fi
  | probe lvl => exact queueProbePacket_flight fi
  | drop lvl now => exact dropPackets_flight fi
  | retry => exact resetForRetry_flight fi hv
  | migrate now => exact migratedPath_flight fi
  | rcvBytes n now => exact ⟨fun _ => receivedBytes_flight fi, Benign_ok⟩
  | rcvPacket lvl now => exact ⟨fun _ => receivedPacket_flight fi, Benign_ok⟩


end Uquic.Proofs.Sent
