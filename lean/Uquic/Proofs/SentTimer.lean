/-
Timer lemmas for property C06: whenever ack-eliciting Initial or Handshake data, or (after handshake
confirmation) application data, is outstanding and sending is not amplification-limited, the
loss-detection alarm is set.
-/
import Uquic.Proofs.SentAcked

namespace Uquic.Proofs.Sent
open Uquic.Model.Sent List

/-- the situation in which a loss-detection deadline is required -/
def needsTimer (s : State) : Bool :=
  (s.hasOutstandingCrypto || (s.handshakeConfirmed && s.app.hist.hasOutstandingPackets)) && !s.isAmplificationLimited

/-- "outstanding ⇒ an ack-eliciting packet was sent at a positive time" -/
def AEOKS (sp : Space) : Prop := 0 < sp.hist.numOutstanding → 0 < sp.lastAETime

def AEOKO : Option Space → Prop
  | some sp => AEOKS sp
  | none => True

structure AEInv (s : State) : Prop where
  ini : AEOKO s.initial
  hs : AEOKO s.handshake
  app : AEOKS s.app

/-- the alarm is set whenever it is required -/
def Armed (s : State) : Prop := needsTimer s = true → s.alarm.time ≠ 0

/-- the alarm is what `setLossDetectionTimer(now)` would compute from the rest of the state -/
def Fresh (s : State) (env : Env) (now : Time) : Prop := s.alarm = s.lossDetectionTime env now

theorem maxPTODuration_pos : 0 < maxPTODuration := by decide

theorem scaledPTO_pos (s : State) (env : Env) (b : Bool) : 0 < s.getScaledPTO env b := by
  unfold State.getScaledPTO
  simp only []
  have := maxPTODuration_pos
  split <;> omega

theorem spaceOutstanding_some {o : Option Space} (h : spaceOutstanding o = true) : ∃ sp, o = some sp ∧ 0 < sp.hist.numOutstanding := by
  cases o with
  | none => simp [spaceOutstanding] at h
  | some sp => exact ⟨sp, rfl, by simpa [spaceOutstanding, Hist.hasOutstandingPackets] using h⟩

theorem ptoCandidate_pos {o : Option Space} {pto t : Int} (a : AEOKO o) (hp : 0 < pto) (h : ptoCandidate o pto = some t) : 0 < t := by
  cases o with
  | none => simp [ptoCandidate] at h
  | some sp =>
    simp only [ptoCandidate] at h
    split at h
    · rename_i hc
      have := a (by simpa [Hist.hasOutstandingPackets] using hc.1)
      simp at h; omega
    · simp at h

theorem ptoCandidate_some {o : Option Space} {pto : Int} (a : AEOKO o) (h : spaceOutstanding o = true) :
    ∃ t, ptoCandidate o pto = some t := by
  obtain ⟨sp, e, hn⟩ := spaceOutstanding_some h
  subst e
  have := a hn
  simp only [ptoCandidate]
  rw [if_pos ⟨by simpa [Hist.hasOutstandingPackets] using hn, by omega⟩]
  exact ⟨_, rfl⟩

theorem takeEarlier_pos {r : Time × Level} {t : Time} {l : Level} (hr : 0 ≤ r.1) (ht : 0 < t) : 0 < (takeEarlier r t l).1 := by
  unfold takeEarlier
  split
  · exact ht
  · rename_i hn
    have : r.1 ≠ 0 := fun h0 => hn (Or.inl h0)
    omega

theorem ptoInitial_spec {s : State} (env : Env) (a : AEInv s) :
    0 ≤ (s.ptoInitial env).1 ∧ (spaceOutstanding s.initial = true → 0 < (s.ptoInitial env).1) := by
  have p0 := scaledPTO_pos s env false
  unfold State.ptoInitial
  cases hc : ptoCandidate s.initial (s.getScaledPTO env false) with
  | none =>
    refine ⟨by simp, fun ho => ?_⟩
    obtain ⟨t, ht⟩ := ptoCandidate_some (pto := s.getScaledPTO env false) a.ini ho
    rw [hc] at ht; simp at ht
  | some t =>
    have := ptoCandidate_pos a.ini p0 hc
    exact ⟨by simp only []; omega, fun _ => this⟩

theorem ptoHandshake_spec {s : State} (env : Env) (a : AEInv s) :
    0 ≤ (s.ptoHandshake env).1 ∧
    ((spaceOutstanding s.initial = true ∨ spaceOutstanding s.handshake = true) → 0 < (s.ptoHandshake env).1) := by
  have p0 := scaledPTO_pos s env false
  obtain ⟨a0, b0⟩ := ptoInitial_spec env a
  unfold State.ptoHandshake
  cases hc : ptoCandidate s.handshake (s.getScaledPTO env false) with
  | none =>
    refine ⟨a0, fun ho => ?_⟩
    rcases ho with ho | ho
    · exact b0 ho
    · obtain ⟨t, ht⟩ := ptoCandidate_some (pto := s.getScaledPTO env false) a.hs ho
      rw [hc] at ht; simp at ht
  | some t =>
    have := takeEarlier_pos (l := Level.handshake) a0 (ptoCandidate_pos a.hs p0 hc)
    exact ⟨by simp only []; omega, fun _ => this⟩

/-- `getPTOTimeAndSpace` returns a deadline when a deadline is required -/
theorem ptoTime_ne_zero {s : State} (env : Env) (now : Time) (a : AEInv s)
    (h : (s.hasOutstandingCrypto || (s.handshakeConfirmed && s.app.hist.hasOutstandingPackets)) = true) :
    (s.getPTOTimeAndSpace env now).1 ≠ 0 := by
  have p1 := scaledPTO_pos s env true
  obtain ⟨a1, b1⟩ := ptoHandshake_spec env a
  unfold State.getPTOTimeAndSpace
  have hcond : ¬ ((!s.handshakeConfirmed) = true ∧ (!s.hasOutstandingCrypto) = true) := by
    intro ⟨c1, c2⟩
    simp only [Bool.not_eq_true'] at c1 c2
    simp [c1, c2] at h
  rw [if_neg hcond]
  unfold State.ptoApp
  cases hc : (if s.handshakeConfirmed = true then ptoCandidate (some s.app) (s.getScaledPTO env true) else none) with
  | some t =>
    simp only []
    have ht : 0 < t := by
      split at hc
      · exact ptoCandidate_pos (o := some s.app) a.app p1 hc
      · simp at hc
    have := takeEarlier_pos (l := Level.oneRTT) a1 ht
    omega
  | none =>
    simp only []
    have hcr : spaceOutstanding s.initial = true ∨ spaceOutstanding s.handshake = true := by
      by_cases hoc : s.hasOutstandingCrypto = true
      · simpa [State.hasOutstandingCrypto] using hoc
      · exfalso
        simp only [Bool.not_eq_true] at hoc
        simp only [hoc, Bool.false_or, Bool.and_eq_true] at h
        rw [if_pos h.1] at hc
        obtain ⟨t, ht⟩ := ptoCandidate_some (o := some s.app) (pto := s.getScaledPTO env true) a.app (by simpa [spaceOutstanding] using h.2)
        rw [hc] at ht; simp at ht
    have := b1 hcr
    omega

/-- `lossDetectionTime` sets a deadline when one is required -/
theorem lossDetectionTime_armed {s : State} (env : Env) (now : Time) (a : AEInv s) (h : needsTimer s = true) :
    (s.lossDetectionTime env now).time ≠ 0 := by
  unfold needsTimer at h
  simp only [Bool.and_eq_true, Bool.not_eq_true'] at h
  obtain ⟨h1, h2⟩ := h
  have hp := ptoTime_ne_zero env now a h1
  unfold State.lossDetectionTime
  have hc1 : ¬ (s.peerCompleted = true ∧ (!s.hasOutstandingCrypto) = true ∧ (!s.app.hist.hasOutstandingPackets) = true ∧
      (!s.app.hist.hasOutstandingPathProbes) = true) := by
    intro ⟨_, c2, c3, _⟩
    simp only [Bool.not_eq_true'] at c2 c3
    simp [c2, c3] at h1
  rw [if_neg hc1, if_neg (by simp [h2])]
  split
  · rename_i hc; exact hc.1
  · split
    · rename_i hc; exact hc.1
    · rename_i hn1 hn2
      split
      · rename_i hc; exact hc
      · rename_i hn3
        exfalso
        apply hn2
        exact ⟨hp, Or.inl (by simpa using hn3)⟩

theorem armed_of_fresh {s : State} {env : Env} {now : Time} (a : AEInv s) (f : Fresh s env now) : Armed s := by
  intro h
  rw [f]
  exact lossDetectionTime_armed env now a h

theorem fresh_setTimer (s : State) (env : Env) (now : Time) : Fresh (s.setTimer env now) env now := rfl

theorem outAfter_le (n : Int) (p : Packet) : outAfter n p ≤ n := by unfold outAfter; split <;> omega

theorem declareLost_le {h h' : Hist} {pn : PN} (e : h.declareLost pn = .ok h') : h'.numOutstanding ≤ h.numOutstanding := by
  unfold Hist.declareLost at e
  cases e1 : h.getIndex pn with
  | none => simp [e1] at e; subst e; omega
  | some idx =>
    simp only [e1] at e
    cases e2 : (h.packets[idx]?).join with
    | none => simp [e2] at e
    | some q =>
      simp only [e2] at e
      split at e
      · simp at e
      · simp only [LostRes.ok.injEq] at e
        subst e
        have := outAfter_le h.numOutstanding q
        split <;> simp <;> omega

theorem remove_le {h h' : Hist} {pn : PN} {p : Packet} (e : h.remove pn = .ok h' p) : h'.numOutstanding ≤ h.numOutstanding := by
  obtain ⟨_, _, _, _, _, e4, _⟩ := remove_spec e
  rw [e4]; exact outAfter_le _ _

theorem skippedPacket_eq {h h' : Hist} {pn : PN} (e : h.skippedPacket pn = some h') : h'.numOutstanding = h.numOutstanding :=
  (skippedPacket_spec e).2.2

theorem Space.pop_eq {sp sp' : Space} {nts pn : PN} {sk : List PN} (e : sp.pop nts = some (sp', pn, sk)) :
    sp'.hist.numOutstanding = sp.hist.numOutstanding ∧ sp'.lastAETime = sp.lastAETime := by
  unfold Space.pop at e
  cases hg : sp.gen.pop nts with
  | mk b r =>
    obtain ⟨pn', g⟩ := r
    cases b with
    | true =>
      simp only [hg] at e
      cases hs : sp.hist.skippedPacket (pn' - 1) with
      | none => simp [hs] at e
      | some h =>
        simp only [hs, Option.some.injEq, Prod.mk.injEq] at e
        obtain ⟨e1, _, _⟩ := e
        subst e1
        exact ⟨skippedPacket_eq hs, rfl⟩
    | false =>
      simp only [hg, Option.some.injEq, Prod.mk.injEq] at e
      obtain ⟨e1, _, _⟩ := e
      subst e1
      exact ⟨rfl, rfl⟩

theorem lossStep_le (la lst ld : Int) (pn : PN) (p : Packet) (a : LossAcc) :
    (lossStep la lst ld pn p a).hist.numOutstanding ≤ a.hist.numOutstanding := by
  unfold lossStep
  split
  · cases hd : a.hist.declareLost pn with
    | panic c => simp
    | ok h' =>
      have := declareLost_le hd
      simp only []
      split
      · split <;> simp only [] <;> omega
      · simp only []; omega
  · split <;> simp

theorem lossLoop_le (la lst ld : Int) (n : Nat) : ∀ (pn : PN) (a : LossAcc),
    (lossLoop la lst ld n pn a).hist.numOutstanding ≤ a.hist.numOutstanding := by
  induction n with
  | zero => intro pn a; simp [lossLoop]
  | succ n ih =>
    intro pn a
    unfold lossLoop
    split
    · omega
    · split
      · exact ih _ _
      · split
        · omega
        · exact Int.le_trans (ih _ _) (lossStep_le la lst ld pn _ a)

theorem ackedLoop_le (lvl : Level) (acc : List PN) : ∀ (h : Hist) (stash : List (PN × Packet)) (evs : List Ev) (done : List (PN × Packet)),
    (ackedLoop lvl acc h stash evs done).1.numOutstanding ≤ h.numOutstanding := by
  induction acc with
  | nil => intro h stash evs done; simp [ackedLoop]
  | cons pn rest ih =>
    intro h stash evs done
    simp only [ackedLoop]
    cases hr : h.remove pn with
    | panic c => simp
    | notFound => simp
    | ok h' removed =>
      simp only []
      exact Int.le_trans (ih _ _ _ _) (remove_le hr)

theorem drop0RTTLoop_le (n : Nat) : ∀ (pn : PN) (h : Hist) (bfl : Int) (disc : List Frame),
    (drop0RTTLoop n pn h bfl disc).1.numOutstanding ≤ h.numOutstanding := by
  induction n with
  | zero => intro pn h bfl disc; simp [drop0RTTLoop]
  | succ n ih =>
    intro pn h bfl disc
    unfold drop0RTTLoop
    split
    · exact ih _ _ _ _
    · split
      · simp only []; omega
      · split
        · simp only []; omega
        · split
          · rename_i h' q hr
            exact Int.le_trans (ih _ _ _ _) (remove_le hr)
          · exact ih _ _ _ _
          · simp only []; omega

theorem migrateLoop_le (n : Nat) : ∀ (pn : PN) (h : Hist) (bfl : Int) (evs : List Ev),
    (migrateLoop n pn h bfl evs).1.numOutstanding ≤ h.numOutstanding := by
  induction n with
  | zero => intro pn h bfl evs; simp [migrateLoop]
  | succ n ih =>
    intro pn h bfl evs
    unfold migrateLoop
    split
    · exact ih _ _ _ _
    · split
      · simp only []; omega
      · rename_i h' hd
        have hle := declareLost_le hd
        split
        · split
          · simp only []; omega
          · split
            · exact Int.le_trans (ih _ _ _ _) hle
            · exact Int.le_trans (ih _ _ _ _) hle
        · exact Int.le_trans (ih _ _ _ _) hle


/-- a space after packets were removed from it (nothing sent) -/
def SpaceLe (sp' sp : Space) : Prop := sp'.hist.numOutstanding ≤ sp.hist.numOutstanding ∧ sp'.lastAETime = sp.lastAETime

def OptLe : Option Space → Option Space → Prop
  | none, _ => True
  | some sp', some sp => SpaceLe sp' sp
  | some _, none => False

/-- `s'` results from `s` by removing packets from the histories / dropping spaces -/
structure Shrunk (s' s : State) : Prop where
  ini : OptLe s'.initial s.initial
  hs : OptLe s'.handshake s.handshake
  app : SpaceLe s'.app s.app

theorem SpaceLe.refl (sp : Space) : SpaceLe sp sp := ⟨Int.le_refl _, rfl⟩
theorem SpaceLe.trans {a b c : Space} (h1 : SpaceLe a b) (h2 : SpaceLe b c) : SpaceLe a c :=
  ⟨Int.le_trans h1.1 h2.1, h1.2.trans h2.2⟩
theorem OptLe.refl (o : Option Space) : OptLe o o := by cases o <;> simp [OptLe, SpaceLe.refl]
theorem OptLe.trans {a b c : Option Space} (h1 : OptLe a b) (h2 : OptLe b c) : OptLe a c := by
  cases a <;> cases b <;> cases c <;> simp_all [OptLe]
  exact SpaceLe.trans h1 h2
theorem Shrunk.refl (s : State) : Shrunk s s := ⟨OptLe.refl _, OptLe.refl _, SpaceLe.refl _⟩
theorem Shrunk.trans {a b c : State} (h1 : Shrunk a b) (h2 : Shrunk b c) : Shrunk a c :=
  ⟨OptLe.trans h1.ini h2.ini, OptLe.trans h1.hs h2.hs, SpaceLe.trans h1.app h2.app⟩

theorem Shrunk_eq {s s' : State} (a : s'.initial = s.initial) (b : s'.handshake = s.handshake) (c : s'.app = s.app) : Shrunk s' s := by
  refine ⟨?_, ?_, ?_⟩
  · rw [a]; exact OptLe.refl _
  · rw [b]; exact OptLe.refl _
  · rw [c]; exact SpaceLe.refl _

theorem AEOKS_le {sp' sp : Space} (a : AEOKS sp) (h : SpaceLe sp' sp) : AEOKS sp' := by
  intro hn; rw [h.2]; exact a (by have := h.1; omega)

theorem AEOKO_le {o' o : Option Space} (a : AEOKO o) (h : OptLe o' o) : AEOKO o' := by
  cases o' with
  | none => trivial
  | some sp' =>
    cases o with
    | none => simp [OptLe] at h
    | some sp => exact AEOKS_le a h

theorem AEInv_shrunk {s' s : State} (a : AEInv s) (h : Shrunk s' s) : AEInv s' :=
  ⟨AEOKO_le a.ini h.ini, AEOKO_le a.hs h.hs, AEOKS_le a.app h.app⟩

theorem Shrunk_setSpace {s : State} {lvl : Level} {sp sp' : Space} (hg : s.getSpace lvl = some sp) (h : SpaceLe sp' sp) :
    Shrunk (s.setSpace lvl sp') s := by
  cases lvl with
  | invalid => simp [State.getSpace] at hg
  | initial =>
    simp only [State.getSpace] at hg
    exact ⟨by simp only [State.setSpace, hg]; exact h, OptLe.refl _, SpaceLe.refl _⟩
  | handshake =>
    simp only [State.getSpace] at hg
    exact ⟨OptLe.refl _, by simp only [State.setSpace, hg]; exact h, SpaceLe.refl _⟩
  | zeroRTT =>
    simp only [State.getSpace, Option.some.injEq] at hg; subst hg
    exact ⟨OptLe.refl _, OptLe.refl _, h⟩
  | oneRTT =>
    simp only [State.getSpace, Option.some.injEq] at hg; subst hg
    exact ⟨OptLe.refl _, OptLe.refl _, h⟩

theorem spaceOutstanding_le {o' o : Option Space} (h : OptLe o' o) (ho : spaceOutstanding o' = true) : spaceOutstanding o = true := by
  cases o' with
  | none => simp [spaceOutstanding] at ho
  | some sp' =>
    cases o with
    | none => simp [OptLe] at h
    | some sp =>
      simp only [spaceOutstanding, Hist.hasOutstandingPackets, decide_eq_true_eq] at ho ⊢
      have := h.1; omega

/-- removing packets cannot create the need for a timer -/
theorem needsTimer_shrunk {s' s : State} (h : Shrunk s' s) (hc : s'.handshakeConfirmed = s.handshakeConfirmed)
    (ha : s.isAmplificationLimited = true → s'.isAmplificationLimited = true) (hn : needsTimer s' = true) : needsTimer s = true := by
  unfold needsTimer at hn ⊢
  simp only [Bool.and_eq_true, Bool.or_eq_true, Bool.not_eq_true', State.hasOutstandingCrypto] at hn ⊢
  obtain ⟨h1, h2⟩ := hn
  refine ⟨?_, ?_⟩
  · rcases h1 with (h1 | h1) | h1
    · exact Or.inl (Or.inl (spaceOutstanding_le h.ini h1))
    · exact Or.inl (Or.inr (spaceOutstanding_le h.hs h1))
    · right
      rw [← hc]
      refine ⟨h1.1, ?_⟩
      have := h.app.1
      simp only [Hist.hasOutstandingPackets, decide_eq_true_eq] at h1 ⊢
      omega
  · cases hl : s.isAmplificationLimited with
    | false => rfl
    | true => rw [ha hl] at h2; simp at h2

theorem Armed_of_shrunk {s' s : State} (ar : Armed s) (h : Shrunk s' s) (hc : s'.handshakeConfirmed = s.handshakeConfirmed)
    (ha : s.isAmplificationLimited = true → s'.isAmplificationLimited = true) (hal : s'.alarm = s.alarm) : Armed s' := by
  intro hn
  rw [hal]
  exact ar (needsTimer_shrunk h hc ha hn)


theorem detectLostPackets_shrunk (s : State) (env : Env) (now : Time) (lvl : Level) :
    Shrunk (s.detectLostPackets env now lvl).1 s := by
  unfold State.detectLostPackets
  cases hg : s.getSpace lvl with
  | none => exact Shrunk.refl s
  | some sp =>
    simp only []
    refine Shrunk.trans (Shrunk_eq (s := s.setSpace lvl _) rfl rfl rfl) (Shrunk_setSpace hg ⟨?_, rfl⟩)
    exact lossLoop_le _ _ _ _ _ _

theorem detectLostPackets_flags (s : State) (env : Env) (now : Time) (lvl : Level) :
    (s.detectLostPackets env now lvl).1.handshakeConfirmed = s.handshakeConfirmed ∧
    (s.detectLostPackets env now lvl).1.isAmplificationLimited = s.isAmplificationLimited ∧
    (s.detectLostPackets env now lvl).1.alarm = s.alarm := by
  unfold State.detectLostPackets
  cases hg : s.getSpace lvl with
  | none => exact ⟨rfl, rfl, rfl⟩
  | some sp => cases lvl <;> exact ⟨rfl, rfl, rfl⟩

theorem detectLostPathProbes_le (sp : Space) (now : Time) : SpaceLe (detectLostPathProbes sp now).1 sp := by
  unfold detectLostPathProbes
  split
  · exact SpaceLe.refl _
  · exact ⟨Int.le_refl _, rfl⟩

/-- the final state of a completed `ackTail` is fresh and shrunk -/
theorem ackTail_timer {s : State} {env : Env} {lvl : Level} {now : Time} {largest : PN} {sp : Space} {h2 : Hist}
    {evs : List Ev} {removed : List (PN × Packet)} {sdisc : List Frame} {n : Nat}
    (hg : s.getSpace lvl = some sp) (hle : h2.numOutstanding ≤ sp.hist.numOutstanding)
    (hok : (s.ackTail env lvl now largest sp h2 evs removed sdisc n).2.res = .ok) :
    Shrunk (s.ackTail env lvl now largest sp h2 evs removed sdisc n).1 s ∧
    Fresh (s.ackTail env lvl now largest sp h2 evs removed sdisc n).1 env now := by
  unfold State.ackTail at hok ⊢
  simp only [] at hok ⊢
  have sh2 : Shrunk (s.setSpace lvl { sp with hist := h2, largestAcked := max sp.largestAcked largest }) s :=
    Shrunk_setSpace hg ⟨hle, rfl⟩
  generalize s.setSpace lvl { sp with hist := h2, largestAcked := max sp.largestAcked largest } = s2 at hok sh2 ⊢
  have sh3 := detectLostPackets_shrunk s2 env now lvl
  cases hd : s2.detectLostPackets env now lvl with
  | mk s3 r =>
    obtain ⟨evsL, pl⟩ := r
    rw [hd] at sh3
    cases pl with
    | some c => simp [hd] at hok
    | none =>
      simp only [hd] at hok ⊢
      have hpp : SpaceLe (if lvl = Level.oneRTT then detectLostPathProbes s3.app now else (s3.app, [], [])).1 s3.app := by
        split
        · exact detectLostPathProbes_le _ _
        · exact SpaceLe.refl _
      generalize (if lvl = Level.oneRTT then detectLostPathProbes s3.app now else (s3.app, [], [])) = rr at hok hpp ⊢
      split at hok
      · simp at hok
      · refine ⟨?_, rfl⟩
        refine Shrunk.trans ?_ (Shrunk.trans sh3 sh2)
        exact ⟨OptLe.refl _, OptLe.refl _, hpp⟩

theorem completeValidation_timer (s : State) (env : Env) (lvl : Level) (now : Time) :
    (s.completeValidation env lvl now = s) ∨ Fresh (s.completeValidation env lvl now) env now := by
  unfold State.completeValidation
  split
  · right; rfl
  · left; rfl

theorem ackCore_timer {s1 : State} {env : Env} {ranges : List Range} {lvl : Level} {now : Time} {sp : Space} {lowest largest : PN}
    (hg : s1.getSpace lvl = some sp) (hok : (s1.ackCore env ranges lvl now sp lowest largest).2.res = .ok) :
    Shrunk (s1.ackCore env ranges lvl now sp lowest largest).1 s1 ∧
    ((s1.ackCore env ranges lvl now sp lowest largest).1 = s1 ∨ Fresh (s1.ackCore env ranges lvl now sp lowest largest).1 env now) := by
  unfold State.ackCore at hok ⊢
  by_cases h1 : s1.ackedBuf > 0
  · simp [h1] at hok
  · by_cases h2' : lvl = .oneRTT ∧ sp.hist.skipped.any (acksPacketBin ranges lowest largest)
    · simp [h1, h2'] at hok
    · simp only [h1, h2', if_false] at hok ⊢
      cases hc : collect (decide (ranges.length > 1)) lowest largest sp.hist.first sp.hist.packets ranges.reverse sp.hist.probes [] [] with
      | bug probes stash acc => simp [hc] at hok
      | done pr st acc =>
        simp only [hc] at hok ⊢
        have hle := ackedLoop_le lvl acc { sp.hist with probes := pr } st [] []
        cases ha : ackedLoop lvl acc { sp.hist with probes := pr } st [] [] with
        | mk h2 r =>
          obtain ⟨stash', evs, removed, res⟩ := r
          rw [ha] at hle
          cases res with
          | panic c => simp [ha] at hok
          | err e => simp [ha] at hok
          | ok =>
            simp only [ha] at hok ⊢
            by_cases hre : removed.isEmpty = true
            · simp only [hre, if_true]
              exact ⟨Shrunk.refl _, Or.inl trivial⟩
            · simp only [hre] at hok ⊢
              obtain ⟨t1, t2⟩ := ackTail_timer hg hle hok
              exact ⟨t1, Or.inr t2⟩

theorem receivedAck_timer {s : State} {env : Env} {ranges : List Range} {lvl : Level} {now : Time}
    (hok : (s.receivedAck env ranges lvl now).2.res = .ok) :
    Shrunk (s.receivedAck env ranges lvl now).1 s ∧
    ((s.receivedAck env ranges lvl now).1 = s ∨ Fresh (s.receivedAck env ranges lvl now).1 env now) := by
  unfold State.receivedAck at hok ⊢
  cases hg : s.getSpace lvl with
  | none => simp [hg] at hok
  | some sp =>
    cases hh : ranges.head? with
    | none => simp [hg, hh] at hok
    | some top =>
      cases hl : ranges.getLast? with
      | none => simp [hg, hh, hl] at hok
      | some bot =>
        simp only [hg, hh, hl] at hok ⊢
        by_cases hle : top.2 > sp.largestSent
        · simp [hle] at hok
        · simp only [hle, if_false] at hok ⊢
          obtain ⟨e1, e2, e3, _, _⟩ := completeValidation_spec s env lvl now
          have hcv := completeValidation_timer s env lvl now
          have hg' : (s.completeValidation env lvl now).getSpace lvl = some sp := by rw [getSpace_congr e1 e2 e3]; exact hg
          have sh1 : Shrunk (s.completeValidation env lvl now) s := Shrunk_eq e1 e2 e3
          obtain ⟨c1, c2⟩ := ackCore_timer hg' hok
          refine ⟨Shrunk.trans c1 sh1, ?_⟩
          rcases c2 with c2 | c2
          · rw [c2]; exact hcv
          · exact Or.inr c2


structure TInv (s : State) : Prop where
  ae : AEInv s
  armed : Armed s

theorem AEInv_setSpace {s s' : State} {lvl : Level} {sp' : Space} (a : AEInv s) (e1 : s'.initial = s.initial)
    (e2 : s'.handshake = s.handshake) (e3 : s'.app = s.app) (h : AEOKS sp') : AEInv (s'.setSpace lvl sp') := by
  obtain ⟨x, y, z⟩ := a
  cases lvl <;> simp only [State.setSpace] <;> constructor <;> simp only [e1, e2, e3, AEOKO] <;> assumption

theorem TInv_fresh {s : State} {env : Env} {now : Time} (a : AEInv s) (f : Fresh s env now) : TInv s := ⟨a, armed_of_fresh a f⟩

theorem AEInv_eq {s s' : State} (a : AEInv s) (e1 : s'.initial = s.initial) (e2 : s'.handshake = s.handshake) (e3 : s'.app = s.app) :
    AEInv s' := AEInv_shrunk a (Shrunk_eq e1 e2 e3)

theorem AEOKS_getSpace {s : State} {lvl : Level} {sp : Space} (a : AEInv s) (hg : s.getSpace lvl = some sp) : AEOKS sp := by
  obtain ⟨x, y, z⟩ := a
  cases lvl <;> simp only [State.getSpace] at hg
  · simp at hg
  · rw [hg] at x; exact x
  · rw [hg] at y; exact y
  · simp at hg; subst hg; exact z
  · simp at hg; subst hg; exact z

theorem popPacketNumber_timer {s : State} {lvl : Level} {nts : PN} (t : TInv s) : TInv (s.popPacketNumber lvl nts).1 := by
  unfold State.popPacketNumber
  cases hg : s.getSpace lvl with
  | none => exact t
  | some sp =>
    simp only []
    cases hp : sp.pop nts with
    | none => exact t
    | some r =>
      obtain ⟨sp', pn, sk⟩ := r
      simp only []
      obtain ⟨p1, p2⟩ := Space.pop_eq hp
      have sh : Shrunk (s.setSpace lvl sp') s := Shrunk_setSpace hg ⟨by omega, p2⟩
      refine ⟨AEInv_shrunk t.ae sh, Armed_of_shrunk t.armed sh ?_ ?_ ?_⟩ <;> cases lvl <;> first | rfl | exact fun h => h

theorem notAE_notOutstanding {p : Packet} (h : p.ackEliciting = false) : p.outstanding = false := by
  simp [Packet.outstanding, h]

theorem sentPacket_timer {s : State} {env : Env} {t : Time} {pn la : PN} {sframes frames : List Frame} {lvl : Level}
    {size : Int} {mtu probe : Bool} (ti : TInv s) (ht : 0 < t) (hs : 0 ≤ size)
    (hok : (s.sentPacket env t pn la sframes frames lvl size mtu probe).2 = .ok) :
    TInv (s.sentPacket env t pn la sframes frames lvl size mtu probe).1 := by
  unfold State.sentPacket at hok ⊢
  simp only [] at hok ⊢
  have hgc : ({ s with bytesSent := s.bytesSent + size } : State).getSpace lvl = s.getSpace lvl := getSpace_congr rfl rfl rfl lvl
  rw [hgc] at hok ⊢
  cases hg : s.getSpace lvl with
  | none => simp [hg] at hok
  | some sp =>
    simp only [hg] at hok ⊢
    have asp := AEOKS_getSpace ti.ae hg
    cases probe with
    | true =>
      simp only [if_true] at hok ⊢
      cases hsp : sp.hist.sentPathProbePacket pn { sendTime := t, level := lvl, length := size, frames := frames, sframes := sframes, largestAcked := la, mtuProbe := mtu, pathProbe := true } with
      | none => simp [hsp] at hok
      | some h =>
        simp only []
        obtain ⟨_, _, c, _⟩ := sentPathProbePacket_spec hsp
        refine TInv_fresh (AEInv_eq (s := State.setSpace _ lvl _) ?_ rfl rfl rfl) (fresh_setTimer _ _ _)
        refine AEInv_setSpace (s := s) ti.ae rfl rfl rfl ?_
        intro hn; exact asp (by simp only [] at hn; rw [c] at hn; exact hn)
    | false =>
      simp only [Bool.false_eq_true, if_false] at hok ⊢
      by_cases hae : ({ sendTime := t, level := lvl, length := size, frames := frames, sframes := sframes, largestAcked := la, mtuProbe := mtu, pathProbe := false } : Packet).ackEliciting = true
      · simp only [hae, if_true] at hok ⊢
        cases hsp : sp.hist.sentPacket pn { sendTime := t, level := lvl, length := size, frames := frames, sframes := sframes, largestAcked := la, mtuProbe := mtu, pathProbe := false, inFlight := true } with
        | none => simp [hsp] at hok
        | some h =>
          simp only []
          refine TInv_fresh (AEInv_eq (s := State.setSpace _ lvl _) ?_ rfl rfl rfl) (fresh_setTimer _ _ _)
          refine AEInv_setSpace (s := s) ti.ae rfl rfl rfl ?_
          intro _; exact ht
      · rw [if_neg hae] at hok ⊢
        cases hsp : sp.hist.sentPacket pn { sendTime := t, level := lvl, length := size, frames := frames, sframes := sframes, largestAcked := la, mtuProbe := mtu, pathProbe := false } with
        | none => simp [hsp] at hok
        | some h =>
          simp only []
          obtain ⟨_, _, c, _⟩ := sentPacket_spec hsp
          have hno : h.numOutstanding = sp.hist.numOutstanding := by
            rw [c, notAE_notOutstanding (by simpa using hae)]; simp
          have ae' : AEInv (({ s with bytesSent := s.bytesSent + size } : State).setSpace lvl { sp with largestSent := pn, hist := h }) := by
            refine AEInv_setSpace (s := s) ti.ae rfl rfl rfl ?_
            intro hn; exact asp (by simp only [] at hn; rw [hno] at hn; exact hn)
          split
          · exact TInv_fresh (AEInv_eq (s := State.setSpace _ lvl _) ae' rfl rfl rfl) (fresh_setTimer _ _ _)
          · refine ⟨ae', ?_⟩
            have sh : Shrunk (({ s with bytesSent := s.bytesSent + size } : State).setSpace lvl { sp with largestSent := pn, hist := h }) s := by
              have hg2 : ({ s with bytesSent := s.bytesSent + size } : State).getSpace lvl = some sp := by rw [hgc]; exact hg
              exact Shrunk.trans (Shrunk_setSpace hg2 ⟨by simp only []; omega, rfl⟩) (Shrunk_eq rfl rfl rfl)
            refine Armed_of_shrunk ti.armed sh ?_ ?_ ?_
            · cases lvl <;> rfl
            · intro hl
              have : (({ s with bytesSent := s.bytesSent + size } : State).setSpace lvl { sp with largestSent := pn, hist := h }).isAmplificationLimited =
                  ({ s with bytesSent := s.bytesSent + size } : State).isAmplificationLimited := by cases lvl <;> rfl
              rw [this]
              unfold State.isAmplificationLimited at hl ⊢
              simp only [] at hl ⊢
              split
              · rename_i hv; simp [hv] at hl
              · rename_i hv; simp only [hv] at hl; simp at hl ⊢; omega
            · cases lvl <;> rfl


theorem ptoSwitch_shrunk (s : State) (lvl : Level) (nts : PN) (evs0 : List Ev) (disc0 : List Frame) :
    Shrunk (s.ptoSwitch lvl nts evs0 disc0).1 s := by
  unfold State.ptoSwitch
  cases lvl with
  | invalid => exact Shrunk_eq rfl rfl rfl
  | initial => exact Shrunk_eq rfl rfl rfl
  | handshake => exact Shrunk_eq rfl rfl rfl
  | zeroRTT => exact Shrunk_eq rfl rfl rfl
  | oneRTT =>
    simp only []
    cases hp : s.app.pop nts with
    | none => exact Shrunk_eq rfl rfl rfl
    | some r =>
      obtain ⟨sp, pn, sk⟩ := r
      simp only []
      obtain ⟨p1, p2⟩ := Space.pop_eq hp
      cases hs : sp.hist.skippedPacket pn with
      | none => exact ⟨OptLe.refl _, OptLe.refl _, ⟨by simp only []; omega, p2⟩⟩
      | some h =>
        have := skippedPacket_eq hs
        exact ⟨OptLe.refl _, OptLe.refl _, ⟨by simp only []; omega, p2⟩⟩

theorem timeoutMain_shrunk (s : State) (env : Env) (now : Time) (nts : PN) (evs0 : List Ev) (disc0 : List Frame) :
    Shrunk (s.timeoutMain env now nts evs0 disc0).1 s := by
  unfold State.timeoutMain State.timeoutMainG
  split
  · exact detectLostPackets_shrunk _ _ _ _
  · split
    · unfold State.antiDeadlockProbe
      simp only []
      split
      · exact Shrunk_eq rfl rfl rfl
      · split <;> exact Shrunk_eq rfl rfl rfl
    · unfold State.ptoFire
      split
      · exact Shrunk.refl _
      · split
        · exact Shrunk.refl _
        · split
          · exact Shrunk.refl _
          · exact ptoSwitch_shrunk _ _ _ _ _

theorem onLossDetectionTimeout_timer {s : State} {env : Env} {now : Time} {nts : PN} (t : TInv s) :
    TInv (s.onLossDetectionTimeout env now nts).1 := by
  unfold State.onLossDetectionTimeout State.timeoutBody
  simp only []
  refine TInv_fresh ?_ (fresh_setTimer _ _ _)
  refine AEInv_eq (s := State.timeoutMain _ env now nts _ _ |>.1) ?_ rfl rfl rfl
  refine AEInv_shrunk t.ae (Shrunk.trans (timeoutMain_shrunk _ _ _ _ _ _) ?_)
  refine ⟨OptLe.refl _, OptLe.refl _, ?_⟩
  simp only []
  split
  · exact detectLostPathProbes_le _ _
  · exact SpaceLe.refl _

theorem queueProbePacket_timer {s : State} {lvl : Level} (t : TInv s) : TInv (s.queueProbePacket lvl).1 := by
  unfold State.queueProbePacket
  cases hg : s.getSpace lvl with
  | none => exact t
  | some sp =>
    simp only []
    cases hf : sp.hist.firstOutstanding with
    | none => exact t
    | some r =>
      obtain ⟨pn, p⟩ := r
      simp only []
      cases hd : sp.hist.declareLost pn with
      | panic c => exact t
      | ok h =>
        simp only []
        have sh : Shrunk (s.setSpace lvl { sp with hist := h }) s := Shrunk_setSpace hg ⟨declareLost_le hd, rfl⟩
        have key : TInv (s.setSpace lvl { sp with hist := h }) := by
          refine ⟨AEInv_shrunk t.ae sh, Armed_of_shrunk t.armed sh ?_ ?_ ?_⟩ <;> cases lvl <;> first | rfl | exact fun h => h
        split
        · exact key
        · exact ⟨AEInv_eq key.ae rfl rfl rfl, fun hn => key.armed hn⟩

theorem FreshT_afterDrop {s : State} (env : Env) (now : Time) (a : AEInv s) : TInv (s.afterDrop env now) :=
  TInv_fresh (AEInv_eq (s := s) a rfl rfl rfl) rfl

theorem dropPackets_timer {s : State} {env : Env} {lvl : Level} {now : Time} (t : TInv s)
    (hok : (s.dropPackets env lvl now).2.res = .ok) : TInv (s.dropPackets env lvl now).1 := by
  unfold State.dropPackets at hok ⊢
  simp only [] at hok ⊢
  have t1 : TInv (if s.isClient ∧ lvl = .handshake then ({ s with peerCompleted := true } : State) else s) := by
    split
    · exact ⟨AEInv_eq t.ae rfl rfl rfl, fun hn => t.armed hn⟩
    · exact t
  generalize (if s.isClient ∧ lvl = .handshake then ({ s with peerCompleted := true } : State) else s) = s1 at hok t1 ⊢
  cases lvl with
  | invalid => simp at hok
  | oneRTT => simp at hok
  | initial =>
    simp only [] at hok ⊢
    cases hi : s1.initial with
    | none => exact t1
    | some sp =>
      simp only [hi] at hok ⊢
      cases hb : removeBifPackets s1.bytesInFlight sp.hist.packets with
      | none => simp [hb] at hok
      | some b =>
        simp only []
        exact FreshT_afterDrop _ _ ⟨trivial, t1.ae.hs, t1.ae.app⟩
  | handshake =>
    simp only [] at hok ⊢
    cases hi : s1.handshake with
    | none => exact t1
    | some sp =>
      simp only [hi] at hok ⊢
      cases hb : removeBifPackets s1.bytesInFlight sp.hist.packets with
      | none => simp [hb] at hok
      | some b =>
        simp only []
        exact FreshT_afterDrop _ _ ⟨t1.ae.ini, trivial, t1.ae.app⟩
  | zeroRTT =>
    simp only [] at hok ⊢
    have hle := drop0RTTLoop_le s1.app.hist.packets.length s1.app.hist.first s1.app.hist s1.bytesInFlight []
    cases hp : (drop0RTTLoop s1.app.hist.packets.length s1.app.hist.first s1.app.hist s1.bytesInFlight []).2.2.2 with
    | some c => simp [hp] at hok
    | none =>
      simp only []
      exact FreshT_afterDrop _ _ ⟨t1.ae.ini, t1.ae.hs, AEOKS_le t1.ae.app ⟨hle, rfl⟩⟩


theorem AEOKS_new (pn : PN) (app : Bool) (nts : PN) : AEOKS (Space.new pn app nts) := by
  intro h; simp [Space.new] at h

theorem resetForRetry_timer {s : State} {nts : PN} (t : TInv s) (hv : spaceOutstanding s.handshake = false)
    (hok : (s.resetForRetry nts).2.res = .ok) : TInv (s.resetForRetry nts).1 := by
  unfold State.resetForRetry at hok ⊢
  simp only [] at hok ⊢
  cases hi : s.initial with
  | none => simp [hi] at hok
  | some ini =>
    simp only []
    refine ⟨⟨AEOKS_new _ _ _, t.ae.hs, AEOKS_new _ _ _⟩, ?_⟩
    intro hn
    exfalso
    unfold needsTimer at hn
    simp only [State.hasOutstandingCrypto, hv, Bool.and_eq_true, Bool.or_eq_true] at hn
    simp [spaceOutstanding, Space.new, Hist.hasOutstandingPackets] at hn

theorem migratedPath_timer {s : State} {env : Env} {now : Time} (t : TInv s)
    (hok : (s.migratedPath env now).2.res = .ok) : TInv (s.migratedPath env now).1 := by
  unfold State.migratedPath at hok ⊢
  simp only [] at hok ⊢
  have hle := migrateLoop_le s.app.hist.packets.length s.app.hist.first s.app.hist s.bytesInFlight []
  cases hp : (migrateLoop s.app.hist.packets.length s.app.hist.first s.app.hist s.bytesInFlight []).2.2.2 with
  | some c => simp [hp] at hok
  | none =>
    simp only []
    refine TInv_fresh ?_ (fresh_setTimer _ _ _)
    exact ⟨t.ae.ini, t.ae.hs, AEOKS_le t.ae.app ⟨hle, rfl⟩⟩

theorem receivedBytes_timer {s : State} {env : Env} {n : Int} {now : Time} (t : TInv s) : TInv (s.receivedBytes env n now) := by
  unfold State.receivedBytes
  simp only []
  split
  · exact TInv_fresh (AEInv_eq t.ae rfl rfl rfl) (fresh_setTimer _ _ _)
  · rename_i hc
    refine ⟨AEInv_eq t.ae rfl rfl rfl, ?_⟩
    intro hn
    -- either still limited (then no timer is needed) or it was not limited before (then nothing changed)
    have hn' := hn
    unfold needsTimer at hn
    simp only [Bool.and_eq_true, Bool.not_eq_true'] at hn
    have hwas : s.isAmplificationLimited = false := by
      cases hw : s.isAmplificationLimited with
      | false => rfl
      | true => exfalso; apply hc; exact ⟨hw, by simp [hn.2]⟩
    exact t.armed (by
      unfold needsTimer
      simp only [Bool.and_eq_true, Bool.not_eq_true']
      exact ⟨hn.1, hwas⟩)

theorem receivedPacket_timer {s : State} {env : Env} {l : Level} {now : Time} (t : TInv s) : TInv (s.receivedPacket env l now) := by
  unfold State.receivedPacket
  split
  · exact TInv_fresh (AEInv_eq t.ae rfl rfl rfl) (fresh_setTimer _ _ _)
  · exact t

/-- caller contract for the timer theorem: packets are sent at positive clock readings with non-negative
    sizes, and a Retry arrives only while no Handshake packet is outstanding -/
def ValidT (s : State) : Op → Prop
  | .send _ now _ size _ _ _ _ => 0 < now ∧ 0 ≤ size
  | .retry => spaceOutstanding s.handshake = false
  | _ => True

theorem step_timer {s : State} {op : Op} {e : StepEnv} (t : TInv s) (hv : ValidT s op) (hok : (s.step op e).2.res = .ok) :
    TInv (s.step op e).1 := by
  cases op with
  | send lvl now la size mtu probe frames sframes =>
    simp only [State.step] at hok ⊢
    have t1 := @popPacketNumber_timer s lvl e.nts t
    split at hok
    · exact sentPacket_timer t1 hv.1 hv.2 hok
    · rename_i hne; exact absurd hok (by simpa using hne)
  | ack lvl now ranges =>
    simp only [State.step] at hok ⊢
    obtain ⟨r1, r2⟩ := @receivedAck_timer s e.env ranges lvl now hok
    rcases r2 with r2 | r2
    · rw [r2]; exact t
    · exact TInv_fresh (AEInv_shrunk t.ae r1) r2
  | timeout now => exact onLossDetectionTimeout_timer t
  | probe lvl => exact queueProbePacket_timer t
  | drop lvl now => exact dropPackets_timer t hok
  | retry => exact resetForRetry_timer t hv hok
  | migrate now => exact migratedPath_timer t hok
  | rcvBytes n now => exact receivedBytes_timer t
  | rcvPacket lvl now => exact receivedPacket_timer t

theorem TInv_new (pn : PN) (val client : Bool) (nts : PN) : TInv (State.new pn val client nts) := by
  refine ⟨⟨AEOKS_new _ _ _, AEOKS_new _ _ _, AEOKS_new _ _ _⟩, ?_⟩
  intro hn
  exfalso
  unfold needsTimer at hn
  simp [State.new, State.hasOutstandingCrypto, spaceOutstanding, Space.new, Hist.hasOutstandingPackets] at hn


end Uquic.Proofs.Sent
