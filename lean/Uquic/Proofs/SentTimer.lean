/-
Timer lemmas for property C06: whenever ack-eliciting Initial or Handshake data, or (after handshake
confirmation) application data, is outstanding and sending is not amplification-limited, the
loss-detection alarm is set.
-/
import Uquic.Proofs.SentAcked

namespace Uquic.Proofs.Sent
open Uquic.Model.Sent List

/-- the situation in which a loss-detection deadline is required -/
def needsTimer (s : State) : Bool :=
  (s.hasOutstandingCrypto || (s.handshakeConfirmed && s.app.hist.hasOutstandingPackets)) && !s.isAmplificationLimited

/-- "outstanding ⇒ an ack-eliciting packet was sent at a positive time" -/
def AEOKS (sp : Space) : Prop := 0 < sp.hist.numOutstanding → 0 < sp.lastAETime

def AEOKO : Option Space → Prop
  | some sp => AEOKS sp
  | none => True

structure AEInv (s : State) : Prop where
  ini : AEOKO s.initial
  hs : AEOKO s.handshake
  app : AEOKS s.app

/-- the alarm is set whenever it is required -/
def Armed (s : State) : Prop := needsTimer s = true → s.alarm.time ≠ 0

/-- the alarm is what `setLossDetectionTimer(now)` would compute from the rest of the state -/
def Fresh (s : State) (env : Env) (now : Time) : Prop := s.alarm = s.lossDetectionTime env now

theorem maxPTODuration_pos : 0 < maxPTODuration := by decide

theorem scaledPTO_pos (s : State) (env : Env) (b : Bool) : 0 < s.getScaledPTO env b := by
  unfold State.getScaledPTO
  simp only []
  have := maxPTODuration_pos
  split <;> omega

theorem spaceOutstanding_some {o : Option Space} (h : spaceOutstanding o = true) : ∃ sp, o = some sp ∧ 0 < sp.hist.numOutstanding := by
  cases o with
  | none => simp [spaceOutstanding] at h
  | some sp => exact ⟨sp, rfl, by simpa [spaceOutstanding, Hist.hasOutstandingPackets] using h⟩

theorem ptoCandidate_pos {o : Option Space} {pto t : Int} (a : AEOKO o) (hp : 0 < pto) (h : ptoCandidate o pto = some t) : 0 < t := by
  cases o with
  | none => simp [ptoCandidate] at h
  | some sp =>
    simp only [ptoCandidate] at h
    split at h
    · rename_i hc
      have := a (by simpa [Hist.hasOutstandingPackets] using hc.1)
      simp at h; omega
    · simp at h

theorem ptoCandidate_some {o : Option Space} {pto : Int} (a : AEOKO o) (h : spaceOutstanding o = true) :
    ∃ t, ptoCandidate o pto = some t := by
  obtain ⟨sp, e, hn⟩ := spaceOutstanding_some h
  subst e
  have := a hn
  simp only [ptoCandidate]
  rw [if_pos ⟨by simpa [Hist.hasOutstandingPackets] using hn, by omega⟩]
  exact ⟨_, rfl⟩

theorem takeEarlier_pos {r : Time × Level} {t : Time} {l : Level} (hr : 0 ≤ r.1) (ht : 0 < t) : 0 < (takeEarlier r t l).1 := by
  unfold takeEarlier
  split
  · exact ht
  · rename_i hn
    have : r.1 ≠ 0 := fun h0 => hn (Or.inl h0)
    omega

theorem ptoInitial_spec {s : State} (env : Env) (a : AEInv s) :
    0 ≤ (s.ptoInitial env).1 ∧ (spaceOutstanding s.initial = true → 0 < (s.ptoInitial env).1) := by
  have p0 := scaledPTO_pos s env false
  unfold State.ptoInitial
  cases hc : ptoCandidate s.initial (s.getScaledPTO env false) with
  | none =>
    refine ⟨by simp, fun ho => ?_⟩
    obtain ⟨t, ht⟩ := ptoCandidate_some (pto := s.getScaledPTO env false) a.ini ho
    rw [hc] at ht; simp at ht
  | some t =>
    have := ptoCandidate_pos a.ini p0 hc
    exact ⟨by simp only []; omega, fun _ => this⟩

theorem ptoHandshake_spec {s : State} (env : Env) (a : AEInv s) :
    0 ≤ (s.ptoHandshake env).1 ∧
    ((spaceOutstanding s.initial = true ∨ spaceOutstanding s.handshake = true) → 0 < (s.ptoHandshake env).1) := by
  have p0 := scaledPTO_pos s env false
  obtain ⟨a0, b0⟩ := ptoInitial_spec env a
  unfold State.ptoHandshake
  cases hc : ptoCandidate s.handshake (s.getScaledPTO env false) with
  | none =>
    refine ⟨a0, fun ho => ?_⟩
    rcases ho with ho | ho
    · exact b0 ho
    · obtain ⟨t, ht⟩ := ptoCandidate_some (pto := s.getScaledPTO env false) a.hs ho
      rw [hc] at ht; simp at ht
  | some t =>
    have := takeEarlier_pos (l := Level.handshake) a0 (ptoCandidate_pos a.hs p0 hc)
    exact ⟨by simp only []; omega, fun _ => this⟩

/-- `getPTOTimeAndSpace` returns a deadline when a deadline is required -/
theorem ptoTime_ne_zero {s : State} (env : Env) (now : Time) (a : AEInv s)
    (h : (s.hasOutstandingCrypto || (s.handshakeConfirmed && s.app.hist.hasOutstandingPackets)) = true) :
    (s.getPTOTimeAndSpace env now).1 ≠ 0 := by
  have p1 := scaledPTO_pos s env true
  obtain ⟨a1, b1⟩ := ptoHandshake_spec env a
  unfold State.getPTOTimeAndSpace
  have hcond : ¬ ((!s.handshakeConfirmed) = true ∧ (!s.hasOutstandingCrypto) = true) := by
    intro ⟨c1, c2⟩
    simp only [Bool.not_eq_true'] at c1 c2
    simp [c1, c2] at h
  rw [if_neg hcond]
  unfold State.ptoApp
  cases hc : (if s.handshakeConfirmed = true then ptoCandidate (some s.app) (s.getScaledPTO env true) else none) with
  | some t =>
    simp only []
    have ht : 0 < t := by
      split at hc
      · exact ptoCandidate_pos (o := some s.app) a.app p1 hc
      · simp at hc
    have := takeEarlier_pos (l := Level.oneRTT) a1 ht
    omega
  | none =>
    simp only []
    have hcr : spaceOutstanding s.initial = true ∨ spaceOutstanding s.handshake = true := by
      by_cases hoc : s.hasOutstandingCrypto = true
      · simpa [State.hasOutstandingCrypto] using hoc
      · exfalso
        simp only [Bool.not_eq_true] at hoc
        simp only [hoc, Bool.false_or, Bool.and_eq_true] at h
        rw [if_pos h.1] at hc
        obtain ⟨t, ht⟩ := ptoCandidate_some (o := some s.app) (pto := s.getScaledPTO env true) a.app (by simpa [spaceOutstanding] using h.2)
        rw [hc] at ht; simp at ht
    have := b1 hcr
    omega

/-- `lossDetectionTime` sets a deadline when one is required -/
theorem lossDetectionTime_armed {s : State} (env : Env) (now : Time) (a : AEInv s) (h : needsTimer s = true) :
    (s.lossDetectionTime env now).time ≠ 0 := by
  unfold needsTimer at h
  simp only [Bool.and_eq_true, Bool.not_eq_true'] at h
  obtain ⟨h1, h2⟩ := h
  have hp := ptoTime_ne_zero env now a h1
  unfold State.lossDetectionTime
  have hc1 : ¬ (s.peerCompleted = true ∧ (!s.hasOutstandingCrypto) = true ∧ (!s.app.hist.hasOutstandingPackets) = true ∧
      (!s.app.hist.hasOutstandingPathProbes) = true) := by
    intro ⟨_, c2, c3, _⟩
    simp only [Bool.not_eq_true'] at c2 c3
    simp [c2, c3] at h1
  rw [if_neg hc1, if_neg (by simp [h2])]
  split
  · rename_i hc; exact hc.1
  · split
    · rename_i hc; exact hc.1
    · rename_i hn1 hn2
      split
      · rename_i hc; exact hc
      · rename_i hn3
        exfalso
        apply hn2
        exact ⟨hp, Or.inl (by simpa using hn3)⟩

theorem armed_of_fresh {s : State} {env : Env} {now : Time} (a : AEInv s) (f : Fresh s env now) : Armed s := by
  intro h
  rw [f]
  exact lossDetectionTime_armed env now a h

theorem fresh_setTimer (s : State) (env : Env) (now : Time) : Fresh (s.setTimer env now) env now := rfl

end Uquic.Proofs.Sent
