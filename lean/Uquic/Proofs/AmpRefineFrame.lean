/-
Frame lemmas over the FULL sent-packet-handler model (Uquic/Model/Ack/Sent.lean), shared by the two
compositions C14Compose (anti-amplification slice ⊑ full model) and C06Compose (SendMode gating over the
full model):

every operation of the full model other than SentPacket / ReceivedBytes / ReceivedPacket leaves the four
fields the amplification slice reads (bytesSent, bytesReceived, peerAddressValidated, perspective) alone, and
`ptoMode` is only ever assigned SendNone or one of the three PTO modes.

The lemmas hold for EVERY outcome of an operation (ok, error, panic): the model returns the partially
updated state in those cases too.
-/
import Uquic.Model.Ack.Sent

namespace Uquic.Proofs.AmpRefine
open Uquic.Model.Sent

/-- `h.ptoMode` holds SendNone or a PTO mode (never SendAck / SendPacingLimited / SendAny) -/
def PtoOK (s : State) : Prop :=
  s.ptoMode = sendNone ∨ s.ptoMode = sendPTOInitial ∨ s.ptoMode = sendPTOHandshake ∨ s.ptoMode = sendPTOAppData

/-- `s'` agrees with `s` on the amplification slice, and did not leave the legal `ptoMode` values -/
structure Keeps (s' s : State) : Prop where
  bs : s'.bytesSent = s.bytesSent
  br : s'.bytesReceived = s.bytesReceived
  pv : s'.peerValidated = s.peerValidated
  ic : s'.isClient = s.isClient
  pto : PtoOK s → PtoOK s'

theorem Keeps.refl (s : State) : Keeps s s := ⟨rfl, rfl, rfl, rfl, id⟩

theorem Keeps.trans {a b c : State} (h1 : Keeps a b) (h2 : Keeps b c) : Keeps a c :=
  ⟨h1.bs.trans h2.bs, h1.br.trans h2.br, h1.pv.trans h2.pv, h1.ic.trans h2.ic, fun h => h1.pto (h2.pto h)⟩

/-- `Keeps.trans` with the known half first (so that the middle state is fixed before the record half is
    elaborated) -/
theorem Keeps.step {a b c : State} (h2 : Keeps b c) (h1 : Keeps a b) : Keeps a c := h1.trans h2

theorem setSpace_keeps (s : State) (lvl : Level) (sp : Space) : Keeps (s.setSpace lvl sp) s := by
  cases lvl <;> exact ⟨rfl, rfl, rfl, rfl, id⟩

theorem setTimer_keeps (s : State) (env : Env) (now : Time) : Keeps (s.setTimer env now) s :=
  ⟨rfl, rfl, rfl, rfl, id⟩

theorem aeSent_keeps (s : State) (size : Int) : Keeps (s.aeSent size) s := ⟨rfl, rfl, rfl, rfl, id⟩

/-- one step of the proof search: peel a known field-preserving wrapper off the left-hand state -/
macro "keeps_step" : tactic => `(tactic| first
  | exact Keeps.refl _
  | exact ⟨rfl, rfl, rfl, rfl, id⟩
  | refine Keeps.trans (setTimer_keeps _ _ _) ?_
  | refine Keeps.trans (setSpace_keeps _ _ _) ?_
  | refine Keeps.trans (aeSent_keeps _ _) ?_)

macro "keeps" : tactic => `(tactic| repeat keeps_step)

/-! ### PopPacketNumber / SentPacket -/

theorem popPacketNumber_keeps (s : State) (lvl : Level) (nts : PN) : Keeps (s.popPacketNumber lvl nts).1 s := by
  unfold State.popPacketNumber
  split
  · keeps
  · split <;> keeps

/-- `SentPacket` adds `size` to `bytesSent` as its first statement — also when it then panics — and touches
    nothing else of the slice -/
theorem sentPacket_keeps (s : State) (env : Env) (t : Time) (pn la : PN) (sframes frames : List Frame) (lvl : Level)
    (size : Int) (mtu probe : Bool) :
    Keeps (s.sentPacket env t pn la sframes frames lvl size mtu probe).1 { s with bytesSent := s.bytesSent + size } := by
  unfold State.sentPacket
  simp only []
  generalize ({ s with bytesSent := s.bytesSent + size } : State) = s0
  split
  · keeps
  · split
    · split <;> keeps
    · split
      · split <;> keeps
      · split
        · keeps
        · simp only []
          split <;> keeps

/-! ### ReceivedAck -/

theorem detectLostPackets_keeps (s : State) (env : Env) (now : Time) (lvl : Level) :
    Keeps (s.detectLostPackets env now lvl).1 s := by
  unfold State.detectLostPackets
  split
  · keeps
  · simp only []
    refine Keeps.trans (b := s.setSpace lvl _) ⟨rfl, rfl, rfl, rfl, id⟩ (setSpace_keeps _ _ _)

theorem ackTail_keeps (s : State) (env : Env) (lvl : Level) (now : Time) (largest : PN) (sp : Space) (h2 : Hist)
    (evs : List Ev) (removed : List (PN × Packet)) (sdisc : List Frame) (n : Nat) :
    Keeps (s.ackTail env lvl now largest sp h2 evs removed sdisc n).1 s := by
  unfold State.ackTail
  simp only []
  have k2 := setSpace_keeps s lvl { sp with hist := h2, largestAcked := max sp.largestAcked largest }
  generalize s.setSpace lvl { sp with hist := h2, largestAcked := max sp.largestAcked largest } = s2 at k2 ⊢
  have k3 := detectLostPackets_keeps s2 env now lvl
  cases hd : s2.detectLostPackets env now lvl with
  | mk s3 r =>
    obtain ⟨evsL, pl⟩ := r
    rw [hd] at k3
    have k : Keeps s3 s := k3.trans k2
    cases pl with
    | some c => simp only []; exact k.step ⟨rfl, rfl, rfl, rfl, id⟩
    | none =>
      simp only []
      split
      · exact k.step ⟨rfl, rfl, rfl, rfl, id⟩
      · exact Keeps.trans (setTimer_keeps _ _ _) (k.step ⟨rfl, rfl, rfl, rfl, id⟩)

theorem ackCore_keeps (s : State) (env : Env) (ranges : List Range) (lvl : Level) (now : Time) (sp : Space)
    (lowest largest : PN) : Keeps (s.ackCore env ranges lvl now sp lowest largest).1 s := by
  unfold State.ackCore
  split
  · keeps
  · split
    · keeps
    · split
      · exact Keeps.trans (b := s.setSpace lvl _) ⟨rfl, rfl, rfl, rfl, id⟩ (setSpace_keeps _ _ _)
      · split
        · exact Keeps.trans (b := s.setSpace lvl _) ⟨rfl, rfl, rfl, rfl, id⟩ (setSpace_keeps _ _ _)
        · exact Keeps.trans (b := s.setSpace lvl _) ⟨rfl, rfl, rfl, rfl, id⟩ (setSpace_keeps _ _ _)
        · split
          · keeps
          · exact ackTail_keeps _ _ _ _ _ _ _ _ _ _ _

theorem completeValidation_keeps (s : State) (env : Env) (lvl : Level) (now : Time) :
    Keeps (s.completeValidation env lvl now) s := by
  unfold State.completeValidation
  split
  · exact Keeps.trans (setTimer_keeps _ _ _) ⟨rfl, rfl, rfl, rfl, id⟩
  · keeps

theorem receivedAck_keeps (s : State) (env : Env) (ranges : List Range) (lvl : Level) (now : Time) :
    Keeps (s.receivedAck env ranges lvl now).1 s := by
  unfold State.receivedAck
  split
  · split
    · keeps
    · exact Keeps.trans (ackCore_keeps _ _ _ _ _ _ _ _) (completeValidation_keeps _ _ _ _)
  · keeps
  · keeps

/-! ### OnLossDetectionTimeout -/

theorem ptoSwitch_keeps (s : State) (lvl : Level) (nts : PN) (evs0 : List Ev) (disc0 : List Frame) :
    Keeps (s.ptoSwitch lvl nts evs0 disc0).1 s := by
  unfold State.ptoSwitch
  simp only []
  split
  · exact ⟨rfl, rfl, rfl, rfl, fun _ => Or.inr (Or.inl rfl)⟩
  · exact ⟨rfl, rfl, rfl, rfl, fun _ => Or.inr (Or.inr (Or.inl rfl))⟩
  · split
    · keeps
    · split
      · keeps
      · exact ⟨rfl, rfl, rfl, rfl, fun _ => Or.inr (Or.inr (Or.inr rfl))⟩
  · keeps

theorem ptoFire_keeps (s : State) (env : Env) (now : Time) (nts : PN) (evs0 : List Ev) (disc0 : List Frame) :
    Keeps (s.ptoFire env now nts evs0 disc0).1 s := by
  unfold State.ptoFire
  split
  · keeps
  · split
    · keeps
    · split
      · keeps
      · exact ptoSwitch_keeps _ _ _ _ _

theorem timeoutMain_keeps (s : State) (env : Env) (now : Time) (nts : PN) (evs0 : List Ev) (disc0 : List Frame) :
    Keeps (s.timeoutMain env now nts evs0 disc0).1 s := by
  unfold State.timeoutMain State.timeoutMainG
  split
  · exact detectLostPackets_keeps _ _ _ _
  · split
    · unfold State.antiDeadlockProbe
      simp only []
      split
      · exact ⟨rfl, rfl, rfl, rfl, fun _ => Or.inr (Or.inl rfl)⟩
      · split
        · exact ⟨rfl, rfl, rfl, rfl, fun _ => Or.inr (Or.inr (Or.inl rfl))⟩
        · keeps
    · exact ptoFire_keeps _ _ _ _ _ _

theorem timeoutBody_keeps (s : State) (env : Env) (now : Time) (nts : PN) : Keeps (s.timeoutBody env now nts).1 s := by
  unfold State.timeoutBody
  exact Keeps.trans (timeoutMain_keeps _ _ _ _ _ _) ⟨rfl, rfl, rfl, rfl, id⟩

theorem onLossDetectionTimeout_keeps (s : State) (env : Env) (now : Time) (nts : PN) :
    Keeps (s.onLossDetectionTimeout env now nts).1 s := by
  unfold State.onLossDetectionTimeout
  exact Keeps.trans (setTimer_keeps _ _ _) (timeoutBody_keeps _ _ _ _)

/-! ### QueueProbePacket, DropPackets, ResetForRetry, MigratedPath -/

theorem queueProbePacket_keeps (s : State) (lvl : Level) : Keeps (s.queueProbePacket lvl).1 s := by
  unfold State.queueProbePacket
  split
  · keeps
  · split
    · keeps
    · split
      · keeps
      · simp only []
        split
        · keeps
        · exact Keeps.trans (b := s.setSpace lvl _) ⟨rfl, rfl, rfl, rfl, id⟩ (setSpace_keeps _ _ _)

theorem afterDrop_keeps (s : State) (env : Env) (now : Time) : Keeps (s.afterDrop env now) s :=
  ⟨rfl, rfl, rfl, rfl, fun _ => Or.inl rfl⟩

theorem dropPackets_keeps (s : State) (env : Env) (lvl : Level) (now : Time) : Keeps (s.dropPackets env lvl now).1 s := by
  unfold State.dropPackets
  simp only []
  have k0 : Keeps (if s.isClient = true ∧ lvl = Level.handshake then { s with peerCompleted := true } else s) s := by
    split <;> keeps
  generalize (if s.isClient = true ∧ lvl = Level.handshake then ({ s with peerCompleted := true } : State) else s) = s0 at k0 ⊢
  split
  · split
    · exact k0
    · split
      · exact k0
      · exact Keeps.trans (afterDrop_keeps _ _ _) (k0.step ⟨rfl, rfl, rfl, rfl, id⟩)
  · split
    · exact k0
    · split
      · exact k0
      · exact Keeps.trans (afterDrop_keeps _ _ _) (k0.step ⟨rfl, rfl, rfl, rfl, id⟩)
  · split
    · exact k0.step ⟨rfl, rfl, rfl, rfl, id⟩
    · exact Keeps.trans (afterDrop_keeps _ _ _) (k0.step ⟨rfl, rfl, rfl, rfl, id⟩)
  · exact k0

theorem resetForRetry_keeps (s : State) (nts : PN) : Keeps (s.resetForRetry nts).1 s := by
  unfold State.resetForRetry
  simp only []
  split <;> keeps

theorem migratedPath_keeps (s : State) (env : Env) (now : Time) : Keeps (s.migratedPath env now).1 s := by
  unfold State.migratedPath
  simp only []
  split
  · keeps
  · exact Keeps.trans (setTimer_keeps _ _ _) ⟨rfl, rfl, rfl, rfl, id⟩

/-! ### ReceivedBytes / ReceivedPacket -/

theorem receivedBytes_keeps (s : State) (env : Env) (n : Int) (t : Time) :
    Keeps (s.receivedBytes env n t) { s with bytesReceived := s.bytesReceived + n } := by
  unfold State.receivedBytes
  simp only []
  split <;> keeps

/-- `ReceivedPacket` validates the peer's address exactly when the handler is a server and the packet is a
    Handshake packet; nothing else of the slice changes -/
theorem receivedPacket_keeps (s : State) (env : Env) (l : Level) (t : Time) :
    Keeps (s.receivedPacket env l t)
      { s with peerValidated := s.peerValidated || (!s.isClient && decide (l = Level.handshake)) } := by
  unfold State.receivedPacket
  split
  · rename_i h
    refine Keeps.trans (setTimer_keeps _ _ _) ⟨rfl, rfl, ?_, rfl, id⟩
    simp only [Bool.not_eq_eq_eq_not, Bool.not_true] at h
    simp [h.1, h.2.1]
  · rename_i h
    refine ⟨rfl, rfl, ?_, rfl, id⟩
    cases hv : s.peerValidated with
    | true => simp
    | false =>
      cases hc : s.isClient with
      | true => simp
      | false =>
        by_cases hl : l = Level.handshake
        · exact absurd ⟨by simp [hc], hl, by simp [hv]⟩ h
        · simp [hl]

/-! ### one operation -/

/-- did `PopPacketNumber` of a `send` step return normally (only then is `SentPacket` called) -/
def popOk (s : State) (lvl : Level) (nts : PN) : Bool :=
  match (s.popPacketNumber lvl nts).2.res with
  | .ok => true
  | _ => false

theorem popOk_iff (s : State) (lvl : Level) (nts : PN) : popOk s lvl nts = true ↔ (s.popPacketNumber lvl nts).2.res = .ok := by
  unfold popOk
  split <;> simp_all

/-- the state a step of the full model is slice-equivalent to -/
def sliceAfter (s : State) (op : Op) (e : StepEnv) : State :=
  match op with
  | .send lvl _ _ size _ _ _ _ => if popOk s lvl e.nts then { s with bytesSent := s.bytesSent + size } else s
  | .rcvBytes n _ => { s with bytesReceived := s.bytesReceived + n }
  | .rcvPacket l _ => { s with peerValidated := s.peerValidated || (!s.isClient && decide (l = Level.handshake)) }
  | _ => s

/-- **every step of the full model** changes the slice fields exactly as `sliceAfter` says (whatever the
    step's outcome), and keeps `ptoMode` legal -/
theorem step_keeps (s : State) (op : Op) (e : StepEnv) : Keeps (s.step op e).1 (sliceAfter s op e) := by
  cases op with
  | send lvl now la size mtu probe frames sframes =>
    have kp := popPacketNumber_keeps s lvl e.nts
    by_cases hr : (s.popPacketNumber lvl e.nts).2.res = .ok
    · simp only [State.step, sliceAfter, hr, (popOk_iff s lvl e.nts).2 hr, if_true]
      refine Keeps.trans (sentPacket_keeps _ _ _ _ _ _ _ _ _ _ _) ?_
      exact ⟨by simp [kp.bs], kp.br, kp.pv, kp.ic, kp.pto⟩
    · have hf : popOk s lvl e.nts = false := by
        cases h : popOk s lvl e.nts with
        | false => rfl
        | true => exact absurd ((popOk_iff s lvl e.nts).1 h) hr
      simp only [State.step, sliceAfter, hf]
      split
      · rename_i h; exact absurd h (by decide)
      · exact kp
  | ack lvl now ranges => exact receivedAck_keeps _ _ _ _ _
  | timeout now => exact onLossDetectionTimeout_keeps _ _ _ _
  | probe lvl => exact queueProbePacket_keeps _ _
  | drop lvl now => exact dropPackets_keeps _ _ _ _
  | retry => exact resetForRetry_keeps _ _
  | migrate now => exact migratedPath_keeps _ _ _
  | rcvBytes n now => exact receivedBytes_keeps _ _ _ _
  | rcvPacket lvl now => exact receivedPacket_keeps _ _ _ _

theorem sliceAfter_ptoMode (s : State) (op : Op) (e : StepEnv) : (sliceAfter s op e).ptoMode = s.ptoMode := by
  cases op <;> simp only [sliceAfter] <;> (try split) <;> rfl

/-- `ptoMode` stays SendNone-or-PTO across every operation, whatever its outcome -/
theorem step_ptoOK {s : State} (op : Op) (e : StepEnv) (h : PtoOK s) : PtoOK (s.step op e).1 := by
  apply (step_keeps s op e).pto
  unfold PtoOK at h ⊢
  rw [sliceAfter_ptoMode]; exact h

theorem new_ptoOK (pn : PN) (val client : Bool) (nts : PN) : PtoOK (State.new pn val client nts) := Or.inl rfl

/-- … hence in every state reached by a history (`State.run` stops at the first error / panic) -/
theorem run_ptoOK (ops : List (Op × StepEnv)) : ∀ (s : State), PtoOK s → PtoOK (s.run ops).s := by
  induction ops with
  | nil => intro s h; exact h
  | cons x xs ih =>
    intro s h
    obtain ⟨op, e⟩ := x
    simp only [State.run]
    split
    · exact ih _ (step_ptoOK op e h)
    · exact step_ptoOK op e h

end Uquic.Proofs.AmpRefine
