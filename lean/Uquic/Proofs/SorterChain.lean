/-
C03 helper lemmas: geometry of a queue whose frames are non-empty and pairwise disjoint (`QInv`),
positions no frame straddles (`Boundary`), and what `deleteConsecutive` / `replaceLoop` do on a
fully covered run `[a, b)`.
-/
import Uquic.Proofs.SorterBasic

namespace Uquic.Proofs.Sorter
open Uquic.Model.Reassembly

/-- length of an entry -/
abbrev elen (x : Nat × Entry) : Nat := x.2.data.length

def inEntry (q : Queue) (p : Nat) : Prop := ∃ x ∈ q, x.1 ≤ p ∧ p < x.1 + elen x

structure QInv (q : Queue) : Prop where
  nodup : (keys q).Nodup
  pos : ∀ x ∈ q, 0 < elen x
  disj : ∀ x ∈ q, ∀ y ∈ q, x.1 < y.1 + elen y → y.1 < x.1 + elen x → x.1 = y.1

/-- no frame of `q` straddles `a` -/
def Boundary (q : Queue) (a : Nat) : Prop := ∀ x ∈ q, ¬(x.1 < a ∧ a < x.1 + elen x)

theorem QInv.sublist {q q' : Queue} (h : QInv q) (hs : q'.Sublist q) : QInv q' where
  nodup := by
    have := List.Sublist.map (·.1) hs
    exact this.nodup h.nodup
  pos := fun x hx => h.pos x (hs.subset hx)
  disj := fun x hx y hy => h.disj x (hs.subset hx) y (hs.subset hy)

theorem QInv.qdel {q : Queue} (h : QInv q) (k : Nat) : QInv (qdel q k) := h.sublist (qdel_sublist q k)

theorem Boundary.sublist {q q' : Queue} {a : Nat} (h : Boundary q a) (hs : q'.Sublist q) : Boundary q' a :=
  fun x hx => h x (hs.subset hx)

theorem inEntry.sublist {q q' : Queue} {p : Nat} (h : inEntry q' p) (hs : q'.Sublist q) : inEntry q p := by
  obtain ⟨x, hx, h1⟩ := h
  exact ⟨x, hs.subset hx, h1⟩

/-- same key ⇒ same entry -/
theorem QInv.eq_of_key {q : Queue} (h : QInv q) {x y : Nat × Entry} (hx : x ∈ q) (hy : y ∈ q) (hk : x.1 = y.1) : x = y := by
  obtain ⟨k, e⟩ := x
  obtain ⟨k', e'⟩ := y
  simp only at hk; subst hk
  have h1 := qget_eq_some_of_mem h.nodup hx
  have h2 := qget_eq_some_of_mem h.nodup hy
  rw [h1] at h2; cases h2; rfl

/-- a covered boundary position is the start of a frame -/
theorem entry_at_boundary {q : Queue} (h : QInv q) {a : Nat} (hb : Boundary q a) (hc : inEntry q a) :
    ∃ e, qget q a = some e ∧ (a, e) ∈ q := by
  obtain ⟨x, hx, h1, h2⟩ := hc
  have : x.1 = a := by
    have := hb x hx
    omega
  obtain ⟨k, e⟩ := x
  simp only at this; subst this
  exact ⟨e, qget_eq_some_of_mem h.nodup hx, hx⟩

/-- the end of a frame is a boundary -/
theorem boundary_end {q : Queue} (h : QInv q) {a : Nat} {e : Entry} (he : (a, e) ∈ q) :
    Boundary q (a + e.data.length) := by
  intro y hy ⟨h1, h2⟩
  have hp := h.pos _ he
  have hpy := h.pos _ hy
  simp only [elen] at *
  have := h.disj y hy (a, e) he (show y.1 < a + e.data.length by omega) (show a < y.1 + y.2.data.length by omega)
  have h3 : y.1 = a := this
  have h4 := h.eq_of_key hy he h3
  subst h4
  simp only at h2
  omega

/-- the start of a frame is a boundary -/
theorem boundary_start {q : Queue} (h : QInv q) {a : Nat} {e : Entry} (he : (a, e) ∈ q) : Boundary q a := by
  intro y hy ⟨h1, h2⟩
  have hp := h.pos _ he
  simp only [elen] at *
  have := h.disj y hy (a, e) he (show y.1 < a + e.data.length by omega) (show a < y.1 + y.2.data.length by omega)
  have h3 : y.1 = a := this
  omega

/-- a position not covered by any frame is a boundary -/
theorem boundary_of_not_inEntry {q : Queue} {a : Nat} (h : ¬ inEntry q a) : Boundary q a := by
  intro x hx ⟨h1, h2⟩
  exact h ⟨x, hx, by omega, h2⟩

theorem qget_none_of_not_inEntry {q : Queue} (h : QInv q) {a : Nat} (hn : ¬ inEntry q a) : qget q a = none := by
  rw [qget_none_iff]
  intro e he
  apply hn
  have := h.pos _ he
  exact ⟨(a, e), he, Nat.le_refl _, show a < a + e.data.length by simp only [elen] at this; omega⟩

/-- no other frame starts inside a frame -/
theorem no_key_inside {q : Queue} (h : QInv q) {a : Nat} {e : Entry} (he : (a, e) ∈ q) {x : Nat × Entry} (hx : x ∈ q)
    (h1 : a < x.1) (h2 : x.1 < a + e.data.length) : False := by
  have hpx := h.pos _ hx
  simp only [elen] at hpx
  have := h.disj x hx (a, e) he (show x.1 < a + e.data.length by omega) (show a < x.1 + x.2.data.length by omega)
  have h3 : x.1 = a := this
  omega

/-- `[a, b)` is completely covered by frames -/
def Run (q : Queue) (a b : Nat) : Prop := ∀ p, a ≤ p → p < b → inEntry q p

/-- On a covered run `[a, b)` that starts at a boundary and is followed by an uncovered position,
`deleteConsecutive a` removes exactly the frames that start in `[a, b)`. -/
theorem deleteConsecutive_run (fuel : Nat) (q : Queue) (a b : Nat) (hq : QInv q) (hfuel : q.length < fuel)
    (hab : a ≤ b) (hba : Boundary q a) (hrun : Run q a b) (hnb : ¬ inEntry q b) :
    ∀ x, x ∈ (deleteConsecutive fuel q a).1 ↔ (x ∈ q ∧ ¬(a ≤ x.1 ∧ x.1 < b)) := by
  induction fuel generalizing q a with
  | zero => omega
  | succ n ih =>
    intro x
    simp only [deleteConsecutive]
    by_cases hlt : a < b
    · obtain ⟨e, hg, hmem⟩ := entry_at_boundary hq hba (hrun a (Nat.le_refl _) hlt)
      rw [hg]
      simp only
      have hpos := hq.pos _ hmem
      simp only [elen] at hpos
      have hle : a + e.data.length ≤ b := by
        rcases Nat.lt_or_ge b (a + e.data.length) with hc | hc
        · exact absurd ⟨(a, e), hmem, show a ≤ b by omega, show b < a + e.data.length by omega⟩ hnb
        · exact hc
      have hq' := hq.qdel a
      have hb' : Boundary (qdel q a) (a + e.data.length) := (boundary_end hq hmem).sublist (qdel_sublist q a)
      have hrun' : Run (qdel q a) (a + e.data.length) b := by
        intro p hp1 hp2
        obtain ⟨y, hy, hy1, hy2⟩ := hrun p (by omega) hp2
        refine ⟨y, mem_qdel.mpr ⟨hy, ?_⟩, hy1, hy2⟩
        intro hk
        have := hq.eq_of_key hy hmem hk
        subst this
        have hy2' : p < a + e.data.length := hy2
        omega
      have hnb' : ¬ inEntry (qdel q a) b := fun hc => hnb (hc.sublist (qdel_sublist q a))
      have hlen : (qdel q a).length < n := by
        have := qdel_length_lt hmem
        omega
      rw [ih (qdel q a) (a + e.data.length) hq' hlen hle hb' hrun' hnb' x, mem_qdel]
      constructor
      · rintro ⟨⟨hx, hne⟩, hout⟩
        refine ⟨hx, ?_⟩
        rintro ⟨h1, h2⟩
        by_cases hxa : x.1 < a + e.data.length
        · exact no_key_inside hq hmem hx (by omega) hxa
        · exact hout ⟨by omega, h2⟩
      · rintro ⟨hx, hout⟩
        refine ⟨⟨hx, ?_⟩, ?_⟩
        · intro hk; exact hout ⟨by omega, by omega⟩
        · rintro ⟨h1, h2⟩; exact hout ⟨by omega, h2⟩
    · have hab' : a = b := by omega
      subst hab'
      rw [qget_none_of_not_inEntry hq hnb]
      simp only
      constructor
      · intro hx; exact ⟨hx, by omega⟩
      · intro hx; exact hx.1

/-- `deleteConsecutive` at a position where no frame starts is a no-op -/
theorem deleteConsecutive_none (fuel : Nat) (q : Queue) (a : Nat) (h : qget q a = none) :
    deleteConsecutive fuel q a = (q, []) := by
  cases fuel with
  | zero => rfl
  | succ n => simp [deleteConsecutive, h]

/-- what the replace loop of `push` does on a covered run `[pos, b)` starting at a boundary -/
structure LoopSpec (q : Queue) (pos b en : Nat) (hr0 : Bool) (r : LoopOut) : Prop where
  pos_le : pos ≤ r.pos
  le_b : r.pos ≤ b
  le_en : r.pos ≤ en
  mem : ∀ x, x ∈ r.q ↔ (x ∈ q ∧ ¬(pos ≤ x.1 ∧ x.1 < r.pos))
  bnd : Boundary q r.pos
  repl : r.replaced = (hr0 || decide (pos < r.pos))
  noEntry : r.stop = .noEntry → r.pos = b
  cut : r.stop = .cut → r.replaced = true ∧ ∃ e, (r.pos, e) ∈ q ∧ en < r.pos + e.data.length
  dup : r.stop = .dup → hr0 = false ∧ r.pos = pos ∧ ∃ e, (pos, e) ∈ q ∧ en ≤ pos + e.data.length

theorem replaceLoop_run (fuel : Nat) (q : Queue) (pos b en : Nat) (hr0 : Bool) (hq : QInv q) (hfuel : q.length < fuel)
    (hpb : pos ≤ b) (hbnd : Boundary q pos) (hrun : Run q pos b) (hnb : ¬ inEntry q b) (hpe : pos ≤ en) :
    LoopSpec q pos b en hr0 (replaceLoop fuel q pos en hr0) := by
  induction fuel generalizing q pos hr0 with
  | zero => omega
  | succ n ih =>
    simp only [replaceLoop]
    by_cases hlt : pos < b
    · obtain ⟨e, hg, hmem⟩ := entry_at_boundary hq hbnd (hrun pos (Nat.le_refl _) hlt)
      rw [hg]
      simp only
      have hpos := hq.pos _ hmem
      simp only [elen] at hpos
      have hle : pos + e.data.length ≤ b := by
        rcases Nat.lt_or_ge b (pos + e.data.length) with hc | hc
        · exact absurd ⟨(pos, e), hmem, show pos ≤ b by omega, show b < pos + e.data.length by omega⟩ hnb
        · exact hc
      split
      · rename_i hcond
        have hpe' : pos + e.data.length ≤ en := by omega
        have hq' := hq.qdel pos
        have hb' : Boundary (qdel q pos) (pos + e.data.length) := (boundary_end hq hmem).sublist (qdel_sublist q pos)
        have hrun' : Run (qdel q pos) (pos + e.data.length) b := by
          intro p hp1 hp2
          obtain ⟨y, hy, hy1, hy2⟩ := hrun p (by omega) hp2
          refine ⟨y, mem_qdel.mpr ⟨hy, ?_⟩, hy1, hy2⟩
          intro hk
          have := hq.eq_of_key hy hmem hk
          subst this
          have hy2' : p < pos + e.data.length := hy2
          omega
        have hnb' : ¬ inEntry (qdel q pos) b := fun hc => hnb (hc.sublist (qdel_sublist q pos))
        have hlen : (qdel q pos).length < n := by
          have := qdel_length_lt hmem
          omega
        have IH := ih (qdel q pos) (pos + e.data.length) true hq' hlen hle hb' hrun' hnb' hpe'
        refine ⟨by have := IH.pos_le; simp only; omega, IH.le_b, IH.le_en, ?_, ?_, ?_, IH.noEntry, ?_, ?_⟩
        · intro x
          simp only
          rw [IH.mem x, mem_qdel]
          have h1 := IH.pos_le
          constructor
          · rintro ⟨⟨hx, hne⟩, hout⟩
            refine ⟨hx, ?_⟩
            rintro ⟨h1', h2'⟩
            by_cases hxa : x.1 < pos + e.data.length
            · exact no_key_inside hq hmem hx (by omega) hxa
            · exact hout ⟨by omega, h2'⟩
          · rintro ⟨hx, hout⟩
            refine ⟨⟨hx, ?_⟩, ?_⟩
            · intro hk; exact hout ⟨by omega, by omega⟩
            · rintro ⟨h1', h2'⟩; exact hout ⟨by omega, h2'⟩
        · intro x hx hstr
          by_cases hxk : x.1 = pos
          · have := hq.eq_of_key hx hmem hxk
            subst this
            have h1 := IH.pos_le
            simp only [elen] at hstr
            omega
          · exact IH.bnd x (mem_qdel.mpr ⟨hx, hxk⟩) hstr
        · simp only
          rw [IH.repl]
          have h1 := IH.pos_le
          have : pos < (replaceLoop n (qdel q pos) (pos + e.data.length) en true).pos := by omega
          simp [this]
        · intro hs
          obtain ⟨h1, e', he', h2⟩ := IH.cut hs
          exact ⟨h1, e', (mem_qdel.mp he').1, h2⟩
        · intro hs
          have := (IH.dup hs).1
          cases this
      · rename_i hcond
        split
        · rename_i hhr
          refine ⟨Nat.le_refl _, by simp only; omega, hpe, ?_, hbnd, ?_, ?_, ?_, ?_⟩
          · intro x; simp only; constructor
            · intro hx; exact ⟨hx, by omega⟩
            · intro hx; exact hx.1
          · simp [hhr]
          · intro hs; cases hs
          · intro hs; cases hs
          · intro _
            have h1 : ¬ (en - pos > e.data.length) := fun h => hcond (Or.inl h)
            exact ⟨hhr, rfl, e, hmem, show en ≤ pos + e.data.length by omega⟩
        · rename_i hhr
          have hhr' : hr0 = true := by cases hr0 <;> simp_all
          refine ⟨Nat.le_refl _, by simp only; omega, hpe, ?_, hbnd, ?_, ?_, ?_, ?_⟩
          · intro x; simp only; constructor
            · intro hx; exact ⟨hx, by omega⟩
            · intro hx; exact hx.1
          · simp [hhr']
          · intro hs; cases hs
          · intro _
            have h1 : ¬ (en - pos > e.data.length) := fun h => hcond (Or.inl h)
            have h2 : ¬ (en - pos = e.data.length) := fun h => hcond (Or.inr ⟨hhr', h⟩)
            exact ⟨hhr', e, hmem, show en < pos + e.data.length by omega⟩
          · intro hs; cases hs
    · have hab' : pos = b := by omega
      subst hab'
      rw [qget_none_of_not_inEntry hq hnb]
      refine ⟨Nat.le_refl _, Nat.le_refl _, hpe, ?_, hbnd, ?_, ?_, ?_, ?_⟩
      · intro x; simp only; constructor
        · intro hx; exact ⟨hx, by omega⟩
        · intro hx; exact hx.1
      · simp
      · intro _; rfl
      · intro hs; cases hs
      · intro hs; cases hs

end Uquic.Proofs.Sorter
