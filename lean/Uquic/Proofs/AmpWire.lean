/-
Helper lemmas for C14: from handler histories to the observable wire trace.
-/
import Uquic.Proofs.AmpLimit

namespace Uquic.Proofs.Amp
open Uquic.Model.Amp Uquic.Spec.AmpMon

theorem step_h (s : St) (op : Op) : (s.step op).h = s.h.apply op := by
  cases op <;> rfl

theorem foldl_h (ops : List Op) (s : St) : (ops.foldl St.step s).h = ops.foldl H.apply s.h := by
  induction ops generalizing s with
  | nil => rfl
  | cons op ops ih => simp only [List.foldl_cons]; rw [ih, step_h]

theorem wireOfCalls_append (a b : List Op) (h : H) :
    wireOfCalls h (a ++ b) = wireOfCalls h a ++ wireOfCalls (a.foldl H.apply h) b := by
  induction a generalizing h with
  | nil => simp [wireOfCalls]
  | cons op a ih => simp [wireOfCalls, ih, List.append_assoc]

/-- the wire checker run alongside a handler history stays in step with the ghost counters of the run -/
structure Sync (s : St) (w : WireSt) : Prop where
  inB : w.inB = s.wireIn
  outB : w.outB = s.wireOut
  val : w.validated = s.h.validated
  last : w.last = s.last
  ok : s.disciplined = true → w.ok = true

theorem Sync.step {s : St} {w : WireSt} (inv : Inv s) (sy : Sync s w) (op : Op) :
    Sync (s.step op) ((opWire s.h op).foldl WireSt.step w) := by
  cases op with
  | rcvBytes n =>
    constructor <;> simp [St.step, opWire, WireSt.step, H.receivedBytes, sy.inB, sy.outB, sy.val, sy.last]
    exact sy.ok
  | rcvPacket l =>
    by_cases hf : s.h.validated = false ∧ (s.h.receivedPacket l).validated = true
    · constructor <;> simp [St.step, opWire, hf, WireSt.step, sy.inB, sy.outB, sy.last]
      exact sy.ok
    · have hsame : (s.h.receivedPacket l).validated = s.h.validated := by
        cases hv : s.h.validated with
        | true => exact receivedPacket_validated_mono _ _ hv
        | false =>
          cases hv' : (s.h.receivedPacket l).validated with
          | false => rfl
          | true => exact absurd ⟨hv, hv'⟩ hf
      constructor <;> simp [St.step, opWire, sy.inB, sy.outB, sy.last, sy.val, hsame]
      exact sy.ok
  | mode wants =>
    constructor <;> simp [St.step, opWire, sy.inB, sy.outB, sy.last, sy.val]
    exact sy.ok
  | sent sizes =>
    constructor
    · simp [St.step, opWire, WireSt.step, sy.inB]
    · simp [St.step, opWire, WireSt.step, sy.outB]
    · simp [St.step, opWire, WireSt.step, sy.val]
    · simp [St.step, opWire, WireSt.step]
    · intro hd
      simp only [St.step, Bool.and_eq_true] at hd
      simp only [opWire, List.foldl_cons, List.foldl_nil, WireSt.step, Bool.and_eq_true, Bool.or_eq_true]
      refine ⟨sy.ok hd.1, ?_⟩
      cases hv : s.h.validated with
      | true => left; rw [sy.val, hv]
      | false =>
        right
        have := inv.strict hv hd.2
        simp only [belowLimit, decide_eq_true_eq]
        rw [sy.outB, sy.inB, inv.out, inv.inn]; exact this

theorem Sync.foldl (ops : List Op) : ∀ {s : St} {w : WireSt}, Inv s → Sync s w →
    Sync (ops.foldl St.step s) ((wireOfCalls s.h ops).foldl WireSt.step w) := by
  induction ops with
  | nil => intro s w _ sy; simpa [wireOfCalls] using sy
  | cons op ops ih =>
    intro s w inv sy
    simp only [List.foldl_cons, wireOfCalls, List.foldl_append]
    have := ih (inv.step op) (sy.step inv op)
    rw [step_h] at this
    exact this

theorem Sync.init (pers : Persp) (cav : Bool) :
    Sync (St.init pers cav) { validated := (H.new pers cav).validated } := by
  constructor <;> simp [St.init]

/-- a disciplined handler history satisfies the observable statement -/
theorem wireOk_of_disciplined (pers : Persp) (cav : Bool) (ops : List Op)
    (hd : (run pers cav ops).disciplined = true) :
    wireOk (H.new pers cav).validated (wireOfCalls (H.new pers cav) ops) = true := by
  have sy := Sync.foldl ops (Inv.init pers cav) (Sync.init pers cav)
  exact sy.ok hd

/-! ### what `wireOk` means: the running inequality on the wire -/

theorem wire_step_bound {w : WireSt} (ev : WireEv)
    (h : w.ok = true → w.validated = false → w.outB ≤ 3 * w.inB + w.last) :
    (w.step ev).ok = true → (w.step ev).validated = false → (w.step ev).outB ≤ 3 * (w.step ev).inB + (w.step ev).last := by
  cases ev with
  | inn n =>
    intro hok hv
    simp only [WireSt.step] at hok hv ⊢
    have := h hok hv; omega
  | out n =>
    intro hok hv
    simp only [WireSt.step, Bool.and_eq_true, Bool.or_eq_true, belowLimit, decide_eq_true_eq] at hok hv ⊢
    rcases hok.2 with h1 | h1
    · rw [hv] at h1; cases h1
    · omega
  | validate => intro _ hv; simp [WireSt.step] at hv

theorem wireOk_bound (v0 : Bool) (evs : List WireEv) :
    let w := wireRun v0 evs
    w.ok = true → w.validated = false → w.outB ≤ 3 * w.inB + w.last := by
  unfold wireRun
  suffices ∀ (w : WireSt), (w.ok = true → w.validated = false → w.outB ≤ 3 * w.inB + w.last) →
      ((evs.foldl WireSt.step w).ok = true → (evs.foldl WireSt.step w).validated = false →
        (evs.foldl WireSt.step w).outB ≤ 3 * (evs.foldl WireSt.step w).inB + (evs.foldl WireSt.step w).last) by
    exact this _ (by intro _ _; simp)
  induction evs with
  | nil => intro w h; exact h
  | cons ev evs ih => intro w h; exact ih _ (wire_step_bound ev h)

/-! ### handleOnePacket: a datagram is credited once -/

def isSent : Op → Bool
  | .sent _ => true
  | _ => false

theorem foldl_nosend_disciplined (calls : List Op) (s : St) (h : ∀ op ∈ calls, isSent op = false) :
    (calls.foldl St.step s).disciplined = s.disciplined := by
  induction calls generalizing s with
  | nil => rfl
  | cons op calls ih =>
    simp only [List.foldl_cons]
    rw [ih _ (fun o ho => h o (List.mem_cons_of_mem _ ho))]
    have := h op (List.mem_cons_self ..)
    cases op <;> simp_all [St.step, isSent]

theorem walkCalls_nosend (pkts : List Pkt) : ∀ op ∈ walkCalls pkts, isSent op = false := by
  induction pkts with
  | nil => simp [walkCalls]
  | cons p pkts ih =>
    cases p with
    | processed l =>
      intro op hop
      simp only [walkCalls, List.mem_cons] at hop
      rcases hop with rfl | hop
      · rfl
      · exact ih op hop
    | skipped => simpa [walkCalls] using ih
    | stop => simp [walkCalls]

theorem handleOnePacketCalls_nosend (size : Nat) (pkts : List Pkt) :
    ∀ op ∈ handleOnePacketCalls size pkts, isSent op = false := by
  intro op hop
  simp only [handleOnePacketCalls, List.mem_cons] at hop
  rcases hop with rfl | hop
  · rfl
  · exact walkCalls_nosend pkts op hop

/-- the walk over the coalesced packets never touches the byte counters -/
theorem walkCalls_counters (pkts : List Pkt) (h : H) :
    ((walkCalls pkts).foldl H.apply h).bytesReceived = h.bytesReceived ∧
    ((walkCalls pkts).foldl H.apply h).bytesSent = h.bytesSent := by
  induction pkts generalizing h with
  | nil => simp [walkCalls]
  | cons p pkts ih =>
    cases p with
    | processed l =>
      simp only [walkCalls, List.foldl_cons, H.apply]
      have := ih (h.receivedPacket l)
      have hc := receivedPacket_counts h l
      exact ⟨this.1.trans hc.2.1, this.2.trans hc.1⟩
    | skipped => simpa [walkCalls] using ih h
    | stop => simp [walkCalls]

/-- and contributes no arrival to the wire trace -/
theorem walkCalls_wire_no_inn (pkts : List Pkt) (h : H) :
    ∀ ev ∈ wireOfCalls h (walkCalls pkts), ev = WireEv.validate := by
  induction pkts generalizing h with
  | nil => simp [walkCalls, wireOfCalls]
  | cons p pkts ih =>
    cases p with
    | processed l =>
      intro ev hev
      simp only [walkCalls, wireOfCalls, List.mem_append] at hev
      rcases hev with hev | hev
      · simp only [opWire] at hev
        split at hev <;> simp_all
      · exact ih _ ev hev
    | skipped => simpa [walkCalls] using ih h
    | stop => simp [walkCalls, wireOfCalls]

/-! ### sending never changes the received-bytes counter -/

theorem sendPacketsConfirmed_bytesReceived (rest : List Env) : ∀ (pack : List Nat) (h : H),
    (sendPacketsConfirmed h pack rest).1.bytesReceived = h.bytesReceived := by
  induction rest with
  | nil =>
    intro pack h; unfold sendPacketsConfirmed
    by_cases hk : pack = [] <;> simp [hk]
  | cons e rest ih =>
    intro pack h
    unfold sendPacketsConfirmed
    by_cases hk : pack = []
    · simp [hk]
    · by_cases hm : (h.sentDatagram pack).sendMode e.wants = .any
      · simp [hk, hm, ih]
      · simp [hk, hm]

theorem triggerSending_bytesReceived (confirmed : Bool) (envs : List Env) : ∀ (h : H),
    (triggerSending confirmed h envs).1.bytesReceived = h.bytesReceived := by
  induction envs with
  | nil => intro h; simp [triggerSending]
  | cons e rest ih =>
    intro h
    unfold triggerSending
    by_cases hk : e.pack = []
    · cases hm : h.sendMode e.wants <;> simp [hk] <;>
        (by_cases hc : confirmed = true <;> simp [hc, sendPacketsConfirmed_bytesReceived])
    · cases hm : h.sendMode e.wants <;> simp [hk, ih]
      by_cases hc : confirmed = true
      · simp [hc, sendPacketsConfirmed_bytesReceived]
      · simp [hc]; cases rest <;> simp

/-! ### the loop's wire trace is the wire trace of its calls, unless it closes locally -/

structure LoopInv (pers : Persp) (cav : Bool) (L : LoopSt) : Prop where
  h : L.h = L.calls.foldl H.apply (H.new pers cav)
  disc : (run pers cav L.calls).disciplined = true

theorem loop_refines (pers : Persp) (cav : Bool) (lops : List LoopOp) :
    LoopInv pers cav (runLoop pers cav lops) := by
  unfold runLoop
  suffices ∀ (L : LoopSt), LoopInv pers cav L → LoopInv pers cav (lops.foldl LoopSt.step L) by
    exact this _ ⟨by simp, by simp [Uquic.Model.Amp.run, St.init]⟩
  induction lops with
  | nil => intro L h; exact h
  | cons op lops ih =>
    intro L inv
    apply ih
    have hrun : (run pers cav L.calls).h = L.h := by
      rw [inv.h]; unfold Uquic.Model.Amp.run; rw [foldl_h]; rfl
    cases op with
    | arrive n =>
      constructor
      · simp [LoopSt.step, List.foldl_append, ← inv.h, H.apply]
      · simp only [LoopSt.step]; rw [run_append]; simp [St.step, inv.disc]
    | processed l =>
      constructor
      · simp [LoopSt.step, List.foldl_append, ← inv.h, H.apply]
      · simp only [LoopSt.step]; rw [run_append]; simp [St.step, inv.disc]
    | trigger confirmed envs =>
      have r := triggerSending_refines confirmed envs (run pers cav L.calls)
      rw [hrun] at r
      constructor
      · simp only [LoopSt.step, List.foldl_append]
        rw [← inv.h, ← r.1, foldl_h, hrun]
      · simp only [LoopSt.step]; rw [run_append]; exact r.2 inv.disc
    | closeLocal size => exact ⟨inv.h, inv.disc⟩
    | datagram size pkts =>
      constructor
      · simp [LoopSt.step, List.foldl_append, ← inv.h]
      · simp only [LoopSt.step]; rw [run_append, foldl_nosend_disciplined _ _ (handleOnePacketCalls_nosend size pkts)]
        exact inv.disc

theorem loop_wire_no_close (pers : Persp) (cav : Bool) (lops : List LoopOp)
    (hc : ∀ op ∈ lops, op.isClose = false) :
    (runLoop pers cav lops).wire = wireOfCalls (H.new pers cav) (runLoop pers cav lops).calls := by
  unfold runLoop
  suffices ∀ (L : LoopSt), L.h = L.calls.foldl H.apply (H.new pers cav) →
      L.wire = wireOfCalls (H.new pers cav) L.calls →
      (lops.foldl LoopSt.step L).wire = wireOfCalls (H.new pers cav) (lops.foldl LoopSt.step L).calls ∧
      (lops.foldl LoopSt.step L).h = (lops.foldl LoopSt.step L).calls.foldl H.apply (H.new pers cav) by
    exact (this _ (by simp) (by simp [wireOfCalls])).1
  induction lops with
  | nil => intro L h w; exact ⟨w, h⟩
  | cons op lops ih =>
    intro L hh hw
    have hrest : ∀ op ∈ lops, op.isClose = false := fun o ho => hc o (List.mem_cons_of_mem _ ho)
    have hop := hc op (List.mem_cons_self ..)
    simp only [List.foldl_cons]
    cases op with
    | arrive n =>
      apply ih hrest
      · simp [LoopSt.step, List.foldl_append, ← hh, H.apply]
      · simp [LoopSt.step, wireOfCalls_append, ← hw, wireOfCalls, opWire]
    | processed l =>
      apply ih hrest
      · simp [LoopSt.step, List.foldl_append, ← hh, H.apply]
      · simp [LoopSt.step, wireOfCalls_append, ← hh, ← hw, wireOfCalls]
    | trigger confirmed envs =>
      have r := triggerSending_refines confirmed envs { h := L.h }
      apply ih hrest
      · simp only [LoopSt.step, List.foldl_append]
        rw [← hh, ← r.1, foldl_h]
      · simp [LoopSt.step, wireOfCalls_append, ← hh, ← hw]
    | closeLocal size => simp [LoopOp.isClose] at hop
    | datagram size pkts =>
      apply ih hrest
      · simp [LoopSt.step, List.foldl_append, ← hh]
      · simp [LoopSt.step, wireOfCalls_append, ← hh, ← hw]

end Uquic.Proofs.Amp
