/-
Helper lemmas for Uquic.Props.C14Glue: the heap invariant of `Model.RetryGlue.run .fresh`.
-/
import Uquic.Model.Amp.RetryGlue

namespace Uquic.Proofs.RetryGlue

open Uquic.Model.Tok Uquic.Model.Amp Uquic.Model.RetryGlue

/-- a connection as seen through a heap: (odcid, retry source connection ID at use, validated flag) -/
def view (heap : List Token) (c : Conn) : Bytes × Option Bytes × Bool :=
  (c.odcid, c.rscidRef.bind (fun a => (heap[a]?).map (·.rscid)), c.av)

theorem paramsAtUse_view (s : Srv) (c : Conn) : paramsAtUse s c = ((view s.heap c).1, (view s.heap c).2.1) := rfl

/-- the retry source connection ID the pure decision derives from a decoded token -/
def retrySrcOf : Decoded → Option Bytes
  | .ok tok => if tok.isRetryToken then some tok.rscid else none
  | _ => none

theorem proceed_retrySrc (cfg : Cfg) (p : IPkt) (av : Bool) (o : Bytes) (r : Option Bytes) (rtt : Int)
    (h : decide1 cfg p = .proceed av o r rtt) : r = retrySrcOf (decOf cfg p) := by
  unfold decide1 handleInitial at h
  unfold decOf
  cases hdec : (if p.hdrToken.length > 0 then decodeToken cfg.E cfg.C cfg.secret p.hdrToken else .absent) with
  | ok tok =>
    rw [hdec] at h
    simp only [] at h
    unfold retrySrcOf
    split at h
    · cases h; rfl
    · split at h
      · cases h
      · split at h
        · cases h
        · cases h; rename_i hnr _; simp [hnr]
  | panic => rw [hdec] at h; cases h
  | absent => rw [hdec] at h; simp only [] at h; split at h <;> cases h; rfl
  | err => rw [hdec] at h; simp only [] at h; split at h <;> cases h; rfl

/-- `DecodeToken` with a fresh object per call: the heap only grows, the returned pointer is valid and reads the
    token just decoded -/
theorem fresh_step (heap : List Token) (d : Decoded) :
    (∃ l, (decodeStep .fresh heap d).1 = heap ++ l) ∧
    (∀ a, (decodeStep .fresh heap d).2 = some a → a < (decodeStep .fresh heap d).1.length) ∧
    (decodeStep .fresh heap d).2.bind (fun a => ((decodeStep .fresh heap d).1[a]?).map (·.rscid)) = retrySrcOf d := by
  cases d with
  | ok tok =>
    simp only [decodeStep, place, retrySrcOf]
    refine ⟨⟨[tok], rfl⟩, ?_, ?_⟩
    · intro a ha
      split at ha
      · cases ha; simp
      · cases ha
    · cases tok.isRetryToken <;> simp
  | absent => exact ⟨⟨[], by simp [decodeStep]⟩, by simp [decodeStep], by simp [decodeStep, retrySrcOf]⟩
  | err => exact ⟨⟨[], by simp [decodeStep]⟩, by simp [decodeStep], by simp [decodeStep, retrySrcOf]⟩
  | panic => exact ⟨⟨[], by simp [decodeStep]⟩, by simp [decodeStep], by simp [decodeStep, retrySrcOf]⟩

structure Inv (cfg : Cfg) (s : Srv) (pkts : List IPkt) : Prop where
  views : s.conns.map (view s.heap) = pureConns cfg pkts
  refs : ∀ c ∈ s.conns, ∀ a, c.rscidRef = some a → a < s.heap.length
  handlers : ∀ c ∈ s.conns, c.h = H.new .server c.av

theorem view_append (heap l : List Token) (c : Conn)
    (h : ∀ a, c.rscidRef = some a → a < heap.length) : view (heap ++ l) c = view heap c := by
  unfold view
  cases hr : c.rscidRef with
  | none => rfl
  | some a =>
    have := h a hr
    simp [List.getElem?_append_left this]

theorem views_append (heap l : List Token) (cs : List Conn)
    (h : ∀ c ∈ cs, ∀ a, c.rscidRef = some a → a < heap.length) :
    cs.map (view (heap ++ l)) = cs.map (view heap) := by
  apply List.map_congr_left
  intro c hc
  exact view_append heap l c (h c hc)

theorem pureConns_snoc (cfg : Cfg) (pkts : List IPkt) (p : IPkt) :
    pureConns cfg (pkts ++ [p]) = pureConns cfg pkts ++ (pureConn (decide1 cfg p)).toList := by
  unfold pureConns
  rw [List.filterMap_append]
  congr 1

theorem inv_init (cfg : Cfg) : Inv cfg {} [] :=
  ⟨rfl, by intro c hc; simp at hc, by intro c hc; simp at hc⟩

theorem inv_step (cfg : Cfg) (s : Srv) (pkts : List IPkt) (p : IPkt) (inv : Inv cfg s pkts) :
    Inv cfg (s.initial .fresh cfg p) (pkts ++ [p]) := by
  obtain ⟨⟨l, hl⟩, href, hread⟩ := fresh_step s.heap (decOf cfg p)
  have hgrow : ∀ c ∈ s.conns, ∀ a, c.rscidRef = some a → a < (decodeStep .fresh s.heap (decOf cfg p)).1.length := by
    intro c hc a ha
    have := inv.refs c hc a ha
    rw [hl, List.length_append]; omega
  have hviews : s.conns.map (view (decodeStep .fresh s.heap (decOf cfg p)).1) = pureConns cfg pkts := by
    rw [hl, views_append _ _ _ inv.refs, inv.views]
  unfold Srv.initial
  cases hdec : decide1 cfg p with
  | proceed av o r rtt =>
    have hr := proceed_retrySrc cfg p av o r rtt hdec
    refine ⟨?_, ?_, ?_⟩
    · rw [pureConns_snoc, hdec]
      simp only [List.map_append, List.map_cons, List.map_nil, pureConn, Option.toList]
      rw [hviews]
      congr 1
      unfold view newConnection
      simp only []
      rw [hread, hr]
    · intro c hc a ha
      simp only [List.mem_append, List.mem_singleton] at hc
      rcases hc with hc | hc
      · exact hgrow c hc a ha
      · subst hc; exact href a ha
    · intro c hc
      simp only [List.mem_append, List.mem_singleton] at hc
      rcases hc with hc | hc
      · exact inv.handlers c hc
      · subst hc; rfl
  | invalidToken =>
    exact ⟨by rw [pureConns_snoc, hdec]; simpa [pureConn] using hviews, hgrow, inv.handlers⟩
  | retry =>
    exact ⟨by rw [pureConns_snoc, hdec]; simpa [pureConn] using hviews, hgrow, inv.handlers⟩
  | panic =>
    exact ⟨by rw [pureConns_snoc, hdec]; simpa [pureConn] using hviews, hgrow, inv.handlers⟩

theorem inv_run_from (cfg : Cfg) (more : List IPkt) : ∀ (s : Srv) (pkts : List IPkt), Inv cfg s pkts →
    Inv cfg (more.foldl (Srv.initial .fresh cfg) s) (pkts ++ more) := by
  induction more with
  | nil => intro s pkts h; simpa using h
  | cons p more ih =>
    intro s pkts h
    have := ih (s.initial .fresh cfg p) (pkts ++ [p]) (inv_step cfg s pkts p h)
    simpa [List.append_assoc] using this

theorem inv_run (cfg : Cfg) (pkts : List IPkt) : Inv cfg (Uquic.Model.RetryGlue.run .fresh cfg pkts) pkts := by
  have := inv_run_from cfg pkts {} [] (inv_init cfg)
  simpa [Uquic.Model.RetryGlue.run] using this

end Uquic.Proofs.RetryGlue
