/-
Helper lemmas for C13: connection-ID authentication, handshake deadline, 0-RTT rejection.
-/
import Uquic.Model.Handshake.Auth
import Uquic.Model.Handshake.Deadline
import Uquic.Model.Handshake.ZeroRTT

namespace Uquic.Proofs.Gate
open Uquic.Model.Handshake

/-! ### deadline -/

theorem lower_le (d t : Int) : lower d t ≤ d := by
  unfold lower; split <;> omega

theorem maybeResetTimer_le (c : Clock) (a : Alarms) (b : Blocked) : maybeResetTimer c a b ≤ c.handshakeDeadline := by
  unfold maybeResetTimer
  simp only
  split
  · exact Int.le_refl _
  · split
    · exact Int.le_trans (lower_le _ _) (lower_le _ _)
    · exact Int.le_trans (lower_le _ _) (Int.le_trans (lower_le _ _) (lower_le _ _))

theorem handshakeDeadline_le (c : Clock) :
    c.handshakeDeadline ≤ c.creationTime + c.handshakeTimeout ∧
    c.handshakeDeadline ≤ c.idleStart + c.handshakeIdleTimeout := by
  unfold Clock.handshakeDeadline
  simp only
  split <;> omega

theorem handshakeDeadline_eq (c : Clock) :
    c.handshakeDeadline = c.creationTime + c.handshakeTimeout ∨
    c.handshakeDeadline = c.idleStart + c.handshakeIdleTimeout := by
  unfold Clock.handshakeDeadline
  simp only
  split <;> simp

/-! ### 0-RTT rejection -/

open ZeroRTT in
/-- bytes in flight accounted to 0-RTT packets at the front of the history -/
def zeroRTTInFlight : List ZeroRTT.Packet → Nat
  | [] => 0
  | p :: rest => if p.level ≠ .zeroRTT then 0
                 else (if p.includedInBytesInFlight then p.length else 0) + zeroRTTInFlight rest

open ZeroRTT in
/-- all 0-RTT packets precede all 1-RTT packets (packet numbers grow, 0-RTT is only sent before the
1-RTT keys exist) -/
def zeroRTTFirst : List ZeroRTT.Packet → Prop
  | [] => True
  | p :: rest => if p.level = .zeroRTT then zeroRTTFirst rest else ∀ q ∈ rest, q.level ≠ .zeroRTT

open ZeroRTT in
theorem dropLoop_spec : ∀ (h : List Packet) (inFl : Nat), zeroRTTInFlight h ≤ inFl → zeroRTTFirst h →
    ∃ h', dropLoop h inFl = some (h', inFl - zeroRTTInFlight h) ∧
      (∀ q ∈ h', q.level ≠ .zeroRTT) ∧ h' = h.filter (fun q => q.level ≠ .zeroRTT) := by
  intro h
  induction h with
  | nil => intro inFl _ _; exact ⟨[], by simp [dropLoop, zeroRTTInFlight], by simp, by simp⟩
  | cons p rest ih =>
    intro inFl hle hfirst
    by_cases hl : p.level = .zeroRTT
    · simp only [zeroRTTInFlight, hl, ne_eq, not_true_eq_false, ite_false] at hle
      simp only [zeroRTTFirst, hl, ite_true] at hfirst
      unfold dropLoop
      simp only [hl, ne_eq, not_true_eq_false, ite_false]
      by_cases hin : p.includedInBytesInFlight = true
      · simp only [hin, ite_true] at hle
        have hnot : ¬ p.length > inFl := by omega
        simp only [removeFromBytesInFlight, hin, ite_true, hnot, ite_false]
        obtain ⟨h', e1, e2, e3⟩ := ih (inFl - p.length) (by omega) hfirst
        refine ⟨h', ?_, e2, ?_⟩
        · rw [e1]; simp only [zeroRTTInFlight, hl, ne_eq, not_true_eq_false, ite_false, hin, ite_true]
          congr 2; omega
        · rw [e3]; simp [List.filter_cons, hl]
      · have hin' : p.includedInBytesInFlight = false := by simpa using hin
        simp only [hin', Bool.false_eq_true, ite_false, Nat.zero_add] at hle
        simp only [removeFromBytesInFlight, hin', Bool.false_eq_true, ite_false]
        obtain ⟨h', e1, e2, e3⟩ := ih inFl hle hfirst
        refine ⟨h', ?_, e2, ?_⟩
        · rw [e1]; simp [zeroRTTInFlight, hl, hin']
        · rw [e3]; simp [List.filter_cons, hl]
    · simp only [zeroRTTFirst, hl, ite_false] at hfirst
      refine ⟨p :: rest, ?_, ?_, ?_⟩
      · unfold dropLoop; simp [hl, zeroRTTInFlight]
      · intro q hq
        simp only [List.mem_cons] at hq
        rcases hq with rfl | hq
        · exact hl
        · exact hfirst q hq
      · have : rest.filter (fun q => decide (q.level ≠ .zeroRTT)) = rest := by
          rw [List.filter_eq_self]; intro q hq; simpa using hfirst q hq
        simp only [List.filter_cons, ne_eq, hl, not_false_eq_true, decide_true, ite_true]
        rw [this]

end Uquic.Proofs.Gate
