/-
Helper lemmas for C20: when the window shrinks, when it grows, and the "once per window" trace lemma.
-/
import Uquic.Model.Cong.Sender
import Uquic.Proofs.CongInv

namespace Uquic.Proofs.Cong

open Uquic.Model.Cong

/-- the window after one operation, operation by operation -/
theorem step_shrink (s : Sender) (op : Op) (h : (s.step op).1.cwnd < s.cwnd) :
    ∃ pn b p, op = .lost pn b p ∧ s.lastCutback < pn ∧
      (s.step op).1.cwnd = Max.max (renoCut s.cwnd) (s.mds * minCwndPackets) ∧
      (s.step op).1.lastCutback = s.largestSent := by
  cases op with
  | sent t pn b r =>
    have := (onPacketSent_cwnd s t pn b r).1
    simp only [Sender.step] at h; omega
  | acked pn b prior t =>
    have := onPacketAcked_spec s pn prior
    simp only [] at this
    obtain ⟨_, _, hw⟩ := this
    simp only [Sender.step] at h
    rcases hw with hw | ⟨hw, _⟩ <;> omega
  | lost pn b prior =>
    have := onCongestionEvent_spec s pn
    simp only [] at this
    obtain ⟨_, hw⟩ := this
    simp only [Sender.step] at h ⊢
    rcases hw with ⟨_, _, he⟩ | ⟨hlt, _, hc, hw, _⟩
    · rw [he] at h; omega
    · exact ⟨pn, b, prior, rfl, hlt, hw, hc⟩
  | exitSS =>
    have := (maybeExitSlowStart_cwnd s).1
    simp only [Sender.step] at h; omega
  | setMDS m =>
    have := setMaxDatagramSize_spec s m
    simp only [] at this
    obtain ⟨_, hw⟩ := this
    simp only [Sender.step] at h
    rcases hw with ⟨_, _, he⟩ | ⟨_, _, _, hw⟩
    · rw [he] at h; omega
    · omega
  | rtt r => simp only [Sender.step] at h; omega
  | idle => simp only [Sender.step] at h; omega

/-- an operation that is not the loss of a packet numbered above the last cut-back mark
neither shrinks the window nor moves the mark -/
theorem step_old_loss (s : Sender) (op : Op) (h : ∀ pn b p, op = Op.lost pn b p → pn ≤ s.lastCutback) :
    s.cwnd ≤ (s.step op).1.cwnd ∧ (s.step op).1.lastCutback = s.lastCutback := by
  cases op with
  | sent t pn b r =>
    obtain ⟨h1, _, h3⟩ := onPacketSent_cwnd s t pn b r
    simp only [Sender.step]; omega
  | acked pn b prior t =>
    have := onPacketAcked_spec s pn prior
    simp only [] at this
    obtain ⟨_, hc, hw⟩ := this
    simp only [Sender.step]
    rcases hw with hw | ⟨hw, _⟩ <;> omega
  | lost pn b prior =>
    have := onCongestionEvent_spec s pn
    simp only [] at this
    obtain ⟨_, hw⟩ := this
    have hle := h pn b prior rfl
    simp only [Sender.step]
    rcases hw with ⟨_, _, he⟩ | ⟨hlt, _⟩
    · rw [he]; omega
    · omega
  | exitSS =>
    obtain ⟨h1, _, h3⟩ := maybeExitSlowStart_cwnd s
    simp only [Sender.step]; omega
  | setMDS m =>
    have := setMaxDatagramSize_spec s m
    simp only [] at this
    obtain ⟨hc, hw⟩ := this
    simp only [Sender.step]
    rcases hw with ⟨_, _, he⟩ | ⟨_, _, _, hw⟩
    · rw [he]; omega
    · omega
  | rtt r => exact ⟨Nat.le_refl _, rfl⟩
  | idle => exact ⟨Nat.le_refl _, rfl⟩

theorem run_old_loss (ops : List Op) : ∀ (s : Sender),
    (∀ op ∈ ops, ∀ pn b p, op = Op.lost pn b p → pn ≤ s.lastCutback) →
    s.cwnd ≤ (s.run ops).cwnd ∧ (s.run ops).lastCutback = s.lastCutback := by
  induction ops with
  | nil => intro s _; simp [Sender.run]
  | cons op ops ih =>
    intro s h
    obtain ⟨h1, h2⟩ := step_old_loss s op (h op (List.mem_cons_self ..))
    have := ih (s.step op).1 (by
      intro o ho pn b p e
      rw [h2]; exact h o (List.mem_cons_of_mem _ ho) pn b p e)
    simp only [Sender.run, List.foldl_cons] at this ⊢
    omega

theorem max_cut_not_gt (w' c w f : Nat) (hw : w' = Max.max c f) (hc : c ≤ w) (hf : f ≤ w) : ¬ w < w' := by
  omega

/-- the window grows only on an acknowledgement (outside recovery, window-limited, below the
maximum, by exactly one datagram size) or when SetMaxDatagramSize lifts it to the new minimum -/
theorem step_grow (s : Sender) (op : Op) (hlo : s.mds * minCwndPackets ≤ s.cwnd) (h : s.cwnd < (s.step op).1.cwnd) :
    (∃ pn b prior t, op = .acked pn b prior t ∧
        ({ s with largestAcked := Max.max pn s.largestAcked } : Sender).inRecovery = false ∧
        s.isCwndLimited prior = true ∧ s.cwnd < s.maxCwnd ∧ (s.step op).1.cwnd = s.cwnd + s.mds) ∨
    (∃ m, op = .setMDS m ∧ s.mds ≤ m ∧ s.cwnd < m * minCwndPackets ∧ (s.step op).1.cwnd = m * minCwndPackets) := by
  cases op with
  | sent t pn b r =>
    have := (onPacketSent_cwnd s t pn b r).1
    simp only [Sender.step] at h; omega
  | acked pn b prior t =>
    have := onPacketAcked_spec s pn prior
    simp only [] at this
    obtain ⟨_, _, hw⟩ := this
    simp only [Sender.step] at h ⊢
    rcases hw with hw | ⟨hw, hr, hl, hx⟩
    · omega
    · exact Or.inl ⟨pn, b, prior, t, rfl, hr, hl, hx, hw⟩
  | lost pn b prior =>
    have := onCongestionEvent_spec s pn
    simp only [] at this
    obtain ⟨_, hw⟩ := this
    simp only [Sender.step] at h
    rcases hw with ⟨_, _, he⟩ | ⟨_, _, _, hw, _⟩
    · rw [he] at h; omega
    · exact absurd h (max_cut_not_gt _ _ _ _ hw (renoCut_le _) hlo)
  | exitSS =>
    have := (maybeExitSlowStart_cwnd s).1
    simp only [Sender.step] at h; omega
  | setMDS m =>
    have := setMaxDatagramSize_spec s m
    simp only [] at this
    obtain ⟨_, hw⟩ := this
    simp only [Sender.step] at h ⊢
    rcases hw with ⟨_, _, he⟩ | ⟨hle, _, _, hw⟩
    · rw [he] at h; omega
    · refine Or.inr ⟨m, rfl, hle, ?_, ?_⟩ <;> omega
  | rtt r => simp only [Sender.step] at h; omega
  | idle => simp only [Sender.step] at h; omega

end Uquic.Proofs.Cong
