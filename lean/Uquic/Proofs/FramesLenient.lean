/-
C09 helper lemmas: on a payload that IS a sequence of Initial-legal frames (strict reader), the
clienthellod reader used by validateInitialFlight — if it succeeds at all — reports exactly the
CRYPTO frames the strict reader sees.
-/
import Uquic.Proofs.FramesCarries

namespace Uquic.Proofs.Frames
open Uquic.Spec.Framing Uquic.Model.UQuic.Frames

theorem chVLI_of_readVarint {r r' : List UInt8} {v : Nat} (h : readVarint r = some (v, r')) :
    chVLI none r = some (v, r') := by
  cases r with
  | nil => simp [readVarint] at h
  | cons b rest =>
    have hb := UInt8.toNat_lt b
    simp only [readVarint] at h
    simp only [chVLI]
    split at h
    · rename_i h1
      obtain ⟨rfl, rfl⟩ := Prod.mk.inj (Option.some.inj h)
      simp [h1] <;> omega
    · rename_i h1
      split at h
      · rename_i h2
        split at h
        · rename_i b1 r0
          obtain ⟨rfl, rfl⟩ := Prod.mk.inj (Option.some.inj h)
          simp [h1, h2] <;> omega
        · simp at h
      · rename_i h2
        split at h
        · rename_i h3
          split at h
          · rename_i b1 b2 b3 r0
            obtain ⟨rfl, rfl⟩ := Prod.mk.inj (Option.some.inj h)
            simp [h1, h2, h3] <;> omega
          · simp at h
        · rename_i h3
          split at h
          · rename_i b1 b2 b3 b4 b5 b6 b7 r0
            obtain ⟨rfl, rfl⟩ := Prod.mk.inj (Option.some.inj h)
            simp [h1, h2, h3] <;> omega
          · simp at h

/-- the frames behind a run of PADDING have the same CRYPTO frames -/
theorem readFrames_dropZeros : ∀ (r : List UInt8) (fs : List Frame), readFrames r = some fs →
    ∃ fs', readFrames (r.dropWhile (· == 0)) = some fs' ∧ cryptoOf fs' = cryptoOf fs := by
  intro r
  induction r with
  | nil => intro fs h; exact ⟨fs, by simpa using h, rfl⟩
  | cons b r ih =>
    intro fs h
    by_cases hb : b = 0
    · subst hb
      rw [readFrames_padding] at h
      cases hr : readFrames r with
      | none => rw [hr] at h; simp at h
      | some fs0 =>
        rw [hr] at h
        obtain rfl : Frame.padding :: fs0 = fs := by simpa using h
        obtain ⟨fs', h1, h2⟩ := ih fs0 hr
        exact ⟨fs', by simpa [List.dropWhile] using h1, by simpa [cryptoOf] using h2⟩
    · refine ⟨fs, ?_, rfl⟩
      have : (b == 0) = false := by simpa using hb
      simp [List.dropWhile, this, h]

theorem dropWhile_head_ne {r : List UInt8} {b : UInt8} {r' : List UInt8}
    (h : r.dropWhile (· == 0) = b :: r') : b ≠ 0 := by
  induction r with
  | nil => simp at h
  | cons x xs ih =>
    by_cases hx : x = 0
    · subst hx; simp [List.dropWhile] at h; exact ih h
    · have : (x == 0) = false := by simpa using hx
      simp [List.dropWhile, this] at h
      rw [← h.1]; exact hx

theorem dropWhile_length_le (r : List UInt8) : (r.dropWhile (· == 0)).length ≤ r.length := by
  induction r with
  | nil => simp
  | cons x xs ih => simp only [List.dropWhile]; split <;> simp <;> omega

def asLenient (cs : List (Nat × List UInt8)) : List (Nat × Nat × List UInt8) :=
  cs.map fun c => (c.1, c.2.length, c.2)

/-- logical input of the clienthellod reader: the rewind byte, then the rest -/
def logical (pending : Option UInt8) (rest : List UInt8) : List UInt8 :=
  match pending with
  | some b => b :: rest
  | none => rest

theorem chFrames_strict : ∀ (fuel : Nat) (pending : Option UInt8) (rest : List UInt8)
    (acc out : List (Nat × Nat × List UInt8)) (fs : List Frame),
    (logical pending rest).length < fuel →
    (∀ b, pending = some b → b ≠ 0) →
    readFrames (logical pending rest) = some fs →
    chFrames fuel pending rest acc = .ok out →
    out = acc ++ asLenient (cryptoOf fs) := by
  intro fuel
  induction fuel with
  | zero => intro pending rest acc out fs hlen; omega
  | succ fuel ih =>
    intro pending rest acc out fs hlen hpend hstrict hch
    simp only [chFrames] at hch
    -- what the type read sees
    cases hI : logical pending rest with
    | nil =>
      -- empty input
      rw [hI] at hstrict
      rw [readFrames_nil] at hstrict
      obtain rfl := Option.some.inj hstrict
      have : chVLI pending rest = none := by
        cases pending with
        | some b => simp [logical] at hI
        | none => simp only [logical] at hI; subst hI; simp [chVLI]
      rw [this] at hch
      simp only [] at hch
      obtain rfl := ChRes.ok.inj hch
      simp [asLenient, cryptoOf]
    | cons t r =>
      rw [hI] at hstrict hlen
      -- the strict reader accepts only one-byte types 0, 1, 6
      have ht : t = 0 ∨ t = 1 ∨ t = 6 := by
        rw [readFrames] at hstrict
        by_cases h0 : t = 0
        · exact Or.inl h0
        · by_cases h1 : t = 1
          · exact Or.inr (Or.inl h1)
          · by_cases h6 : t = 6
            · exact Or.inr (Or.inr h6)
            · simp [h0, h1, h6] at hstrict
      by_cases hdrop : ∃ b, pending = some b ∧ rest = []
      · -- the last byte of the payload, served from the rewind buffer: silently dropped
        obtain ⟨b, rfl, rfl⟩ := hdrop
        simp only [logical] at hI
        obtain ⟨rfl, rfl⟩ := List.cons.inj hI
        have : chVLI (some b) [] = none := by simp [chVLI]
        rw [this] at hch
        simp only [] at hch
        obtain rfl := ChRes.ok.inj hch
        rcases ht with rfl | rfl | rfl
        · exact absurd rfl (hpend 0 rfl)
        · rw [readFrames_ping, readFrames_nil] at hstrict
          obtain rfl := Option.some.inj hstrict
          simp [asLenient, cryptoOf]
        · rw [readFrames] at hstrict
          simp [readVarint] at hstrict
      · have hv : chVLI pending rest = some (t.toNat, r) := by
          have ht64 : t.toNat < 64 := by rcases ht with rfl | rfl | rfl <;> decide
          cases pending with
          | some b =>
            simp only [logical] at hI
            obtain ⟨rfl, rfl⟩ := List.cons.inj hI
            have : rest ≠ [] := fun h => hdrop ⟨b, rfl, h⟩
            have hne : rest.isEmpty = false := by cases rest <;> simp_all
            simp [chVLI, hne, ht64] <;> omega
          | none =>
            simp only [logical] at hI; subst hI
            simp [chVLI, ht64] <;> omega
        rw [hv] at hch
        simp only [] at hch
        rcases ht with rfl | rfl | rfl
        · -- PADDING
          simp only [show (0 : UInt8).toNat = 0 from rfl, if_true] at hch
          rw [readFrames_padding] at hstrict
          cases hr : readFrames r with
          | none => rw [hr] at hstrict; simp at hstrict
          | some fs0 =>
            rw [hr] at hstrict
            obtain rfl : Frame.padding :: fs0 = fs := by simpa using hstrict
            obtain ⟨fs', h1, h2⟩ := readFrames_dropZeros r fs0 hr
            cases hd : r.dropWhile (· == 0) with
            | nil =>
              rw [hd] at hch h1
              simp only [] at hch
              obtain rfl := ChRes.ok.inj hch
              rw [readFrames_nil] at h1
              obtain rfl := Option.some.inj h1
              simp only [cryptoOf]
              rw [← h2]; simp [asLenient, cryptoOf]
            | cons b r' =>
              rw [hd] at hch h1
              simp only [] at hch
              have hlen' : (logical (some b) r').length < fuel := by
                have := dropWhile_length_le r
                rw [hd] at this
                simp only [logical, List.length_cons] at this hlen ⊢
                omega
              have := ih (some b) r' acc out fs' hlen'
                (fun b' hb' => by obtain rfl := Option.some.inj hb'; exact dropWhile_head_ne hd)
                (by simpa [logical] using h1) hch
              rw [this, h2]; simp [cryptoOf]
        · -- PING
          simp only [show (1 : UInt8).toNat = 1 from rfl, if_true] at hch
          rw [readFrames_ping] at hstrict
          cases hr : readFrames r with
          | none => rw [hr] at hstrict; simp at hstrict
          | some fs0 =>
            rw [hr] at hstrict
            obtain rfl : Frame.ping :: fs0 = fs := by simpa using hstrict
            have := ih none r acc out fs0 (by simp only [logical, List.length_cons] at hlen ⊢; omega)
              (fun b hb => by simp at hb) (by simpa [logical] using hr) hch
            rw [this]; simp [cryptoOf]
        · -- CRYPTO
          simp only [show (6 : UInt8).toNat = 6 from rfl, show ¬ ((6 : Nat) = 0) by decide, show ¬ ((6 : Nat) = 1) by decide,
            if_false, if_true] at hch
          rw [readFrames] at hstrict
          simp only [show ¬ ((6 : UInt8) = 0) by decide, show ¬ ((6 : UInt8) = 1) by decide, if_false, if_true] at hstrict
          split at hstrict
          · simp at hstrict
          · rename_i off r1 hv1
            split at hstrict
            · simp at hstrict
            · rename_i len r2 hv2
              split at hstrict
              · rename_i hle
                rw [chVLI_of_readVarint hv1] at hch
                simp only [] at hch
                rw [chVLI_of_readVarint hv2] at hch
                simp only [] at hch
                split at hch
                · simp at hch
                · split at hch
                  · simp at hch
                  · cases hr : readFrames (r2.drop len) with
                    | none => rw [hr] at hstrict; simp at hstrict
                    | some fs0 =>
                      rw [hr] at hstrict
                      obtain rfl : Frame.crypto off (r2.take len) :: fs0 = fs := by simpa using hstrict
                      have hl1 := readVarint_length hv1
                      have hl2 := readVarint_length hv2
                      have := ih none (r2.drop len) _ out fs0
                        (by simp only [logical, List.length_cons, List.length_drop] at hlen ⊢; omega)
                        (fun b hb => by simp at hb) (by simpa [logical] using hr) hch
                      rw [this]
                      have hlt : (List.take len r2).length = len := by simp; omega
                      simp [cryptoOf, asLenient, hlt]
              · simp at hstrict

theorem chReadAll_strict {p : List UInt8} {fs : List Frame} {out : List (Nat × Nat × List UInt8)}
    (hs : readFrames p = some fs) (hc : chReadAll p = .ok out) : out = asLenient (cryptoOf fs) := by
  have := chFrames_strict (p.length + 2) none p [] out fs (by simp [logical]) (by simp) (by simpa [logical] using hs) hc
  simpa using this

end Uquic.Proofs.Frames
