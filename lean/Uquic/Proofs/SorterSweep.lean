/-
C03: which frames the sweep between startGap and endGap removes.
-/
import Uquic.Proofs.SorterInv

namespace Uquic.Proofs.Sorter
open Uquic.Model.Reassembly

/-- `mid` are the gaps strictly between startGap and endGap, `c` is `endGap.Start`.  If between and
behind the gaps of `mid` (up to `c`) everything is covered by frames, the sweep removes exactly the
frames that start at or behind the end of the first gap of `mid` and before `c`. -/
theorem sweepMid_mem (mid : List Gap) (c : Nat) (q : Queue) (hq : QInv q)
    (hwf : GapsWF mid) (hc : ∀ g ∈ mid, g.2 < c)
    (hcov : ∀ p, (∃ g ∈ mid, g.2 ≤ p) → p < c → ¬ inGap mid p → inEntry q p)
    (hexcl : ∀ p, inGap mid p → ¬ inEntry q p)
    (hcout : ¬ inEntry q c) :
    ∀ x, x ∈ (sweepMid mid q).1 ↔ (x ∈ q ∧ ¬((∃ g ∈ mid, g.2 ≤ x.1) ∧ x.1 < c)) := by
  induction mid generalizing q with
  | nil => intro x; simp [sweepMid]
  | cons g gs ih =>
    intro x
    simp only [sweepMid]
    have hgpos : g.1 < g.2 := hwf.pos g (by simp)
    have hggs : ∀ y ∈ gs, g.2 < y.1 := hwf.head_lt
    have hwgs : GapsWF gs := hwf.tail
    -- the position where the covered run behind `g` ends
    let nxt : Nat := match gs with
      | [] => c
      | g' :: _ => g'.1
    have hnxt_le : nxt ≤ c := by
      cases gs with
      | nil => exact Nat.le_refl _
      | cons g' gs' =>
        have h1 := hc g' (by simp)
        have h2 := hwf.pos g' (by simp)
        show g'.1 ≤ c
        omega
    have hg_nxt : g.2 ≤ nxt := by
      cases gs with
      | nil => exact Nat.le_of_lt (hc g (by simp))
      | cons g' gs' => exact Nat.le_of_lt (hggs g' (by simp))
    have hnxt_out : ¬ inEntry q nxt := by
      cases gs with
      | nil => exact hcout
      | cons g' gs' =>
        apply hexcl
        have h2 := hwf.pos g' (by simp)
        exact ⟨g', by simp, Nat.le_refl _, h2⟩
    have hnxt_gs : ∀ y ∈ gs, nxt ≤ y.1 := by
      cases gs with
      | nil => simp
      | cons g' gs' =>
        intro y hy
        rcases List.mem_cons.mp hy with hy | hy
        · subst hy; exact Nat.le_refl _
        · have h1 := hwgs.head_lt y hy
          have h2 := hwf.pos g' (by simp)
          show g'.1 ≤ y.1
          omega
    have hbnd : Boundary q g.2 := by
      intro y hy ⟨h1, h2⟩
      exact hexcl (g.2 - 1) ⟨g, by simp, by omega, by omega⟩ ⟨y, hy, by omega, by omega⟩
    have hrun : Run q g.2 nxt := by
      intro p hp1 hp2
      apply hcov p ⟨g, by simp, hp1⟩ (by omega)
      rintro ⟨y, hy, h1, h2⟩
      rcases List.mem_cons.mp hy with hy | hy
      · subst hy; omega
      · have := hnxt_gs y hy; omega
    have hdel := deleteConsecutive_run (q.length + 1) q g.2 nxt hq (Nat.lt_succ_self _) hg_nxt hbnd hrun hnxt_out
    have hsub : (deleteConsecutive (q.length + 1) q g.2).1.Sublist q :=
      (deleteConsecutive_conserve (q.length + 1) q hq.nodup g.2).2.2
    have hq' : QInv (deleteConsecutive (q.length + 1) q g.2).1 := hq.sublist hsub
    have hcov' : ∀ p, (∃ y ∈ gs, y.2 ≤ p) → p < c → ¬ inGap gs p →
        inEntry (deleteConsecutive (q.length + 1) q g.2).1 p := by
      intro p ⟨y, hy, hyp⟩ hpc hng
      have hypos := hwf.pos y (List.mem_cons_of_mem _ hy)
      have hgy := hggs y hy
      have hny := hnxt_gs y hy
      obtain ⟨z, hz, hz1, hz2⟩ := hcov p ⟨y, List.mem_cons_of_mem _ hy, hyp⟩ hpc (by
        rw [inGap_cons]
        rintro (h | h)
        · omega
        · exact hng h)
      refine ⟨z, (hdel z).mpr ⟨hz, ?_⟩, hz1, hz2⟩
      rintro ⟨h1, h2⟩
      exact hnxt_out ⟨z, hz, by omega, by omega⟩
    have hexcl' : ∀ p, inGap gs p → ¬ inEntry (deleteConsecutive (q.length + 1) q g.2).1 p := by
      intro p hp hc'
      exact hexcl p (by rw [inGap_cons]; exact Or.inr hp) (hc'.sublist hsub)
    have hcout' : ¬ inEntry (deleteConsecutive (q.length + 1) q g.2).1 c := fun h => hcout (h.sublist hsub)
    rw [ih _ hq' hwgs (fun y hy => hc y (List.mem_cons_of_mem _ hy)) hcov' hexcl' hcout' x, hdel x]
    -- keys of `q` are not inside the gaps of `mid`
    have hkey : x ∈ q → ∀ y ∈ g :: gs, ¬(y.1 ≤ x.1 ∧ x.1 < y.2) := by
      intro hx y hy ⟨h1, h2⟩
      have hp := hq.pos x hx
      exact hexcl x.1 ⟨y, hy, h1, h2⟩ ⟨x, hx, Nat.le_refl _, by omega⟩
    constructor
    · rintro ⟨⟨hx, h1⟩, h2⟩
      refine ⟨hx, ?_⟩
      rintro ⟨⟨y, hy, hyx⟩, hxc⟩
      have hgx : g.2 ≤ x.1 := by
        rcases List.mem_cons.mp hy with hy | hy
        · subst hy; exact hyx
        · have := hggs y hy
          have := hwf.pos y (List.mem_cons_of_mem _ hy)
          omega
      by_cases hxn : x.1 < nxt
      · exact h1 ⟨hgx, hxn⟩
      · -- x.1 ≥ nxt: then gs is non-empty and x.1 lies behind its first gap
        cases gs with
        | nil => exact hxn hxc
        | cons g' gs' =>
          have hk := hkey hx g' (by simp)
          have hxn' : ¬ x.1 < g'.1 := hxn
          exact h2 ⟨⟨g', by simp, by omega⟩, hxc⟩
    · rintro ⟨hx, h1⟩
      refine ⟨⟨hx, ?_⟩, ?_⟩
      · rintro ⟨h2, h3⟩
        exact h1 ⟨⟨g, by simp, h2⟩, by omega⟩
      · rintro ⟨⟨y, hy, hyx⟩, hxc⟩
        exact h1 ⟨⟨y, List.mem_cons_of_mem _ hy, hyx⟩, hxc⟩

end Uquic.Proofs.Sorter
