/-
C19: one iteration of the parseHeaders loop preserves the invariant; consequences for the whole loop.
-/
import Uquic.Proofs.Fields

namespace Uquic.Proofs.Fields
open Uquic.Model.H3.Fields Uquic.Gen.H3Fields
open Uquic.Spec.H3Fields (isPseudoName lowerTchar fieldValueByte isDigitByte connectionSpecific allowedPseudo
  fieldSize sectionSize NameTokens ValueBytes NoConnectionSpecific TeTrailers PseudoKnown PseudoFirst PseudoUnique
  ClSingle ClNumeric SizeOk WellFormedG WellFormed)

/-- the remaining budget after a field -/
def limAfter (s : PS) (f : Field) : Int := s.limit - ((f.1.length : Int) + (f.2.length : Int) + headerFieldOverhead)

theorem limAfter_eq (s : PS) (f : Field) : limAfter s f = s.limit - fieldSize f := by
  simp [limAfter, fieldSize, overhead_eq]

/-- what a successful iteration did -/
theorem stepField_ok (ext : List Nat → Bool) (isReq : Bool) (s s' : PS) (f : Field)
    (h : stepField ext isReq s f = .ok s') :
    0 ≤ limAfter s f ∧ lowerFix ext f.1 = true ∧ validFieldValue f.2 = true ∧
    ((isPseudo f.1 = true ∧ s.firstRegular = false ∧ ∃ r, pseudoCases.lookup f.1 = some r ∧
        getPseudo s.hdr f.1 = [] ∧ s.seen.contains f.1 = false ∧ (isReq && r) = false ∧ (!isReq && !r) = false ∧
        s' = { s with limit := limAfter s f, hdr := setPseudo s.hdr f.1 f.2, seen := s.seen ++ [f.1] }) ∨
     (isPseudo f.1 = false ∧ validateRegular f = .ok () ∧
        ((f.1 = nContentLength ∧ s.readCL = false ∧
            s' = { s with limit := limAfter s f, firstRegular := true, readCL := true, clStr := f.2 }) ∨
         (f.1 = nContentLength ∧ s.readCL = true ∧ s.clStr = f.2 ∧
            s' = { s with limit := limAfter s f, firstRegular := true }) ∨
         (f.1 ≠ nContentLength ∧
            s' = { s with limit := limAfter s f, firstRegular := true,
                          hdr := { s.hdr with headers := hdrAdd s.hdr.headers f.1 f.2 } })))) := by
  unfold stepField at h
  simp only [] at h
  split at h
  · cases h
  rename_i hlim
  split at h
  · cases h
  rename_i hlow
  split at h
  · cases h
  rename_i hval
  have hlim' : 0 ≤ limAfter s f := by simp only [limAfter]; omega
  refine ⟨hlim', by simpa using hlow, by simpa using hval, ?_⟩
  split at h
  · rename_i hps
    left
    split at h
    · cases h
    rename_i hfr
    split at h
    · cases h
    rename_i r hr
    split at h
    · cases h
    rename_i hdup
    split at h
    · cases h
    rename_i h1
    split at h
    · cases h
    rename_i h2
    simp only [Bool.or_eq_true, decide_eq_true_eq, not_or, Bool.not_eq_true] at hdup
    refine ⟨hps, by simpa using hfr, r, hr, by simpa using hdup.1, hdup.2, by simpa using h1, by simpa using h2, ?_⟩
    cases h; rfl
  · rename_i hps
    right
    refine ⟨by simpa using hps, ?_⟩
    split at h
    · cases h
    rename_i hvr
    refine ⟨hvr, ?_⟩
    split at h
    · rename_i hcl
      split at h
      · rename_i hr
        left
        refine ⟨hcl, by simpa using hr, ?_⟩
        cases h; rfl
      · rename_i hr
        split at h
        · cases h
        rename_i hsame
        right; left
        refine ⟨hcl, by simpa using hr, by simpa using hsame, ?_⟩
        cases h; rfl
    · rename_i hcl
      right; right
      refine ⟨hcl, ?_⟩
      cases h; rfl

/-- what `validateRegularHeaderField` guarantees -/
theorem validateRegular_ok (f : Field) (h : validateRegular f = .ok ()) :
    validFieldName f.1 = true ∧ invalidHeaderFields.contains f.1 = false ∧ (f.1 = nTe → f.2 = vTrailers) := by
  unfold validateRegular at h
  split at h
  · cases h
  rename_i h1
  split at h
  · cases h
  rename_i h2
  split at h
  · cases h
  rename_i h3
  refine ⟨by simpa using h1, by simpa using h2, ?_⟩
  intro hte
  simp only [hte, decide_true, Bool.true_and, decide_eq_true_eq, Decidable.not_not] at h3
  simpa using h3

theorem regular_not_conn (f : Field) (h : invalidHeaderFields.contains f.1 = false) : f.1 ∉ connectionSpecific := by
  intro hc
  have := connectionSpecific_sub _ hc
  simp only [List.contains_eq_mem, decide_eq_false_iff_not] at h
  exact h this

theorem pseudo_not_conn (n : List Nat) (h : isPseudoName n = true) : n ∉ connectionSpecific := by
  intro hc
  have : ∀ m ∈ connectionSpecific, isPseudoName m = false := by decide
  rw [this n hc] at h; cases h

theorem pseudo_not_te (n : List Nat) (h : isPseudoName n = true) : n ≠ Uquic.Spec.H3Fields.nTe := by
  intro hc; subst hc; revert h; decide

theorem pseudo_not_cl (n : List Nat) (h : isPseudoName n = true) : n ≠ nContentLength := by
  intro hc; subst hc; revert h; decide

theorem knownPseudo_isPseudo : ∀ n ∈ knownPseudo, isPseudoName n = true := by decide

theorem setPseudo_headers (h : Hdr) (n v : List Nat) : (setPseudo h n v).headers = h.headers := by
  unfold setPseudo
  repeat' split
  all_goals rfl

theorem inv_step (ext : List Nat → Bool) (isReq : Bool) (lim0 : Int) (pre : List Field) (s s' : PS) (f : Field)
    (inv : Inv isReq lim0 pre s) (h : stepField ext isReq s f = .ok s') : Inv isReq lim0 (pre ++ [f]) s' := by
  obtain ⟨hlim, hlow, hval, hcase⟩ := stepField_ok ext isReq s s' f h
  have hsize : sectionSize (pre ++ [f]) = sectionSize pre + fieldSize f := by
    rw [sectionSize_append]; simp [sectionSize]
  have hlimEq : limAfter s f = lim0 - sectionSize (pre ++ [f]) := by
    rw [limAfter_eq, inv.lim, hsize]; omega
  have hvalues : ValueBytes (pre ++ [f]) := by
    intro g hg
    rcases List.mem_append.mp hg with hg | hg
    · exact inv.values g hg
    · simp only [List.mem_singleton] at hg; subst hg
      exact validFieldValue_bytes _ hval
  rcases hcase with ⟨hps, hfr, r, hr, hget, hseen, h1, h2, rfl⟩ | ⟨hps, hvr, hcl⟩
  · -- a pseudo-header field
    have hps' : isPseudoName f.1 = true := by rw [← isPseudo_eq]; exact hps
    have hallowed := pseudo_allowed isReq f.1 r hr h1 h2
    have hknown : f.1 ∈ knownPseudo := pseudoCases_known _ (lookup_mem _ _ _ hr)
    have hnotin : f.1 ∉ s.seen := by
      simpa using hseen
    have hnopre : ∀ g ∈ pre, g.1 ≠ f.1 := by
      intro g hg heq
      apply hnotin
      rw [inv.seen]
      simp only [List.mem_map, List.mem_filter]
      exact ⟨g, ⟨hg, by rw [heq]; exact hps'⟩, heq⟩
    refine ⟨hlimEq, fun _ => hlim, ?_, hvalues, ?_, ?_, ?_, ?_, ?_, ?_, ?_, ?_, ?_, ?_, ?_, ?_, ?_⟩
    · intro g hg hnp
      rcases List.mem_append.mp hg with hg | hg
      · exact inv.names g hg hnp
      · simp only [List.mem_singleton] at hg; subst hg; rw [hps'] at hnp; cases hnp
    · intro g hg
      rcases List.mem_append.mp hg with hg | hg
      · exact inv.noconn g hg
      · simp only [List.mem_singleton] at hg; subst hg; exact pseudo_not_conn _ hps'
    · intro g hg hte
      rcases List.mem_append.mp hg with hg | hg
      · exact inv.te g hg hte
      · simp only [List.mem_singleton] at hg; subst hg; exact absurd hte (pseudo_not_te _ hps')
    · intro g hg hp
      rcases List.mem_append.mp hg with hg | hg
      · exact inv.known g hg hp
      · simp only [List.mem_singleton] at hg; subst hg; exact hallowed
    · -- pseudo first: every earlier field is a pseudo-field
      simp only [PseudoFirst, List.pairwise_append, List.pairwise_cons, List.Pairwise.nil, List.not_mem_nil,
        false_imp_iff, implies_true, and_true, List.mem_singleton]
      refine ⟨inv.first, trivial, ?_⟩
      intro a ha b _ _
      exact inv.allPseudo hfr a ha
    · intro _ g hg
      rcases List.mem_append.mp hg with hg | hg
      · exact inv.allPseudo hfr g hg
      · simp only [List.mem_singleton] at hg; subst hg; exact hps'
    · intro hc; simp only [] at hc; rw [hfr] at hc; cases hc
    · simp only [decodedHeaders, List.filter_append, List.filter_cons, hps', Bool.not_true, Bool.false_and,
        Bool.false_eq_true, if_false, List.filter_nil, List.append_nil, setPseudo_headers]
      exact inv.headers
    · simp only [List.filter_append, List.map_append, List.filter_cons, List.filter_nil, hps', if_true,
        List.map_cons, List.map_nil, inv.seen]
    · simp only [List.nodup_append, inv.nodup, true_and, List.nodup_cons, List.not_mem_nil, not_false_eq_true,
        List.nodup_nil, and_self, List.mem_singleton]
      intro a ha b hb; subst hb
      exact fun heq => hnotin (heq ▸ ha)
    · intro hr0
      obtain ⟨h0, h0'⟩ := inv.clNone hr0
      refine ⟨?_, h0'⟩
      intro g hg
      rcases List.mem_append.mp hg with hg | hg
      · exact h0 g hg
      · simp only [List.mem_singleton] at hg; subst hg; exact pseudo_not_cl _ hps'
    · intro hr1 g hg hn
      rcases List.mem_append.mp hg with hg | hg
      · exact inv.clSome hr1 g hg hn
      · simp only [List.mem_singleton] at hg; subst hg; exact absurd hn (pseudo_not_cl _ hps')
    · intro hr1
      obtain ⟨g, hg, h1, h2⟩ := inv.clWitness hr1
      exact ⟨g, List.mem_append_left _ hg, h1, h2⟩
    · intro n hn
      simp only []
      rw [getPseudo_setPseudo _ _ hknown]
      by_cases hnm : n = f.1
      · subst hnm
        rw [fieldValue_append_of_not_mem _ _ _ hnopre]; simp
      · rw [fieldValue_append_of_ne _ _ _ (fun h => hnm h.symm)]
        simp only [hnm, if_false]
        exact inv.hdrv n hn
  · -- a regular field
    have hps' : isPseudoName f.1 = false := by rw [← isPseudo_eq]; exact hps
    obtain ⟨hname, hnotinv, hte⟩ := validateRegular_ok f hvr
    have htok := regular_name_tokens ext f.1 hname hlow
    have hnames : NameTokens (pre ++ [f]) := by
      intro g hg hnp
      rcases List.mem_append.mp hg with hg | hg
      · exact inv.names g hg hnp
      · simp only [List.mem_singleton] at hg; subst hg; exact htok
    have hnoconn : NoConnectionSpecific (pre ++ [f]) := by
      intro g hg
      rcases List.mem_append.mp hg with hg | hg
      · exact inv.noconn g hg
      · simp only [List.mem_singleton] at hg; subst hg; exact regular_not_conn _ hnotinv
    have hteAll : TeTrailers (pre ++ [f]) := by
      intro g hg hn
      rcases List.mem_append.mp hg with hg | hg
      · exact inv.te g hg hn
      · simp only [List.mem_singleton] at hg; subst hg; exact hte hn
    have hknown : PseudoKnown isReq (pre ++ [f]) := by
      intro g hg hp
      rcases List.mem_append.mp hg with hg | hg
      · exact inv.known g hg hp
      · simp only [List.mem_singleton] at hg; subst hg; rw [hps'] at hp; cases hp
    have hfirst : PseudoFirst (pre ++ [f]) := by
      simp only [PseudoFirst, List.pairwise_append, List.pairwise_cons, List.Pairwise.nil, List.not_mem_nil,
        false_imp_iff, implies_true, and_true, List.mem_singleton]
      refine ⟨inv.first, trivial, ?_⟩
      intro a _ b hb hpb; subst hb; rw [hps'] at hpb; cases hpb
    have hseenEq : s.seen = ((pre ++ [f]).filter (fun g => isPseudoName g.1)).map Prod.fst := by
      simp only [List.filter_append, List.filter_cons, List.filter_nil, hps', Bool.false_eq_true,
        if_false, List.append_nil, inv.seen]
    have hsome : ∃ g ∈ pre ++ [f], isPseudoName g.1 = false := ⟨f, by simp, hps'⟩
    have hhdrs : ∀ (b : Bool), (f.1 != nContentLength) = b →
        decodedHeaders (pre ++ [f]) = if b then hdrAdd (decodedHeaders pre) f.1 f.2 else decodedHeaders pre := by
      intro b hb
      cases b <;> simp [decodedHeaders, List.filter_append, hps', hb, hdrAdd]
    have hhdrv : ∀ (hd : Hdr), (∀ n, getPseudo hd n = getPseudo s.hdr n) →
        ∀ n ∈ knownPseudo, getPseudo hd n = fieldValue (pre ++ [f]) n := by
      intro hd hsame n hn
      rw [hsame, fieldValue_append_of_ne]
      · exact inv.hdrv n hn
      · intro heq
        have := knownPseudo_isPseudo n hn
        rw [← heq, hps'] at this; cases this
    rcases hcl with ⟨hcl, hr0, rfl⟩ | ⟨hcl, hr1, hsame, rfl⟩ | ⟨hcl, rfl⟩
    · obtain ⟨h0, _⟩ := inv.clNone hr0
      refine ⟨hlimEq, fun _ => hlim, hnames, hvalues, hnoconn, hteAll, hknown, hfirst, ?_, fun _ => hsome, ?_, hseenEq, inv.nodup, ?_, ?_, ?_,
        hhdrv _ (fun _ => rfl)⟩
      · intro hc; cases hc
      · rw [hhdrs false (by simp [hcl])]; exact inv.headers
      · intro hc; cases hc
      · intro _ g hg hn
        rcases List.mem_append.mp hg with hg | hg
        · exact absurd hn (h0 g hg)
        · simp only [List.mem_singleton] at hg; subst hg; rfl
      · intro _; exact ⟨f, by simp, hcl, rfl⟩
    · refine ⟨hlimEq, fun _ => hlim, hnames, hvalues, hnoconn, hteAll, hknown, hfirst, ?_, fun _ => hsome, ?_, hseenEq, inv.nodup, ?_, ?_, ?_,
        hhdrv _ (fun _ => rfl)⟩
      · intro hc; cases hc
      · rw [hhdrs false (by simp [hcl])]; exact inv.headers
      · intro hc; rw [hr1] at hc; cases hc
      · intro _ g hg hn
        rcases List.mem_append.mp hg with hg | hg
        · exact inv.clSome hr1 g hg hn
        · simp only [List.mem_singleton] at hg; subst hg; exact hsame.symm
      · intro _
        obtain ⟨g, hg, h1, h2⟩ := inv.clWitness hr1
        exact ⟨g, List.mem_append_left _ hg, h1, h2⟩
    · refine ⟨hlimEq, fun _ => hlim, hnames, hvalues, hnoconn, hteAll, hknown, hfirst, ?_, fun _ => hsome, ?_, hseenEq, inv.nodup, ?_, ?_, ?_,
        hhdrv _ (fun _ => by simp [getPseudo])⟩
      · intro hc; cases hc
      · rw [hhdrs true (by simp [hcl])]; simp only [if_true]; rw [← inv.headers]
      · intro hr0
        obtain ⟨h0, h0'⟩ := inv.clNone hr0
        refine ⟨?_, h0'⟩
        intro g hg
        rcases List.mem_append.mp hg with hg | hg
        · exact h0 g hg
        · simp only [List.mem_singleton] at hg; subst hg; exact hcl
      · intro hr1 g hg hn
        rcases List.mem_append.mp hg with hg | hg
        · exact inv.clSome hr1 g hg hn
        · simp only [List.mem_singleton] at hg; subst hg; exact absurd hn hcl
      · intro hr1
        obtain ⟨g, hg, h1, h2⟩ := inv.clWitness hr1
        exact ⟨g, List.mem_append_left _ hg, h1, h2⟩

theorem inv_run (ext : List Nat → Bool) (isReq : Bool) (lim0 : Int) (fs : List Field) :
    ∀ (pre : List Field) (s s' : PS), Inv isReq lim0 pre s → runFields ext isReq s fs = .ok s' →
      Inv isReq lim0 (pre ++ fs) s' := by
  induction fs with
  | nil => intro pre s s' inv h; simp only [runFields] at h; cases h; simpa using inv
  | cons f rest ih =>
    intro pre s s' inv h
    simp only [runFields] at h
    split at h
    · cases h
    rename_i s1 hs1
    have := ih (pre ++ [f]) s1 s' (inv_step ext isReq lim0 pre s s1 f inv hs1) h
    simpa using this

end Uquic.Proofs.Fields
