/-
Helper lemmas for C20: the binary64 emulation never rounds up by more than one part in 2^53,
hence the Reno back-off `⌊float64(w)·renoBeta⌋` never exceeds `w`.
-/
import Uquic.Model.Cong.Sender

namespace Uquic.Proofs.Cong

open Uquic.Model.Cong

/-- rounding to 53 significant bits increases a number by at most one part in 2^53 -/
theorem rne53_mul_le (x : Nat) : rne53 x * 2 ^ 53 ≤ x * (2 ^ 53 + 1) := by
  unfold rne53
  by_cases hx : x < 2 ^ 53
  · simp only [hx, if_true]
    rw [Nat.mul_add]; omega
  · simp only [hx, if_false]
    have hx0 : x ≠ 0 := by intro h; subst h; simp at hx
    have hlog : 53 ≤ x.log2 := (Nat.le_log2 hx0).2 (Nat.le_of_not_lt hx)
    -- s ≥ 1 and 2^(s+52) ≤ x
    generalize hs : x.log2 - 52 = s
    have hs1 : 1 ≤ s := by omega
    have hpow : 2 ^ (s + 52) ≤ x := by
      have : s + 52 = x.log2 := by omega
      rw [this]; exact Nat.log2_self_le hx0
    have h2s : 2 ^ s = 2 * 2 ^ (s - 1) := by
      have : s = (s - 1) + 1 := by omega
      conv => lhs; rw [this, Nat.pow_succ]
      omega
    have hdm : 2 ^ s * (x / 2 ^ s) + x % 2 ^ s = x := Nat.div_add_mod x (2 ^ s)
    have hsplit : 2 ^ (s + 52) = 2 ^ (s - 1) * 2 ^ 53 := by
      rw [← Nat.pow_add]; congr 1; omega
    -- the rounded value is at most x + 2^(s-1)
    have key : (if x % 2 ^ s > 2 ^ (s - 1) ∨ (x % 2 ^ s = 2 ^ (s - 1) ∧ x / 2 ^ s % 2 = 1) then x / 2 ^ s + 1 else x / 2 ^ s) * 2 ^ s
        ≤ x + 2 ^ (s - 1) := by
      split
      · rename_i hc
        have hr : 2 ^ (s - 1) ≤ x % 2 ^ s := by omega
        rw [Nat.add_mul, Nat.one_mul, Nat.mul_comm]
        omega
      · rw [Nat.mul_comm]; omega
    calc _ ≤ (x + 2 ^ (s - 1)) * 2 ^ 53 := Nat.mul_le_mul_right _ key
      _ = x * 2 ^ 53 + 2 ^ (s - 1) * 2 ^ 53 := Nat.add_mul _ _ _
      _ ≤ x * 2 ^ 53 + x := by rw [← hsplit]; omega
      _ = x * (2 ^ 53 + 1) := by rw [Nat.mul_add]; omega

/-- facts about the regenerated binary64 constant: `renoBeta = renoBetaMant / 2^53` and it is
small enough (`renoBeta·(1+2^-53)² ≤ 1`) for the back-off never to increase the window.
If `renoBeta` is changed to a value ≥ 1 (or its exponent changes) this stops checking. -/
theorem renoBeta_shift : renoBetaShift = 53 := by decide

theorem renoBeta_small : renoBetaMant * ((2 ^ 53 + 1) * (2 ^ 53 + 1)) ≤ 2 ^ 159 := by decide

/-- The Reno back-off never increases the window: `ByteCount(float64(w) * renoBeta) ≤ w`,
for every `w` (including those ≥ 2^53 where `float64(w)` itself rounds). -/
theorem renoCutRaw_le (w : Nat) : rne53 (rne53 w * renoBetaMant) / 2 ^ renoBetaShift ≤ w := by
  rw [renoBeta_shift]
  have h1 := rne53_mul_le w
  have h2 := rne53_mul_le (rne53 w * renoBetaMant)
  -- it suffices: rne53 p < (w+1) * 2^53
  apply Nat.le_of_lt_succ
  rw [Nat.div_lt_iff_lt_mul (by decide : 0 < 2 ^ 53)]
  -- multiply through by 2^106
  have hpos : 0 < 2 ^ 106 := by decide
  apply Nat.lt_of_mul_lt_mul_right (a := 2 ^ 106)
  have e106 : (2:Nat) ^ 106 = 2 ^ 53 * 2 ^ 53 := by decide
  calc rne53 (rne53 w * renoBetaMant) * 2 ^ 106
      = (rne53 (rne53 w * renoBetaMant) * 2 ^ 53) * 2 ^ 53 := by rw [e106, Nat.mul_assoc]
    _ ≤ (rne53 w * renoBetaMant * (2 ^ 53 + 1)) * 2 ^ 53 := Nat.mul_le_mul_right _ h2
    _ = (rne53 w * 2 ^ 53) * (renoBetaMant * (2 ^ 53 + 1)) := by
        ac_rfl
    _ ≤ (w * (2 ^ 53 + 1)) * (renoBetaMant * (2 ^ 53 + 1)) := Nat.mul_le_mul_right _ h1
    _ = w * (renoBetaMant * ((2 ^ 53 + 1) * (2 ^ 53 + 1))) := by
        ac_rfl
    _ ≤ w * 2 ^ 159 := Nat.mul_le_mul_left _ renoBeta_small
    _ < (w + 1) * 2 ^ 159 := by
        apply Nat.mul_lt_mul_of_pos_right (Nat.lt_succ_self w); decide
    _ = (w + 1) * 2 ^ 53 * 2 ^ 106 := by
        rw [Nat.mul_assoc]

theorem renoCut_le (w : Nat) : renoCut w ≤ w := by
  cases w with
  | zero => exact Nat.le_refl 0
  | succ w => exact renoCutRaw_le (w + 1)

/-- for windows below 2^53 bytes (8 PiB; always the case, see `cwnd_bounds`) `float64(w)` is exact -/
theorem rne53_exact (w : Nat) (h : w < 2 ^ 53) : rne53 w = w := by
  unfold rne53; simp [h]

end Uquic.Proofs.Cong
