/-
C19: what requestWriter.encodeHeaders emits is a well-formed request section.
Part 1: decimal formatting, and a generic "pseudo prefix ++ regular suffix" well-formedness lemma.
-/
import Uquic.Proofs.FieldsComplete
import Uquic.Model.H3.Writer

namespace Uquic.Proofs.Fields
open Uquic.Model.H3.Fields Uquic.Model.H3.Writer Uquic.Gen.H3Fields
open Uquic.Spec.H3Fields (isPseudoName lowerTchar fieldValueByte isDigitByte connectionSpecific allowedPseudo
  fieldSize sectionSize NameTokens ValueBytes NoConnectionSpecific TeTrailers PseudoKnown PseudoFirst PseudoUnique
  ClSingle ClNumeric SizeOk WellFormed)

/-! ### strconv.FormatInt -/

theorem natDigits_append (fuel : Nat) : ∀ (n : Nat) (acc : List Nat), natDigits fuel n acc = natDigits fuel n [] ++ acc := by
  induction fuel with
  | zero => intro n acc; simp [natDigits]
  | succ k ih =>
    intro n acc
    simp only [natDigits]
    split
    · simp
    · rw [ih (n / 10) ((48 + n % 10) :: acc), ih (n / 10) [48 + n % 10]]; simp

theorem decVal_snoc (xs : List Nat) (d : Nat) : decVal (xs ++ [d]) = decVal xs * 10 + (d - 48) := by
  simp [decVal, List.foldl_append]

theorem natDigits_spec (fuel : Nat) : ∀ (n : Nat), n < fuel →
    natDigits fuel n [] ≠ [] ∧ (natDigits fuel n []).all isDigit = true ∧ decVal (natDigits fuel n []) = n := by
  induction fuel with
  | zero => intro n h; omega
  | succ k ih =>
    intro n h
    simp only [natDigits]
    split
    · rename_i h10
      refine ⟨by simp, ?_, ?_⟩
      · simp only [List.all_cons, List.all_nil, Bool.and_true, isDigit, Bool.and_eq_true, decide_eq_true_eq]; omega
      · simp [decVal]
    · rename_i h10
      have hk : n / 10 < k := by omega
      obtain ⟨h1, h2, h3⟩ := ih (n / 10) hk
      rw [natDigits_append]
      refine ⟨by simp, ?_, ?_⟩
      · simp only [List.all_append, h2, List.all_cons, List.all_nil, Bool.and_true, Bool.true_and, isDigit,
          Bool.and_eq_true, decide_eq_true_eq]; omega
      · rw [decVal_snoc, h3]; omega

theorem fmtNat_spec (n : Nat) : fmtNat n ≠ [] ∧ (fmtNat n).all isDigit = true ∧ decVal (fmtNat n) = n :=
  natDigits_spec (n + 1) n (by omega)

/-! ### a section made of a pseudo prefix and a regular suffix -/

/-- an ordinary regular field (not content-length) that satisfies every per-field clause -/
def RegOK (f : Field) : Prop :=
  isPseudoName f.1 = false ∧ f.1 ≠ [] ∧ (∀ b ∈ f.1, lowerTchar b = true) ∧ (∀ b ∈ f.2, fieldValueByte b = true) ∧
  f.1 ∉ connectionSpecific ∧ (f.1 = nTe → f.2 = vTrailers) ∧ f.1 ≠ nContentLength

theorem cl_name_facts : isPseudoName nContentLength = false ∧ nContentLength ≠ [] ∧
    (∀ b ∈ nContentLength, lowerTchar b = true) ∧ nContentLength ∉ connectionSpecific ∧ nContentLength ≠ nTe := by decide

theorem digit_value (b : Nat) (h : isDigitByte b = true) : fieldValueByte b = true := by
  simp only [isDigitByte, Bool.and_eq_true, decide_eq_true_eq] at h
  simp only [fieldValueByte, Bool.or_eq_true, beq_iff_eq, Bool.and_eq_true, decide_eq_true_eq]; omega

theorem wf_of_parts (isReq : Bool) (lim : Int) (P R : List Field) (clv : List Nat)
    (hP1 : ∀ f ∈ P, isPseudoName f.1 = true ∧ f.1 ∈ allowedPseudo isReq ∧ ∀ b ∈ f.2, fieldValueByte b = true)
    (hP2 : (P.map Prod.fst).Nodup)
    (hR : ∀ f ∈ R, RegOK f ∨ (f.1 = nContentLength ∧ f.2 = clv))
    (hclv : clv ≠ [] ∧ ∀ b ∈ clv, isDigitByte b = true) (hfit : decVal clv < 2 ^ 63)
    (hsize : sectionSize (P ++ R) ≤ lim) : WellFormed isReq lim (P ++ R) := by
  obtain ⟨c1, c2, c3, c4, c5⟩ := cl_name_facts
  have hRnp : ∀ f ∈ R, isPseudoName f.1 = false := by
    intro f hf; rcases hR f hf with h | ⟨h, _⟩
    · exact h.1
    · rw [h]; exact c1
  refine ⟨?_, ?_, ?_, ?_, ?_, ?_, ?_, ?_, ?_, ?_, hsize⟩
  · intro f hf hnp
    rcases List.mem_append.mp hf with hf | hf
    · rw [(hP1 f hf).1] at hnp; cases hnp
    · rcases hR f hf with h | ⟨h, _⟩
      · exact ⟨h.2.1, h.2.2.1⟩
      · rw [h]; exact ⟨c2, c3⟩
  · intro f hf
    rcases List.mem_append.mp hf with hf | hf
    · exact (hP1 f hf).2.2
    · rcases hR f hf with h | ⟨_, h⟩
      · exact h.2.2.2.1
      · rw [h]; intro b hb; exact digit_value b (hclv.2 b hb)
  · intro f hf
    rcases List.mem_append.mp hf with hf | hf
    · exact pseudo_not_conn _ (hP1 f hf).1
    · rcases hR f hf with h | ⟨h, _⟩
      · exact h.2.2.2.2.1
      · rw [h]; exact c4
  · intro f hf hte
    rcases List.mem_append.mp hf with hf | hf
    · exact absurd hte (pseudo_not_te _ (hP1 f hf).1)
    · rcases hR f hf with h | ⟨h, _⟩
      · exact h.2.2.2.2.2.1 hte
      · rw [h] at hte; exact absurd hte c5
  · intro f hf hp
    rcases List.mem_append.mp hf with hf | hf
    · exact (hP1 f hf).2.1
    · rw [hRnp f hf] at hp; cases hp
  · simp only [PseudoFirst, List.pairwise_append]
    refine ⟨?_, ?_, ?_⟩
    · exact List.Pairwise.imp_of_mem (R := fun _ _ => True) (fun ha _ _ _ => (hP1 _ ha).1) (List.pairwise_of_forall (fun _ _ => trivial))
    · exact List.Pairwise.imp_of_mem (R := fun _ _ => True)
        (fun _ hb _ hp => by rw [hRnp _ hb] at hp; cases hp) (List.pairwise_of_forall (fun _ _ => trivial))
    · intro a ha _ _ _; exact (hP1 a ha).1
  · have h1 : P.filter (fun f => isPseudoName f.1) = P := List.filter_eq_self.mpr (fun f hf => (hP1 f hf).1)
    have h2 : R.filter (fun f => isPseudoName f.1) = [] := List.filter_eq_nil_iff.mpr (fun f hf => by simp [hRnp f hf])
    simp only [PseudoUnique, List.filter_append, h1, h2, List.append_nil]; exact hP2
  · intro f hf g hg hfn hgn
    have key : ∀ x ∈ P ++ R, x.1 = nContentLength → x.2 = clv := by
      intro x hx hxn
      rcases List.mem_append.mp hx with hx | hx
      · exact absurd hxn (pseudo_not_cl _ (hP1 x hx).1)
      · rcases hR x hx with h | ⟨_, h⟩
        · exact absurd hxn h.2.2.2.2.2.2
        · exact h
    rw [key f hf hfn, key g hg hgn]
  · intro f hf hfn
    have : f.2 = clv := by
      rcases List.mem_append.mp hf with hf | hf
      · exact absurd hfn (pseudo_not_cl _ (hP1 f hf).1)
      · rcases hR f hf with h | ⟨_, h⟩
        · exact absurd hfn h.2.2.2.2.2.2
        · exact h
    rw [this]; exact ⟨hclv.1, hclv.2⟩
  · intro f hf hfn
    have : f.2 = clv := by
      rcases List.mem_append.mp hf with hf | hf
      · exact absurd hfn (pseudo_not_cl _ (hP1 f hf).1)
      · rcases hR f hf with h | ⟨_, h⟩
        · exact absurd hfn h.2.2.2.2.2.2
        · exact h
    rw [this]; exact hfit

end Uquic.Proofs.Fields
