import Uquic.Model.UQuic.CloneSpec

namespace Uquic.Proofs.Qtp
open Uquic.Model.QTP Uquic.Model.CloneSpec

/-- the regenerated shape of `cloneClientHelloSpecForDial`: every field a spec gives to an extension type that
gets a fresh per-dial value is copied into that value -/
theorem clone_copies_all :
    copies "KeyShareExtension" "KeyShares" = true ∧ copies "SNIExtension" "ServerName" = true ∧
    copies "QUICTransportParametersExtension" "TransportParameters" = true ∧
    Uquic.Gen.UQuic.cloneDefaultShares = true ∧
    (Uquic.Gen.UQuic.cloneCases.all fun c =>
      ["KeyShareExtension", "SNIExtension", "QUICTransportParametersExtension"].contains c.1) = true := by
  decide

theorem cloneExt_specView (e : Ext) : specView (cloneExt e) = specView e := by
  obtain ⟨h1, h2, h3, _, _⟩ := clone_copies_all
  cases e <;> simp [cloneExt, specView, h1, h2, h3]

theorem wireContent_dial_clone (cfgName : List Nat) (keyFor : Nat → List Nat) (e : Ext) :
    wireContent (dialExt cfgName keyFor (cloneExt e)) = specContent cfgName e := by
  obtain ⟨h1, h2, h3, _, _⟩ := clone_copies_all
  cases e with
  | keyShare s =>
    simp only [cloneExt, h1, if_true, dialExt, wireContent, specContent, List.map_map]
    congr 1
    apply List.map_congr_left
    intro k _
    simp only [Function.comp]
    split <;> rfl
  | sni n => simp [cloneExt, h2, dialExt, wireContent, specContent]
  | qtp ps c => simp [cloneExt, h3, dialExt, wireContent, specContent]
  | other t b => simp [cloneExt, dialExt, wireContent, specContent]

end Uquic.Proofs.Qtp
