/-
C01 extension: data faithfulness of every emitted frame ALSO under RESET_STREAM_AT semantics
(CancelWrite with a reliable offset), provided SetReliableBoundary is not called after a reset.
The FIN clause is excluded (it is false there: finding C01-fin-after-reset-at).
-/
import Uquic.Proofs.SendCompose

namespace Uquic.Proofs.Send
open Uquic.Model.Stream.Send Uquic.Spec.SendRun Uquic.Spec.StreamPipe

/-- RESET_STREAM_AT semantics apply: reset, not shut down, a positive reliable offset -/
def RA (s : State) : Prop := s.resetErr.isSome = true ∧ s.shutdown = false ∧ 0 < s.reliableOffset

/-- what `popNewOrRetransmittedStreamFrame` can do after CancelWrite with a reliable offset -/
inductive PopKindR (s : State) (mb : Nat) (s' : State) (out : PopOut) : Prop
  | nothing (h1 : s' = s) (h2 : out.frame = none)
  | retransWhole (g : Frame) (rest : List Frame) (hq : s.retransQ = g :: rest)
      (h1 : s' = { s with retransQ := rest }) (h2 : out.frame = some g)
  | retransSplit (g : Frame) (rest : List Frame) (hq : s.retransQ = g :: rest)
      (h1 : s' = { s with retransQ := { g with data := g.data.drop (g.maxDataLen s.sid mb), offset := g.offset + g.maxDataLen s.sid mb } :: rest })
      (h2 : out.frame = some { offset := g.offset, data := g.data.take (g.maxDataLen s.sid mb), fin := false, dataLenPresent := g.dataLenPresent })
      (hn : g.maxDataLen s.sid mb ≠ 0) (hfit : mb < g.length s.sid)
  | finOnly (h1 : s' = { s with finSent := true })
      (h2 : out.frame = some { offset := s.writeOffset, data := [], fin := true, dataLenPresent := true })
      (hd : s.dataForWriting = []) (hnf : s.nextFrame = none) (hlt : s.writeOffset < s.reliableOffset)
  | newData (f0 : Frame) (s1 : State) (hq : s.retransQ = []) (hlt : s.writeOffset < s.reliableOffset)
      (hok : PopNewOk s s1 f0) (hlen : f0.data.length ≤ s.reliableOffset - s.writeOffset)
      (hbuf : ∀ nf, s.nextFrame = some nf → s1.dataForWriting = s.dataForWriting ∧ f0.data ++ nfData s1 = nf.data)
      (fin : Bool) (hfin : fin = false)   -- a stream that is being reset never gets a FIN on new data (a7958da)
      (h1 : s' = { s1 with writeOffset := s.writeOffset + f0.data.length, finSent := s.finSent || fin })
      (h2 : out.frame = some { f0 with fin := fin })

theorem popInner_ra (s : State) (mb win : Nat) (nb : Bool) (hra : RA s) (hmb : mb ≤ maxPacketBufferSize)
    (hnf : NfOk s) : PopKindR s mb (popInner s mb win nb).1 (popInner s mb win nb).2 := by
  obtain ⟨hr, hs, hro⟩ := hra
  unfold popInner
  simp only [hs, hr, Bool.false_eq_true, ↓reduceIte, Bool.true_and]
  have hro0 : (s.reliableOffset == 0) = false := by simp; omega
  simp only [hro0, Bool.false_or]
  cases hq : s.retransQ with
  | cons g rest =>
    simp only [List.isEmpty_cons, Bool.and_false, Bool.false_eq_true, ↓reduceIte, Bool.not_false, maybeGetRetransmission, hq]
    rcases hsp : g.maybeSplitOff s.sid mb with ⟨new, f', b⟩
    cases b with
    | false =>
      simp only [Option.isSome_some, Bool.true_or, ↓reduceIte]
      exact .retransWhole g rest hq rfl rfl
    | true =>
      cases new with
      | none =>
        have := maybeSplitOff_none hsp
        subst this
        simp only [Option.isSome_none, Bool.false_or, ↓reduceIte]
        exact .nothing (retransQ_eta s hq) rfl
      | some new =>
        obtain ⟨_, hfit, hn, hnew, hf'⟩ := maybeSplitOff_some hsp
        subst hnew hf'
        simp only [Option.isSome_some, Bool.true_or, ↓reduceIte]
        exact .retransSplit g rest hq rfl rfl hn hfit
  | nil =>
    simp only [List.isEmpty_nil, Bool.and_true, Bool.not_true, Bool.false_eq_true, ↓reduceIte]
    by_cases hge : s.writeOffset ≥ s.reliableOffset
    · simp only [hge, decide_true, ↓reduceIte]
      exact .nothing rfl rfl
    · simp only [hge, decide_false, Bool.false_eq_true, ↓reduceIte]
      have hlt : s.writeOffset < s.reliableOffset := by omega
      by_cases he : s.dataForWriting = [] ∧ s.nextFrame = none
      · obtain ⟨hd, hn⟩ := he
        simp only [hd, hn, List.isEmpty_nil, Option.isNone_none, Bool.and_self, ↓reduceIte]
        by_cases hf : s.finishedWriting = true ∧ s.finSent = false
        · simp only [hf.1, hf.2, Bool.not_false, Bool.and_self, ↓reduceIte]
          exact .finOnly (by cases s; simp_all) (by simp) hd hn hlt
        · have : (s.finishedWriting && !s.finSent) = false := by
            cases h1 : s.finishedWriting <;> cases h2 : s.finSent <;> simp_all
          simp only [this, Bool.false_eq_true, ↓reduceIte]
          exact .nothing rfl rfl
      · have : (s.dataForWriting.isEmpty && s.nextFrame.isNone) = false := by
          cases h1 : s.dataForWriting <;> cases h2 : s.nextFrame <;> simp_all
        simp only [this, Bool.false_eq_true, ↓reduceIte]
        by_cases hw : win = 0
        · simp only [hw, ↓reduceIte]
          exact .nothing rfl rfl
        · simp only [hw, ↓reduceIte]
          have hpos : decide (s.reliableOffset > 0) = true := by simp; omega
          simp only [hpos, Bool.and_self, ↓reduceIte]
          have hmdl : 0 < min win (s.reliableOffset - s.writeOffset) := by omega
          obtain ⟨h1, h2⟩ := popNew_spec s mb (min win (s.reliableOffset - s.writeOffset)) hmb hmdl hnf he
          have hx := popNew_extra s mb (min win (s.reliableOffset - s.writeOffset))
          rcases hp : popNewStreamFrame s mb (min win (s.reliableOffset - s.writeOffset)) with ⟨s1, fo, more⟩
          rw [hp] at h1 h2 hx
          cases fo with
          | none =>
            simp only at h1 ⊢
            exact .nothing (h1 trivial) rfl
          | some f0 =>
            have hok := h2 f0 rfl
            obtain ⟨hlen, hbuf⟩ := hx f0 rfl
            simp only at hok hlen hbuf ⊢
            obtain ⟨nf', dfw', sig', hs1, _⟩ := id hok
            have hfw : s1.finishedWriting = s.finishedWriting := by rw [hs1]
            have hfs : s1.finSent = s.finSent := by rw [hs1]
            have hwo : s1.writeOffset = s.writeOffset := by rw [hs1]
            have hrs : s1.resetErr.isNone = false := by
              rw [hs1]; cases hre : s.resetErr <;> simp_all
            refine .newData f0 s1 hq hlt hok (by omega) hbuf false rfl ?_ ?_
            · rw [hwo, hrs]; simp [hfs]
            · rw [hrs]; simp

def DataFaithful (W : Bytes) (f : Frame) : Prop := f.data <+: W.drop f.offset

theorem DataFaithful.grow {W p : Bytes} {f : Frame} (h : DataFaithful W f) : DataFaithful (W ++ p) f :=
  prefix_drop_append h

/-- the invariant that also covers RESET_STREAM_AT states (data clause only) -/
structure RInv (s : State) : Prop where
  em : ∀ f ∈ s.emitted, DataFaithful s.written f
  out : ∀ e ∈ s.outstanding, DataFaithful s.written e.2
  q : ∀ f ∈ s.retransQ, DataFaithful s.written f
  nf : NfOk s
  live : Live s → tail s = s.written.drop s.writeOffset ∧ s.writeOffset ≤ s.written.length ∧
      (s.pending = none → s.dataForWriting = []) ∧ s.reliableSize ≤ s.writeOffset + nfLen s
  ra : RA s →
      (∀ nf, s.nextFrame = some nf → nf.data.take (s.reliableOffset - s.writeOffset) <+: s.written.drop s.writeOffset) ∧
      (s.writeOffset < s.reliableOffset → ∃ nf, s.nextFrame = some nf ∧ s.reliableOffset ≤ s.writeOffset + nf.data.length)

/-- the fields `RInv` looks at -/
structure Same (s s' : State) : Prop where
  written : s'.written = s.written
  emitted : s'.emitted = s.emitted
  outstanding : s'.outstanding = s.outstanding
  retransQ : s'.retransQ = s.retransQ
  nextFrame : s'.nextFrame = s.nextFrame
  writeOffset : s'.writeOffset = s.writeOffset
  dataForWriting : s'.dataForWriting = s.dataForWriting
  pending : s'.pending = s.pending
  resetErr : s'.resetErr = s.resetErr
  shutdown : s'.shutdown = s.shutdown
  reliableSize : s'.reliableSize = s.reliableSize
  supportsResetAt : s'.supportsResetAt = s.supportsResetAt

theorem Same.ro {s s' : State} (h : Same s s') : s'.reliableOffset = s.reliableOffset := by
  unfold State.reliableOffset; rw [h.supportsResetAt, h.reliableSize]

theorem RInv.congr {s s' : State} (h : RInv s) (e : Same s s') : RInv s' := by
  have hro := e.ro
  refine ⟨?_, ?_, ?_, ?_, ?_, ?_⟩
  · rw [e.emitted, e.written]; exact h.em
  · rw [e.outstanding, e.written]; exact h.out
  · rw [e.retransQ, e.written]; exact h.q
  · intro g hg; rw [e.nextFrame] at hg; rw [e.writeOffset]; exact h.nf g hg
  · intro hl
    have hl' : Live s := ⟨e.resetErr ▸ hl.1, e.shutdown ▸ hl.2⟩
    have := h.live hl'
    simp only [tail, nfData, nfLen, e.nextFrame, e.dataForWriting, e.written, e.writeOffset, e.pending, e.reliableSize] at this ⊢
    exact this
  · intro hra
    have hra' : RA s := ⟨e.resetErr ▸ hra.1, e.shutdown ▸ hra.2.1, hro ▸ hra.2.2⟩
    have := h.ra hra'
    simp only [e.nextFrame, e.written, e.writeOffset, hro] at this ⊢
    exact this

theorem isNewlyCompleted_same (s : State) : Same s (isNewlyCompleted s).1 := by
  obtain ⟨c, hc⟩ := isNewlyCompleted_fst s
  rw [hc]; constructor <;> rfl

theorem Same.trans {a b c : State} (h1 : Same a b) (h2 : Same b c) : Same a c :=
  ⟨h2.written.trans h1.written, h2.emitted.trans h1.emitted, h2.outstanding.trans h1.outstanding,
   h2.retransQ.trans h1.retransQ, h2.nextFrame.trans h1.nextFrame, h2.writeOffset.trans h1.writeOffset,
   h2.dataForWriting.trans h1.dataForWriting, h2.pending.trans h1.pending, h2.resetErr.trans h1.resetErr,
   h2.shutdown.trans h1.shutdown, h2.reliableSize.trans h1.reliableSize, h2.supportsResetAt.trans h1.supportsResetAt⟩

theorem Same.rfl' (s : State) : Same s s := by constructor <;> rfl

theorem getControlFrame_same (s : State) : Same s (getControlFrame s).1 := by
  unfold getControlFrame
  split
  · exact Same.rfl' s
  · constructor <;> rfl

theorem resetAcked_same (s : State) (f : ResetFrame) : Same s (resetAcked s f).1 := by
  unfold resetAcked
  split
  · exact Same.rfl' s
  · simp only
    split
    · constructor <;> rfl
    · exact Same.trans (by constructor <;> rfl) (isNewlyCompleted_same _)

theorem resetLost_same (s : State) (f : ResetFrame) : Same s (resetLost s f).1 := by
  unfold resetLost
  split
  · exact Same.rfl' s
  · constructor <;> rfl

theorem close_same (s : State) : Same s (close s).1 := by
  rcases close_fst s with h1 | ⟨_, _, cf, c, h1⟩
  · rw [h1]; exact Same.rfl' s
  · rw [h1]; constructor <;> rfl

/-- `acked` in any state: only bookkeeping fields change, `outstanding` shrinks -/
theorem acked_gen (s : State) (i : Nat) :
    ∃ o' ar af no c d, (acked s i).1 = { s with outstanding := o', ackedRanges := ar, ackedFin := af, numOutstanding := no, completed := c, dead := d } ∧
      ∀ e ∈ o', e ∈ s.outstanding := by
  unfold acked
  cases hf : lookupOutstanding s i with
  | none => exact ⟨s.outstanding, s.ackedRanges, s.ackedFin, s.numOutstanding, s.completed, s.dead, rfl, fun e he => he⟩
  | some f =>
    have hsub : ∀ e ∈ removeOutstanding s i, e ∈ s.outstanding := fun e he => List.mem_of_mem_eraseP he
    simp only
    split
    · exact ⟨_, _, _, _, _, _, rfl, hsub⟩
    · split
      · exact ⟨_, _, _, _, _, _, rfl, hsub⟩
      · obtain ⟨c, hc⟩ := isNewlyCompleted_fst { s with outstanding := removeOutstanding s i, ackedRanges := (f.offset, f.offset + f.data.length) :: s.ackedRanges, ackedFin := s.ackedFin || f.fin, numOutstanding := s.numOutstanding - 1 }
        exact ⟨_, _, _, _, c, _, hc, hsub⟩

/-- `lost` in any state: `outstanding` shrinks; the queue is unchanged or gets a (possibly truncated)
    copy of an outstanding frame appended -/
theorem lost_gen (s : State) (i : Nat) :
    ∃ o' q' no c d, (lost s i).1 = { s with outstanding := o', retransQ := q', numOutstanding := no, completed := c, dead := d } ∧
      (∀ e ∈ o', e ∈ s.outstanding) ∧
      (∀ g ∈ q', g ∈ s.retransQ ∨ ∃ e ∈ s.outstanding, g.offset = e.2.offset ∧ g.data <+: e.2.data ∧
          (g.fin = true → e.2.fin = true ∧ g.data = e.2.data)) := by
  unfold lost
  cases hf : lookupOutstanding s i with
  | none => exact ⟨s.outstanding, s.retransQ, s.numOutstanding, s.completed, s.dead, rfl, fun e he => he, fun g hg => .inl hg⟩
  | some f =>
    have hsub : ∀ e ∈ removeOutstanding s i, e ∈ s.outstanding := fun e he => List.mem_of_mem_eraseP he
    obtain ⟨e0, hfind, he0⟩ := lookup_spec hf
    have hmem : e0 ∈ s.outstanding := (find_erase hfind).1
    simp only
    split
    · exact ⟨_, _, _, _, _, rfl, hsub, fun g hg => .inl hg⟩
    · split
      · exact ⟨_, _, _, _, _, rfl, hsub, fun g hg => .inl hg⟩
      · split
        · obtain ⟨c, hc⟩ := isNewlyCompleted_fst { s with outstanding := removeOutstanding s i, numOutstanding := s.numOutstanding - 1 }
          exact ⟨_, _, _, c, _, hc, hsub, fun g hg => .inl hg⟩
        · refine ⟨_, _, _, _, _, rfl, hsub, fun g hg => ?_⟩
          simp only [List.mem_append, List.mem_singleton] at hg
          rcases hg with hg | rfl
          · exact .inl hg
          · refine .inr ⟨e0, hmem, ?_⟩
            rw [he0]
            split
            · exact ⟨rfl, List.take_prefix _ _, fun hh => by simp at hh⟩
            · exact ⟨rfl, List.prefix_refl _, fun hh => ⟨hh, rfl⟩⟩

/-- `writeIter` in any state: `nextFrame` keeps its offset and only grows, nothing else `RInv` looks at
    changes except `dataForWriting` and `pending` -/
theorem writeIter_gen (t : State) (p : Pending) (hnf : NfOk t) :
    ∃ nf' dfw' pd' cf c, (writeIter t p).1 = { t with nextFrame := nf', dataForWriting := dfw', pending := pd', cancellationFlagged := cf, completed := c } ∧
      (∀ g, nf' = some g → g.offset = t.writeOffset ∧ g.fin = false ∧ g.data ≠ [] ∧ g.data.length ≤ maxPacketBufferSize) ∧
      nfData t <+: nfDataOf nf' ∧ (t.nextFrame.isSome → nf'.isSome) := by
  unfold writeIter
  by_cases hc : (canBuffer t && !t.dataForWriting.isEmpty) = true
  · simp only [hc, ↓reduceIte, writeEpilogue, beq_self_eq_true]
    simp only [Bool.and_eq_true, Bool.not_eq_eq_eq_not, Bool.not_true, List.isEmpty_eq_false_iff] at hc
    obtain ⟨hcb, hd⟩ := hc
    simp only [canBuffer, nfLen] at hcb
    refine ⟨_, [], none, t.cancellationFlagged, t.completed, rfl, ?_, ?_, fun _ => rfl⟩
    · intro g hg
      cases hn : t.nextFrame with
      | none =>
        simp only [hn, Option.some.injEq] at hg hcb
        subst hg
        exact ⟨rfl, rfl, hd, by simpa using hcb⟩
      | some f =>
        obtain ⟨h1, h2, h3, h4⟩ := hnf f hn
        simp only [hn, Option.some.injEq] at hg hcb
        subst hg
        exact ⟨h1, h2, by simp [h3], by simpa using hcb⟩
    · cases hn : t.nextFrame <;> simp [nfData, nfDataOf, hn]
  · simp only [hc, Bool.false_eq_true, ↓reduceIte]
    split
    · obtain ⟨cf, c, hs⟩ : ∃ cf c, (writeEpilogue { t with pending := none } p.plen (p.plen - t.dataForWriting.length)).1 = { t with pending := none, cancellationFlagged := cf, completed := c } := by
        unfold writeEpilogue
        split
        · exact ⟨_, _, rfl⟩
        split
        · exact ⟨_, _, rfl⟩
        split
        · obtain ⟨c, hc⟩ := isNewlyCompleted_fst { t with pending := none, cancellationFlagged := true }
          exact ⟨true, c, hc⟩
        · exact ⟨_, _, rfl⟩
      exact ⟨t.nextFrame, t.dataForWriting, none, cf, c, hs, fun g hg => hnf g hg, List.prefix_refl _, fun h => h⟩
    · exact ⟨t.nextFrame, t.dataForWriting, _, t.cancellationFlagged, t.completed, rfl, fun g hg => hnf g hg, List.prefix_refl _, fun h => h⟩

/-- `RInv` carries over when only bookkeeping changes, `outstanding` shrinks and the queue stays faithful -/
theorem RInv.transfer {s s' : State} (h : RInv s)
    (hw : s'.written = s.written) (he : s'.emitted = s.emitted)
    (ho : ∀ e ∈ s'.outstanding, e ∈ s.outstanding)
    (hq : ∀ g ∈ s'.retransQ, DataFaithful s.written g)
    (hnf : s'.nextFrame = s.nextFrame) (hwo : s'.writeOffset = s.writeOffset)
    (hd : s'.dataForWriting = s.dataForWriting) (hp : s'.pending = s.pending)
    (hr : s'.resetErr = s.resetErr) (hs : s'.shutdown = s.shutdown)
    (hrs : s'.reliableSize = s.reliableSize) (hsup : s'.supportsResetAt = s.supportsResetAt) : RInv s' := by
  have hro : s'.reliableOffset = s.reliableOffset := by unfold State.reliableOffset; rw [hsup, hrs]
  refine ⟨?_, ?_, ?_, ?_, ?_, ?_⟩
  · rw [he, hw]; exact h.em
  · intro e hx; rw [hw]; exact h.out e (ho e hx)
  · intro g hg; rw [hw]; exact hq g hg
  · intro g hg; rw [hnf] at hg; rw [hwo]; exact h.nf g hg
  · intro hl
    have := h.live ⟨hr ▸ hl.1, hs ▸ hl.2⟩
    simp only [tail, nfData, nfLen, hnf, hd, hw, hwo, hp, hrs] at this ⊢
    exact this
  · intro hra
    have := h.ra ⟨hr ▸ hra.1, hs ▸ hra.2.1, hro ▸ hra.2.2⟩
    simp only [hnf, hw, hwo, hro] at this ⊢
    exact this

theorem rinv_acked {s : State} (h : RInv s) (i : Nat) : RInv (acked s i).1 := by
  obtain ⟨o', ar, af, no, c, d, hs', ho⟩ := acked_gen s i
  rw [hs']
  exact h.transfer rfl rfl ho (fun g hg => h.q g hg) rfl rfl rfl rfl rfl rfl rfl rfl

theorem rinv_lost {s : State} (h : RInv s) (i : Nat) : RInv (lost s i).1 := by
  obtain ⟨o', q', no, c, d, hs', ho, hq⟩ := lost_gen s i
  rw [hs']
  refine h.transfer rfl rfl ho (fun g hg => ?_) rfl rfl rfl rfl rfl rfl rfl rfl
  rcases hq g hg with hg | ⟨e, he, hoff, hpre, _⟩
  · exact h.q g hg
  · have := h.out e he
    unfold DataFaithful at *
    rw [hoff]; exact hpre.trans this

theorem rinv_same {s s' : State} (h : RInv s) (e : Same s s') : RInv s' := h.congr e

theorem rinv_shutdown {s : State} (h : RInv s) : RInv (shutdownStep s) := by
  unfold shutdownStep
  split
  · refine ⟨h.em, h.out, fun g hg => by simp at hg, fun g hg => by simp at hg, fun hl => ?_, fun hra => ?_⟩
    · have := hl.2; simp at this
    · have := hra.2.1; simp at this
  · exact h.congr (by constructor <;> rfl)

theorem rinv_stop {s : State} (h : RInv s) (c : Nat) : RInv (stopSending s c).1 := by
  unfold stopSending
  split
  · exact h
  · split
    · exact h
    · refine ⟨h.em, h.out, fun g hg => by simp at hg, fun g hg => by simp at hg, fun hl => ?_, fun hra => ?_⟩
      · have := hl.1; simp at this
      · have := hra.2.2; simp [State.reliableOffset] at this

theorem rinv_boundary {s : State} (h : RInv s) (hr : s.resetErr = none) : RInv (setReliableBoundary s) := by
  unfold setReliableBoundary
  refine ⟨h.em, h.out, h.q, h.nf, fun hl => ?_, fun hra => ?_⟩
  · obtain ⟨h1, h2, h3, _⟩ := h.live hl
    exact ⟨h1, h2, h3, Nat.le_refl _⟩
  · have := hra.1; simp [hr] at this

theorem trimFrame_some {ro : Nat} {f g : Frame} (h : trimFrame ro f = some g) :
    g.offset = f.offset ∧ g.fin = f.fin ∧ g.data <+: f.data ∧ f.offset < ro ∧
    g.data.length = min f.data.length (ro - f.offset) := by
  unfold trimFrame at h
  split at h
  · simp at h
  · rename_i h1
    split at h
    · simp only [Option.some.injEq] at h; subst h
      exact ⟨rfl, rfl, List.take_prefix _ _, by omega, by simp only [List.length_take]; omega⟩
    · simp only [Option.some.injEq] at h; subst h
      exact ⟨rfl, rfl, List.prefix_refl _, by omega, by omega⟩

theorem trimFrameQ_some {ro : Nat} {f g : Frame} (h : trimFrameQ ro f = some g) :
    g.offset = f.offset ∧ g.data <+: f.data ∧ f.offset < ro ∧ g.data.length ≤ f.data.length ∧
    (g.fin = true → g = f) := by
  unfold trimFrameQ at h
  split at h
  · simp at h
  · rename_i h1
    split at h
    · simp only [Option.some.injEq] at h; subst h
      exact ⟨rfl, List.take_prefix _ _, by omega, by simp only [List.length_take]; omega, fun hh => by simp at hh⟩
    · simp only [Option.some.injEq] at h; subst h
      exact ⟨rfl, List.prefix_refl _, by omega, Nat.le_refl _, fun _ => rfl⟩

theorem rinv_cancel {s : State} (h : RInv s) (c : Nat) : RInv (cancelWrite s c).1 := by
  unfold cancelWrite
  split
  · exact h
  rename_i hsd
  split
  · exact h.congr (Same.trans (by constructor <;> rfl) (isNewlyCompleted_same _))
  rename_i hre
  have hl : Live s := ⟨by simpa using hre, by simpa using hsd⟩
  obtain ⟨htail, hwo, _, hrs⟩ := h.live hl
  by_cases hro : s.reliableOffset = 0
  · have hb : (s.reliableOffset == 0) = true := by simp [hro]
    simp only [hb, ↓reduceIte]
    refine ⟨h.em, h.out, fun g hg => by simp at hg, fun g hg => by simp at hg, fun hl' => ?_, fun hra => ?_⟩
    · have := hl'.1; simp at this
    · have := hra.2.2
      have hro' : State.reliableOffset { s with cancellationFlagged := true, resetErr := some (c, false), numOutstanding := 0, retransQ := [], nextFrame := none, queuedReset := some { finalSize := max s.writeOffset s.reliableOffset, code := c, reliableSize := s.reliableOffset }, signal := true } = s.reliableOffset := rfl
      rw [hro', hro] at this; omega
  · have hb : (s.reliableOffset == 0) = false := by simp [hro]
    simp only [hb, Bool.false_eq_true, ↓reduceIte]
    have hsup : s.reliableOffset = s.reliableSize := by
      unfold State.reliableOffset at hro ⊢
      split
      · rfl
      · rename_i hh; simp [hh] at hro
    refine ⟨h.em, h.out, fun g hg => ?_, fun g hg => ?_, fun hl' => ?_, fun _ => ⟨fun nf' hnf' => ?_, fun hlt => ?_⟩⟩
    · simp only [List.mem_filterMap] at hg
      obtain ⟨g0, hg0, ht⟩ := hg
      obtain ⟨h1, h3, _, _, _⟩ := trimFrameQ_some ht
      have := h.q g0 hg0
      unfold DataFaithful at *
      rw [h1]; exact h3.trans this
    · simp only [Option.bind_eq_some_iff] at hg
      obtain ⟨nf, hnf, ht⟩ := hg
      obtain ⟨h1, h2, h3, h4, h5⟩ := trimFrame_some ht
      obtain ⟨n1, n2, n3, n4⟩ := h.nf nf hnf
      refine ⟨by rw [h1]; exact n1, by rw [h2]; exact n2, ?_, by have := h3.length_le; omega⟩
      intro he
      have : 0 < nf.data.length := List.length_pos_iff.mpr n3
      rw [he] at h5; simp only [List.length_nil] at h5; omega
    · have := hl'.1; simp at this
    · simp only [Option.bind_eq_some_iff] at hnf'
      obtain ⟨nf, hnf, ht⟩ := hnf'
      obtain ⟨_, _, h3, _, _⟩ := trimFrame_some ht
      have hpre : nf.data <+: s.written.drop s.writeOffset := by
        rw [← htail]; simp only [tail, nfData, nfDataOf, hnf]; exact List.prefix_append _ _
      exact (List.take_prefix _ _).trans (h3.trans hpre)
    · show ∃ nf', s.nextFrame.bind (trimFrame s.reliableOffset) = some nf' ∧ s.reliableOffset ≤ s.writeOffset + nf'.data.length
      have hlt' : s.writeOffset < s.reliableOffset := hlt
      cases hn : s.nextFrame with
      | none => simp only [nfLen, hn] at hrs; omega
      | some nf =>
        obtain ⟨n1, _, _, _⟩ := h.nf nf hn
        simp only [nfLen, hn] at hrs
        simp only [Option.bind_some]
        unfold trimFrame
        have hge : ¬ nf.offset ≥ s.reliableOffset := by omega
        simp only [hge, ↓reduceIte]
        split
        · exact ⟨_, rfl, by simp only [List.length_take]; omega⟩
        · exact ⟨_, rfl, by omega⟩

theorem nfLen_of (s : State) : nfLen s = (nfDataOf s.nextFrame).length := by
  unfold nfLen nfDataOf; cases s.nextFrame <;> rfl

/-- `writeIter` preserves `RInv` -/
theorem rinv_writeIter {t : State} (p : Pending) (h : RInv t) : RInv (writeIter t p).1 := by
  obtain ⟨nf', dfw', pd', cf, c, hs', hnf', hpre, hsome⟩ := writeIter_gen t p h.nf
  have hlen : nfLen t ≤ (nfDataOf nf').length := by rw [nfLen_of]; exact hpre.length_le
  refine ⟨?_, ?_, ?_, ?_, ?_, ?_⟩
  · rw [hs']; exact h.em
  · rw [hs']; exact h.out
  · rw [hs']; exact h.q
  · rw [hs']; exact hnf'
  · intro hl
    have hlt : Live t := by rw [hs'] at hl; exact hl
    obtain ⟨nf2, dfw2, pd2, hs2, htl, _, hpd⟩ := writeIter_live t p hlt h.nf
    obtain ⟨h1, h2, _, h4⟩ := h.live hlt
    have e1 : nf' = nf2 := by have := congrArg State.nextFrame (hs'.symm.trans hs2); exact this
    have e2 : dfw' = dfw2 := by have := congrArg State.dataForWriting (hs'.symm.trans hs2); exact this
    have e3 : pd' = pd2 := by have := congrArg State.pending (hs'.symm.trans hs2); exact this
    subst e1 e2 e3
    rw [hs']
    refine ⟨?_, h2, hpd, ?_⟩
    · show nfDataOf nf' ++ dfw' = _
      rw [htl]; exact h1
    · show t.reliableSize ≤ t.writeOffset + nfLen { t with nextFrame := nf', dataForWriting := dfw', pending := pd', cancellationFlagged := cf, completed := c }
      rw [nfLen_of]; simp only; omega
  · intro hra
    have hrat : RA t := by rw [hs'] at hra; exact hra
    obtain ⟨r1, r2⟩ := h.ra hrat
    rw [hs']
    refine ⟨fun g hg => ?_, fun hlt => ?_⟩
    · simp only at hg ⊢
      subst hg
      show g.data.take (t.reliableOffset - t.writeOffset) <+: _
      by_cases hlt : t.writeOffset < t.reliableOffset
      · obtain ⟨nf, hn, hle⟩ := r2 hlt
        have hp : nf.data <+: g.data := by simpa [nfData, nfDataOf, hn] using hpre
        have : g.data.take (t.reliableOffset - t.writeOffset) = nf.data.take (t.reliableOffset - t.writeOffset) := by
          obtain ⟨x, hx⟩ := hp
          rw [← hx, List.take_append_of_le_length (by omega)]
        rw [this]; exact r1 nf hn
      · have : t.reliableOffset - t.writeOffset = 0 := by omega
        rw [this]; simp
    · obtain ⟨nf, hn, hle⟩ := r2 hlt
      have hs := hsome (by simp [hn])
      cases hnf2 : nf' with
      | none => simp [hnf2] at hs
      | some g =>
        refine ⟨g, rfl, ?_⟩
        have hp : nf.data <+: g.data := by simpa [nfData, nfDataOf, hn, hnf2] using hpre
        have := hp.length_le
        show t.reliableOffset ≤ t.writeOffset + g.data.length
        omega

theorem rinv_wake {s : State} (h : RInv s) : RInv (wake s).1 := by
  rcases wake_fst s with h1 | ⟨p, _, _, h1⟩
  · rw [h1]; exact h
  · rw [h1]; exact rinv_writeIter p (h.congr (by constructor <;> rfl))

theorem rinv_write {s : State} (h : RInv s) (p : Bytes) : RInv (writeCall s p).1 := by
  rcases writeCall_fst s p with h1 | ⟨_, c, h1⟩ | ⟨hp, hr, hs, hf, hne, h1⟩
  · rw [h1]; exact h
  · rw [h1]; exact h.congr (by constructor <;> rfl)
  · rw [h1]
    apply rinv_writeIter
    have hl : Live s := ⟨hr, hs⟩
    obtain ⟨h1', h2, h3, h4⟩ := h.live hl
    have hd := h3 hp
    refine ⟨fun g hg => (h.em g hg).grow, fun e he => (h.out e he).grow, fun g hg => (h.q g hg).grow, h.nf, fun _ => ?_, fun hra => ?_⟩
    · refine ⟨?_, by simp only [List.length_append]; omega, fun hh => by simp at hh, h4⟩
      show nfData s ++ p = (s.written ++ p).drop s.writeOffset
      rw [List.drop_append_of_le_length h2, ← h1']
      simp [tail, hd]
    · have := hra.1; simp [hr] at this

theorem rinv_addOut {s1 : State} {f : Frame} (h : RInv s1) (hf : DataFaithful s1.written f) : RInv (addOut s1 f) := by
  refine ⟨fun g hg => ?_, fun e he => ?_, h.q, h.nf, h.live, h.ra⟩
  · simp only [addOut, List.mem_append, List.mem_singleton] at hg
    rcases hg with hg | rfl
    · exact h.em g hg
    · exact hf
  · simp only [addOut, List.mem_append, List.mem_singleton] at he
    rcases he with he | rfl
    · exact h.out e he
    · exact hf

theorem popInner_quiet (s : State) (mb w : Nat) (nb : Bool) (hnl : ¬ Live s) (hnra : ¬ RA s) :
    popInner s mb w nb = (s, {}) := by
  unfold popInner
  by_cases hs : s.shutdown = true
  · simp [hs]
  · have hs' : s.shutdown = false := by simpa using hs
    have hr : s.resetErr.isSome = true := by
      cases hr : s.resetErr with
      | none => exact absurd ⟨hr, hs'⟩ hnl
      | some _ => rfl
    have hro : s.reliableOffset = 0 := by
      by_cases h0 : s.reliableOffset = 0
      · exact h0
      · exact absurd ⟨hr, hs', by omega⟩ hnra
    simp [hs, hr, hro]

/-- the retransmission kinds and the FIN-only frame (shared by the live and the RESET_STREAM_AT case) -/
theorem rinv_retransWhole {s : State} (h : RInv s) {g : Frame} {rest : List Frame} (hq : s.retransQ = g :: rest) :
    RInv (addOut { s with retransQ := rest } g) := by
  have hg : g ∈ s.retransQ := by simp [hq]
  refine rinv_addOut (h.transfer rfl rfl (fun e he => he) (fun x hx => h.q x (by simp [hq, hx])) rfl rfl rfl rfl rfl rfl rfl rfl) (h.q g hg)

theorem rinv_retransSplit {s : State} (h : RInv s) {g : Frame} {rest : List Frame} (n : Nat) (hq : s.retransQ = g :: rest) :
    RInv (addOut { s with retransQ := { g with data := g.data.drop n, offset := g.offset + n } :: rest }
      { offset := g.offset, data := g.data.take n, fin := false, dataLenPresent := g.dataLenPresent }) := by
  have hg := h.q g (by simp [hq])
  refine rinv_addOut (h.transfer rfl rfl (fun e he => he) (fun x hx => ?_) rfl rfl rfl rfl rfl rfl rfl rfl) ?_
  · rcases List.mem_cons.mp hx with rfl | hx
    · exact prefix_drop_drop n hg
    · exact h.q x (by simp [hq, hx])
  · exact prefix_take n hg

theorem rinv_finOnly {s : State} (h : RInv s) :
    RInv (addOut { s with finSent := true } { offset := s.writeOffset, data := [], fin := true, dataLenPresent := true }) :=
  rinv_addOut (h.congr (by constructor <;> rfl)) List.nil_prefix

/-- new data on a live stream -/
theorem rinv_newData_live {s s1 : State} {f0 : Frame} (h : RInv s) (hl : Live s) (hok : PopNewOk s s1 f0)
    (hmono : nfLen s ≤ f0.data.length + nfLen s1) (fin : Bool) :
    RInv (addOut { s1 with writeOffset := s.writeOffset + f0.data.length, finSent := s.finSent || fin } { f0 with fin := fin }) := by
  obtain ⟨nf', dfw', sig', hs1, hoff, hfin0, hne, hlen, htail, hnf', hdfw⟩ := hok
  subst hs1
  obtain ⟨l1, l2, l3, l4⟩ := h.live hl
  have hW : s.written.drop s.writeOffset = f0.data ++ (nfDataOf nf' ++ dfw') := by rw [← l1, htail]
  have hpre : f0.data <+: s.written.drop s.writeOffset := by rw [hW]; exact List.prefix_append _ _
  have hwo : s.writeOffset + f0.data.length ≤ s.written.length := prefix_drop_length_le hpre hne
  have htail' : nfDataOf nf' ++ dfw' = s.written.drop (s.writeOffset + f0.data.length) := by
    rw [← List.drop_drop, hW, List.drop_left]
  refine rinv_addOut ⟨h.em, h.out, h.q, hnf', fun _ => ⟨htail', hwo, fun hp => hdfw (l3 hp), ?_⟩, fun hra => ?_⟩ ?_
  · show s.reliableSize ≤ s.writeOffset + f0.data.length + nfLen _
    simp only [nfLen_of] at hmono l4 ⊢
    omega
  · have := hra.1; simp [hl.1] at this
  · show f0.data <+: s.written.drop f0.offset
    rw [hoff]; exact hpre

/-- new data after CancelWrite with a reliable offset: it comes out of the trusted part of `nextFrame` -/
theorem rinv_newData_ra {s s1 : State} {f0 : Frame} (h : RInv s) (hra : RA s) (hlt : s.writeOffset < s.reliableOffset)
    (hok : PopNewOk s s1 f0) (hlen : f0.data.length ≤ s.reliableOffset - s.writeOffset)
    (hbuf : ∀ nf, s.nextFrame = some nf → s1.dataForWriting = s.dataForWriting ∧ f0.data ++ nfData s1 = nf.data)
    (fin : Bool) :
    RInv (addOut { s1 with writeOffset := s.writeOffset + f0.data.length, finSent := s.finSent || fin } { f0 with fin := fin }) := by
  obtain ⟨r1, r2⟩ := h.ra hra
  obtain ⟨nf, hn, hle⟩ := r2 hlt
  obtain ⟨hd1, hcat⟩ := hbuf nf hn
  obtain ⟨nf', dfw', sig', hs1, hoff, hfin0, hne, _, _, hnf', _⟩ := hok
  subst hs1
  have htrust := r1 nf hn
  simp only [nfData] at hcat
  have hf0 : f0.data = nf.data.take f0.data.length := by
    rw [← hcat, List.take_left]
  have hrest : nfDataOf nf' = nf.data.drop f0.data.length := by
    rw [← hcat, List.drop_left]
  have hres : (State.resetErr { s with nextFrame := nf', dataForWriting := dfw', signal := sig', writeOffset := s.writeOffset + f0.data.length, finSent := s.finSent || fin }).isSome = true := hra.1
  refine rinv_addOut ⟨h.em, h.out, h.q, hnf', fun hl => ?_, fun _ => ⟨fun g hg => ?_, fun hlt' => ?_⟩⟩ ?_
  · have := hl.1; simp only at this; simp [this] at hres
  · -- the rest of nextFrame, up to the reliable offset, is still faithful
    show g.data.take (s.reliableOffset - (s.writeOffset + f0.data.length)) <+: s.written.drop (s.writeOffset + f0.data.length)
    simp only at hg
    subst hg
    simp only [nfDataOf] at hrest
    rw [hrest]
    have : (nf.data.drop f0.data.length).take (s.reliableOffset - (s.writeOffset + f0.data.length)) =
        (nf.data.take (s.reliableOffset - s.writeOffset)).drop f0.data.length := by
      rw [List.drop_take]; congr 1; omega
    rw [this]
    exact prefix_drop_drop _ htrust
  · show ∃ g, nf' = some g ∧ s.reliableOffset ≤ s.writeOffset + f0.data.length + g.data.length
    have hl2 := congrArg List.length hrest
    simp only [List.length_drop] at hl2
    cases hnf2 : nf' with
    | none =>
      simp only [hnf2, nfDataOf, List.length_nil] at hl2
      have : s.writeOffset + f0.data.length < s.reliableOffset := hlt'
      omega
    | some g =>
      simp only [hnf2, nfDataOf] at hl2
      exact ⟨g, rfl, by omega⟩
  · show f0.data <+: s.written.drop f0.offset
    rw [hoff, hf0]
    have : nf.data.take f0.data.length = (nf.data.take (s.reliableOffset - s.writeOffset)).take f0.data.length := by
      rw [List.take_take]; congr 1; omega
    rw [this]
    exact prefix_take _ htrust

theorem rinv_pop {s : State} (h : RInv s) (mb w : Nat) (nb : Bool) (hmb : mb ≤ maxPacketBufferSize) :
    RInv (pop s mb w nb).1 := by
  by_cases hl : Live s
  · have k := popInner_live s mb w nb hl hmb h.nf
    cases k with
    | nothing h1 h2 => rw [pop_none h2, h1]; exact h
    | retransWhole g rest hq h1 h2 => rw [pop_some h2, h1]; exact rinv_retransWhole h hq
    | retransSplit g rest hq hn hfit h1 h2 => rw [pop_some h2, h1]; exact rinv_retransSplit h _ hq
    | finOnly hd hnf hfw hfs h1 h2 => rw [pop_some h2, h1]; exact rinv_finOnly h
    | newData f0 s1 hq hok fin hfin h1 h2 hmono => rw [pop_some h2, h1]; exact rinv_newData_live h hl hok hmono fin
  · by_cases hra : RA s
    · have k := popInner_ra s mb w nb hra hmb h.nf
      cases k with
      | nothing h1 h2 => rw [pop_none h2, h1]; exact h
      | retransWhole g rest hq h1 h2 => rw [pop_some h2, h1]; exact rinv_retransWhole h hq
      | retransSplit g rest hq h1 h2 => rw [pop_some h2, h1]; exact rinv_retransSplit h _ hq
      | finOnly h1 h2 => rw [pop_some h2, h1]; exact rinv_finOnly h
      | newData f0 s1 hq hlt hok hlen hbuf fin hfin h1 h2 => rw [pop_some h2, h1]; exact rinv_newData_ra h hra hlt hok hlen hbuf fin
    · have := popInner_quiet s mb w nb hl hra
      have h2 : (popInner s mb w nb).2.frame = none := by rw [this]
      rw [pop_none h2, this]; exact h

theorem rinv_step {s : State} (h : RInv s) (op : Op) (hb : op = .boundary → s.resetErr = none) :
    RInv (stepOp s op) := by
  unfold stepOp
  split
  · exact h
  · cases op with
    | write p => exact rinv_write h p
    | wake => exact rinv_wake h
    | close => exact h.congr (close_same s)
    | pop mb w nb =>
      simp only
      split
      · rename_i hmb; exact rinv_pop h mb w nb hmb
      · exact h
    | acked i => exact rinv_acked h i
    | lost i => exact rinv_lost h i
    | cancel c => exact rinv_cancel h c
    | stop c => exact rinv_stop h c
    | shutdown => exact rinv_shutdown h
    | boundary => exact rinv_boundary h (hb rfl)
    | ctrl => exact h.congr (getControlFrame_same s)
    | resetAcked f =>
      simp only
      split
      · exact h.congr (resetAcked_same s f)
      · exact h
    | resetLost f =>
      simp only
      split
      · exact h.congr (resetLost_same s f)
      · exact h

theorem rinv_init (sid : Nat) (sup : Bool) : RInv (init sid sup) := by
  refine ⟨fun g hg => by simp [init] at hg, fun e he => by simp [init] at he, fun g hg => by simp [init] at hg,
    fun g hg => by simp [init] at hg, fun _ => ⟨by simp [init, tail, nfData, nfDataOf], by simp [init], fun _ => rfl, by simp [init]⟩,
    fun hra => ?_⟩
  have := hra.1; simp [init] at this

/-- `SetReliableBoundary` is never called on a stream that was already reset (CancelWrite / STOP_SENDING) -/
def NoBoundaryAfterReset (s : State) (ops : List Op) : Prop :=
  ∀ pre post, ops = pre ++ Op.boundary :: post → (run s pre).resetErr = none

theorem rinv_run_from {s : State} (h : RInv s) (ops : List Op) (hc : NoBoundaryAfterReset s ops) : RInv (run s ops) := by
  induction ops generalizing s with
  | nil => exact h
  | cons op rest ih =>
    have hb : op = .boundary → s.resetErr = none := fun hop => hc [] rest (by simp [hop])
    have hc' : NoBoundaryAfterReset (stepOp s op) rest := by
      intro pre post heq
      have := hc (op :: pre) post (by simp [heq])
      simpa [run] using this
    exact ih (rinv_step h op hb) hc'

/-- the sender only appends to `emitted` (any state) -/
theorem emitted_pop_r {s : State} (h : RInv s) (mb w : Nat) (nb : Bool) (hmb : mb ≤ maxPacketBufferSize) :
    ∃ l, (pop s mb w nb).1.emitted = s.emitted ++ l := by
  by_cases hl : Live s
  · have k := popInner_live s mb w nb hl hmb h.nf
    cases k with
    | nothing h1 h2 => exact ⟨[], by rw [pop_none h2, h1]; simp⟩
    | retransWhole g rest hq h1 h2 => exact ⟨[g], by rw [pop_some h2, h1]; rfl⟩
    | retransSplit g rest hq hn hfit h1 h2 => exact ⟨_, by rw [pop_some h2, h1]; rfl⟩
    | finOnly hd hnf hfw hfs h1 h2 => exact ⟨_, by rw [pop_some h2, h1]; rfl⟩
    | newData f0 s1 hq hok fin hfin h1 h2 =>
      obtain ⟨nf', dfw', sig', hs1, _⟩ := hok
      subst hs1
      exact ⟨_, by rw [pop_some h2, h1]; rfl⟩
  · by_cases hra : RA s
    · have k := popInner_ra s mb w nb hra hmb h.nf
      cases k with
      | nothing h1 h2 => exact ⟨[], by rw [pop_none h2, h1]; simp⟩
      | retransWhole g rest hq h1 h2 => exact ⟨[g], by rw [pop_some h2, h1]; rfl⟩
      | retransSplit g rest hq h1 h2 => exact ⟨_, by rw [pop_some h2, h1]; rfl⟩
      | finOnly h1 h2 => exact ⟨_, by rw [pop_some h2, h1]; rfl⟩
      | newData f0 s1 hq hlt hok hlen hbuf fin hfin h1 h2 =>
        obtain ⟨nf', dfw', sig', hs1, _⟩ := hok
        subst hs1
        exact ⟨_, by rw [pop_some h2, h1]; rfl⟩
    · have := popInner_quiet s mb w nb hl hra
      have h2 : (popInner s mb w nb).2.frame = none := by rw [this]
      exact ⟨[], by rw [pop_none h2, this]; simp⟩

theorem emitted_step_r {s : State} (h : RInv s) (op : Op) : ∃ l, (stepOp s op).emitted = s.emitted ++ l := by
  have same : ∀ {s' : State}, s'.emitted = s.emitted → ∃ l, s'.emitted = s.emitted ++ l := fun h => ⟨[], by simp [h]⟩
  unfold stepOp
  split
  · exact same rfl
  · cases op with
    | write p =>
      rcases writeCall_fst s p with h1 | ⟨_, c, h1⟩ | ⟨_, _, _, _, _, h1⟩
      · exact same (by simp only [h1])
      · exact same (by simp only [h1])
      · exact same (by simp only [h1]; exact (writeIter_stable _ _).emitted)
    | wake =>
      rcases wake_fst s with h1 | ⟨p, _, _, h1⟩
      · exact same (by simp only [h1])
      · exact same (by simp only [h1]; exact (writeIter_stable _ _).emitted)
    | close => exact same (close_same s).emitted
    | pop mb w nb =>
      simp only
      split
      · rename_i hmb; exact emitted_pop_r h mb w nb hmb
      · exact same rfl
    | acked i => exact same (acked_stable s i).emitted
    | lost i => exact same (lost_stable s i).emitted
    | cancel c => exact same (cancelWrite_spec s c).1.emitted
    | stop c => exact same (stopSending_spec s c).1.emitted
    | shutdown => exact same (shutdownStep_spec s).1.emitted
    | boundary => exact same rfl
    | ctrl => exact same (getControlFrame_spec s).1.emitted
    | resetAcked f =>
      simp only
      split
      · exact same (resetAcked_stable s f).emitted
      · exact same rfl
    | resetLost f =>
      simp only
      split
      · exact same (resetLost_stable s f).emitted
      · exact same rfl

structure PipeInvR {A : Reassembler} (p : Pipe A) : Prop where
  rinv : RInv p.s
  reach : Reach A p.r
  segs_emitted : ∀ x ∈ A.segs p.r, ∃ f ∈ p.s.emitted, x = segOf f

theorem PipeInvR.consistent {A : Reassembler} {p : Pipe A} (h : PipeInvR p) : Consistent p.s.written (A.segs p.r) := by
  intro x hx
  obtain ⟨f, hf, rfl⟩ := h.segs_emitted x hx
  exact h.rinv.em f hf

theorem pipeInvR_step {A : Reassembler} (C : ReassemblyContract A) {p : Pipe A} (h : PipeInvR p)
    (op : PipeOp) (hb : op = .snd .boundary → p.s.resetErr = none) : PipeInvR (pipeStep p op) := by
  cases op with
  | snd o =>
    refine ⟨rinv_step h.rinv o (fun ho => hb (by rw [ho])), h.reach, fun x hx => ?_⟩
    obtain ⟨f, hf, hxf⟩ := h.segs_emitted x hx
    obtain ⟨l, hl⟩ := emitted_step_r h.rinv o
    exact ⟨f, by simp only [pipeStep]; rw [hl]; exact List.mem_append_left _ hf, hxf⟩
  | deliver k =>
    simp only [pipeStep]
    cases hk : p.s.emitted[k]? with
    | none => exact h
    | some f =>
      have hf : f ∈ p.s.emitted := List.mem_of_getElem? hk
      refine ⟨h.rinv, .deliver _ h.reach, fun x hx => ?_⟩
      rcases (C.segs_deliver p.r (segOf f) h.reach x).mp hx with rfl | hx
      · exact ⟨f, hf, rfl⟩
      · exact h.segs_emitted x hx
  | read n =>
    exact ⟨h.rinv, .read n h.reach, fun x hx => h.segs_emitted x ((C.segs_read p.r n h.reach) ▸ hx)⟩

theorem pipeRun_s {A : Reassembler} (p : Pipe A) (ops : List PipeOp) : (pipeRun p ops).s = run p.s (sndOps ops) := by
  induction ops generalizing p with
  | nil => rfl
  | cons op rest ih =>
    cases op with
    | snd o => simp only [pipeRun, List.foldl_cons, sndOps, run] at ih ⊢; exact ih _
    | deliver k =>
      simp only [pipeRun, List.foldl_cons, sndOps] at ih ⊢
      rw [ih]; simp only [pipeStep]; split <;> rfl
    | read n => simp only [pipeRun, List.foldl_cons, sndOps] at ih ⊢; rw [ih]; rfl

theorem pipeInvR_run {A : Reassembler} (C : ReassemblyContract A) {p : Pipe A} (h : PipeInvR p)
    (ops : List PipeOp) (hc : NoBoundaryAfterReset p.s (sndOps ops)) : PipeInvR (pipeRun p ops) := by
  induction ops generalizing p with
  | nil => exact h
  | cons op rest ih =>
    have hb : op = .snd .boundary → p.s.resetErr = none := by
      intro hop
      exact hc [] (sndOps rest) (by simp [hop, sndOps])
    have hc' : NoBoundaryAfterReset (pipeStep p op).s (sndOps rest) := by
      cases op with
      | snd o =>
        intro pre post heq
        have := hc (o :: pre) post (by simp [sndOps, heq])
        simpa [run, pipeStep] using this
      | deliver k =>
        have : (pipeStep p (.deliver k)).s = p.s := by simp only [pipeStep]; split <;> rfl
        rw [this]; simpa [sndOps] using hc
      | read n => simpa [sndOps, pipeStep] using hc
    exact ih (pipeInvR_step C h op hb) hc'

theorem pipeInvR_init (A : Reassembler) (C : ReassemblyContract A) (sid : Nat) (sup : Bool) :
    PipeInvR (pipeInit A sid sup) :=
  ⟨rinv_init sid sup, .init, fun x hx => by simp [pipeInit, C.segs_init] at hx⟩

end Uquic.Proofs.Send
