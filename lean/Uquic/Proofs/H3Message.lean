/-
Helper definitions and lemmas for the C18 ∘ C19 composition (Props/C18Compose.lean), stream side.

ADAPTER DEFINITIONS (they compose operations of C18's models that the h3s driver ties one by one —
`parseNext`, `Under.readFull`, `MsgStream.read`, `Body.read`, `Str.writeData` — and add nothing else):

* `hdrFrameOf sec`   the HEADERS frame `(&headersFrame{Length}).Append` + field section writes: type 0x1,
                     shortest varints, payload = the (QPACK-encoded) field section, which stays an
                     uninterpreted byte string exactly as in C18's `WFrame`;
* `msgFrames`        the layout of one message on its request stream: HEADERS ‖ DATA* ‖ HEADERS?;
* `readHead`         the head of `RawServerConn.handleRequestStream` (server_conn.go: ParseNext, "first
                     frame must be HEADERS", the `hf.Length > maxHeaderBytes` check, io.ReadFull) which is
                     also the head of `RequestStream.ReadResponse` (stream.go) — the two differ only in
                     the error codes they cancel the stream with, which are not part of this statement
                     (C19 `reject_maps_to_error`).

Lemmas: `readHead` on a stream that starts with a HEADERS frame returns its payload and leaves the
rest; the field section `Stream.Read` hands to its `parseTrailer` callback is the payload of the first
HEADERS frame of the body part (`expectTrailer`), for every chunking and every read-size sequence,
through `Stream.Read` and through `body.Read`.
-/
import Uquic.Proofs.H3Body
import Uquic.Proofs.H3Writer

namespace Uquic.Proofs.H3Msg
open Uquic.Model.H3 Uquic.Spec.H3Wire Uquic.Proofs.H3

/-! ### layout -/

/-- the HEADERS frame carrying the field section `sec` -/
def hdrFrameOf (sec : List Nat) : WFrame := { ty := 1, payload := sec, tk := 0, lk := lkOf sec.length }

theorem hdrFrameOf_ok (sec : List Nat) (h : sec.length < 2 ^ 62) : (hdrFrameOf sec).ok := by
  refine ⟨⟨by simp [hdrFrameOf], by simp [hdrFrameOf]⟩, ?_⟩
  exact (encVarint_lkOf sec.length h).1

/-- what `headersFrame.Append` followed by the section puts on the wire -/
theorem hdrFrameOf_enc (sec : List Nat) (h : sec.length < 2 ^ 62) :
    (hdrFrameOf sec).enc = encVarint 1 ++ encVarint sec.length ++ sec := by
  have h1 := (encVarint_lkOf sec.length h).2
  have h0 : encVarint 1 = encVarintK 0 1 := by decide
  simp [WFrame.enc, hdrFrameOf, h1, h0]

theorem kind_hdr : kindOf 1 = .headers := by decide
theorem kind_data : kindOf 0 = .data := by decide

/-- the frames after the first HEADERS frame: one DATA frame per `Stream.Write`, then the trailer section -/
def bodyFrames (ws : List (List Nat)) (tsec : Option (List Nat)) : List WFrame :=
  ws.map dataFrameOf ++ (tsec.map hdrFrameOf).toList

/-- one message on its stream -/
def msgFrames (hsec : List Nat) (ws : List (List Nat)) (tsec : Option (List Nat)) : List WFrame :=
  hdrFrameOf hsec :: bodyFrames ws tsec

theorem encFrames_append (a b : List WFrame) : encFrames (a ++ b) = encFrames a ++ encFrames b := by
  induction a with
  | nil => rfl
  | cons f a ih => simp [encFrames, ih, List.append_assoc]

theorem bodyFrames_ok (ws : List (List Nat)) (tsec : Option (List Nat)) (hlen : ∀ w ∈ ws, w.length < 2 ^ 62)
    (ht : ∀ t, tsec = some t → t.length < 2 ^ 62) : ∀ f ∈ bodyFrames ws tsec, f.ok := by
  intro f hf
  rcases List.mem_append.mp hf with hf | hf
  · obtain ⟨w, hw, rfl⟩ := List.mem_map.mp hf
    exact dataFrameOf_ok w (hlen w hw)
  · cases tsec with
    | none => simp at hf
    | some t =>
      simp only [Option.map_some, Option.toList_some, List.mem_singleton] at hf
      subst hf
      exact hdrFrameOf_ok t (ht t rfl)

theorem bodyFrames_ctl (ws : List (List Nat)) (tsec : Option (List Nat)) :
    ∀ f ∈ bodyFrames ws tsec, kindOf f.ty ≠ .settings ∧ kindOf f.ty ≠ .goaway := by
  intro f hf
  rcases List.mem_append.mp hf with hf | hf
  · obtain ⟨w, _, rfl⟩ := List.mem_map.mp hf
    show kindOf 0 ≠ .settings ∧ kindOf 0 ≠ .goaway
    decide
  · cases tsec with
    | none => simp at hf
    | some t =>
      simp only [Option.map_some, Option.toList_some, List.mem_singleton] at hf
      subst hf
      show kindOf 1 ≠ .settings ∧ kindOf 1 ≠ .goaway
      decide

/-- RFC 9114 reading of the body part: the written bytes, a clean end -/
theorem expect_bodyFrames (mh : Nat) (ws : List (List Nat)) (tsec : Option (List Nat))
    (ht : ∀ t, tsec = some t → t.length ≤ mh) : expect mh false (bodyFrames ws tsec) = (ws.flatten, .eof) := by
  induction ws with
  | nil =>
    cases tsec with
    | none => rfl
    | some t =>
      have : ¬ t.length > mh := by have := ht t rfl; omega
      simp [bodyFrames, expect, hdrFrameOf, kind_hdr, this]
  | cons w ws ih =>
    have hk : kindOf (dataFrameOf w).ty = .data := kind_data
    have : bodyFrames (w :: ws) tsec = dataFrameOf w :: bodyFrames ws tsec := rfl
    rw [this, expect_data hk, ih]
    rfl

/-! ### the head of the stream -/

inductive HeadErr where
  | parse (e : Err)      -- ParseNext failed
  | notHeaders           -- the first frame is not a HEADERS frame: connection closed with H3_FRAME_UNEXPECTED
  | tooLarge             -- hf.Length > maxHeaderBytes
  | short (e : Err)      -- io.ReadFull of the field section failed
deriving DecidableEq, Repr

/-- ParseNext; the frame must be HEADERS; length check; io.ReadFull of the field section -/
def readHead (p : PState) (maxHdr : Nat) : PState × Except HeadErr (List Nat) :=
  match parseNext p.fuel p with
  | (p1, .error e) => (p1, .error (.parse e))
  | (p1, .ok (.headers l _)) =>
    if l > maxHdr then (p1, .error .tooLarge)
    else
      match p1.u.readFull l with
      | (u1, .error e) => ({ p1 with u := u1 }, .error (.short e))
      | (u1, .ok bs) => ({ p1 with u := u1 }, .ok bs)
  | (p1, .ok _) => (p1.closeConn errFrameUnexpected, .error .notHeaders)

/-- the receive side of a stream that carries exactly `cells` and then FIN (the `p` of C18's `streamOf`) -/
def pstateOf (cells : List (Nat × Bool)) : PState := { u := { cells := cells, term := .fin } }

/-- On a stream that starts with the HEADERS frame of the section `sec` (within the size limit),
    `readHead` returns `sec` and leaves exactly the rest of the stream, for every chunking. -/
theorem readHead_ok (mh : Nat) (sec : List Nat) (fs : List WFrame) (hsec : sec.length < 2 ^ 62) (hmh : sec.length ≤ mh)
    (hok : ∀ f ∈ fs, f.ok) (cells : List (Nat × Bool)) (hcells : cells.map (·.1) = encFrames (hdrFrameOf sec :: fs)) :
    ∃ cells', readHead (pstateOf cells) mh = (pstateOf cells', .ok sec) ∧ cells'.map (·.1) = encFrames fs := by
  have hok' : ∀ f ∈ hdrFrameOf sec :: fs, f.ok := by
    intro f hf
    rcases List.mem_cons.mp hf with rfl | hf
    · exact hdrFrameOf_ok sec hsec
    · exact hok f hf
  have hfuel : (hdrFrameOf sec :: fs).length < (pstateOf cells).fuel := by
    have := encFrames_length_ge (hdrFrameOf sec :: fs)
    have hl := congrArg List.length hcells
    simp only [List.length_map] at hl
    simp only [PState.fuel, pstateOf]; omega
  have hp := parseNext_frames _ hok' (pstateOf cells).fuel (pstateOf cells) hfuel rfl rfl hcells
  unfold readHead
  generalize parseNext (pstateOf cells).fuel (pstateOf cells) = res at hp ⊢
  obtain ⟨p1, x⟩ := res
  have hk : kindOf (hdrFrameOf sec).ty = .headers := kind_hdr
  simp only [ParseSpec, dropSkips, hk, reduceCtorEq, ↓reduceIte] at hp
  obtain ⟨hx, hcc, hterm, hcl⟩ := hp
  subst hx
  have hpl : (hdrFrameOf sec).payload = sec := rfl
  rw [hpl] at hcl ⊢
  have hnb : ¬ sec.length > mh := by omega
  obtain ⟨hrf, hrest⟩ := readFull_ok p1.u sec (encFrames fs) hcl
  simp only [hnb, ↓reduceIte, hrf]
  refine ⟨p1.u.cells.drop sec.length, ?_, hrest⟩
  obtain ⟨u, cc⟩ := p1
  obtain ⟨cs, term⟩ := u
  simp only at hcc hterm
  subst hcc hterm
  rfl

/-! ### the trailer section handed to the `parseTrailer` callback -/

/-- the field section the trailer callback must be given: the payload of the first HEADERS frame of
    the body part, if the body part gets that far and the section is within the limit -/
def expectTrailer (mh : Nat) : List WFrame → Option (List Nat)
  | [] => none
  | f :: fs =>
    match kindOf f.ty with
    | .data => expectTrailer mh fs
    | .skip => expectTrailer mh fs
    | .headers => if f.payload.length > mh then none else some f.payload
    | _ => none

theorem expectTrailer_dropSkips (mh : Nat) (fs : List WFrame) :
    expectTrailer mh fs = expectTrailer mh (dropSkips fs) := by
  induction fs with
  | nil => rfl
  | cons f fs ih =>
    simp only [dropSkips]
    split
    · next h => rw [← ih]; simp [expectTrailer, h]
    · rfl

theorem expectTrailer_bodyFrames (mh : Nat) (ws : List (List Nat)) (tsec : Option (List Nat))
    (ht : ∀ t, tsec = some t → t.length ≤ mh) : expectTrailer mh (bodyFrames ws tsec) = tsec := by
  induction ws with
  | nil =>
    cases tsec with
    | none => rfl
    | some t =>
      have : ¬ t.length > mh := by have := ht t rfl; omega
      simp [bodyFrames, expectTrailer, hdrFrameOf, kind_hdr, this]
  | cons w ws ih =>
    have hk : kindOf (dataFrameOf w).ty = .data := kind_data
    have : bodyFrames (w :: ws) tsec = dataFrameOf w :: bodyFrames ws tsec := rfl
    rw [this]
    simp only [expectTrailer, hk]
    exact ih

/-- the trailer section the stream will have handed over once it has been read to its end is `T` -/
def TV (mh : Nat) (s : MsgStream) (tr : Bool) (fs : List WFrame) (T : Option (List Nat)) : Prop :=
  (tr = true → s.trailer = T) ∧ (tr = false → s.trailer = none ∧ expectTrailer mh fs = T)

/-- one `Stream.Read`: the pending trailer section is preserved; an error leaves `trailer` alone -/
theorem read_tr_step {mh : Nat} {s : MsgStream} {r : List Nat} {tr : Bool} {fs : List WFrame} {T : Option (List Nat)}
    (h : Inv mh s r tr fs) (hT : TV mh s tr fs T) (n : Nat) :
    ((s.read n).2.2 = none ∧ ∃ r' tr' fs', Inv mh (s.read n).1 r' tr' fs' ∧ TV mh (s.read n).1 tr' fs' T) ∨
    (∃ e, (s.read n).2.2 = some e ∧ (s.read n).1.trailer = s.trailer ∧
      (e = .eof → tr = false → expectTrailer mh fs = none)) := by
  by_cases hr : s.remaining = 0
  · have hrnil : r = [] := by
      have := h.rem; rw [hr] at this; exact List.length_eq_zero_iff.mp this.symm
    subst hrnil
    have hcells : fl s.p.u.cells = encFrames fs := by simpa using h.cells
    have hfuel : fs.length < s.p.fuel := by
      have := encFrames_length_ge fs
      have hl := congrArg List.length hcells
      simp only [fl, List.length_map] at hl
      simp only [PState.fuel]; omega
    have hp := parseNext_frames fs h.ok s.p.fuel s.p hfuel h.term h.cc hcells
    have hexp := expectTrailer_dropSkips mh fs
    simp only [MsgStream.read, hr, ↓reduceIte]
    generalize parseNext s.p.fuel s.p = res at hp ⊢
    obtain ⟨p1, x⟩ := res
    unfold ParseSpec at hp
    cases hds : dropSkips fs with
    | nil =>
      rw [hds] at hp hexp
      simp only at hp
      obtain ⟨hx, hcc, hterm, hcl⟩ := hp
      subst hx
      dsimp only
      right
      have hC : expectTrailer mh fs = none := by rw [hexp]; rfl
      exact ⟨.eof, by simp [hC]⟩
    | cons f rest =>
      rw [hds] at hp hexp
      have hfmem : f ∈ fs := mem_of_mem_dropSkips (by rw [hds]; simp)
      have hrest : ∀ g ∈ rest, g ∈ fs := fun g hg => mem_of_mem_dropSkips (by rw [hds]; simp [hg])
      have hnskip := dropSkips_head hds
      have hctl := h.ctl f hfmem
      cases hk : kindOf f.ty with
      | skip => exact absurd hk hnskip
      | settings => exact absurd hk hctl.1
      | goaway => exact absurd hk hctl.2
      | reserved =>
        simp only [hk] at hp
        obtain ⟨hx, hcc, hcl, hterm⟩ := hp
        subst hx
        dsimp only
        right
        exact ⟨.reserved f.ty, by simp⟩
      | data =>
        simp only [hk] at hp
        obtain ⟨hx, hcc, hterm, hcl⟩ := hp
        subst hx
        cases htr : s.parsedTrailer with
        | true =>
          have : tr = true := by rw [← h.ptr]; exact htr
          subst this
          dsimp only
          simp only [↓reduceIte]
          right
          exact ⟨.dataAfterTrailers, by simp⟩
        | false =>
          have htr' : tr = false := by rw [← h.ptr]; exact htr
          subst htr'
          dsimp only
          simp only [Bool.false_eq_true, ↓reduceIte]
          have hinv : Inv mh (MsgStream.mk p1 f.payload.length false s.trailer s.maxHdr) f.payload false rest :=
            { term := hterm, cc := hcc, cells := hcl, rem := rfl, ptr := rfl, mh := h.mh,
              ok := fun g hg => h.ok g (hrest g hg), ctl := fun g hg => h.ctl g (hrest g hg) }
          have hexp' : expectTrailer mh fs = expectTrailer mh rest := by
            rw [hexp]; simp [expectTrailer, hk]
          by_cases hne : p1.u.cells = []
          · have hpl : f.payload = [] ∧ encFrames rest = [] := by
              have : f.payload ++ encFrames rest = [] := by rw [← hcl, hne]; rfl
              exact List.append_eq_nil_iff.mp this
            have hrestnil := encFrames_eq_nil hpl.2
            right
            have hC : expectTrailer mh fs = none := by rw [hexp', hrestnil]; rfl
            exact ⟨.eof, by simp [MsgStream.readData, Under.read, hne, hpl.1, hterm, Term.err, MsgStream.setU, hC]⟩
          · obtain ⟨hnone, r', hinv', _, _, _⟩ := readData_step hinv n hne
            left
            refine ⟨hnone, r', false, rest, hinv', ?_⟩
            unfold TV
            refine ⟨fun hc => (by cases hc), fun _ => ⟨?_, ?_⟩⟩
            · exact (hT.2 rfl).1
            · rw [← hexp']; exact (hT.2 rfl).2
      | headers =>
        simp only [hk] at hp
        obtain ⟨hx, hcc, hterm, hcl⟩ := hp
        subst hx
        cases htr : s.parsedTrailer with
        | true =>
          have : tr = true := by rw [← h.ptr]; exact htr
          subst this
          dsimp only
          simp only [↓reduceIte]
          right
          exact ⟨.headersAfterTrailers, by simp⟩
        | false =>
          have htr' : tr = false := by rw [← h.ptr]; exact htr
          subst htr'
          dsimp only
          simp only [Bool.false_eq_true, ↓reduceIte]
          by_cases hbig : f.payload.length > mh
          · right
            have hbig' : f.payload.length > s.maxHdr := by rw [h.mh]; exact hbig
            exact ⟨.headersTooLarge, by simp [MsgStream.parseTrailer, hbig']⟩
          · have hbig' : ¬ f.payload.length > s.maxHdr := by rw [h.mh]; exact hbig
            obtain ⟨hrf, hrest'⟩ := readFull_ok p1.u f.payload (encFrames rest) hcl
            left
            have hexp' : expectTrailer mh fs = some f.payload := by
              rw [hexp]; simp [expectTrailer, hk, hbig]
            refine ⟨?_, [], true, rest, ?_, ?_⟩
            · simp [MsgStream.parseTrailer, hbig', hrf, MsgStream.setU]
            · simp only [MsgStream.parseTrailer, hbig', ↓reduceIte, hrf, MsgStream.setU]
              exact { term := hterm, cc := hcc, cells := by simpa using hrest', rem := rfl, ptr := rfl, mh := h.mh,
                      ok := fun g hg => h.ok g (hrest g hg), ctl := fun g hg => h.ctl g (hrest g hg) }
            · unfold TV
              refine ⟨fun _ => ?_, fun hc => by cases hc⟩
              simp only [MsgStream.parseTrailer, hbig', ↓reduceIte, hrf, MsgStream.setU]
              rw [← (hT.2 rfl).2, hexp']
  · have hrne : r ≠ [] := by
      intro hnil; apply hr; rw [h.rem, hnil]; rfl
    have hne : s.p.u.cells ≠ [] := by
      intro hnil
      have := h.cells
      rw [hnil] at this
      have := List.append_eq_nil_iff.mp this.symm
      exact hrne this.1
    simp only [MsgStream.read, hr, ↓reduceIte]
    obtain ⟨hnone, r', hinv', _, _, _⟩ := readData_step h n hne
    left
    refine ⟨hnone, r', tr, fs, hinv', ?_⟩
    unfold TV
    exact ⟨fun ht => hT.1 ht, fun ht => hT.2 ht⟩

/-- a stream read to its clean end has handed the expected trailer section to the callback -/
theorem readMany_trailer {mh : Nat} (ns : List Nat) :
    ∀ (s : MsgStream) (r : List Nat) (tr : Bool) (fs : List WFrame) (T : Option (List Nat)),
      Inv mh s r tr fs → TV mh s tr fs T → (s.readMany ns).2.2 = some .eof → (s.readMany ns).1.trailer = T := by
  induction ns with
  | nil => intro s r tr fs T _ _ he; simp [MsgStream.readMany] at he
  | cons n ns ih =>
    intro s r tr fs T h hT he
    have st := read_tr_step h hT n
    rcases hr : s.read n with ⟨s1, d, eo⟩
    rw [hr] at st
    simp only [MsgStream.readMany, hr] at he ⊢
    rcases st with ⟨hnone, r', tr', fs', hinv', hT'⟩ | ⟨e, hee, htrl, hnone⟩
    · simp only at hnone hinv' hT'
      subst hnone
      exact ih s1 r' tr' fs' T hinv' hT' he
    · simp only at hee htrl
      subst hee
      simp only [Option.some.injEq] at he
      subst he
      show s1.trailer = T
      rw [htrl]
      cases tr with
      | true => exact hT.1 rfl
      | false => rw [(hT.2 rfl).1, ← (hT.2 rfl).2, hnone rfl rfl]

/-! ### the same through `body.Read` -/

theorem check_result (b : Body) : (b.check.2 = none ∧ b.check.1 = b) ∨ (b.check.2 = some .tooMuchData ∧ b.check.1.str.m.trailer = b.str.m.trailer) := by
  unfold Body.check
  split
  · left; exact ⟨rfl, rfl⟩
  · split
    · right
      refine ⟨rfl, ?_⟩
      split
      · rfl
      · rfl
    · left; exact ⟨rfl, rfl⟩

theorem maybeReplace_eof (e : Err) (h : maybeReplaceError e = .eof) : e = .eof := by
  cases e <;> simp [maybeReplaceError] at h ⊢

/-- `body.Read` = the violation checks around one `Stream.Read` (of a possibly smaller size) -/
theorem body_read_shape (b : Body) (n : Nat) :
    ((b.read n).2.2 = some .tooMuchData) ∨
    (∃ n', (b.read n).1.str.m = (b.str.m.read n').1 ∧ (b.read n).2.2 = (b.str.m.read n').2.2.map maybeReplaceError) := by
  unfold Body.read
  have hcr := check_result b
  rcases hc : b.check with ⟨b1, eo⟩
  rw [hc] at hcr
  cases eo with
  | some e =>
    left
    rcases hcr with ⟨h1, _⟩ | ⟨h1, _⟩
    · cases h1
    · simp only [Option.some.injEq] at h1; subst h1; rfl
  | none =>
    have hb : b1 = b := by
      rcases hcr with ⟨_, h2⟩ | ⟨h1, _⟩
      · exact h2
      · cases h1
    subst hb
    dsimp only
    generalize (if b1.hasCL = true then min n b1.remainingCL.toNat else n) = n'
    unfold Body.afterRead
    generalize hb2 : (Body.mk { b1.str with m := (b1.str.m.read n').1 } b1.hasCL
        (b1.remainingCL - ((b1.str.m.read n').2.1.length : Int)) b1.violated) = b2
    have hm2 : b2.str.m = (b1.str.m.read n').1 := by rw [← hb2]
    have hcr2 := check_result b2
    rcases hc2 : b2.check with ⟨b3, eo3⟩
    rw [hc2] at hcr2
    cases eo3 with
    | some e =>
      left
      rcases hcr2 with ⟨h1, _⟩ | ⟨h1, _⟩
      · cases h1
      · simp only [Option.some.injEq] at h1; subst h1; rfl
    | none =>
      have hb3 : b3 = b2 := by
        rcases hcr2 with ⟨_, h2⟩ | ⟨h1, _⟩
        · exact h2
        · cases h1
      subst hb3
      right
      exact ⟨n', hm2, rfl⟩

/-- a body read to its clean end has handed the expected trailer section to the callback -/
theorem body_readMany_trailer {mh : Nat} (ns : List Nat) :
    ∀ (b : Body) (r : List Nat) (tr : Bool) (fs : List WFrame) (T : Option (List Nat)),
      Inv mh b.str.m r tr fs → TV mh b.str.m tr fs T → (b.readMany ns).2.2 = some .eof →
      (b.readMany ns).1.str.m.trailer = T := by
  induction ns with
  | nil => intro b r tr fs T _ _ he; simp [Body.readMany] at he
  | cons n ns ih =>
    intro b r tr fs T h hT he
    have sh := body_read_shape b n
    rcases hr : b.read n with ⟨b1, d, eo⟩
    rw [hr] at sh
    simp only [Body.readMany, hr] at he ⊢
    rcases sh with htm | ⟨n', hm, heo⟩
    · simp only at htm
      subst htm
      simp at he
    · simp only at hm heo
      have st := read_tr_step h hT n'
      rcases st with ⟨hnone, r', tr', fs', hinv', hT'⟩ | ⟨e, hee, htrl, hnone⟩
      · rw [hnone] at heo
        simp only [Option.map_none] at heo
        subst heo
        rw [← hm] at hinv' hT'
        exact ih b1 r' tr' fs' T hinv' hT' he
      · rw [hee] at heo
        simp only [Option.map_some] at heo
        subst heo
        simp only [Option.some.injEq] at he
        have he' := maybeReplace_eof e he
        subst he'
        show b1.str.m.trailer = T
        rw [hm, htrl]
        cases tr with
        | true => exact hT.1 rfl
        | false => rw [(hT.2 rfl).1, ← (hT.2 rfl).2, hnone rfl rfl]

/-! ### a body without a declared length is the stream itself -/

theorem body_nocl_read (b : Body) (hcl : b.hasCL = false) (n : Nat) :
    (b.read n).1.hasCL = false ∧ (b.read n).1.str.m = (b.str.m.read n).1 ∧ (b.read n).2.1 = (b.str.m.read n).2.1 ∧
      (b.read n).2.2 = (b.str.m.read n).2.2.map maybeReplaceError := by
  simp [Body.read, Body.check, Body.afterRead, hcl]

theorem body_nocl_readMany (ns : List Nat) : ∀ (b : Body), b.hasCL = false →
    (b.readMany ns).1.str.m = (b.str.m.readMany ns).1 ∧ (b.readMany ns).2.1 = (b.str.m.readMany ns).2.1 ∧
      (b.readMany ns).2.2 = (b.str.m.readMany ns).2.2.map maybeReplaceError := by
  induction ns with
  | nil => intro b _; exact ⟨rfl, rfl, rfl⟩
  | cons n ns ih =>
    intro b hcl
    obtain ⟨h1, h2, h3, h4⟩ := body_nocl_read b hcl n
    rcases hm : b.str.m.read n with ⟨s1, d', eo'⟩
    rw [hm] at h2 h3 h4
    rcases hr : b.read n with ⟨b1, d, eo⟩
    rw [hr] at h1 h2 h3 h4
    simp only at h1 h2 h3 h4
    subst h2 h3
    simp only [Body.readMany, MsgStream.readMany, hr, hm]
    cases eo' with
    | some e =>
      simp only [Option.map_some] at h4
      subst h4
      exact ⟨rfl, rfl, rfl⟩
    | none =>
      simp only [Option.map_none] at h4
      subst h4
      obtain ⟨i1, i2, i3⟩ := ih b1 h1
      dsimp only
      exact ⟨i1, by rw [i2], i3⟩

end Uquic.Proofs.H3Msg
