/-
C03: the common last step of every successful path through `push`: the frames inside `[a, b)` are
gone, `[a, b)` is cut out of the gaps, the (possibly cut and copied) new frame is stored — or the gap
limit is hit.
-/
import Uquic.Proofs.SorterMid

namespace Uquic.Proofs.Sorter
open Uquic.Model.Reassembly

/-- the frame brought nothing new -/
structure PushDup (s : Sorter) (start en : Nat) (r : PushOut) : Prop where
  res : r.res = .dup
  st : r.s = s
  done : r.done = []
  old : ∀ p, start ≤ p → p < en → ¬ inGap s.gaps p

/-- the frame was taken (or ran into the gap limit) -/
structure PushNew (src : Nat → UInt8) (s : Sorter) (start en : Nat) (cb : Option Nat) (r : PushOut) : Prop where
  rp : r.s.readPos = s.readPos
  gwf : GapsWF r.s.gaps
  glast : ∃ x, r.s.gaps.getLast? = some (x, maxByteCount)
  grp : ∀ g ∈ r.s.gaps, s.readPos ≤ g.1
  gaps : ∀ p, inGap r.s.gaps p ↔ (inGap s.gaps p ∧ ¬(start ≤ p ∧ p < en))
  res : (r.res = .ok ∧ r.s.gaps.length ≤ maxStreamFrameSorterGaps) ∨
        (r.res = .tooManyGaps ∧ r.s.gaps.length > maxStreamFrameSorterGaps)
  inv : r.res = .ok → Inv src r.s
  bufs : r.res = .ok → (r.done ++ cbsOf r.s.queue).Perm (cbList cb ++ cbsOf s.queue)
  bufs_err : r.res = .tooManyGaps → ∃ lost, (r.done ++ cbsOf r.s.queue ++ lost).Perm (cbList cb ++ cbsOf s.queue)

theorem copyShort_perm (wc : Bool) (d : Bytes) (cb : Option Nat) (done : List Nat) :
    ((copyShort wc d cb done).2 ++ cbList (copyShort wc d cb done).1).Perm (cbList cb ++ done) := by
  unfold copyShort
  split
  · simp [cbList]
    exact List.perm_append_comm
  · exact List.perm_append_comm

theorem cbsOf_qset_of_none {q : Queue} {k : Nat} (e : Entry) (h : qget q k = none) :
    cbsOf (qset q k e) = cbList e.cb ++ cbsOf q := by
  simp [qset, cbsOf_cons, qdel_of_qget_none h]

theorem finish {src : Nat → UInt8} {s : Sorter} (h : Inv src s) (start en a b : Nat) (cb : Option Nat)
    (gs' : List Gap) (q2 : Queue) (d : Bytes) (wc : Bool) (done0 : List Nat)
    (hsa : start ≤ a) (hbe : b ≤ en) (hab : a < b) (hrp : s.readPos ≤ a) (hmax : en < maxByteCount)
    (hba : Boundary s.queue a) (hbb : Boundary s.queue b)
    (hq : ∀ x, x ∈ q2 ↔ (x ∈ s.queue ∧ ¬(a ≤ x.1 ∧ x.1 < b))) (hq2 : q2.Sublist s.queue)
    (hcons : (done0 ++ cbsOf q2).Perm (cbsOf s.queue))
    (hg1 : GapsWF gs') (hg2 : ∃ x, gs'.getLast? = some (x, maxByteCount))
    (hg3 : ∀ p, inGap gs' p ↔ (inGap s.gaps p ∧ ¬(a ≤ p ∧ p < b)))
    (hold : ∀ p, start ≤ p → p < en → ¬(a ≤ p ∧ p < b) → ¬ inGap s.gaps p)
    (hd : DataOK src d a b) :
    PushNew src s start en cb
      (if gs'.length > maxStreamFrameSorterGaps then
         ⟨{ s with queue := q2, gaps := gs' }, .tooManyGaps, (copyShort wc d cb done0).2⟩
       else
         ⟨{ s with queue := qset q2 a ⟨d, (copyShort wc d cb done0).1⟩, gaps := gs' }, .ok, (copyShort wc d cb done0).2⟩) := by
  have hg4 : ∀ g ∈ gs', s.readPos ≤ g.1 := by
    intro g hg
    have hp := hg1.pos g hg
    have := (hg3 g.1).mp ⟨g, hg, Nat.le_refl _, hp⟩
    obtain ⟨g0, hg0, h1, _⟩ := this.1
    have := h.grp g0 hg0
    omega
  have hgaps : ∀ p, inGap gs' p ↔ (inGap s.gaps p ∧ ¬(start ≤ p ∧ p < en)) := by
    intro p
    rw [hg3 p]
    constructor
    · rintro ⟨h1, h2⟩
      refine ⟨h1, ?_⟩
      rintro ⟨h3, h4⟩
      exact hold p h3 h4 h2 h1
    · rintro ⟨h1, h2⟩
      exact ⟨h1, fun hc => h2 ⟨by omega, by omega⟩⟩
  have hnone : qget q2 a = none := by
    rw [qget_none_iff]
    intro e he
    have := ((hq _).mp he).2
    simp only at this
    omega
  have hperm := copyShort_perm wc d cb done0
  split
  · rename_i hlen
    refine ⟨rfl, hg1, hg2, hg4, hgaps, Or.inr ⟨rfl, hlen⟩, (by intro hc; simp at hc), (by intro hc; simp at hc), ?_⟩
    intro _
    refine ⟨cbList (copyShort wc d cb done0).1, ?_⟩
    simp only
    calc ((copyShort wc d cb done0).2 ++ cbsOf q2 ++ cbList (copyShort wc d cb done0).1).Perm
          (((copyShort wc d cb done0).2 ++ cbList (copyShort wc d cb done0).1) ++ cbsOf q2) := by
            rw [List.append_assoc, List.append_assoc]
            exact List.Perm.append_left _ List.perm_append_comm
      _ |>.Perm ((cbList cb ++ done0) ++ cbsOf q2) := List.Perm.append_right _ hperm
      _ |>.Perm (cbList cb ++ cbsOf s.queue) := by
            rw [List.append_assoc]
            exact List.Perm.append_left _ hcons
  · rename_i hlen
    refine ⟨rfl, hg1, hg2, hg4, hgaps, Or.inl ⟨rfl, by simp only; omega⟩, ?_, ?_, (by intro hc; simp at hc)⟩
    · intro _
      exact inv_assemble h gs' q2 a b d _ hg1 hg2 hg3 hg4 hq hq2 hba hbb hrp hab (by omega) hd.1 hd.2
    · intro _
      simp only
      rw [cbsOf_qset_of_none _ hnone]
      simp only
      calc ((copyShort wc d cb done0).2 ++ (cbList (copyShort wc d cb done0).1 ++ cbsOf q2)).Perm
            (((copyShort wc d cb done0).2 ++ cbList (copyShort wc d cb done0).1) ++ cbsOf q2) := by
              rw [List.append_assoc]
        _ |>.Perm ((cbList cb ++ done0) ++ cbsOf q2) := List.Perm.append_right _ hperm
        _ |>.Perm (cbList cb ++ cbsOf s.queue) := by
              rw [List.append_assoc]
              exact List.Perm.append_left _ hcons

end Uquic.Proofs.Sorter
