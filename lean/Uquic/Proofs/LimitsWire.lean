/-
C12 — a small byte-level model of marshalling a list of integer transport parameters (RFC 9000 §18:
id varint, length varint, value varint) and the proof that the parser used by the oracle
(`Uquic.Spec.LimitsMon.decodeVarint` / `parseTLVs`) reads back exactly the listed pairs.
-/
import Uquic.Spec.LimitsMon

namespace Uquic.Proofs.LimitsWire
open Uquic.Model.UQuic.Limits Uquic.Spec.LimitsMon

/-- RFC 9000 §16 variable-length integer encoding (shortest form), for v < 2^62 -/
def encodeVarint (v : Nat) : List Nat :=
  if v < 64 then [v]
  else if v < 16384 then [64 + v / 256, v % 256]
  else if v < 1073741824 then [128 + v / 16777216, v / 65536 % 256, v / 256 % 256, v % 256]
  else [192 + v / 72057594037927936, v / 281474976710656 % 256, v / 1099511627776 % 256, v / 4294967296 % 256,
        v / 16777216 % 256, v / 65536 % 256, v / 256 % 256, v % 256]

def marshalOne (p : Nat × Nat) : List Nat :=
  encodeVarint p.1 ++ (encodeVarint (encodeVarint p.2).length ++ encodeVarint p.2)

/-- uTLS `TransportParameters.Marshal` restricted to integer-valued parameters -/
def marshal : List (Nat × Nat) → List Nat
  | [] => []
  | p :: ps => marshalOne p ++ marshal ps

def WellFormed (ps : List (Nat × Nat)) : Prop := ∀ p ∈ ps, p.1 < 4611686018427387904 ∧ p.2 < 4611686018427387904

instance (ps : List (Nat × Nat)) : Decidable (WellFormed ps) := by unfold WellFormed; exact inferInstance

def decodeBody (t : Nat × List Nat) : Option (Nat × Nat) :=
  match decodeVarint t.2 with
  | some (v, []) => some (t.1, v)
  | _ => none

/-- what a peer reads from the bytes: the (id, value) pairs in wire order -/
def parseInts (bs : List Nat) : Option (List (Nat × Nat)) :=
  (parseTLVs bs.length bs).bind fun tlvs => tlvs.mapM decodeBody

def toInts (ps : List (Nat × Nat)) : ParamList := ps.map fun p => ((p.1 : Int), (p.2 : Int))

/-- the record a peer-like decoder builds from the bytes, over the ids in `R` / over all standard ids -/
def recordOfBytesWith (R : List Int) (bs : List Nat) : Option OwnParams :=
  (parseInts bs).map fun ps => populateWith R (toInts ps)
def recordOfBytes (bs : List Nat) : Option OwnParams :=
  (parseInts bs).map fun ps => recordAll (toInts ps)

theorem encodeVarint_length (v : Nat) : (encodeVarint v).length ≤ 8 ∧ 0 < (encodeVarint v).length := by
  unfold encodeVarint
  split
  · simp
  · split
    · simp
    · split <;> simp

theorem decode_encode (v : Nat) (hv : v < 4611686018427387904) (tail : List Nat) :
    decodeVarint (encodeVarint v ++ tail) = some (v, tail) := by
  unfold encodeVarint
  split
  · next h =>
    have hb : v / 64 = 0 := by omega
    simp only [List.cons_append, List.nil_append, decodeVarint, hb]
    simp [beNat]; omega
  · split
    · next h1 h2 =>
      have hb : (64 + v / 256) / 64 = 1 := by omega
      simp only [List.cons_append, List.nil_append, decodeVarint, hb]
      simp [beNat]; omega
    · split
      · next h1 h2 h3 =>
        have hb : (128 + v / 16777216) / 64 = 2 := by omega
        simp only [List.cons_append, List.nil_append, decodeVarint, hb]
        simp [beNat]; omega
      · next h1 h2 h3 =>
        have hb : (192 + v / 72057594037927936) / 64 = 3 := by omega
        simp only [List.cons_append, List.nil_append, decodeVarint, hb]
        simp [beNat]; omega

theorem decode_encode_nil (v : Nat) (hv : v < 4611686018427387904) :
    decodeVarint (encodeVarint v) = some (v, []) := by
  have := decode_encode v hv []
  simpa using this

theorem encodeVarint_ne_nil (v : Nat) : encodeVarint v ≠ [] := by
  have := (encodeVarint_length v).2
  intro h; rw [h] at this; simp at this

theorem parseTLVs_marshalOne (fuel : Nat) (p : Nat × Nat) (h1 : p.1 < 4611686018427387904)
    (_h2 : p.2 < 4611686018427387904) (rest : List Nat) :
    parseTLVs (fuel + 1) (marshalOne p ++ rest) =
      (parseTLVs fuel rest).bind (fun r => some ((p.1, encodeVarint p.2) :: r)) := by
  have hne : (marshalOne p ++ rest).isEmpty = false := by
    unfold marshalOne
    cases h : encodeVarint p.1 with
    | nil => exact absurd h (encodeVarint_ne_nil _)
    | cons a l => simp
  have hlen := (encodeVarint_length p.2).1
  have hd1 : decodeVarint (marshalOne p ++ rest) =
      some (p.1, encodeVarint (encodeVarint p.2).length ++ (encodeVarint p.2 ++ rest)) := by
    unfold marshalOne
    rw [List.append_assoc, List.append_assoc]
    exact decode_encode p.1 h1 _
  have hd2 : decodeVarint (encodeVarint (encodeVarint p.2).length ++ (encodeVarint p.2 ++ rest)) =
      some ((encodeVarint p.2).length, encodeVarint p.2 ++ rest) :=
    decode_encode _ (by omega) _
  rw [parseTLVs]
  simp only [hne, Bool.false_eq_true, if_false, hd1, hd2, Option.bind_eq_bind, Option.bind_some,
    List.length_append]
  have hlt : ¬ ((encodeVarint p.2).length + rest.length < (encodeVarint p.2).length) := by omega
  simp only [hlt, if_false, List.drop_left, List.take_left]

theorem parseTLVs_nil (fuel : Nat) : parseTLVs fuel [] = some [] := by
  cases fuel <;> simp [parseTLVs]

theorem parseTLVs_marshal (ps : List (Nat × Nat)) (hwf : WellFormed ps) :
    ∀ fuel, ps.length ≤ fuel → parseTLVs fuel (marshal ps) = some (ps.map fun p => (p.1, encodeVarint p.2)) := by
  induction ps with
  | nil => intro fuel _; simp [marshal, parseTLVs_nil]
  | cons p ps ih =>
    intro fuel hf
    cases fuel with
    | zero => simp at hf
    | succ fuel =>
      have hp := hwf p (by simp)
      have ih' := ih (fun q hq => hwf q (by simp [hq])) fuel (by simpa using hf)
      rw [marshal, parseTLVs_marshalOne fuel p hp.1 hp.2, ih']
      simp

theorem marshal_length (ps : List (Nat × Nat)) : ps.length ≤ (marshal ps).length := by
  induction ps with
  | nil => simp [marshal]
  | cons p ps ih =>
    have := (encodeVarint_length p.1).2
    simp only [marshal, marshalOne, List.length_append, List.length_cons]
    omega

theorem mapM_decodeBody (ps : List (Nat × Nat)) (hwf : WellFormed ps) :
    (ps.map fun p => (p.1, encodeVarint p.2)).mapM decodeBody = some ps := by
  induction ps with
  | nil => simp
  | cons p ps ih =>
    have hp := hwf p (by simp)
    have ih' := ih (fun q hq => hwf q (by simp [hq]))
    simp only [List.map_cons, List.mapM_cons, decodeBody, decode_encode_nil p.2 hp.2, ih']
    simp

/-- the marshalled bytes parse back to exactly the listed (id, value) pairs, in order -/
theorem parse_marshal (ps : List (Nat × Nat)) (hwf : WellFormed ps) : parseInts (marshal ps) = some ps := by
  unfold parseInts
  rw [parseTLVs_marshal ps hwf _ (marshal_length ps)]
  simp only [Option.bind_some]
  exact mapM_decodeBody ps hwf

/-- hence the record built from the bytes over the recognised ids is the populated record -/
theorem record_of_marshal (R : List Int) (ps : List (Nat × Nat)) (hwf : WellFormed ps) :
    recordOfBytesWith R (marshal ps) = some (populateWith R (toInts ps)) := by
  simp [recordOfBytesWith, parse_marshal ps hwf]

end Uquic.Proofs.LimitsWire
