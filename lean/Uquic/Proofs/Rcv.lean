/-
Helper lemmas for C07: the interval list of receivedPacketHistory.
-/
import Uquic.Model.Ack.Rcv

namespace Uquic.Proofs.Rcv
open Uquic.Model.Rcv

macro "arith" : tactic => `(tactic| first | omega | (simp; omega) | simp)

def covers (rs : List Range) (q : Int) : Prop := ∃ r ∈ rs, r.1 ≤ q ∧ q ≤ r.2

/-- head is the highest range; every range non-empty; every lower range ends at least two below -/
def WF : List Range → Prop
  | [] => True
  | r :: rest => r.1 ≤ r.2 ∧ (∀ x ∈ rest, x.2 + 1 < r.1) ∧ WF rest

@[simp] theorem covers_nil (q : Int) : covers [] q ↔ False := by simp [covers]
theorem covers_cons (r : Range) (rs : List Range) (q : Int) :
    covers (r :: rs) q ↔ (r.1 ≤ q ∧ q ≤ r.2) ∨ covers rs q := by
  simp [covers]

theorem WF.tail {r : Range} {rs : List Range} (h : WF (r :: rs)) : WF rs := h.2.2

theorem WF.all_wf {rs : List Range} (h : WF rs) : ∀ x ∈ rs, x.1 ≤ x.2 := by
  induction rs with
  | nil => simp
  | cons r rest ih =>
    intro x hx
    rcases List.mem_cons.mp hx with rfl | hx
    · exact h.1
    · exact ih h.2.2 x hx

/-- everything covered by a WF list headed by `r` is ≤ r.2 -/
theorem covers_le_head {r : Range} {rs : List Range} (h : WF (r :: rs)) {q : Int}
    (hc : covers (r :: rs) q) : q ≤ r.2 := by
  rcases (covers_cons r rs q).mp hc with hq | ⟨x, hx, _, hx2⟩
  · exact hq.2
  · have := h.2.1 x hx; have := h.1; omega

theorem addRev_bound (p b : Int) (l : List Range) (hl : ∀ x ∈ l, x.2 + 1 < b) (hp : p + 1 < b) :
    ∀ x ∈ (addRev p l).1, x.2 + 1 < b := by
  induction l with
  | nil => simp [addRev]; omega
  | cons r rest ih =>
    have hr := hl r (by simp)
    have hrest : ∀ x ∈ rest, x.2 + 1 < b := fun x hx => hl x (by simp [hx])
    unfold addRev
    split
    · exact hl
    · split
      · intro x hx
        rcases List.mem_cons.mp hx with rfl | hx
        · simpa using hp
        · exact hrest x hx
      · split
        · cases rest with
          | nil => simp; omega
          | cons q rest' =>
            simp only
            split
            · intro x hx
              rcases List.mem_cons.mp hx with rfl | hx
              · simpa using hr
              · exact hrest x (by simp [hx])
            · intro x hx
              rcases List.mem_cons.mp hx with rfl | hx
              · simpa using hr
              · exact hrest x hx
        · split
          · intro x hx
            rcases List.mem_cons.mp hx with rfl | hx
            · simpa using hp
            · exact hl x hx
          · intro x hx
            simp only at hx
            rcases List.mem_cons.mp hx with rfl | hx
            · exact hr
            · exact ih hrest x hx


theorem addRev_wf (p : Int) (l : List Range) (h : WF l) : WF (addRev p l).1 := by
  induction l with
  | nil => simp [addRev, WF]
  | cons r rest ih =>
    obtain ⟨hr, hlow, hrest⟩ := h
    unfold addRev
    split
    · exact ⟨hr, hlow, hrest⟩
    · split
      · refine ⟨by simp; omega, ?_, hrest⟩
        intro x hx; have := hlow x hx; simp; omega
      · split
        · cases rest with
          | nil => simp [WF]; omega
          | cons q rest' =>
            simp only
            obtain ⟨hq, hqlow, hrest'⟩ := hrest
            have hqr := hlow q (by simp)
            split
            · refine ⟨by simp; omega, ?_, hrest'⟩
              intro x hx; have := hqlow x hx; simpa using this
            · refine ⟨by simp; omega, ?_, hq, hqlow, hrest'⟩
              intro x hx
              rcases List.mem_cons.mp hx with rfl | hx
              · simp; omega
              · have := hqlow x hx; simp; omega
        · split
          · refine ⟨by simp, ?_, hr, hlow, hrest⟩
            intro x hx
            rcases List.mem_cons.mp hx with rfl | hx
            · simp; omega
            · have := hlow x hx; simp; omega
          · refine ⟨hr, ?_, ih hrest⟩
            apply addRev_bound p r.1 rest hlow
            omega

theorem addRev_covers (p : Int) (l : List Range) (h : WF l) (q : Int) :
    covers (addRev p l).1 q ↔ covers l q ∨ q = p := by
  induction l with
  | nil => simp [addRev, covers]; omega
  | cons r rest ih =>
    obtain ⟨hr, hlow, hrest⟩ := h
    unfold addRev
    split
    · rename_i hin
      constructor
      · intro h; exact Or.inl h
      · rintro (h | rfl)
        · exact h
        · exact (covers_cons _ _ _).mpr (Or.inl hin)
    · split
      · rename_i h1 h2
        simp only [covers_cons]
        constructor
        · rintro (⟨a, b⟩ | h)
          · (try simp at a b); by_cases hq : q = p
            · exact Or.inr hq
            · exact Or.inl (Or.inl ⟨a, by omega⟩)
          · exact Or.inl (Or.inr h)
        · rintro ((⟨a, b⟩ | h) | rfl)
          · exact Or.inl ⟨a, by arith⟩
          · exact Or.inr h
          · exact Or.inl ⟨by arith, by arith⟩
      · split
        · rename_i h1 h2 h3
          cases rest with
          | nil =>
            simp only [covers_cons, covers_nil, or_false]
            constructor
            · rintro ⟨a, b⟩
              (try simp at a b); by_cases hq : q = p
              · exact Or.inr hq
              · exact Or.inl ⟨by omega, b⟩
            · rintro (⟨a, b⟩ | rfl)
              · exact ⟨by arith, b⟩
              · exact ⟨by arith, by arith⟩
          | cons x rest' =>
            simp only
            have hx := hlow x (by simp)
            split
            · rename_i h4
              simp only [covers_cons]
              constructor
              · rintro (⟨a, b⟩ | h)
                · (try simp at a b)
                  by_cases hq : q = p
                  · exact Or.inr hq
                  · by_cases hq2 : q ≤ x.2
                    · exact Or.inl (Or.inr (Or.inl ⟨a, hq2⟩))
                    · exact Or.inl (Or.inl ⟨by omega, b⟩)
                · exact Or.inl (Or.inr (Or.inr h))
              · rintro ((⟨a, b⟩ | ⟨a, b⟩ | h) | rfl)
                · exact Or.inl ⟨by have := hrest.1; arith, b⟩
                · exact Or.inl ⟨a, by arith⟩
                · exact Or.inr h
                · exact Or.inl ⟨by have := hrest.1; arith, by arith⟩
            · simp only [covers_cons]
              constructor
              · rintro (⟨a, b⟩ | h)
                · (try simp at a b)
                  by_cases hq : q = p
                  · exact Or.inr hq
                  · exact Or.inl (Or.inl ⟨by omega, b⟩)
                · exact Or.inl (Or.inr h)
              · rintro ((⟨a, b⟩ | h) | rfl)
                · exact Or.inl ⟨by arith, b⟩
                · exact Or.inr h
                · exact Or.inl ⟨by arith, by arith⟩
        · split
          · simp only [covers_cons]
            constructor
            · rintro (⟨a, b⟩ | h)
              · (try simp at a b); exact Or.inr (by omega)
              · exact Or.inl h
            · rintro (h | rfl)
              · exact Or.inr h
              · exact Or.inl ⟨by arith, by arith⟩
          · simp only [covers_cons, ih hrest]
            constructor
            · rintro (h | h | h)
              · exact Or.inl (Or.inl h)
              · exact Or.inl (Or.inr h)
              · exact Or.inr h
            · rintro ((h | h) | h)
              · exact Or.inl h
              · exact Or.inr (Or.inl h)
              · exact Or.inr (Or.inr h)


theorem addRev_isNew (p : Int) (l : List Range) (h : WF l) :
    (addRev p l).2 = false ↔ covers l p := by
  induction l with
  | nil => simp [addRev]
  | cons r rest ih =>
    obtain ⟨hr, hlow, hrest⟩ := h
    unfold addRev
    split
    · rename_i hin; simp [covers_cons, hin]
    · rename_i hnin
      have hnot : ¬ (r.1 ≤ p ∧ p ≤ r.2) := hnin
      split
      · simp only [covers_cons, Bool.true_eq_false, false_iff]
        rintro (h | ⟨x, hx, a, b⟩)
        · exact hnot h
        · have := hlow x hx; omega
      · split
        · cases rest with
          | nil => simp [covers_cons, hnot]
          | cons x rest' =>
            simp only
            split <;>
            · simp only [covers_cons, Bool.true_eq_false, false_iff]
              rintro (h | ⟨a, b⟩ | ⟨y, hy, a, b⟩)
              · exact hnot h
              · have := hlow x (by simp); omega
              · have := hlow y (by simp [hy]); omega
        · split
          · simp only [covers_cons, Bool.true_eq_false, false_iff]
            rintro (h | ⟨x, hx, a, b⟩)
            · exact hnot h
            · have := hlow x hx; omega
          · simp only [ih hrest, covers_cons]
            constructor
            · exact Or.inr
            · rintro (h | h)
              · exact absurd h hnot
              · exact h

/-! ### the range cap: `take n` keeps the `n` highest ranges -/

theorem WF_take (n : Nat) (l : List Range) (h : WF l) : WF (l.take n) := by
  induction l generalizing n with
  | nil => simp [WF]
  | cons r rest ih =>
    cases n with
    | zero => simp [WF]
    | succ n =>
      simp only [List.take_succ_cons]
      exact ⟨h.1, fun x hx => h.2.1 x (List.mem_of_mem_take hx), ih n h.2.2⟩

theorem covers_take (n : Nat) (l : List Range) (q : Int) (h : covers (l.take n) q) : covers l q := by
  obtain ⟨r, hr, a⟩ := h
  exact ⟨r, List.mem_of_mem_take hr, a⟩

/-- what the cap forgets lies strictly below everything it keeps -/
theorem take_forgets_below (n : Nat) (l : List Range) (h : WF l) (q : Int)
    (hc : covers l q) (hn : ¬ covers (l.take n) q) : ∀ x ∈ l.take n, q < x.1 := by
  induction l generalizing n with
  | nil => simp
  | cons r rest ih =>
    cases n with
    | zero => simp
    | succ n =>
      simp only [List.take_succ_cons] at hn ⊢
      have hnr : ¬ (r.1 ≤ q ∧ q ≤ r.2) := fun hh => hn ((covers_cons _ _ _).mpr (Or.inl hh))
      have hnrest : ¬ covers (rest.take n) q := fun hh => hn ((covers_cons _ _ _).mpr (Or.inr hh))
      have hcrest : covers rest q := by
        rcases (covers_cons _ _ _).mp hc with hh | hh
        · exact absurd hh hnr
        · exact hh
      intro x hx
      rcases List.mem_cons.mp hx with rfl | hx
      · obtain ⟨y, hy, a, b⟩ := hcrest
        have := h.2.1 y hy; omega
      · exact ih n h.2.2 hcrest hnrest x hx

/-! ### DeleteBelow -/

theorem delBelowDesc_spec (p : Int) (l : List Range) (h : WF l) :
    WF (delBelowDesc p l).1 ∧
    (∀ q, covers (delBelowDesc p l).1 q ↔ covers l q ∧ p ≤ q) ∧
    ((delBelowDesc p l).2 = false → (delBelowDesc p l).1 = [] ∧ ∀ x ∈ l, x.2 < p) ∧
    ((delBelowDesc p l).2 = true → ∃ x ∈ l, p ≤ x.2) ∧
    (∀ x ∈ (delBelowDesc p l).1, ∃ y ∈ l, x.2 = y.2 ∧ y.1 ≤ x.1) := by
  induction l with
  | nil => simp [delBelowDesc, WF]
  | cons r rest ih =>
    obtain ⟨hr, hlow, hrest⟩ := h
    obtain ⟨ihwf, ihcov, ihf, iht, ihsub⟩ := ih hrest
    unfold delBelowDesc
    generalize hd : delBelowDesc p rest = d at ihwf ihcov ihf iht ihsub
    obtain ⟨rest', stopped⟩ := d
    simp only at ihwf ihcov ihf iht ihsub ⊢
    cases stopped with
    | true =>
      simp only [if_true]
      obtain ⟨x, hx, hxp⟩ := iht rfl
      have hxr := hlow x hx
      refine ⟨⟨hr, ?_, ihwf⟩, ?_, by simp, fun _ => ⟨x, by simp [hx], hxp⟩, ?_⟩
      · intro y hy
        obtain ⟨z, hz, e, _⟩ := ihsub y hy
        have := hlow z hz; omega
      · intro q
        simp only [covers_cons, ihcov]
        constructor
        · rintro (⟨a, b⟩ | ⟨c, d⟩)
          · exact ⟨Or.inl ⟨a, b⟩, by omega⟩
          · exact ⟨Or.inr c, d⟩
        · rintro ⟨(h | h), d⟩
          · exact Or.inl h
          · exact Or.inr ⟨h, d⟩
      · intro y hy
        rcases List.mem_cons.mp hy with rfl | hy
        · exact ⟨y, by simp, rfl, Int.le_refl _⟩
        · obtain ⟨z, hz, e⟩ := ihsub y hy
          exact ⟨z, by simp [hz], e⟩
    | false =>
      obtain ⟨hnil, hall⟩ := ihf rfl
      subst hnil
      simp only [Bool.false_eq_true, if_false]
      split
      · rename_i hlt
        refine ⟨by simp [WF], ?_, ?_, by simp, by simp⟩
        · intro q
          simp only [covers_nil, covers_cons, false_iff]
          rintro ⟨(⟨a, b⟩ | ⟨x, hx, a, b⟩), c⟩
          · omega
          · have := hall x hx; omega
        · intro _
          refine ⟨rfl, ?_⟩
          intro x hx
          rcases List.mem_cons.mp hx with rfl | hx
          · exact hlt
          · exact hall x hx
      · rename_i hge
        split
        · rename_i hclip
          refine ⟨by simp [WF]; omega, ?_, by simp, fun _ => ⟨r, by simp, by omega⟩, ?_⟩
          · intro q
            simp only [covers_cons, covers_nil, or_false]
            constructor
            · rintro ⟨a, b⟩
              exact ⟨Or.inl ⟨by (try simp at a); omega, b⟩, by (try simp at a); omega⟩
            · rintro ⟨(⟨a, b⟩ | ⟨x, hx, a, b⟩), c⟩
              · exact ⟨by arith, b⟩
              · have := hall x hx; omega
          · intro y hy
            simp at hy; subst hy
            exact ⟨r, by simp, rfl, by arith⟩
        · rename_i hnclip
          refine ⟨by simp [WF]; exact hr, ?_, by simp, fun _ => ⟨r, by simp, by omega⟩, ?_⟩
          · intro q
            simp only [covers_cons, covers_nil, or_false]
            constructor
            · rintro ⟨a, b⟩
              exact ⟨Or.inl ⟨a, b⟩, by omega⟩
            · rintro ⟨(h | ⟨x, hx, a, b⟩), c⟩
              · exact h
              · have := hall x hx; omega
          · intro y hy
            simp at hy; subst hy
            exact ⟨y, by simp, rfl, Int.le_refl _⟩

/-! ### IsPotentiallyDuplicate -/

theorem dupScan_iff (p : Int) (l : List Range) (h : WF l) : dupScan p l = true ↔ covers l p := by
  induction l with
  | nil => simp [dupScan]
  | cons r rest ih =>
    obtain ⟨hr, hlow, hrest⟩ := h
    unfold dupScan
    split
    · rename_i hgt
      simp only [Bool.false_eq_true, false_iff, covers_cons]
      rintro (⟨a, b⟩ | ⟨x, hx, a, b⟩)
      · omega
      · have := hlow x hx; omega
    · split
      · rename_i hin
        simp [covers_cons]; exact Or.inl ⟨hin.2, hin.1⟩
      · rename_i hnin
        rw [ih hrest, covers_cons]
        constructor
        · exact Or.inr
        · rintro (⟨a, b⟩ | h)
          · exact absurd ⟨b, a⟩ hnin
          · exact h

end Uquic.Proofs.Rcv
