/-
C01: the receive side of datagramQueue returns an in-order sub-sequence of what it was handed.
-/
import Uquic.Spec.DgramRun

namespace Uquic.Proofs.Dgram
open Uquic.Model.Stream.Dgram Uquic.Spec.DgramRun

def DInv (s : State) : Prop :=
  (s.returned ++ s.rcvQueue).Sublist s.handed ∧ s.rcvQueue.length ≤ rcvCap

theorem recvIter_inv {s : State} (h : DInv s) : DInv (recvIter s).1 := by
  unfold recvIter
  split
  · rename_i d rest hq
    simp only [DInv]
    obtain ⟨h1, h2⟩ := h
    rw [hq] at h1 h2
    exact ⟨by simpa using h1, by simp at h2 ⊢; omega⟩
  · split <;> exact h

theorem addIter_inv {s : State} (h : DInv s) (p : Bytes) : DInv (addIter s p).1 := by
  unfold addIter
  split
  · exact h
  · split <;> exact h

theorem step_inv {s : State} (h : DInv s) (op : Op) : DInv (stepOp s op) := by
  cases op with
  | handle p =>
    simp only [stepOp, handle]
    obtain ⟨h1, h2⟩ := h
    split
    · refine ⟨?_, by simp; omega⟩
      simp only
      rw [← List.append_assoc]
      exact List.Sublist.append h1 (List.Sublist.refl _)
    · exact ⟨h1.trans (List.sublist_append_left _ _), h2⟩
  | recv =>
    simp only [stepOp, recv]
    split
    · exact h
    · exact recvIter_inv h
  | wakeRecv =>
    simp only [stepOp]
    split
    · exact recvIter_inv h
    · exact h
  | close => exact h
  | add p =>
    simp only [stepOp, add]
    split
    · exact h
    · exact addIter_inv h p
  | wakeAdd =>
    simp only [stepOp]
    split
    · exact addIter_inv h _
    · exact h
  | pop =>
    simp only [stepOp, pop]
    split
    · rename_i s' hs
      split at hs
      · simp at hs
      · simp only [Option.some.injEq] at hs; subst hs; exact h
    · exact h

theorem run_inv (ops : List Op) : DInv (run ops) := by
  unfold run
  suffices ∀ s, DInv s → DInv (ops.foldl stepOp s) from this {} ⟨by simp, by simp⟩
  induction ops with
  | nil => intro s h; exact h
  | cons op rest ih => intro s h; exact ih _ (step_inv h op)

end Uquic.Proofs.Dgram
