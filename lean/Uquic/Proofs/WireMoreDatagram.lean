import Uquic.Proofs.WireSplit

/-! DATAGRAM `MaxDataLen`: a frame filled up to it fits the budget; the budget range is tight. -/

set_option linter.unusedSimpArgs false

namespace Uquic.Proofs.WireMore
open Uquic.Proofs.Wire
open Uquic.Model.Wire Uquic.Model.Wire.Varint

theorem datagram_bytes_length (dlp : Bool) (data : Bytes) (hd : data.length ≤ maxVarInt8) :
    (Frame.datagram dlp data).bytes.length = 1 + (if dlp then len data.length else 0) + data.length := by
  cases dlp <;> simp [Frame.bytes, len_enc, hd] <;> omega

/-- a DATAGRAM frame carrying at most `MaxDataLen(maxSize)` bytes occupies at most `maxSize` bytes.
    With a length field the budget must not exceed 16386: `MaxDataLen` corrects by one byte for a
    2-byte length, which does not cover the 4-byte length of 16384 data bytes and more. -/
theorem datagram_maxDataLen_fits (dlp : Bool) (data : Bytes) (maxSize : Nat)
    (hm : dlp = true → maxSize ≤ 16386) (hmax : maxSize ≤ maxVarInt8)
    (hn : data.length ≤ datagramMaxDataLen dlp maxSize) (hpos : 0 < data.length) :
    (Frame.datagram dlp data).bytes.length ≤ maxSize := by
  have hm8 := max8_eq
  unfold datagramMaxDataLen at hn
  cases dlp with
  | false =>
    simp only [Bool.false_eq_true, if_false, false_and] at hn
    have hd : data.length ≤ maxVarInt8 := by split at hn <;> omega
    rw [datagram_bytes_length false data hd]
    simp only [Bool.false_eq_true, if_false]
    split at hn <;> omega
  | true =>
    have hm' := hm rfl
    simp only [if_true, true_and] at hn
    by_cases hfit : 1 + 1 > maxSize
    · rw [if_pos hfit] at hn; omega
    · rw [if_neg hfit] at hn
      have hd : data.length ≤ maxVarInt8 := by split at hn <;> omega
      rw [datagram_bytes_length true data hd]
      simp only [if_true]
      unfold len at hn ⊢
      rw [max1_eq, max2_eq, max4_eq, max8_eq] at *
      repeat' split at hn
      all_goals (repeat' split)
      all_goals omega

/-- the range is tight: with a budget of 16387 bytes, `MaxDataLen` allows 16384 data bytes, whose
    frame needs a 4-byte length field and 16389 bytes -/
theorem datagram_maxDataLen_witness :
    ∃ data : Bytes, data.length ≤ datagramMaxDataLen true 16387 ∧ 0 < data.length ∧
      (Frame.datagram true data).bytes.length > 16387 := by
  refine ⟨List.replicate 16384 0, ?_, by rw [List.length_replicate]; omega, ?_⟩
  · rw [List.length_replicate]; decide
  · rw [datagram_bytes_length true _ (by rw [List.length_replicate]; decide), List.length_replicate]
    decide

end Uquic.Proofs.WireMore
