import Uquic.Proofs.WireFrames2
import Uquic.Proofs.WireFrames3
import Uquic.Proofs.WireStream
import Uquic.Proofs.WireAck

/-! Every frame-body parser only looks at the bytes it reports as consumed (`Stable`). -/

namespace Uquic.Proofs.Wire
open Uquic.Model.Wire Uquic.Model.Wire.Varint

theorem take_len_append (a b : Bytes) : (a ++ b).take a.length = a := List.take_left' rfl
theorem take_len2 (a b c : Bytes) : (a ++ b ++ c).take (a.length + b.length) = a ++ b :=
  List.take_left' (by simp)
theorem take_len3 (a b c d : Bytes) : (a ++ b ++ c ++ d).take (a.length + b.length + c.length) = a ++ b ++ c :=
  List.take_left' (by simp; omega)
theorem take_len4 (a b c d e : Bytes) :
    (a ++ b ++ c ++ d ++ e).take (a.length + b.length + c.length + d.length) = a ++ b ++ c ++ d :=
  List.take_left' (by simp; omega)

theorem stable_parse1 (mk : Nat → Frame) : Stable (parse1 mk) := by
  intro b f n h
  obtain ⟨p, r, v, rfl, hd, rfl, rfl⟩ := parse1_inv mk b f n h
  refine ⟨by simp, ?_⟩
  rw [take_len_append]
  simpa using parse1_of mk hd []

theorem stable_maxData : Stable parseMaxData := by rw [parseMaxData_eq]; exact stable_parse1 _
theorem stable_dataBlocked : Stable parseDataBlocked := by rw [parseDataBlocked_eq]; exact stable_parse1 _
theorem stable_retireConnectionID : Stable parseRetireConnectionID := by
  rw [parseRetireConnectionID_eq]; exact stable_parse1 _

theorem stable_maxStreams (typ : Nat) : Stable (fun b => parseMaxStreams b typ) := by
  intro b f n h
  obtain ⟨p, r, v, rfl, hd, hv, rfl, rfl⟩ := parseMaxStreams_inv b typ f n h
  refine ⟨by simp, ?_⟩
  rw [take_len_append]
  simpa using parseMaxStreams_of hd hv typ []

theorem stable_streamsBlocked (typ : Nat) : Stable (fun b => parseStreamsBlocked b typ) := by
  intro b f n h
  obtain ⟨p, r, v, rfl, hd, hv, rfl, rfl⟩ := parseStreamsBlocked_inv b typ f n h
  refine ⟨by simp, ?_⟩
  rw [take_len_append]
  simpa using parseStreamsBlocked_of hd hv typ []

theorem stable_maxStreamData : Stable parseMaxStreamData := by
  intro b f n h
  obtain ⟨p1, p2, r, sid, v, rfl, h1, h2, rfl, rfl⟩ := parseMaxStreamData_inv b f n h
  refine ⟨by simp only [List.length_append]; omega, ?_⟩
  rw [take_len2]
  simpa using parseMaxStreamData_of h1 h2 []

theorem stable_stopSending : Stable parseStopSending := by
  intro b f n h
  obtain ⟨p1, p2, r, sid, v, rfl, h1, h2, rfl, rfl⟩ := parseStopSending_inv b f n h
  refine ⟨by simp only [List.length_append]; omega, ?_⟩
  rw [take_len2]
  simpa using parseStopSending_of h1 h2 []

theorem stable_streamDataBlocked : Stable parseStreamDataBlocked := by
  intro b f n h
  obtain ⟨p1, p2, r, sid, v, rfl, h1, h2, rfl, rfl⟩ := parseStreamDataBlocked_inv b f n h
  refine ⟨by simp only [List.length_append]; omega, ?_⟩
  rw [take_len2]
  simpa using parseStreamDataBlocked_of h1 h2 []

theorem stable_resetStream (at_ : Bool) : Stable (fun b => parseResetStream b at_) := by
  intro b f n h
  obtain ⟨p1, p2, p3, p4, r, sid, ec, fs, rs, rfl, h1, h2, h3, h4, hle, rfl, rfl⟩ := parseResetStream_inv b at_ f n h
  refine ⟨by simp only [List.length_append]; omega, ?_⟩
  rw [take_len4]
  cases at_ with
  | false =>
    simp only [Bool.false_eq_true, if_false] at h4
    obtain ⟨rfl, rfl⟩ := h4
    simpa using parseResetStream_of h1 h2 h3 []
  | true =>
    simp only [if_true] at h4
    simpa using parseResetStreamAt_of h1 h2 h3 h4 hle []

theorem stable_ackFrequency : Stable parseAckFrequency := by
  intro b f n h
  obtain ⟨p1, p2, p3, p4, r, seq, th, mad, rt, rfl, h1, h2, h3, h4, rfl, rfl⟩ := parseAckFrequency_inv b f n h
  refine ⟨by simp only [List.length_append]; omega, ?_⟩
  rw [take_len4]
  simpa using parseAckFrequency_of h1 h2 h3 h4 []

theorem stable_crypto : Stable parseCrypto := by
  intro b f n h
  obtain ⟨p1, p2, data, r, off, rfl, h1, h2, rfl, rfl⟩ := parseCrypto_inv b f n h
  refine ⟨by simp only [List.length_append]; omega, ?_⟩
  rw [take_len3]
  simpa using parseCrypto_of data h1 h2 []

theorem stable_newToken : Stable parseNewToken := by
  intro b f n h
  obtain ⟨p, tok, r, rfl, hd, hne, rfl, rfl⟩ := parseNewToken_inv b f n h
  refine ⟨by simp only [List.length_append]; omega, ?_⟩
  rw [take_len2]
  simpa using parseNewToken_of tok hd hne []

theorem stable_connectionClose (typ : Nat) : Stable (fun b => parseConnectionClose b typ) := by
  intro b f n h
  obtain ⟨p1, p2, p3, reason, r, ec, ft, rfl, h1, h2, h3, rfl, rfl⟩ := parseConnectionClose_inv b typ f n h
  refine ⟨by simp only [List.length_append]; omega, ?_⟩
  rw [take_len4]
  by_cases happ : typ = ftApplicationClose
  · simp only [happ, if_true] at h2
    obtain ⟨rfl, rfl⟩ := h2
    simpa [happ] using parseConnectionClose_of_app reason typ happ h1 h3 []
  · simp only [happ, if_false] at h2
    simpa [happ] using parseConnectionClose_of_transport reason typ happ h1 h2 h3 []

theorem stable_datagram (typ : Nat) : Stable (fun b => parseDatagram b typ) := by
  intro b f n h
  rcases parseDatagram_inv b typ f n h with ⟨ht, p, data, r, rfl, hd, rfl, rfl⟩ | ⟨ht, rfl, rfl⟩
  · refine ⟨by simp only [List.length_append]; omega, ?_⟩
    rw [take_len2]
    simpa using parseDatagram_of_len data typ ht hd []
  · refine ⟨by simp, ?_⟩
    simpa using parseDatagram_of_nolen b typ ht

theorem stable_pathChallenge : Stable parsePathChallenge := by
  intro b f n h
  obtain ⟨d, r, rfl, hd, rfl, rfl⟩ := parsePathChallenge_inv b f n h
  refine ⟨by simp only [List.length_append]; omega, ?_⟩
  rw [← hd, take_len_append]
  simpa [hd] using parsePathChallenge_of d hd []

theorem stable_pathResponse : Stable parsePathResponse := by
  intro b f n h
  obtain ⟨d, r, rfl, hd, rfl, rfl⟩ := parsePathResponse_inv b f n h
  refine ⟨by simp only [List.length_append]; omega, ?_⟩
  rw [← hd, take_len_append]
  simpa [hd] using parsePathResponse_of d hd []

theorem stable_newConnectionID : Stable parseNewConnectionID := by
  intro b f n h
  obtain ⟨p1, p2, cid, tok, r, seq, rpt, rfl, h1, h2, hle, hc1, hc2, hc3, ht, rfl, rfl⟩ := parseNewConnectionID_inv b f n h
  refine ⟨by simp; omega, ?_⟩
  have : (p1 ++ p2 ++ [Varint.u8 cid.length] ++ cid ++ tok ++ r).take (p1.length + p2.length + 1 + cid.length + 16)
      = p1 ++ p2 ++ [Varint.u8 cid.length] ++ cid ++ tok := List.take_left' (by simp; omega)
  rw [this]
  simpa using parseNewConnectionID_of cid tok h1 h2 hle hc1 hc2 hc3 ht []

theorem stable_stream (typ : Nat) : Stable (fun b => parseStream b typ) := by
  intro b f n h
  obtain ⟨p1, po, pl, data, r, sid, off, rfl, h1, ho, hl, hbuf, hmax, rfl, rfl⟩ := parseStream_inv b typ f n h
  refine ⟨by simp only [List.length_append]; omega, ?_⟩
  rw [take_len4]
  have hl' : if typ / 2 % 2 = 1 then Decodes pl data.length else (pl = [] ∧ ([] : Bytes) = []) := by
    by_cases htl : typ / 2 % 2 = 1
    · simpa [htl] using hl
    · simp only [htl, if_false] at hl; simp [htl, hl.1]
  simpa using parseStream_of typ data [] h1 ho hl' hbuf hmax

theorem stable_ack (ecn : Bool) (exp : Nat) : Stable (fun b => parseAck b ecn exp) := by
  intro b f n h
  obtain ⟨pre, r, la, delay, smallest, rs, e0, e1, ce, rfl, rfl, _, _, _, _, _, _, _, _, _, hloc⟩ := parseAck_inv b ecn exp f n h
  refine ⟨by simp, ?_⟩
  rw [take_len_append]
  simpa using hloc []

theorem stable_const (f0 : Frame) : Stable (fun _ => (.ok (f0, 0) : Except Err (Frame × Nat))) := by
  intro b f n h
  simp at h
  obtain ⟨rfl, rfl⟩ := h
  simp

theorem stable_ite {c : Prop} [Decidable c] {P Q : Bytes → Except Err (Frame × Nat)} (hP : Stable P) (hQ : Stable Q) :
    Stable (fun b => if c then P b else Q b) := by
  by_cases hc : c
  · simpa [hc] using hP
  · simpa [hc] using hQ

theorem stable_error (e : Err) : Stable (fun _ => (.error e : Except Err (Frame × Nat))) := by
  intro b f n h; simp at h

/-- the dispatch of `ParseLessCommonFrame` -/
theorem stable_parseLessCommon (typ : Nat) : Stable (parseLessCommon typ) := by
  delta parseLessCommon
  exact stable_ite (stable_const _) <| stable_ite (stable_resetStream false) <| stable_ite stable_stopSending <|
    stable_ite stable_crypto <| stable_ite stable_newToken <| stable_ite stable_maxData <|
    stable_ite stable_maxStreamData <| stable_ite (stable_maxStreams typ) <| stable_ite stable_dataBlocked <|
    stable_ite stable_streamDataBlocked <| stable_ite (stable_streamsBlocked typ) <|
    stable_ite stable_newConnectionID <| stable_ite stable_retireConnectionID <| stable_ite stable_pathChallenge <|
    stable_ite stable_pathResponse <| stable_ite (stable_connectionClose typ) <| stable_ite (stable_const _) <|
    stable_ite (stable_resetStream true) <| stable_ite stable_ackFrequency <| stable_ite (stable_const _) <|
    stable_error _

/-- the dispatch of `connection.handleFrames` -/
theorem stable_parseBody (c : Ctx) (typ : Nat) : Stable (parseBody c typ) := by
  delta parseBody
  exact stable_ite (stable_stream typ) <| stable_ite (stable_ack _ _) <| stable_ite (stable_datagram typ) <|
    stable_parseLessCommon typ

end Uquic.Proofs.Wire
