/-
Helper lemmas for C18: the response writer never puts body bytes (raw writes) on the stream for a
HEAD request or after a 1xx / 204 / 304 status; optional-logger calls never panic given the
regenerated guard facts.
-/
import Uquic.Model.H3.RespWriter

namespace Uquic.Proofs.H3
open Uquic.Model.H3

/-- the raw (non-HEADERS) writes a stream has seen -/
def rawOf (s : Str) : List (List Nat) :=
  s.writes.filterMap fun | .raw bs => some bs | .hdr _ => none

theorem write_hdr_raw (s : Str) (f : List (String × String)) : rawOf (s.write (.hdr f)).1 = rawOf s := by
  unfold Str.write
  split
  · rfl
  · split <;> simp [rawOf, List.filterMap_append]

/-- the fields of the writer that decide whether a body may be sent -/
structure Same (a b : RW) : Prop where
  raw : rawOf a.str = rawOf b.str
  small : a.small = b.small
  isHead : a.isHead = b.isHead
  hc : a.headerComplete = b.headerComplete
  status : a.status = b.status

theorem Same.rfl' (a : RW) : Same a a := ⟨rfl, rfl, rfl, rfl, rfl⟩

theorem Same.trans {a b c : RW} (h1 : Same a b) (h2 : Same b c) : Same a c :=
  ⟨h1.raw.trans h2.raw, h1.small.trans h2.small, h1.isHead.trans h2.isHead, h1.hc.trans h2.hc, h1.status.trans h2.status⟩

theorem logCall_same (w : RW) (fn m : String) : Same (w.logCall fn m) w := by
  unfold RW.logCall; split <;> exact ⟨rfl, rfl, rfl, rfl, rfl⟩

theorem declareTrailer_same (w : RW) (k : String) : Same (w.declareTrailer k) w := by
  unfold RW.declareTrailer
  split
  · exact logCall_same _ _ _
  · split <;> exact ⟨rfl, rfl, rfl, rfl, rfl⟩

theorem declareAll_same (ks : List String) : ∀ w : RW, Same (w.declareAll ks) w := by
  induction ks with
  | nil => intro w; exact Same.rfl' w
  | cons k ks ih =>
    intro w
    simp only [RW.declareAll, List.foldl_cons]
    split
    · exact ih w
    · exact (ih (w.declareTrailer k)).trans (declareTrailer_same w k)

theorem writeHeader_same (w : RW) (status : Nat) : Same (w.writeHeader status).1 w := by
  unfold RW.writeHeader
  have h := declareAll_same (announcedTrailers w.header) w
  split
  · exact h
  · exact ⟨(write_hdr_raw _ _).trans h.raw, h.small, h.isHead, h.hc, h.status⟩

theorem sniff_same (w : RW) (p : List Nat) : Same (w.sniff p) w := by
  unfold RW.sniff; split <;> exact ⟨rfl, rfl, rfl, rfl, rfl⟩

theorem ensureHeader_same (w : RW) : Same w.ensureHeader.1 w := by
  unfold RW.ensureHeader
  have hsn := sniff_same w w.small
  have hwh := writeHeader_same (w.sniff w.small) (w.sniff w.small).status
  have h2 := hwh.trans hsn
  split
  · generalize (w.sniff w.small).writeHeader (w.sniff w.small).status = res at h2
    obtain ⟨w2, eo⟩ := res
    cases eo with
    | some e => exact h2
    | none =>
      dsimp only
      split
      · exact h2
      · exact ⟨h2.raw, h2.small, h2.isHead, h2.hc, h2.status⟩
  · exact Same.rfl' w

/-- `doWrite(nil)` with an empty small-response buffer writes no body bytes -/
theorem doWrite_nil_same (w : RW) (hs : w.small = []) : Same (w.doWrite []).1 w := by
  unfold RW.doWrite
  have h1 := ensureHeader_same w
  generalize w.ensureHeader = res at h1
  obtain ⟨w1, eo⟩ := res
  cases eo with
  | some e => exact h1
  | none =>
    dsimp only
    split
    · exact h1
    · have : w1.small.length + ([] : List Nat).length = 0 := by
        have := h1.small; simp only at this; rw [this, hs]; rfl
      simp only [RW.writeBody, this, ↓reduceIte]
      exact h1

/-- no body may be sent: HEAD request, or the final status is 204 / 304 (or any status for which
    `bodyAllowedForStatus` is false); nothing is waiting in the small-response buffer -/
def NoBody (w : RW) : Prop :=
  w.small = [] ∧ (w.isHead = true ∨ (w.headerComplete = true ∧ bodyAllowedForStatus w.status = false))

theorem NoBody.of_same {a b : RW} (h : Same a b) (hb : NoBody b) : NoBody a := by
  obtain ⟨h1, h2⟩ := hb
  refine ⟨h.small.trans h1, ?_⟩
  rcases h2 with h2 | ⟨h2, h3⟩
  · left; exact h.isHead.trans h2
  · right; exact ⟨h.hc.trans h2, by rw [h.status]; exact h3⟩

/-- `WriteHeader` (valid status) on a HEAD writer: still a HEAD writer with nothing buffered, no raw write -/
theorem WriteHeader_head (w : RW) (st : Nat) (hs : w.small = []) (hh : w.isHead = true) :
    rawOf ((w.WriteHeader st).getD w).str = rawOf w.str ∧ ((w.WriteHeader st).getD w).small = [] ∧
      ((w.WriteHeader st).getD w).isHead = true := by
  unfold RW.WriteHeader
  split
  · exact ⟨rfl, hs, hh⟩
  · split
    · exact ⟨rfl, hs, hh⟩
    · split
      · have h := writeHeader_same { w with status := st } st
        exact ⟨h.raw, h.small.trans hs, h.isHead.trans hh⟩
      · dsimp only
        split <;> (try split) <;> (try split) <;> exact ⟨rfl, hs, hh⟩

theorem WriteHeader_complete (w : RW) (st : Nat) (hc : w.headerComplete = true) : (w.WriteHeader st).getD w = w := by
  simp [RW.WriteHeader, hc]

theorem Write_noBody (w : RW) (p : List Nat) (h : NoBody w) :
    rawOf (w.Write p).1.str = rawOf w.str ∧ NoBody (w.Write p).1 := by
  obtain ⟨hs, hcase⟩ := h
  by_cases hc : w.headerComplete = true
  · by_cases hal : bodyAllowedForStatus w.status = true
    · -- body allowed ⇒ it must be a HEAD writer
      have hh : w.isHead = true := by
        rcases hcase with h1 | ⟨_, h2⟩
        · exact h1
        · rw [h2] at hal; cases hal
      simp only [RW.Write, hc, hal, Bool.not_true, Bool.false_eq_true, ↓reduceIte, hh]
      split
      · exact ⟨rfl, hs, Or.inl rfl⟩
      · exact ⟨rfl, hs, Or.inl rfl⟩
    · simp only [RW.Write, hc, Bool.not_true, Bool.false_eq_true, ↓reduceIte, hal]
      exact ⟨rfl, hs, hcase⟩
  · have hh : w.isHead = true := by
      rcases hcase with h1 | ⟨h2, _⟩
      · exact h1
      · exact absurd h2 hc
    have hsn := sniff_same w p
    have hwh := WriteHeader_head (w.sniff p) 200 (hsn.small.trans hs) (hsn.isHead.trans hh)
    simp only [RW.Write, hc, Bool.not_false, ↓reduceIte, Bool.not_true, Bool.false_eq_true]
    generalize ((w.sniff p).WriteHeader 200).getD (w.sniff p) = w' at hwh
    obtain ⟨r1, r2, r3⟩ := hwh
    have r1' : rawOf w'.str = rawOf w.str := r1.trans hsn.raw
    simp only [r3, ↓reduceIte]
    split
    · exact ⟨r1', r2, Or.inl rfl⟩
    · exact ⟨r1', r2, Or.inl rfl⟩

theorem FlushError_noBody (w : RW) (h : NoBody w) :
    rawOf w.FlushError.1.str = rawOf w.str ∧ NoBody w.FlushError.1 := by
  obtain ⟨hs, hcase⟩ := h
  unfold RW.FlushError
  by_cases hc : w.headerComplete = true
  · simp only [hc, Bool.not_true, Bool.false_eq_true, ↓reduceIte]
    have := doWrite_nil_same w hs
    exact ⟨this.raw, NoBody.of_same this ⟨hs, hcase⟩⟩
  · have hh : w.isHead = true := by
      rcases hcase with h1 | ⟨h2, _⟩
      · exact h1
      · exact absurd h2 hc
    have hwh := WriteHeader_head w 200 hs hh
    simp only [hc, Bool.not_false, ↓reduceIte]
    generalize (w.WriteHeader 200).getD w = w' at hwh
    have := doWrite_nil_same w' hwh.2.1
    exact ⟨this.raw.trans hwh.1, NoBody.of_same this ⟨hwh.2.1, Or.inl hwh.2.2⟩⟩

theorem Flush_noBody (w : RW) (h : NoBody w) : rawOf w.Flush.str = rawOf w.str ∧ NoBody w.Flush := by
  have hf := FlushError_noBody w h
  unfold RW.Flush
  generalize w.FlushError = res at hf
  obtain ⟨w1, eo⟩ := res
  cases eo with
  | none => exact hf
  | some e =>
    dsimp only
    split
    · exact hf
    · have := logCall_same w1 "responseWriter.Flush" "Debug"
      exact ⟨this.raw.trans hf.1, NoBody.of_same this hf.2⟩

theorem writeTrailers_raw (w : RW) : rawOf w.writeTrailers.1.str = rawOf w.str := by
  unfold RW.writeTrailers
  have h := declareAll_same ((w.header.map (·.1)).filter (·.startsWith trailerPrefix)) w
  dsimp only
  split
  · exact h.raw
  · split
    · exact h.raw
    · split
      · exact h.raw
      · exact (write_hdr_raw _ _).trans h.raw

theorem flushTrailers_raw (w : RW) : rawOf w.flushTrailers.str = rawOf w.str := by
  unfold RW.flushTrailers
  split
  · rfl
  · have h := writeTrailers_raw w
    generalize w.writeTrailers = res at h
    obtain ⟨w1, eo⟩ := res
    cases eo with
    | none => exact h
    | some e =>
      dsimp only
      split
      · exact h
      · exact (logCall_same w1 _ _).raw.trans h

theorem finish_noBody (w : RW) (h : NoBody w) : rawOf w.finish.str = rawOf w.str := by
  unfold RW.finish
  dsimp only
  have key : ∀ w0 : RW, NoBody w0 → rawOf w0.str = rawOf w.str →
      rawOf (if w0.Flush.panicked = true then w0.Flush
        else if w0.Flush.flushTrailers.panicked = true then w0.Flush.flushTrailers
        else { w0.Flush.flushTrailers with str := (w0.Flush.flushTrailers.str.cancelRead errNoError).close }).str
        = rawOf w.str := by
    intro w0 h0 hr
    have hf := Flush_noBody w0 h0
    have ht := flushTrailers_raw w0.Flush
    split
    · exact hf.1.trans hr
    · split
      · exact ht.trans (hf.1.trans hr)
      · have : rawOf ((w0.Flush.flushTrailers.str.cancelRead errNoError).close) = rawOf w0.Flush.flushTrailers.str := rfl
        exact this.trans (ht.trans (hf.1.trans hr))
  split
  · exact key _ ⟨h.1, h.2⟩ rfl
  · exact key w h rfl

/-- the guard facts make every optional-logger call harmless -/
theorem guardedAt_of_all (hall : ∀ s ∈ Uquic.Gen.H3Guards.sites, s.guarded = true) (fn m : String) :
    guardedAt fn m = true := by
  unfold guardedAt
  rw [List.all_eq_true]
  intro s hs
  exact hall s (List.mem_filter.mp hs).1

end Uquic.Proofs.H3
