/-
Helper lemmas for Uquic.Props.C17Glue: (1) doDial's cancellation clause returns whichever channel the goroutine
reports on - and only if the inner select covers both; (2) keep-alive / idle deadlines across sequences of
packets received and sent.
-/
import Uquic.Model.Close.DialWait
import Uquic.Model.Close.IdleSeq
import Uquic.Proofs.CloseDial
import Uquic.Proofs.CloseIdle

namespace Uquic.Proofs.C17Glue
open Uquic.Model.Dial

/-! ## doDial -/

/-- while doDial has not returned it has not consumed the goroutine's signal -/
def NotTaken (s : St) : Prop := (∀ r, s.pc ≠ .returned r) → s.signalTaken = false

theorem notTaken_init : NotTaken {} := by simp [NotTaken]

theorem notTaken_step (s : St) (e : Ev) (h : NotTaken s) : NotTaken (step s e) := by
  unfold NotTaken at *
  cases e with
  | cancel => simpa [step] using h
  | handshakeCompletes => simp only [step]; split <;> simpa using h
  | runReturns rc => simp only [step]; split <;> simpa using h
  | goroutineSignals => simp only [step]; split <;> simpa using h
  | dialStep pick =>
    simp only [step]
    split
    · split
      · exact h
      · intro hr; rename_i hpc _ _; exact h (by intro r; rw [hpc]; simp)
      · intro hr; exact absurd rfl (hr _)
      · intro hr; exact absurd rfl (hr _)
      · intro hr; exact absurd rfl (hr _)
    · split
      · intro hr; rename_i hpc _; exact h (by intro r; rw [hpc]; simp)
      · exact h
    · split
      · intro hr; exact absurd rfl (hr _)
      · exact h
    · exact h

theorem notTaken_run (s : St) (es : List Ev) (h : NotTaken s) : NotTaken (run s es) := by
  induction es generalizing s with
  | nil => exact h
  | cons e rest ih => exact ih _ (notTaken_step s e h)

theorem stepW_both (s : St) (e : Ev) : stepW ⟨true, true⟩ s e = step s e := by
  cases e with
  | dialStep pick =>
    simp only [stepW, step, InnerSel.covers]
    cases hpc : s.pc <;> simp
  | _ => rfl

theorem runW_both (s : St) (es : List Ev) : runW ⟨true, true⟩ s es = run s es := by
  induction es generalizing s with
  | nil => rfl
  | cons e rest ih => simp [runW, run, stepW_both, ih]

/-- the state in which a cancelled doDial whose inner select lacks the goroutine's channel sits for ever -/
def Stuck (w : InnerSel) (s : St) : Prop :=
  s.pc = .waiting ∧ s.runReturned = true ∧ s.signalled = true ∧ w.covers s = false

theorem stuck_step (w : InnerSel) (s : St) (e : Ev) (h : Stuck w s) : Stuck w (stepW w s e) := by
  obtain ⟨hpc, hr, hs, hc⟩ := h
  cases e with
  | cancel => exact ⟨hpc, hr, hs, hc⟩
  | handshakeCompletes => simp only [stepW, step, hr]; exact ⟨hpc, hr, hs, hc⟩
  | runReturns rc => simp only [stepW, step, hr]; exact ⟨hpc, hr, hs, hc⟩
  | goroutineSignals => simp only [stepW, step, hr, hs]; exact ⟨hpc, hr, hs, hc⟩
  | dialStep pick =>
    have : stepW w s (.dialStep pick) = s := by simp [stepW, hpc, hc]
    rw [this]; exact ⟨hpc, hr, hs, hc⟩

theorem stuck_run (w : InnerSel) (s : St) (es : List Ev) (h : Stuck w s) : Stuck w (runW w s es) := by
  induction es generalizing s with
  | nil => exact h
  | cons e rest ih => exact ih _ (stuck_step w s e h)

/-! ## keep-alive across sequences -/

open Uquic.Model.Idle

/-- the fields sending never touches -/
def SameRcv (a b : Uquic.Model.Idle.St) : Prop :=
  a.lastPacketReceivedTime = b.lastPacketReceivedTime ∧ a.idleTimeout = b.idleTimeout ∧
  a.handshakeComplete = b.handshakeComplete ∧ a.keepAlivePeriod = b.keepAlivePeriod ∧
  a.keepAliveInterval = b.keepAliveInterval ∧ a.keepAlivePingSent = b.keepAlivePingSent

theorem sameRcv_onShortSent (s : Uquic.Model.Idle.St) (ae probe : Bool) (t : Int) : SameRcv (s.onShortSent ae probe t) s := by
  unfold St.onShortSent St.onAckElicitingSent SameRcv
  cases probe <;> cases ae <;> simp <;> split <;> simp

theorem SameRcv.trans {a b c : Uquic.Model.Idle.St} (h1 : SameRcv a b) (h2 : SameRcv b c) : SameRcv a c :=
  ⟨h1.1.trans h2.1, h1.2.1.trans h2.2.1, h1.2.2.1.trans h2.2.2.1, h1.2.2.2.1.trans h2.2.2.2.1,
   h1.2.2.2.2.1.trans h2.2.2.2.2.1, h1.2.2.2.2.2.trans h2.2.2.2.2.2⟩

theorem sameRcv_runSends (s : Uquic.Model.Idle.St) (es : List SeqEv) (h : ∀ e ∈ es, e.isSent = true) : SameRcv (s.runEvs es) s := by
  induction es generalizing s with
  | nil => simp [St.runEvs, SameRcv]
  | cons e rest ih =>
    have hrest := ih (s.applyEv e) (fun x hx => h x (List.mem_cons_of_mem _ hx))
    have he := h e (List.mem_cons_self ..)
    cases e with
    | recv t => simp [SeqEv.isSent] at he
    | sent ae probe t => exact hrest.trans (sameRcv_onShortSent s ae probe t)

/-- sending (anything, path probes included) leaves the keep-alive deadline where the last received packet put it -/
theorem nextKeepAlive_of_sameRcv {a b : Uquic.Model.Idle.St} (h : SameRcv a b) (pto : Int) : a.nextKeepAlive pto = b.nextKeepAlive pto := by
  obtain ⟨h1, _, _, h4, h5, h6⟩ := h
  unfold St.nextKeepAlive
  rw [h1, h4, h5, h6]

/-- the configuration fields survive every event -/
def SameCfg (a b : Uquic.Model.Idle.St) : Prop :=
  a.idleTimeout = b.idleTimeout ∧ a.handshakeComplete = b.handshakeComplete ∧ a.keepAlivePeriod = b.keepAlivePeriod ∧
  a.keepAliveInterval = b.keepAliveInterval

theorem sameCfg_applyEv (s : Uquic.Model.Idle.St) (e : SeqEv) : SameCfg (s.applyEv e) s := by
  cases e with
  | recv t => simp [St.applyEv, St.onPacketReceived, SameCfg]
  | sent ae probe t => have := sameRcv_onShortSent s ae probe t; exact ⟨this.2.1, this.2.2.1, this.2.2.2.1, this.2.2.2.2.1⟩

theorem sameCfg_runEvs (s : Uquic.Model.Idle.St) (es : List SeqEv) : SameCfg (s.runEvs es) s := by
  induction es generalizing s with
  | nil => simp [St.runEvs, SameCfg]
  | cons e rest ih =>
    have h1 := ih (s.applyEv e)
    have h2 := sameCfg_applyEv s e
    exact ⟨h1.1.trans h2.1, h1.2.1.trans h2.2.1, h1.2.2.1.trans h2.2.2.1, h1.2.2.2.trans h2.2.2.2⟩

end Uquic.Proofs.C17Glue
