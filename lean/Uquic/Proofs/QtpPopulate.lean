/-
C11 helper lemmas: `PopulateFromUQUIC` — what it rewrites, what it records, when it panics.
-/
import Uquic.Proofs.QtpWire

namespace Uquic.Proofs.Qtp
open Uquic.Model.QTP

/-- `p'` is `p`, except that an empty `tls.InitialSourceConnectionID` received a connection id -/
def Rewritten (p p' : Param) : Prop :=
  p' = p ∨ (kindOf p.id = 3 ∧ p.typed = true ∧ p.val = [] ∧ p'.id = p.id ∧ p'.typed = p.typed)

/-- element-wise `Rewritten` -/
inductive AllRewritten : List Param → List Param → Prop
  | nil : AllRewritten [] []
  | cons {p p' : Param} {ps ps' : List Param} : Rewritten p p' → AllRewritten ps ps' → AllRewritten (p :: ps) (p' :: ps')

/-- the parameter makes `PopulateFromUQUIC` panic: a failed type assertion, or an over-long connection id -/
def Panics (p : Param) : Prop :=
  (kindOf p.id = 1 ∧ p.typed = false) ∨
  (kindOf p.id = 3 ∧ p.typed = true ∧ p.val ≠ [] ∧ p.val.length > Uquic.Gen.UQuic.maxConnectionIDLen)

/-- last integer value carried for `id` by a parsed extension body -/
def lastNum (ws : List (Nat × List Nat)) (id : Nat) (d : Option Nat) : Option Nat :=
  ws.foldl (fun acc w => if w.1 = id then some (numOf w.2) else acc) d

/-- last value of a parameter the switch treats as the source connection id -/
def lastScid (ws : List (Nat × List Nat)) (d : List Nat) : List Nat :=
  ws.foldl (fun acc w => if kindOf w.1 = 3 then w.2 else acc) d

theorem getNum_setNum (m : List (Nat × Nat)) (i v id : Nat) :
    getNum (setNum m i v) id = if i = id then some v else getNum m id := by
  unfold getNum setNum
  by_cases h : i = id
  · subst h; simp
  · have h' : (i == id) = false := by simp [h]
    simp only [List.find?_cons, h', h, if_false, List.find?_filter]
    congr 2
    funext e
    by_cases he : e.1 = id
    · have : ¬ e.1 = i := by intro h2; exact h (h2.symm.trans he)
      simp [he]
      intro h3; exact h (h3.symm)
    · simp [he]

/-- everything one loop iteration can do -/
theorem popStep_cases (own : Own) (p : Param) :
    (popStep own p = none ∧ Panics p) ∨
    (∃ own' p', popStep own p = some (own', p') ∧ ¬ Panics p ∧ Rewritten p p' ∧ p'.id = p.id ∧
      (∀ id, kindOf id = 1 → getNum own'.nums id = if p'.id = id then some (numOf p'.val) else getNum own.nums id) ∧
      ((kindOf p.id = 3 → p.typed = true) → own'.scid = if kindOf p'.id = 3 then p'.val else own.scid) ∧
      (own'.scid = own.scid ∨ own'.scid = p.val) ∧ (p'.val = p.val ∨ p'.val = own.scid)) := by
  unfold popStep
  split
  · -- kind 1
    rename_i hk
    by_cases ht : p.typed = true
    · right
      refine ⟨{ own with nums := setNum own.nums p.id (numOf p.val) }, p, by simp [ht], ?_, Or.inl rfl, rfl, ?_, ?_, Or.inl rfl, Or.inl rfl⟩
      · rintro (⟨_, h⟩ | ⟨h, _⟩)
        · simp [ht] at h
        · omega
      · intro id _
        exact getNum_setNum _ _ _ _
      · intro _
        have : ¬ kindOf p.id = 3 := by omega
        simp [this]
    · left
      have : p.typed = false := by simpa using ht
      exact ⟨by simp [this], Or.inl ⟨hk, this⟩⟩
  · -- kind 2
    rename_i hk
    right
    refine ⟨{ own with disableMigration := true }, p, rfl, ?_, Or.inl rfl, rfl, ?_, ?_, Or.inl rfl, Or.inl rfl⟩
    · rintro (⟨h, _⟩ | ⟨h, _⟩) <;> omega
    · intro id hid
      have : ¬ p.id = id := by intro h; rw [h] at hk; omega
      simp [this]
    · intro _
      have : ¬ kindOf p.id = 3 := by omega
      simp [this]
  · -- kind 3
    rename_i hk
    by_cases ht : p.typed = true
    · by_cases he : p.val.isEmpty = true
      · right
        have hv : p.val = [] := by simpa using he
        refine ⟨own, { p with val := own.scid }, by simp [ht, he], ?_, Or.inr ⟨hk, ht, hv, rfl, rfl⟩, rfl, ?_, ?_, Or.inl rfl, Or.inr rfl⟩
        · rintro (⟨h, _⟩ | ⟨_, _, h, _⟩)
          · omega
          · exact h hv
        · intro id hid
          have : ¬ p.id = id := by intro h; rw [h] at hk; omega
          simp [this]
        · intro _; simp [hk]
      · by_cases hl : p.val.length > Uquic.Gen.UQuic.maxConnectionIDLen
        · left
          refine ⟨by simp [ht, he, hl], Or.inr ⟨hk, ht, ?_, hl⟩⟩
          intro h; simp [h] at he
        · right
          refine ⟨{ own with scid := p.val }, p, by simp [ht, he, hl], ?_, Or.inl rfl, rfl, ?_, ?_, Or.inr rfl, Or.inl rfl⟩
          · rintro (⟨h, _⟩ | ⟨_, _, _, h⟩)
            · omega
            · exact hl h
          · intro id hid
            have : ¬ p.id = id := by intro h; rw [h] at hk; omega
            simp [this]
          · intro _; simp [hk]
    · right
      have htf : p.typed = false := by simpa using ht
      refine ⟨own, p, by simp [htf], ?_, Or.inl rfl, rfl, ?_, ?_, Or.inl rfl, Or.inl rfl⟩
      · rintro (⟨h, _⟩ | ⟨_, h, _⟩)
        · omega
        · simp [htf] at h
      · intro id hid
        have : ¬ p.id = id := by intro h; rw [h] at hk; omega
        simp [this]
      · intro h; exact absurd (h hk) ht
  · -- not in the switch
    rename_i h1 h2 h3
    right
    refine ⟨own, p, rfl, ?_, Or.inl rfl, rfl, ?_, ?_, Or.inl rfl, Or.inl rfl⟩
    · rintro (⟨h, _⟩ | ⟨h, _⟩)
      · exact h1 h
      · exact h3 h
    · intro id hid
      have : ¬ p.id = id := by intro h; rw [h] at h1; exact h1 hid
      simp [this]
    · intro _
      have : ¬ kindOf p.id = 3 := h3
      simp [this]

theorem popLoop_none_iff (own : Own) (ps : List Param) : popLoop own ps = none ↔ ∃ p ∈ ps, Panics p := by
  induction ps generalizing own with
  | nil => simp [popLoop]
  | cons p ps ih =>
    rcases popStep_cases own p with ⟨hn, hp⟩ | ⟨own', p', hs, hnp, _⟩
    · simp only [popLoop, hn]
      exact ⟨fun _ => ⟨p, by simp, hp⟩, fun _ => trivial⟩
    · simp only [popLoop, hs]
      cases hl : popLoop own' ps with
      | none =>
        simp only [true_iff]
        obtain ⟨q, hq, hqp⟩ := (ih own').mp hl
        exact ⟨q, List.mem_cons_of_mem _ hq, hqp⟩
      | some r =>
        simp only [false_iff, reduceCtorEq]
        rintro ⟨q, hq, hqp⟩
        rcases List.mem_cons.mp hq with rfl | hq
        · exact hnp hqp
        · have : popLoop own' ps = none := (ih own').mpr ⟨q, hq, hqp⟩
          rw [hl] at this
          cases this

theorem popLoop_spec (own : Own) (ps : List Param) (o : Own) (ps' : List Param)
    (h : popLoop own ps = some (o, ps')) :
    AllRewritten ps ps' ∧
    (∀ id, kindOf id = 1 → getNum o.nums id = lastNum (pairs ps') id (getNum own.nums id)) ∧
    ((∀ p ∈ ps, kindOf p.id = 3 → p.typed = true) → o.scid = lastScid (pairs ps') own.scid) ∧
    ((∀ p ∈ ps, WF p) → own.scid.length < varintLimit → (∀ p ∈ ps', WF p) ∧ o.scid.length < varintLimit) := by
  induction ps generalizing own o ps' with
  | nil =>
    simp only [popLoop, Option.some.injEq, Prod.mk.injEq] at h
    obtain ⟨rfl, rfl⟩ := h
    refine ⟨AllRewritten.nil, ?_, ?_, ?_⟩
    · intro id _; simp [lastNum, pairs]
    · intro _; simp [lastScid, pairs]
    · intro _ hl; exact ⟨by simp, hl⟩
  | cons p ps ih =>
    rcases popStep_cases own p with ⟨hn, _⟩ | ⟨own', p', hs, _, hrw, hid, hnum, hsc, hscid, hval⟩
    · simp [popLoop, hn] at h
    · simp only [popLoop, hs] at h
      cases hl : popLoop own' ps with
      | none => simp [hl] at h
      | some r =>
        obtain ⟨o1, ps1⟩ := r
        simp only [hl, Option.some.injEq, Prod.mk.injEq] at h
        obtain ⟨rfl, rfl⟩ := h
        obtain ⟨f2, fnum, fsc, fwf⟩ := ih own' o1 ps1 hl
        refine ⟨AllRewritten.cons hrw f2, ?_, ?_, ?_⟩
        · intro id hk
          rw [fnum id hk, hnum id hk]
          simp [lastNum, pairs]
        · intro hall
          rw [fsc (fun q hq => hall q (List.mem_cons_of_mem _ hq)), hsc (hall p (by simp))]
          simp [lastScid, pairs]
        · intro hwf hlen
          have hp : WF p := hwf p (by simp)
          have h1 : own'.scid.length < varintLimit := by
            rcases hscid with e | e <;> rw [e]
            · exact hlen
            · exact hp.2
          have hp' : WF p' := by
            refine ⟨by rw [hid]; exact hp.1, ?_⟩
            rcases hval with e | e <;> rw [e]
            · exact hp.2
            · exact hlen
          obtain ⟨w1, w2⟩ := fwf (fun q hq => hwf q (List.mem_cons_of_mem _ hq)) h1
          refine ⟨?_, w2⟩
          intro q hq
          rcases List.mem_cons.mp hq with rfl | hq
          · exact hp'
          · exact w1 q hq

theorem Rewritten.id_eq {p p' : Param} (h : Rewritten p p') : p'.id = p.id := by
  rcases h with rfl | ⟨_, _, _, h, _⟩
  · rfl
  · exact h

theorem forall2_rewritten_ids {ps ps' : List Param} (h : AllRewritten ps ps') :
    ps'.map (·.id) = ps.map (·.id) := by
  induction h with
  | nil => rfl
  | cons hr _ ih => simp [hr.id_eq, ih]

theorem wire_of_list (l : List Param) (scid : List Nat) (own : Own) (bytes : List Nat)
    (h : (match populate scid l with
          | none => none
          | some (own, l') => some (own, marshal l')) = some (own, bytes))
    (hwfl : ∀ p ∈ l, WF p) (hscid : scid.length < varintLimit) :
    ∃ l', AllRewritten l l' ∧ parseQTP bytes = some (pairs l') ∧ own.override = bytes := by
  unfold populate at h
  cases hp : popLoop { scid := scid } l with
  | none => simp [hp] at h
  | some r =>
    obtain ⟨o, l'⟩ := r
    simp only [hp, Option.some.injEq, Prod.mk.injEq] at h
    obtain ⟨rfl, rfl⟩ := h
    obtain ⟨hrw, _, _, hwf'⟩ := popLoop_spec _ l o l' hp
    exact ⟨l', hrw, parseQTP_marshal l' (hwf' hwfl hscid).1, rfl⟩

theorem allRewritten_canonIDs {l l' : List Param} (h : AllRewritten l l') : canonIDs l' = canonIDs l := by
  induction h with
  | nil => rfl
  | cons hr _ ih => simp only [canonIDs, List.map_cons, hr.id_eq] at *; rw [ih]

end Uquic.Proofs.Qtp
