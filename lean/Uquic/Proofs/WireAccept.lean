import Uquic.Proofs.WireAll

/-! What `ParseType` lets through, and how the type of a parsed frame relates to the type its
    re-encoding carries. -/

namespace Uquic.Proofs.Wire
open Uquic.Model.Wire Uquic.Model.Wire.Varint Uquic.Spec.WireMon

theorem parseTypeAux_accepted (c : Ctx) : ∀ (fuel : Nat) (b : Bytes) (p t l : Nat),
    parseTypeAux c fuel b p = .ok t l → typeAccepted c t ∧ t ≠ 0 := by
  intro fuel
  induction fuel with
  | zero => intro b p t l h; simp [parseTypeAux] at h
  | succ fuel ih =>
    intro b p t l h
    unfold parseTypeAux at h
    by_cases hemp : b.isEmpty = true
    · simp [hemp] at h
    · simp only [hemp, Bool.false_eq_true, if_false] at h
      cases hp : Varint.parse b with
      | error e => simp [hp] at h
      | ok x =>
        obtain ⟨typ, l0⟩ := x
        simp only [hp] at h
        by_cases h0 : typ = 0
        · simp only [h0, if_true] at h
          exact ih _ _ _ _ h
        · simp only [h0, if_false] at h
          split at h
          · simp at h
          · rename_i hvalid
            split at h
            · simp at h
            · simp at h
            · rename_i hallow
              simp only [TypeOut.ok.injEq] at h
              obtain ⟨rfl, _⟩ := h
              simp only [Bool.not_eq_true', Bool.not_eq_false] at hvalid
              exact ⟨⟨hvalid, hallow⟩, h0⟩

theorem parseType_accepted (c : Ctx) (b : Bytes) (t l : Nat) (h : parseType c b = .ok t l) : typeAccepted c t ∧ t ≠ 0 :=
  parseTypeAux_accepted c _ b 0 t l h

theorem decode_inv (c : Ctx) (b : Bytes) (f : Frame) (n : Nat) (h : decode c b = .frame f n) :
    ∃ t l n', parseType c b = .ok t l ∧ typeAccepted c t ∧ t ≠ 0 ∧ parseBody c t (b.drop l) = .ok (f, n') ∧ n = l + n' := by
  unfold decode at h
  cases ht : parseType c b with
  | done => simp [ht] at h
  | err e ft => simp [ht] at h
  | panic => simp [ht] at h
  | ok typ l =>
    simp only [ht] at h
    cases hb : parseBody c typ (b.drop l) with
    | error e => simp [hb] at h
    | ok x =>
      obtain ⟨f', n'⟩ := x
      simp only [hb, DecOut.frame.injEq] at h
      obtain ⟨rfl, rfl⟩ := h
      obtain ⟨ha, h0⟩ := parseType_accepted c b typ l ht
      exact ⟨typ, l, n', rfl, ha, h0, hb, rfl⟩

/-- the enc-level table only looks at whether a type is listed in a row -/
theorem allowed_congr (t t' lvl : Nat)
    (h : ∀ row ∈ Uquic.Gen.Wire.encLevelTable, row.2.1.contains (Int.ofNat t) = row.2.1.contains (Int.ofNat t')) :
    isAllowedAtEncLevel t lvl = isAllowedAtEncLevel t' lvl := by
  unfold isAllowedAtEncLevel
  cases hf : Uquic.Gen.Wire.encLevelTable.find? (fun row => row.1.contains (Int.ofNat lvl)) with
  | none => rfl
  | some row =>
    obtain ⟨a, listed, v1, v2⟩ := row
    have hm := List.mem_of_find?_eq_some hf
    have := h _ hm
    simp only at this
    simp only [this]

theorem accepted_congr (c : Ctx) (t t' : Nat) (ht : t ≤ 0x1e) (ht' : t' ≤ 0x1e)
    (h : ∀ row ∈ Uquic.Gen.Wire.encLevelTable, row.2.1.contains (Int.ofNat t) = row.2.1.contains (Int.ofNat t'))
    (ha : typeAccepted c t) : typeAccepted c t' := by
  have hv : Uquic.Gen.Wire.validRFC9000Max.toNat = 0x1e := by decide
  refine ⟨?_, ?_⟩
  · have : isValidRFC9000 t' = true := by simp [isValidRFC9000, hv]; omega
    simp [this]
  · rw [← allowed_congr t t' c.lvl h]; exact ha.2

/-- no row of the table lists a STREAM type: all eight are treated alike -/
theorem stream_unlisted : ∀ t ∈ [8, 9, 10, 11, 12, 13, 14, 15], ∀ row ∈ Uquic.Gen.Wire.encLevelTable,
    row.2.1.contains (Int.ofNat t) = false := by decide

theorem accepted_stream (c : Ctx) (t t' : Nat) (h : 8 ≤ t ∧ t ≤ 15) (h' : 8 ≤ t' ∧ t' ≤ 15) (ha : typeAccepted c t) :
    typeAccepted c t' := by
  apply accepted_congr c t t' (by omega) (by omega) _ ha
  intro row hrow
  have m : t ∈ [8, 9, 10, 11, 12, 13, 14, 15] := by simp; omega
  have m' : t' ∈ [8, 9, 10, 11, 12, 13, 14, 15] := by simp; omega
  rw [stream_unlisted t m row hrow, stream_unlisted t' m' row hrow]

theorem accepted_ack (c : Ctx) (ha : typeAccepted c ftAckECN) : typeAccepted c ftAck :=
  accepted_congr c ftAckECN ftAck (by decide) (by decide) (by decide) ha

/-- RESET_STREAM_AT is allowed exactly where RESET_STREAM is -/
theorem accepted_reset (c : Ctx) (ha : typeAccepted c ftResetStreamAt) : typeAccepted c ftResetStream := by
  have hv : isValidRFC9000 ftResetStream = true := by decide
  refine ⟨by simp [hv], ?_⟩
  rw [allowed_congr ftResetStream ftResetStreamAt c.lvl (by decide)]
  exact ha.2

end Uquic.Proofs.Wire
