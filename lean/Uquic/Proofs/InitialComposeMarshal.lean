/-
C10 ∘ C09 helper lemmas, continued: C09's model of `MarshalInitialPacketPayload` on the single CRYPTO
frame that `PackCoalescedPacket` pops for a datagram hands the builder exactly the share and its true
base offset; the payloads of a whole flight.
-/
import Uquic.Proofs.InitialCompose
namespace Uquic.Proofs.Compose
open Uquic.Spec.Framing Uquic.Spec.FramingMon Uquic.Model.UQuic.Frames Uquic.Proofs.Frames Uquic.Proofs.FramesMore
open Uquic.Model

theorem wireAll_single {off : Nat} {data a b : List UInt8} (ha : appendVarint off = some a)
    (hb : appendVarint data.length = some b) :
    wireAll [(off, data)] = some ([6] ++ a ++ b ++ data) := by
  simp [wireAll, wireCrypto, ha, hb]

theorem chReadAll_single {off : Nat} {data a b : List UInt8} (ha : appendVarint off = some a)
    (hb : appendVarint data.length = some b) {out : List (Nat × Nat × List UInt8)}
    (h : chReadAll ([6] ++ a ++ b ++ data) = .ok out) : out = [(off, data.length, data)] := by
  have hs : readFrames ([6] ++ a ++ b ++ data) = some [Frame.crypto off data] := by
    have := readFrames_crypto data [] ha hb
    simpa [readFrames_nil] using this
  have := chReadAll_strict hs h
  simpa [asLenient, cryptoOf] using this

def builderCall (fb : Builder) (idx : Int) (data : List UInt8) (off : Nat) (d : Draws) (perm : List Nat) :
    Outcome (List UInt8) :=
  match fb with
  | .none => qfBuild [QFrame.crypto off data.length] data 0
  | .frames qfs => if qfs.isEmpty then qfBuild [QFrame.crypto off data.length] data 0 else qfBuild qfs data off
  | .random c => rfBuild c data off d perm
  | .multi per =>
    match mfSelect per idx with
    | .ok c => rfBuild c data off d perm
    | .err e => .err e
    | .panic => .panic
    | .wrap => .wrap

theorem lift_ok {o : Outcome (List UInt8)} {p : List UInt8} {idx idx' : Int}
    (h : (match o with
      | .ok p => Outcome.ok (p, idx + 1)
      | .err e => Outcome.err e
      | .panic => Outcome.panic
      | .wrap => Outcome.wrap) = Outcome.ok (p, idx')) : idx' = idx + 1 ∧ o = .ok p := by
  cases o with
  | ok q => simp at h; exact ⟨h.2.symm, by rw [h.1]⟩
  | err e => simp at h
  | panic => simp at h
  | wrap => simp at h

theorem marshal_single (fb : Builder) (idx : Int) (off : Nat) (data : List UInt8) (d : Draws) (perm : List Nat)
    (p : List UInt8) (idx' : Int) (hoff : off ≤ maxVarInt8) (hlen : data.length ≤ maxVarInt8)
    (h : marshalInitial fb idx false [(off, data)] d perm = .ok (p, idx')) :
    idx' = idx + 1 ∧ builderCall fb idx data off d perm = .ok p := by
  obtain ⟨a, ha⟩ := appendVarint_isSome hoff
  obtain ⟨b, hb⟩ := appendVarint_isSome hlen
  unfold marshalInitial at h
  rw [wireAll_single ha hb] at h
  simp only [Bool.false_eq_true, if_false] at h
  cases hch : chReadAll ([6] ++ a ++ b ++ data) with
  | err => rw [hch] at h; simp at h
  | panic => rw [hch] at h; simp at h
  | ok fs =>
    rw [hch] at h
    obtain rfl := chReadAll_single ha hb hch
    have h64 : off < 18446744073709551615 := by rw [maxVarInt8_eq] at hoff; omega
    simp [sortByOff, insertByOff, reassemble, h64] at h
    have hne : ¬ off = 18446744073709551615 := by omega
    simp only [hne, if_false] at h
    cases fb with
    | none => simp only [if_true] at h; exact lift_ok h
    | frames qfs =>
      by_cases he : qfs.isEmpty = true
      · simp only [he, if_true] at h
        have := lift_ok h
        exact ⟨this.1, by simp [builderCall, he, this.2]⟩
      · simp only [he] at h
        have := lift_ok h
        exact ⟨this.1, by simp [builderCall, he, this.2]⟩
    | random c =>
      simp only [Bool.false_eq_true, if_false] at h
      exact lift_ok h
    | multi per =>
      simp only [Bool.false_eq_true, if_false] at h
      exact lift_ok h

/-- the payloads of the flight: C09's `marshalInitial` (not a planned flight) on the one CRYPTO frame
    popped for each share, with that datagram's crypto/rand draws and shuffle witness; the datagram
    index `initialDatagramIdx` is threaded through as the Go code does -/
def flightPayloads (fb : Builder) (CH : List UInt8) (rand : Nat → Draws × List Nat) :
    Int → Nat → List (Nat × Nat) → Outcome (List (List UInt8))
  | _, _, [] => .ok []
  | idx, i, s :: rest =>
    match marshalInitial fb idx false [(s.1, (CH.drop s.1).take s.2)] (rand i).1 (rand i).2 with
    | .ok (p, idx') =>
      match flightPayloads fb CH rand idx' (i + 1) rest with
      | .ok ps => .ok (p :: ps)
      | o => o
    | .err e => .err e
    | .panic => .panic
    | .wrap => .wrap

/-- what a share must satisfy for the spec's builder to be one of the proved C09 cases:
    * pass-through (nil builder / empty QUICFrames): base offset at most MaxUint16 — `QUICFrames.build`
      rebases on `min(MaxUint16, offset)`;
    * a QUICFrames layout: it tiles a share of this length from offset 0 (`layoutTiles`, the monitor
      predicate) and its wire offsets are representable;
    * QUICRandomFrames / QUICMultiDatagramFrames: nothing. -/
def ShareFits (fb : Builder) (s : Nat × Nat) : Prop :=
  match fb with
  | .none => s.1 ≤ 65535
  | .frames qfs =>
    if qfs.isEmpty then s.1 ≤ 65535
    else layoutTiles qfs s.2 = true ∧ layoutLowest qfs = 0 ∧
      ∀ off len, QFrame.crypto off len ∈ qfs → off + (s.1 : Int) ≤ maxVarInt8
  | _ => True

theorem passThrough_carries {off : Nat} {data p : List UInt8} (hoff : off ≤ 65535) (hne : 0 < data.length)
    (hrep : off + data.length ≤ maxVarInt8)
    (h : qfBuild [QFrame.crypto off data.length] data 0 = .ok p) : carries data off [p] = true := by
  have hlow : lowestOffset [QFrame.crypto off data.length] = off := by
    unfold lowestOffset
    by_cases hc : (off : Int) < 65535
    · simp [QFrame.infoOff, hc]
    · simp [QFrame.infoOff, hc]; omega
  obtain ⟨p', hp', hc⟩ := buildAll_carries_int (low := (off : Int)) (data := data) (base := 0)
    (fs := [QFrame.crypto off data.length]) (by omega)
    (by
      intro f hf
      simp only [List.mem_singleton] at hf; subst hf
      exact ⟨Int.le_refl _, by omega, by omega, by omega, by omega⟩)
    (by
      intro o l hm
      simp only [List.mem_singleton, QFrame.crypto.injEq] at hm
      omega)
    (by
      intro i hi
      refine ⟨off, data.length, List.mem_singleton.mpr rfl, ?_, ?_⟩
      · unfold rstart; omega
      · unfold rlen rstart
        split <;> omega)
  simp only [qfBuild, List.isEmpty_cons, Bool.false_eq_true, if_false, hlow, hp'] at h
  obtain rfl : p' = p := by simpa using h
  simpa using hc

/-- one datagram: whatever the builder returns for the share carries the share at its base offset -/
theorem builderCall_carries (fb : Builder) (idx : Int) (data : List UInt8) (off : Nat) (d : Draws)
    (perm : List Nat) (p : List UInt8) (hne : 0 < data.length) (hrep : off + data.length ≤ maxVarInt8)
    (hfit : ShareFits fb (off, data.length))
    (h : builderCall fb idx data off d perm = .ok p) : carries data off [p] = true := by
  cases fb with
  | none => exact passThrough_carries hfit hne hrep h
  | frames qfs =>
    simp only [builderCall] at h
    simp only [ShareFits] at hfit
    by_cases he : qfs.isEmpty = true
    · rw [if_pos he] at h hfit
      exact passThrough_carries hfit hne hrep h
    · rw [if_neg he] at h hfit
      obtain ⟨ht, hl, hr⟩ := hfit
      obtain ⟨p', hp', hc⟩ := layoutTiles_build qfs data off ht (by rw [hl]; omega) (by omega)
        (by
          intro o l hm
          have : layoutOf' qfs = qfs := by unfold layoutOf'; rw [if_neg he]
          rw [this] at hm
          exact hr o l hm)
      rw [hp'] at h
      obtain rfl : p' = p := by simpa using h
      rw [hl] at hc
      simpa using hc
  | random c =>
    have := rfBuild_spec c data off d perm hrep
    simp only [builderCall] at h
    rw [h] at this
    exact this
  | multi per =>
    simp only [builderCall] at h
    cases hs : mfSelect per idx with
    | ok c =>
      rw [hs] at h
      have := rfBuild_spec c data off d perm hrep
      simp only [] at h
      rw [h] at this
      exact this
    | err e => rw [hs] at h; simp at h
    | panic => rw [hs] at h; simp at h
    | wrap => rw [hs] at h; simp at h

/-- every datagram of the flight carries its share at its base offset -/
theorem flightPayloads_each (fb : Builder) (CH : List UInt8) (rand : Nat → Draws × List Nat)
    (hrep : CH.length ≤ maxVarInt8) :
    ∀ (shares : List (Nat × Nat)) (idx : Int) (i off e : Nat) (ps : List (List UInt8)),
      SharesFrom off shares e → e ≤ CH.length → (∀ s ∈ shares, ShareFits fb s) →
      flightPayloads fb CH rand idx i shares = .ok ps →
      EachCarries CH shares ps ∧ ps.length = shares.length := by
  intro shares
  induction shares with
  | nil =>
    intro idx i off e ps _ _ _ h
    simp only [flightPayloads, Outcome.ok.injEq] at h
    subst h
    exact ⟨trivial, rfl⟩
  | cons s rest ih =>
    intro idx i off e ps hs he hfit h
    cases hs with
    | cons hn hs' =>
      rename_i n
      have hle : off + n ≤ e := hs'.le
      simp only [flightPayloads] at h
      have hdl : ((CH.drop off).take n).length = n := by simp; omega
      cases hm : marshalInitial fb idx false [(off, (CH.drop off).take n)] (rand i).1 (rand i).2 with
      | ok v =>
        obtain ⟨p, idx'⟩ := v
        rw [hm] at h
        simp only [] at h
        obtain ⟨_, hcall⟩ := marshal_single fb idx off _ _ _ p idx' (by omega) (by rw [hdl]; omega) hm
        have hfit0 := hfit (off, n) (List.mem_cons_self ..)
        have hc := builderCall_carries fb idx _ off _ _ p (by rw [hdl]; exact hn) (by rw [hdl]; omega)
          (by rw [hdl]; exact hfit0) hcall
        cases hrest : flightPayloads fb CH rand idx' (i + 1) rest with
        | ok ps' =>
          rw [hrest] at h
          simp only [Outcome.ok.injEq] at h
          subst h
          obtain ⟨h1, h2⟩ := ih idx' (i + 1) (off + n) e ps' hs' he
            (fun s hs => hfit s (List.mem_cons_of_mem _ hs)) hrest
          exact ⟨⟨hc, h1⟩, by simp [h2]⟩
        | err e' => rw [hrest] at h; simp at h
        | panic => rw [hrest] at h; simp at h
        | wrap => rw [hrest] at h; simp at h
      | err e' => rw [hm] at h; simp at h
      | panic => rw [hm] at h; simp at h
      | wrap => rw [hm] at h; simp at h

end Uquic.Proofs.Compose
