/-
Stateless reset tokens: the add/remove callbacks of the connection ID manager
model keep exactly the tokens of the active and the path-probing connection IDs
registered (as a multiset), and none once the manager is closed.
-/
import Uquic.Proofs.ConnIDLedger

namespace Uquic.Proofs.ConnID
open Uquic.Model.ConnID

/-- effect of one callback on the multiset of registered tokens -/
def applyTok (reg : List Bytes) : Ev → List Bytes
  | .addTok t => t :: reg
  | .rmTok t => reg.erase t
  | .retire _ => reg

def regAfter (reg : List Bytes) (evs : List Ev) : List Bytes := evs.foldl applyTok reg

def optToks : Option Bytes → List Bytes
  | some t => [t]
  | none => []

/-- the tokens that have to be registered: those of the active and the path-probing connection IDs -/
def expectedToks (m : Manager) : List Bytes :=
  if m.closed then [] else optToks m.activeTok ++ m.probing.map (·.2.tok)

def TokSpec (m : Manager) (evs : List Ev) (m' : Manager) : Prop :=
  ∀ reg : List Bytes, reg.Perm (expectedToks m) → (regAfter reg evs).Perm (expectedToks m')

theorem regAfter_append (reg : List Bytes) (a b : List Ev) : regAfter reg (a ++ b) = regAfter (regAfter reg a) b := by
  simp [regAfter, List.foldl_append]

theorem TokSpec.refl (m : Manager) : TokSpec m [] m := fun _ h => h

theorem TokSpec.comp {m m1 m2 : Manager} {e1 e2 : List Ev} (h1 : TokSpec m e1 m1) (h2 : TokSpec m1 e2 m2) :
    TokSpec m (e1 ++ e2) m2 := by
  intro reg h; rw [regAfter_append]; exact h2 _ (h1 reg h)

theorem regAfter_retires (reg : List Bytes) (l : List Entry) : regAfter reg (l.map fun e => Ev.retire e.seq) = reg := by
  induction l with
  | nil => rfl
  | cons x xs ih => simp only [List.map_cons, regAfter, List.foldl_cons, applyTok] at ih ⊢; exact ih

theorem regAfter_nil_probing (l : List (Nat × Entry)) : regAfter [] (retireProbingEvs l) = [] := by
  induction l with
  | nil => rfl
  | cons x xs ih =>
    simp only [retireProbingEvs, List.flatMap_cons] at ih ⊢
    rw [regAfter_append]
    simp only [regAfter, List.foldl_cons, List.foldl_nil, applyTok, List.erase_nil] at ih ⊢
    exact ih

theorem perm_nil_eq {l : List Bytes} (h : l.Perm []) : l = [] := List.Perm.eq_nil h

/-- removing the tokens of the dropped path-probing entries -/
theorem regAfter_dropProbing (d : Nat × Entry → Bool) : ∀ (l : List (Nat × Entry)) (A reg : List Bytes),
    reg.Perm (A ++ l.map (·.2.tok)) →
    (regAfter reg (retireProbingEvs (l.filter d))).Perm (A ++ (l.filter fun x => !d x).map (·.2.tok))
  | [], A, reg, h => by simpa [retireProbingEvs, regAfter] using h
  | x :: xs, A, reg, h => by
    by_cases hd : d x = true
    · simp only [List.filter_cons, hd, ↓reduceIte, Bool.not_true, Bool.false_eq_true]
      simp only [retireProbingEvs, List.flatMap_cons]
      rw [regAfter_append]
      have h1 : (regAfter reg [Ev.retire x.2.seq, Ev.rmTok x.2.tok]) = reg.erase x.2.tok := by
        simp [regAfter, applyTok]
      rw [h1]
      apply regAfter_dropProbing d xs A
      have h2 : reg.Perm (x.2.tok :: (A ++ xs.map (·.2.tok))) := by
        refine h.trans ?_
        simp only [List.map_cons]
        exact List.perm_middle
      have h3 := h2.erase x.2.tok
      simpa using h3
    · simp only [List.filter_cons, hd, Bool.false_eq_true, ↓reduceIte, Bool.not_false, List.map_cons]
      have := regAfter_dropProbing d xs (A ++ [x.2.tok]) reg (by simpa [List.append_assoc] using h)
      simpa [List.append_assoc] using this

theorem rptProbing_tok (m : Manager) (rpt : Nat) :
    TokSpec m (m.retireProbingBelow rpt).2 (m.retireProbingBelow rpt).1 := by
  intro reg h
  unfold Manager.retireProbingBelow
  unfold expectedToks at h ⊢
  simp only
  cases hc : m.closed with
  | true =>
    simp only [hc, ↓reduceIte] at h ⊢
    rw [perm_nil_eq h, regAfter_nil_probing]
  | false =>
    simp only [hc, Bool.false_eq_true, ↓reduceIte] at h ⊢
    have := regAfter_dropProbing (fun pe => decide (pe.2.seq < rpt)) m.probing (optToks m.activeTok) reg h
    have hf : (m.probing.filter fun x => !decide (x.2.seq < rpt)) = m.probing.filter fun pe => decide (¬ pe.2.seq < rpt) := by
      apply List.filter_congr; intro x _
      by_cases hx : x.2.seq < rpt <;> simp [hx]
    rw [hf] at this
    exact this

theorem rptQueue_tok (m : Manager) (rpt : Nat) :
    TokSpec m (m.retireQueueBelow rpt).2 (m.retireQueueBelow rpt).1 := by
  intro reg h
  unfold Manager.retireQueueBelow
  split
  · simp only [regAfter_retires]
    exact h
  · exact h

theorem update_tok (m : Manager) (draw : Nat) (hne : m.queue ≠ []) :
    TokSpec m (m.updateConnectionID draw).2.1 (m.updateConnectionID draw).1 := by
  intro reg h
  unfold Manager.updateConnectionID
  cases hc : m.closed with
  | true => simpa [hc, regAfter] using h
  | false =>
    match hq : m.queue with
    | [] => exact absurd hq hne
    | front :: rest =>
      simp only [Bool.false_eq_true, ↓reduceIte]
      unfold expectedToks at h ⊢
      simp only [hc, Bool.false_eq_true, ↓reduceIte] at h ⊢
      cases ht : m.activeTok with
      | none =>
        simp only [ht, optToks, List.nil_append] at h
        simp only [rmTokOpt, optToks, regAfter, List.cons_append, List.nil_append, List.foldl_cons, List.foldl_nil, applyTok]
        exact List.Perm.cons _ h
      | some t =>
        simp only [ht, optToks, List.cons_append, List.nil_append] at h
        simp only [rmTokOpt, optToks, regAfter, List.cons_append, List.nil_append, List.foldl_cons, List.foldl_nil, applyTok]
        have := h.erase t
        simp only [List.erase_cons_head] at this
        exact List.Perm.cons _ this

theorem path_tok {m : Manager} {p : Nat} {front : Entry} {rest : List Entry} (hc : m.closed = false) :
    TokSpec m [Ev.addTok front.tok]
      { m with queue := rest, probing := m.probing ++ [(p, front)], highestProbing := front.seq } := by
  intro reg h
  unfold expectedToks at h ⊢
  simp only [hc, Bool.false_eq_true, ↓reduceIte, regAfter, List.foldl_cons, List.foldl_nil, applyTok, List.map_append,
    List.map_cons, List.map_nil] at h ⊢
  rw [← List.append_assoc]
  exact (List.Perm.cons _ h).trans (List.perm_append_singleton _ _).symm

theorem perm_remove_key {p : Nat} {e : Entry} : ∀ {l : List (Nat × Entry)}, (l.map (·.1)).Nodup → (p, e) ∈ l →
    (l.map (·.2.tok)).Perm (e.tok :: (l.filter fun pe => pe.1 ≠ p).map (·.2.tok))
  | [], _, h => by simp at h
  | x :: xs, hn, h => by
    simp only [List.map_cons, List.nodup_cons] at hn
    simp only [List.mem_cons] at h
    rcases h with rfl | h
    · -- the head is the entry; no other entry has the key
      have hall : ∀ a ∈ xs, (!decide (a.1 = p)) = true := by
        intro a ha
        simp only [Bool.not_eq_eq_eq_not, Bool.not_true, decide_eq_false_iff_not]
        intro hk; apply hn.1; exact List.mem_map.mpr ⟨a, ha, hk⟩
      simp only [List.filter_cons, ne_eq, List.map_cons, decide_not, decide_true, Bool.not_true, Bool.false_eq_true,
        ↓reduceIte]
      rw [List.filter_eq_self.mpr hall]
    · have hx : x.1 ≠ p := by
        intro hk; apply hn.1; exact List.mem_map.mpr ⟨(p, e), h, hk.symm⟩
      have ih := perm_remove_key hn.2 h
      simp only [List.filter_cons, hx, ne_eq, not_false_eq_true, decide_true, ↓reduceIte, List.map_cons]
      exact (List.Perm.cons _ ih).trans (List.Perm.swap _ _ _)

theorem retirePath_tok {m : Manager} {p : Nat} {e : Entry} (hi : Inv m) (hc : m.closed = false)
    (hl : lookupPath p m.probing = some e) :
    TokSpec m [Ev.retire e.seq, Ev.rmTok e.tok] { m with probing := m.probing.filter fun pe => pe.1 ≠ p } := by
  intro reg h
  unfold expectedToks at h ⊢
  simp only [hc, Bool.false_eq_true, ↓reduceIte, regAfter, List.foldl_cons, List.foldl_nil, applyTok] at h ⊢
  have hp := perm_remove_key hi.p_keys (lookupPath_some hl)
  have h2 : reg.Perm (e.tok :: (optToks m.activeTok ++ (m.probing.filter fun pe => pe.1 ≠ p).map (·.2.tok))) :=
    (h.trans (List.Perm.append_left _ hp)).trans List.perm_middle
  have h3 := h2.erase e.tok
  simpa using h3

theorem regAfter_rmAll : ∀ (l : List (Nat × Entry)) (reg : List Bytes), reg.Perm (l.map (·.2.tok)) →
    regAfter reg (l.map fun pe => Ev.rmTok pe.2.tok) = []
  | [], reg, h => by simpa [regAfter] using perm_nil_eq h
  | x :: xs, reg, h => by
    simp only [List.map_cons, regAfter, List.foldl_cons, applyTok]
    apply regAfter_rmAll xs
    have := h.erase x.2.tok
    simpa using this

theorem regAfter_rmTokOpt_nil (o : Option Bytes) : regAfter [] (rmTokOpt o) = [] := by
  cases o <;> simp [rmTokOpt, regAfter, applyTok]

theorem regAfter_rm_nil (l : List (Nat × Entry)) : regAfter [] (l.map fun pe => Ev.rmTok pe.2.tok) = [] := by
  induction l with
  | nil => rfl
  | cons x xs ih => simpa [regAfter, applyTok] using ih

theorem close_tok (m : Manager) : TokSpec m m.close.2 m.close.1 := by
  intro reg h
  unfold Manager.close
  unfold expectedToks at h ⊢
  simp only [↓reduceIte]
  rw [regAfter_append]
  cases hc : m.closed with
  | true =>
    simp only [hc, ↓reduceIte] at h
    rw [perm_nil_eq h, regAfter_rmTokOpt_nil, regAfter_rm_nil]
  | false =>
    simp only [hc, Bool.false_eq_true, ↓reduceIte] at h
    have h1 : (regAfter reg (rmTokOpt m.activeTok)).Perm (m.probing.map (·.2.tok)) := by
      cases ht : m.activeTok with
      | none => simpa [ht, optToks, rmTokOpt, regAfter] using h
      | some t =>
        simp only [ht, optToks, List.cons_append, List.nil_append] at h
        have := h.erase t
        simpa [rmTokOpt, regAfter, applyTok] using this
    rw [regAfter_rmAll m.probing _ h1]

/-- steps that neither touch tokens nor the fields the expected tokens depend on -/
theorem sameToks_tok {m m' : Manager} (h1 : m'.closed = m.closed) (h2 : m'.activeTok = m.activeTok)
    (h3 : m'.probing = m.probing) : TokSpec m [] m' := by
  intro reg h
  unfold expectedToks at h ⊢
  rw [h1, h2, h3]; exact h

end Uquic.Proofs.ConnID

namespace Uquic.Proofs.ConnID
open Uquic.Model.ConnID

theorem add_tok (m : Manager) (seq rpt : Nat) (id tok : Bytes) (draw : Nat) :
    TokSpec m (m.add seq rpt id tok draw).2.1 (m.add seq rpt id tok draw).1 := by
  unfold Manager.add
  split
  · exact TokSpec.refl m
  split
  · exact TokSpec.refl m
  split
  · intro reg h; simpa [regAfter, applyTok] using h
  have T1 := rptProbing_tok m rpt
  have T2 := rptQueue_tok (m.retireProbingBelow rpt).1 rpt
  simp only
  generalize m.retireProbingBelow rpt = r1 at T1 T2 ⊢
  generalize r1.1.retireQueueBelow rpt = r2 at T2 ⊢
  have T12 : TokSpec m (r1.2 ++ r2.2) r2.1 := T1.comp T2
  split
  · exact T12
  split
  · exact T12
  rename_i q hq
  have T3 : TokSpec m (r1.2 ++ r2.2) { r2.1 with queue := q } := by
    have := T12.comp (sameToks_tok (m := r2.1) (m' := { r2.1 with queue := q }) rfl rfl rfl)
    simpa using this
  split
  · exact T3.comp (update_tok _ draw (addConnectionID_nonempty hq))
  · exact T3

theorem step_tok {m : Manager} (op : Op) (hi : Inv m) (hv : OpValid m op) :
    TokSpec m (m.step op).2.1 (m.step op).1 := by
  cases op with
  | new seq rpt id tok draw =>
    have F := addFrame_state m seq rpt id tok draw
    simp only [Manager.step]
    rw [F.1, F.2.1]
    exact add_tok m seq rpt id tok draw
  | pref id tok =>
    simp only [Manager.step, Manager.addFromPreferredAddress]
    split
    · exact TokSpec.refl m
    · exact sameToks_tok rfl rfl rfl
  | get draw =>
    simp only [Manager.step, Manager.get]
    split
    · exact TokSpec.refl m
    · split
      · rename_i hsu
        exact update_tok m draw (shouldUpdate_nonempty hsu)
      · exact TokSpec.refl m
  | sentPacket => exact sameToks_tok (m := m) (m' := m.sentPacket) rfl rfl rfl
  | path p =>
    simp only [Manager.step, Manager.getConnIDForPath]
    split
    · exact TokSpec.refl m
    rename_i hc
    split
    · exact TokSpec.refl m
    split
    · exact TokSpec.refl m
    · split
      · exact TokSpec.refl m
      · exact path_tok (by simpa using hc)
  | retirePath p =>
    simp only [Manager.step, Manager.retireConnIDForPath]
    split
    · exact TokSpec.refl m
    rename_i hc
    split
    · exact TokSpec.refl m
    split
    · exact TokSpec.refl m
    · rename_i e hl
      exact retirePath_tok hi (by simpa using hc) hl
  | hsDone => exact sameToks_tok (m := m) (m' := m.setHandshakeComplete) rfl rfl rfl
  | close => exact close_tok m
  | setTok t =>
    simp only [Manager.step, Manager.setStatelessResetToken]
    split
    · exact TokSpec.refl m
    rename_i hc
    split
    · exact TokSpec.refl m
    · intro reg h
      have hc' : m.closed = false := by simpa using hc
      have hv' : m.activeTok = none := hv
      unfold expectedToks at h ⊢
      simp only [hc', hv', optToks, Bool.false_eq_true, ↓reduceIte, List.nil_append, regAfter, List.foldl_cons,
        List.foldl_nil, applyTok, List.cons_append] at h ⊢
      exact List.Perm.cons _ h
  | changeInitial id =>
    simp only [Manager.step, Manager.changeInitialConnID]
    split
    · exact TokSpec.refl m
    · exact sameToks_tok rfl rfl rfl
  | setLimit n => exact sameToks_tok (m := m) (m' := m.setConnectionIDLimit n) rfl rfl rfl

/-- along every history the registered tokens are exactly the expected ones -/
theorem run_tok {m : Manager} (hi : Inv m) : ∀ {ops : List Op}, ValidRun m ops →
    ∀ reg : List Bytes, reg.Perm (expectedToks m) → (regAfter reg (m.run ops).2).Perm (expectedToks (m.run ops).1) := by
  intro ops
  induction ops generalizing m with
  | nil => intro _ reg h; simpa [Manager.run, regAfter] using h
  | cons op ops ih =>
    intro hv reg h
    simp only [Manager.run]
    rw [regAfter_append]
    exact ih (step_spec op hi hv.1).1.inv hv.2 _ (step_tok op hi hv.1 reg h)

end Uquic.Proofs.ConnID
