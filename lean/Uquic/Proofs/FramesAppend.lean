/-
C09 helper lemma: the reference reader is compositional — reading a concatenation of two frame
sequences gives the concatenation of the frame lists.
-/
import Uquic.Proofs.FramesReader

namespace Uquic.Proofs.Frames
open Uquic.Spec.Framing

theorem readVarint_append {x r : List UInt8} {v : Nat} (h : readVarint x = some (v, r)) (y : List UInt8) :
    readVarint (x ++ y) = some (v, r ++ y) := by
  cases x with
  | nil => simp [readVarint] at h
  | cons b rest =>
    simp only [readVarint] at h
    simp only [List.cons_append, readVarint]
    split at h
    · rename_i h1
      obtain ⟨rfl, rfl⟩ := Prod.mk.inj (Option.some.inj h)
      rw [if_pos h1]
    · rename_i h1
      rw [if_neg h1]
      split at h
      · rename_i h2
        rw [if_pos h2]
        split at h
        · obtain ⟨rfl, rfl⟩ := Prod.mk.inj (Option.some.inj h); rfl
        · simp at h
      · rename_i h2
        rw [if_neg h2]
        split at h
        · rename_i h3
          rw [if_pos h3]
          split at h
          · obtain ⟨rfl, rfl⟩ := Prod.mk.inj (Option.some.inj h); rfl
          · simp at h
        · rename_i h3
          rw [if_neg h3]
          split at h
          · obtain ⟨rfl, rfl⟩ := Prod.mk.inj (Option.some.inj h); rfl
          · simp at h

theorem readFrames_append_aux : ∀ (n : Nat) (a : List UInt8) (fa : List Frame), a.length ≤ n →
    readFrames a = some fa → ∀ b, readFrames (a ++ b) = (readFrames b).map (fa ++ ·) := by
  intro n
  induction n with
  | zero =>
    intro a fa hn h b
    have : a = [] := List.eq_nil_of_length_eq_zero (by omega)
    subst this
    rw [readFrames_nil] at h
    obtain rfl := Option.some.inj h
    rw [List.nil_append]
    cases readFrames b <;> simp
  | succ n ih =>
    intro a fa hn h b
    cases a with
    | nil =>
      rw [readFrames_nil] at h
      obtain rfl := Option.some.inj h
      rw [List.nil_append]
      cases readFrames b <;> simp
    | cons t rest =>
      simp only [List.length_cons] at hn
      by_cases h0 : t = 0
      · subst h0
        rw [readFrames_padding] at h
        rw [List.cons_append, readFrames_padding]
        cases hr : readFrames rest with
        | none => rw [hr] at h; simp at h
        | some f0 =>
          rw [hr] at h
          obtain rfl : Frame.padding :: f0 = fa := by simpa using h
          rw [ih rest f0 (by omega) hr b]
          cases readFrames b <;> simp
      · by_cases h1 : t = 1
        · subst h1
          rw [readFrames_ping] at h
          rw [List.cons_append, readFrames_ping]
          cases hr : readFrames rest with
          | none => rw [hr] at h; simp at h
          | some f0 =>
            rw [hr] at h
            obtain rfl : Frame.ping :: f0 = fa := by simpa using h
            rw [ih rest f0 (by omega) hr b]
            cases readFrames b <;> simp
        · by_cases h6 : t = 6
          · subst h6
            rw [readFrames] at h
            simp only [show ¬ ((6 : UInt8) = 0) by decide, show ¬ ((6 : UInt8) = 1) by decide, if_false, if_true] at h
            split at h
            · simp at h
            · rename_i off r1 hv1
              split at h
              · simp at h
              · rename_i len r2 hv2
                split at h
                · rename_i hle
                  cases hr : readFrames (r2.drop len) with
                  | none => rw [hr] at h; simp at h
                  | some f0 =>
                    rw [hr] at h
                    obtain rfl : Frame.crypto off (r2.take len) :: f0 = fa := by simpa using h
                    have hl1 := readVarint_length hv1
                    have hl2 := readVarint_length hv2
                    have e1 := readVarint_append hv1 b
                    have e2 := readVarint_append hv2 b
                    rw [List.cons_append, readFrames]
                    simp only [show ¬ ((6 : UInt8) = 0) by decide, show ¬ ((6 : UInt8) = 1) by decide, if_false, if_true]
                    split
                    · rename_i hx; rw [e1] at hx; simp at hx
                    · rename_i o' r1' hx
                      rw [e1] at hx
                      obtain ⟨rfl, rfl⟩ := Prod.mk.inj (Option.some.inj hx)
                      split
                      · rename_i hy; rw [e2] at hy; simp at hy
                      · rename_i l' r2' hy
                        rw [e2] at hy
                        obtain ⟨rfl, rfl⟩ := Prod.mk.inj (Option.some.inj hy)
                        rw [if_pos (by simp; omega)]
                        rw [List.take_append_of_le_length hle, List.drop_append_of_le_length hle]
                        rw [ih (r2.drop _) f0 (by simp only [List.length_drop]; omega) hr b]
                        cases readFrames b <;> simp
                · simp at h
          · rw [readFrames] at h
            simp [h0, h1, h6] at h

/-- `readFrames_append`: a payload that parses, followed by anything, parses as its frames followed
    by the frames of the rest -/
theorem readFrames_append {a : List UInt8} {fa : List Frame} (h : readFrames a = some fa) (b : List UInt8) :
    readFrames (a ++ b) = (readFrames b).map (fa ++ ·) :=
  readFrames_append_aux a.length a fa (Nat.le_refl _) h b

end Uquic.Proofs.Frames
