/-
C09 helper lemmas: the reference reader (Uquic.Spec.Framing) against the model's serialisers.
-/
import Uquic.Spec.Framing
import Uquic.Model.UQuic.Frames

namespace Uquic.Proofs.Frames
open Uquic.Spec.Framing Uquic.Model.UQuic.Frames

theorem maxVarInt1_eq : maxVarInt1 = 63 := by decide
theorem maxVarInt2_eq : maxVarInt2 = 16383 := by decide
theorem maxVarInt4_eq : maxVarInt4 = 1073741823 := by decide
theorem maxVarInt8_eq : maxVarInt8 = 4611686018427387903 := by decide

theorem toNat_ofNat_lt {x : Nat} (h : x < 256) : (UInt8.ofNat x).toNat = x := by
  simp [UInt8.toNat_ofNat']; omega

/-- the reference reader inverts `quicvarint.Append` -/
theorem readVarint_appendVarint {v : Nat} {enc : List UInt8} (h : appendVarint v = some enc)
    (rest : List UInt8) : readVarint (enc ++ rest) = some (v, rest) := by
  unfold appendVarint at h
  rw [maxVarInt1_eq, maxVarInt2_eq, maxVarInt4_eq, maxVarInt8_eq] at h
  split at h
  · rename_i h1
    obtain rfl := Option.some.inj h
    have e : (UInt8.ofNat v).toNat = v := toNat_ofNat_lt (by omega)
    simp [readVarint, e]; omega
  · split at h
    · rename_i h1 h2
      obtain rfl := Option.some.inj h
      have e0 : (UInt8.ofNat (64 + v / 256)).toNat = 64 + v / 256 := toNat_ofNat_lt (by omega)
      have e1 : (UInt8.ofNat (v % 256)).toNat = v % 256 := toNat_ofNat_lt (by omega)
      simp only [List.cons_append, List.nil_append, readVarint, e0, e1]
      rw [if_neg (by omega), if_pos (by omega)]
      simp; omega
    · split at h
      · rename_i h1 h2 h3
        obtain rfl := Option.some.inj h
        have e0 : (UInt8.ofNat (128 + v / 16777216)).toNat = 128 + v / 16777216 := toNat_ofNat_lt (by omega)
        have e1 : (UInt8.ofNat (v / 65536 % 256)).toNat = v / 65536 % 256 := toNat_ofNat_lt (by omega)
        have e2 : (UInt8.ofNat (v / 256 % 256)).toNat = v / 256 % 256 := toNat_ofNat_lt (by omega)
        have e3 : (UInt8.ofNat (v % 256)).toNat = v % 256 := toNat_ofNat_lt (by omega)
        simp only [List.cons_append, List.nil_append, readVarint, e0, e1, e2, e3]
        rw [if_neg (by omega), if_neg (by omega), if_pos (by omega)]
        simp; omega
      · split at h
        · rename_i h1 h2 h3 h4
          obtain rfl := Option.some.inj h
          have e0 : (UInt8.ofNat (192 + v / 72057594037927936)).toNat = 192 + v / 72057594037927936 :=
            toNat_ofNat_lt (by omega)
          have e1 : (UInt8.ofNat (v / 281474976710656 % 256)).toNat = v / 281474976710656 % 256 := toNat_ofNat_lt (by omega)
          have e2 : (UInt8.ofNat (v / 1099511627776 % 256)).toNat = v / 1099511627776 % 256 := toNat_ofNat_lt (by omega)
          have e3 : (UInt8.ofNat (v / 4294967296 % 256)).toNat = v / 4294967296 % 256 := toNat_ofNat_lt (by omega)
          have e4 : (UInt8.ofNat (v / 16777216 % 256)).toNat = v / 16777216 % 256 := toNat_ofNat_lt (by omega)
          have e5 : (UInt8.ofNat (v / 65536 % 256)).toNat = v / 65536 % 256 := toNat_ofNat_lt (by omega)
          have e6 : (UInt8.ofNat (v / 256 % 256)).toNat = v / 256 % 256 := toNat_ofNat_lt (by omega)
          have e7 : (UInt8.ofNat (v % 256)).toNat = v % 256 := toNat_ofNat_lt (by omega)
          simp only [List.cons_append, List.nil_append, readVarint, e0, e1, e2, e3, e4, e5, e6, e7]
          rw [if_neg (by omega), if_neg (by omega), if_neg (by omega)]
          simp; omega
        · simp at h

theorem appendVarint_isSome {v : Nat} (h : v ≤ maxVarInt8) : ∃ enc, appendVarint v = some enc := by
  unfold appendVarint
  split
  · exact ⟨_, rfl⟩
  · split
    · exact ⟨_, rfl⟩
    · split
      · exact ⟨_, rfl⟩
      · exact ⟨_, rfl⟩

theorem appendVarint_none {v : Nat} (h : maxVarInt8 < v) : appendVarint v = none := by
  unfold appendVarint
  rw [maxVarInt1_eq, maxVarInt2_eq, maxVarInt4_eq]
  rw [maxVarInt8_eq] at h ⊢
  rw [if_neg (by omega), if_neg (by omega), if_neg (by omega), if_neg (by omega)]

/-! ### reading serialised frames -/

theorem readFrames_nil : readFrames [] = some [] := by
  unfold readFrames; rfl

theorem readFrames_padding (rest : List UInt8) :
    readFrames (0 :: rest) = (readFrames rest).map (Frame.padding :: ·) := by
  rw [readFrames]; simp

theorem readFrames_ping (rest : List UInt8) :
    readFrames (1 :: rest) = (readFrames rest).map (Frame.ping :: ·) := by
  rw [readFrames]; simp

theorem readFrames_paddings (k : Nat) (rest : List UInt8) :
    readFrames (List.replicate k 0 ++ rest) = (readFrames rest).map (List.replicate k Frame.padding ++ ·) := by
  induction k with
  | zero => simp
  | succ k ih =>
    rw [List.replicate_succ, List.cons_append, readFrames_padding, ih]
    cases readFrames rest <;> simp [List.replicate_succ]

/-- a complete CRYPTO frame as the builders serialise it -/
theorem readFrames_crypto {off : Nat} {a b : List UInt8} (data rest : List UInt8)
    (ha : appendVarint off = some a) (hb : appendVarint data.length = some b) :
    readFrames ([6] ++ a ++ b ++ data ++ rest) = (readFrames rest).map (Frame.crypto off data :: ·) := by
  have e1 : readVarint (a ++ (b ++ (data ++ rest))) = some (off, b ++ (data ++ rest)) :=
    readVarint_appendVarint ha _
  have e2 : readVarint (b ++ (data ++ rest)) = some (data.length, data ++ rest) :=
    readVarint_appendVarint hb _
  simp only [List.append_assoc, List.cons_append, List.nil_append]
  rw [readFrames]
  simp only [show ¬ ((6 : UInt8) = 0) by decide, show ¬ ((6 : UInt8) = 1) by decide, if_false, if_true]
  split
  · rename_i hx; rw [e1] at hx; simp at hx
  · rename_i o r1 hx
    rw [e1] at hx
    obtain ⟨rfl, rfl⟩ := Prod.mk.inj (Option.some.inj hx)
    split
    · rename_i hy; rw [e2] at hy; simp at hy
    · rename_i l r2 hy
      rw [e2] at hy
      obtain ⟨rfl, rfl⟩ := Prod.mk.inj (Option.some.inj hy)
      simp

end Uquic.Proofs.Frames
