import Uquic.Proofs.WireMoreTP1
import Uquic.Model.Wire.MoreTP

/-! Transport parameters, round trip (2/3): what one loop iteration does with each kind of parameter
    `Marshal` writes. -/

set_option linter.unusedSimpArgs false
set_option linter.unusedVariables false

namespace Uquic.Proofs.WireMore
open Uquic.Proofs.Wire
open Uquic.Model.Wire Uquic.Model.Wire.Varint Uquic.Model.Wire.TP Uquic.Model.Wire.TP.RT

/-- the regenerated parameter ids (RFC 9000 §18.2, RFC 9221, reliable-reset and ack-frequency drafts) -/
theorem tp_ids : idODCID = 0 ∧ idMaxIdleTimeout = 1 ∧ idSRT = 2 ∧ idMaxUDPPayloadSize = 3 ∧ idInitialMaxData = 4
    ∧ idBidiLocal = 5 ∧ idBidiRemote = 6 ∧ idUni = 7 ∧ idStreamsBidi = 8 ∧ idStreamsUni = 9 ∧ idAckDelayExponent = 10
    ∧ idMaxAckDelay = 11 ∧ idDisableActiveMigration = 12 ∧ idPreferredAddress = 13 ∧ idActiveConnectionIDLimit = 14
    ∧ idISCID = 15 ∧ idRSCID = 16 ∧ idMaxDatagramFrameSize = 32 ∧ idResetStreamAt = 0x17f7586d2cb571
    ∧ idMinAckDelay = 0xff04de1b := by decide

theorem len_le8 (v : Nat) : len v ≤ 8 := by
  unfold len; repeat' split
  all_goals omega

theorem len_fits (v : Nat) : len v ≤ maxVarInt8 := by
  have := len_le8 v; rw [max8_eq]; omega

theorem enc_ne_nil (v : Nat) (h : v ≤ maxVarInt8) : enc v ≠ [] := by
  intro hc
  have := len_enc v h
  have := len_pos v h
  simp_all

theorem drop_enc (v : Nat) (h : v ≤ maxVarInt8) (rest : Bytes) : (enc v ++ rest).drop (len v) = rest := by
  rw [← len_enc v h]; simp

/-- the state after one accepted parameter: `f` applied to the parameters, `ids` recorded -/
def upd (s : LoopSt) (ids : List Nat) (f : Params → Params) (o i : Bool) : LoopSt :=
  { p := f s.p, ids := s.ids ++ ids, readODCID := s.readODCID || o, readISCID := s.readISCID || i }

theorem upd_nil (s : LoopSt) : upd s [] (fun q => q) false false = s := by
  cases s; simp [upd]

/-- a numeric parameter written by `marshalVarintParam` -/
theorem L_num (sb id v : Nat) (rest : Bytes) (s : LoopSt) (f : Params → Params)
    (hnum : isNumericID id = true) (hid : id ≤ maxVarInt8) (hv : v ≤ maxVarInt8)
    (hr : ∀ q, readNumeric q (enc v ++ rest) id (len v) = .ok (f q)) :
    L sb (enc id ++ (enc (len v) ++ (enc v ++ rest))) s = L sb rest (upd s [id] f false false) := by
  apply L_step
  · simp [enc_ne_nil id hid]
  · unfold loopStep
    simp only [take_of_decodes (decodes_enc id hid), take_of_decodes (decodes_enc (len v) (len_fits v))]
    have hl : ¬ ((enc v ++ rest).length < len v) := by rw [List.length_append, len_enc v hv]; omega
    simp only [if_neg hl, if_pos hnum, hr, drop_enc v hv, upd, Bool.or_false]

/-- a parameter `unmarshal` does not know (the greased one): skipped -/
theorem L_unknown (sb id : Nat) (val rest : Bytes) (s : LoopSt) (hk : isKnownID id = false)
    (hid : id ≤ maxVarInt8) (hl : val.length ≤ maxVarInt8) :
    L sb (enc id ++ (enc val.length ++ (val ++ rest))) s = L sb rest (upd s [id] (fun q => q) false false) := by
  apply L_step
  · simp [enc_ne_nil id hid]
  · unfold loopStep
    simp only [take_of_decodes (decodes_enc id hid), take_of_decodes (decodes_enc val.length hl)]
    simp only [isKnownID, Bool.or_eq_false_iff, decide_eq_false_iff_not] at hk
    obtain ⟨⟨⟨⟨⟨⟨⟨h1, h2⟩, h3⟩, h4⟩, h5⟩, h6⟩, h7⟩, h8⟩ := hk
    have hlen : ¬ ((val ++ rest).length < val.length) := by simp
    simp [hlen, h1, h2, h3, h4, h5, h6, h7, h8, upd]


theorem L_dam (sb : Nat) (rest : Bytes) (s : LoopSt) :
    L sb (enc idDisableActiveMigration ++ (enc 0 ++ rest)) s =
      L sb rest (upd s [idDisableActiveMigration] (fun q => { q with disableActiveMigration := true }) false false) := by
  apply L_step
  · simp [enc_ne_nil idDisableActiveMigration (by decide)]
  · unfold loopStep
    simp only [take_of_decodes (decodes_enc idDisableActiveMigration (by decide)), take_of_decodes (decodes_enc 0 (by decide))]
    simp (config := {decide := true}) [upd]

theorem L_rsa (sb : Nat) (rest : Bytes) (s : LoopSt) :
    L sb (enc idResetStreamAt ++ (enc 0 ++ rest)) s =
      L sb rest (upd s [idResetStreamAt] (fun q => { q with enableResetStreamAt := true }) false false) := by
  apply L_step
  · simp [enc_ne_nil idResetStreamAt (by decide)]
  · unfold loopStep
    simp only [take_of_decodes (decodes_enc idResetStreamAt (by decide)), take_of_decodes (decodes_enc 0 (by decide))]
    simp (config := {decide := true}) [upd]

theorem L_srt (sb : Nat) (t rest : Bytes) (s : LoopSt) (hsb : sb ≠ perspectiveClient) (ht : t.length = 16) :
    L sb (enc idSRT ++ (enc 16 ++ (t ++ rest))) s =
      L sb rest (upd s [idSRT] (fun q => { q with srt := some t }) false false) := by
  apply L_step
  · simp [enc_ne_nil idSRT (by decide)]
  · unfold loopStep
    simp only [take_of_decodes (decodes_enc idSRT (by decide)), take_of_decodes (decodes_enc 16 (by decide))]
    have h1 : ¬ (t.length + rest.length < 16) := by omega
    have h2 : (t ++ rest).take 16 = t := by rw [← ht]; simp
    have h3 : (t ++ rest).drop 16 = rest := by rw [← ht]; simp
    simp (config := {decide := true}) [upd, h1, h2, h3, hsb]

theorem maxConnIDLen_eq : TP.maxConnIDLen = 20 := by decide

theorem L_odcid (sb : Nat) (c rest : Bytes) (s : LoopSt) (hsb : sb ≠ perspectiveClient) (hc : c.length ≤ TP.maxConnIDLen) :
    L sb (enc idODCID ++ (enc c.length ++ (c ++ rest))) s =
      L sb rest (upd s [idODCID] (fun q => { q with odcid := c }) true false) := by
  have hcl : c.length ≤ maxVarInt8 := by rw [maxConnIDLen_eq] at hc; rw [max8_eq]; omega
  apply L_step
  · simp [enc_ne_nil idODCID (by decide)]
  · unfold loopStep
    simp only [take_of_decodes (decodes_enc idODCID (by decide)), take_of_decodes (decodes_enc c.length hcl)]
    have h1 : ¬ ((c ++ rest).length < c.length) := by simp
    have h4 : ¬ (c.length > TP.maxConnIDLen) := by omega
    simp (config := {decide := true}) [upd, h1, h4, hsb]

theorem L_iscid (sb : Nat) (c rest : Bytes) (s : LoopSt) (hc : c.length ≤ TP.maxConnIDLen) :
    L sb (enc idISCID ++ (enc c.length ++ (c ++ rest))) s =
      L sb rest (upd s [idISCID] (fun q => { q with iscid := c }) false true) := by
  have hcl : c.length ≤ maxVarInt8 := by rw [maxConnIDLen_eq] at hc; rw [max8_eq]; omega
  apply L_step
  · simp [enc_ne_nil idISCID (by decide)]
  · unfold loopStep
    simp only [take_of_decodes (decodes_enc idISCID (by decide)), take_of_decodes (decodes_enc c.length hcl)]
    have h1 : ¬ ((c ++ rest).length < c.length) := by simp
    have h4 : ¬ (c.length > TP.maxConnIDLen) := by omega
    simp (config := {decide := true}) [upd, h1, h4]

theorem L_rscid (sb : Nat) (c rest : Bytes) (s : LoopSt) (hsb : sb ≠ perspectiveClient) (hc : c.length ≤ TP.maxConnIDLen) :
    L sb (enc idRSCID ++ (enc c.length ++ (c ++ rest))) s =
      L sb rest (upd s [idRSCID] (fun q => { q with rscid := some c }) false false) := by
  have hcl : c.length ≤ maxVarInt8 := by rw [maxConnIDLen_eq] at hc; rw [max8_eq]; omega
  apply L_step
  · simp [enc_ne_nil idRSCID (by decide)]
  · unfold loopStep
    simp only [take_of_decodes (decodes_enc idRSCID (by decide)), take_of_decodes (decodes_enc c.length hcl)]
    have h1 : ¬ ((c ++ rest).length < c.length) := by simp
    have h4 : ¬ (c.length > TP.maxConnIDLen) := by omega
    simp (config := {decide := true}) [upd, h1, h4, hsb]


/-! ### preferred_address -/

/-- the 6 / 18 bytes `Marshal` writes for an address: the address and the big-endian port, or zeroes -/
def addrBytes (n : Nat) : Option (Bytes × Nat) → Bytes
  | some (ip, port) => ip ++ [u8 (port / 256), u8 port]
  | none => List.replicate (n + 2) 0

theorem len4 (l : Bytes) (h : l.length = 4) : ∃ a b c d, l = [a, b, c, d] := by
  match l, h with
  | [a, b, c, d], _ => exact ⟨a, b, c, d, rfl⟩

theorem len16 (l : Bytes) (h : l.length = 16) :
    ∃ a0 a1 a2 a3 a4 a5 a6 a7 a8 a9 a10 a11 a12 a13 a14 a15,
      l = [a0, a1, a2, a3, a4, a5, a6, a7, a8, a9, a10, a11, a12, a13, a14, a15] := by
  match l, h with
  | [a0, a1, a2, a3, a4, a5, a6, a7, a8, a9, a10, a11, a12, a13, a14, a15], _ =>
    exact ⟨a0, a1, a2, a3, a4, a5, a6, a7, a8, a9, a10, a11, a12, a13, a14, a15, rfl⟩

theorem port_bytes (port : Nat) (h : port < 65536) : (u8 (port / 256)).toNat * 256 + (u8 port).toNat = port := by
  rw [u8_toNat, u8_toNat]; omega

/-- the first 6 bytes: IPv4 address and port -/
theorem pa_v4 (a : Option (Bytes × Nat)) (ht : TypedAddr 4 a) (r : Bytes) :
    (addrBytes 4 a ++ r).drop 6 = r ∧
    (if ((addrBytes 4 a ++ r).getD 4 0).toNat * 256 + ((addrBytes 4 a ++ r).getD 5 0).toNat ≠ 0
        ∧ ((addrBytes 4 a ++ r).take 4).any (· ≠ 0)
     then some ((addrBytes 4 a ++ r).take 4,
                ((addrBytes 4 a ++ r).getD 4 0).toNat * 256 + ((addrBytes 4 a ++ r).getD 5 0).toNat)
     else none) = normAddr a := by
  cases a with
  | none => simp [addrBytes, normAddr, List.replicate]
  | some x =>
    obtain ⟨ip, port⟩ := x
    obtain ⟨hl, hp⟩ := ht
    obtain ⟨a, b, c, d, rfl⟩ := len4 ip hl
    have := port_bytes port hp
    simp [addrBytes, normAddr, this]

/-- the next 18 bytes: IPv6 address and port -/
theorem pa_v6 (a : Option (Bytes × Nat)) (ht : TypedAddr 16 a) (r : Bytes) :
    (addrBytes 16 a ++ r).drop 18 = r ∧
    (if ((addrBytes 16 a ++ r).getD 16 0).toNat * 256 + ((addrBytes 16 a ++ r).getD 17 0).toNat ≠ 0
        ∧ ((addrBytes 16 a ++ r).take 16).any (· ≠ 0)
     then some ((addrBytes 16 a ++ r).take 16,
                ((addrBytes 16 a ++ r).getD 16 0).toNat * 256 + ((addrBytes 16 a ++ r).getD 17 0).toNat)
     else none) = normAddr a := by
  cases a with
  | none => simp [addrBytes, normAddr, List.replicate]
  | some x =>
    obtain ⟨ip, port⟩ := x
    obtain ⟨hl, hp⟩ := ht
    obtain ⟨a0, a1, a2, a3, a4, a5, a6, a7, a8, a9, a10, a11, a12, a13, a14, a15, rfl⟩ := len16 ip hl
    have := port_bytes port hp
    simp [addrBytes, normAddr, this]

theorem addrBytes_length (n : Nat) (a : Option (Bytes × Nat)) (ht : TypedAddr n a) : (addrBytes n a).length = n + 2 := by
  cases a with
  | none => simp [addrBytes]
  | some x => obtain ⟨ip, port⟩ := x; simp [addrBytes, ht.1]

/-- the value `Marshal` writes for preferred_address -/
def paBytes (pa : PreferredAddress) : Bytes :=
  addrBytes 4 pa.v4 ++ (addrBytes 16 pa.v6 ++ ([u8 pa.connID.length] ++ (pa.connID ++ pa.token)))

theorem paBytes_length (pa : PreferredAddress) (ht : TypedPA pa) : (paBytes pa).length = 4 + 2 + 16 + 2 + 1 + pa.connID.length + 16 := by
  obtain ⟨h4, h6, _, htok⟩ := ht
  simp [paBytes, addrBytes_length _ _ h4, addrBytes_length _ _ h6, htok]; omega

theorem readPA_ok (pa : PreferredAddress) (ht : TypedPA pa) (hpos : 0 < pa.connID.length) (rest : Bytes) :
    readPreferredAddress (paBytes pa ++ rest) (4 + 2 + 16 + 2 + 1 + pa.connID.length + 16) = .ok (normPA pa) := by
  have hlen := paBytes_length pa ht
  obtain ⟨h4, h6, hcid, htok⟩ := ht
  rw [maxConnIDLen_eq] at hcid
  unfold readPreferredAddress
  have hg : preferredAddressMinLen = 25 := by decide
  have hf : preferredAddressFixedReads = 25 := by decide
  rw [if_neg (by rw [hg, List.length_append, hlen]; omega), if_neg (by rw [hf, List.length_append, hlen]; omega)]
  have e : paBytes pa ++ rest = addrBytes 4 pa.v4 ++ (addrBytes 16 pa.v6 ++ ([u8 pa.connID.length] ++ (pa.connID ++ (pa.token ++ rest)))) := by
    simp [paBytes]
  rw [e]
  obtain ⟨d4, n4⟩ := pa_v4 pa.v4 h4 (addrBytes 16 pa.v6 ++ ([u8 pa.connID.length] ++ (pa.connID ++ (pa.token ++ rest))))
  obtain ⟨d6, n6⟩ := pa_v6 pa.v6 h6 ([u8 pa.connID.length] ++ (pa.connID ++ (pa.token ++ rest)))
  simp only [d4, n4, d6, n6]
  have hu : (u8 pa.connID.length).toNat = pa.connID.length := by rw [u8_toNat]; omega
  have htk : (pa.token ++ rest).take 16 = pa.token := by rw [← htok]; simp
  have hne : pa.connID ≠ [] := by intro hc; rw [hc] at hpos; simp at hpos
  have h20 : ¬ (20 < pa.connID.length) := by omega
  simp [hu, maxConnIDLen_eq, htok, htk, normPA, hne, h20]

theorem L_pa (sb : Nat) (pa : PreferredAddress) (rest : Bytes) (s : LoopSt) (hsb : sb ≠ perspectiveClient)
    (ht : TypedPA pa) (hpos : 0 < pa.connID.length) :
    L sb (enc idPreferredAddress ++ (enc (4 + 2 + 16 + 2 + 1 + pa.connID.length + 16) ++ (paBytes pa ++ rest))) s =
      L sb rest (upd s [idPreferredAddress] (fun q => { q with preferredAddress := some (normPA pa) }) false false) := by
  have hlen := paBytes_length pa ht
  have hcid := ht.2.2.1
  rw [maxConnIDLen_eq] at hcid
  have hfit : 4 + 2 + 16 + 2 + 1 + pa.connID.length + 16 ≤ maxVarInt8 := by rw [max8_eq]; omega
  apply L_step
  · simp [enc_ne_nil idPreferredAddress (by decide)]
  · unfold loopStep
    simp only [take_of_decodes (decodes_enc idPreferredAddress (by decide)), take_of_decodes (decodes_enc _ hfit)]
    have h1 : ¬ ((paBytes pa ++ rest).length < 4 + 2 + 16 + 2 + 1 + pa.connID.length + 16) := by
      rw [List.length_append, hlen]; omega
    have h3 : (paBytes pa ++ rest).drop (4 + 2 + 16 + 2 + 1 + pa.connID.length + 16) = rest := by rw [← hlen]; simp
    rw [if_neg h1]
    simp (config := {decide := true}) only [readPA_ok pa ht hpos rest, h3, hsb, upd, if_false, if_true, Bool.or_false]

/-! ### the thirteen numeric parameters -/

theorem rn_bidiLocal (v : Nat) (rest : Bytes) (hv : v ≤ maxVarInt8) (q : Params) :
    readNumeric q (enc v ++ rest) idBidiLocal (len v) = .ok { q with initialMaxStreamDataBidiLocal := v } := by
  obtain ⟨i0, i1, i2, i3, i4, i5, i6, i7, i8, i9, i10, i11, i12, i13, i14, i15, i16, i32, irsa, imad⟩ := tp_ids
  unfold readNumeric
  simp only [parse_enc v hv rest, i0, i1, i2, i3, i4, i5, i6, i7, i8, i9, i10, i11, i12, i13, i14, i15, i16, i32, irsa, imad]
  simp

theorem rn_bidiRemote (v : Nat) (rest : Bytes) (hv : v ≤ maxVarInt8) (q : Params) :
    readNumeric q (enc v ++ rest) idBidiRemote (len v) = .ok { q with initialMaxStreamDataBidiRemote := v } := by
  obtain ⟨i0, i1, i2, i3, i4, i5, i6, i7, i8, i9, i10, i11, i12, i13, i14, i15, i16, i32, irsa, imad⟩ := tp_ids
  unfold readNumeric
  simp only [parse_enc v hv rest, i0, i1, i2, i3, i4, i5, i6, i7, i8, i9, i10, i11, i12, i13, i14, i15, i16, i32, irsa, imad]
  simp

theorem rn_uni (v : Nat) (rest : Bytes) (hv : v ≤ maxVarInt8) (q : Params) :
    readNumeric q (enc v ++ rest) idUni (len v) = .ok { q with initialMaxStreamDataUni := v } := by
  obtain ⟨i0, i1, i2, i3, i4, i5, i6, i7, i8, i9, i10, i11, i12, i13, i14, i15, i16, i32, irsa, imad⟩ := tp_ids
  unfold readNumeric
  simp only [parse_enc v hv rest, i0, i1, i2, i3, i4, i5, i6, i7, i8, i9, i10, i11, i12, i13, i14, i15, i16, i32, irsa, imad]
  simp

theorem rn_maxData (v : Nat) (rest : Bytes) (hv : v ≤ maxVarInt8) (q : Params) :
    readNumeric q (enc v ++ rest) idInitialMaxData (len v) = .ok { q with initialMaxData := v } := by
  obtain ⟨i0, i1, i2, i3, i4, i5, i6, i7, i8, i9, i10, i11, i12, i13, i14, i15, i16, i32, irsa, imad⟩ := tp_ids
  unfold readNumeric
  simp only [parse_enc v hv rest, i0, i1, i2, i3, i4, i5, i6, i7, i8, i9, i10, i11, i12, i13, i14, i15, i16, i32, irsa, imad]
  simp

theorem rn_streamsBidi (v : Nat) (rest : Bytes) (hv : v ≤ maxVarInt8) (h : ¬ (v > TP.maxStreamCount)) (q : Params) :
    readNumeric q (enc v ++ rest) idStreamsBidi (len v) = .ok { q with maxBidiStreamNum := v } := by
  obtain ⟨i0, i1, i2, i3, i4, i5, i6, i7, i8, i9, i10, i11, i12, i13, i14, i15, i16, i32, irsa, imad⟩ := tp_ids
  unfold readNumeric
  simp only [parse_enc v hv rest, i0, i1, i2, i3, i4, i5, i6, i7, i8, i9, i10, i11, i12, i13, i14, i15, i16, i32, irsa, imad]
  simp [*]

theorem rn_streamsUni (v : Nat) (rest : Bytes) (hv : v ≤ maxVarInt8) (h : ¬ (v > TP.maxStreamCount)) (q : Params) :
    readNumeric q (enc v ++ rest) idStreamsUni (len v) = .ok { q with maxUniStreamNum := v } := by
  obtain ⟨i0, i1, i2, i3, i4, i5, i6, i7, i8, i9, i10, i11, i12, i13, i14, i15, i16, i32, irsa, imad⟩ := tp_ids
  unfold readNumeric
  simp only [parse_enc v hv rest, i0, i1, i2, i3, i4, i5, i6, i7, i8, i9, i10, i11, i12, i13, i14, i15, i16, i32, irsa, imad]
  simp [*]

theorem rn_udp (v : Nat) (rest : Bytes) (hv : v ≤ maxVarInt8) (h : ¬ (v < minMaxUDPPayloadSize)) (q : Params) :
    readNumeric q (enc v ++ rest) idMaxUDPPayloadSize (len v) = .ok { q with maxUDPPayloadSize := v } := by
  obtain ⟨i0, i1, i2, i3, i4, i5, i6, i7, i8, i9, i10, i11, i12, i13, i14, i15, i16, i32, irsa, imad⟩ := tp_ids
  unfold readNumeric
  simp only [parse_enc v hv rest, i0, i1, i2, i3, i4, i5, i6, i7, i8, i9, i10, i11, i12, i13, i14, i15, i16, i32, irsa, imad]
  simp [*]

theorem rn_ackDelay (v : Nat) (rest : Bytes) (hv : v ≤ maxVarInt8) (h : ¬ (v > maxMaxAckDelay / millisecond)) (q : Params) :
    readNumeric q (enc v ++ rest) idMaxAckDelay (len v) = .ok { q with maxAckDelay := v * millisecond } := by
  obtain ⟨i0, i1, i2, i3, i4, i5, i6, i7, i8, i9, i10, i11, i12, i13, i14, i15, i16, i32, irsa, imad⟩ := tp_ids
  unfold readNumeric
  simp only [parse_enc v hv rest, i0, i1, i2, i3, i4, i5, i6, i7, i8, i9, i10, i11, i12, i13, i14, i15, i16, i32, irsa, imad]
  simp [*]

theorem rn_exponent (v : Nat) (rest : Bytes) (hv : v ≤ maxVarInt8) (h : ¬ (v > maxAckDelayExponent)) (q : Params) :
    readNumeric q (enc v ++ rest) idAckDelayExponent (len v) = .ok { q with ackDelayExponent := v } := by
  obtain ⟨i0, i1, i2, i3, i4, i5, i6, i7, i8, i9, i10, i11, i12, i13, i14, i15, i16, i32, irsa, imad⟩ := tp_ids
  unfold readNumeric
  simp only [parse_enc v hv rest, i0, i1, i2, i3, i4, i5, i6, i7, i8, i9, i10, i11, i12, i13, i14, i15, i16, i32, irsa, imad]
  simp [*]

theorem rn_cidLimit (v : Nat) (rest : Bytes) (hv : v ≤ maxVarInt8) (h : ¬ (v < minActiveConnectionIDLimit)) (q : Params) :
    readNumeric q (enc v ++ rest) idActiveConnectionIDLimit (len v) = .ok { q with activeConnectionIDLimit := v } := by
  obtain ⟨i0, i1, i2, i3, i4, i5, i6, i7, i8, i9, i10, i11, i12, i13, i14, i15, i16, i32, irsa, imad⟩ := tp_ids
  unfold readNumeric
  simp only [parse_enc v hv rest, i0, i1, i2, i3, i4, i5, i6, i7, i8, i9, i10, i11, i12, i13, i14, i15, i16, i32, irsa, imad]
  simp [*]

theorem rn_datagram (v : Nat) (rest : Bytes) (hv : v ≤ maxVarInt8) (q : Params) :
    readNumeric q (enc v ++ rest) idMaxDatagramFrameSize (len v) = .ok { q with maxDatagramFrameSize := some v } := by
  obtain ⟨i0, i1, i2, i3, i4, i5, i6, i7, i8, i9, i10, i11, i12, i13, i14, i15, i16, i32, irsa, imad⟩ := tp_ids
  unfold readNumeric
  simp only [parse_enc v hv rest, i0, i1, i2, i3, i4, i5, i6, i7, i8, i9, i10, i11, i12, i13, i14, i15, i16, i32, irsa, imad]
  simp

theorem rn_idle (v : Nat) (rest : Bytes) (hv : v ≤ maxVarInt8) (h : v * millisecond < 2 ^ 63) (q : Params) :
    readNumeric q (enc v ++ rest) idMaxIdleTimeout (len v) = .ok { q with maxIdleTimeout := max minRemoteIdleTimeout (v * millisecond) } := by
  obtain ⟨i0, i1, i2, i3, i4, i5, i6, i7, i8, i9, i10, i11, i12, i13, i14, i15, i16, i32, irsa, imad⟩ := tp_ids
  unfold readNumeric
  simp only [parse_enc v hv rest, i0, i1, i2, i3, i4, i5, i6, i7, i8, i9, i10, i11, i12, i13, i14, i15, i16, i32, irsa, imad]
  have hw : wrapMul v millisecond = v * millisecond := by unfold wrapMul; exact Nat.mod_eq_of_lt (by omega)
  have hnn : ¬ (v * millisecond ≥ 2 ^ 63) := by omega
  rw [hw]
  simp [*]

theorem rn_minAck (v : Nat) (rest : Bytes) (hv : v ≤ maxVarInt8) (h : v * microsecond < 2 ^ 63) (q : Params) :
    readNumeric q (enc v ++ rest) idMinAckDelay (len v) = .ok { q with minAckDelay := some (v * microsecond) } := by
  obtain ⟨i0, i1, i2, i3, i4, i5, i6, i7, i8, i9, i10, i11, i12, i13, i14, i15, i16, i32, irsa, imad⟩ := tp_ids
  unfold readNumeric
  simp only [parse_enc v hv rest, i0, i1, i2, i3, i4, i5, i6, i7, i8, i9, i10, i11, i12, i13, i14, i15, i16, i32, irsa, imad]
  have hw : wrapMul v microsecond = v * microsecond := by unfold wrapMul; exact Nat.mod_eq_of_lt (by omega)
  have hnn : ¬ (v * microsecond ≥ 2 ^ 63) := by omega
  rw [hw]
  simp [*]

end Uquic.Proofs.WireMore
