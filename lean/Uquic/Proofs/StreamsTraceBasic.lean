/-
Trace-level lift of the sub-map theorems to the whole `streamsMap` (C15), part 1: what an observer of the whole map
sees of each kind of event, projected to one (stream type, direction); the events of a sub-map step are "typed"
(ids of its own residue class, frames of its own type and kind), so they show up in exactly one projection.
-/
import Uquic.Proofs.StreamsMapLift

set_option linter.unusedSimpArgs false
set_option linter.unusedVariables false

namespace Uquic.Proofs.Streams
open Uquic.Model.Streams

/-! ### observables of the whole map -/

/-- run a list of map operations, collecting the events -/
def runMapEv (m : Map) : List MapOp → Map × List MapEv
  | [] => (m, [])
  | o :: os => (((runMapEv (m.step o).1 os).1), (m.step o).2 :: (runMapEv (m.step o).1 os).2)

theorem runMapEv_state (ops : List MapOp) : ∀ m : Map, (runMapEv m ops).1 = ops.foldl (fun m o => (m.step o).1) m := by
  induction ops with
  | nil => intro m; rfl
  | cons o os ih => intro m; simp only [runMapEv, List.foldl_cons]; exact ih _

/-- every stream id a map step hands to a caller (`OpenStream`, `OpenStreamSync`, `AcceptStream` and their Uni forms) -/
def evIds (ev : MapEv) : List Int := idsOfOptRet ev.opened ++ streamsOfRets ev.rets

/-- ids of locally initiated streams of type `t` handed out by a step (`Open…`) -/
def evOpened (t : STyp) (pers : Persp) (ev : MapEv) : List Int :=
  (evIds ev).filter fun id => decide (typeOf id = t) && decide (initiatedBy id = pers)

/-- ids of peer-initiated streams of type `t` handed out by a step (`Accept…`) -/
def evAccepted (t : STyp) (pers : Persp) (ev : MapEv) : List Int :=
  (evIds ev).filter fun id => decide (typeOf id = t) && !decide (initiatedBy id = pers)

def sbOfT (t : STyp) (fs : List Frame) : List Int :=
  fs.filterMap fun f => match f with | .streamsBlocked t' l => if t' = t then some l else none | _ => none

def msOfT (t : STyp) (fs : List Frame) : List Int :=
  fs.filterMap fun f => match f with | .maxStreams t' n => if t' = t then some n else none | _ => none

/-- limits carried by the STREAMS_BLOCKED frames of type `t` queued by a step -/
def evBlocked (t : STyp) (ev : MapEv) : List Int := sbOfT t ev.frames
/-- values carried by the MAX_STREAMS frames of type `t` queued by a step -/
def evCredit (t : STyp) (ev : MapEv) : List Int := msOfT t ev.frames

def mapOpened (t : STyp) (pers : Persp) (evs : List MapEv) : List Int := evs.flatMap (evOpened t pers)
def mapAccepted (t : STyp) (pers : Persp) (evs : List MapEv) : List Int := evs.flatMap (evAccepted t pers)
def mapBlocked (t : STyp) (evs : List MapEv) : List Int := evs.flatMap (evBlocked t)
def mapCredit (t : STyp) (evs : List MapEv) : List Int := evs.flatMap (evCredit t)

theorem sbOfT_append (t : STyp) (a b : List Frame) : sbOfT t (a ++ b) = sbOfT t a ++ sbOfT t b := by
  simp [sbOfT, List.filterMap_append]
theorem msOfT_append (t : STyp) (a b : List Frame) : msOfT t (a ++ b) = msOfT t a ++ msOfT t b := by
  simp [msOfT, List.filterMap_append]

/-! ### runs of the sub-maps: append -/

theorem orun_append (a b : List OutOp) : ∀ m : Outgoing,
    m.run (a ++ b) = (((m.run a).1.run b).1, (m.run a).2 ++ ((m.run a).1.run b).2) := by
  induction a with
  | nil => intro m; rfl
  | cons x xs ih => intro m; simp only [List.cons_append, orun_cons, ih, List.cons_append]

theorem irun_append (a b : List InOp) : ∀ m : Incoming,
    m.run (a ++ b) = (((m.run a).1.run b).1, (m.run a).2 ++ ((m.run a).1.run b).2) := by
  induction a with
  | nil => intro m; rfl
  | cons x xs ih => intro m; simp only [List.cons_append, run_cons, ih, List.cons_append]

theorem openedIds_append (a b : List OutEv) : openedIds (a ++ b) = openedIds a ++ openedIds b := by
  simp [openedIds, List.flatMap_append]
theorem sbVals_append (a b : List OutEv) : sbVals (a ++ b) = sbVals a ++ sbVals b := by
  simp [sbVals, List.flatMap_append]
theorem acceptedIds_append (a b : List InEv) : acceptedIds (a ++ b) = acceptedIds a ++ acceptedIds b := by
  simp [acceptedIds, List.flatMap_append]
theorem msVals_append (a b : List InEv) : msVals (a ++ b) = msVals a ++ msVals b := by
  simp [msVals, List.flatMap_append]

theorem irun_typ (first : Int) (hf0 : 0 ≤ first) (hf3 : first ≤ 3) (ops : List InOp) :
    ∀ m : Incoming, InInv first m → (∀ op ∈ ops, op.wf first) → (m.run ops).1.typ = m.typ := by
  induction ops with
  | nil => intro m h _; rfl
  | cons o os ih =>
    intro m h hw
    rw [run_cons]
    have sf := step_facts first hf0 hf3 m o h (hw o (by simp))
    rw [ih _ sf.inv (fun op hop => hw op (by simp [hop]))]; exact sf.typ

/-! ### the events of a sub-map step are typed -/

theorem maybeSendBlocked_frames (m : Outgoing) : ∀ f ∈ m.maybeSendBlocked.2, ∃ l, f = .streamsBlocked m.typ l := by
  intro f hf
  unfold Outgoing.maybeSendBlocked at hf
  split at hf
  · simp at hf
  · simp only [List.mem_singleton] at hf; exact ⟨_, hf⟩

/-- every frame an outgoing map queues is a STREAMS_BLOCKED of its own type -/
theorem out_step_frames (m : Outgoing) (op : OutOp) : ∀ f ∈ (m.step op).2.frames, ∃ l, f = .streamsBlocked m.typ l := by
  intro f hf
  cases op with
  | openStream =>
    simp only [Outgoing.step, Outgoing.openStream] at hf
    split at hf
    · simp at hf
    · split at hf
      · exact maybeSendBlocked_frames m f hf
      · simp at hf
  | syncCall w c =>
    simp only [Outgoing.step, Outgoing.syncCall] at hf
    split at hf
    · simp at hf
    · split at hf
      · simp at hf
      · split at hf
        · simp at hf
        · split at hf
          · simp at hf
          · have := maybeSendBlocked_frames
              { m with openQueue := m.openQueue ++ [w], procs := m.procs ++ [({ wid := w } : Proc)] } f hf
            exact this
  | setMax n =>
    simp only [Outgoing.step, Outgoing.setMaxStream] at hf
    split at hf
    · simp at hf
    · simp only at hf
      split at hf
      · exact maybeSendBlocked_frames { m with maxStream := numToID n m.typ m.pers, blockedSent := false } f hf
      · simp at hf
  | recv w => simp [Outgoing.step] at hf
  | ctxDone w => simp [Outgoing.step] at hf
  | wakeLocked w => simp [Outgoing.step] at hf
  | cancelLocked w => simp [Outgoing.step] at hf
  | cancelCtx w => simp [Outgoing.step] at hf
  | getStream id => simp [Outgoing.step] at hf
  | delete id => simp [Outgoing.step] at hf
  | close e => simp [Outgoing.step] at hf

theorem deleteInner_frames (m : Incoming) (id : SID) : ∀ f ∈ (m.deleteInner id).2.2, ∃ n, f = .maxStreams m.typ n := by
  intro f hf
  unfold Incoming.deleteInner at hf
  split at hf
  · simp at hf
  · split at hf
    · split at hf <;> simp at hf
    · simp only at hf
      split at hf
      · split at hf
        · simp only [List.mem_singleton] at hf; exact ⟨_, hf⟩
        · simp at hf
      · simp at hf

theorem deleteStream_frames (m : Incoming) (id : SID) : ∀ f ∈ (m.deleteStream id).2.2, ∃ n, f = .maxStreams m.typ n := by
  intro f hf
  have h := deleteInner_frames m id
  rcases hr : m.deleteInner id with ⟨m', e, fs⟩
  rw [hr] at h
  simp only [Incoming.deleteStream, hr] at hf
  cases e with
  | none => exact h f hf
  | some e => cases e <;> exact h f hf

theorem accLocked_frames (m : Incoming) (a : Nat) : ∀ f ∈ (m.accLocked a).2.2, ∃ n, f = .maxStreams m.typ n := by
  intro f hf
  unfold Incoming.accLocked at hf
  split at hf
  · simp at hf
  · split at hf
    · simp at hf
    · split at hf
      · simp at hf
      · simp only at hf
        split at hf
        · simp at hf
        · split at hf
          · have h := deleteInner_frames { m with nextAccept := m.nextAccept + 4 } m.nextAccept
            split at hf
            · next m' e fs heq => rw [heq] at h; exact h f hf
            · next m' fs heq => rw [heq] at h; exact h f hf
          · simp at hf

/-- every frame an incoming map queues is a MAX_STREAMS of its own type -/
theorem in_step_frames (m : Incoming) (op : InOp) : ∀ f ∈ (m.step op).2.frames, ∃ n, f = .maxStreams m.typ n := by
  intro f hf
  cases op with
  | getOrOpen id =>
    simp only [Incoming.step] at hf
    split at hf <;> simp at hf
  | delete id =>
    simp only [Incoming.step] at hf
    split at hf
    · simp at hf
    · exact deleteStream_frames m id f hf
  | accLocked a =>
    simp only [Incoming.step] at hf
    split at hf
    · simp at hf
    · exact accLocked_frames m a f hf
  | accCall a => simp [Incoming.step] at hf
  | accRecv a => simp [Incoming.step] at hf
  | accCtx a => simp [Incoming.step] at hf
  | cancelCtx a => simp [Incoming.step] at hf
  | close e =>
    simp only [Incoming.step] at hf
    split at hf <;> simp at hf

/-- the ids a reachable outgoing map hands out are of its own type and initiator -/
theorem out_step_ids (m : Outgoing) (op : OutOp) (k : Nat) (hf : FifoInv m) (hi : IdInv m k) (hw : op.wf) :
    ∀ id ∈ openedOf (m.step op).2, typeOf id = m.typ ∧ initiatedBy id = m.pers := by
  intro id hid
  have sf := out_step_facts m op k hf hi hw
  rcases sf.ids with ⟨h, _⟩ | ⟨h, _, _⟩
  · rw [h] at hid; simp at hid
  · rw [h] at hid
    simp only [List.mem_singleton] at hid
    subst hid
    have h0 : 0 ≤ m.nextStream := by
      have := (firstOutgoing_range m.typ m.pers).1
      rw [hi.hnext]; omega
    exact (id_class m.typ m.pers m.nextStream h0).mpr ⟨k, hi.hnext⟩

/-- the ids a reachable incoming map hands out are of its own type and initiated by the peer -/
theorem in_step_ids (t : STyp) (pers : Persp) (m : Incoming) (op : InOp) (h : InInv (firstIncoming t pers) m)
    (hd : m.dead = false) (hw : op.wf (firstIncoming t pers)) :
    ∀ id ∈ streamsOfRets (m.step op).2.rets, typeOf id = t ∧ initiatedBy id = pers.opposite := by
  intro id hid
  have hfr := firstIncoming_range t pers
  have sf := step_facts _ hfr.1 hfr.2 m op h hw
  simp only [streamsOfRets, List.mem_filterMap] at hid
  obtain ⟨⟨c, r⟩, hm, hr⟩ := hid
  cases r with
  | stream id' =>
    simp only [Option.some.injEq] at hr
    subst hr
    have := (sf.ret c id' hm).1
    rcases h with h | ⟨o, a, hc⟩
    · rw [hd] at h; cases h
    · have h0 : 0 ≤ id' := by rw [this, hc.hacc]; omega
      apply (id_class t pers.opposite id' h0).mpr
      refine ⟨a, ?_⟩
      rw [this, hc.hacc, firstIncoming_eq]
  | err e => simp at hr
  | panic => simp at hr

/-! ### where typed events show up -/

theorem opposite_ne (p : Persp) : p.opposite ≠ p := by cases p <;> simp [Persp.opposite]

/-- ids of the class (t0, pers) (an outgoing map's) appear in `evOpened t0` only -/
theorem filter_out_class (t0 t : STyp) (pers : Persp) (ids : List Int)
    (h : ∀ id ∈ ids, typeOf id = t0 ∧ initiatedBy id = pers) :
    (ids.filter fun id => decide (typeOf id = t) && decide (initiatedBy id = pers)) = (if t = t0 then ids else []) ∧
    (ids.filter fun id => decide (typeOf id = t) && !decide (initiatedBy id = pers)) = [] := by
  refine ⟨?_, ?_⟩
  · by_cases ht : t = t0
    · subst ht
      simp only [if_true]
      apply List.filter_eq_self.mpr
      intro id hid
      simp [(h id hid).1, (h id hid).2]
    · simp only [ht, if_false]
      apply List.filter_eq_nil_iff.mpr
      intro id hid
      have : typeOf id ≠ t := by rw [(h id hid).1]; exact fun e => ht e.symm
      simp [this]
  · apply List.filter_eq_nil_iff.mpr
    intro id hid
    simp [(h id hid).2]

/-- ids of the class (t0, peer) (an incoming map's) appear in `evAccepted t0` only -/
theorem filter_in_class (t0 t : STyp) (pers : Persp) (ids : List Int)
    (h : ∀ id ∈ ids, typeOf id = t0 ∧ initiatedBy id = pers.opposite) :
    (ids.filter fun id => decide (typeOf id = t) && !decide (initiatedBy id = pers)) = (if t = t0 then ids else []) ∧
    (ids.filter fun id => decide (typeOf id = t) && decide (initiatedBy id = pers)) = [] := by
  refine ⟨?_, ?_⟩
  · by_cases ht : t = t0
    · subst ht
      simp only [if_true]
      apply List.filter_eq_self.mpr
      intro id hid
      have : initiatedBy id ≠ pers := by rw [(h id hid).2]; exact opposite_ne pers
      simp [(h id hid).1, this]
    · simp only [ht, if_false]
      apply List.filter_eq_nil_iff.mpr
      intro id hid
      have : typeOf id ≠ t := by rw [(h id hid).1]; exact fun e => ht e.symm
      simp [this]
  · apply List.filter_eq_nil_iff.mpr
    intro id hid
    have : initiatedBy id ≠ pers := by rw [(h id hid).2]; exact opposite_ne pers
    simp [this]

theorem sb_frames_proj (t0 t : STyp) (fs : List Frame) (h : ∀ f ∈ fs, ∃ l, f = .streamsBlocked t0 l) :
    sbOfT t fs = (if t = t0 then sbOfFrames fs else []) ∧ msOfT t fs = [] := by
  induction fs with
  | nil => simp [sbOfT, msOfT, sbOfFrames]
  | cons f fs ih =>
    obtain ⟨l, rfl⟩ := h f (by simp)
    have ih' := ih (fun g hg => h g (by simp [hg]))
    simp only [sbOfT, msOfT, sbOfFrames, List.filterMap_cons] at ih' ⊢
    by_cases ht : t = t0
    · subst ht
      simp only [if_true] at ih' ⊢
      rw [ih'.1, ih'.2]; exact ⟨rfl, rfl⟩
    · have ht' : ¬ t0 = t := fun e => ht e.symm
      simp only [ht, ht', if_false] at ih' ⊢
      rw [ih'.1, ih'.2]; exact ⟨rfl, rfl⟩

theorem ms_frames_proj (t0 t : STyp) (fs : List Frame) (h : ∀ f ∈ fs, ∃ n, f = .maxStreams t0 n) :
    msOfT t fs = (if t = t0 then msOfFrames fs else []) ∧ sbOfT t fs = [] := by
  induction fs with
  | nil => simp [sbOfT, msOfT, msOfFrames]
  | cons f fs ih =>
    obtain ⟨l, rfl⟩ := h f (by simp)
    have ih' := ih (fun g hg => h g (by simp [hg]))
    simp only [sbOfT, msOfT, msOfFrames, List.filterMap_cons] at ih' ⊢
    by_cases ht : t = t0
    · subst ht
      simp only [if_true] at ih' ⊢
      rw [ih'.1, ih'.2]; exact ⟨rfl, rfl⟩
    · have ht' : ¬ t0 = t := fun e => ht e.symm
      simp only [ht, ht', if_false] at ih' ⊢
      rw [ih'.1, ih'.2]; exact ⟨rfl, rfl⟩

end Uquic.Proofs.Streams
