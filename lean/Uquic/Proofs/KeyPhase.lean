/-
Helper lemmas for C05: the key-update state machine (model: Uquic/Model/Crypto/KeyPhase.lean).
-/
import Uquic.Spec.KeyPhaseRun

namespace Uquic.Proofs.KeyPhase
open Uquic.Model.KeyPhase Uquic.Spec.KeyPhaseRun

theorem invalidPN_eq : invalidPN = -1 := rfl

/-! ### single-step facts -/

theorem rollKeys_phase (a : KA) : a.rollKeys.keyPhase = a.keyPhase + 1 := rfl

theorem keyPhaseBit_phase (a : KA) (e : Env) :
    (a.keyPhaseBit e).1.keyPhase = if a.shouldInitiateKeyUpdate e then a.keyPhase + 1 else a.keyPhase := by
  unfold KA.keyPhaseBit; split <;> simp_all [KA.rollKeys]

theorem shouldInitiate_allowed (a : KA) (e : Env) (h : a.shouldInitiateKeyUpdate e = true) : a.updateAllowed = true := by
  unfold KA.shouldInitiateKeyUpdate at h
  simp only [Bool.and_eq_true] at h
  exact h.1

theorem updateAllowed_iff (a : KA) : a.updateAllowed = true ↔
    a.handshakeConfirmed = true ∧ (a.keyPhase = 0 ∨
      (a.firstSentWithCurrentKey ≠ invalidPN ∧ a.largestAcked ≠ invalidPN ∧ a.largestAcked ≥ a.firstSentWithCurrentKey)) := by
  unfold KA.updateAllowed
  simp only [Bool.and_eq_true, Bool.or_eq_true, decide_eq_true_eq, and_assoc]

theorem dropExpired_fields (a : KA) (t : Int) :
    (a.dropExpired t).keyPhase = a.keyPhase ∧ (a.dropExpired t).firstSentWithCurrentKey = a.firstSentWithCurrentKey ∧
    (a.dropExpired t).firstRcvdWithCurrentKey = a.firstRcvdWithCurrentKey ∧
    (a.dropExpired t).numRcvdWithCurrentKey = a.numRcvdWithCurrentKey ∧
    (a.dropExpired t).largestAcked = a.largestAcked ∧ (a.dropExpired t).handshakeConfirmed = a.handshakeConfirmed ∧
    (a.dropExpired t).invalidPacketCount = a.invalidPacketCount ∧
    (a.dropExpired t).numSentWithCurrentKey = a.numSentWithCurrentKey := by
  unfold KA.dropExpired; split <;> simp


/-! ### `Open` -/

/-- soundness of the decision of `open`: success means the packet is authentic and was opened with the key of
    exactly the generation it was sealed with, chosen by the key-phase bit and the reordering rule -/
theorem openDecide_ok (b : KA) (pn kp : Int) (p : Pkt) (u : Used) (h : b.openDecide pn kp p = (.ok, u)) :
    p.authentic = true ∧
    ((u = .cur ∧ p.gen = b.keyPhase ∧ kp = bit b.keyPhase) ∨
     (u = .prev ∧ p.gen = b.keyPhase - 1 ∧ kp ≠ bit b.keyPhase ∧ b.isOld pn = true ∧ b.prevPresent = true) ∨
     (u = .next ∧ p.gen = b.keyPhase + 1 ∧ kp ≠ bit b.keyPhase ∧ b.isOld pn = false ∧ b.remoteUpdateTooQuick = false)) := by
  unfold KA.openDecide aeadOpens at h
  repeat' split at h
  all_goals simp_all

/-- completeness: an authentic packet of the CURRENT generation with the current key-phase bit always opens -/
theorem openDecide_cur (b : KA) (pn kp : Int) (p : Pkt) (ha : p.authentic = true) (hg : p.gen = b.keyPhase)
    (hk : kp = bit b.keyPhase) : b.openDecide pn kp p = (.ok, .cur) := by
  unfold KA.openDecide aeadOpens; simp [ha, hg, hk]

/-- an authentic packet of the NEXT generation (other bit) that is not older than the first packet received
    with the current key opens and — unless the update is too quick — is accepted as a remote key update -/
theorem openDecide_next (b : KA) (pn kp : Int) (p : Pkt) (ha : p.authentic = true) (hg : p.gen = b.keyPhase + 1)
    (hk : kp ≠ bit b.keyPhase) (hold : b.isOld pn = false) :
    b.openDecide pn kp p = if b.remoteUpdateTooQuick then (.keyUpdateError, .next) else (.ok, .next) := by
  unfold KA.openDecide aeadOpens; simp [ha, hg, hk, hold]

/-- an authentic packet of the PREVIOUS generation (other bit) inside the reordering window opens as long as
    the previous key is still held -/
theorem openDecide_prev (b : KA) (pn kp : Int) (p : Pkt) (ha : p.authentic = true) (hg : p.gen = b.keyPhase - 1)
    (hk : kp ≠ bit b.keyPhase) (hold : b.isOld pn = true) :
    b.openDecide pn kp p = if b.prevPresent then (.ok, .prev) else (.keysDropped, .none) := by
  unfold KA.openDecide aeadOpens; simp [ha, hg, hk, hold]; split <;> simp_all

/-- nothing that is not authentic, and nothing of any other generation, ever opens -/
theorem openDecide_reject (b : KA) (pn kp : Int) (p : Pkt)
    (h : p.authentic = false ∨ (p.gen ≠ b.keyPhase ∧ p.gen ≠ b.keyPhase - 1 ∧ p.gen ≠ b.keyPhase + 1)) :
    (b.openDecide pn kp p).1 ≠ .ok := by
  intro hc
  have := openDecide_ok b pn kp p (b.openDecide pn kp p).2 (by rw [← hc])
  rcases h with h | ⟨h1, h2, h3⟩
  · simp [h] at this
  · rcases this.2 with ⟨_, hh, _⟩ | ⟨_, hh, _⟩ | ⟨_, hh, _⟩ <;> contradiction

/-- KEY_UPDATE_ERROR from `open` has exactly one cause: an authentic next-generation packet arriving before
    anything was sent in the current (non-zero) phase -/
theorem openDecide_keyUpdateError (b : KA) (pn kp : Int) (p : Pkt) (u : Used)
    (h : b.openDecide pn kp p = (.keyUpdateError, u)) :
    p.authentic = true ∧ p.gen = b.keyPhase + 1 ∧ b.keyPhase > 0 ∧ b.firstSentWithCurrentKey = invalidPN := by
  unfold KA.openDecide aeadOpens at h
  repeat' split at h
  all_goals simp_all [KA.remoteUpdateTooQuick]

/-- the key phase after `openApply`: it moves (by exactly one) iff the outcome is "ok with the next key" -/
theorem openApply_phase (b : KA) (e : Env) (t pn : Int) (d : Res × Used) :
    (b.openApply e t pn d).keyPhase = if d = (.ok, .next) then b.keyPhase + 1 else b.keyPhase := by
  obtain ⟨r, u⟩ := d
  cases r <;> cases u <;> simp [KA.openApply, KA.rollKeys, KA.startKeyDropTimer] <;> (repeat' split) <;> simp

theorem openU_fst (a : KA) (e : Env) (t pn kp : Int) (p : Pkt) :
    (a.openU e t pn kp p).2.2 = ((a.dropExpired t).openDecide pn kp p).2 ∧
    ((a.openU e t pn kp p).2.1 = .ok ↔ ((a.dropExpired t).openDecide pn kp p).1 = .ok) ∧
    (a.openU e t pn kp p).1.keyPhase = ((a.dropExpired t).openApply e t pn ((a.dropExpired t).openDecide pn kp p)).keyPhase := by
  unfold KA.openU KA.openInner
  simp only
  generalize (a.dropExpired t).openDecide pn kp p = d
  obtain ⟨r, u⟩ := d
  cases r <;> simp <;> split <;> simp

/-! ### dropping the previous key -/

/-- the previous receive key is dropped by `open` exactly when its timer is armed and has expired -/
theorem dropExpired_prev (a : KA) (t : Int) :
    (a.dropExpired t).prevPresent = (a.prevPresent && !(decide (a.prevRcvAEADExpiry ≠ 0) && decide (t > a.prevRcvAEADExpiry))) := by
  unfold KA.dropExpired
  split <;> rename_i h
  · simp [h.1, h.2.1, h.2.2]
  · cases hp : a.prevPresent
    · simp
    · simp only [hp, true_and, not_and, Int.not_lt] at h
      by_cases h0 : a.prevRcvAEADExpiry = 0
      · simp [h0]
      · have := h h0; simp [h0]; omega

/-! ### what `openApply` does to each field the invariants mention -/

theorem openApply_fields (b : KA) (e : Env) (t pn : Int) (d : Res × Used) :
    (b.openApply e t pn d).firstSentWithCurrentKey = (if d = (.ok, .next) then invalidPN else b.firstSentWithCurrentKey) ∧
    (b.openApply e t pn d).largestAcked = b.largestAcked ∧
    (b.openApply e t pn d).numRcvdWithCurrentKey =
      (if d = (.ok, .next) then 0 else if d = (.ok, .cur) then b.numRcvdWithCurrentKey + 1 else b.numRcvdWithCurrentKey) ∧
    (b.openApply e t pn d).prevPresent = (if d = (.ok, .next) then true else b.prevPresent) ∧
    (b.openApply e t pn d).invalidPacketCount = b.invalidPacketCount ∧
    (b.openApply e t pn d).handshakeConfirmed = b.handshakeConfirmed := by
  obtain ⟨r, u⟩ := d
  cases r <;> cases u <;> simp [KA.openApply, KA.rollKeys, KA.startKeyDropTimer] <;> (repeat' split) <;> simp

/-- `Open` = `openApply` plus the bookkeeping of the wrapper (failure counter, highest received number) -/
theorem openU_state (a : KA) (e : Env) (t pn kp : Int) (p : Pkt) :
    let b := a.dropExpired t
    let x := b.openApply e t pn (b.openDecide pn kp p)
    let y := (a.openU e t pn kp p).1
    y.keyPhase = x.keyPhase ∧ y.firstSentWithCurrentKey = x.firstSentWithCurrentKey ∧
    y.largestAcked = x.largestAcked ∧ y.numRcvdWithCurrentKey = x.numRcvdWithCurrentKey ∧
    y.prevPresent = x.prevPresent ∧ y.handshakeConfirmed = x.handshakeConfirmed ∧
    y.firstRcvdWithCurrentKey = x.firstRcvdWithCurrentKey ∧ y.prevRcvAEADExpiry = x.prevRcvAEADExpiry ∧
    y.numSentWithCurrentKey = x.numSentWithCurrentKey ∧
    y.invalidPacketCount = (if (b.openDecide pn kp p).1 = .decryptionFailed then x.invalidPacketCount + 1 else x.invalidPacketCount) := by
  unfold KA.openU KA.openInner
  simp only
  generalize (a.dropExpired t).openDecide pn kp p = d
  obtain ⟨r, u⟩ := d
  cases r <;> simp <;> split <;> simp

/-! ### AEAD limit -/

theorem openDecide_ne_limit (b : KA) (pn kp : Int) (p : Pkt) : (b.openDecide pn kp p).1 ≠ .aeadLimitReached := by
  unfold KA.openDecide
  repeat' split
  all_goals simp

/-- a decryption failure is reported as such only while the count stays below the limit; at the limit the
    connection is told AEAD_LIMIT_REACHED; the counter never decreases -/
theorem openU_limit (a : KA) (e : Env) (t pn kp : Int) (p : Pkt) :
    ((a.openU e t pn kp p).2.1 = .decryptionFailed → (a.openU e t pn kp p).1.invalidPacketCount < e.invalidPacketLimit) ∧
    ((a.openU e t pn kp p).2.1 = .aeadLimitReached → (a.openU e t pn kp p).1.invalidPacketCount ≥ e.invalidPacketLimit) ∧
    a.invalidPacketCount ≤ (a.openU e t pn kp p).1.invalidPacketCount := by
  have hd := (dropExpired_fields a t).2.2.2.2.2.2.1
  have hap := fun d => (openApply_fields (a.dropExpired t) e t pn d).2.2.2.2.1
  have hne := openDecide_ne_limit (a.dropExpired t) pn kp p
  unfold KA.openU KA.openInner
  simp only
  generalize (a.dropExpired t).openDecide pn kp p = d at *
  obtain ⟨r, u⟩ := d
  cases r <;> simp only [hap, hd]
  case decryptionFailed => split <;> simp <;> omega
  case aeadLimitReached => simp at hne
  all_goals simp

/-! ### reachable states -/

/-- invariant of runs under the caller contract -/
structure Inv (s : RS) : Prop where
  fsRange : s.a.firstSentWithCurrentKey ≠ -1 → s.a.firstSentWithCurrentKey ≤ s.lastSealed
  laRange : s.a.largestAcked ≤ s.lastSealed
  nrNonneg : 0 ≤ s.a.numRcvdWithCurrentKey
  /-- an accepted ACK for a packet of the current phase implies that the peer has answered in this phase -/
  ackConfirmed : s.a.firstSentWithCurrentKey ≠ -1 → s.a.largestAcked ≥ s.a.firstSentWithCurrentKey →
    s.a.numRcvdWithCurrentKey > 0
  phaseNonneg : 0 ≤ s.a.keyPhase
  prevPhase : s.a.prevPresent = true → s.a.keyPhase > 0

theorem inv_init : Inv {} := by
  constructor <;> decide

theorem keyPhaseBit_inv (s : RS) (e : Env) (h : Inv s) : Inv { s with a := (s.a.keyPhaseBit e).1 } := by
  unfold KA.keyPhaseBit
  split
  · obtain ⟨h1, h2, h3, h4, h5, h6⟩ := h
    constructor <;> simp only [KA.rollKeys, invalidPN_eq] <;> first | omega | simp
  · exact h

theorem seal_inv (a : KA) (last pn : Int) (hpn : last < pn) (h : Inv { a := a, lastSealed := last }) :
    Inv { a := (a.seal pn).1, lastSealed := pn } := by
  obtain ⟨h1, h2, h3, h4, h5, h6⟩ := h
  simp only at h1 h2 h3 h4 h5 h6
  unfold KA.seal
  rw [invalidPN_eq]
  by_cases c1 : a.firstSentWithCurrentKey = -1 <;> by_cases c2 : a.firstPacketNumber = -1 <;>
    simp only [c1, c2, if_true, if_false] <;> constructor <;> simp only <;> first | omega | assumption | (intros; omega)

theorem ack_inv (s : RS) (pn : Int) (hpn : pn ≤ s.lastSealed) (h : Inv s) :
    Inv { s with a := (s.a.setLargestAcked pn).1 } := by
  obtain ⟨h1, h2, h3, h4, h5, h6⟩ := h
  unfold KA.setLargestAcked
  rw [invalidPN_eq]
  split
  · exact ⟨h1, h2, h3, h4, h5, h6⟩
  · rename_i hc
    constructor <;> simp only <;> try assumption
    intro hf hge
    have : ¬ s.a.numRcvdWithCurrentKey = 0 := fun h0 => hc ⟨hf, hge, h0⟩
    omega

theorem open_inv (s : RS) (e : Env) (t pn kp : Int) (p : Pkt) (h : Inv s) :
    Inv { s with a := (s.a.open e t pn kp p).1 } := by
  obtain ⟨h1, h2, h3, h4, h5, h6⟩ := h
  obtain ⟨e1, e2, _, e4, e5, _, _, _⟩ := dropExpired_fields s.a t
  have hdp := dropExpired_prev s.a t
  obtain ⟨y1, y2, y3, y4, y5, _⟩ := openU_state s.a e t pn kp p
  have hb6 : (s.a.dropExpired t).prevPresent = true → s.a.keyPhase > 0 := by
    intro hp; rw [hdp] at hp; simp at hp; exact h6 hp.1
  generalize (s.a.dropExpired t).openDecide pn kp p = d at *
  obtain ⟨f1, f2, f3, f4, _⟩ := openApply_fields (s.a.dropExpired t) e t pn d
  have f0 := openApply_phase (s.a.dropExpired t) e t pn d
  have hopen : (s.a.open e t pn kp p).1 = (s.a.openU e t pn kp p).1 := by simp [KA.open]
  rw [invalidPN_eq] at f1
  constructor <;> simp only [hopen, y1, y2, y3, y4, y5, f0, f1, f2, f3, f4, e1, e2, e4, e5]
  · split <;> simp_all
  · exact h2
  · (repeat' split) <;> omega
  · (repeat' split) <;> first | (intros; omega) | simp_all
  · split <;> omega
  · split
    · intro _; omega
    · exact hb6

theorem run_inv (e : Env) (ops : List Op) : ∀ (s : RS), Inv s → contract s.lastSealed ops → Inv (ops.foldl (RS.step e) s) := by
  induction ops with
  | nil => intro s h _; exact h
  | cons op rest ih =>
    intro s h hc
    simp only [List.foldl_cons]
    cases op with
    | «seal» pn =>
      simp only [contract] at hc
      apply ih _ _ (by simpa [RS.step] using hc.2)
      have h1 := keyPhaseBit_inv s e h
      exact seal_inv _ s.lastSealed pn hc.1 h1
    | kp =>
      simp only [contract] at hc
      exact ih _ (keyPhaseBit_inv s e h) (by simpa [RS.step] using hc)
    | «open» t pn kp p =>
      simp only [contract] at hc
      exact ih _ (open_inv s e t pn kp p h) (by simpa [RS.step] using hc)
    | ack pn =>
      simp only [contract] at hc
      exact ih _ (ack_inv s pn hc.1 h) (by simpa [RS.step] using hc.2)
    | confirm =>
      simp only [contract] at hc
      apply ih _ _ (by simpa [RS.step] using hc)
      obtain ⟨h1, h2, h3, h4, h5, h6⟩ := h
      exact ⟨h1, h2, h3, h4, h5, h6⟩
end Uquic.Proofs.KeyPhase
