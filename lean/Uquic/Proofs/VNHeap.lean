/-
Helper lemmas about the memory model of Version Negotiation composition (`Model.Wire.VNHeap`): what
`getGreased` leaves alone, what the returned slice reads, and the invariant of a serving sequence.
-/
import Uquic.Model.Wire.VNHeap
import Uquic.Proofs.TokenHeap

namespace Uquic.Proofs.VNHeap

open Uquic.Model.TokenHeap Uquic.Model.Wire Uquic.Model.Wire.VNHeap Uquic.Proofs.TokenHeap

theorem overwrite_spec (l bs : List Nat) (pos : Nat) (h : pos + bs.length ≤ l.length) :
    overwrite l pos bs = l.take pos ++ bs ++ l.drop (pos + bs.length) := by
  unfold overwrite
  have h1 : bs.take (l.length - pos) = bs := List.take_of_length_le (by omega)
  rw [h1, Nat.min_eq_left (by omega)]

/-- reading a window of a window -/
theorem bytesOf_sub (h : Heap) (s : Slice) (lo hi : Nat) (hhi : hi ≤ s.len) :
    bytesOf h (sub s lo hi) = ((bytesOf h s).drop lo).take (hi - lo) := by
  unfold bytesOf sub
  simp only []
  rw [List.drop_take, List.take_take, List.drop_drop, Nat.min_eq_left (by omega)]

theorem goCopy_length (h : Heap) (d s : Slice) : (goCopy h d s).1.length = h.length := by
  simp [goCopy, writeAt_length]

theorem getGreased_slice (h : Heap) (sup : Slice) (pos r : Nat) :
    (getGreased h sup pos r).2 = { arr := h.length, off := 0, len := sup.len + 1, cap := sup.len + 1 } := rfl

theorem getGreased_length (h : Heap) (sup : Slice) (pos r : Nat) :
    (getGreased h sup pos r).1.length = h.length + 1 := by
  simp [getGreased, goCopy, alloc, writeAt_length]

/-- `GetGreasedVersions` writes to the array it has just made and to no other — whatever the position,
    whatever capacity the caller's slice has -/
theorem getGreased_keeps (h : Heap) (sup : Slice) (pos r : Nat) (a : Nat) (ha : a < h.length) :
    readArr (getGreased h sup pos r).1 a = readArr h a := by
  have hne : a ≠ h.length := by omega
  unfold getGreased goCopy alloc sub
  simp only []
  rw [readArr_writeAt_ne _ _ _ _ _ hne, readArr_writeAt_ne _ _ _ _ _ hne, readArr_writeAt_ne _ _ _ _ _ hne,
      readArr_append_left _ _ _ ha]

/-- the returned list: the supported versions with the reserved one at `pos` -/
theorem getGreased_read (h : Heap) (sup : Slice) (pos r : Nat)
    (hin : sup.arr < h.length) (hlen : (bytesOf h sup).length = sup.len) (hpos : pos ≤ sup.len) :
    bytesOf (getGreased h sup pos r).1 (getGreased h sup pos r).2 = insertAt (bytesOf h sup) pos r := by
  rw [getGreased_slice]
  have hne : sup.arr ≠ h.length := by omega
  have hl1 : h.length < (h ++ [List.replicate (sup.len + 1) 0]).length := by simp
  -- the three intermediate heaps differ from `h` only in the new array
  have r1 : ∀ lo hi, bytesOf (h ++ [List.replicate (sup.len + 1) 0]) (sub sup lo hi) = bytesOf h (sub sup lo hi) :=
    fun lo hi => read_congr _ _ _ (readArr_append_left _ _ _ hin)
  unfold getGreased goCopy alloc
  simp only []
  have e1 : (sub sup 0 pos).len = pos := by simp [sub]
  have e2 : (sub sup pos sup.len).len = sup.len - pos := by simp [sub]
  have e3 : (sub { arr := h.length, off := 0, len := sup.len + 1, cap := sup.len + 1 } (pos + 1) (sup.len + 1) : Slice)
      = { arr := h.length, off := pos + 1, len := sup.len - pos, cap := sup.len - pos } := by
    simp [sub]
  rw [e3]
  simp only [e1, e2]
  -- source of the second copy, read in the heap after the first copy and the store
  have r3 : bytesOf (writeAt (writeAt (h ++ [List.replicate (sup.len + 1) 0]) h.length 0
        ((bytesOf (h ++ [List.replicate (sup.len + 1) 0]) (sub sup 0 pos)).take (min (sup.len + 1) pos))) h.length pos [r])
        (sub sup pos sup.len) = bytesOf h (sub sup pos sup.len) := by
    apply read_congr
    show readArr _ sup.arr = readArr h sup.arr
    rw [readArr_writeAt_ne _ _ _ _ _ hne, readArr_writeAt_ne _ _ _ _ _ hne, readArr_append_left _ _ _ hin]
  rw [r3, r1, bytesOf_sub _ _ _ _ hpos, bytesOf_sub _ _ _ _ (Nat.le_refl _)]
  generalize hL : bytesOf h sup = L at *
  have hm1 : min (sup.len + 1) pos = pos := by omega
  have hm2 : min (sup.len - pos) (sup.len - pos) = sup.len - pos := Nat.min_self _
  simp only [hm1, hm2, List.drop_zero, Nat.sub_zero, List.take_take, Nat.min_self]
  have hdl : ((L.drop pos).take (sup.len - pos)) = L.drop pos := by
    apply List.take_of_length_le; rw [List.length_drop]; omega
  rw [hdl]
  unfold bytesOf
  simp only [List.drop_zero]
  rw [readArr_writeAt_eq _ _ _ _ (by rw [writeAt_length, writeAt_length]; exact hl1),
      readArr_writeAt_eq _ _ _ _ (by rw [writeAt_length]; exact hl1),
      readArr_writeAt_eq _ _ _ _ hl1, readArr_append_new]
  have htl : (L.take pos).length = pos := by rw [List.length_take]; omega
  -- first copy
  have a1 : overwrite (List.replicate (sup.len + 1) 0) 0 (L.take pos) = L.take pos ++ List.replicate (sup.len + 1 - pos) 0 := by
    have := overwrite_front (sup.len + 1) (L.take pos) (by omega)
    rw [htl] at this; exact this
  rw [a1]
  -- the store
  have a2 : overwrite (L.take pos ++ List.replicate (sup.len + 1 - pos) 0) pos [r] =
      L.take pos ++ [r] ++ List.replicate (sup.len - pos) 0 := by
    rw [overwrite_spec _ _ _ (by simp [htl]; omega)]
    have t1 : (L.take pos ++ List.replicate (sup.len + 1 - pos) 0).take pos = L.take pos := by
      rw [List.take_append_of_le_length (by omega), List.take_of_length_le (by omega)]
    have t2 : (L.take pos ++ List.replicate (sup.len + 1 - pos) 0).drop (pos + [r].length) = List.replicate (sup.len - pos) 0 := by
      rw [List.drop_append, List.drop_of_length_le (by simp only [List.length_singleton]; omega), htl,
          List.length_singleton, Nat.add_sub_cancel_left, List.drop_replicate, List.nil_append]
      congr 1; omega
    rw [t1, t2]
  rw [a2]
  -- second copy
  have a3 : overwrite (L.take pos ++ [r] ++ List.replicate (sup.len - pos) 0) (pos + 1) (L.drop pos) =
      L.take pos ++ [r] ++ L.drop pos := by
    have hp : (L.take pos ++ [r]).length = pos + 1 := by simp [htl]
    have := overwrite_tail (L.take pos ++ [r]) (L.drop pos) (sup.len - pos) (by rw [List.length_drop]; omega)
    rw [hp] at this; exact this
  rw [a3]
  unfold insertAt
  rw [List.take_of_length_le (by simp [htl]; omega)]
  simp

/-! ### a serving sequence -/

/-- what the `i`-th reply must be: built from the ORIGINAL heap -/
def specPkt (h0 : Heap) (sup : Slice) (q : Req) : Bytes :=
  Hdr.composeVersionNegotiation q.first (toBytes (bytesOf h0 q.dest)) (toBytes (bytesOf h0 q.src))
    (insertAt (bytesOf h0 sup) q.pos q.reserved)

/-- the request reads the caller's memory and draws a legal position -/
def ReqOK (h0 : Heap) (sup : Slice) (q : Req) : Prop :=
  q.pos ≤ sup.len ∧ q.dest.arr < h0.length ∧ q.src.arr < h0.length

structure Inv (h0 : Heap) (sup : Slice) (st : Srv) (done : List Req) : Prop where
  /-- nothing that existed before the first packet has changed -/
  old : ∀ a, a < h0.length → readArr st.heap a = readArr h0 a
  size : st.heap.length = h0.length + done.length
  pkts : st.pkts = done.map (specPkt h0 sup)

theorem inv_init (h0 : Heap) (sup : Slice) : Inv h0 sup { heap := h0 } [] := ⟨fun _ _ => rfl, rfl, rfl⟩

theorem inv_compose (h0 : Heap) (sup : Slice) (st : Srv) (done : List Req) (q : Req)
    (hin : sup.arr < h0.length) (hlen : (bytesOf h0 sup).length = sup.len) (hq : ReqOK h0 sup q)
    (inv : Inv h0 sup st done) : Inv h0 sup (compose sup st q) (done ++ [q]) := by
  have hsz := inv.size
  have hin' : sup.arr < st.heap.length := by omega
  have hrs : bytesOf st.heap sup = bytesOf h0 sup := read_congr _ _ _ (inv.old _ hin)
  have keep : ∀ a, a < h0.length → readArr (getGreased st.heap sup q.pos q.reserved).1 a = readArr h0 a := by
    intro a ha
    rw [getGreased_keeps _ _ _ _ _ (by omega)]; exact inv.old a ha
  refine ⟨keep, ?_, ?_⟩
  · show (getGreased st.heap sup q.pos q.reserved).1.length = _
    rw [getGreased_length, hsz, List.length_append, List.length_singleton]; omega
  · show st.pkts ++ [_] = _
    rw [List.map_append, inv.pkts]
    congr 1
    simp only [List.map_cons, List.map_nil, specPkt]
    rw [getGreased_read _ _ _ _ hin' (by rw [hrs]; exact hlen) hq.1, hrs,
        read_congr _ _ q.dest (keep _ hq.2.1), read_congr _ _ q.src (keep _ hq.2.2)]

theorem inv_serve (h0 : Heap) (sup : Slice) (qs : List Req)
    (hin : sup.arr < h0.length) (hlen : (bytesOf h0 sup).length = sup.len) (hqs : ∀ q ∈ qs, ReqOK h0 sup q) :
    ∀ (st : Srv) (done : List Req), Inv h0 sup st done → Inv h0 sup (serve sup st qs) (done ++ qs) := by
  induction qs with
  | nil => intro st done inv; simpa [serve] using inv
  | cons q rest ih =>
    intro st done inv
    have := ih (fun x hx => hqs x (List.mem_cons_of_mem _ hx)) (compose sup st q) (done ++ [q])
      (inv_compose h0 sup st done q hin hlen (hqs q (List.mem_cons_self ..)) inv)
    simpa [serve, List.append_assoc] using this

/-- the caller's arrays survive ANY serving sequence — no hypothesis on positions, capacities or slices -/
theorem serve_keeps (h0 : Heap) (sup : Slice) (qs : List Req) :
    ∀ (st : Srv), (h0.length ≤ st.heap.length ∧ ∀ a, a < h0.length → readArr st.heap a = readArr h0 a) →
      (h0.length ≤ (serve sup st qs).heap.length ∧ ∀ a, a < h0.length → readArr (serve sup st qs).heap a = readArr h0 a) := by
  induction qs with
  | nil => intro st h; simpa [serve] using h
  | cons q rest ih =>
    intro st h
    have step : h0.length ≤ (compose sup st q).heap.length ∧ ∀ a, a < h0.length → readArr (compose sup st q).heap a = readArr h0 a := by
      refine ⟨?_, ?_⟩
      · show h0.length ≤ (getGreased st.heap sup q.pos q.reserved).1.length
        rw [getGreased_length]; omega
      · intro a ha
        show readArr (getGreased st.heap sup q.pos q.reserved).1 a = _
        rw [getGreased_keeps _ _ _ _ _ (by omega)]; exact h.2 a ha
    have := ih (compose sup st q) step
    simpa [serve] using this

/-! ### list facts about `insertAt` -/

theorem insertAt_ne_nil (l : List Nat) (pos v : Nat) : insertAt l pos v ≠ [] := by
  unfold insertAt; simp

theorem insertAt_eraseIdx (l : List Nat) (pos v : Nat) (h : pos ≤ l.length) : (insertAt l pos v).eraseIdx pos = l := by
  unfold insertAt
  have hl : (l.take pos).length = pos := by rw [List.length_take]; omega
  rw [List.eraseIdx_append_of_length_le (by omega), hl, Nat.sub_self]
  simp

theorem insertAt_length (l : List Nat) (pos v : Nat) : (insertAt l pos v).length = l.length + 1 := by
  unfold insertAt
  simp only [List.length_append, List.length_cons, List.length_take, List.length_drop]; omega

theorem insertAt_getElem (l : List Nat) (pos v : Nat) (h : pos ≤ l.length) : (insertAt l pos v)[pos]? = some v := by
  unfold insertAt
  have hl : (l.take pos).length = pos := by rw [List.length_take]; omega
  rw [List.getElem?_append_right (by omega), hl, Nat.sub_self]
  simp

theorem insertAt_filter (l : List Nat) (pos v : Nat) (p : Nat → Bool) (hv : p v = false) (hl : ∀ x ∈ l, p x = true) :
    (insertAt l pos v).filter p = l := by
  unfold insertAt
  rw [List.filter_append, List.filter_cons, hv]
  simp only [Bool.false_eq_true, ↓reduceIte]
  rw [← List.filter_append, List.take_append_drop]
  exact List.filter_eq_self.mpr hl

theorem insertAt_mem (l : List Nat) (pos v x : Nat) (hx : x ∈ insertAt l pos v) : x = v ∨ x ∈ l := by
  unfold insertAt at hx
  rcases List.mem_append.mp hx with h | h
  · exact Or.inr (List.mem_of_mem_take h)
  · rcases List.mem_cons.mp h with h | h
    · exact Or.inl h
    · exact Or.inr (List.mem_of_mem_drop h)

end Uquic.Proofs.VNHeap
