/-
C09 helper lemmas (round 4): what MarshalInitialPacketPayload reconstructs from the CRYPTO frames it
is handed — serialise, read back (clienthellod), sort, reassemble, lowest offset. For ANY list of
non-empty frames (fresh pops, retransmissions in any order, split frames): if reassembly succeeds,
the frames are exactly the pieces of the reassembled data `cd` at base offset `lo`.
-/
import Uquic.Proofs.FramesLenient
import Uquic.Proofs.FramesPlanned

namespace Uquic.Proofs.Glue
open Uquic.Spec.Framing Uquic.Model.UQuic.Frames Uquic.Proofs.Frames
open Uquic.Proofs.Planned (CovF)

/-- a CRYPTO frame as the packer holds it: stream offset and data -/
abbrev CF := Nat × List UInt8

/-- frames as maybeGetCryptoPacket hands them over: non-empty, inside the varint range -/
def FramesOk (fs : List CF) : Prop := ∀ f ∈ fs, 0 < f.2.length ∧ f.1 + f.2.length ≤ maxVarInt8

/-! ### serialise and read back -/

theorem cryptoOf_map_crypto (fs : List CF) : cryptoOf (fs.map fun f => Frame.crypto f.1 f.2) = fs := by
  induction fs with
  | nil => rfl
  | cons f fs ih => simp [cryptoOf, ih]

theorem readFrames_wireAll : ∀ (fs : List CF) (orig : List UInt8), wireAll fs = some orig →
    readFrames orig = some (fs.map fun f => Frame.crypto f.1 f.2) := by
  intro fs
  induction fs with
  | nil => intro orig h; simp [wireAll] at h; subst h; exact readFrames_nil
  | cons f fs ih =>
    intro orig h
    obtain ⟨off, data⟩ := f
    simp only [wireAll, wireCrypto] at h
    cases ha : appendVarint off with
    | none => rw [ha] at h; simp at h
    | some a =>
      cases hb : appendVarint data.length with
      | none => rw [ha, hb] at h; simp at h
      | some b =>
        cases hr : wireAll fs with
        | none => rw [ha, hb, hr] at h; simp at h
        | some rest =>
          rw [ha, hb, hr] at h
          simp only [Option.some.injEq] at h
          subst h
          have := readFrames_crypto data rest ha hb
          rw [this, ih rest hr]
          simp

theorem wireAll_isSome : ∀ (fs : List CF), FramesOk fs → ∃ orig, wireAll fs = some orig := by
  intro fs
  induction fs with
  | nil => intro _; exact ⟨[], rfl⟩
  | cons f fs ih =>
    intro h
    obtain ⟨off, data⟩ := f
    have hf := h (off, data) (List.mem_cons_self ..)
    obtain ⟨a, ha⟩ := appendVarint_isSome (v := off) (by simp at hf; omega)
    obtain ⟨b, hb⟩ := appendVarint_isSome (v := data.length) (by simp at hf; omega)
    obtain ⟨rest, hr⟩ := ih (fun g hg => h g (List.mem_cons_of_mem _ hg))
    refine ⟨[6] ++ a ++ b ++ data ++ rest, ?_⟩
    simp [wireAll, wireCrypto, ha, hb, hr]

/-- the clienthellod reader returns the frames as they were serialised -/
theorem chReadAll_wireAll {fs : List CF} {orig : List UInt8} {out : List (Nat × Nat × List UInt8)}
    (hw : wireAll fs = some orig) (hc : chReadAll orig = .ok out) : out = asLenient fs := by
  have := chReadAll_strict (readFrames_wireAll fs orig hw) hc
  rw [cryptoOf_map_crypto] at this
  exact this

theorem asLenient_fill (fs : List CF) :
    ((asLenient fs).map fun f => (f.1, f.2.1, f.2.2 ++ List.replicate (f.2.1 - f.2.2.length) 0)) = asLenient fs := by
  simp [asLenient, List.map_map]

theorem mem_asLenient {fs : List CF} {x : Nat × Nat × List UInt8} :
    x ∈ asLenient fs ↔ ∃ f ∈ fs, x = (f.1, f.2.length, f.2) := by
  simp [asLenient, List.mem_map, eq_comm]

/-! ### the stable sort keeps the elements -/

theorem mem_insertByOff (x y : Nat × Nat × List UInt8) : ∀ (l : List (Nat × Nat × List UInt8)),
    y ∈ insertByOff x l ↔ y = x ∨ y ∈ l := by
  intro l
  induction l with
  | nil => simp [insertByOff]
  | cons z zs ih =>
    simp only [insertByOff]
    split
    · simp
    · simp only [List.mem_cons, ih]
      constructor
      · rintro (h | h | h) <;> simp [h]
      · rintro (h | h | h) <;> simp [h]

theorem mem_foldl_insert (y : Nat × Nat × List UInt8) : ∀ (l init : List (Nat × Nat × List UInt8)),
    y ∈ l.foldl (fun acc x => insertByOff x acc) init ↔ y ∈ init ∨ y ∈ l := by
  intro l
  induction l with
  | nil => simp
  | cons x xs ih =>
    intro init
    simp only [List.foldl_cons, ih, mem_insertByOff, List.mem_cons]
    constructor
    · rintro ((h | h) | h) <;> simp [h]
    · rintro (h | h | h) <;> simp [h]

theorem mem_sortByOff {y : Nat × Nat × List UInt8} {l : List (Nat × Nat × List UInt8)} :
    y ∈ sortByOff l ↔ y ∈ l := by
  unfold sortByOff
  rw [mem_foldl_insert]
  simp

/-! ### ReassembleCRYPTOFrames -/

theorem reassemble_spec (first : Nat) : ∀ (l : List (Nat × Nat × List UInt8)) (acc cd : List UInt8),
    reassemble first l acc = some cd →
      acc.length ≤ cd.length ∧
      (∀ x ∈ l, first + acc.length ≤ x.1 ∧ x.1 - first + x.2.2.length ≤ cd.length ∧
        (cd.drop (x.1 - first)).take x.2.2.length = x.2.2) ∧
      (∀ i, first + acc.length ≤ i → i < first + cd.length → ∃ x ∈ l, x.1 ≤ i ∧ i < x.1 + x.2.2.length) ∧
      cd.take acc.length = acc := by
  intro l
  induction l with
  | nil =>
    intro acc cd h
    simp only [reassemble, Option.some.injEq] at h
    subst h
    refine ⟨Nat.le_refl _, by simp, ?_, by simp⟩
    intro i h1 h2; omega
  | cons x xs ih =>
    intro acc cd h
    obtain ⟨off, len, d⟩ := x
    simp only [reassemble] at h
    split at h
    · rename_i hoff
      obtain ⟨h1, h2, h3, h4⟩ := ih (acc ++ d) cd h
      simp only [List.length_append] at h1 h2 h3 h4
      have hacc : cd.take acc.length = acc := by
        have := congrArg (List.take acc.length) h4
        rw [List.take_take, Nat.min_eq_left (by omega), List.take_left'] at this
        · exact this
        · rfl
      refine ⟨by omega, ?_, ?_, hacc⟩
      · intro y hy
        rcases List.mem_cons.mp hy with rfl | hy
        · refine ⟨by simp; omega, by simp; omega, ?_⟩
          simp only []
          have e : off - first = acc.length := by omega
          rw [e]
          have := congrArg (List.drop acc.length) h4
          rw [List.drop_take, List.drop_left'] at this
          · simpa using this
          · rfl
        · obtain ⟨a, b, c⟩ := h2 y hy
          exact ⟨by omega, b, c⟩
      · intro i hi1 hi2
        by_cases hh : i < off + d.length
        · exact ⟨(off, len, d), List.mem_cons_self .., by simp; omega, by simpa using hh⟩
        · obtain ⟨y, hy, a, b⟩ := h3 i (by omega) hi2
          exact ⟨y, List.mem_cons_of_mem _ hy, a, b⟩
    · simp at h

/-! ### the lowest offset -/

theorem foldMin_spec : ∀ (l : List (Nat × Nat × List UInt8)) (m : Nat),
    let r := l.foldl (fun m f => if f.1 < m then f.1 else m) m
    r ≤ m ∧ (∀ x ∈ l, r ≤ x.1) ∧ (r = m ∨ ∃ x ∈ l, r = x.1) := by
  intro l
  induction l with
  | nil => intro m; simp
  | cons x xs ih =>
    intro m
    simp only [List.foldl_cons]
    by_cases hx : x.1 < m
    · rw [if_pos hx]
      obtain ⟨h1, h2, h3⟩ := ih x.1
      refine ⟨by omega, ?_, ?_⟩
      · intro y hy
        rcases List.mem_cons.mp hy with rfl | hy
        · exact h1
        · exact h2 y hy
      · rcases h3 with h3 | ⟨y, hy, h3⟩
        · exact Or.inr ⟨x, List.mem_cons_self .., h3⟩
        · exact Or.inr ⟨y, List.mem_cons_of_mem _ hy, h3⟩
    · rw [if_neg hx]
      obtain ⟨h1, h2, h3⟩ := ih m
      refine ⟨h1, ?_, ?_⟩
      · intro y hy
        rcases List.mem_cons.mp hy with rfl | hy
        · omega
        · exact h2 y hy
      · rcases h3 with h3 | ⟨y, hy, h3⟩
        · exact Or.inl h3
        · exact Or.inr ⟨y, List.mem_cons_of_mem _ hy, h3⟩

theorem foldMin_eq {l : List (Nat × Nat × List UInt8)} {m lo : Nat} (hlow : ∀ x ∈ l, lo ≤ x.1)
    (hhit : ∃ x ∈ l, x.1 = lo) (hm : lo < m) :
    l.foldl (fun m f => if f.1 < m then f.1 else m) m = lo := by
  obtain ⟨h1, h2, h3⟩ := foldMin_spec l m
  obtain ⟨x0, hx0, e0⟩ := hhit
  have := h2 x0 hx0
  rcases h3 with h3 | ⟨y, hy, h3⟩
  · omega
  · have := hlow y hy; omega

/-! ### the frames are the pieces of the reassembled data -/

/-- `frames` are cuts of `cd`, whose first byte has stream offset `lo`, and together they are all of it -/
structure Reassembled (frames : List CF) (lo : Nat) (cd : List UInt8) : Prop where
  low : ∀ f ∈ frames, lo ≤ f.1
  piece : ∀ f ∈ frames, f.1 - lo + f.2.length ≤ cd.length ∧ (cd.drop (f.1 - lo)).take f.2.length = f.2
  cover : ∀ i, lo ≤ i → i < lo + cd.length → CovF frames i
  hit : ∃ f ∈ frames, f.1 = lo

/-- sort + reassemble + lowest offset, as MarshalInitialPacketPayload computes them -/
theorem reassembled_of_sorted {frames : List CF} {f0 : Nat × Nat × List UInt8}
    {rest : List (Nat × Nat × List UInt8)} {cd : List UInt8}
    (hs : sortByOff (asLenient frames) = f0 :: rest) (hr : reassemble f0.1 (f0 :: rest) [] = some cd) :
    Reassembled frames f0.1 cd := by
  obtain ⟨_, h2, h3, _⟩ := reassemble_spec f0.1 (f0 :: rest) [] cd hr
  have mem : ∀ x, x ∈ f0 :: rest ↔ ∃ f ∈ frames, x = (f.1, f.2.length, f.2) := by
    intro x; rw [← hs, mem_sortByOff, mem_asLenient]
  refine ⟨?_, ?_, ?_, ?_⟩
  · intro f hf
    have := (h2 _ ((mem _).mpr ⟨f, hf, rfl⟩)).1
    simpa using this
  · intro f hf
    have := (h2 _ ((mem _).mpr ⟨f, hf, rfl⟩)).2
    simpa using this
  · intro i h1 hi
    obtain ⟨x, hx, a, b⟩ := h3 i (by simpa using h1) hi
    obtain ⟨f, hf, rfl⟩ := (mem x).mp hx
    exact ⟨f, hf, a, b⟩
  · obtain ⟨f, hf, e⟩ := (mem f0).mp (List.mem_cons_self ..)
    exact ⟨f, hf, by rw [e]⟩

theorem Reassembled.nonempty {frames : List CF} {lo : Nat} {cd : List UInt8} (h : Reassembled frames lo cd)
    (hok : FramesOk frames) : 0 < cd.length := by
  obtain ⟨f, hf, _⟩ := h.hit
  have := (h.piece f hf).1
  have := (hok f hf).1
  omega

/-- the registered frames and the reassembled data describe the same bytes of the stream `W` -/
theorem Reassembled.of_truthful {frames : List CF} {lo : Nat} {cd W : List UInt8}
    (h : Reassembled frames lo cd)
    (ht : ∀ f ∈ frames, f.1 + f.2.length ≤ W.length ∧ (W.drop f.1).take f.2.length = f.2) :
    lo + cd.length ≤ W.length ∧ cd = (W.drop lo).take cd.length := by
  have hget : ∀ k (hk : k < cd.length), lo + k < W.length ∧ ∀ (hw : lo + k < W.length), cd[k] = W[lo + k] := by
    intro k hk
    obtain ⟨f, hf, a, b⟩ := h.cover (lo + k) (by omega) (by omega)
    obtain ⟨p1, p2⟩ := h.piece f hf
    obtain ⟨t1, t2⟩ := ht f hf
    have hlo := h.low f hf
    refine ⟨by omega, fun hw => ?_⟩
    -- position `j` of the frame
    have hj : lo + k - f.1 < f.2.length := by omega
    have e1 : f.2[lo + k - f.1] = cd[k] := by
      have := congrArg (fun l => l[lo + k - f.1]?) p2
      simp only [List.getElem?_take, List.getElem?_drop] at this
      rw [if_pos hj] at this
      rw [show f.1 - lo + (lo + k - f.1) = k by omega] at this
      rw [List.getElem?_eq_getElem hk, List.getElem?_eq_getElem hj] at this
      exact (Option.some.inj this).symm
    have e2 : f.2[lo + k - f.1] = W[lo + k] := by
      have := congrArg (fun l => l[lo + k - f.1]?) t2
      simp only [List.getElem?_take, List.getElem?_drop] at this
      rw [if_pos hj] at this
      rw [show f.1 + (lo + k - f.1) = lo + k by omega] at this
      rw [List.getElem?_eq_getElem hw, List.getElem?_eq_getElem hj] at this
      exact (Option.some.inj this).symm
    rw [← e1, e2]
  have hlen : lo + cd.length ≤ W.length := by
    by_cases h0 : cd.length = 0
    · obtain ⟨f, hf, e⟩ := h.hit
      have := (ht f hf).1; omega
    · have := (hget (cd.length - 1) (by omega)).1; omega
  refine ⟨hlen, ?_⟩
  apply List.ext_getElem
  · simp; omega
  · intro k h1 h2
    rw [List.getElem_take, List.getElem_drop]
    exact (hget k h1).2 (by omega)

end Uquic.Proofs.Glue
