/-
Loss detection leaves nothing overdue behind (property C06): whenever `detectLostPackets` runs, every tracked
packet at or below `largestAcked` that is overdue by the time threshold or by the packet threshold is declared
lost — including Path MTU probes and other packets that do not count as "outstanding".
-/
import Uquic.Proofs.SentDisc

namespace Uquic.Proofs.Sent
open Uquic.Model.Sent List

theorem lookup_set_none_self (h : Hist) (idx : Nat) (n : Int) (q : PN) (hq : h.first ≤ q ∧ (q - h.first).toNat = idx) :
    ({ h with packets := h.packets.set idx none, numOutstanding := n } : Hist).lookup q = none := by
  rw [lookup_def]
  simp only [List.length_set]
  split
  · rename_i hc
    rw [hq.2] at hc ⊢
    rw [List.getElem?_set_self hc.2]; rfl
  · rfl

/-- `DeclareLost` empties exactly the slot of `pn` -/
theorem declareLost_lookup {h h' : Hist} {pn : PN} {p : Packet} (hl : h.lookup pn = some p) (e : h.declareLost pn = .ok h') (q : PN) :
    h'.lookup q = if q = pn then none else h.lookup q := by
  obtain ⟨idx, e1, e2⟩ := lookup_some hl
  obtain ⟨g1, g2⟩ := getIndex_some e1
  unfold Hist.declareLost at e
  simp only [e1, e2, Option.join_some] at e
  split at e
  · simp at e
  · simp only [LostRes.ok.injEq] at e
    subst e
    by_cases hq : q = pn
    · subst hq
      simp only [if_true]
      split
      · rw [lookup_cleanupStart]; exact lookup_set_none_self h idx _ q ⟨g1, g2⟩
      · exact lookup_set_none_self h idx _ q ⟨g1, g2⟩
    · simp only [hq, if_false]
      have hne : ¬ (h.first ≤ q ∧ (q - h.first).toNat = idx) := by omega
      split
      · rw [lookup_cleanupStart]; exact lookup_set_none h idx _ q hne
      · exact lookup_set_none h idx _ q hne

theorem difference_congr {h h' : Hist} (e : h'.skipped = h.skipped) (a b : PN) : h'.difference a b = h.difference a b := by
  unfold Hist.difference; rw [e]

/-- what one iteration of `detectLostPackets` does to the slot it looks at, and to the others -/
theorem lossStep_lookup {la lst ld : Int} {pn : PN} {p : Packet} {a : LossAcc} (f : FlightOKH a.hist)
    (hl : a.hist.lookup pn = some p) (hb : wsum flightOf a.hist.packets ≤ a.bfl) :
    (∀ q, q ≠ pn → (lossStep la lst ld pn p a).hist.lookup q = a.hist.lookup q) ∧
    ((lossStep la lst ld pn p a).hist.lookup pn = none ∨
      ((lossStep la lst ld pn p a).hist.lookup pn = some p ∧ ¬ (p.sendTime ≤ lst ∨ a.hist.difference la pn ≥ packetThreshold))) := by
  unfold lossStep
  have hmem := lookup_mem hl
  have hle := wsum_mem_le flightOf a.hist.packets (flightOf_nonneg f) hmem
  split
  · obtain ⟨h', e1, _, _⟩ := declareLost_ok f hl
    have hlk := declareLost_lookup hl e1
    simp only [e1]
    have key : (∀ q, q ≠ pn → h'.lookup q = a.hist.lookup q) ∧ h'.lookup pn = none :=
      ⟨fun q hq => by rw [hlk q, if_neg hq], by rw [hlk pn, if_pos rfl]⟩
    split
    · rw [removeBif_eq (by omega)]
      exact ⟨key.1, Or.inl key.2⟩
    · exact ⟨key.1, Or.inl key.2⟩
  · rename_i hc
    split
    · exact ⟨fun _ _ => rfl, Or.inr ⟨hl, hc⟩⟩
    · exact ⟨fun _ _ => rfl, Or.inr ⟨hl, hc⟩⟩

theorem lossLoop_lookup_lt (la lst ld : Int) (n : Nat) : ∀ (pn : PN) (a : LossAcc), FlightOKH a.hist → a.panic = none →
    wsum flightOf a.hist.packets ≤ a.bfl → ∀ q, q < pn → (lossLoop la lst ld n pn a).hist.lookup q = a.hist.lookup q := by
  induction n with
  | zero => intro pn a _ _ _ q _; rfl
  | succ n ih =>
    intro pn a f hn hb q hq
    unfold lossLoop
    simp only [hn, Option.isSome_none, Bool.false_eq_true, if_false]
    cases hl : a.hist.lookup pn with
    | none => simp only []; exact ih _ _ f hn hb q (by omega)
    | some p =>
      simp only []
      split
      · rfl
      · obtain ⟨s1, s2, s3⟩ := lossStep_flight (la := la) (lst := lst) (ld := ld) f hl hn hb
        rw [ih (pn + 1) _ s2 s1 (by omega) q (by omega)]
        exact (lossStep_lookup f hl hb).1 q (by omega)

/-- after the loop of `detectLostPackets`, no packet number it scanned (`pn ≤ q < pn + n`, `q ≤ largestAcked`)
    still holds a packet that is overdue by the time threshold or by the packet threshold -/
theorem lossLoop_no_overdue (la lst ld : Int) (n : Nat) : ∀ (pn : PN) (a : LossAcc), FlightOKH a.hist → a.panic = none →
    wsum flightOf a.hist.packets ≤ a.bfl → ∀ q p, pn ≤ q → q < pn + n → q ≤ la →
    (lossLoop la lst ld n pn a).hist.lookup q = some p →
    ¬ (p.sendTime ≤ lst ∨ a.hist.difference la q ≥ packetThreshold) := by
  induction n with
  | zero => intro pn a _ _ _ q p h1 h2; omega
  | succ n ih =>
    intro pn a f hn hb q p h1 h2 h3 hq
    unfold lossLoop at hq
    simp only [hn, Option.isSome_none, Bool.false_eq_true, if_false] at hq
    cases hl : a.hist.lookup pn with
    | none =>
      simp only [hl] at hq
      by_cases hqe : q = pn
      · subst hqe
        rw [lossLoop_lookup_lt la lst ld n (q + 1) a f hn hb q (by omega), hl] at hq
        simp at hq
      · exact ih (pn + 1) a f hn hb q p (by omega) (by omega) h3 hq
    | some p0 =>
      simp only [hl] at hq
      by_cases hgt : pn > la
      · omega
      · simp only [hgt, if_false] at hq
        obtain ⟨s1, s2, s3⟩ := lossStep_flight (la := la) (lst := lst) (ld := ld) f hl hn hb
        obtain ⟨k1, k2⟩ := lossStep_lookup (la := la) (lst := lst) (ld := ld) f hl hb
        by_cases hqe : q = pn
        · subst hqe
          rw [lossLoop_lookup_lt la lst ld n (q + 1) _ s2 s1 (by omega) q (by omega)] at hq
          rcases k2 with k2 | k2
          · rw [k2] at hq; simp at hq
          · rw [k2.1] at hq; simp only [Option.some.injEq] at hq; subst hq; exact k2.2
        · have hsk : (lossStep la lst ld pn p0 a).hist.skipped = a.hist.skipped := by
            have := lossLoop_skipped la lst ld 1 pn a
            unfold lossLoop at this
            simp only [hn, Option.isSome_none, Bool.false_eq_true, if_false, hl, hgt] at this
            simpa [lossLoop] using this
          have := ih (pn + 1) _ s2 s1 (by omega) q p (by omega) (by omega) h3 hq
          rw [difference_congr hsk] at this
          exact this


theorem lossLoop_lookup_ge (la lst ld : Int) (n : Nat) : ∀ (pn : PN) (a : LossAcc), FlightOKH a.hist → a.panic = none →
    wsum flightOf a.hist.packets ≤ a.bfl → ∀ q, pn + n ≤ q → (lossLoop la lst ld n pn a).hist.lookup q = a.hist.lookup q := by
  induction n with
  | zero => intro pn a _ _ _ q _; rfl
  | succ n ih =>
    intro pn a f hn hb q hq
    unfold lossLoop
    simp only [hn, Option.isSome_none, Bool.false_eq_true, if_false]
    cases hl : a.hist.lookup pn with
    | none => simp only []; exact ih _ _ f hn hb q (by omega)
    | some p =>
      simp only []
      split
      · rfl
      · obtain ⟨s1, s2, s3⟩ := lossStep_flight (la := la) (lst := lst) (ld := ld) f hl hn hb
        rw [ih (pn + 1) _ s2 s1 (by omega) q (by omega)]
        exact (lossStep_lookup f hl hb).1 q (by omega)

/-- `detectLostPackets` on a state satisfying the accounting invariant: afterwards the space holds no packet at or
    below `largestAcked` that is overdue by the time threshold or the packet threshold — whatever kind of packet
    it is (Path MTU probes and packets that are not "outstanding" included) -/
theorem detectLostPackets_no_overdue {s : State} {env : Env} {now : Time} {lvl : Level} {sp : Space} (fi : FInv s)
    (hg : s.getSpace lvl = some sp) :
    ∃ sp', (s.detectLostPackets env now lvl).1.getSpace lvl = some sp' ∧ (s.detectLostPackets env now lvl).2.2 = none ∧
      ∀ q p, sp'.hist.lookup q = some p → q ≤ sp.largestAcked →
        ¬ (p.sendTime ≤ now - lossDelayOf env ∨ sp.hist.difference sp.largestAcked q ≥ packetThreshold) := by
  obtain ⟨f, hb⟩ := fi
  obtain ⟨rest, r0, r1, _⟩ := total_frame f hg
  have fsp := FOK_getSpace f hg
  have hbb : wsum flightOf sp.hist.packets ≤ s.bytesInFlight := by omega
  obtain ⟨l1, _, _⟩ := lossLoop_flight sp.largestAcked (now - lossDelayOf env) (lossDelayOf env) sp.hist.packets.length sp.hist.first
    { hist := sp.hist, bfl := s.bytesInFlight } fsp rfl hbb
  unfold State.detectLostPackets
  simp only [hg]
  refine ⟨{ sp with hist := (lossLoop sp.largestAcked (now - lossDelayOf env) (lossDelayOf env) sp.hist.packets.length sp.hist.first { hist := sp.hist, bfl := s.bytesInFlight }).hist, lossTime := (lossLoop sp.largestAcked (now - lossDelayOf env) (lossDelayOf env) sp.hist.packets.length sp.hist.first { hist := sp.hist, bfl := s.bytesInFlight }).lossTime }, ?_, l1, ?_⟩
  · exact (getSpace_congr (s := s.setSpace lvl _) rfl rfl rfl lvl).trans (getSpace_setSpace hg _)
  · intro q p hq hle
    simp only [] at hq
    by_cases h1 : q < sp.hist.first
    · rw [lossLoop_lookup_lt _ _ _ _ _ _ fsp rfl hbb q h1] at hq
      simp only [] at hq
      rw [lookup_def, if_neg (by omega)] at hq; simp at hq
    · by_cases h2 : sp.hist.first + (sp.hist.packets.length : Int) ≤ q
      · rw [lossLoop_lookup_ge _ _ _ _ _ _ fsp rfl hbb q h2] at hq
        simp only [] at hq
        rw [lookup_def, if_neg (by omega)] at hq; simp at hq
      · exact lossLoop_no_overdue _ _ _ _ _ _ fsp rfl hbb q p (by omega) (by omega) hle hq


end Uquic.Proofs.Sent
