import Uquic.Proofs.WireStable

/-! `ParseType` (PADDING skipping, validity, encryption level) and the one-frame decoder. -/

namespace Uquic.Proofs.Wire
open Uquic.Model.Wire Uquic.Model.Wire.Varint

theorem parseTypeAux_stable (c : Ctx) : ∀ (fuel : Nat) (b : Bytes) (p t l : Nat), b.length < fuel →
    parseTypeAux c fuel b p = .ok t l →
    ∃ k, l = p + k ∧ k ≤ b.length ∧ ∀ (r : Bytes) (fuel' : Nat), (b.take k ++ r).length < fuel' →
      parseTypeAux c fuel' (b.take k ++ r) p = .ok t l := by
  intro fuel
  induction fuel with
  | zero => intro b p t l hlt; omega
  | succ fuel ih =>
    intro b p t l hlt h
    unfold parseTypeAux at h
    by_cases hemp : b.isEmpty = true
    · simp [hemp] at h
    · simp only [hemp, Bool.false_eq_true, if_false] at h
      rcases parse_cases b with ⟨e, he⟩ | ⟨pre, rest, typ, rfl, hd, hp⟩
      · simp [he] at h
      · simp only [hp] at h
        have hdrop : (pre ++ rest).drop pre.length = rest := by simp
        rw [hdrop] at h
        have hprelen := hd.1
        by_cases h0 : typ = 0
        · simp only [h0, if_true] at h
          obtain ⟨k', hl, hk', hall⟩ := ih rest (p + pre.length) t l (by simp at hlt; omega) h
          refine ⟨pre.length + k', by omega, by simp; omega, ?_⟩
          intro r fuel' hf
          have htake : (pre ++ rest).take (pre.length + k') = pre ++ rest.take k' := by
            rw [List.take_append]; simp
            exact List.take_of_length_le (by omega)
          rw [htake] at hf ⊢
          cases fuel' with
          | zero => simp at hf
          | succ f' =>
            unfold parseTypeAux
            have hne : (pre ++ rest.take k' ++ r).isEmpty = false := by
              cases pre with
              | nil => simp at hprelen
              | cons x xs => simp
            rw [List.append_assoc] at hne ⊢
            simp only [hne, Bool.false_eq_true, if_false, parse_of_decodes hd, h0, if_true]
            have hdrop2 : (pre ++ (rest.take k' ++ r)).drop pre.length = rest.take k' ++ r := by simp
            rw [hdrop2]
            apply hall
            simp at hf ⊢; omega
        · simp only [h0, if_false] at h
          refine ⟨pre.length, ?_, by simp, ?_⟩
          · -- the result is `.ok typ (p + pre.length)` in the only successful branch
            split at h
            · simp at h
            · split at h <;> simp at h
              omega
          · intro r fuel' hf
            have htake : (pre ++ rest).take pre.length = pre := by simp
            rw [htake] at hf ⊢
            cases fuel' with
            | zero => simp at hf
            | succ f' =>
              unfold parseTypeAux
              have hne : (pre ++ r).isEmpty = false := by
                cases pre with
                | nil => simp at hprelen
                | cons x xs => simp
              simp only [hne, Bool.false_eq_true, if_false, parse_of_decodes hd, h0]
              exact h

theorem parseType_stable (c : Ctx) (b : Bytes) (t l : Nat) (h : parseType c b = .ok t l) :
    l ≤ b.length ∧ ∀ r, parseType c (b.take l ++ r) = .ok t l := by
  unfold parseType at h
  obtain ⟨k, hl, hk, hall⟩ := parseTypeAux_stable c (b.length + 1) b 0 t l (by omega) h
  have : l = k := by omega
  subst this
  exact ⟨hk, fun r => hall r _ (by simp [parseType])⟩

/-- Property C08, "consumes exactly the bytes it reports": the decoded frame and the count depend
    only on the first `n` bytes. -/
theorem decode_stable (c : Ctx) (b : Bytes) (f : Frame) (n : Nat) (h : decode c b = .frame f n) :
    n ≤ b.length ∧ decode c (b.take n) = .frame f n := by
  unfold decode at h
  cases ht : parseType c b with
  | done => simp [ht] at h
  | err e ft => simp [ht] at h
  | panic => simp [ht] at h
  | ok typ l =>
    simp only [ht] at h
    cases hb : parseBody c typ (b.drop l) with
    | error e => simp [hb] at h
    | ok x =>
      obtain ⟨f', n'⟩ := x
      simp only [hb, DecOut.frame.injEq] at h
      obtain ⟨rfl, rfl⟩ := h
      obtain ⟨hl, hall⟩ := parseType_stable c b typ l ht
      obtain ⟨hn', hbody⟩ := stable_parseBody c typ (b.drop l) f' n' hb
      have hlen : n' ≤ b.length - l := by simpa using hn'
      refine ⟨by omega, ?_⟩
      have htake : b.take (l + n') = b.take l ++ (b.drop l).take n' := by
        rw [List.take_add]
      rw [htake]
      unfold decode
      rw [hall]
      have hdrop : (b.take l ++ (b.drop l).take n').drop l = (b.drop l).take n' := by
        rw [List.drop_append]; simp [Nat.min_eq_left hl]
      simp only [hdrop, hbody]

end Uquic.Proofs.Wire
