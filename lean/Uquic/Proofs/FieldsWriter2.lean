/-
C19: what requestWriter.encodeHeaders emits is a well-formed request section. Part 2: the emitted list.
-/
import Uquic.Proofs.FieldsWriter

namespace Uquic.Proofs.Fields
open Uquic.Model.H3.Fields Uquic.Model.H3.Writer Uquic.Gen.H3Fields
open Uquic.Spec.H3Fields (isPseudoName lowerTchar fieldValueByte isDigitByte connectionSpecific allowedPseudo
  fieldSize sectionSize WellFormedG WellFormed)

theorem lower_token_small : ∀ b, b < 127 → isTokenByte b = true → lowerTchar (if isUpper b then b + 32 else b) = true := by
  decide

theorem hostByte_small : ∀ b, b < 127 → isHostByte b = true → fieldValueByte b = true := by decide
theorem tokenByte_value_small : ∀ b, b < 127 → isTokenByte b = true → fieldValueByte b = true := by decide

theorem hostByte_lt (b : Nat) (h : isHostByte b = true) : b < 127 := by
  simp only [isHostByte, Bool.or_eq_true, Bool.and_eq_true, decide_eq_true_eq, beq_iff_eq] at h
  omega

theorem host_value (host : List Nat) (h : validHost host = true) : ∀ b ∈ host, fieldValueByte b = true := by
  intro b hb
  have := List.all_eq_true.mp h b hb
  exact hostByte_small b (hostByte_lt b this) this

theorem token_value (n : List Nat) (h : validFieldName n = true) : ∀ b ∈ n, fieldValueByte b = true := by
  intro b hb
  simp only [validFieldName, Bool.and_eq_true] at h
  have := List.all_eq_true.mp h.2 b hb
  exact tokenByte_value_small b (tokenByte_lt b this) this

theorem value_bytes_of_valid (v : List Nat) (h : validFieldValue v = true) : ∀ b ∈ v, fieldValueByte b = true :=
  validFieldValue_bytes v h

theorem lowerASCII_tokens (k : List Nat) (h : validFieldName k = true) :
    lowerASCII k ≠ [] ∧ ∀ b ∈ lowerASCII k, lowerTchar b = true := by
  simp only [validFieldName, Bool.and_eq_true, Bool.not_eq_true', List.isEmpty_eq_false_iff] at h
  refine ⟨by simpa [lowerASCII] using h.1, ?_⟩
  intro b hb
  simp only [lowerASCII, List.mem_map] at hb
  obtain ⟨a, ha, rfl⟩ := hb
  have ht := List.all_eq_true.mp h.2 a ha
  exact lower_token_small a (tokenByte_lt a ht) ht

theorem tokens_not_pseudo (n : List Nat) (h : ∀ b ∈ n, lowerTchar b = true) : isPseudoName n = false := by
  cases n with
  | nil => rfl
  | cons a r =>
    have ha := h a (by simp)
    simp only [isPseudoName, List.head?_cons]
    cases hh : (some a == some 58) with
    | false => rfl
    | true =>
      have : a = 58 := by simpa using hh
      subst this; revert ha; decide

theorem conn_sub_skipped : ∀ n ∈ connectionSpecific, n ∈ skippedNames := by decide
theorem cl_in_skipped : nContentLength ∈ skippedNames := by decide

theorem headerFields_mem (hs : List (List Nat × List (List Nat))) :
    ∀ f ∈ (headerFields hs).1, ∃ kv ∈ hs, f.1 = lowerASCII kv.1 ∧ f.2 ∈ kv.2 ∧ lowerASCII kv.1 ∉ skippedNames := by
  induction hs with
  | nil => intro f hf; simp [headerFields] at hf
  | cons kv rest ih =>
    intro f hf
    obtain ⟨k, vv⟩ := kv
    simp only [headerFields] at hf
    have lift : (∃ kv ∈ rest, f.1 = lowerASCII kv.1 ∧ f.2 ∈ kv.2 ∧ lowerASCII kv.1 ∉ skippedNames) →
        ∃ kv ∈ (k, vv) :: rest, f.1 = lowerASCII kv.1 ∧ f.2 ∈ kv.2 ∧ lowerASCII kv.1 ∉ skippedNames := by
      rintro ⟨kv, hkv, h⟩; exact ⟨kv, List.mem_cons_of_mem _ hkv, h⟩
    split at hf
    · exact lift (ih f hf)
    · rename_i hskip
      have hns : lowerASCII k ∉ skippedNames := by simpa using hskip
      split at hf
      · split at hf
        · exact lift (ih f hf)
        · rename_i v vs
          split at hf
          · exact lift (ih f hf)
          · simp only [List.mem_cons] at hf
            rcases hf with rfl | hf
            · exact ⟨(k, v :: vs), by simp, rfl, by simp, hns⟩
            · exact lift (ih f hf)
      · simp only [List.mem_append, List.mem_map] at hf
        rcases hf with ⟨v, hv, rfl⟩ | hf
        · exact ⟨(k, vv), by simp, rfl, hv, hns⟩
        · exact lift (ih f hf)

theorem joinWith_bytes (ks : List (List Nat)) (h : ∀ k ∈ ks, ∀ b ∈ k, fieldValueByte b = true) :
    ∀ b ∈ joinWith [44, 32] ks, fieldValueByte b = true := by
  induction ks with
  | nil => intro b hb; simp [joinWith] at hb
  | cons k rest ih =>
    cases rest with
    | nil => intro b hb; simp only [joinWith] at hb; exact h k (by simp) b hb
    | cons k2 r2 =>
      intro b hb
      simp only [joinWith, List.mem_append, List.mem_cons, List.not_mem_nil, or_false] at hb
      rcases hb with (hb | hb | hb) | hb
      · exact h k (by simp) b hb
      · subst hb; decide
      · subst hb; decide
      · exact ih (fun k' hk' => h k' (List.mem_cons_of_mem _ hk')) b hb

theorem drop_bytes (v : List Nat) (n : Nat) (h : ∀ b ∈ v, fieldValueByte b = true) : ∀ b ∈ v.drop n, fieldValueByte b = true :=
  fun b hb => h b (List.mem_of_mem_drop hb)

theorem const_names : (∀ b ∈ nTrailer, lowerTchar b = true) ∧ (∀ b ∈ nAcceptEncoding, lowerTchar b = true) ∧
    (∀ b ∈ nUserAgent, lowerTchar b = true) ∧ nTrailer ∉ connectionSpecific ∧ nAcceptEncoding ∉ connectionSpecific ∧
    nUserAgent ∉ connectionSpecific ∧ nTrailer ≠ nTe ∧ nAcceptEncoding ≠ nTe ∧ nUserAgent ≠ nTe ∧
    nTrailer ≠ nContentLength ∧ nAcceptEncoding ≠ nContentLength ∧ nUserAgent ≠ nContentLength ∧
    (∀ b ∈ vGzip, fieldValueByte b = true) ∧ nTrailer ≠ [] ∧ nAcceptEncoding ≠ [] ∧ nUserAgent ≠ [] := by decide

/-- hypotheses under which a request is a "valid net/http message" for the writer theorem -/
structure ValidRequest (ua : List Nat) (w : WReq) : Prop where
  /-- http.NewRequest / Transport: the method is a token -/
  method : validFieldName w.method = true
  /-- net/url never yields control bytes (url.Parse rejects them, RequestURI escapes the path) -/
  uri : validFieldValue w.reqURI = true
  scheme : validFieldValue w.scheme = true
  proto : validFieldValue w.proto = true
  /-- announced trailer keys are header field names -/
  trailers : ∀ k ∈ w.trailerKeys, validFieldName k = true
  ua : validFieldValue ua = true
  /-- Content-Length fits int64 (it is one) -/
  cl : w.contentLength < 2 ^ 63
  /-- NOT enforced by the writer (finding C19-request-te): TE only carries "trailers" -/
  te : ∀ kv ∈ w.headers, lowerASCII kv.1 = nTe → ∀ v ∈ kv.2, v = vTrailers

theorem regularPart_ok (ua : List Nat) (w : WReq) (hv : ValidRequest ua w)
    (hh : w.headers.any (fun kv => !validFieldName kv.1 || kv.2.any (fun v => !validFieldValue v)) = false) :
    ∀ f ∈ regularPart ua w, RegOK f ∨ (f.1 = nContentLength ∧ f.2 = fmtNat w.contentLength.toNat) := by
  obtain ⟨t1, t2, t3, t4, t5, t6, t7, t8, t9, t10, t11, t12, t13, t14, t15, t16⟩ := const_names
  intro f hf
  simp only [regularPart, List.mem_append] at hf
  rcases hf with (((hf | hf) | hf) | hf) | hf
  · -- trailer
    split at hf
    · simp only [List.mem_singleton] at hf; subst hf
      left
      refine ⟨tokens_not_pseudo _ t1, t14, t1, ?_, t4, fun h => absurd h t7, t10⟩
      apply joinWith_bytes
      intro k hk
      exact token_value k (hv.trailers k (List.mem_filter.mp hk).1)
    · simp at hf
  · -- headers
    obtain ⟨kv, hkv, h1, h2, h3⟩ := headerFields_mem w.headers f hf
    have hkvok := List.any_eq_false.mp hh kv hkv
    simp only [Bool.or_eq_true, Bool.not_eq_true', List.any_eq_true, not_or, not_exists, not_and,
      Bool.not_eq_false] at hkvok
    obtain ⟨hne, htok⟩ := lowerASCII_tokens kv.1 (by simpa using hkvok.1)
    left
    refine ⟨?_, ?_, ?_, ?_, ?_, ?_, ?_⟩
    · rw [h1]; exact tokens_not_pseudo _ htok
    · rw [h1]; exact hne
    · rw [h1]; exact htok
    · exact value_bytes_of_valid _ (by simpa using hkvok.2 f.2 h2)
    · rw [h1]; intro hc; exact h3 (conn_sub_skipped _ hc)
    · intro hte; exact hv.te kv hkv (h1 ▸ hte) f.2 h2
    · rw [h1]; intro hc; exact h3 (hc ▸ cl_in_skipped)
  · -- content-length
    split at hf
    · simp only [List.mem_singleton] at hf; subst hf; right; exact ⟨rfl, rfl⟩
    · simp at hf
  · -- accept-encoding
    split at hf
    · simp only [List.mem_singleton] at hf; subst hf
      left; exact ⟨tokens_not_pseudo _ t2, t15, t2, t13, t5, fun h => absurd h t8, t11⟩
    · simp at hf
  · -- user-agent
    split at hf
    · simp only [List.mem_singleton] at hf; subst hf
      left; exact ⟨tokens_not_pseudo _ t3, t16, t3, value_bytes_of_valid _ hv.ua, t6, fun h => absurd h t9, t12⟩
    · simp at hf

theorem pseudo_names_facts : isPseudoName nAuthority = true ∧ isPseudoName nMethod = true ∧ isPseudoName nPath = true ∧
    isPseudoName nScheme = true ∧ isPseudoName nProtocol = true ∧
    nAuthority ∈ allowedPseudo true ∧ nMethod ∈ allowedPseudo true ∧ nPath ∈ allowedPseudo true ∧
    nScheme ∈ allowedPseudo true ∧ nProtocol ∈ allowedPseudo true ∧
    [nAuthority, nMethod, nPath, nScheme, nProtocol].Nodup := by decide

theorem pseudoPart_ok (w : WReq) (host path : List Nat)
    (hhost : ∀ b ∈ host, fieldValueByte b = true) (hm : ∀ b ∈ w.method, fieldValueByte b = true)
    (hpath : ∀ b ∈ path, fieldValueByte b = true) (hs : ∀ b ∈ w.scheme, fieldValueByte b = true)
    (hp : ∀ b ∈ w.proto, fieldValueByte b = true) :
    (∀ f ∈ pseudoPart w host path, isPseudoName f.1 = true ∧ f.1 ∈ allowedPseudo true ∧ ∀ b ∈ f.2, fieldValueByte b = true) ∧
    ((pseudoPart w host path).map Prod.fst).Nodup := by
  obtain ⟨p1, p2, p3, p4, p5, a1, a2, a3, a4, a5, nd⟩ := pseudo_names_facts
  constructor
  · intro f hf
    simp only [pseudoPart, List.mem_append, List.mem_cons, List.not_mem_nil, or_false] at hf
    rcases hf with ((rfl | rfl) | hf) | hf
    · exact ⟨p1, a1, hhost⟩
    · exact ⟨p2, a2, hm⟩
    · split at hf
      · simp only [List.mem_cons, List.not_mem_nil, or_false] at hf
        rcases hf with rfl | rfl
        · exact ⟨p3, a3, hpath⟩
        · exact ⟨p4, a4, hs⟩
      · simp at hf
    · split at hf
      · simp only [List.mem_singleton] at hf; subst hf; exact ⟨p5, a5, hp⟩
      · simp at hf
  · simp only [pseudoPart]
    cases needPath w <;> cases isExtendedConnect w <;>
      simp only [if_true, if_false, Bool.false_eq_true, List.append_nil, List.cons_append, List.nil_append, List.map_cons, List.map_nil] <;>
      decide

end Uquic.Proofs.Fields
