/-
C11 helper lemmas: QUIC varints and the transport-parameter wire format read back by the model's reader.
-/
import Uquic.Model.UQuic.QTP

namespace Uquic.Proofs.Qtp
open Uquic.Model.QTP

/-- 2^62: `quicvarint.Append` panics from here on -/
def varintLimit : Nat := 4611686018427387904

theorem varint_ne_nil (v : Nat) : varint v ≠ [] := by
  unfold varint; split <;> (try split) <;> (try split) <;> simp

theorem varint_length_pos (v : Nat) : 0 < (varint v).length :=
  List.length_pos_iff.mpr (varint_ne_nil v)

theorem readVarint_varint (v : Nat) (h : v < varintLimit) (r : List Nat) :
    readVarint (varint v ++ r) = some (v, r) := by
  unfold varintLimit at h
  unfold varint
  split
  · rename_i h1
    simp [readVarint, h1]
  · split
    · rename_i h1 h2
      have a1 : ¬ (64 + v / 256 < 64) := by omega
      have a2 : 64 + v / 256 < 128 := by omega
      simp only [List.cons_append, List.nil_append, readVarint, a1, a2, if_true, if_false]
      congr 2
      omega
    · split
      · rename_i h1 h2 h3
        have a1 : ¬ (128 + v / 16777216 < 64) := by omega
        have a2 : ¬ (128 + v / 16777216 < 128) := by omega
        have a3 : 128 + v / 16777216 < 192 := by omega
        simp only [List.cons_append, List.nil_append, readVarint, a1, a2, a3, if_true, if_false]
        congr 2
        omega
      · rename_i h1 h2 h3
        have a1 : ¬ (192 + v / 72057594037927936 < 64) := by omega
        have a2 : ¬ (192 + v / 72057594037927936 < 128) := by omega
        have a3 : ¬ (192 + v / 72057594037927936 < 192) := by omega
        simp only [List.cons_append, List.nil_append, readVarint, a1, a2, a3, if_false]
        congr 2
        omega

/-- a parameter the uTLS marshaller accepts (it panics on ids or lengths ≥ 2^62) -/
def WF (p : Param) : Prop := p.id < varintLimit ∧ p.val.length < varintLimit

theorem marshalOne_length (p : Param) : 2 ≤ (marshalOne p).length := by
  have := varint_length_pos p.id
  have := varint_length_pos p.val.length
  simp only [marshalOne, List.length_append]
  omega

theorem parseFuel_marshal (ps : List Param) (hwf : ∀ p ∈ ps, WF p) :
    ∀ f, (marshal ps).length ≤ f → parseFuel f (marshal ps) = some (pairs ps) := by
  induction ps with
  | nil => intro f _; cases f <;> simp [marshal, parseFuel, pairs]
  | cons p ps ih =>
    intro f hf
    have hp : WF p := hwf p (by simp)
    have hlen := marshalOne_length p
    simp only [marshal, List.length_append] at hf
    cases f with
    | zero => omega
    | succ f =>
      have hne : (marshal (p :: ps)).isEmpty = false := by
        cases h : marshal (p :: ps) with
        | nil =>
          have : (marshal (p :: ps)).length = 0 := by rw [h]; rfl
          simp only [marshal, List.length_append] at this
          omega
        | cons _ _ => rfl
      have e1 : marshal (p :: ps) = varint p.id ++ (varint p.val.length ++ (p.val ++ marshal ps)) := by
        simp [marshal, marshalOne, List.append_assoc]
      have r1 := readVarint_varint p.id hp.1 (varint p.val.length ++ (p.val ++ marshal ps))
      have r2 := readVarint_varint p.val.length hp.2 (p.val ++ marshal ps)
      have ihf := ih (fun q hq => hwf q (List.mem_cons_of_mem _ hq)) f (by omega)
      rw [parseFuel]
      simp only [hne, Bool.false_eq_true, if_false]
      rw [e1, r1]
      simp only [r2, List.length_append, List.drop_left', List.take_left']
      have : ¬ (p.val.length + (marshal ps).length < p.val.length) := by omega
      simp only [this, if_false, ihf, pairs, List.map_cons]

/-- the reader recovers exactly the `(id, value)` list that was marshalled -/
theorem parseQTP_marshal (ps : List Param) (hwf : ∀ p ∈ ps, WF p) :
    parseQTP (marshal ps) = some (pairs ps) :=
  parseFuel_marshal ps hwf _ (Nat.le_refl _)

end Uquic.Proofs.Qtp
