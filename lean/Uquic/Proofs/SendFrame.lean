/-
C01 helper lemmas: varint lengths, STREAM frame header arithmetic, `MaybeSplitOffFrame`,
and list-prefix facts used for "frame data = written[off, off+len)".
-/
import Uquic.Spec.SendRun

namespace Uquic.Proofs.Send
open Uquic.Model.Stream.Send Uquic.Spec.SendRun

theorem maxVarInt1_eq : maxVarInt1 = 63 := by decide
theorem maxVarInt2_eq : maxVarInt2 = 16383 := by decide
theorem maxVarInt4_eq : maxVarInt4 = 1073741823 := by decide
theorem maxPacketBufferSize_eq : maxPacketBufferSize = 1452 := by decide

theorem varintLen_pos (n : Nat) : 1 ≤ varintLen n := by
  unfold varintLen; split <;> (try split) <;> (try split) <;> omega

theorem varintLen_le (n : Nat) : varintLen n ≤ 8 := by
  unfold varintLen; split <;> (try split) <;> (try split) <;> omega

theorem varintLen_small {n : Nat} (h : n ≤ 63) : varintLen n = 1 := by
  unfold varintLen; rw [maxVarInt1_eq]; simp [h]

theorem varintLen_mid {n : Nat} (h1 : 64 ≤ n) (h2 : n ≤ 16383) : varintLen n = 2 := by
  unfold varintLen; rw [maxVarInt1_eq, maxVarInt2_eq]
  have : ¬ n ≤ 63 := by omega
  simp [this, h2]

theorem varintLen_ge2 {n : Nat} (h1 : 64 ≤ n) : 2 ≤ varintLen n := by
  unfold varintLen; rw [maxVarInt1_eq]
  have : ¬ n ≤ 63 := by omega
  simp only [this, if_false]; split <;> (try split) <;> omega

theorem varintLen_eq_one_iff (n : Nat) : varintLen n = 1 ↔ n ≤ 63 := by
  constructor
  · intro h
    by_cases hn : n ≤ 63
    · exact hn
    · have := varintLen_ge2 (n := n) (by omega); omega
  · exact varintLen_small

/-! ### prefix facts -/

theorem prefix_drop_append {α} {l W p : List α} {o : Nat} (h : l <+: W.drop o) : l <+: (W ++ p).drop o := by
  by_cases ho : o ≤ W.length
  · rw [List.drop_append_of_le_length ho]; exact h.trans (List.prefix_append _ _)
  · have : W.drop o = [] := List.drop_eq_nil_of_le (by omega)
    rw [this] at h
    have : l = [] := List.prefix_nil.mp h
    subst this; exact List.nil_prefix

theorem prefix_drop_drop {α} {l W : List α} {o : Nat} (n : Nat) (h : l <+: W.drop o) : l.drop n <+: W.drop (o + n) := by
  obtain ⟨t, ht⟩ := h
  have : W.drop (o + n) = l.drop n ++ t.drop (n - l.length) := by
    rw [← List.drop_drop, ← ht, List.drop_append]
  rw [this]; exact List.prefix_append _ _

theorem prefix_take {α} {l W : List α} (n : Nat) (h : l <+: W) : l.take n <+: W :=
  (List.take_prefix n l).trans h

/-- a prefix of `W.drop o` of positive length ends inside `W` -/
theorem prefix_drop_length_le {α} {l W : List α} {o : Nat} (h : l <+: W.drop o) (hne : l ≠ []) : o + l.length ≤ W.length := by
  have h1 := h.length_le
  rw [List.length_drop] at h1
  have : 0 < l.length := List.length_pos_iff.mpr hne
  omega

/-! ### `MaybeSplitOffFrame` -/

/-- what `maybeSplitOff` returns when it does split off a frame -/
theorem maybeSplitOff_some {sid : Nat} {f new f' : Frame} {m : Nat} {b : Bool}
    (h : f.maybeSplitOff sid m = (some new, f', b)) :
    b = true ∧ m < f.length sid ∧ f.maxDataLen sid m ≠ 0 ∧
    new = { offset := f.offset, data := f.data.take (f.maxDataLen sid m), fin := false, dataLenPresent := f.dataLenPresent } ∧
    f' = { f with data := f.data.drop (f.maxDataLen sid m), offset := f.offset + f.maxDataLen sid m } := by
  unfold Frame.maybeSplitOff at h
  split at h
  · simp at h
  · rename_i hlt
    simp only at h
    split at h
    · simp at h
    · rename_i hn
      simp only [Prod.mk.injEq, Option.some.injEq] at h
      obtain ⟨h1, h2, h3⟩ := h
      exact ⟨h3.symm, by omega, hn, h1.symm, h2.symm⟩

theorem maybeSplitOff_none {sid : Nat} {f f' : Frame} {m : Nat} {b : Bool}
    (h : f.maybeSplitOff sid m = (none, f', b)) : f' = f := by
  unfold Frame.maybeSplitOff at h
  split at h
  · simp at h; exact h.1.symm
  · simp only at h
    split at h
    · simp at h; exact h.1.symm
    · simp at h

/-- when the frame does not fit, the number of bytes split off is smaller than the frame
    (so the Go slice expression `f.Data[:len-n]` is in range and the remainder is non-empty) -/
theorem maxDataLen_lt_of_not_fit {sid : Nat} {f : Frame} {m : Nat}
    (hlen : f.data.length ≤ maxVarInt2) (hfit : m < f.length sid) (hn : f.maxDataLen sid m ≠ 0) :
    f.maxDataLen sid m < f.data.length := by
  rw [maxVarInt2_eq] at hlen
  unfold Frame.maxDataLen Frame.headerLen1 at hn ⊢
  unfold Frame.length at hfit
  generalize 1 + varintLen sid + (if f.offset ≠ 0 then varintLen f.offset else 0) = h0 at *
  cases hd : f.dataLenPresent
  · simp only [hd, Bool.false_eq_true, if_false, Nat.add_zero, Bool.false_and] at *
    split at hn
    · simp at hn
    · rename_i hh; simp only [hh, if_false]; omega
  · simp only [hd, if_true, Bool.true_and] at *
    split at hn
    · simp at hn
    · rename_i hh
      simp only [hh, if_false] at *
      by_cases hl : f.data.length ≤ 63
      · have := varintLen_small hl
        cases hb : (varintLen (m - (h0 + 1)) != 1)
        · simp only [hb, Bool.false_eq_true, if_false] at hn ⊢; omega
        · simp only [hb, if_true] at hn ⊢; omega
      · have h2 := varintLen_mid (n := f.data.length) (by omega) hlen
        by_cases hm : m - (h0 + 1) ≤ 63
        · have h1 := varintLen_small hm
          have hne : (varintLen (m - (h0 + 1)) != 1) = false := by simp [h1]
          simp only [hne, Bool.false_eq_true, if_false]; omega
        · have := varintLen_ge2 (n := m - (h0 + 1)) (by omega)
          have hne : (varintLen (m - (h0 + 1)) != 1) = true := by simp; omega
          simp only [hne, if_true]; omega

/-- the split-off frame fits the budget (for budgets up to 16 KiB: beyond it the one-byte correction of
    `MaxDataLen` is not enough for a 4-byte length field — the packer's budgets are ≤ 1452) -/
theorem split_fits {sid : Nat} {f : Frame} {m : Nat} (hm : m ≤ maxVarInt2) (hn : f.maxDataLen sid m ≠ 0) :
    Frame.length sid { offset := f.offset, data := f.data.take (f.maxDataLen sid m), fin := false, dataLenPresent := f.dataLenPresent } ≤ m := by
  rw [maxVarInt2_eq] at hm
  unfold Frame.length
  simp only [List.length_take]
  unfold Frame.maxDataLen Frame.headerLen1 at hn ⊢
  generalize 1 + varintLen sid + (if f.offset ≠ 0 then varintLen f.offset else 0) = h0 at *
  cases hd : f.dataLenPresent
  · simp only [hd, Bool.false_eq_true, if_false, Nat.add_zero, Bool.false_and] at *
    split at hn
    · simp at hn
    · rename_i hh; simp only [hh, if_false]; omega
  · simp only [hd, if_true, Bool.true_and] at *
    split at hn
    · simp at hn
    · rename_i hh
      simp only [hh, if_false] at *
      by_cases hs : m - (h0 + 1) ≤ 63
      · have h1 := varintLen_small hs
        have hne : (varintLen (m - (h0 + 1)) != 1) = false := by simp [h1]
        simp only [hne, Bool.false_eq_true, if_false] at *
        have : min (m - (h0 + 1)) f.data.length ≤ 63 := by omega
        have := varintLen_small this
        omega
      · have h1 := varintLen_ge2 (n := m - (h0 + 1)) (by omega)
        have hne : (varintLen (m - (h0 + 1)) != 1) = true := by simp; omega
        simp only [hne, if_true] at *
        by_cases hq : min (m - (h0 + 1) - 1) f.data.length ≤ 63
        · have := varintLen_small hq; omega
        · have := varintLen_mid (n := min (m - (h0 + 1) - 1) f.data.length) (by omega) (by omega)
          omega

end Uquic.Proofs.Send
