/-
Helper lemmas for C18: one `Stream.Read` step against the wire specification, for every
chunking of the underlying stream and every read size.
-/
import Uquic.Proofs.H3Parse

namespace Uquic.Proofs.H3
open Uquic.Model.H3 Uquic.Spec.H3Wire

/-- the stream state `s` stands at: `r` = rest of the current DATA payload, then the frames `fs` -/
structure Inv (mh : Nat) (s : MsgStream) (r : List Nat) (tr : Bool) (fs : List WFrame) : Prop where
  term : s.p.u.term = .fin
  cc : s.p.cc = none
  cells : fl s.p.u.cells = r ++ encFrames fs
  rem : s.remaining = r.length
  ptr : s.parsedTrailer = tr
  mh : s.maxHdr = mh
  ok : ∀ f ∈ fs, f.ok
  ctl : ∀ f ∈ fs, kindOf f.ty ≠ .settings ∧ kindOf f.ty ≠ .goaway

/-- bytes still to come on the underlying stream -/
def meas (r : List Nat) (fs : List WFrame) : Nat := r.length + (encFrames fs).length

/-- after an error that ends the body for good: no buffered bytes, stream not open -/
def Dead (s : MsgStream) : Prop := s.remaining = 0 ∧ s.p.u.cells = [] ∧ s.p.u.term ≠ .open

theorem prefix_split {d x r y : List Nat} (h : d ++ x = r ++ y) (hl : d.length ≤ r.length) :
    d = r.take d.length ∧ x = r.drop d.length ++ y := by
  induction d generalizing r with
  | nil => simp at h; simp [h]
  | cons a d ih =>
    cases r with
    | nil => simp at hl
    | cons b r =>
      simp only [List.cons_append, List.cons.injEq] at h
      simp only [List.length_cons, Nat.add_le_add_iff_right] at hl
      obtain ⟨h1, h2⟩ := ih h.2 hl
      simp only [List.length_cons, List.take_succ_cons, List.cons.injEq, List.drop_succ_cons]
      exact ⟨⟨h.1, h1⟩, h2⟩

theorem encFrames_eq_nil {fs : List WFrame} (h : encFrames fs = []) : fs = [] := by
  cases fs with
  | nil => rfl
  | cons f fs =>
    have := enc_length_ge f
    have h2 := congrArg List.length h
    simp only [encFrames, List.length_append, List.length_nil] at h2
    omega

theorem mem_of_mem_dropSkips {fs : List WFrame} {g : WFrame} (h : g ∈ dropSkips fs) : g ∈ fs := by
  induction fs with
  | nil => simp [dropSkips] at h
  | cons f fs ih =>
    simp only [dropSkips] at h
    split at h
    · exact List.mem_cons_of_mem _ (ih h)
    · exact h

theorem dropSkips_head {fs : List WFrame} {f : WFrame} {rest : List WFrame} (h : dropSkips fs = f :: rest) :
    kindOf f.ty ≠ .skip := by
  induction fs with
  | nil => simp [dropSkips] at h
  | cons g fs ih =>
    simp only [dropSkips] at h
    split at h
    · exact ih h
    · next hg => simp only [List.cons.injEq] at h; rw [← h.1]; exact hg

/-- the outcome of one read -/
def StepOK (mh : Nat) (r : List Nat) (tr : Bool) (fs : List WFrame) (n : Nat)
    (res : MsgStream × List Nat × Option Err) : Prop :=
  (res.2.2 = none ∧ ∃ r' tr' fs', Inv mh res.1 r' tr' fs' ∧
      r ++ (expect mh tr fs).1 = res.2.1 ++ (r' ++ (expect mh tr' fs').1) ∧
      (expect mh tr' fs').2 = (expect mh tr fs).2 ∧ (0 < n ∨ r = [] → meas r' fs' < meas r fs) ∧
      res.2.1.length ≤ n) ∨
  (∃ e, res.2.2 = some e ∧ res.2.1 = [] ∧ r = [] ∧ (expect mh tr fs).1 = [] ∧ e = (expect mh tr fs).2 ∧
      ((e = .eof ∨ ∃ t, e = .reserved t) → Dead res.1) ∧
      ((∃ t, e = .reserved t) → res.1.p.cc = some errFrameUnexpected))

/-- the DATA part of a read -/
theorem readData_step {mh : Nat} {s : MsgStream} {r : List Nat} {tr : Bool} {fs : List WFrame}
    (h : Inv mh s r tr fs) (n : Nat) (hne : s.p.u.cells ≠ []) :
    (s.readData n).2.2 = none ∧ ∃ r', Inv mh (s.readData n).1 r' tr fs ∧ r = (s.readData n).2.1 ++ r' ∧
      (0 < n → r ≠ [] → r'.length < r.length) ∧ (s.readData n).2.1.length ≤ n := by
  obtain ⟨d, cs', hread, happ, hlen, hpos⟩ := read_data s.p.u (if s.remaining < n then s.remaining else n) hne
  have hk : d.length ≤ r.length := by
    have : (if s.remaining < n then s.remaining else n) ≤ r.length := by rw [h.rem]; split <;> omega
    omega
  rw [h.cells] at happ
  obtain ⟨hd, hcs⟩ := prefix_split happ hk
  simp only [MsgStream.readData, hread]
  have hkn : d.length ≤ n := by
    have : (if s.remaining < n then s.remaining else n) ≤ n := by split <;> omega
    omega
  refine ⟨trivial, r.drop d.length, ?_, ?_, ?_, hkn⟩
  · exact { term := h.term, cc := h.cc, cells := hcs, rem := by simp [h.rem], ptr := h.ptr, mh := h.mh, ok := h.ok, ctl := h.ctl }
  · conv => lhs; rw [← List.take_append_drop d.length r]
    rw [← hd]
  · intro hn hr
    have : 0 < (if s.remaining < n then s.remaining else n) := by
      rw [h.rem]; have := List.length_pos_iff.mpr hr; split <;> omega
    have := hpos this
    have := List.length_pos_iff.mpr this
    simp only [List.length_drop]
    have := List.length_pos_iff.mpr hr
    omega

theorem expect_data {mh : Nat} {f : WFrame} {rest : List WFrame} (hk : kindOf f.ty = .data) :
    expect mh false (f :: rest) = (f.payload ++ (expect mh false rest).1, (expect mh false rest).2) := by
  simp [expect, hk]

theorem meas_frame (f : WFrame) (rest fs : List WFrame) (hds : dropSkips fs = f :: rest) :
    f.payload.length + (encFrames rest).length + 2 ≤ (encFrames fs).length := by
  have h1 := encFrames_dropSkips_le fs
  rw [hds] at h1
  have h2 := enc_length f
  have := Nat.two_pow_pos f.tk
  have := Nat.two_pow_pos f.lk
  simp only [encFrames, List.length_append] at h1
  omega

/-- one `Stream.Read` of any size, on any chunking, against the wire specification -/
theorem read_step {mh : Nat} {s : MsgStream} {r : List Nat} {tr : Bool} {fs : List WFrame}
    (h : Inv mh s r tr fs) (n : Nat) : StepOK mh r tr fs n (s.read n) := by
  by_cases hr : s.remaining = 0
  · -- a new frame has to be parsed
    have hrnil : r = [] := by
      have := h.rem; rw [hr] at this; exact List.length_eq_zero_iff.mp this.symm
    subst hrnil
    have hcells : fl s.p.u.cells = encFrames fs := by simpa using h.cells
    have hfuel : fs.length < s.p.fuel := by
      have := encFrames_length_ge fs
      have hl := congrArg List.length hcells
      simp only [fl, List.length_map] at hl
      simp only [PState.fuel]; omega
    have hp := parseNext_frames fs h.ok s.p.fuel s.p hfuel h.term h.cc hcells
    have hexp := expect_dropSkips mh tr fs
    simp only [MsgStream.read, hr, ↓reduceIte]
    generalize parseNext s.p.fuel s.p = res at hp ⊢
    obtain ⟨p1, x⟩ := res
    unfold ParseSpec at hp
    cases hds : dropSkips fs with
    | nil =>
      rw [hds] at hp hexp
      simp only at hp
      obtain ⟨hx, hcc, hterm, hcl⟩ := hp
      subst hx
      dsimp only
      right
      refine ⟨.eof, rfl, rfl, rfl, ?_, ?_, ?_, ?_⟩
      · rw [hexp]; rfl
      · rw [hexp]; rfl
      · intro _; exact ⟨rfl, hcl, by rw [hterm]; simp⟩
      · rintro ⟨t, ht⟩; cases ht
    | cons f rest =>
      rw [hds] at hp hexp
      have hfmem : f ∈ fs := mem_of_mem_dropSkips (by rw [hds]; simp)
      have hrest : ∀ g ∈ rest, g ∈ fs := fun g hg => mem_of_mem_dropSkips (by rw [hds]; simp [hg])
      have hnskip := dropSkips_head hds
      have hctl := h.ctl f hfmem
      have hmeas := meas_frame f rest fs hds
      cases hk : kindOf f.ty with
      | skip => exact absurd hk hnskip
      | settings => exact absurd hk hctl.1
      | goaway => exact absurd hk hctl.2
      | reserved =>
        simp only [hk] at hp
        obtain ⟨hx, hcc, hcl, hterm⟩ := hp
        subst hx
        dsimp only
        right
        refine ⟨.reserved f.ty, rfl, rfl, rfl, ?_, ?_, ?_, ?_⟩
        · rw [hexp]; simp [expect, hk]
        · rw [hexp]; simp [expect, hk]
        · intro _; exact ⟨rfl, hcl, hterm⟩
        · intro _; exact hcc
      | data =>
        simp only [hk] at hp
        obtain ⟨hx, hcc, hterm, hcl⟩ := hp
        subst hx
        cases htr : s.parsedTrailer with
        | true =>
          have : tr = true := by rw [← h.ptr]; exact htr
          subst this
          dsimp only
          simp only [↓reduceIte]
          right
          refine ⟨.dataAfterTrailers, rfl, rfl, rfl, ?_, ?_, ?_, ?_⟩
          · rw [hexp]; simp [expect, hk]
          · rw [hexp]; simp [expect, hk]
          · rintro (h1 | ⟨t, h1⟩) <;> cases h1
          · rintro ⟨t, h1⟩; cases h1
        | false =>
          have htr' : tr = false := by rw [← h.ptr]; exact htr
          subst htr'
          dsimp only
          simp only [Bool.false_eq_true, ↓reduceIte]
          have hinv : Inv mh (MsgStream.mk p1 f.payload.length false s.trailer s.maxHdr) f.payload false rest :=
            { term := hterm, cc := hcc, cells := hcl, rem := rfl, ptr := rfl, mh := h.mh,
              ok := fun g hg => h.ok g (hrest g hg), ctl := fun g hg => h.ctl g (hrest g hg) }
          by_cases hne : p1.u.cells = []
          · -- an empty DATA frame at the very end of the stream: the zero-length read hits EOF
            have hpl : f.payload = [] ∧ encFrames rest = [] := by
              have : f.payload ++ encFrames rest = [] := by rw [← hcl, hne]; rfl
              exact List.append_eq_nil_iff.mp this
            have hrestnil := encFrames_eq_nil hpl.2
            right
            refine ⟨.eof, ?_, ?_, rfl, ?_, ?_, ?_, ?_⟩
            · simp [MsgStream.readData, Under.read, hne, hpl.1, hterm, Term.err, MsgStream.setU]
            · simp [MsgStream.readData, Under.read, hne, hpl.1, hterm, MsgStream.setU]
            · rw [hexp, expect_data hk, hrestnil, hpl.1]; rfl
            · rw [hexp, expect_data hk, hrestnil]; rfl
            · intro _
              simp [Dead, MsgStream.readData, Under.read, hne, hpl.1, hterm, MsgStream.setU]
            · rintro ⟨t, h1⟩; cases h1
          · obtain ⟨hnone, r', hinv', hsplit, hdec, hlen⟩ := readData_step hinv n hne
            left
            refine ⟨hnone, r', false, rest, hinv', ?_, ?_, ?_, hlen⟩
            · rw [hexp, expect_data hk]
              simp only [List.nil_append]
              conv => lhs; rw [hsplit]
              simp [List.append_assoc]
            · rw [hexp, expect_data hk]
            · intro _
              have : r'.length ≤ f.payload.length := by
                have := congrArg List.length hsplit
                simp only [List.length_append] at this; omega
              simp only [meas, List.length_nil]; omega
      | headers =>
        simp only [hk] at hp
        obtain ⟨hx, hcc, hterm, hcl⟩ := hp
        subst hx
        cases htr : s.parsedTrailer with
        | true =>
          have : tr = true := by rw [← h.ptr]; exact htr
          subst this
          dsimp only
          simp only [↓reduceIte]
          right
          refine ⟨.headersAfterTrailers, rfl, rfl, rfl, ?_, ?_, ?_, ?_⟩
          · rw [hexp]; simp [expect, hk]
          · rw [hexp]; simp [expect, hk]
          · rintro (h1 | ⟨t, h1⟩) <;> cases h1
          · rintro ⟨t, h1⟩; cases h1
        | false =>
          have htr' : tr = false := by rw [← h.ptr]; exact htr
          subst htr'
          dsimp only
          simp only [Bool.false_eq_true, ↓reduceIte]
          by_cases hbig : f.payload.length > mh
          · right
            have hbig' : f.payload.length > s.maxHdr := by rw [h.mh]; exact hbig
            refine ⟨.headersTooLarge, ?_, rfl, rfl, ?_, ?_, ?_, ?_⟩
            · simp [MsgStream.parseTrailer, hbig']
            · rw [hexp]; simp [expect, hk, hbig]
            · rw [hexp]; simp [expect, hk, hbig]
            · rintro (h1 | ⟨t, h1⟩) <;> cases h1
            · rintro ⟨t, h1⟩; cases h1
          · have hbig' : ¬ f.payload.length > s.maxHdr := by rw [h.mh]; exact hbig
            obtain ⟨hrf, hrest'⟩ := readFull_ok p1.u f.payload (encFrames rest) hcl
            left
            have hexp' : expect mh false (f :: rest) = expect mh true rest := by
              simp [expect, hk, hbig]
            refine ⟨?_, [], true, rest, ?_, ?_, ?_, ?_, by simp⟩
            · simp [MsgStream.parseTrailer, hbig', hrf, MsgStream.setU]
            · simp only [MsgStream.parseTrailer, hbig', ↓reduceIte, hrf, MsgStream.setU]
              exact { term := hterm, cc := hcc, cells := by simpa using hrest', rem := rfl, ptr := rfl, mh := h.mh,
                      ok := fun g hg => h.ok g (hrest g hg), ctl := fun g hg => h.ctl g (hrest g hg) }
            · rw [hexp, hexp']; simp
            · rw [hexp, hexp']
            · intro _; simp only [meas, List.length_nil]; omega
  · -- inside a DATA frame
    have hrne : r ≠ [] := by
      intro hnil; apply hr; rw [h.rem, hnil]; rfl
    have hne : s.p.u.cells ≠ [] := by
      intro hnil
      have := h.cells
      rw [hnil] at this
      have := List.append_eq_nil_iff.mp this.symm
      exact hrne this.1
    simp only [MsgStream.read, hr, ↓reduceIte]
    obtain ⟨hnone, r', hinv', hsplit, hdec, hlen⟩ := readData_step h n hne
    left
    refine ⟨hnone, r', tr, fs, hinv', ?_, rfl, ?_, hlen⟩
    · conv => lhs; rw [hsplit]
      simp [List.append_assoc]
    · rintro (hn | hn)
      · have := hdec hn hrne
        simp only [meas]; omega
      · exact absurd hn hrne

end Uquic.Proofs.H3
