import Uquic.Proofs.WireMoreTP2

/-! Transport parameters, round trip (3/3): the segments of `Marshal`'s output in order, the checks
    after the loop, and the round-trip theorems (both perspectives and the session ticket). -/

set_option linter.unusedSimpArgs false
set_option linter.unusedVariables false

namespace Uquic.Proofs.WireMore
open Uquic.Proofs.Wire
open Uquic.Model.Wire Uquic.Model.Wire.Varint Uquic.Model.Wire.TP Uquic.Model.Wire.TP.RT

/-! ### `itemsBytes` / `itemsFit` / `itemsLen` over lists of writes -/

theorem itemsBytes_nil : itemsBytes [] = [] := rfl
theorem itemsBytes_v (x : Nat) (l : List Item) : itemsBytes (.v x :: l) = enc x ++ itemsBytes l := by
  simp [itemsBytes]
theorem itemsBytes_raw (b : Bytes) (l : List Item) : itemsBytes (.raw b :: l) = b ++ itemsBytes l := by
  simp [itemsBytes]
theorem itemsBytes_append (a b : List Item) : itemsBytes (a ++ b) = itemsBytes a ++ itemsBytes b := by
  simp [itemsBytes]
theorem itemsFit_nil : itemsFit [] = true := rfl
theorem itemsFit_v (x : Nat) (l : List Item) : itemsFit (.v x :: l) = (fits x && itemsFit l) := by
  simp [itemsFit]
theorem itemsFit_raw (b : Bytes) (l : List Item) : itemsFit (.raw b :: l) = itemsFit l := by
  simp [itemsFit]
theorem itemsFit_append (a b : List Item) : itemsFit (a ++ b) = (itemsFit a && itemsFit b) := by
  simp [itemsFit]

theorem fits_iff (x : Nat) : fits x = true ↔ x ≤ maxVarInt8 := by simp [fits]

theorem itemsBytes_varintParam (id v : Nat) (rest : Bytes) :
    itemsBytes (varintParam id v) ++ rest = enc id ++ (enc (len v) ++ (enc v ++ rest)) := by
  simp [varintParam, itemsBytes_v, itemsBytes_nil]

theorem itemsFit_varintParam (id v : Nat) (h : itemsFit (varintParam id v) = true) : id ≤ maxVarInt8 ∧ v ≤ maxVarInt8 := by
  simp [varintParam, itemsFit_v, itemsFit_nil, fits_iff] at h
  exact ⟨h.1, h.2.2⟩

theorem upd_id (s : LoopSt) (f : Params → Params) (hf : ∀ q, f q = q) : upd s [] f false false = s := by
  cases s; simp [upd, hf]

@[simp] theorem upd_p (s : LoopSt) (ids : List Nat) (f : Params → Params) (o i : Bool) : (upd s ids f o i).p = f s.p := rfl
@[simp] theorem upd_ids (s : LoopSt) (ids : List Nat) (f : Params → Params) (o i : Bool) : (upd s ids f o i).ids = s.ids ++ ids := rfl
@[simp] theorem upd_o (s : LoopSt) (ids : List Nat) (f : Params → Params) (o i : Bool) :
    (upd s ids f o i).readODCID = (s.readODCID || o) := rfl
@[simp] theorem upd_i (s : LoopSt) (ids : List Nat) (f : Params → Params) (o i : Bool) :
    (upd s ids f o i).readISCID = (s.readISCID || i) := rfl

/-! ### the segments, in the order `Marshal` writes them -/

theorem S_grease (sb g : Nat) (gv rest : Bytes) (s : LoopSt) (hk : isKnownID g = false)
    (hfit : itemsFit [Item.v g, .v gv.length, .raw gv] = true) :
    L sb (itemsBytes [Item.v g, .v gv.length, .raw gv] ++ rest) s = L sb rest (upd s [g] (fun q => q) false false) := by
  simp [itemsFit_v, itemsFit_raw, itemsFit_nil, fits_iff] at hfit
  simp only [itemsBytes_v, itemsBytes_raw, itemsBytes_nil, List.append_nil, List.append_assoc]
  exact L_unknown sb g gv rest s hk hfit.1 hfit.2

/-- an unconditional numeric parameter -/
theorem S_num (sb id v : Nat) (rest : Bytes) (s : LoopSt) (f : Params → Params)
    (hnum : isNumericID id = true) (hfit : itemsFit (varintParam id v) = true)
    (hr : ∀ rest q, readNumeric q (enc v ++ rest) id (len v) = .ok (f q)) :
    L sb (itemsBytes (varintParam id v) ++ rest) s = L sb rest (upd s [id] f false false) := by
  obtain ⟨h1, h2⟩ := itemsFit_varintParam id v hfit
  rw [itemsBytes_varintParam]
  exact L_num sb id v rest s f hnum h1 h2 (hr rest)

/-- a numeric parameter written only under condition `c` -/
theorem S_numIf (sb id v : Nat) (c : Prop) [Decidable c] (rest : Bytes) (s : LoopSt) (f : Params → Params)
    (hnum : isNumericID id = true) (hfit : itemsFit (if c then varintParam id v else []) = true)
    (hr : c → ∀ rest q, readNumeric q (enc v ++ rest) id (len v) = .ok (f q)) (hn : ¬ c → ∀ q, f q = q) :
    L sb (itemsBytes (if c then varintParam id v else []) ++ rest) s =
      L sb rest (upd s (if c then [id] else []) f false false) := by
  by_cases hc : c
  · simp only [if_pos hc] at hfit ⊢
    exact S_num sb id v rest s f hnum hfit (hr hc)
  · simp only [if_neg hc, itemsBytes_nil, List.nil_append]
    rw [upd_id s f (hn hc)]


theorem S_dam (sb : Nat) (c : Bool) (rest : Bytes) (s : LoopSt) :
    L sb (itemsBytes (if c then [Item.v idDisableActiveMigration, .v 0] else []) ++ rest) s =
      L sb rest (upd s (if c then [idDisableActiveMigration] else [])
        (fun q => { q with disableActiveMigration := c || q.disableActiveMigration }) false false) := by
  cases c with
  | true =>
    simp only [if_true, itemsBytes_v, itemsBytes_nil, List.append_nil, List.append_assoc, Bool.true_or]
    exact L_dam sb rest s
  | false =>
    simp only [Bool.false_eq_true, if_false, itemsBytes_nil, List.nil_append, Bool.false_or]
    rw [upd_id s _ (fun q => rfl)]

theorem S_rsa (sb : Nat) (c : Bool) (rest : Bytes) (s : LoopSt) :
    L sb (itemsBytes (if c then [Item.v idResetStreamAt, .v 0] else []) ++ rest) s =
      L sb rest (upd s (if c then [idResetStreamAt] else [])
        (fun q => { q with enableResetStreamAt := c || q.enableResetStreamAt }) false false) := by
  cases c with
  | true =>
    simp only [if_true, itemsBytes_v, itemsBytes_nil, List.append_nil, List.append_assoc, Bool.true_or]
    exact L_rsa sb rest s
  | false =>
    simp only [Bool.false_eq_true, if_false, itemsBytes_nil, List.nil_append, Bool.false_or]
    rw [upd_id s _ (fun q => rfl)]

theorem S_srt (sb : Nat) (o : Option Bytes) (rest : Bytes) (s : LoopSt) (hsb : sb ≠ perspectiveClient)
    (ht : TypedOpt (fun t => t.length = 16) o) :
    L sb (itemsBytes (match (generalizing := false) o with
                      | some t => [Item.v idSRT, .v 16, .raw t]
                      | none => []) ++ rest) s =
      L sb rest (upd s (if o.isSome then [idSRT] else [])
        (fun q => { q with srt := match (generalizing := false) o with | some t => some t | none => q.srt }) false false) := by
  cases o with
  | some t =>
    simp only [itemsBytes_v, itemsBytes_raw, itemsBytes_nil, List.append_nil, List.append_assoc, Option.isSome_some, if_true]
    exact L_srt sb t rest s hsb ht
  | none =>
    simp only [itemsBytes_nil, List.nil_append, Option.isSome_none, Bool.false_eq_true, if_false]
    rw [upd_id s _ (fun q => rfl)]

theorem S_odcid (sb : Nat) (c rest : Bytes) (s : LoopSt) (hsb : sb ≠ perspectiveClient) (hc : c.length ≤ TP.maxConnIDLen) :
    L sb (itemsBytes [Item.v idODCID, .v c.length, .raw c] ++ rest) s =
      L sb rest (upd s [idODCID] (fun q => { q with odcid := c }) true false) := by
  simp only [itemsBytes_v, itemsBytes_raw, itemsBytes_nil, List.append_nil, List.append_assoc]
  exact L_odcid sb c rest s hsb hc

theorem S_iscid (sb : Nat) (c rest : Bytes) (s : LoopSt) (hc : c.length ≤ TP.maxConnIDLen) :
    L sb (itemsBytes [Item.v idISCID, .v c.length, .raw c] ++ rest) s =
      L sb rest (upd s [idISCID] (fun q => { q with iscid := c }) false true) := by
  simp only [itemsBytes_v, itemsBytes_raw, itemsBytes_nil, List.append_nil, List.append_assoc]
  exact L_iscid sb c rest s hc

theorem S_rscid (sb : Nat) (o : Option Bytes) (rest : Bytes) (s : LoopSt) (hsb : sb ≠ perspectiveClient)
    (ht : TypedOpt (fun c => c.length ≤ TP.maxConnIDLen) o) :
    L sb (itemsBytes (match (generalizing := false) o with
                      | some c => [Item.v idRSCID, .v c.length, .raw c]
                      | none => []) ++ rest) s =
      L sb rest (upd s (if o.isSome then [idRSCID] else [])
        (fun q => { q with rscid := match (generalizing := false) o with | some c => some c | none => q.rscid }) false false) := by
  cases o with
  | some c =>
    simp only [itemsBytes_v, itemsBytes_raw, itemsBytes_nil, List.append_nil, List.append_assoc, Option.isSome_some, if_true]
    exact L_rscid sb c rest s hsb ht
  | none =>
    simp only [itemsBytes_nil, List.nil_append, Option.isSome_none, Bool.false_eq_true, if_false]
    rw [upd_id s _ (fun q => rfl)]

theorem S_pa (sb : Nat) (o : Option PreferredAddress) (rest : Bytes) (s : LoopSt) (hsb : sb ≠ perspectiveClient)
    (ht : TypedOpt TypedPA o) (hpos : TypedOpt (fun pa => 0 < pa.connID.length) o) :
    L sb (itemsBytes (match (generalizing := false) o with
            | some pa =>
              [Item.v idPreferredAddress, .v (4 + 2 + 16 + 2 + 1 + pa.connID.length + 16),
               .raw (match pa.v4 with
                     | some (ip, port) => ip ++ [Varint.u8 (port / 256), Varint.u8 port]
                     | none => List.replicate 6 0),
               .raw (match pa.v6 with
                     | some (ip, port) => ip ++ [Varint.u8 (port / 256), Varint.u8 port]
                     | none => List.replicate 18 0),
               .raw [Varint.u8 pa.connID.length], .raw pa.connID, .raw pa.token]
            | none => []) ++ rest) s =
      L sb rest (upd s (if o.isSome then [idPreferredAddress] else [])
        (fun q => { q with preferredAddress := match (generalizing := false) o with | some pa => some (normPA pa) | none => q.preferredAddress })
        false false) := by
  cases o with
  | some pa =>
    simp only [itemsBytes_v, itemsBytes_raw, itemsBytes_nil, List.append_nil, Option.isSome_some, if_true]
    have e4 : (match pa.v4 with
               | some (ip, port) => ip ++ [Varint.u8 (port / 256), Varint.u8 port]
               | none => List.replicate 6 0) = addrBytes 4 pa.v4 := by
      cases h : pa.v4 with
      | none => rfl
      | some x => obtain ⟨ip, port⟩ := x; rfl
    have e6 : (match pa.v6 with
               | some (ip, port) => ip ++ [Varint.u8 (port / 256), Varint.u8 port]
               | none => List.replicate 18 0) = addrBytes 16 pa.v6 := by
      cases h : pa.v6 with
      | none => rfl
      | some x => obtain ⟨ip, port⟩ := x; rfl
    rw [e4, e6]
    have := L_pa sb pa rest s hsb ht hpos
    simp only [paBytes, List.append_assoc] at this ⊢
    exact this
  | none =>
    simp only [itemsBytes_nil, List.nil_append, Option.isSome_none, Bool.false_eq_true, if_false]
    rw [upd_id s _ (fun q => rfl)]

/-- an optional numeric parameter (a nil pointer / `InvalidByteCount` is not written) -/
theorem S_numOpt (sb id : Nat) (o : Option Nat) (g : Nat → Nat) (rest : Bytes) (s : LoopSt) (f : Params → Params)
    (hnum : isNumericID id = true)
    (hfit : itemsFit (match (generalizing := false) o with
                      | some v => varintParam id (g v)
                      | none => []) = true)
    (hr : ∀ v, o = some v → ∀ rest q, readNumeric q (enc (g v) ++ rest) id (len (g v)) = .ok (f q))
    (hn : o = none → ∀ q, f q = q) :
    L sb (itemsBytes (match (generalizing := false) o with
                      | some v => varintParam id (g v)
                      | none => []) ++ rest) s =
      L sb rest (upd s (if o.isSome then [id] else []) f false false) := by
  cases o with
  | some v =>
    simp only [Option.isSome_some, if_true] at hfit ⊢
    exact S_num sb id (g v) rest s f hnum hfit (hr v rfl)
  | none =>
    simp only [itemsBytes_nil, List.nil_append, Option.isSome_none, Bool.false_eq_true, if_false]
    rw [upd_id s f (hn rfl)]


/-! ### after the loop -/

/-- the receiver's defaults `unmarshal` starts from -/
def p0 : Params :=
  { ackDelayExponent := TP.defaultAckDelayExponent, maxAckDelay := defaultMaxAckDelay,
    maxDatagramFrameSize := none, activeConnectionIDLimit := defaultActiveConnectionIDLimit }

theorem unmarshal_of_L (b : Bytes) (sb : Nat) (ft : Bool) (st : LoopSt) (hL : L sb b { p := p0 } = .ok st)
    (hmin : ∀ m, st.p.minAckDelay = some m → m ≤ st.p.maxAckDelay)
    (hod : ft = false → sb = perspectiveServer → st.readODCID = true) (his : ft = false → st.readISCID = true)
    (hdup : hasDup st.ids = false) :
    unmarshal b sb ft =
      .ok (if ft = false ∧ st.p.maxUDPPayloadSize = 0 then { st.p with maxUDPPayloadSize := TP.maxByteCount } else st.p) := by
  have hL' : unmarshalLoop sb (b.length + 1) b
      { p := { ackDelayExponent := TP.defaultAckDelayExponent, maxAckDelay := defaultMaxAckDelay,
               maxDatagramFrameSize := none, activeConnectionIDLimit := defaultActiveConnectionIDLimit } } = .ok st := hL
  unfold unmarshal
  simp only [hL']
  have key : ∀ (x : Bool), x = false →
      (if x = true then (Except.error TErr.minGtMax : Except TErr Params)
       else if (!ft) = true ∧ sb = perspectiveServer ∧ (!st.readODCID) = true then Except.error TErr.missingODCID
       else if (!ft) = true ∧ (!st.readISCID) = true then Except.error TErr.missingISCID
       else if hasDup st.ids = true then Except.error TErr.duplicate
       else Except.ok (if (!ft) = true ∧ st.p.maxUDPPayloadSize = 0 then { st.p with maxUDPPayloadSize := TP.maxByteCount } else st.p)) =
      .ok (if ft = false ∧ st.p.maxUDPPayloadSize = 0 then { st.p with maxUDPPayloadSize := TP.maxByteCount } else st.p) := by
    intro x hx
    subst hx
    cases ft with
    | false =>
      have h1 := his rfl
      by_cases hs : sb = perspectiveServer
      · have h2 := hod rfl hs
        simp [h1, h2, hdup]
      · simp [h1, hs, hdup]
    | true => simp [hdup]
  apply key
  cases h : st.p.minAckDelay with
  | none => rfl
  | some m => have := hmin m h; simp; omega

theorem hasDup_false_of_nodup : ∀ (l : List Nat), l.Nodup → hasDup l = false
  | [], _ => rfl
  | x :: rest, h => by
    rw [List.nodup_cons] at h
    simp [hasDup, h.1, hasDup_false_of_nodup rest h.2]

theorem sub_ite (c : Prop) [Decidable c] (x : List Nat) : List.Sublist (if c then x else []) x := by
  split
  · exact List.Sublist.refl _
  · exact List.nil_sublist _

theorem params_ext (a b : Params)
    (h1 : a.initialMaxStreamDataBidiLocal = b.initialMaxStreamDataBidiLocal)
    (h2 : a.initialMaxStreamDataBidiRemote = b.initialMaxStreamDataBidiRemote)
    (h3 : a.initialMaxStreamDataUni = b.initialMaxStreamDataUni)
    (h4 : a.initialMaxData = b.initialMaxData)
    (h5 : a.maxAckDelay = b.maxAckDelay)
    (h6 : a.ackDelayExponent = b.ackDelayExponent)
    (h7 : a.disableActiveMigration = b.disableActiveMigration)
    (h8 : a.maxUDPPayloadSize = b.maxUDPPayloadSize)
    (h9 : a.maxUniStreamNum = b.maxUniStreamNum)
    (h10 : a.maxBidiStreamNum = b.maxBidiStreamNum)
    (h11 : a.maxIdleTimeout = b.maxIdleTimeout)
    (h12 : a.preferredAddress = b.preferredAddress)
    (h13 : a.odcid = b.odcid)
    (h14 : a.iscid = b.iscid)
    (h15 : a.rscid = b.rscid)
    (h16 : a.srt = b.srt)
    (h17 : a.activeConnectionIDLimit = b.activeConnectionIDLimit)
    (h18 : a.maxDatagramFrameSize = b.maxDatagramFrameSize)
    (h19 : a.enableResetStreamAt = b.enableResetStreamAt)
    (h20 : a.minAckDelay = b.minAckDelay) : a = b := by
  cases a; cases b; simp_all

end Uquic.Proofs.WireMore
