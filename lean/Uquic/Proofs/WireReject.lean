import Uquic.Proofs.WireFix

/-! Out-of-range values are rejected; the decoder is total (never `panic`) at the four
    encryption levels; more counterexamples to the full fixpoint statement. -/

namespace Uquic.Proofs.Wire
open Uquic.Model.Wire Uquic.Model.Wire.Varint Uquic.Spec.WireMon

/-! ### rejections -/

theorem reject_maxStreams {p : Bytes} {v : Nat} (h : Decodes p v) (hv : v > maxStreamCount) (typ : Nat) (r : Bytes) :
    parseMaxStreams (p ++ r) typ = .error .streamCount := by
  simp [parseMaxStreams, parse_of_decodes h r, hv]

theorem reject_streamsBlocked {p : Bytes} {v : Nat} (h : Decodes p v) (hv : v > maxStreamCount) (typ : Nat) (r : Bytes) :
    parseStreamsBlocked (p ++ r) typ = .error .streamCount := by
  simp [parseStreamsBlocked, parse_of_decodes h r, hv]

theorem reject_reliable_gt_final {p1 p2 p3 p4 : Bytes} {sid ec fs rs : Nat} (h1 : Decodes p1 sid) (h2 : Decodes p2 ec)
    (h3 : Decodes p3 fs) (h4 : Decodes p4 rs) (hgt : rs > fs) (r : Bytes) :
    parseResetStream (p1 ++ p2 ++ p3 ++ p4 ++ r) true = .error .reliableGtFinal := by
  unfold parseResetStream
  simp only [List.append_assoc, takeV_of_decodes h1, takeV_of_decodes h2, takeV_of_decodes h3, takeV_of_decodes h4]
  simp [hgt]

theorem reject_ncid_len {p1 p2 : Bytes} {seq rpt : Nat} (h1 : Decodes p1 seq) (h2 : Decodes p2 rpt) (hle : rpt ≤ seq)
    (l0 : UInt8) (r : Bytes) (hbad : l0.toNat = 0 ∨ l0.toNat > maxConnIDLen) :
    (parseNewConnectionID (p1 ++ p2 ++ l0 :: r) = .error .zeroCID ∧ l0.toNat = 0) ∨
    (parseNewConnectionID (p1 ++ p2 ++ l0 :: r) = .error .cidLen ∧ l0.toNat > maxConnIDLen) := by
  unfold parseNewConnectionID
  simp only [List.append_assoc, takeV_of_decodes h1, takeV_of_decodes h2, if_neg (Nat.not_lt.mpr hle)]
  rcases hbad with h0 | hbig
  · left; simp [h0]
  · right
    have : l0.toNat ≠ 0 := by rw [mcl_eq] at hbig; omega
    simp [this, hbig]

theorem reject_ncid_retire {p1 p2 : Bytes} {seq rpt : Nat} (h1 : Decodes p1 seq) (h2 : Decodes p2 rpt) (hgt : rpt > seq)
    (r : Bytes) : parseNewConnectionID (p1 ++ p2 ++ r) = .error .retireGtSeq := by
  unfold parseNewConnectionID
  simp only [List.append_assoc, takeV_of_decodes h1, takeV_of_decodes h2]
  simp [hgt]

theorem reject_empty_token {p : Bytes} (h : Decodes p 0) (r : Bytes) : parseNewToken (p ++ r) = .error .emptyToken := by
  simp [parseNewToken, parse_of_decodes h r]

/-- a frame type the table does not allow at this level is rejected, whatever follows -/
theorem reject_enc_level (c : Ctx) (t : Nat) (r : Bytes) (ht0 : t ≠ 0) (htm : t ≤ maxVarInt8)
    (hvalid : (isValidRFC9000 t
      || (c.supportsDatagrams && isDatagramFrameType t)
      || (c.supportsResetStreamAt && decide (t = ftResetStreamAt))
      || (c.supportsAckFrequency && (decide (t = ftAckFrequency) || decide (t = ftImmediateAck)))) = true)
    (hno : isAllowedAtEncLevel t c.lvl = some false) :
    decode c (enc t ++ r) = .err .encLevel t := by
  unfold decode parseType
  have hpos : 0 < (enc t).length := by rw [len_enc t htm]; exact len_pos t htm
  have hne : (enc t ++ r).isEmpty = false := by
    cases h : enc t with
    | nil => rw [h] at hpos; simp at hpos
    | cons x xs => simp
  unfold parseTypeAux
  simp only [hne, Bool.false_eq_true, if_false, parse_enc t htm r, ht0, hvalid, Bool.not_true, hno]

/-- an unknown / un-negotiated frame type is rejected -/
theorem reject_unknown_type (c : Ctx) (t : Nat) (r : Bytes) (ht0 : t ≠ 0) (htm : t ≤ maxVarInt8)
    (hinvalid : (isValidRFC9000 t
      || (c.supportsDatagrams && isDatagramFrameType t)
      || (c.supportsResetStreamAt && decide (t = ftResetStreamAt))
      || (c.supportsAckFrequency && (decide (t = ftAckFrequency) || decide (t = ftImmediateAck)))) = false) :
    decode c (enc t ++ r) = .err .unknownType t := by
  unfold decode parseType
  have hpos : 0 < (enc t).length := by rw [len_enc t htm]; exact len_pos t htm
  have hne : (enc t ++ r).isEmpty = false := by
    cases h : enc t with
    | nil => rw [h] at hpos; simp at hpos
    | cons x xs => simp
  unfold parseTypeAux
  simp only [hne, Bool.false_eq_true, if_false, parse_enc t htm r, ht0, hinvalid, Bool.not_false, if_true]

/-- RFC 9000 §12.4 / §17.2: Initial and Handshake packets carry only PADDING, PING, ACK, CRYPTO and
    CONNECTION_CLOSE (0x1c); checked for all 256 one-byte types against the regenerated table -/
theorem enc_level_table_initial_handshake :
    ∀ t ∈ List.range 256, ∀ lvl ∈ [1, 2],
      isAllowedAtEncLevel t lvl = some (decide (t = 1 ∨ t = 2 ∨ t = 3 ∨ t = 6 ∨ t = 0x1c)) := by decide +kernel

/-- 0-RTT: everything except ACK, CRYPTO, NEW_TOKEN, PATH_RESPONSE, RETIRE_CONNECTION_ID and
    CONNECTION_CLOSE(0x1c); 1-RTT: everything -/
theorem enc_level_table_app :
    ∀ t ∈ List.range 256,
      isAllowedAtEncLevel t 3 = some (decide (¬(t = 2 ∨ t = 3 ∨ t = 6 ∨ t = 7 ∨ t = 0x19 ∨ t = 0x1b ∨ t = 0x1c)))
      ∧ isAllowedAtEncLevel t 4 = some true := by decide +kernel

/-! ### totality -/

theorem allowed_ne_none (t lvl : Nat) (h : lvl = 1 ∨ lvl = 2 ∨ lvl = 3 ∨ lvl = 4) : isAllowedAtEncLevel t lvl ≠ none := by
  rcases h with rfl | rfl | rfl | rfl <;> simp [isAllowedAtEncLevel, Uquic.Gen.Wire.encLevelTable]

theorem parseTypeAux_no_panic (c : Ctx) (hl : c.lvl = 1 ∨ c.lvl = 2 ∨ c.lvl = 3 ∨ c.lvl = 4) :
    ∀ (fuel : Nat) (b : Bytes) (p : Nat), parseTypeAux c fuel b p ≠ .panic := by
  intro fuel
  induction fuel with
  | zero => intro b p; simp [parseTypeAux]
  | succ fuel ih =>
    intro b p
    unfold parseTypeAux
    split
    · simp
    · split
      · simp
      · rename_i typ l hp
        simp only
        split
        · exact ih _ _
        · split
          · simp
          · have := allowed_ne_none typ c.lvl hl
            split <;> simp_all

/-- the one-frame decoder never panics at the four encryption levels (for Go: the correspondence claim) -/
theorem decode_no_panic (c : Ctx) (hl : c.lvl = 1 ∨ c.lvl = 2 ∨ c.lvl = 3 ∨ c.lvl = 4) (b : Bytes) : decode c b ≠ .panic := by
  unfold decode
  have := parseTypeAux_no_panic c hl (b.length + 1) b 0
  unfold parseType
  split
  · simp
  · simp
  · rename_i h; exact absurd h this
  · split <;> simp

/-! ### further kernel-checked counterexamples to the full fixpoint statement -/

/-- does re-encoding the frame parsed from `b` parse to something else? -/
def fixpointFails (c : Ctx) (b : Bytes) : Bool :=
  match decode c b with
  | .frame f _ =>
    match encode f with
    | .ok bs _ => decide (decode c bs ≠ .frame f bs.length)
    | _ => false
  | _ => false

theorem not_full_of_fails (c : Ctx) (b : Bytes) (h : fixpointFails c b = true) : ¬ reencode_fixpoint_full := by
  intro hfull
  unfold fixpointFails at h
  cases hd : decode c b with
  | frame f n =>
    simp only [hd] at h
    cases he : encode f with
    | ok bs l =>
      simp only [he] at h
      have := hfull c b f n hd bs l he
      simp [this] at h
    | err e => simp [he] at h
    | panic => simp [he] at h
  | done => simp [hd] at h
  | err e ft => simp [hd] at h
  | panic => simp [hd] at h

/-- ACK_FREQUENCY with Requested Max Ack Delay ≥ 2^63/1000 µs -/
theorem fixpoint_fails_ackFrequency :
    fixpointFails witnessCtx [0x40, 0xaf, 0x01, 0x01, 0xc0, 0x20, 0xc4, 0x9b, 0xa5, 0xe3, 0x53, 0xf8, 0x01] = true := by
  decide +kernel

/-- an ACK frame with 65 ranges: `Append` writes 64 -/
theorem fixpoint_fails_ackRanges :
    fixpointFails witnessCtx ([0x02, 0x40, 0xc8, 0x00, 0x40, 0x40, 0x00] ++ List.replicate 128 0) = true := by
  decide +kernel

theorem fixpoint_fails_ackDelay : fixpointFails witnessCtx witnessBytes = true := by decide +kernel

end Uquic.Proofs.Wire

namespace Uquic.Proofs.Wire
open Uquic.Model.Wire Uquic.Spec.WireMon

/-- the regenerated allowed-at-encryption-level table equals RFC 9000 Table 3 on every frame type
    0x01 … 0x1e and every level, except at the three documented 0-RTT entries, where it has exactly
    the documented value -/
theorem encLevelTable_is_rfc :
    ∀ t ∈ List.range 0x1f, ∀ lvl ∈ [1, 2, 3, 4], t ≠ 0 → isAllowedAtEncLevel t lvl = some (encLevelExpected t lvl) := by
  decide +kernel

/-- FULL statement: the table is Table 3 -/
def encLevelTable_is_rfc_full : Prop :=
  ∀ t ∈ List.range 0x1f, ∀ lvl ∈ [1, 2, 3, 4], t ≠ 0 → isAllowedAtEncLevel t lvl = some (rfcTable3 t lvl)

/-- … which is false on the unchanged tree, at exactly the documented deviations -/
theorem encLevelTable_is_rfc_witness :
    ¬ encLevelTable_is_rfc_full ∧
    (∀ t ∈ List.range 0x1f, ∀ lvl ∈ [1, 2, 3, 4], t ≠ 0 →
      (isAllowedAtEncLevel t lvl ≠ some (rfcTable3 t lvl) ↔ (t, lvl) ∈ encLevelDeviations)) := by
  constructor
  · intro h
    have := h 0x1e (by decide) 3 (by decide) (by decide)
    revert this
    decide +kernel
  · decide +kernel

end Uquic.Proofs.Wire
