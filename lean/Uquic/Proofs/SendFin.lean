/-
C01: the FIN clause for ALL reset semantics (RESET_STREAM_AT included), on top of `RInv`:
a frame has FIN only if the stream was closed and the frame ends at the final size. Holds of the code
since a7958da (no FIN on new data of a reset stream) and the truncation fix (a frame cut to the reliable
size loses its FIN).
-/
import Uquic.Proofs.SendResetAt

namespace Uquic.Proofs.Send
open Uquic.Model.Stream.Send Uquic.Spec.SendRun Uquic.Spec.StreamPipe

def FinOk (s : State) (f : Frame) : Prop :=
  f.fin = true → s.finishedWriting = true ∧ f.offset + f.data.length = s.written.length

theorem FinOk.ext {s s' : State} {f : Frame} (h : FinOk s f) (e : Ext s s') : FinOk s' f := by
  intro hfin
  obtain ⟨h1, h2⟩ := h hfin
  obtain ⟨⟨p, hp, hpf⟩, hfw⟩ := e
  have := hpf h1
  subst this
  exact ⟨hfw h1, by rw [hp]; simpa using h2⟩

structure FInv (s : State) : Prop where
  fem : ∀ f ∈ s.emitted, FinOk s f
  fout : ∀ e ∈ s.outstanding, FinOk s e.2 ∧ e.2.data.length ≤ maxPacketBufferSize
  fq : ∀ f ∈ s.retransQ, FinOk s f ∧ f.data.length ≤ maxPacketBufferSize

/-- bookkeeping-only steps -/
theorem FInv.transfer {s s' : State} (h : FInv s) (e : Ext s s') (hem : s'.emitted = s.emitted)
    (ho : ∀ x ∈ s'.outstanding, x ∈ s.outstanding)
    (hq : ∀ g ∈ s'.retransQ, FinOk s g ∧ g.data.length ≤ maxPacketBufferSize) : FInv s' :=
  ⟨fun f hf => (h.fem f (hem ▸ hf)).ext e,
   fun x hx => ⟨(h.fout x (ho x hx)).1.ext e, (h.fout x (ho x hx)).2⟩,
   fun g hg => ⟨(hq g hg).1.ext e, (hq g hg).2⟩⟩

theorem Same.ext {s s' : State} (h : Same s s') (hf : s.finishedWriting = true → s'.finishedWriting = true) : Ext s s' :=
  ⟨⟨[], by simp [h.written], fun _ => rfl⟩, hf⟩

theorem finv_addOut {s1 : State} {f : Frame} (h : FInv s1) (hf : FinOk s1 f) (hlen : f.data.length ≤ maxPacketBufferSize) :
    FInv (addOut s1 f) := by
  refine ⟨fun g hg => ?_, fun e he => ?_, h.fq⟩
  · simp only [addOut, List.mem_append, List.mem_singleton] at hg
    rcases hg with hg | rfl
    · exact h.fem g hg
    · exact hf
  · simp only [addOut, List.mem_append, List.mem_singleton] at he
    rcases he with he | rfl
    · exact h.fout e he
    · exact ⟨hf, hlen⟩

/-! ### pop -/

theorem finv_pop {s : State} (hr : RInv s) (h : FInv s) (mb w : Nat) (nb : Bool) (hmb : mb ≤ maxPacketBufferSize) :
    FInv (pop s mb w nb).1 := by
  have whole : ∀ {g : Frame} {rest : List Frame}, s.retransQ = g :: rest → FInv (addOut { s with retransQ := rest } g) := by
    intro g rest hq
    have hg := h.fq g (by simp [hq])
    exact finv_addOut ⟨h.fem, h.fout, fun x hx => h.fq x (by simp [hq, hx])⟩ hg.1 hg.2
  have split : ∀ {g : Frame} {rest : List Frame}, s.retransQ = g :: rest → g.maxDataLen s.sid mb ≠ 0 → mb < g.length s.sid →
      FInv (addOut { s with retransQ := { g with data := g.data.drop (g.maxDataLen s.sid mb), offset := g.offset + g.maxDataLen s.sid mb } :: rest }
        { offset := g.offset, data := g.data.take (g.maxDataLen s.sid mb), fin := false, dataLenPresent := g.dataLenPresent }) := by
    intro g rest hq hn hfit
    obtain ⟨hgf, hgl⟩ := h.fq g (by simp [hq])
    have hlt := maxDataLen_lt_of_not_fit (Nat.le_trans hgl mpbs_le_v2) hfit hn
    refine finv_addOut ⟨h.fem, h.fout, fun x hx => ?_⟩ (fun hh => by simp at hh) (by simp only [List.length_take]; omega)
    rcases List.mem_cons.mp hx with rfl | hx
    · refine ⟨fun hfin => ?_, by simp only [List.length_drop]; omega⟩
      obtain ⟨h1, h2⟩ := hgf hfin
      exact ⟨h1, by simp only [List.length_drop]; omega⟩
    · exact h.fq x (by simp [hq, hx])
  by_cases hl : Live s
  · obtain ⟨l1, l2, _, _⟩ := hr.live hl
    have k := popInner_live s mb w nb hl hmb hr.nf
    cases k with
    | nothing h1 h2 => rw [pop_none h2, h1]; exact h
    | retransWhole g rest hq h1 h2 => rw [pop_some h2, h1]; exact whole hq
    | retransSplit g rest hq hn hfit h1 h2 => rw [pop_some h2, h1]; exact split hq hn hfit
    | finOnly hd hnf hfw hfs h1 h2 =>
      rw [pop_some h2, h1]
      have hend : s.writeOffset = s.written.length := by
        simp only [tail, nfData, hnf, nfDataOf, hd, List.append_nil] at l1
        have := List.drop_eq_nil_iff.mp l1.symm
        omega
      exact finv_addOut ⟨h.fem, h.fout, h.fq⟩ (fun _ => ⟨hfw, by simpa using hend⟩) (by simp)
    | newData f0 s1 hq hok fin hfin h1 h2 =>
      rw [pop_some h2, h1]
      obtain ⟨nf', dfw', sig', hs1, hoff, hfin0, hne, hlen, htail, hnf', hdfw⟩ := hok
      subst hs1
      have hW : s.written.drop s.writeOffset = f0.data ++ (nfDataOf nf' ++ dfw') := by rw [← l1, htail]
      have hpre : f0.data <+: s.written.drop s.writeOffset := by rw [hW]; exact List.prefix_append _ _
      have hwo : s.writeOffset + f0.data.length ≤ s.written.length := prefix_drop_length_le hpre hne
      refine finv_addOut ⟨h.fem, h.fout, h.fq⟩ (fun hf => ?_) hlen
      simp only at hf
      rw [hfin] at hf
      simp only [Bool.and_eq_true, Bool.not_eq_eq_eq_not, Bool.not_true, List.isEmpty_iff, Option.isNone_iff_eq_none] at hf
      obtain ⟨⟨⟨hfw, hd⟩, hn⟩, _⟩ := hf
      refine ⟨hfw, ?_⟩
      have htail' : nfDataOf nf' ++ dfw' = s.written.drop (s.writeOffset + f0.data.length) := by
        rw [← List.drop_drop, hW, List.drop_left]
      simp only [hd, hn, nfDataOf, List.append_nil] at htail'
      have := List.drop_eq_nil_iff.mp htail'.symm
      simp only [hoff]; omega
  · by_cases hra : RA s
    · have k := popInner_ra s mb w nb hra hmb hr.nf
      cases k with
      | nothing h1 h2 => rw [pop_none h2, h1]; exact h
      | retransWhole g rest hq h1 h2 => rw [pop_some h2, h1]; exact whole hq
      | retransSplit g rest hq h1 h2 hn hfit => rw [pop_some h2, h1]; exact split hq hn hfit
      | finOnly h1 h2 hd hnf hlt =>
        -- impossible: below the reliable offset there is always a nextFrame
        obtain ⟨nf, hn, _⟩ := (hr.ra hra).2 hlt
        rw [hnf] at hn; cases hn
      | newData f0 s1 hq hlt hok hlen hbuf fin hfin h1 h2 =>
        rw [pop_some h2, h1, hfin]
        obtain ⟨nf', dfw', sig', hs1, _, _, _, hl2, _⟩ := hok
        subst hs1
        exact finv_addOut ⟨h.fem, h.fout, h.fq⟩ (fun hh => by simp at hh) hl2
    · have := popInner_quiet s mb w nb hl hra
      have h2 : (popInner s mb w nb).2.frame = none := by rw [this]
      rw [pop_none h2, this]; exact h

theorem ext_pop_r {s : State} (h : RInv s) (mb w : Nat) (nb : Bool) (hmb : mb ≤ maxPacketBufferSize) :
    Ext s (pop s mb w nb).1 := by
  by_cases hl : Live s
  · have k := popInner_live s mb w nb hl hmb h.nf
    cases k with
    | nothing h1 h2 => rw [pop_none h2, h1]; exact Ext.refl' rfl rfl
    | retransWhole g rest hq h1 h2 => rw [pop_some h2, h1]; exact Ext.refl' rfl rfl
    | retransSplit g rest hq hn hfit h1 h2 => rw [pop_some h2, h1]; exact Ext.refl' rfl rfl
    | finOnly hd hnf hfw hfs h1 h2 => rw [pop_some h2, h1]; exact Ext.refl' rfl rfl
    | newData f0 s1 hq hok fin hfin h1 h2 =>
      obtain ⟨nf', dfw', sig', hs1, _⟩ := hok
      subst hs1
      rw [pop_some h2, h1]; exact Ext.refl' rfl rfl
  · by_cases hra : RA s
    · have k := popInner_ra s mb w nb hra hmb h.nf
      cases k with
      | nothing h1 h2 => rw [pop_none h2, h1]; exact Ext.refl' rfl rfl
      | retransWhole g rest hq h1 h2 => rw [pop_some h2, h1]; exact Ext.refl' rfl rfl
      | retransSplit g rest hq h1 h2 => rw [pop_some h2, h1]; exact Ext.refl' rfl rfl
      | finOnly h1 h2 => rw [pop_some h2, h1]; exact Ext.refl' rfl rfl
      | newData f0 s1 hq hlt hok hlen hbuf fin hfin h1 h2 =>
        obtain ⟨nf', dfw', sig', hs1, _⟩ := hok
        subst hs1
        rw [pop_some h2, h1]; exact Ext.refl' rfl rfl
    · have := popInner_quiet s mb w nb hl hra
      have h2 : (popInner s mb w nb).2.frame = none := by rw [this]
      rw [pop_none h2, this]; exact Ext.refl' rfl rfl

theorem ext_step_r {s : State} (h : RInv s) (op : Op) : Ext s (stepOp s op) := by
  have ofStable : ∀ {s' : State}, Stable s s' → Ext s s' := fun h => Ext.refl' h.written h.finishedWriting
  have ofQuiet : ∀ {s' : State}, Quiet s s' → Ext s s' := fun h => Ext.refl' h.written h.finishedWriting
  unfold stepOp
  split
  · exact Ext.refl' rfl rfl
  · cases op with
    | write p =>
      rcases writeCall_fst s p with h1 | ⟨_, c, h1⟩ | ⟨_, _, _, hf, _, h1⟩
      · simp only [h1]; exact Ext.refl' rfl rfl
      · simp only [h1]; exact Ext.refl' rfl rfl
      · simp only [h1]
        refine Ext.trans_stable ?_ (writeIter_stable _ _)
        exact ⟨⟨p, rfl, fun hfw => by simp [hf] at hfw⟩, fun hfw => by simp [hf] at hfw⟩
    | wake =>
      rcases wake_fst s with h1 | ⟨p, _, _, h1⟩
      · simp only [h1]; exact Ext.refl' rfl rfl
      · simp only [h1]; exact Ext.trans_stable (t := { s with signal := false }) (Ext.refl' rfl rfl) (writeIter_stable _ _)
    | close =>
      rcases close_fst s with h1 | ⟨_, _, cf, c, h1⟩
      · simp only [h1]; exact Ext.refl' rfl rfl
      · simp only [h1]; exact ⟨⟨[], by simp, fun _ => rfl⟩, fun _ => rfl⟩
    | pop mb w nb =>
      simp only
      split
      · rename_i hmb; exact ext_pop_r h mb w nb hmb
      · exact Ext.refl' rfl rfl
    | acked i => exact ofStable (acked_stable s i)
    | lost i => exact ofStable (lost_stable s i)
    | cancel c => exact ofQuiet (cancelWrite_spec s c).1
    | stop c => exact ofQuiet (stopSending_spec s c).1
    | shutdown => exact ofQuiet (shutdownStep_spec s).1
    | boundary => exact Ext.refl' rfl rfl
    | ctrl => exact ofStable (getControlFrame_spec s).1
    | resetAcked f =>
      simp only
      split
      · exact ofStable (resetAcked_stable s f)
      · exact Ext.refl' rfl rfl
    | resetLost f =>
      simp only
      split
      · exact ofStable (resetLost_stable s f)
      · exact Ext.refl' rfl rfl

theorem finv_of_same {s s' : State} (h : FInv s) (e : Same s s') (hf : s.finishedWriting = true → s'.finishedWriting = true) : FInv s' :=
  h.transfer (e.ext hf) e.emitted (fun x hx => e.outstanding ▸ hx) (fun g hg => h.fq g (e.retransQ ▸ hg))

theorem finv_writeIter {t : State} (p : Pending) (hnf : NfOk t) (h : FInv t) : FInv (writeIter t p).1 := by
  obtain ⟨nf', dfw', pd', cf, c, hs', _⟩ := writeIter_gen t p hnf
  rw [hs']
  exact h.transfer (Ext.refl' rfl rfl) rfl (fun x hx => hx) (fun g hg => h.fq g hg)

theorem finv_step {s : State} (hr : RInv s) (h : FInv s) (op : Op) : FInv (stepOp s op) := by
  unfold stepOp
  split
  · exact h
  · cases op with
    | write p =>
      rcases writeCall_fst s p with h1 | ⟨_, c, h1⟩ | ⟨_, _, _, hf, _, h1⟩
      · simp only [h1]; exact h
      · simp only [h1]; exact finv_of_same h (by constructor <;> rfl) (fun x => x)
      · simp only [h1]
        refine finv_writeIter _ (fun g hg => hr.nf g hg) ?_
        exact h.transfer ⟨⟨p, rfl, fun hfw => by simp [hf] at hfw⟩, fun hfw => by simp [hf] at hfw⟩ rfl (fun x hx => hx) (fun g hg => h.fq g hg)
    | wake =>
      rcases wake_fst s with h1 | ⟨p, _, _, h1⟩
      · simp only [h1]; exact h
      · simp only [h1]
        exact finv_writeIter p (fun g hg => hr.nf g hg) (finv_of_same h (by constructor <;> rfl) (fun x => x))
    | close =>
      rcases close_fst s with h1 | ⟨_, _, cf, c, h1⟩
      · simp only [h1]; exact h
      · simp only [h1]; exact finv_of_same h (by constructor <;> rfl) (fun _ => rfl)
    | pop mb w nb =>
      simp only
      split
      · rename_i hmb; exact finv_pop hr h mb w nb hmb
      · exact h
    | acked i =>
      obtain ⟨o', ar, af, no, c, d, hs', ho⟩ := acked_gen s i
      simp only [hs']
      exact h.transfer (Ext.refl' rfl rfl) rfl ho (fun g hg => h.fq g hg)
    | lost i =>
      obtain ⟨o', q', no, c, d, hs', ho, hq⟩ := lost_gen s i
      simp only [hs']
      refine h.transfer (Ext.refl' rfl rfl) rfl ho (fun g hg => ?_)
      rcases hq g hg with hg | ⟨e, he, hoff, hpre, hfin⟩
      · exact h.fq g hg
      · obtain ⟨he1, he2⟩ := h.fout e he
        refine ⟨fun hgf => ?_, Nat.le_trans hpre.length_le he2⟩
        obtain ⟨hef, hdat⟩ := hfin hgf
        rw [hoff, hdat]; exact he1 hef
    | cancel c =>
      simp only
      unfold cancelWrite
      split
      · exact h
      split
      · exact finv_of_same h (Same.trans (by constructor <;> rfl) (isNewlyCompleted_same _)) (fun x => by
          obtain ⟨c', hc⟩ := isNewlyCompleted_fst { s with cancellationFlagged := true }
          rw [hc]; exact x)
      · refine h.transfer (Ext.refl' rfl rfl) rfl (fun x hx => hx) (fun g hg => ?_)
        simp only at hg
        split at hg
        · simp at hg
        · simp only [List.mem_filterMap] at hg
          obtain ⟨g0, hg0, ht⟩ := hg
          obtain ⟨_, _, _, hle, hfin⟩ := trimFrameQ_some ht
          obtain ⟨f1, f2⟩ := h.fq g0 hg0
          exact ⟨fun hgf => by rw [hfin hgf]; exact f1 (by rw [← hfin hgf]; exact hgf), Nat.le_trans hle f2⟩
    | stop c =>
      simp only
      unfold stopSending
      split
      · exact h
      split
      · exact h
      · exact h.transfer (Ext.refl' rfl rfl) rfl (fun x hx => hx) (fun g hg => by simp at hg)
    | shutdown =>
      simp only
      unfold shutdownStep
      split
      · exact h.transfer (Ext.refl' rfl rfl) rfl (fun x hx => hx) (fun g hg => by simp at hg)
      · exact finv_of_same h (by constructor <;> rfl) (fun x => x)
    | boundary =>
      simp only [setReliableBoundary]
      exact h.transfer (Ext.refl' rfl rfl) rfl (fun x hx => hx) (fun g hg => h.fq g hg)
    | ctrl => exact finv_of_same h (getControlFrame_same s) (fun x => by rw [(getControlFrame_spec s).1.finishedWriting]; exact x)
    | resetAcked f =>
      simp only
      split
      · exact finv_of_same h (resetAcked_same s f) (fun x => by rw [(resetAcked_stable s f).finishedWriting]; exact x)
      · exact h
    | resetLost f =>
      simp only
      split
      · exact finv_of_same h (resetLost_same s f) (fun x => by rw [(resetLost_stable s f).finishedWriting]; exact x)
      · exact h

theorem finv_init (sid : Nat) (sup : Bool) : FInv (init sid sup) :=
  ⟨fun g hg => by simp [init] at hg, fun e he => by simp [init] at he, fun g hg => by simp [init] at hg⟩

theorem rf_run_from {s : State} (hr : RInv s) (hf : FInv s) (ops : List Op) (hc : NoBoundaryAfterReset s ops) :
    RInv (run s ops) ∧ FInv (run s ops) := by
  induction ops generalizing s with
  | nil => exact ⟨hr, hf⟩
  | cons op rest ih =>
    have hb : op = .boundary → s.resetErr = none := fun hop => hc [] rest (by simp [hop])
    have hc' : NoBoundaryAfterReset (stepOp s op) rest := by
      intro pre post heq
      have := hc (op :: pre) post (by simp [heq])
      simpa [run] using this
    exact ih (rinv_step hr op hb) (finv_step hr hf op) hc'

theorem faithful_of {s : State} (hr : RInv s) (hf : FInv s) : ∀ f ∈ s.emitted, Faithful s f :=
  fun f h => ⟨hr.em f h, hf.fem f h⟩

structure PipeInvF {A : Reassembler} (p : Pipe A) : Prop where
  rinv : RInv p.s
  finv : FInv p.s
  reach : Reach A p.r
  segs_emitted : ∀ x ∈ A.segs p.r, ∃ f ∈ p.s.emitted, x = segOf f
  eof : p.eofSeen = true → p.s.finishedWriting = true ∧ A.out p.r = p.s.written

theorem PipeInvF.consistent {A : Reassembler} {p : Pipe A} (h : PipeInvF p) : Consistent p.s.written (A.segs p.r) := by
  intro x hx
  obtain ⟨f, hf, rfl⟩ := h.segs_emitted x hx
  exact h.rinv.em f hf

theorem pipeInvF_step {A : Reassembler} (C : ReassemblyContract A) {p : Pipe A} (h : PipeInvF p)
    (op : PipeOp) (hb : op = .snd .boundary → p.s.resetErr = none) : PipeInvF (pipeStep p op) := by
  cases op with
  | snd o =>
    have he := ext_step_r h.rinv o
    refine ⟨rinv_step h.rinv o (fun ho => hb (by rw [ho])), finv_step h.rinv h.finv o, h.reach, fun x hx => ?_, fun heof => ?_⟩
    · obtain ⟨f, hf, hxf⟩ := h.segs_emitted x hx
      obtain ⟨l, hl⟩ := emitted_step_r h.rinv o
      exact ⟨f, by simp only [pipeStep]; rw [hl]; exact List.mem_append_left _ hf, hxf⟩
    · obtain ⟨hfw, hout⟩ := h.eof heof
      obtain ⟨⟨q, hq, hqf⟩, hfw'⟩ := he
      refine ⟨hfw' hfw, ?_⟩
      simp only [pipeStep]
      rw [hq, hqf hfw, List.append_nil]; exact hout
  | deliver k =>
    simp only [pipeStep]
    cases hk : p.s.emitted[k]? with
    | none => exact h
    | some f =>
      have hf : f ∈ p.s.emitted := List.mem_of_getElem? hk
      refine ⟨h.rinv, h.finv, .deliver _ h.reach, fun x hx => ?_, fun heof => ?_⟩
      · rcases (C.segs_deliver p.r (segOf f) h.reach x).mp hx with rfl | hx
        · exact ⟨f, hf, rfl⟩
        · exact h.segs_emitted x hx
      · simp only [C.out_deliver p.r (segOf f) h.reach]; exact h.eof heof
  | read n =>
    have hreach : Reach A (A.read p.r n).1 := .read n h.reach
    have hsegs := C.segs_read p.r n h.reach
    have hcons : Consistent p.s.written (A.segs (A.read p.r n).1) := by rw [hsegs]; exact h.consistent
    have hpre := out_prefix C hreach hcons
    refine ⟨h.rinv, h.finv, hreach, fun x hx => h.segs_emitted x (hsegs ▸ hx), fun heof => ?_⟩
    simp only [pipeStep, Bool.or_eq_true] at heof ⊢
    rcases heof with heof | heof
    · obtain ⟨hfw, hout⟩ := h.eof heof
      refine ⟨hfw, ?_⟩
      have hlen := hpre.length_le
      rw [C.out_read p.r n h.reach, hout] at hlen hpre ⊢
      simp only [List.length_append] at hlen
      have : (A.read p.r n).2.1 = [] := List.eq_nil_of_length_eq_zero (by omega)
      rw [this, List.append_nil]
    · obtain ⟨x, hx, hfin, hend⟩ := C.eof_sound p.r n h.reach heof
      obtain ⟨f, hf, rfl⟩ := h.segs_emitted x hx
      obtain ⟨hfw, hlen⟩ := h.finv.fem f hf hfin
      exact ⟨hfw, hpre.eq_of_length (by simp only [segOf] at hend; omega)⟩

theorem pipeInvF_run {A : Reassembler} (C : ReassemblyContract A) {p : Pipe A} (h : PipeInvF p)
    (ops : List PipeOp) (hc : NoBoundaryAfterReset p.s (sndOps ops)) : PipeInvF (pipeRun p ops) := by
  induction ops generalizing p with
  | nil => exact h
  | cons op rest ih =>
    have hb : op = .snd .boundary → p.s.resetErr = none := by
      intro hop
      exact hc [] (sndOps rest) (by simp [hop, sndOps])
    have hc' : NoBoundaryAfterReset (pipeStep p op).s (sndOps rest) := by
      cases op with
      | snd o =>
        intro pre post heq
        have := hc (o :: pre) post (by simp [sndOps, heq])
        simpa [run, pipeStep] using this
      | deliver k =>
        have : (pipeStep p (.deliver k)).s = p.s := by simp only [pipeStep]; split <;> rfl
        rw [this]; simpa [sndOps] using hc
      | read n => simpa [sndOps, pipeStep] using hc
    exact ih (pipeInvF_step C h op hb) hc'

theorem pipeInvF_init (A : Reassembler) (C : ReassemblyContract A) (sid : Nat) (sup : Bool) :
    PipeInvF (pipeInit A sid sup) :=
  ⟨rinv_init sid sup, finv_init sid sup, .init, fun x hx => by simp [pipeInit, C.segs_init] at hx, fun h => by simp [pipeInit] at h⟩

end Uquic.Proofs.Send
