import Uquic.Model.H3.Transport

/-!
Helper lemmas for Uquic.Props.C18Transport: the connection-cache model of http3.Transport.

* projections of the basic state transformers (`@[simp]`),
* `Good` (both checks on, no request has panicked) is preserved by every transformer up to `run`,
* `Frame j t t'` (`t'` differs from `t` only in entries, clients and request `j`) for `advance`,
* the invariant behind `closed_transport_refuses`.
-/
namespace Uquic.Model.H3.Transport
namespace T

/-! ### projections of the basic transformers -/

section proj
variable (t : T) (i k h : Nat) (e : Entry) (r : Req) (o : Outcome)

@[simp] theorem setE_chk : (t.setE k e).chk = t.chk := rfl
@[simp] theorem setE_rtChk : (t.setE k e).rtChk = t.rtChk := rfl
@[simp] theorem setE_closed : (t.setE k e).closed = t.closed := rfl
@[simp] theorem setE_stepNo : (t.setE k e).stepNo = t.stepNo := rfl
@[simp] theorem setE_reqs : (t.setE k e).reqs = t.reqs := rfl
@[simp] theorem setE_clients : (t.setE k e).clients = t.clients := rfl
@[simp] theorem setE_entries : (t.setE k e).entries = t.entries.set k e := rfl
@[simp] theorem setE_getR : (t.setE k e).getR i = t.getR i := rfl
@[simp] theorem setE_lookup : (t.setE k e).lookup h = t.lookup h := rfl

@[simp] theorem setR_chk : (t.setR i r).chk = t.chk := rfl
@[simp] theorem setR_rtChk : (t.setR i r).rtChk = t.rtChk := rfl
@[simp] theorem setR_closed : (t.setR i r).closed = t.closed := rfl
@[simp] theorem setR_stepNo : (t.setR i r).stepNo = t.stepNo := rfl
@[simp] theorem setR_reqs : (t.setR i r).reqs = t.reqs.set i r := rfl
@[simp] theorem setR_clients : (t.setR i r).clients = t.clients := rfl
@[simp] theorem setR_entries : (t.setR i r).entries = t.entries := rfl
@[simp] theorem setR_getE : (t.setR i r).getE k = t.getE k := rfl
@[simp] theorem setR_lookup : (t.setR i r).lookup h = t.lookup h := rfl

@[simp] theorem dropClient_chk : (t.dropClient h).chk = t.chk := rfl
@[simp] theorem dropClient_rtChk : (t.dropClient h).rtChk = t.rtChk := rfl
@[simp] theorem dropClient_closed : (t.dropClient h).closed = t.closed := rfl
@[simp] theorem dropClient_stepNo : (t.dropClient h).stepNo = t.stepNo := rfl
@[simp] theorem dropClient_reqs : (t.dropClient h).reqs = t.reqs := rfl
@[simp] theorem dropClient_entries : (t.dropClient h).entries = t.entries := rfl
@[simp] theorem dropClient_getR : (t.dropClient h).getR i = t.getR i := rfl
@[simp] theorem dropClient_getE : (t.dropClient h).getE k = t.getE k := rfl

@[simp] theorem putClient_chk : (t.putClient h k).chk = t.chk := rfl
@[simp] theorem putClient_rtChk : (t.putClient h k).rtChk = t.rtChk := rfl
@[simp] theorem putClient_closed : (t.putClient h k).closed = t.closed := rfl
@[simp] theorem putClient_stepNo : (t.putClient h k).stepNo = t.stepNo := rfl
@[simp] theorem putClient_reqs : (t.putClient h k).reqs = t.reqs := rfl
@[simp] theorem putClient_entries : (t.putClient h k).entries = t.entries := rfl
@[simp] theorem putClient_getR : (t.putClient h k).getR i = t.getR i := rfl

@[simp] theorem incUse_chk : (t.incUse k).chk = t.chk := rfl
@[simp] theorem incUse_rtChk : (t.incUse k).rtChk = t.rtChk := rfl
@[simp] theorem incUse_closed : (t.incUse k).closed = t.closed := rfl
@[simp] theorem incUse_stepNo : (t.incUse k).stepNo = t.stepNo := rfl
@[simp] theorem incUse_reqs : (t.incUse k).reqs = t.reqs := rfl
@[simp] theorem incUse_clients : (t.incUse k).clients = t.clients := rfl
@[simp] theorem incUse_getR : (t.incUse k).getR i = t.getR i := rfl

@[simp] theorem decUse_chk : (t.decUse k).chk = t.chk := rfl
@[simp] theorem decUse_rtChk : (t.decUse k).rtChk = t.rtChk := rfl
@[simp] theorem decUse_closed : (t.decUse k).closed = t.closed := rfl
@[simp] theorem decUse_stepNo : (t.decUse k).stepNo = t.stepNo := rfl
@[simp] theorem decUse_reqs : (t.decUse k).reqs = t.reqs := rfl
@[simp] theorem decUse_clients : (t.decUse k).clients = t.clients := rfl
@[simp] theorem decUse_getR : (t.decUse k).getR i = t.getR i := rfl

@[simp] theorem finish_chk : (t.finish i o).chk = t.chk := rfl
@[simp] theorem finish_rtChk : (t.finish i o).rtChk = t.rtChk := rfl
@[simp] theorem finish_closed : (t.finish i o).closed = t.closed := rfl
@[simp] theorem finish_stepNo : (t.finish i o).stepNo = t.stepNo := rfl
@[simp] theorem finish_clients : (t.finish i o).clients = t.clients := rfl
@[simp] theorem finish_entries : (t.finish i o).entries = t.entries := rfl
@[simp] theorem finish_lookup : (t.finish i o).lookup h = t.lookup h := rfl

@[simp] theorem expireLost_chk : t.expireLost.chk = t.chk := rfl
@[simp] theorem expireLost_rtChk : t.expireLost.rtChk = t.rtChk := rfl
@[simp] theorem expireLost_closed : t.expireLost.closed = t.closed := rfl
@[simp] theorem expireLost_stepNo : t.expireLost.stepNo = t.stepNo := rfl
@[simp] theorem expireLost_reqs : t.expireLost.reqs = t.reqs := rfl
@[simp] theorem expireLost_getR : t.expireLost.getR i = t.getR i := rfl

end proj

/-- `resolveNew` only ever rewrites one entry -/
theorem resolveNew_eq (t : T) (k : Nat) : t.resolveNew k = t ∨ ∃ e, t.resolveNew k = t.setE k e := by
  unfold resolveNew
  dsimp only
  split
  · exact .inr ⟨_, rfl⟩
  · exact .inr ⟨_, rfl⟩
  · split
    · exact .inr ⟨_, rfl⟩
    · exact .inl rfl
  · split
    · exact .inr ⟨_, rfl⟩
    · exact .inl rfl
  · exact .inl rfl
  · exact .inl rfl

section proj2
variable (t : T) (i k h : Nat)
@[simp] theorem resolveNew_chk : (t.resolveNew k).chk = t.chk := by
  rcases t.resolveNew_eq k with h | ⟨e, h⟩ <;> rw [h] <;> rfl
@[simp] theorem resolveNew_rtChk : (t.resolveNew k).rtChk = t.rtChk := by
  rcases t.resolveNew_eq k with h | ⟨e, h⟩ <;> rw [h] <;> rfl
@[simp] theorem resolveNew_closed : (t.resolveNew k).closed = t.closed := by
  rcases t.resolveNew_eq k with h | ⟨e, h⟩ <;> rw [h] <;> rfl
@[simp] theorem resolveNew_stepNo : (t.resolveNew k).stepNo = t.stepNo := by
  rcases t.resolveNew_eq k with h | ⟨e, h⟩ <;> rw [h] <;> rfl
@[simp] theorem resolveNew_reqs : (t.resolveNew k).reqs = t.reqs := by
  rcases t.resolveNew_eq k with h | ⟨e, h⟩ <;> rw [h] <;> rfl
@[simp] theorem resolveNew_clients : (t.resolveNew k).clients = t.clients := by
  rcases t.resolveNew_eq k with h | ⟨e, h⟩ <;> rw [h] <;> rfl
@[simp] theorem resolveNew_getR : (t.resolveNew k).getR i = t.getR i := by
  rcases t.resolveNew_eq k with h | ⟨e, h⟩ <;> rw [h] <;> rfl
@[simp] theorem resolveNew_lookup : (t.resolveNew k).lookup h = t.lookup h := by
  rcases t.resolveNew_eq k with h' | ⟨e, h'⟩ <;> rw [h'] <;> rfl
@[simp] theorem resolveNew_entries_length : (t.resolveNew k).entries.length = t.entries.length := by
  rcases t.resolveNew_eq k with h | ⟨e, h⟩ <;> rw [h] <;> simp
end proj2

/-! ### requests by index -/

theorem getR_setR (t : T) (i n : Nat) (r : Req) :
    (t.setR i r).getR n = if i = n ∧ n < t.reqs.length then r else t.getR n := by
  simp only [getR, setR, List.getD_eq_getElem?_getD, List.getElem?_set]
  by_cases h : i = n
  · subst h
    by_cases h2 : i < t.reqs.length <;> simp [h2]
  · simp [h]

theorem getR_setR_ne (t : T) {i n : Nat} (r : Req) (h : n ≠ i) : (t.setR i r).getR n = t.getR n := by
  rw [getR_setR]; simp [Ne.symm h]

theorem getR_finish_ne (t : T) {i n : Nat} (o : Outcome) (h : n ≠ i) : (t.finish i o).getR n = t.getR n :=
  getR_setR_ne t _ h

theorem getR_setR_self (t : T) {i : Nat} (r : Req) (h : i < t.reqs.length) : (t.setR i r).getR i = r := by
  rw [getR_setR]; simp [h]

theorem getR_finish_self_phase (t : T) {i : Nat} (o : Outcome) (h : i < t.reqs.length) :
    ((t.finish i o).getR i).phase = .done o t.stepNo := by
  unfold T.finish
  rw [getR_setR_self _ _ h]

/-- `getR` is an element of `reqs`, or the default request (which is at `start`) -/
theorem getR_mem_or (t : T) (i : Nat) : t.getR i ∈ t.reqs ∨ t.getR i = {} := by
  simp only [getR, List.getD_eq_getElem?_getD]
  by_cases h : i < t.reqs.length
  · left; simp [h]
  · right; simp [List.getElem?_eq_none (Nat.le_of_not_lt h)]

/-- overwriting a request without changing its phase keeps the phase of every request -/
theorem getR_setR_phase (t : T) (i n : Nat) (r : Req) (hr : r.phase = (t.getR i).phase) :
    ((t.setR i r).getR n).phase = (t.getR n).phase := by
  rw [getR_setR]
  split
  · next h => rw [hr, h.1]
  · rfl

/-! ### `Good`: both checks on and no request has panicked -/

def OkPhase (p : Phase) : Prop := ∀ s, p ≠ .done .panic s
def NoPanicL (l : List Req) : Prop := ∀ r ∈ l, OkPhase r.phase
def Good (t : T) : Prop := t.chk = true ∧ t.rtChk = true ∧ NoPanicL t.reqs

theorem okPhase_start : OkPhase .start := fun _ h => by cases h
theorem okPhase_waitDial (k : Nat) : OkPhase (.waitDial k) := fun _ h => by cases h
theorem okPhase_inRT (k : Nat) : OkPhase (.inRT k) := fun _ h => by cases h
theorem okPhase_done {o : Outcome} (s : Nat) (h : o ≠ .panic) : OkPhase (.done o s) :=
  fun _ h' => by cases h'; exact h rfl

theorem Good.of_eq {t t' : T} (h : Good t) (h1 : t'.chk = t.chk) (h2 : t'.rtChk = t.rtChk)
    (h3 : t'.reqs = t.reqs) : Good t' := by
  unfold Good; rw [h1, h2, h3]; exact h

theorem Good.getR {t : T} (h : Good t) (i : Nat) : OkPhase (t.getR i).phase := by
  rcases t.getR_mem_or i with hm | hd
  · exact h.2.2 _ hm
  · rw [hd]; exact okPhase_start

theorem Good.setR {t : T} (h : Good t) (i : Nat) {r : Req} (hr : OkPhase r.phase) : Good (t.setR i r) := by
  refine ⟨h.1, h.2.1, ?_⟩
  intro x hx
  rcases List.mem_or_eq_of_mem_set hx with hx | hx
  · exact h.2.2 x hx
  · rw [hx]; exact hr

theorem Good.finish {t : T} (h : Good t) (i : Nat) {o : Outcome} (ho : o ≠ .panic) : Good (t.finish i o) :=
  h.setR i (okPhase_done _ ho)

theorem Good.setE {t : T} (h : Good t) (k : Nat) (e : Entry) : Good (t.setE k e) := h
theorem Good.dropClient {t : T} (h : Good t) (x : Nat) : Good (t.dropClient x) := h
theorem Good.putClient {t : T} (h : Good t) (x k : Nat) : Good (t.putClient x k) := h
theorem Good.incUse {t : T} (h : Good t) (k : Nat) : Good (t.incUse k) := h
theorem Good.decUse {t : T} (h : Good t) (k : Nat) : Good (t.decUse k) := h
theorem Good.expireLost {t : T} (h : Good t) : Good t.expireLost := h
theorem Good.resolveNew {t : T} (h : Good t) (k : Nat) : Good (t.resolveNew k) :=
  h.of_eq (by simp) (by simp) (by simp)

theorem Good.staleEntry {t : T} (h : Good t) (i x : Nat) (e : Err) : Good (t.staleEntry i x e) := by
  unfold T.staleEntry
  rw [h.1]
  exact (h.dropClient x).finish i (by simp)

theorem Good.dialFailed {t : T} (h : Good t) (i x : Nat) (e : Err) : Good (t.dialFailed i x e) := by
  unfold T.dialFailed
  rw [h.2.1]
  exact (h.dropClient x).finish i (by simp)

theorem Good.getClient {t : T} (h : Good t) (i : Nat) : Good (t.getClient i) := by
  unfold T.getClient
  dsimp only
  split
  · exact h.finish i (by simp)
  · split
    · split
      · exact h.finish i (by simp)
      · apply Good.resolveNew
        apply Good.setR _ _ (okPhase_waitDial _)
        apply Good.putClient
        exact h
    · split
      · exact h.staleEntry _ _ _
      · exact (h.incUse _).setR _ (okPhase_waitDial _)
      · exact (h.incUse _).setR _ (okPhase_waitDial _)

theorem Good.enterRT {t : T} (h : Good t) (i k : Nat) (alive : Bool) : Good (t.enterRT i k alive) := by
  unfold T.enterRT
  dsimp only
  split
  · split
    · exact (h.decUse k).finish i (by simp)
    · exact h.setR _ (okPhase_inRT _)
  · split
    · exact (h.decUse k).finish i (by simp)
    · exact ((h.decUse k).dropClient _).setR _ okPhase_start

theorem Good.advance {t : T} (h : Good t) (i : Nat) : Good (t.advance i) := by
  unfold T.advance
  dsimp only
  split
  · exact h
  · exact h.getClient i
  · split
    · exact h.finish i (by simp)
    · split
      · exact h
      · exact h.dialFailed _ _ _
      · exact h.enterRT _ _ _
  · split
    · exact (h.decUse _).finish i (by simp)
    · split
      · split
        · exact (h.decUse _).finish i (by simp)
        · exact h
      · split
        · exact (h.decUse _).finish i (by simp)
        · exact ((h.decUse _).dropClient _).finish i (by simp)

theorem foldl_inv {α β : Type} (P : α → Prop) (f : α → β → α) (hf : ∀ a b, P a → P (f a b)) :
    ∀ (l : List β) (a : α), P a → P (l.foldl f a) := by
  intro l
  induction l with
  | nil => intro a h; exact h
  | cons b l ih => intro a h; exact ih _ (hf a b h)

theorem Good.pass {t : T} (h : Good t) : Good t.pass :=
  foldl_inv Good T.advance (fun _ i ha => ha.advance i) _ _ h

theorem Good.settle {t : T} (h : Good t) : Good t.settle :=
  h.pass.pass.pass.pass.pass.pass.pass.pass

/-- `killCtx` keeps the phase of every request -/
theorem killCtx_getR_phase (t : T) (i n : Nat) (e : Err) : ((t.killCtx i e).getR n).phase = (t.getR n).phase := by
  unfold T.killCtx
  split
  · rfl
  · exact getR_setR_phase t i n _ rfl

theorem Good.killCtx {t : T} (h : Good t) (i : Nat) (e : Err) : Good (t.killCtx i e) := by
  unfold T.killCtx
  split
  · exact h
  · exact h.setR i (r := { t.getR i with ctxDead := some e }) (h.getR i)

theorem Good.actReq {t : T} (h : Good t) (x : Nat) (g : Option Nat) (c oc : Bool) : Good (t.actReq x g c oc) := by
  unfold T.actReq
  dsimp only
  have h1 : Good { t with reqs := t.reqs ++ [{ host := x, gate := g, c := c, oc := oc }] } := by
    refine ⟨h.1, h.2.1, ?_⟩
    intro r hr
    rcases List.mem_append.1 hr with hr | hr
    · exact h.2.2 r hr
    · rw [List.mem_singleton.1 hr]; exact okPhase_start
  apply Good.settle
  apply Good.expireLost
  split
  · exact (h1.settle.killCtx _ _).settle
  · exact h1.settle

theorem Good.actRel {t : T} (h : Good t) (k : Nat) : Good (t.actRel k) := by
  unfold T.actRel
  dsimp only
  have h1 : Good { t with released := t.released ++ [k] } := h
  apply Good.settle
  split
  · split
    · exact h1.setE _ _
    · exact h1.setE _ _
    · exact h1
  · exact h1

theorem Good.actKill {t : T} (h : Good t) (k : Nat) : Good (t.actKill k) := by
  unfold T.actKill
  dsimp only
  apply Good.settle
  split
  · exact h.setE _ _
  · exact h

theorem Good.closeAll {t : T} (h : Good t) (l : List (Nat × Nat)) :
    Good (l.foldl (fun (a : T) p => a.setE p.2 (closeEntry (a.getE p.2))) t) :=
  foldl_inv Good _ (fun _ _ ha => ha.setE _ _) _ _ h

theorem Good.actIdle {t : T} (h : Good t) : Good t.actIdle := by
  unfold T.actIdle
  dsimp only
  apply Good.settle
  exact h.closeAll _

theorem Good.actClose {t : T} (h : Good t) : Good t.actClose := by
  unfold T.actClose
  dsimp only
  apply Good.settle
  exact h.closeAll _

theorem Good.act {t : T} (h : Good t) (s : Step) : Good (t.act s) := by
  cases s with
  | req x g c oc => exact h.actReq x g c oc
  | cancel i =>
    show Good (if i < t.reqs.length then (t.killCtx i .canceled).settle else t)
    split
    · exact (h.killCtx _ _).settle
    · exact h
  | «open» g =>
    have h1 : Good { t with gates := t.gates ++ [g] } := h
    exact h1.settle
  | rel k => exact h.actRel k
  | kill k => exact h.actKill k
  | idle => exact h.actIdle
  | close => exact h.actClose

theorem Good.step {t : T} (h : Good t) (s : Step) : Good (t.step s) := h.act s

theorem Good.run {t : T} (h : Good t) (ss : List Step) : Good (t.run ss) :=
  foldl_inv Good T.step (fun _ s ha => ha.step s) _ _ h

theorem Good.outcomes {t : T} (h : Good t) : ∀ o ∈ t.outcomes, o ≠ some .panic := by
  intro o ho
  unfold T.outcomes at ho
  rcases List.mem_map.1 ho with ⟨r, hr, rfl⟩
  have := h.2.2 r hr
  split
  · next o s hp => intro hh; cases hh; exact this s hp
  · intro hh; cases hh

theorem good_init (plans : List Plan) : Good { chk := true, rtChk := true, plans := plans } :=
  ⟨rfl, rfl, fun _ hr => by cases hr⟩

/-! ### the client map -/

theorem lookup_dropClient (t : T) (h : Nat) : (t.dropClient h).lookup h = none := by
  simp only [lookup, dropClient, List.find?_filter, Option.map_eq_none_iff, List.find?_eq_none]
  intro x _
  simp

theorem lookup_putClient (t : T) (h k : Nat) : (t.putClient h k).lookup h = some k := by
  have h0 : List.find? (fun p => p.1 == h) (List.filter (fun p => p.1 != h) t.clients) = none := by
    simp only [List.find?_filter, List.find?_eq_none]
    intro x _
    simp
  simp [lookup, putClient, List.find?_append, h0]

theorem getClient_stale (t : T) (i k : Nat) (e : Err) (hc : t.chk = true) (hcl : t.closed = false)
    (hl : t.lookup (t.getR i).host = some k) (hs : (t.getE k).st = .failed e) :
    t.getClient i = (t.dropClient (t.getR i).host).finish i (.err e) := by
  unfold T.getClient
  simp only [hcl, hl, hs, T.staleEntry, hc]
  simp

theorem getClient_uncached (t : T) (i : Nat) (hcl : t.closed = false) (hl : t.lookup (t.getR i).host = none)
    (hoc : (t.getR i).oc = false) :
    ∃ (t1 : T) (r : Req), t1.entries.length = t.entries.length + 1 ∧
      t.getClient i = ((t1.putClient (t.getR i).host t.entries.length).setR i r).resolveNew t.entries.length := by
  unfold T.getClient
  simp only [hcl, hl, hoc]
  exact ⟨_, _, by simp, rfl⟩

/-! ### `Frame j t t'`: `t'` differs from `t` only in entries, clients and request `j` -/

structure Frame (j : Nat) (t t' : T) : Prop where
  closed : t'.closed = t.closed
  stepNo : t'.stepNo = t.stepNo
  len : t'.reqs.length = t.reqs.length
  other : ∀ n, n ≠ j → t'.getR n = t.getR n

theorem Frame.refl (j : Nat) (t : T) : Frame j t t := ⟨rfl, rfl, rfl, fun _ _ => rfl⟩

theorem advance_frame (t : T) (j : Nat) : Frame j t (t.advance j) := by
  unfold T.advance T.getClient T.staleEntry T.dialFailed T.enterRT
  dsimp only
  repeat' split
  all_goals
    constructor
    · simp
    · simp
    · simp [T.finish]
    · intro n hn
      simp [getR_setR_ne _ _ hn, getR_finish_ne _ _ hn]
      try rfl

theorem advance_done (t : T) (j : Nat) {o : Outcome} {s : Nat} (h : (t.getR j).phase = .done o s) :
    t.advance j = t := by
  simp only [T.advance, h]

theorem advance_start_closed (t : T) (j : Nat) (hcl : t.closed = true) (h : (t.getR j).phase = .start) :
    t.advance j = t.finish j (.err .closed) := by
  simp only [T.advance, h, T.getClient, hcl, if_true]

/-! ### a closed Transport refuses -/

/-- request `n` (the last one) of a closed Transport has not moved yet, or has been refused -/
def Refusing (n s0 : Nat) (t : T) : Prop :=
  t.closed = true ∧ t.stepNo = s0 ∧ t.reqs.length = n + 1 ∧
    ((t.getR n).phase = .start ∨ (t.getR n).phase = .done (.err .closed) s0)

/-- request `n` (the last one) of a closed Transport has been refused -/
def Refused (n s0 : Nat) (t : T) : Prop :=
  t.closed = true ∧ t.stepNo = s0 ∧ t.reqs.length = n + 1 ∧ (t.getR n).phase = .done (.err .closed) s0

theorem Refused.refusing {n s0 : Nat} {t : T} (h : Refused n s0 t) : Refusing n s0 t :=
  ⟨h.1, h.2.1, h.2.2.1, .inr h.2.2.2⟩

theorem Refused.advance {n s0 : Nat} {t : T} (h : Refused n s0 t) (j : Nat) : Refused n s0 (t.advance j) := by
  by_cases hj : j = n
  · subst hj; rw [advance_done t j h.2.2.2]; exact h
  · have f := advance_frame t j
    exact ⟨f.closed.trans h.1, f.stepNo.trans h.2.1, f.len.trans h.2.2.1, by rw [f.other n (Ne.symm hj)]; exact h.2.2.2⟩

theorem Refusing.advance_self {n s0 : Nat} {t : T} (h : Refusing n s0 t) : Refused n s0 (t.advance n) := by
  rcases h.2.2.2 with hp | hp
  · rw [advance_start_closed t n h.1 hp]
    refine ⟨h.1, h.2.1, by simpa [T.finish] using h.2.2.1, ?_⟩
    rw [getR_finish_self_phase t _ (by rw [h.2.2.1]; exact Nat.lt_succ_self n), h.2.1]
  · exact Refused.advance ⟨h.1, h.2.1, h.2.2.1, hp⟩ n

theorem Refusing.advance {n s0 : Nat} {t : T} (h : Refusing n s0 t) (j : Nat) : Refusing n s0 (t.advance j) := by
  by_cases hj : j = n
  · subst hj; exact h.advance_self.refusing
  · have f := advance_frame t j
    exact ⟨f.closed.trans h.1, f.stepNo.trans h.2.1, f.len.trans h.2.2.1, by rw [f.other n (Ne.symm hj)]; exact h.2.2.2⟩

theorem Refused.foldl {n s0 : Nat} (l : List Nat) {t : T} (h : Refused n s0 t) : Refused n s0 (l.foldl T.advance t) :=
  foldl_inv (Refused n s0) T.advance (fun _ j ha => ha.advance j) _ _ h

theorem Refusing.foldl {n s0 : Nat} : ∀ (l : List Nat) {t : T}, n ∈ l → Refusing n s0 t →
    Refused n s0 (l.foldl T.advance t) := by
  intro l
  induction l with
  | nil => intro t hm; cases hm
  | cons j l ih =>
    intro t hm h
    rw [List.foldl_cons]
    by_cases hj : j = n
    · subst hj; exact h.advance_self.foldl l
    · rcases List.mem_cons.1 hm with hm | hm
      · exact absurd hm.symm hj
      · exact ih hm (h.advance j)

theorem Refusing.pass {n s0 : Nat} {t : T} (h : Refusing n s0 t) : Refused n s0 t.pass := by
  unfold T.pass
  exact Refusing.foldl _ (by rw [h.2.2.1]; exact List.mem_range.2 (Nat.lt_succ_self n)) h

theorem Refused.pass {n s0 : Nat} {t : T} (h : Refused n s0 t) : Refused n s0 t.pass := h.foldl _

theorem Refused.settle {n s0 : Nat} {t : T} (h : Refused n s0 t) : Refused n s0 t.settle :=
  h.pass.pass.pass.pass.pass.pass.pass.pass

theorem Refusing.settle {n s0 : Nat} {t : T} (h : Refusing n s0 t) : Refused n s0 t.settle :=
  h.pass.pass.pass.pass.pass.pass.pass.pass

theorem Refused.killCtx {n s0 : Nat} {t : T} (h : Refused n s0 t) (i : Nat) (e : Err) :
    Refused n s0 (t.killCtx i e) := by
  refine ⟨?_, ?_, ?_, by rw [killCtx_getR_phase]; exact h.2.2.2⟩
  · unfold T.killCtx; split <;> exact h.1
  · unfold T.killCtx; split <;> exact h.2.1
  · unfold T.killCtx; split
    · exact h.2.2.1
    · simpa using h.2.2.1

theorem Refused.expireLost {n s0 : Nat} {t : T} (h : Refused n s0 t) : Refused n s0 t.expireLost := h

theorem actReq_refused (t : T) (x : Nat) (g : Option Nat) (c oc : Bool) (hcl : t.closed = true) :
    Refused t.reqs.length t.stepNo (t.actReq x g c oc) := by
  unfold T.actReq
  dsimp only
  have h1 : Refusing t.reqs.length t.stepNo { t with reqs := t.reqs ++ [{ host := x, gate := g, c := c, oc := oc }] } := by
    refine ⟨hcl, rfl, by simp, .inl ?_⟩
    simp [T.getR, List.getD_eq_getElem?_getD]
  apply Refused.settle
  apply Refused.expireLost
  split
  · exact (h1.settle.killCtx _ _).settle
  · exact h1.settle

end T
end Uquic.Model.H3.Transport
