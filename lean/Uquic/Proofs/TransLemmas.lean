/-
Lemmas shared by the tie theorems `…_model_is_source` (Uquic.Props.Trans*): the prelude operators of the
translator (Uquic/Trans/Prelude.lean) against the forms the hand-written models use, and a tactic that
normalises Go's truncated division on non-negative operands.
-/
import Uquic.Trans.Prelude
import Uquic.Model.Crypto.PN

namespace Uquic.Proofs.Trans
open Uquic.Trans

/-- closes `model = translated` goals whose two sides are nested `if`s over linear integer arithmetic -/
macro "tie_arith" : tactic => `(tactic| (
  (try dsimp only)
  all_goals (try simp only [Int.reduceToNat, Int.reducePow, Nat.reducePow, Int.reduceMul, Nat.reduceMul, Int.reduceAdd, Nat.reduceAdd,
    Int.reduceSub, Nat.reduceSub, Int.reduceDiv, Nat.reduceDiv, Int.reduceNeg, Int.cast_ofNat_Int])
  all_goals (repeat' split) <;> first | omega | (simp_all <;> omega) | (simp_all; done)))

/-- Go's truncated `/` and `%` are the Euclidean ones on a non-negative dividend (side goals by `omega`,
    products of non-negative factors included) -/
macro "tdiv_norm" : tactic => `(tactic| try
  simp (disch := first | omega | (apply Int.mul_nonneg <;> omega) | (apply Int.natCast_nonneg) | (apply Int.le_of_lt; apply Int.pow_pos; decide)) only
    [Int.tdiv_eq_ediv_of_nonneg, Int.tmod_eq_emod_of_nonneg])

macro "tdiv_norm" "at" h:ident : tactic => `(tactic| try
  simp (disch := first | omega | (apply Int.mul_nonneg <;> omega) | (apply Int.natCast_nonneg) | (apply Int.le_of_lt; apply Int.pow_pos; decide)) only
    [Int.tdiv_eq_ediv_of_nonneg, Int.tmod_eq_emod_of_nonneg] at $h:ident)

/-- closes `model = translated` goals between `Bool`-valued functions built from comparisons, `&&`, `||`, `!`, `if` -/
macro "bool_tie" : tactic => `(tactic| (
  (try dsimp only)
  all_goals rw [Bool.eq_iff_iff]
  all_goals (
    (repeat' split) <;>
    (try simp only [Bool.and_eq_true, Bool.or_eq_true, Bool.not_eq_true', Bool.not_eq_eq_eq_not, decide_eq_true_eq,
      decide_eq_false_iff_not, Bool.true_eq_false, Bool.false_eq_true, ne_eq, true_iff, iff_true, false_iff, iff_false,
      true_and, and_true, false_and, and_false, true_or, or_true, false_or, or_false, not_true_eq_false,
      not_false_eq_true, eq_self] at *) <;>
    first | omega | (simp_all <;> omega) | (simp_all; done))))

theorem emod_le_self (a p : Int) (ha : 0 ≤ a) (hp : 0 < p) : a % p ≤ a := by
  have := Int.emod_def a p
  have h1 : 0 ≤ a / p := Int.ediv_nonneg ha (Int.le_of_lt hp)
  have h2 : 0 ≤ p * (a / p) := Int.mul_nonneg (Int.le_of_lt hp) h1
  omega

/-- Go's `/` and `%` of two non-negative quantities, whatever the syntactic form of the dividend `x`: use as
    `rw [tdiv_cast _ D b ?_]`, the side goal `x = ↑D` is linear -/
theorem tdiv_cast (x : Int) (D b : Nat) (h : x = (D : Int)) : Int.tdiv x (b : Int) = ((D / b : Nat) : Int) := by
  subst h; rw [Int.tdiv_eq_ediv_of_nonneg (Int.natCast_nonneg _)]; exact (Int.natCast_ediv _ _).symm

theorem tmod_cast (x : Int) (D b : Nat) (h : x = (D : Int)) : Int.tmod x (b : Int) = ((D % b : Nat) : Int) := by
  subst h; rw [Int.tmod_eq_emod_of_nonneg (Int.natCast_nonneg _)]; exact Int.ofNat_mod_ofNat D b

theorem clearlow_nonneg (e k : Int) (h : 0 ≤ e) : 0 ≤ clearlow e k := by
  unfold clearlow
  have hp : (0 : Int) < 2 ^ k.toNat := Int.pow_pos (by decide)
  have := emod_le_self e _ h hp
  omega

theorem shl_one (k : Nat) : shl 1 (k : Int) = 2 ^ k := by
  simp [shl]

/-- `(e &^ (2^k-1)) | t` as the translator writes it equals the Nat bit expression of the C05 model -/
theorem bor_clearlow (k : Nat) (e t : Int) (he : 0 ≤ e) :
    bor (clearlow e (k : Int)) t = Uquic.Model.PN.candidateBits k e t := by
  unfold bor clearlow Uquic.Model.PN.candidateBits
  obtain ⟨n, rfl⟩ := Int.eq_ofNat_of_zero_le he
  have h1 : (((n : Int) - (n : Int) % 2 ^ (k : Int).toNat).toNat) = (n >>> k) <<< k := by
    rw [Nat.shiftRight_eq_div_pow, Nat.shiftLeft_eq, Int.toNat_natCast]
    have hp : ((2 : Int) ^ k) = ((2 ^ k : Nat) : Int) := by push_cast; rfl
    rw [hp, Int.ofNat_mod_ofNat]
    have h2 : n % 2 ^ k ≤ n := Nat.mod_le _ _
    have h3 := Nat.div_add_mod n (2 ^ k)
    have h4 : n / 2 ^ k * 2 ^ k = n - n % 2 ^ k := by
      rw [Nat.mul_comm]; omega
    omega
  simp only [Int.ofNat_eq_natCast, Int.toNat_natCast] at h1 ⊢
  rw [h1]

end Uquic.Proofs.Trans
