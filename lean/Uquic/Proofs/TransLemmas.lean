/-
Lemmas shared by the tie theorems `…_model_is_source` (Uquic.Props.Trans*): the prelude operators of the
translator (Uquic/Trans/Prelude.lean) against the forms the hand-written models use, and a tactic that
normalises Go's truncated division on non-negative operands.
-/
import Uquic.Trans.Prelude
import Uquic.Model.Crypto.PN

namespace Uquic.Proofs.Trans
open Uquic.Trans

/-- closes `model = translated` goals whose two sides are nested `if`s over linear integer arithmetic -/
macro "tie_arith" : tactic => `(tactic| (
  (try dsimp only)
  (try simp only [Int.reduceToNat, Int.reducePow, Nat.reducePow, Int.reduceMul, Nat.reduceMul, Int.reduceAdd, Nat.reduceAdd])
  (repeat' split) <;> first | omega | (simp_all <;> omega) | (simp_all; done)))

theorem emod_le_self (a p : Int) (ha : 0 ≤ a) (hp : 0 < p) : a % p ≤ a := by
  have := Int.emod_def a p
  have h1 : 0 ≤ a / p := Int.ediv_nonneg ha (Int.le_of_lt hp)
  have h2 : 0 ≤ p * (a / p) := Int.mul_nonneg (Int.le_of_lt hp) h1
  omega

theorem shl_one (k : Nat) : shl 1 (k : Int) = 2 ^ k := by
  simp [shl]

/-- `(e &^ (2^k-1)) | t` as the translator writes it equals the Nat bit expression of the C05 model -/
theorem bor_clearlow (k : Nat) (e t : Int) (he : 0 ≤ e) :
    bor (clearlow e (k : Int)) t = Uquic.Model.PN.candidateBits k e t := by
  unfold bor clearlow Uquic.Model.PN.candidateBits
  obtain ⟨n, rfl⟩ := Int.eq_ofNat_of_zero_le he
  have h1 : (((n : Int) - (n : Int) % 2 ^ (k : Int).toNat).toNat) = (n >>> k) <<< k := by
    rw [Nat.shiftRight_eq_div_pow, Nat.shiftLeft_eq, Int.toNat_natCast]
    have hp : ((2 : Int) ^ k) = ((2 ^ k : Nat) : Int) := by push_cast; rfl
    rw [hp, Int.ofNat_mod_ofNat]
    have h2 : n % 2 ^ k ≤ n := Nat.mod_le _ _
    have h3 := Nat.div_add_mod n (2 ^ k)
    have h4 : n / 2 ^ k * 2 ^ k = n - n % 2 ^ k := by
      rw [Nat.mul_comm]; omega
    omega
  simp only [Int.ofNat_eq_natCast, Int.toNat_natCast] at h1 ⊢
  rw [h1]

end Uquic.Proofs.Trans
