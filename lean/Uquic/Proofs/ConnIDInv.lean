/-
Invariant of the connection ID manager model and the per-step ledger
specification (who is in use, who is retired, who may never come back).
-/
import Uquic.Proofs.ConnIDQueue

namespace Uquic.Proofs.ConnID
open Uquic.Model.ConnID

def qSeqs (m : Manager) : List Nat := m.queue.map (·.seq)
def pSeqs (m : Manager) : List Nat := m.probing.map (·.2.seq)

/-- the sequence numbers in use: active, queued, path probing -/
def inUse (m : Manager) : List Nat := m.activeSeq :: (qSeqs m ++ pSeqs m)

structure Inv (m : Manager) : Prop where
  sorted : SortedQ m.queue
  q_gt_active : ∀ e ∈ m.queue, m.activeSeq < e.seq
  q_gt_hp : ∀ e ∈ m.queue, m.highestProbing < e.seq
  q_ge_hr : ∀ e ∈ m.queue, m.highestRetired ≤ e.seq
  p_le_hp : ∀ pe ∈ m.probing, pe.2.seq ≤ m.highestProbing
  p_pos : ∀ pe ∈ m.probing, 0 < pe.2.seq
  p_ne_active : ∀ pe ∈ m.probing, pe.2.seq ≠ m.activeSeq
  p_nodup : (pSeqs m).Nodup
  p_keys : (m.probing.map (·.1)).Nodup

/-- a sequence number that is answered with RETIRE_CONNECTION_ID at once if the peer sends it (again) -/
def Blocked (m : Manager) (s : Nat) : Prop :=
  s < m.activeSeq ∨ (s ≤ m.highestProbing ∧ m.highestProbing ≠ 0) ∨ s < m.highestRetired

theorem mem_inUse {m : Manager} {s : Nat} :
    s ∈ inUse m ↔ s = m.activeSeq ∨ (∃ e ∈ m.queue, e.seq = s) ∨ (∃ pe ∈ m.probing, pe.2.seq = s) := by
  simp [inUse, qSeqs, pSeqs]

theorem sortedQ_nodup {q : List Entry} (h : SortedQ q) : (q.map (·.seq)).Nodup := by
  unfold SortedQ at h
  induction q with
  | nil => simp
  | cons x xs ih =>
    rw [List.pairwise_cons] at h
    simp only [List.map_cons, List.nodup_cons]
    refine ⟨?_, ih h.2⟩
    intro hx
    simp at hx
    obtain ⟨y, hy, hys⟩ := hx
    have := h.1 y hy
    omega

theorem inv_nodup {m : Manager} (h : Inv m) : (inUse m).Nodup := by
  unfold inUse
  rw [List.nodup_cons, List.nodup_append]
  refine ⟨?_, sortedQ_nodup h.sorted, h.p_nodup, ?_⟩
  · intro hm
    simp [qSeqs, pSeqs] at hm
    rcases hm with ⟨e, he, hs⟩ | ⟨a, b, hb, hs⟩
    · have := h.q_gt_active e he; omega
    · exact h.p_ne_active _ hb hs
  · intro a ha b hb hab
    simp [qSeqs] at ha
    simp [pSeqs] at hb
    obtain ⟨e, he, rfl⟩ := ha
    obtain ⟨k, pe, hpe, rfl⟩ := hb
    have h1 := h.q_gt_hp e he
    have h2 := h.p_le_hp _ hpe
    simp at h2
    omega

/-- a blocked number that is not probing is not in use -/
theorem blocked_not_queued {m : Manager} (h : Inv m) {s : Nat} (hb : Blocked m s) : ∀ e ∈ m.queue, e.seq ≠ s := by
  intro e he hs
  have h1 := h.q_gt_active e he
  have h2 := h.q_gt_hp e he
  have h3 := h.q_ge_hr e he
  unfold Blocked at hb
  omega

def retiredIn (evs : List Ev) : List Nat := evs.filterMap fun | .retire s => some s | _ => none

theorem mem_retiredIn {evs : List Ev} {s : Nat} : s ∈ retiredIn evs ↔ Ev.retire s ∈ evs := by
  unfold retiredIn
  simp only [List.mem_filterMap]
  constructor
  · rintro ⟨e, he, hs⟩
    cases e <;> simp at hs
    subst hs; exact he
  · intro h; exact ⟨_, h, rfl⟩

theorem retiredIn_append (a b : List Ev) : retiredIn (a ++ b) = retiredIn a ++ retiredIn b := by
  simp [retiredIn, List.filterMap_append]

/-- specification of a primitive step that only moves sequence numbers out of use (or within use) -/
structure MicroSpec (m : Manager) (evs : List Ev) (m' : Manager) : Prop where
  inv : Inv m'
  leave : ∀ s ∈ inUse m, s ∉ inUse m' → Ev.retire s ∈ evs
  from_use : ∀ s, Ev.retire s ∈ evs → s ∈ inUse m
  gone : ∀ s, Ev.retire s ∈ evs → s ∉ inUse m' ∧ Blocked m' s
  nodup : (retiredIn evs).Nodup
  mono : ∀ s, Blocked m s → Blocked m' s
  stay_out : ∀ s, Blocked m s → s ∉ inUse m → s ∉ inUse m'

/-- specification of a whole operation -/
structure StepSpec (m : Manager) (evs : List Ev) (m' : Manager) : Prop where
  inv : Inv m'
  leave : ∀ s ∈ inUse m, s ∉ inUse m' → Ev.retire s ∈ evs
  gone : ∀ s, Ev.retire s ∈ evs → s ∉ inUse m' ∧ Blocked m' s
  nodup : (retiredIn evs).Nodup
  mono : ∀ s, Blocked m s → Blocked m' s
  stay_out : ∀ s, Blocked m s → s ∉ inUse m → s ∉ inUse m'

theorem MicroSpec.toStep {m m' : Manager} {evs : List Ev} (h : MicroSpec m evs m') : StepSpec m evs m' :=
  ⟨h.inv, h.leave, h.gone, h.nodup, h.mono, h.stay_out⟩

theorem StepSpec.refl {m : Manager} (h : Inv m) : StepSpec m [] m :=
  ⟨h, by intro s hs hn; exact absurd hs hn, by intro s hs; simp at hs, by simp [retiredIn], fun _ h => h, fun _ _ h => h⟩

theorem MicroSpec.refl {m : Manager} (h : Inv m) : MicroSpec m [] m :=
  ⟨h, by intro s hs hn; exact absurd hs hn, by intro s hs; simp at hs, by intro s hs; simp at hs, by simp [retiredIn],
   fun _ h => h, fun _ _ h => h⟩

theorem StepSpec.comp {m m1 m2 : Manager} {e1 e2 : List Ev}
    (h1 : StepSpec m e1 m1) (h2 : MicroSpec m1 e2 m2) : StepSpec m (e1 ++ e2) m2 := by
  refine ⟨h2.inv, ?_, ?_, ?_, fun s hs => h2.mono s (h1.mono s hs), ?_⟩
  · intro s hs hn
    by_cases h : s ∈ inUse m1
    · exact List.mem_append_right _ (h2.leave s h hn)
    · exact List.mem_append_left _ (h1.leave s hs h)
  · intro s hs
    rcases List.mem_append.mp hs with hs | hs
    · have := h1.gone s hs
      exact ⟨h2.stay_out s this.2 this.1, h2.mono s this.2⟩
    · exact h2.gone s hs
  · rw [retiredIn_append, List.nodup_append]
    refine ⟨h1.nodup, h2.nodup, ?_⟩
    intro a ha b hb hab
    subst hab
    have h3 := (h1.gone a (mem_retiredIn.mp ha)).1
    exact h3 (h2.from_use a (mem_retiredIn.mp hb))
  · intro s hb hn
    exact h2.stay_out s (h1.mono s hb) (h1.stay_out s hb hn)

/-- two whole steps in sequence: numbers retired by the first are blocked, so they do not come back in the second,
    and the second cannot retire them again -/
theorem StepSpec.comp'' {m m1 m2 : Manager} {e1 e2 : List Ev}
    (h1 : StepSpec m e1 m1) (h2 : StepSpec m1 e2 m2) (hfrom : ∀ s, Ev.retire s ∈ e2 → s ∈ inUse m1) :
    StepSpec m (e1 ++ e2) m2 := by
  refine ⟨h2.inv, ?_, ?_, ?_, fun s hs => h2.mono s (h1.mono s hs), ?_⟩
  · intro s hs hn
    by_cases h : s ∈ inUse m1
    · exact List.mem_append_right _ (h2.leave s h hn)
    · exact List.mem_append_left _ (h1.leave s hs h)
  · intro s hs
    rcases List.mem_append.mp hs with hs | hs
    · have := h1.gone s hs
      exact ⟨h2.stay_out s this.2 this.1, h2.mono s this.2⟩
    · exact h2.gone s hs
  · rw [retiredIn_append, List.nodup_append]
    refine ⟨h1.nodup, h2.nodup, ?_⟩
    intro a ha b hb hab
    subst hab
    exact (h1.gone a (mem_retiredIn.mp ha)).1 (hfrom a (mem_retiredIn.mp hb))
  · intro s hb hn
    exact h2.stay_out s (h1.mono s hb) (h1.stay_out s hb hn)

/-- states that agree on the fields the ledger talks about -/
def SameCore (m m' : Manager) : Prop :=
  m'.activeSeq = m.activeSeq ∧ m'.queue = m.queue ∧ m'.probing = m.probing ∧
  m'.highestProbing = m.highestProbing ∧ m'.highestRetired = m.highestRetired

theorem SameCore.inUse {m m' : Manager} (h : SameCore m m') : inUse m' = inUse m := by
  obtain ⟨h1, h2, h3, _, _⟩ := h
  simp [Proofs.ConnID.inUse, qSeqs, pSeqs, h1, h2, h3]

theorem SameCore.inv {m m' : Manager} (h : SameCore m m') (hi : Inv m) : Inv m' := by
  obtain ⟨h1, h2, h3, h4, h5⟩ := h
  exact ⟨by rw [h2]; exact hi.sorted, by rw [h1, h2]; exact hi.q_gt_active, by rw [h2, h4]; exact hi.q_gt_hp,
    by rw [h2, h5]; exact hi.q_ge_hr, by rw [h3, h4]; exact hi.p_le_hp, by rw [h3]; exact hi.p_pos,
    by rw [h1, h3]; exact hi.p_ne_active, by simp only [pSeqs, h3]; exact hi.p_nodup, by rw [h3]; exact hi.p_keys⟩

theorem SameCore.blocked {m m' : Manager} (h : SameCore m m') (s : Nat) : Blocked m' s ↔ Blocked m s := by
  obtain ⟨h1, _, _, h4, h5⟩ := h
  simp [Blocked, h1, h4, h5]

theorem SameCore.micro {m m' : Manager} (h : SameCore m m') (hi : Inv m) {evs : List Ev}
    (hev : ∀ s, Ev.retire s ∉ evs) : MicroSpec m evs m' := by
  have hr : retiredIn evs = [] := by
    apply List.eq_nil_iff_forall_not_mem.mpr
    intro s hs; exact hev s (mem_retiredIn.mp hs)
  refine ⟨h.inv hi, ?_, ?_, ?_, by simp [hr], ?_, ?_⟩
  · intro s hs hn; rw [h.inUse] at hn; exact absurd hs hn
  · intro s hs; exact absurd hs (hev s)
  · intro s hs; exact absurd hs (hev s)
  · intro s hb; exact (h.blocked s).mpr hb
  · intro s _ hn; rw [h.inUse]; exact hn

end Uquic.Proofs.ConnID
