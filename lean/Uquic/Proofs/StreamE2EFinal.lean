/-
C01 ∘ C03: the sender model piped into C03's ReceiveStream model — what is specific to `recvStream`
(the status `Read` ends with) and the run-level bookkeeping for "reading to EOF".
-/
import Uquic.Proofs.StreamE2EPipe
import Uquic.Proofs.StreamE2ERecv

namespace Uquic.Proofs.StreamE2E
open Uquic.Model.Stream.Send Uquic.Spec.SendRun Uquic.Spec.StreamPipe Uquic.Spec.StreamE2E Uquic.Proofs.Send
open Uquic.Model.Reassembly (FC RStream RStatus maxByteCount)

theorem pipeRun_append {A : Reassembler} (p : Pipe A) (l1 l2 : List PipeOp) :
    pipeRun p (l1 ++ l2) = pipeRun (pipeRun p l1) l2 := by
  simp [pipeRun, List.foldl_append]

theorem sndOps_append (l1 l2 : List PipeOp) : sndOps (l1 ++ l2) = sndOps l1 ++ sndOps l2 := by
  induction l1 with
  | nil => rfl
  | cons op rest ih =>
    cases op with
    | snd o => simp [sndOps, ih]
    | deliver k => simpa [sndOps] using ih
    | read n => simpa [sndOps] using ih

theorem sndOps_reads (ns : List Nat) : sndOps (ns.map PipeOp.read) = [] := by
  induction ns with
  | nil => rfl
  | cons n rest ih => simpa [sndOps] using ih

/-- reads change neither the sender, nor the delivered segments, nor `alive` -/
theorem pipeRun_reads {fc : FC} (p : Pipe (recvStream fc)) (ns : List Nat) :
    (pipeRun p (ns.map PipeOp.read)).s = p.s ∧
    Rcv.segs (pipeRun p (ns.map PipeOp.read)).r = Rcv.segs p.r ∧
    Rcv.alive (pipeRun p (ns.map PipeOp.read)).r = Rcv.alive p.r := by
  induction ns generalizing p with
  | nil => exact ⟨rfl, rfl, rfl⟩
  | cons n rest ih =>
    have := ih (pipeStep p (.read n))
    exact this

/-- with every written byte and the FIN delivered and nothing rejected, `Read` never ends with an error:
    it returns nil or io.EOF -/
theorem read_status_on {fc : FC} (h0 : fc.highest = 0) {p : Pipe (recvStream fc)}
    (h : PipeInvW p.s.written p) (hal : Rcv.alive p.r = true)
    (hcov : CoveredUpTo (Rcv.segs p.r) p.s.written.length) (hfin : ∃ x ∈ Rcv.segs p.r, x.fin = true)
    (n : Nat) (hn : 0 < n) :
    ((Rcv.s p.r).read n).status = .ok ∨ ((Rcv.s p.r).read n).status = .eof := by
  have C := recvStream_contract fc h0 p.s.written
  have I := rcvInv_of_reachW h0 h.reach
  have L := I.live hal
  have hpre : Rcv.out p.r <+: p.s.written := out_prefix_on C h.reach h.consistent
  have hout : (Rcv.out p.r).length = (Rcv.s p.r).readPos := by
    rw [I.out_eq, Uquic.Proofs.Sorter.srcSeg_length]
  obtain ⟨_, _, hp, hst⟩ := read_live L.sinv L.plain n p.s.written.length (fun q _ h2 => by
    obtain ⟨x, hx, hc1, hc2⟩ := hcov q h2
    have hb := (I.slices x hx).2
    have hpm : q < maxByteCount := by omega
    exact ⟨hpm, (L.gaps q hpm).mpr ⟨x, hx, hc1, hc2⟩⟩)
  rcases hst with hst | hst | ⟨hst, hz⟩
  · exact Or.inl hst
  · exact Or.inr hst
  · -- "would block" with nothing returned: then everything had been read already, and the FIN gives EOF
    right
    have r3 := (Uquic.Proofs.Stream.read_spec L.sinv n).2.2.1
    have hle := hpre.length_le
    have hall : Rcv.out p.r = p.s.written := hpre.eq_of_length (by omega)
    have := (complete_on C h hal hcov hfin n hn).2.2 hall
    exact of_decide_eq_true this

/-! ### the three end-to-end statements -/

theorem e2e_inv (fc : FC) (h0 : fc.highest = 0) (sid : Nat) (sup : Bool) (ops : List PipeOp)
    (hc : NoBoundaryAfterReset (init sid sup) (sndOps ops))
    (hB : OffsetsBounded (pipeRun (pipeInit (recvStream fc) sid sup) ops).s) :
    PipeInvW (pipeRun (pipeInit (recvStream fc) sid sup) ops).s.written (pipeRun (pipeInit (recvStream fc) sid sup) ops) :=
  pipeInvW_final (recvStream_contract fc h0) sid sup ops hc hB

/-- everything written and the FIN were delivered, nothing was rejected -/
structure Ready (fc : FC) (sid : Nat) (sup : Bool) (ops : List PipeOp) : Prop where
  hc : NoBoundaryAfterReset (init sid sup) (sndOps ops)
  hB : OffsetsBounded (pipeRun (pipeInit (recvStream fc) sid sup) ops).s
  alive : Rcv.alive (pipeRun (pipeInit (recvStream fc) sid sup) ops).r = true
  cov : CoveredUpTo (Rcv.segs (pipeRun (pipeInit (recvStream fc) sid sup) ops).r)
    (pipeRun (pipeInit (recvStream fc) sid sup) ops).s.written.length
  fin : ∃ x ∈ Rcv.segs (pipeRun (pipeInit (recvStream fc) sid sup) ops).r, x.fin = true

theorem e2e_complete (fc : FC) (h0 : fc.highest = 0) (sid : Nat) (sup : Bool) (ops : List PipeOp)
    (R : Ready fc sid sup ops) (n : Nat) (hn : 0 < n) :
    let p := pipeRun (pipeInit (recvStream fc) sid sup) ops
    ((Rcv.s p.r).read n).data =
      (p.s.written.drop (Rcv.out p.r).length).take (min n (p.s.written.length - (Rcv.out p.r).length)) ∧
    (((Rcv.s p.r).read n).status = .ok ∨ ((Rcv.s p.r).read n).status = .eof) ∧
    (p.s.written.length - (Rcv.out p.r).length ≤ n → Rcv.out (Rcv.read p.r n).1 = p.s.written) ∧
    (Rcv.out p.r = p.s.written → ((Rcv.s p.r).read n).status = .eof) := by
  intro p
  have h := e2e_inv fc h0 sid sup ops R.hc R.hB
  have C := recvStream_contract fc h0 p.s.written
  obtain ⟨c1, c2, c3⟩ := complete_on C h R.alive R.cov R.fin n hn
  exact ⟨c1, read_status_on h0 h R.alive R.cov R.fin n hn, c2, fun hall => of_decide_eq_true (c3 hall)⟩

theorem run_read (fc : FC) (sid : Nat) (sup : Bool) (ops : List PipeOp) (n : Nat) :
    pipeRun (pipeInit (recvStream fc) sid sup) (ops ++ [.read n]) =
      pipeStep (pipeRun (pipeInit (recvStream fc) sid sup) ops) (.read n) := by
  rw [pipeRun_append]; rfl

theorem Ready.read {fc : FC} {sid : Nat} {sup : Bool} {ops : List PipeOp} (R : Ready fc sid sup ops) (n : Nat) :
    Ready fc sid sup (ops ++ [.read n]) := by
  refine ⟨?_, ?_, ?_, ?_, ?_⟩
  · rw [sndOps_append]; simpa [sndOps] using R.hc
  · rw [run_read]; exact R.hB
  · rw [run_read]; exact R.alive
  · rw [run_read]; exact R.cov
  · rw [run_read]; exact R.fin

theorem drain_aux (fc : FC) (h0 : fc.highest = 0) (sid : Nat) (sup : Bool) (ns : List Nat) :
    ∀ (ops : List PipeOp), Ready fc sid sup ops → (∀ n ∈ ns, 0 < n) →
    (pipeRun (pipeInit (recvStream fc) sid sup) (ops ++ ns.map PipeOp.read)).s =
      (pipeRun (pipeInit (recvStream fc) sid sup) ops).s ∧
    Ready fc sid sup (ops ++ ns.map PipeOp.read) ∧
    Rcv.out (pipeRun (pipeInit (recvStream fc) sid sup) (ops ++ ns.map PipeOp.read)).r <+:
      (pipeRun (pipeInit (recvStream fc) sid sup) ops).s.written ∧
    min ((pipeRun (pipeInit (recvStream fc) sid sup) ops).s.written.length -
          (Rcv.out (pipeRun (pipeInit (recvStream fc) sid sup) ops).r).length) ns.sum +
        (Rcv.out (pipeRun (pipeInit (recvStream fc) sid sup) ops).r).length ≤
      (Rcv.out (pipeRun (pipeInit (recvStream fc) sid sup) (ops ++ ns.map PipeOp.read)).r).length := by
  induction ns with
  | nil =>
    intro ops R _
    have hpre := (prefix_on (recvStream_contract fc h0 _) (e2e_inv fc h0 sid sup ops R.hc R.hB)).1
    simp only [List.map_nil, List.append_nil, List.sum_nil]
    exact ⟨trivial, R, hpre, by omega⟩
  | cons n rest ih =>
    intro ops R hpos
    have hn : 0 < n := hpos n (by simp)
    obtain ⟨i1, i2, i3, i4⟩ := ih (ops ++ [.read n]) (R.read n) (fun k hk => hpos k (by simp [hk]))
    have hl : ops ++ [PipeOp.read n] ++ rest.map PipeOp.read = ops ++ (n :: rest).map PipeOp.read := by simp
    rw [hl] at i1 i2 i3 i4
    rw [run_read] at i1 i3 i4
    have hpre := (prefix_on (recvStream_contract fc h0 _) (e2e_inv fc h0 sid sup ops R.hc R.hB)).1
    have hle := hpre.length_le
    obtain ⟨c1, _, _, _⟩ := e2e_complete fc h0 sid sup ops R n hn
    generalize pipeRun (pipeInit (recvStream fc) sid sup) ops = p at i1 i3 i4 hpre hle c1 ⊢
    generalize pipeRun (pipeInit (recvStream fc) sid sup) (ops ++ (n :: rest).map PipeOp.read) = q at i1 i3 i4 ⊢
    have hs : (pipeStep p (.read n)).s = p.s := rfl
    have hout : (Rcv.out (pipeStep p (.read n)).r).length =
        (Rcv.out p.r).length + min n (p.s.written.length - (Rcv.out p.r).length) := by
      show (Rcv.out p.r ++ ((Rcv.s p.r).read n).data).length = _
      rw [List.length_append, c1, List.length_take, List.length_drop]
      omega
    rw [hs] at i1 i3 i4
    rw [hout] at i4
    refine ⟨i1, i2, i3, ?_⟩
    simp only [List.sum_cons]
    omega

/-- reading to EOF yields exactly the bytes written -/
theorem e2e_drain (fc : FC) (h0 : fc.highest = 0) (sid : Nat) (sup : Bool) (ops : List PipeOp)
    (R : Ready fc sid sup ops) (ns : List Nat) (m : Nat) (hpos : ∀ n ∈ ns, 0 < n) (hm : 0 < m)
    (hsum : (pipeRun (pipeInit (recvStream fc) sid sup) ops).s.written.length -
        (Rcv.out (pipeRun (pipeInit (recvStream fc) sid sup) ops).r).length ≤ ns.sum) :
    Rcv.out (pipeRun (pipeRun (pipeInit (recvStream fc) sid sup) ops) (ns.map PipeOp.read ++ [.read m])).r =
      (pipeRun (pipeInit (recvStream fc) sid sup) ops).s.written ∧
    (pipeRun (pipeRun (pipeInit (recvStream fc) sid sup) ops) (ns.map PipeOp.read ++ [.read m])).eofSeen = true ∧
    (pipeRun (pipeRun (pipeInit (recvStream fc) sid sup) ops) (ns.map PipeOp.read ++ [.read m])).s.written =
      (pipeRun (pipeInit (recvStream fc) sid sup) ops).s.written := by
  obtain ⟨d1, d2, d3, d4⟩ := drain_aux fc h0 sid sup ns ops R hpos
  have hq : pipeRun (pipeRun (pipeInit (recvStream fc) sid sup) ops) (ns.map PipeOp.read ++ [.read m]) =
      pipeStep (pipeRun (pipeInit (recvStream fc) sid sup) (ops ++ ns.map PipeOp.read)) (.read m) := by
    rw [← pipeRun_append, ← List.append_assoc, run_read]
  obtain ⟨_, _, c3, c4⟩ := e2e_complete fc h0 sid sup (ops ++ ns.map PipeOp.read) d2 m hm
  rw [hq]
  generalize pipeRun (pipeInit (recvStream fc) sid sup) (ops ++ ns.map PipeOp.read) = q1 at d1 d3 d4 c3 c4 ⊢
  generalize pipeRun (pipeInit (recvStream fc) sid sup) ops = p at d1 d3 d4 hsum ⊢
  have hall : Rcv.out q1.r = p.s.written := d3.eq_of_length (by
    have := d3.length_le
    omega)
  rw [d1] at c3 c4
  refine ⟨c3 (by rw [hall]; omega), ?_, by show q1.s.written = _; rw [d1]⟩
  show (q1.eofSeen || decide (((Rcv.s q1.r).read m).status = .eof)) = true
  rw [c4 hall]; simp

end Uquic.Proofs.StreamE2E
