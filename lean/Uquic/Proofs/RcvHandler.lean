/-
Handler-level invariant for C07: three trackers against their ghost sets, over arbitrary op lists.
-/
import Uquic.Proofs.RcvInv
import Uquic.Spec.RcvRun

namespace Uquic.Proofs.Rcv
open Uquic.Model.Rcv Uquic.Spec.RcvRun

theorem addRev_not_new_eq (p : Int) (l : List Range) (h : (addRev p l).2 = false) : (addRev p l).1 = l := by
  induction l with
  | nil => simp [addRev] at h
  | cons r rest ih =>
    unfold addRev at h ⊢
    split
    · rfl
    · rename_i h1
      simp only [h1, if_false] at h
      split
      · rename_i h2; simp [h2] at h
      · rename_i h2
        simp only [h2, if_false] at h
        split
        · rename_i h3
          simp only [h3, if_true] at h
          cases rest with
          | nil => simp at h
          | cons q rest' => simp only at h; split at h <;> simp at h
        · rename_i h3
          simp only [h3, if_false] at h
          split
          · rename_i h4; simp [h4] at h
          · rename_i h4
            simp only [h4, if_false] at h
            simp only
            rw [ih h]

theorem receivedPacket_not_new {h : Hist} {R : List Int} {F : List Range} (inv : HistInv h R F) (p : Int)
    (hn : (h.receivedPacket p).2 = false) : (h.receivedPacket p).1 = h := by
  unfold Hist.receivedPacket at hn ⊢
  split
  · rfl
  · rename_i hge
    simp only [hge, if_false] at hn
    have e := addRev_not_new_eq p h.ranges hn
    simp only [e]
    have := inv.len
    split
    · omega
    · rfl

theorem tracker_recv_some {t t' : Tracker} {pn : Int} {ecn : Nat} {ae : Bool}
    (h : t.receivedPacket pn ecn ae = some t') :
    (t.hist.receivedPacket pn).2 = true ∧ t'.hist = (t.hist.receivedPacket pn).1 ∧
    t'.lastAck = t.lastAck ∧ t'.hasNewAck = (t.hasNewAck || ae) := by
  unfold Tracker.receivedPacket at h
  simp only at h
  split at h
  · simp at h
  · rename_i hh
    simp only [Option.some.injEq] at h
    subst h
    exact ⟨by simpa using hh, rfl, rfl, rfl⟩

theorem tracker_recv_none {t : Tracker} {pn : Int} {ecn : Nat} {ae : Bool}
    (h : t.receivedPacket pn ecn ae = none) : (t.hist.receivedPacket pn).2 = false := by
  unfold Tracker.receivedPacket at h
  simp only at h
  split at h
  · rename_i hh; simpa using hh
  · simp at h

/-- registering `p` with a tracker (whatever the outcome) keeps the history invariant w.r.t. `p :: R` -/
theorem tracker_recv_inv {t : Tracker} {R : List Int} {F : List Range} (inv : HistInv t.hist R F)
    (pn : Int) (ecn : Nat) (ae : Bool) :
    (∀ t', t.receivedPacket pn ecn ae = some t' → ∃ F', HistInv t'.hist (pn :: R) F') ∧
    (t.receivedPacket pn ecn ae = none → ∃ F', HistInv t.hist (pn :: R) F') := by
  have hrecv := inv.recv pn
  constructor
  · intro t' ht'
    rw [(tracker_recv_some ht').2.1]
    exact ⟨_, hrecv⟩
  · intro hn
    rw [receivedPacket_not_new inv pn (tracker_recv_none hn)] at hrecv
    exact ⟨_, hrecv⟩

theorem tracker_getAck_hist (t : Tracker) : (t.getAckFrame).1.hist = t.hist := by
  unfold Tracker.getAckFrame; split <;> rfl

theorem tracker_getAck_ranges (t : Tracker) (a : Ack) (h : (t.getAckFrame).2 = some a) : a.ranges = t.hist.ranges := by
  unfold Tracker.getAckFrame at h
  split at h
  · simp at h
  · simp at h; rw [← h]

/-- relation between the forget threshold of the app tracker and its history -/
def AppThr (a : AppTracker) : Prop :=
  (a.ignoreBelow = 0 ∧ a.t.hist.deletedBelow = invalidPN) ∨ (0 < a.ignoreBelow ∧ a.t.hist.deletedBelow = a.ignoreBelow)

structure HInv (s : St) : Prop where
  ini : ∀ t, s.h.initial = some t → ∃ F, HistInv t.hist s.g.ini F
  hs : ∀ t, s.h.handshake = some t → ∃ F, HistInv t.hist s.g.hs F
  app : ∃ F, HistInv s.h.app.t.hist s.g.app F
  thr : AppThr s.h.app

theorem HInv.init : HInv {} := by
  refine ⟨?_, ?_, ⟨[], HistInv.init⟩, Or.inl ⟨rfl, rfl⟩⟩
  · intro t ht; simp at ht; subst ht; exact ⟨[], HistInv.init⟩
  · intro t ht; simp at ht; subst ht; exact ⟨[], HistInv.init⟩

theorem noteLargest_fields (a : AppTracker) (pn t : Int) :
    (a.noteLargest pn t).t = a.t ∧ (a.noteLargest pn t).ignoreBelow = a.ignoreBelow ∧
    (a.noteLargest pn t).count = a.count ∧ (a.noteLargest pn t).ackQueued = a.ackQueued ∧
    (a.noteLargest pn t).ackAlarm = a.ackAlarm := by
  unfold AppTracker.noteLargest; split <;> simp

theorem queueStep_fields {a a' : AppTracker} {pn : Int} {ecn : Nat} {t : Int}
    (h : a.queueStep pn ecn t = some a') :
    a'.t = a.t ∧ a'.ignoreBelow = a.ignoreBelow ∧ a'.count = a.count := by
  unfold AppTracker.queueStep at h
  split at h
  · simp at h
  · split at h
    · simp at h
    · simp only [Option.some.injEq] at h
      subst h
      split <;> split <;> simp

theorem app_recv_fields (a : AppTracker) (pn : Int) (ecn : Nat) (t : Int) (ae : Bool) :
    (a.receivedPacket pn ecn t ae).1.ignoreBelow = a.ignoreBelow ∧
    ((a.t.receivedPacket pn ecn ae = none ∧ (a.receivedPacket pn ecn t ae).1.t = a.t) ∨
     (∃ t', a.t.receivedPacket pn ecn ae = some t' ∧ (a.receivedPacket pn ecn t ae).1.t = t')) := by
  unfold AppTracker.receivedPacket
  cases h : a.t.receivedPacket pn ecn ae with
  | none => exact ⟨rfl, Or.inl ⟨rfl, rfl⟩⟩
  | some t' =>
    simp only
    have hn := noteLargest_fields { a with t := t' } pn t
    split
    · exact ⟨hn.2.1, Or.inr ⟨t', rfl, hn.1⟩⟩
    · split
      · exact ⟨hn.2.1, Or.inr ⟨t', rfl, hn.1⟩⟩
      · rename_i a3 hq
        have hf := queueStep_fields hq
        exact ⟨by rw [hf.2.1]; exact hn.2.1, Or.inr ⟨t', rfl, by rw [hf.1]; exact hn.1⟩⟩

theorem hist_recv_deletedBelow (h : Hist) (p : Int) : (h.receivedPacket p).1.deletedBelow = h.deletedBelow := by
  unfold Hist.receivedPacket; split <;> rfl

theorem app_recv_inv {a : AppTracker} {R : List Int} {F : List Range} (inv : HistInv a.t.hist R F)
    (thr : AppThr a) (pn : Int) (ecn : Nat) (t : Int) (ae : Bool) :
    (∃ F', HistInv (a.receivedPacket pn ecn t ae).1.t.hist (pn :: R) F') ∧ AppThr (a.receivedPacket pn ecn t ae).1 := by
  have ht := tracker_recv_inv inv pn ecn ae
  obtain ⟨hig, hcase⟩ := app_recv_fields a pn ecn t ae
  rcases hcase with ⟨hn, e⟩ | ⟨t', hs, e⟩
  · refine ⟨by rw [e]; exact ht.2 hn, ?_⟩
    unfold AppThr; rw [e, hig]; exact thr
  · refine ⟨by rw [e]; exact ht.1 t' hs, ?_⟩
    unfold AppThr; rw [e, hig, (tracker_recv_some hs).2.1, hist_recv_deletedBelow]; exact thr

theorem app_getAck_hist (a : AppTracker) (now : Int) (oiq : Bool) :
    (a.getAckFrame now oiq).1.t.hist = a.t.hist ∧ (a.getAckFrame now oiq).1.ignoreBelow = a.ignoreBelow := by
  unfold AppTracker.getAckFrame
  have := tracker_getAck_hist a.t
  split
  · exact ⟨rfl, rfl⟩
  · generalize a.t.getAckFrame = r at this
    obtain ⟨t1, ack⟩ := r
    cases ack with
    | none => exact ⟨this, rfl⟩
    | some ack => exact ⟨this, rfl⟩

theorem app_getAck_ranges (a : AppTracker) (now : Int) (oiq : Bool) (ack : Ack)
    (h : (a.getAckFrame now oiq).2 = some ack) : ack.ranges = a.t.hist.ranges := by
  unfold AppTracker.getAckFrame at h
  split at h
  · simp at h
  · have hr := tracker_getAck_ranges a.t
    generalize a.t.getAckFrame = r at h hr
    obtain ⟨t1, ack0⟩ := r
    cases ack0 with
    | none => simp at h
    | some ack0 =>
      simp at h; rw [← h]
      exact hr ack0 rfl

theorem HInv.step {s : St} (inv : HInv s) (op : Op) : HInv (s.step op) := by
  obtain ⟨hini, hhs, ⟨Fa, happ⟩, hthr⟩ := inv
  cases op with
  | recv lvl pn ecn t ae =>
    cases lvl with
    | initial =>
      cases hi : s.h.initial with
      | none =>
        refine ⟨?_, ?_, ?_, ?_⟩ <;>
          simp [St.step, hstep, registers, Handler.receivedPacket, hi] <;> first | exact hhs | exact ⟨Fa, happ⟩ | exact hthr
      | some tr =>
        obtain ⟨F, hF⟩ := hini tr hi
        have ht := tracker_recv_inv hF pn ecn ae
        cases hr : tr.receivedPacket pn ecn ae with
        | none =>
          refine ⟨?_, ?_, ?_, ?_⟩ <;>
            simp [St.step, hstep, registers, Handler.receivedPacket, hi, hr, Ghost.add]
          · exact ht.2 hr
          · exact hhs
          · exact ⟨Fa, happ⟩
          · exact hthr
        | some tr' =>
          refine ⟨?_, ?_, ?_, ?_⟩ <;>
            simp [St.step, hstep, registers, Handler.receivedPacket, hi, hr, Ghost.add]
          · exact ht.1 tr' hr
          · exact hhs
          · exact ⟨Fa, happ⟩
          · exact hthr
    | handshake =>
      cases hi : s.h.handshake with
      | none =>
        refine ⟨?_, ?_, ?_, ?_⟩ <;>
          simp [St.step, hstep, registers, Handler.receivedPacket, hi] <;> first | exact hini | exact ⟨Fa, happ⟩ | exact hthr
      | some tr =>
        obtain ⟨F, hF⟩ := hhs tr hi
        have ht := tracker_recv_inv hF pn ecn ae
        cases hr : tr.receivedPacket pn ecn ae with
        | none =>
          refine ⟨?_, ?_, ?_, ?_⟩ <;>
            simp [St.step, hstep, registers, Handler.receivedPacket, hi, hr, Ghost.add]
          · exact hini
          · exact ht.2 hr
          · exact ⟨Fa, happ⟩
          · exact hthr
        | some tr' =>
          refine ⟨?_, ?_, ?_, ?_⟩ <;>
            simp [St.step, hstep, registers, Handler.receivedPacket, hi, hr, Ghost.add]
          · exact hini
          · exact ht.1 tr' hr
          · exact ⟨Fa, happ⟩
          · exact hthr
    | zeroRTT =>
      have ha := app_recv_inv happ hthr pn ecn t ae
      by_cases hc : s.h.lowest1RTT ≠ invalidPN ∧ pn > s.h.lowest1RTT
      · refine ⟨?_, ?_, ?_, ?_⟩ <;>
          simp [St.step, hstep, registers, Handler.receivedPacket, hc] <;> first | exact hini | exact hhs | exact ⟨Fa, happ⟩ | exact hthr
      · refine ⟨?_, ?_, ?_, ?_⟩ <;>
          simp only [St.step, hstep, registers, Handler.receivedPacket, hc, if_false, Ghost.add]
        · exact hini
        · exact hhs
        · exact ha.1
        · exact ha.2
    | oneRTT =>
      refine ⟨?_, ?_, ?_, ?_⟩ <;>
        simp only [St.step, hstep, registers, Handler.receivedPacket, Ghost.add]
      · split <;> exact hini
      · split <;> exact hhs
      · split <;> exact (app_recv_inv happ hthr pn ecn t ae).1
      · split <;> exact (app_recv_inv happ hthr pn ecn t ae).2
  | ignore pn =>
    refine ⟨?_, ?_, ?_, ?_⟩ <;>
      simp only [St.step, hstep, registers, Handler.ignorePacketsBelow, AppTracker.ignoreBelowOp]
    · exact hini
    · exact hhs
    · split
      · exact ⟨Fa, happ⟩
      · exact ⟨Fa, happ.del pn⟩
    · split
      · exact hthr
      · rename_i hgt
        refine Or.inr ⟨?_, ?_⟩
        · rcases hthr with ⟨a, _⟩ | ⟨a, _⟩ <;> simp <;> omega
        · simp only [Hist.deleteBelow]
          rcases hthr with ⟨a, b⟩ | ⟨a, b⟩
          · have : ¬ pn < s.h.app.t.hist.deletedBelow := by rw [b]; simp [invalidPN, Uquic.Gen.Protocol.InvalidPacketNumber]; omega
            simp [this]
          · have : ¬ pn < s.h.app.t.hist.deletedBelow := by rw [b]; omega
            simp [this]
  | drop lvl =>
    cases lvl with
    | initial =>
      refine ⟨?_, ?_, ?_, ?_⟩ <;> simp [St.step, hstep, registers, Handler.dropPackets]
      · exact hhs
      · exact ⟨Fa, happ⟩
      · exact hthr
    | handshake =>
      refine ⟨?_, ?_, ?_, ?_⟩ <;> simp [St.step, hstep, registers, Handler.dropPackets]
      · exact hini
      · exact ⟨Fa, happ⟩
      · exact hthr
    | zeroRTT =>
      refine ⟨?_, ?_, ?_, ?_⟩ <;> simp [St.step, hstep, registers, Handler.dropPackets]
      · exact hini
      · exact hhs
      · exact ⟨Fa, happ⟩
      · exact hthr
    | oneRTT =>
      refine ⟨?_, ?_, ?_, ?_⟩ <;> simp [St.step, hstep, registers, Handler.dropPackets]
      · exact hini
      · exact hhs
      · exact ⟨Fa, happ⟩
      · exact hthr
  | ack lvl now oiq =>
    cases lvl with
    | initial =>
      cases hi : s.h.initial with
      | none =>
        refine ⟨?_, ?_, ?_, ?_⟩ <;> simp [St.step, hstep, registers, Handler.getAckFrame, hi]
        · exact hhs
        · exact ⟨Fa, happ⟩
        · exact hthr
      | some tr =>
        refine ⟨?_, ?_, ?_, ?_⟩ <;> simp [St.step, hstep, registers, Handler.getAckFrame, hi]
        · rw [tracker_getAck_hist]; exact hini tr hi
        · exact hhs
        · exact ⟨Fa, happ⟩
        · exact hthr
    | handshake =>
      cases hi : s.h.handshake with
      | none =>
        refine ⟨?_, ?_, ?_, ?_⟩ <;> simp [St.step, hstep, registers, Handler.getAckFrame, hi]
        · exact hini
        · exact ⟨Fa, happ⟩
        · exact hthr
      | some tr =>
        refine ⟨?_, ?_, ?_, ?_⟩ <;> simp [St.step, hstep, registers, Handler.getAckFrame, hi]
        · exact hini
        · rw [tracker_getAck_hist]; exact hhs tr hi
        · exact ⟨Fa, happ⟩
        · exact hthr
    | zeroRTT =>
      refine ⟨?_, ?_, ?_, ?_⟩ <;> simp [St.step, hstep, registers, Handler.getAckFrame]
      · exact hini
      · exact hhs
      · exact ⟨Fa, happ⟩
      · exact hthr
    | oneRTT =>
      have hg := app_getAck_hist s.h.app now oiq
      refine ⟨?_, ?_, ?_, ?_⟩ <;> simp only [St.step, hstep, registers, Handler.getAckFrame]
      · exact hini
      · exact hhs
      · rw [hg.1]; exact ⟨Fa, happ⟩
      · unfold AppThr; rw [hg.1, hg.2]; exact hthr

theorem HInv.run (ops : List Op) : HInv (run ops) := by
  unfold Uquic.Spec.RcvRun.run
  suffices ∀ s, HInv s → HInv (ops.foldl St.step s) from this _ HInv.init
  induction ops with
  | nil => intro s h; exact h
  | cons op rest ih => intro s h; exact ih _ (h.step op)

end Uquic.Proofs.Rcv
