/-
C09 helper lemmas: QUICRandomFrames.buildInternal — draws stay in range, the cut loops never
underflow, the planned frame list tiles the data, shuffling keeps that.
-/
import Uquic.Proofs.FramesBuild

namespace Uquic.Proofs.Frames
open Uquic.Spec.Framing Uquic.Model.UQuic.Frames

/-! ### draws -/

theorem randIntLoop_lt : ∀ (fuel max k b : Nat) (d d' : Draws) (v : Nat),
    randIntLoop fuel max k b d = some (v, d') → v < max := by
  intro fuel
  induction fuel with
  | zero => intro max k b d d' v h; simp [randIntLoop] at h
  | succ fuel ih =>
    intro max k b d d' v h
    simp only [randIntLoop] at h
    split at h
    · simp at h
    · split at h
      · rename_i hlt
        obtain ⟨rfl, _⟩ := Prod.mk.inj (Option.some.inj h)
        exact hlt
      · exact ih _ _ _ _ _ _ h

theorem randInt_lt {max : Nat} {d d' : Draws} {v : Nat} (hmax : 0 < max)
    (h : randInt max d = some (v, d')) : v < max := by
  unfold randInt at h
  simp only [] at h
  split at h
  · obtain ⟨rfl, _⟩ := Prod.mk.inj (Option.some.inj h); exact hmax
  · exact randIntLoop_lt _ _ _ _ _ _ _ h

/-- `cryptoSafeRandUint64(min,max)` returns a value of `[min,max)`, or `min` for a degenerate range -/
theorem cryptoSafeRand_range {mn mx : Nat} {d d' : Draws} {v : Nat}
    (h : cryptoSafeRand mn mx d = some (v, d')) : mn ≤ v ∧ (v < mx ∨ (mx ≤ mn ∧ v = mn)) := by
  unfold cryptoSafeRand at h
  split at h
  · rename_i hle
    obtain ⟨rfl, _⟩ := Prod.mk.inj (Option.some.inj h)
    exact ⟨Nat.le_refl _, Or.inr ⟨hle, rfl⟩⟩
  · rename_i hlt
    split at h
    · rename_i v0 d0 hr
      obtain ⟨rfl, _⟩ := Prod.mk.inj (Option.some.inj h)
      have := randInt_lt (by omega) hr
      omega
    · simp at h

/-! ### the cut loops -/

/-- frames `mk o l` with consecutive offsets, each at least one byte long, from `off` to `off'` -/
inductive Chain (mk : Nat → Nat → QFrame) : Nat → List QFrame → Nat → Prop
  | nil (off : Nat) : Chain mk off [] off
  | cons {off l off' : Nat} {fs : List QFrame} (hl : 1 ≤ l) (rest : Chain mk (off + l) fs off') :
      Chain mk off (mk off l :: fs) off'

theorem Chain.le {mk : Nat → Nat → QFrame} {off off' : Nat} {fs : List QFrame}
    (h : Chain mk off fs off') : off ≤ off' := by
  induction h with
  | nil => exact Nat.le_refl _
  | cons hl _ ih => omega

theorem Chain.snoc {mk : Nat → Nat → QFrame} {off off' l : Nat} {fs : List QFrame}
    (h : Chain mk off fs off') (hl : 1 ≤ l) : Chain mk off (fs ++ [mk off' l]) (off' + l) := by
  induction h with
  | nil o => exact Chain.cons hl (Chain.nil _)
  | cons hl' _ ih => exact Chain.cons hl' ih

theorem Chain.mem {mk : Nat → Nat → QFrame} {off off' : Nat} {fs : List QFrame}
    (h : Chain mk off fs off') : ∀ f ∈ fs, ∃ o l, f = mk o l ∧ off ≤ o ∧ 1 ≤ l ∧ o + l ≤ off' := by
  induction h with
  | nil => intro f hf; simp at hf
  | cons hl rest ih =>
    rename_i o l o' fs'
    intro f hf
    rcases List.mem_cons.mp hf with rfl | hf
    · exact ⟨o, l, rfl, Nat.le_refl _, hl, rest.le⟩
    · obtain ⟨o2, l2, e, h1, h2, h3⟩ := ih f hf
      exact ⟨o2, l2, e, by omega, h2, h3⟩

theorem Chain.cover {mk : Nat → Nat → QFrame} {off off' : Nat} {fs : List QFrame}
    (h : Chain mk off fs off') : ∀ i, off ≤ i → i < off' → ∃ o l, mk o l ∈ fs ∧ o ≤ i ∧ i < o + l := by
  induction h with
  | nil => intro i h1 h2; omega
  | cons hl rest ih =>
    rename_i o l o' fs'
    intro i h1 h2
    by_cases hi : i < o + l
    · exact ⟨o, l, List.mem_cons_self .., h1, hi⟩
    · obtain ⟨o2, l2, hm, h3, h4⟩ := ih i (by omega) h2
      exact ⟨o2, l2, List.mem_cons_of_mem _ hm, h3, h4⟩

theorem Chain.head {mk : Nat → Nat → QFrame} {off off' : Nat} {fs : List QFrame}
    (h : Chain mk off fs off') : (fs = [] ∧ off' = off) ∨ ∃ l fs', fs = mk off l :: fs' := by
  cases h with
  | nil => exact Or.inl ⟨rfl, rfl⟩
  | cons hl rest => exact Or.inr ⟨_, _, rfl⟩

theorem Chain.length {mk : Nat → Nat → QFrame} {off off' : Nat} {fs : List QFrame}
    (h : Chain mk off fs off') : fs.length ≤ off' - off := by
  induction h with
  | nil => simp
  | cons hl rest ih => have := rest.le; simp; omega

/-- The loop arithmetic never underflows and never panics: with `k` cuts to go and at least `k+1`
    bytes left (invariant `remaining ≥ framesLeft`), the loop fails only on a reader error, and
    otherwise appends `k` frames of at least one byte each that are consecutive from `off`, leaving
    at least one byte. -/
theorem cutLoop_spec (mk : Nat → Nat → QFrame) : ∀ (k remaining off : Nat) (d : Draws) (acc : List QFrame),
    (k = 0 ∨ k + 1 ≤ remaining) →
    cutLoop mk k remaining off d acc = .err "rand" ∨
    ∃ new off' rem' d', cutLoop mk k remaining off d acc = .ok (acc ++ new, off', rem', d') ∧
      Chain mk off new off' ∧ off' + rem' = off + remaining ∧ (k + 1 ≤ remaining → 1 ≤ rem') ∧
      new.length = k := by
  intro k
  induction k with
  | zero =>
    intro remaining off d acc _
    exact Or.inr ⟨[], off, remaining, d, by simp [cutLoop], Chain.nil _, rfl, by omega, rfl⟩
  | succ k ih =>
    intro remaining off d acc hk
    have hk : k + 2 ≤ remaining := by omega
    simp only [cutLoop]
    rw [if_neg (by omega)]
    cases hr : cryptoSafeRand 1 (remaining - k) d with
    | none => exact Or.inl rfl
    | some vd =>
      obtain ⟨l, d1⟩ := vd
      have hrange := cryptoSafeRand_range hr
      simp only []
      rw [if_neg (by omega)]
      rcases ih (remaining - l) (off + l) d1 (acc ++ [mk off l]) (by omega) with he | ⟨new, off', rem', d', h1, h2, h3, h4, h5⟩
      · exact Or.inl he
      · refine Or.inr ⟨mk off l :: new, off', rem', d', ?_, Chain.cons (by omega) h2, by omega, ?_, by simp [h5]⟩
        · rw [h1]; simp
        · intro _; exact h4 (by omega)

/-! ### lowest offset -/

theorem foldl_low_le (fs : List QFrame) : ∀ m : Int,
    fs.foldl (fun m f => if f.infoOff < m then f.infoOff else m) m ≤ m ∧
    (∀ f ∈ fs, fs.foldl (fun m f => if f.infoOff < m then f.infoOff else m) m ≤ f.infoOff) ∧
    (∀ b : Int, b ≤ m → (∀ f ∈ fs, b ≤ f.infoOff) →
      b ≤ fs.foldl (fun m f => if f.infoOff < m then f.infoOff else m) m) := by
  induction fs with
  | nil => intro m; simp
  | cons g gs ih =>
    intro m
    simp only [List.foldl_cons]
    obtain ⟨h1, h2, h3⟩ := ih (if g.infoOff < m then g.infoOff else m)
    by_cases hlt : g.infoOff < m
    · simp only [hlt, if_true] at h1 h2 h3 ⊢
      refine ⟨by omega, ?_, ?_⟩
      · intro f hf
        rcases List.mem_cons.mp hf with rfl | hf
        · exact h1
        · exact h2 f hf
      · intro b hb hall
        exact h3 b (hall g (List.mem_cons_self ..)) (fun f hf => hall f (List.mem_cons_of_mem _ hf))
    · simp only [hlt, if_false] at h1 h2 h3 ⊢
      refine ⟨h1, ?_, ?_⟩
      · intro f hf
        rcases List.mem_cons.mp hf with rfl | hf
        · omega
        · exact h2 f hf
      · intro b hb hall
        exact h3 b hb (fun f hf => hall f (List.mem_cons_of_mem _ hf))

theorem lowestOffset_eq_zero {fs : List QFrame} (hall : ∀ f ∈ fs, 0 ≤ f.infoOff)
    (hex : ∃ f ∈ fs, f.infoOff = 0) : lowestOffset fs = 0 := by
  obtain ⟨f, hf, h0⟩ := hex
  obtain ⟨_, h2, h3⟩ := foldl_low_le fs 65535
  have := h2 f hf
  have := h3 0 (by omega) hall
  unfold lowestOffset; omega

/-! ### the shuffle witness -/

theorem pick_mem {α : Type} (l : List α) : ∀ (is : List Nat) (l' : List α), pick l is = some l' →
    (∀ x ∈ l', x ∈ l) ∧ (∀ i ∈ is, ∀ x, l[i]? = some x → x ∈ l') := by
  intro is
  induction is with
  | nil => intro l' h; simp [pick] at h; subst h; simp
  | cons i is ih =>
    intro l' h
    simp only [pick] at h
    split at h
    · rename_i x xs hx hxs
      obtain rfl := Option.some.inj h
      obtain ⟨h1, h2⟩ := ih xs hxs
      refine ⟨?_, ?_⟩
      · intro y hy
        rcases List.mem_cons.mp hy with rfl | hy
        · exact List.mem_of_getElem? hx
        · exact h1 y hy
      · intro j hj y hy
        rcases List.mem_cons.mp hj with rfl | hj
        · rw [hx] at hy; obtain rfl := Option.some.inj hy; exact List.mem_cons_self ..
        · exact List.mem_cons_of_mem _ (h2 j hj y hy)
    · simp at h

/-- a shuffled list has exactly the elements of the original -/
theorem permute_mem {α : Type} {l l' : List α} {perm : List Nat} (h : permute l perm = some l') :
    ∀ x, x ∈ l' ↔ x ∈ l := by
  unfold permute at h
  split at h
  · rename_i hp
    obtain ⟨h1, h2⟩ := pick_mem l perm l' h
    intro x
    refine ⟨h1 x, fun hx => ?_⟩
    obtain ⟨j, hj, rfl⟩ := List.getElem_of_mem hx
    simp only [isPerm, Bool.and_eq_true, List.all_eq_true, List.mem_range] at hp
    have := hp.2 j hj
    exact h2 j (by simpa using this) _ (List.getElem?_eq_getElem hj)
  · simp at h

end Uquic.Proofs.Frames
