/-
Invariant of the shared request writer model (`Uquic.Model.H3.ReqWriter`) with private buffers
(`alias = false`): whatever the interleaving of encodings and piecewise stream consumption, the
buffer a `Write` call holds is the serialisation of ITS request and the stream has consumed a prefix of it.
-/
import Uquic.Model.H3.ReqWriter

namespace Uquic.Proofs.H3ReqWriter
open Uquic.Model.H3.ReqWriter

/-- slot `i` is untouched, or holds `frame i` of which `off` bytes were consumed -/
def SlotOk (frame : Nat → List Nat) (i : Nat) (s : Slot) : Prop :=
  (s.buf = none ∧ s.off = 0 ∧ s.got = []) ∨
  (s.buf = some (frame i) ∧ s.got = (frame i).take s.off ∧ s.off ≤ (frame i).length)

def Inv (frame : Nat → List Nat) (w : SW) : Prop := ∀ i, SlotOk frame i (w.slot i)

theorem inv_init (frame : Nat → List Nat) : Inv frame {} := fun _ => Or.inl ⟨rfl, rfl, rfl⟩

theorem take_append_piece (l : List Nat) (n k : Nat) (hn : n ≤ l.length) :
    l.take n ++ (l.drop n).take k = l.take (n + ((l.drop n).take k).length) := by
  rw [List.length_take, List.length_drop]
  by_cases hk : k ≤ l.length - n
  · rw [Nat.min_eq_left hk, List.take_add]
  · have hk' : l.length - n ≤ k := by omega
    rw [Nat.min_eq_right hk']
    have h1 : (l.drop n).take k = l.drop n := List.take_of_length_le (by rw [List.length_drop]; exact hk')
    have h2 : l.take (n + (l.length - n)) = l := List.take_of_length_le (by omega)
    rw [h1, h2, List.take_append_drop]

theorem step_inv (frame : Nat → List Nat) (w : SW) (st : Step) (h : Inv frame w) :
    Inv frame (w.step false frame st) := by
  intro j
  cases st with
  | enc i =>
    simp only [SW.step]
    cases hb : (w.slot i).buf with
    | some b => exact h j
    | none =>
      simp only [upd]
      by_cases hj : j = i
      · subst hj; simp only [↓reduceIte]; exact Or.inr ⟨rfl, by simp, Nat.zero_le _⟩
      · simp only [hj, ↓reduceIte]; exact h j
  | take i k =>
    simp only [SW.step]
    cases hb : (w.slot i).buf with
    | none => exact h j
    | some b =>
      simp only [upd, Bool.false_eq_true, ↓reduceIte]
      by_cases hj : j = i
      · subst hj
        simp only [↓reduceIte]
        rcases h j with ⟨h1, _, _⟩ | ⟨h1, h2, h3⟩
        · rw [hb] at h1; cases h1
        · rw [hb] at h1
          have hbf : b = frame j := by injection h1
          subst hbf
          refine Or.inr ⟨rfl, ?_, ?_⟩
          · show (w.slot j).got ++ _ = _
            rw [h2]; exact take_append_piece _ _ _ h3
          · show (w.slot j).off + _ ≤ _
            rw [List.length_take, List.length_drop]; omega
      · simp only [hj, ↓reduceIte]; exact h j

theorem run_inv (frame : Nat → List Nat) (steps : List Step) (w : SW) (h : Inv frame w) :
    Inv frame (w.run false frame steps) := by
  induction steps generalizing w with
  | nil => exact h
  | cons s ss ih => exact ih _ (step_inv frame w s h)

end Uquic.Proofs.H3ReqWriter
