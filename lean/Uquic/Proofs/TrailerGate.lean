/-
C19 (round 5): the trailer gate of Stream.Read — invariants over ALL event lists and ALL read sequences.
-/
import Uquic.Model.H3.TrailerGate

namespace Uquic.Proofs.TrailerGate
open Uquic.Model.H3.Fields Uquic.Model.H3.Glue Uquic.Model.H3.TrailerGate

/-- what the trailer section of the message decodes to (none: there is none, or it is rejected) -/
def expectedTrailers (ext : List Nat → Bool) (lim : Int) (evs : List Ev) : Option Headers :=
  match firstHeaders evs with
  | some (tenc, tfs) => decodeTrailers ext lim tenc tfs
  | none => none

/-- once the gate is closed, a Read changes nothing and delivers nothing -/
theorem read_gate_closed (d : Discipline) (ext : List Nat → Bool) (lim : Int) (s : St) (evs : List Ev) (w : Nat)
    (hg : s.gate = true) (hr : s.rem = 0) :
    (readOne d ext lim s evs w).1 = s ∧ ((readOne d ext lim s evs w).2.2 = .err ∨ (readOne d ext lim s evs w).2.2 = .eof) := by
  unfold readOne
  simp only [hr, Nat.lt_irrefl, if_false, gt_iff_lt]
  cases evs with
  | nil => simp
  | cons e r => cases e <;> simp [hg]

theorem reads_gate_closed (d : Discipline) (ext : List Nat → Bool) (lim : Int) (ws : List Nat) :
    ∀ (s : St) (evs : List Ev), s.gate = true → s.rem = 0 →
      (reads d ext lim s evs ws).1 = s ∧ ∀ r ∈ (reads d ext lim s evs ws).2.2, r = .err ∨ r = .eof := by
  induction ws with
  | nil => intro s evs _ _; simp [reads]
  | cons w ws ih =>
    intro s evs hg hr
    obtain ⟨h1, h2⟩ := read_gate_closed d ext lim s evs w hg hr
    rcases hread : readOne d ext lim s evs w with ⟨s1, e1, r⟩
    rw [hread] at h1 h2
    simp only at h1 h2
    subst h1
    obtain ⟨i1, i2⟩ := ih s1 e1 hg hr
    rcases hrest : reads d ext lim s1 e1 ws with ⟨s2, e2, rs⟩
    rw [hrest] at i1 i2
    simp only [reads, hread, hrest]
    refine ⟨i1, ?_⟩
    intro x hx
    simp only [List.mem_cons] at hx
    rcases hx with hx | hx
    · subst hx; exact h2
    · exact i2 x hx

/-- the statement carried through a sequence of reads while the gate is open -/
def Step (ext : List Nat → Bool) (lim : Int) (s : St) (evs : List Ev) (s' : St) : Prop :=
  s'.delivered ≤ s.delivered + s.rem + bodyBefore evs ∧
  ((s'.trailers = s.trailers ∧ s'.sets = s.sets) ∨
   (s'.trailers = expectedTrailers ext lim evs ∧ s'.sets = s.sets + 1 ∧ (expectedTrailers ext lim evs).isSome = true))

theorem reads_gate_open (ext : List Nat → Bool) (lim : Int) (ws : List Nat) :
    ∀ (s : St) (evs : List Ev), s.gate = false → Step ext lim s evs (reads .markFirst ext lim s evs ws).1 := by
  induction ws with
  | nil => intro s evs _; exact ⟨by simp only [reads]; omega, Or.inl ⟨rfl, rfl⟩⟩
  | cons w ws ih =>
    intro s evs hg
    by_cases hrem : s.rem > 0
    · -- inside a DATA frame
      have hread : readOne .markFirst ext lim s evs w =
          ({ s with rem := s.rem - min s.rem w, delivered := s.delivered + min s.rem w }, evs, .bytes (min s.rem w)) := by
        simp [readOne, hrem]
      have := ih { s with rem := s.rem - min s.rem w, delivered := s.delivered + min s.rem w } evs hg
      simp only [reads, hread]
      unfold Step at this ⊢
      simp only at this
      exact ⟨by have := this.1; omega, this.2⟩
    · have hrem0 : s.rem = 0 := by omega
      cases evs with
      | nil =>
        have hread : readOne .markFirst ext lim s [] w = (s, [], .eof) := by simp [readOne, hrem0]
        simp only [reads, hread]
        exact ih s [] hg
      | cons e rest =>
        cases e with
        | data n =>
          have hread : readOne .markFirst ext lim s (Ev.data n :: rest) w =
              ({ s with rem := n - min n w, delivered := s.delivered + min n w }, rest, .bytes (min n w)) := by
            simp [readOne, hrem0, hg]
          have := ih { s with rem := n - min n w, delivered := s.delivered + min n w } rest hg
          simp only [reads, hread]
          unfold Step at this ⊢
          simp only [bodyBefore] at this ⊢
          have hexp : expectedTrailers ext lim (Ev.data n :: rest) = expectedTrailers ext lim rest := by
            simp [expectedTrailers, firstHeaders]
          rw [hexp]
          exact ⟨by have := this.1; omega, this.2⟩
        | headers tenc tfs =>
          have hexp : expectedTrailers ext lim (Ev.headers tenc tfs :: rest) = decodeTrailers ext lim tenc tfs := by
            simp [expectedTrailers, firstHeaders]
          cases hdec : decodeTrailers ext lim tenc tfs with
          | none =>
            have hread : readOne .markFirst ext lim s (Ev.headers tenc tfs :: rest) w = ({ s with gate := true }, rest, .err) := by
              simp [readOne, hrem0, hg, hdec]
            obtain ⟨hc, _⟩ := reads_gate_closed .markFirst ext lim ws { s with gate := true } rest rfl hrem0
            simp only [reads, hread]
            rw [hc]
            unfold Step
            simp [bodyBefore]
          | some h =>
            have hread : readOne .markFirst ext lim s (Ev.headers tenc tfs :: rest) w =
                ({ s with gate := true, trailers := some h, sets := s.sets + 1 }, rest, .bytes 0) := by
              simp [readOne, hrem0, hg, hdec]
            obtain ⟨hc, _⟩ := reads_gate_closed .markFirst ext lim ws { s with gate := true, trailers := some h, sets := s.sets + 1 } rest rfl hrem0
            simp only [reads, hread]
            rw [hc]
            unfold Step
            simp [bodyBefore, hexp, hdec]

/-- without anything after the trailer section and without a second look, the gate model is the
    `readBody` of Model/H3/Glue.lean (which the round-4 theorems are about) -/
theorem readMessage_plain (ext : List Nat → Bool) (lim : Int) (dlen : Option Nat) (trl : Option (Int × List Field)) :
    let o := readMessage .markFirst ext lim (events dlen trl []) 0
    let b := readBody ext lim dlen trl
    o.bytes = b.bytes ∧ o.failed = b.failed ∧ o.trailers = b.trailers ∧ o.againBytes = 0 := by
  cases dlen with
  | none =>
    cases trl with
    | none => simp [readMessage, events, fuelFor, readAll, readOne, retryAll, readBody]
    | some t =>
      obtain ⟨tenc, tfs⟩ := t
      cases hdec : decodeTrailers ext lim tenc tfs <;>
        simp [readMessage, events, fuelFor, readAll, readOne, retryAll, readBody, hdec]
  | some n =>
    cases trl with
    | none =>
      by_cases hn : n = 0
      · subst hn; simp [readMessage, events, fuelFor, readAll, readOne, wantAll, retryAll, readBody]
      · simp [readMessage, events, fuelFor, readAll, readOne, wantAll, retryAll, readBody]
    | some t =>
      obtain ⟨tenc, tfs⟩ := t
      cases hdec : decodeTrailers ext lim tenc tfs <;>
        simp [readMessage, events, fuelFor, readAll, readOne, wantAll, retryAll, readBody, hdec]

/-! ### io.ReadAll and its repetitions are read sequences -/

theorem reads_append (d : Discipline) (ext : List Nat → Bool) (lim : Int) (ws1 ws2 : List Nat) :
    ∀ (s : St) (evs : List Ev),
      (reads d ext lim s evs (ws1 ++ ws2)).1 = (reads d ext lim (reads d ext lim s evs ws1).1 (reads d ext lim s evs ws1).2.1 ws2).1 ∧
      (reads d ext lim s evs (ws1 ++ ws2)).2.1 = (reads d ext lim (reads d ext lim s evs ws1).1 (reads d ext lim s evs ws1).2.1 ws2).2.1 := by
  induction ws1 with
  | nil => intro s evs; simp [reads]
  | cons w ws ih =>
    intro s evs
    rcases hread : readOne d ext lim s evs w with ⟨s1, e1, r⟩
    have := ih s1 e1
    simp only [List.cons_append, reads, hread]
    exact this

/-- a Read never takes back what it delivered -/
theorem readOne_delivered (d : Discipline) (ext : List Nat → Bool) (lim : Int) (s : St) (evs : List Ev) (w : Nat) :
    (readOne d ext lim s evs w).1.delivered = s.delivered +
      (match (readOne d ext lim s evs w).2.2 with | .bytes k => k | _ => 0) := by
  unfold readOne
  split
  · simp
  · split
    · simp
    · split <;> simp
    · split
      · simp
      · split <;> simp

/-- `io.ReadAll` is a sequence of Reads; the bytes it returns are the bytes those Reads delivered -/
theorem readAll_is_reads (d : Discipline) (ext : List Nat → Bool) (lim : Int) (fuel : Nat) :
    ∀ (s : St) (evs : List Ev) (acc : Nat), ∃ ws,
      (readAll d ext lim fuel s evs acc).1 = (reads d ext lim s evs ws).1 ∧
      (readAll d ext lim fuel s evs acc).2.1 = (reads d ext lim s evs ws).2.1 ∧
      (readAll d ext lim fuel s evs acc).2.2.1 + s.delivered = acc + (reads d ext lim s evs ws).1.delivered := by
  induction fuel with
  | zero => intro s evs acc; exact ⟨[], by simp [readAll, reads]⟩
  | succ fuel ih =>
    intro s evs acc
    have hdel := readOne_delivered d ext lim s evs (wantAll s evs)
    rcases hread : readOne d ext lim s evs (wantAll s evs) with ⟨s1, e1, r⟩
    rw [hread] at hdel
    simp only at hdel
    cases r with
    | bytes k =>
      obtain ⟨ws, h1, h2, h3⟩ := ih s1 e1 (acc + k)
      refine ⟨wantAll s evs :: ws, ?_⟩
      simp only [readAll, reads, hread]
      simp only at hdel
      exact ⟨h1, h2, by omega⟩
    | err =>
      refine ⟨[wantAll s evs], ?_⟩
      simp only [readAll, reads, hread]
      simp only at hdel
      refine ⟨?_, ?_, ?_⟩ <;> first | rfl | trivial | omega
    | eof =>
      refine ⟨[wantAll s evs], ?_⟩
      simp only [readAll, reads, hread]
      simp only at hdel
      refine ⟨?_, ?_, ?_⟩ <;> first | rfl | trivial | omega

theorem retryAll_is_reads (d : Discipline) (ext : List Nat → Bool) (lim : Int) (k : Nat) :
    ∀ (s : St) (evs : List Ev) (acc : Nat), ∃ ws,
      (retryAll d ext lim k s evs acc).1 = (reads d ext lim s evs ws).1 ∧
      (retryAll d ext lim k s evs acc).2.2 + s.delivered = acc + (reads d ext lim s evs ws).1.delivered := by
  induction k with
  | zero => intro s evs acc; exact ⟨[], by simp [retryAll, reads]⟩
  | succ k ih =>
    intro s evs acc
    obtain ⟨ws1, a1, a2, a3⟩ := readAll_is_reads d ext lim (fuelFor evs) s evs 0
    rcases hra : readAll d ext lim (fuelFor evs) s evs 0 with ⟨s1, e1, n, f⟩
    rw [hra] at a1 a2 a3
    simp only at a1 a2 a3
    subst a1 a2
    obtain ⟨ws2, b1, b2⟩ := ih (reads d ext lim s evs ws1).1 (reads d ext lim s evs ws1).2.1 (acc + n)
    obtain ⟨c1, _⟩ := reads_append d ext lim ws1 ws2 s evs
    refine ⟨ws1 ++ ws2, ?_⟩
    simp only [retryAll, hra]
    rw [c1]
    exact ⟨b1, by omega⟩

/-- what the handler / the caller of RoundTrip observes is the state after SOME sequence of Reads from
    the initial state: every statement about all read sequences holds for it -/
theorem readMessage_is_reads (d : Discipline) (ext : List Nat → Bool) (lim : Int) (evs : List Ev) (again : Nat) :
    ∃ ws, (readMessage d ext lim evs again).trailers = ((reads d ext lim {} evs ws).1.trailers).getD [] ∧
      (readMessage d ext lim evs again).bytes + (readMessage d ext lim evs again).againBytes = (reads d ext lim {} evs ws).1.delivered := by
  obtain ⟨ws1, a1, a2, a3⟩ := readAll_is_reads d ext lim (fuelFor evs) {} evs 0
  rcases hra : readAll d ext lim (fuelFor evs) {} evs 0 with ⟨s1, e1, n, f⟩
  rw [hra] at a1 a2 a3
  simp only at a1 a2 a3
  subst a1 a2
  obtain ⟨ws2, b1, b2⟩ := retryAll_is_reads d ext lim again (reads d ext lim {} evs ws1).1 (reads d ext lim {} evs ws1).2.1 0
  rcases hrt : retryAll d ext lim again (reads d ext lim {} evs ws1).1 (reads d ext lim {} evs ws1).2.1 0 with ⟨s2, e2, m⟩
  rw [hrt] at b1 b2
  simp only at b1 b2
  subst b1
  obtain ⟨c1, _⟩ := reads_append d ext lim ws1 ws2 {} evs
  refine ⟨ws1 ++ ws2, ?_⟩
  simp only [readMessage, hra, hrt]
  rw [c1]
  refine ⟨rfl, ?_⟩
  have : ({} : St).delivered = 0 := rfl
  omega

end Uquic.Proofs.TrailerGate
