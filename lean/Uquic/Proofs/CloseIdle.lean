/-
Helper lemmas for C17: idle-timeout and keep-alive deadline arithmetic.
-/
import Uquic.Model.Close.Idle

namespace Uquic.Proofs.Idle
open Uquic.Model.Idle

theorem idleStart_ge_lr (s : St) : s.lastPacketReceivedTime ≤ s.idleStart := by
  unfold St.idleStart
  split <;> omega

theorem idleStart_cases (s : St) :
    s.idleStart = s.lastPacketReceivedTime ∨ (s.idleStart = s.firstAESent ∧ s.firstAESent > s.lastPacketReceivedTime) := by
  unfold St.idleStart
  split <;> omega

theorem idlePeriod_ge (s : St) (pto : Int) : s.idleTimeout ≤ s.idlePeriod pto ∧ pto * 3 ≤ s.idlePeriod pto := by
  unfold St.idlePeriod
  omega

theorem loopCheck_idle (s : St) (pto now : Int) (h : s.loopCheck pto now = .idleTimeout) :
    (s.nextKeepAlive pto = 0 ∨ now < s.nextKeepAlive pto) ∧
    ((s.handshakeComplete = false ∧ now - s.idleStart ≥ s.handshakeIdleTimeout) ∨
     (s.handshakeComplete = true ∧ ¬ now < s.nextIdle pto)) := by
  unfold St.loopCheck at h
  simp only at h
  split at h
  · exact absurd h (by simp)
  · rename_i hka
    split at h
    · exact absurd h (by simp)
    · split at h
      · rename_i hidle
        refine ⟨by omega, ?_⟩
        rcases hidle with ⟨h1, h2⟩ | ⟨h1, h2⟩
        · left; exact ⟨by simpa using h1, h2⟩
        · right; exact ⟨h1, h2⟩
      · exact absurd h (by simp)

theorem nextKeepAlive_zero_of (s : St) (pto : Int) :
    (s.keepAlivePeriod = 0 ∨ s.keepAlivePingSent = true) → s.nextKeepAlive pto = 0 := by
  intro h
  unfold St.nextKeepAlive
  simp [h]

theorem nextKeepAlive_lt_nextIdle (s : St) (pto : Int) (hpto : 0 < pto)
    (hkai : s.keepAliveInterval ≤ s.idleTimeout / 2) (hit : 0 ≤ s.idleTimeout)
    (hon : s.keepAlivePeriod ≠ 0) (hunsent : s.keepAlivePingSent = false) :
    s.nextKeepAlive pto = s.lastPacketReceivedTime + max s.keepAliveInterval (pto * 3 / 2) ∧
    s.lastPacketReceivedTime + max s.keepAliveInterval (pto * 3 / 2) < s.nextIdle pto := by
  have hs := idleStart_ge_lr s
  constructor
  · unfold St.nextKeepAlive
    simp [hon, hunsent]
  · unfold St.nextIdle St.idlePeriod
    omega

theorem nextKeepAlive_le_nextIdle (s : St) (pto : Int) (hpto : 0 ≤ pto) (hkai : s.keepAliveInterval ≤ s.idleTimeout) :
    s.nextKeepAlive pto = 0 ∨ s.nextKeepAlive pto ≤ s.nextIdle pto := by
  have hs := idleStart_ge_lr s
  unfold St.nextKeepAlive
  split
  · left; rfl
  · right; unfold St.nextIdle St.idlePeriod; omega

theorem baseDeadline_le_nextIdle (s : St) (pto : Int) (b : Blocked) (hc : s.handshakeComplete = true)
    (hpto : 0 ≤ pto) (hkai : s.keepAliveInterval ≤ s.idleTimeout) :
    s.baseDeadline pto b ≤ s.nextIdle pto := by
  have hk := nextKeepAlive_le_nextIdle s pto hpto hkai
  unfold St.baseDeadline
  simp only [hc]
  split
  · rename_i h; exact absurd h (by simp)
  · split
    · omega
    · split <;> omega

theorem timerDeadline_le_base (s : St) (pto : Int) (b : Blocked) (a l p : Int) :
    s.timerDeadline pto b a l p ≤ s.baseDeadline pto b := by
  unfold St.timerDeadline
  simp only
  split
  · omega
  · split <;> split <;> split <;> (try split) <;> omega

theorem timerDeadline_no_alarm (s : St) (pto : Int) (b : Blocked) :
    s.timerDeadline pto b 0 0 0 = s.baseDeadline pto b := by
  unfold St.timerDeadline
  simp

theorem baseDeadline_idle (s : St) (pto : Int) (b : Blocked) (hc : s.handshakeComplete = true)
    (h : s.nextKeepAlive pto = 0 ∨ b ≠ .none) : s.baseDeadline pto b = s.nextIdle pto := by
  unfold St.baseDeadline
  simp only [hc]
  split
  · rename_i h'; exact absurd h' (by simp)
  · split
    · rfl
    · rename_i hb
      rcases h with h | h
      · simp [h]
      · exact absurd h hb

theorem onPacketReceived_idleStart (s : St) (t : Int) : (s.onPacketReceived t).idleStart = t := by
  simp [St.onPacketReceived, St.idleStart]

theorem onPacketReceived_nextIdle (s : St) (t pto : Int) :
    (s.onPacketReceived t).nextIdle pto = t + s.idlePeriod pto := by
  rw [St.nextIdle, onPacketReceived_idleStart]
  simp [St.idlePeriod, St.onPacketReceived]

theorem negotiate_bounds (cfg peer kap : Int) :
    (negotiate cfg peer kap).2 ≤ (negotiate cfg peer kap).1 / 2 ∧ (negotiate cfg peer kap).1 ≤ cfg ∧
    (peer > 0 → (negotiate cfg peer kap).1 ≤ peer) := by
  unfold negotiate
  simp only
  split <;> omega

end Uquic.Proofs.Idle
