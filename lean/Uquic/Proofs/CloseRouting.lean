/-
Composition of the close logic of connection.go (C17, `Uquic.Model.Close`) with the connection-ID machinery and the
transport's packet handler map (C16, `Uquic.Model.ConnID`).

`ConnSys` = one connection's connIDGenerator, connIDManager and its part of the packetHandlerMap; its histories
interleave generator and manager calls arbitrarily. `closeConn` interprets the effect list of C17's `runTail` /
`handleCloseError` on that system: the `routing` effect makes the generator call of the chosen close path
(`RemoveAll`, `ReplaceWithClosed(nil, 3·PTO)`, or — after `sendConnectionClose`, during which the packer may still use
the manager — `ReplaceWithClosed(packet, 3·PTO)`), the deferred `connIDManagerClose` effect removes the stateless reset
tokens; every other effect leaves the routing state alone.
-/
import Uquic.Model.Close.Conn
import Uquic.Proofs.CloseConn
import Uquic.Proofs.ConnIDClose
import Uquic.Proofs.ConnIDTokSet

namespace Uquic.Proofs.CloseRouting
open Uquic.Model Uquic.Model.ConnID Uquic.Proofs.ConnID

/-- a call on the connection ID generator (our IDs) or on the connection ID manager (the peer's IDs) -/
inductive SOp where
  | gen (op : GOp)
  | mgr (op : Op)
deriving Repr, DecidableEq

/-- generator, manager and the handler map they call back into -/
structure ConnSys where
  g : Generator
  m : Manager
  r : ConnID.Routing
deriving Repr, DecidableEq

def ConnSys.step (mk : Nat → Bytes) (s : ConnSys) : SOp → ConnSys
  | .gen op => { s with g := (s.g.step mk op).1, r := (s.g.step mk op).2.1.foldl Routing.applyG s.r }
  | .mgr op => { s with m := (s.m.step op).1, r := (s.m.step op).2.1.foldl Routing.applyM s.r }

def ConnSys.run (mk : Nat → Bytes) (s : ConnSys) (ops : List SOp) : ConnSys := ops.foldl (ConnSys.step mk) s

/-- manager calls only -/
def ConnSys.runMgr (mk : Nat → Bytes) (s : ConnSys) (ops : List Op) : ConnSys := s.run mk (ops.map SOp.mgr)

/-- the manager calls of a history respect what the callers guarantee (`OpValid`) -/
def SysValid (mk : Nat → Bytes) : ConnSys → List SOp → Prop
  | _, [] => True
  | s, .gen op :: ops => SysValid mk (s.step mk (.gen op)) ops
  | s, .mgr op :: ops => OpValid s.m op ∧ SysValid mk (s.step mk (.mgr op)) ops

/-! ### the token callbacks change nothing but the token registry -/

theorem foldl_applyM_eq (evs : List Ev) (r : ConnID.Routing) :
    evs.foldl Routing.applyM r = { r with tokens := (evs.foldl Routing.applyM r).tokens } := by
  have h := foldl_applyM_rest evs r
  generalize evs.foldl Routing.applyM r = r' at h ⊢
  cases r'; cases r
  simp only at h
  simp [h.1, h.2.1, h.2.2.1, h.2.2.2]

theorem rinv_with_tokens {mk : Nat → Bytes} {I : List Bytes} {g : Generator} {r : ConnID.Routing} (h : RInv mk I g r)
    (T : List Bytes) : RInv mk I g { r with tokens := T } :=
  ⟨⟨h.map.allConn, h.map.nodup, h.map.noTimers⟩, h.exact, h.idsNodup, h.known, h.seqNodup, h.seqLe⟩

/-! ### invariant of the composed system -/

structure SInv (mk : Nat → Bytes) (I : List Bytes) (s : ConnSys) : Prop where
  rinv : RInv mk I s.g s.r
  minv : Inv s.m
  toks : ∀ x ∈ s.r.tokens, x ∈ expectedToks s.m

theorem step_sinv {mk : Nat → Bytes} {I : List Bytes} (hf : FreshGen mk I) {s : ConnSys} (h : SInv mk I s) :
    ∀ (op : SOp), SysValid mk s [op] → SInv mk I (s.step mk op)
  | .gen op, _ => by
    refine ⟨step_rinv hf h.rinv op, h.minv, ?_⟩
    intro x hx
    simp only [ConnSys.step, foldl_applyG_tokens] at hx
    exact h.toks x hx
  | .mgr op, hv => by
    have hv' : OpValid s.m op := hv.1
    refine ⟨?_, (step_spec op h.minv hv').1.inv, ?_⟩
    · simp only [ConnSys.step]
      rw [foldl_applyM_eq]
      exact rinv_with_tokens h.rinv _
    · intro x hx
      simp only [ConnSys.step] at hx ⊢
      have h1 := tokset_subset (s.m.step op).2.1 (expectedToks s.m) s.r h.toks x hx
      exact (step_tok op h.minv hv' (expectedToks s.m) (List.Perm.refl _)).mem_iff.mp h1

theorem run_sinv {mk : Nat → Bytes} {I : List Bytes} (hf : FreshGen mk I) : ∀ {ops : List SOp} {s : ConnSys},
    SInv mk I s → SysValid mk s ops → SInv mk I (s.run mk ops)
  | [], _, h, _ => h
  | .gen op :: ops, s, h, hv => by
    simp only [ConnSys.run, List.foldl_cons]
    exact run_sinv hf (step_sinv hf h (.gen op) (by simp [SysValid])) hv
  | .mgr op :: ops, s, h, hv => by
    simp only [ConnSys.run, List.foldl_cons]
    exact run_sinv hf (step_sinv hf h (.mgr op) ⟨hv.1, trivial⟩) hv.2

theorem sysValid_mgr {mk : Nat → Bytes} : ∀ {ops : List Op} {s : ConnSys}, ValidRun s.m ops → SysValid mk s (ops.map SOp.mgr)
  | [], _, _ => trivial
  | op :: ops, s, hv => by
    simp only [List.map_cons, SysValid]
    exact ⟨hv.1, sysValid_mgr (s := s.step mk (.mgr op)) hv.2⟩

theorem runMgr_g {mk : Nat → Bytes} : ∀ (ops : List Op) (s : ConnSys), (s.runMgr mk ops).g = s.g
  | [], _ => rfl
  | op :: ops, s => by
    simp only [ConnSys.runMgr, ConnSys.run, List.map_cons, List.foldl_cons]
    exact runMgr_g ops (s.step mk (.mgr op))

theorem runMgr_r {mk : Nat → Bytes} : ∀ (ops : List Op) (s : ConnSys),
    (s.runMgr mk ops).r = { s.r with tokens := (s.runMgr mk ops).r.tokens }
  | [], _ => rfl
  | op :: ops, s => by
    simp only [ConnSys.runMgr, ConnSys.run, List.map_cons, List.foldl_cons]
    have h := runMgr_r (mk := mk) ops (s.step mk (.mgr op))
    simp only [ConnSys.runMgr, ConnSys.run] at h
    rw [h]
    simp only [ConnSys.step]
    rw [foldl_applyM_eq]

/-! ### C17's close effects on the composed system -/

/-- the generator call of each close path of `handleCloseError`; `expiry` = 3·PTO -/
def routingCalls (g : Generator) (expiry : Int) : Close.Routing → List GEv
  | .replaceRemote => g.replaceWithClosed false expiry
  | .removeAll => g.removeAll
  | .sendAndReplace _ => g.replaceWithClosed true expiry

/-- is the stand-in of the close path a `closedLocalConn` -/
def localStandIn : Close.Routing → Bool
  | .sendAndReplace _ => true
  | _ => false

/-- the manager calls the packer makes while `sendConnectionClose` packs the CONNECTION_CLOSE (`during`) happen on the
    send path only, before `ReplaceWithClosed` -/
def beforeRouting (mk : Nat → Bytes) (during : List Op) (s : ConnSys) : Close.Routing → ConnSys
  | .sendAndReplace _ => s.runMgr mk during
  | _ => s

def applyEffect (mk : Nat → Bytes) (expiry : Int) (during : List Op) (s : ConnSys) : Close.Effect → ConnSys
  | .routing rt =>
    let s1 := beforeRouting mk during s rt
    { s1 with r := (routingCalls s1.g expiry rt).foldl Routing.applyG s1.r }
  | .connIDManagerClose => { s with m := s.m.close.1, r := s.m.close.2.foldl Routing.applyM s.r }
  | _ => s

def closeConn (mk : Nat → Bytes) (expiry : Int) (during : List Op) (s : ConnSys) (effs : List Close.Effect) : ConnSys :=
  effs.foldl (applyEffect mk expiry during) s

/-- of all the effects of the tail of `run`, exactly the routing replacement and then the manager's `Close` act on the
    routing state, in this order -/
theorem closeConn_runTail (mk : Nat → Bytes) (expiry : Int) (during : List Op) (s : ConnSys) (env : Close.Env)
    (ce : Close.CloseError) :
    closeConn mk expiry during s (Close.runTail env ce) =
      applyEffect mk expiry during
        (applyEffect mk expiry during s (.routing (Close.routingOf env.persp env.sentFirstPacket ce))) .connIDManagerClose := by
  cases hd : env.hasDatagramQueue <;> cases hq : env.hasQlog <;> cases hr : (Close.classify ce).recreate <;>
    cases hr2 : ce.isRecreate <;>
    simp [closeConn, Close.runTail, Close.handleCloseError, hd, hq, hr, hr2, applyEffect]

theorem closeConn_handleCloseError (mk : Nat → Bytes) (expiry : Int) (during : List Op) (s : ConnSys) (env : Close.Env)
    (ce : Close.CloseError) :
    closeConn mk expiry during s (Close.handleCloseError env ce) =
      applyEffect mk expiry during
        (applyEffect mk expiry during s (.routing (Close.routingOf env.persp env.sentFirstPacket ce))) .connIDManagerClose := by
  cases hd : env.hasDatagramQueue <;> cases hq : env.hasQlog <;> cases hr : (Close.classify ce).recreate <;>
    simp [closeConn, Close.handleCloseError, hd, hq, hr, applyEffect]

/-- the state after the routing effect: tokens as the manager left them, handlers as the generator call made them -/
theorem beforeRouting_sinv {mk : Nat → Bytes} {I : List Bytes} (hf : FreshGen mk I) {s : ConnSys} (h : SInv mk I s)
    (during : List Op) (hd : ValidRun s.m during) (rt : Close.Routing) : SInv mk I (beforeRouting mk during s rt) := by
  cases rt with
  | replaceRemote => exact h
  | removeAll => exact h
  | sendAndReplace f => exact run_sinv hf h (sysValid_mgr hd)

theorem beforeRouting_g {mk : Nat → Bytes} (during : List Op) (s : ConnSys) (rt : Close.Routing) :
    (beforeRouting mk during s rt).g = s.g := by
  cases rt with
  | replaceRemote => rfl
  | removeAll => rfl
  | sendAndReplace f => exact runMgr_g during s

theorem beforeRouting_counters {mk : Nat → Bytes} (during : List Op) (s : ConnSys) (rt : Close.Routing) :
    (beforeRouting mk during s rt).r.counters = s.r.counters := by
  cases rt with
  | replaceRemote => rfl
  | removeAll => rfl
  | sendAndReplace f =>
    simp only [beforeRouting]
    rw [runMgr_r]

/-- After the manager's `Close` no stateless reset token of the connection is left in the handler map. -/
theorem close_tokens_nil {mk : Nat → Bytes} {I : List Bytes} {s : ConnSys} (h : SInv mk I s) :
    (s.m.close.2.foldl Routing.applyM s.r).tokens = [] := by
  apply List.eq_nil_iff_forall_not_mem.mpr
  intro x hx
  have h1 := tokset_subset s.m.close.2 (expectedToks s.m) s.r h.toks x hx
  have h2 := (close_tok s.m (expectedToks s.m) (List.Perm.refl _)).mem_iff.mp h1
  simp [expectedToks, Manager.close] at h2

/-- the whole close, as far as the handler map is concerned: the generator call of the close path on the state the
    packer left, with an empty token registry -/
theorem close_result {mk : Nat → Bytes} {I : List Bytes} (hf : FreshGen mk I) {s : ConnSys} (h : SInv mk I s)
    (expiry : Int) (during : List Op) (hd : ValidRun s.m during) (rt : Close.Routing) :
    (applyEffect mk expiry during (applyEffect mk expiry during s (.routing rt)) .connIDManagerClose).r =
      { (routingCalls s.g expiry rt).foldl Routing.applyG (beforeRouting mk during s rt).r with tokens := [] } := by
  have h1 : SInv mk I (beforeRouting mk during s rt) := beforeRouting_sinv hf h during hd rt
  have hg : (beforeRouting mk during s rt).g = s.g := beforeRouting_g during s rt
  simp only [applyEffect]
  generalize beforeRouting mk during s rt = s1 at h1 hg ⊢
  rw [foldl_applyM_eq]
  -- after the routing effect the invariant's token part still holds (the generator call leaves the tokens alone)
  have ht : ((s1.m.close.2).foldl Routing.applyM ((routingCalls s1.g expiry rt).foldl Routing.applyG s1.r)).tokens = [] := by
    apply List.eq_nil_iff_forall_not_mem.mpr
    intro x hx
    have hsub : ∀ y ∈ ((routingCalls s1.g expiry rt).foldl Routing.applyG s1.r).tokens, y ∈ expectedToks s1.m := by
      intro y hy
      rw [foldl_applyG_tokens] at hy
      exact h1.toks y hy
    have h2 := tokset_subset s1.m.close.2 (expectedToks s1.m) _ hsub x hx
    have h3 := (close_tok s1.m (expectedToks s1.m) (List.Perm.refl _)).mem_iff.mp h2
    simp [expectedToks, Manager.close] at h3
  rw [ht, hg]

/-! ### expiry and packet delivery do not look at the token registry -/

theorem advance_with_tokens (r : ConnID.Routing) (T : List Bytes) (d : Int) :
    ({ r with tokens := T } : ConnID.Routing).advance d = { r.advance d with tokens := T } := by
  simp [Routing.advance]

theorem deliver_with_tokens (r : ConnID.Routing) (T : List Bytes) (id : Bytes) :
    (({ r with tokens := T } : ConnID.Routing).deliver id).2 = (r.deliver id).2 := by
  unfold Routing.deliver
  simp only
  split <;> simp_all

/-! ### the two models of the stand-in's back-off agree

C16's handler map counts the packets of a `closedLocalConn` and answers when `n &&& (n-1) == 0` (`isPow2`); C17's
`StandIn` answers when `bits.OnesCount32(n) == 1` (`onesCount`, what closed_conn.go computes). -/

theorem isPow2_iff (n : Nat) : isPow2 n = true ↔ ∃ k, n = 2 ^ k := by
  have key : ∀ n, 0 < n → n &&& (n - 1) = 0 → ∃ k, n = 2 ^ k := by
    intro n
    induction n using Nat.strongRecOn with
    | _ n ih =>
      intro hpos h
      have hd : n / 2 &&& (n - 1) / 2 = 0 := by rw [← Nat.and_div_two, h]
      rcases Nat.mod_two_eq_zero_or_one n with h0 | h1
      · have h2 : (n - 1) / 2 = n / 2 - 1 := by omega
        rw [h2] at hd
        obtain ⟨k, hk⟩ := ih (n / 2) (by omega) (by omega) hd
        exact ⟨k + 1, by rw [Nat.pow_succ]; omega⟩
      · have h2 : (n - 1) / 2 = n / 2 := by omega
        rw [h2, Nat.and_self] at hd
        exact ⟨0, by simp; omega⟩
  unfold isPow2
  simp only [Bool.and_eq_true, decide_eq_true_eq, beq_iff_eq]
  constructor
  · rintro ⟨hp, h⟩; exact key n hp h
  · rintro ⟨k, rfl⟩
    exact ⟨Nat.two_pow_pos k, by rw [Nat.and_two_pow_sub_one_eq_mod]; exact Nat.mod_self _⟩

theorem isPow2_eq_onesCount (n : Nat) : isPow2 n = (Close.onesCount n == 1) := by
  have h1 := isPow2_iff n
  have h2 := Uquic.Proofs.Close.onesCount_eq_one n
  cases hp : isPow2 n <;> cases ho : (Close.onesCount n == 1) <;> simp_all

/-- the answer of C17's local stand-in to its `(i+1)`-th packet -/
def standInAnswer (i : Nat) : Bool := ((Close.StandIn.closedLocal 0).feed i).1.handlePacket.2

theorem standInAnswer_eq (i : Nat) (hi : i + 1 < 4294967296) : standInAnswer i = isPow2 (i + 1) := by
  unfold standInAnswer
  rw [Uquic.Proofs.Close.feed_counter i 0 (by omega)]
  have hmod : (0 + i + 1) % 4294967296 = i + 1 := by omega
  simp only [Close.StandIn.handlePacket, hmod]
  rw [isPow2_eq_onesCount]

/-- packets arrive one after the other -/
def deliverAll (r : ConnID.Routing) : List Bytes → ConnID.Routing × List Delivery
  | [] => (r, [])
  | id :: ids => (deliverAll (r.deliver id).1 ids |>.1, (r.deliver id).2 :: (deliverAll (r.deliver id).1 ids).2)

theorem deliver_local {r : ConnID.Routing} {id : Bytes} {k : Nat} (h : lookupH id r.handlers = some (.closedLocal k)) :
    r.deliver id = ({ r with counters := r.counters.set k (r.counters.getD k 0 + 1) },
                    .closedLocal (isPow2 (r.counters.getD k 0 + 1))) := by
  unfold Routing.deliver
  rw [h]

theorem deliver_remote {r : ConnID.Routing} {id : Bytes} (h : lookupH id r.handlers = some .closedRemote) :
    r.deliver id = (r, .closedRemote) := by
  unfold Routing.deliver
  rw [h]

/-- packets for IDs that map to the local stand-in number `k`: the `i`-th of them (from 0) is answered iff the counter
    reaches a power of two -/
theorem deliverAll_local (k : Nat) : ∀ (ids : List Bytes) (r : ConnID.Routing) (c : Nat),
    (∀ id ∈ ids, lookupH id r.handlers = some (.closedLocal k)) → k < r.counters.length → r.counters.getD k 0 = c →
    (deliverAll r ids).2 = (List.range ids.length).map fun i => Delivery.closedLocal (isPow2 (c + i + 1))
  | [], _, _, _, _, _ => by simp [deliverAll]
  | id :: ids, r, c, h, hk, hc => by
    have hd := deliver_local (h id (by simp))
    simp only [deliverAll, hd, List.length_cons, List.range_succ_eq_map, List.map_cons, List.map_map]
    rw [hc]
    congr 1
    have ih := deliverAll_local k ids { r with counters := r.counters.set k (c + 1) } (c + 1)
      (fun x hx => h x (List.mem_cons_of_mem _ hx)) (by simpa using hk)
      (by simp [List.getD_eq_getElem?_getD, hk])
    rw [ih]
    apply List.map_congr_left
    intro i _
    simp only [Function.comp, Nat.succ_eq_add_one]
    congr 2
    omega

theorem deliverAll_remote : ∀ (ids : List Bytes) (r : ConnID.Routing),
    (∀ id ∈ ids, lookupH id r.handlers = some .closedRemote) →
    (deliverAll r ids).2 = ids.map fun _ => Delivery.closedRemote
  | [], _, _ => by simp [deliverAll]
  | id :: ids, r, h => by
    have hd := deliver_remote (h id (by simp))
    simp only [deliverAll, hd, List.map_cons]
    rw [deliverAll_remote ids r (fun x hx => h x (List.mem_cons_of_mem _ hx))]

theorem deliverAll_with_tokens (T : List Bytes) : ∀ (ids : List Bytes) (r : ConnID.Routing),
    (deliverAll { r with tokens := T } ids).2 = (deliverAll r ids).2
  | [], _ => rfl
  | id :: ids, r => by
    simp only [deliverAll, deliver_with_tokens]
    have h : (({ r with tokens := T } : ConnID.Routing).deliver id).1 = { (r.deliver id).1 with tokens := T } := by
      unfold Routing.deliver
      simp only
      split <;> simp_all
    rw [h, deliverAll_with_tokens T ids]

end Uquic.Proofs.CloseRouting
