/-
Helper lemmas for C17: setCloseError (first cause wins), the CONNECTION_CLOSE decision, the closed-connection
stand-in (exponential back-off).
-/
import Uquic.Model.Close.Conn

namespace Uquic.Proofs.Close
open Uquic.Model.Close

/-- a sequence of close requests, in the order their compare-and-swap executes -/
def requests (s : CloseState) (l : List CloseError) : CloseState := l.foldl CloseState.setCloseError s

theorem setCloseError_of_some (s : CloseState) (e0 e : CloseError) (h : s.closeErr = some e0) :
    (s.setCloseError e).closeErr = some e0 := by
  simp [CloseState.setCloseError, h]

theorem requests_of_some (l : List CloseError) (s : CloseState) (e0 : CloseError) (h : s.closeErr = some e0) :
    (requests s l).closeErr = some e0 := by
  induction l generalizing s with
  | nil => simpa [requests] using h
  | cons e rest ih =>
    simp only [requests, List.foldl_cons]
    exact ih _ (setCloseError_of_some s e0 e h)

theorem requests_first (e : CloseError) (rest : List CloseError) :
    (requests {} (e :: rest)).closeErr = some e := by
  simp only [requests, List.foldl_cons]
  exact requests_of_some rest _ e (by simp [CloseState.setCloseError])

theorem requests_closeChan (l : List CloseError) (s : CloseState) (h : l ≠ [] ∨ s.closeChan = true) :
    (requests s l).closeChan = true := by
  induction l generalizing s with
  | nil => simpa [requests] using h
  | cons e rest ih =>
    simp only [requests, List.foldl_cons]
    exact ih _ (Or.inr (by simp [CloseState.setCloseError]))

/-! ### onesCount = 1 ↔ power of two -/

theorem onesCount_eq_zero (n : Nat) : onesCount n = 0 ↔ n = 0 := by
  induction n using Nat.strongRecOn with
  | _ n ih =>
    cases n with
    | zero => simp [onesCount]
    | succ m =>
      rw [onesCount]
      have h := ih ((m + 1) / 2) (by omega)
      constructor
      · intro hz
        have h1 : (m + 1) % 2 = 0 := by omega
        have h2 : onesCount ((m + 1) / 2) = 0 := by omega
        have := h.mp h2
        omega
      · intro hz; omega

theorem onesCount_eq_one (n : Nat) : onesCount n = 1 ↔ ∃ k, n = 2 ^ k := by
  induction n using Nat.strongRecOn with
  | _ n ih =>
    cases n with
    | zero =>
      simp [onesCount]
      intro k hk
      have : 0 < 2 ^ k := Nat.two_pow_pos k
      omega
    | succ m =>
      rw [onesCount]
      have hrec := ih ((m + 1) / 2) (by omega)
      have hz := onesCount_eq_zero ((m + 1) / 2)
      constructor
      · intro h
        rcases Nat.mod_two_eq_zero_or_one (m + 1) with h0 | h1
        · have : onesCount ((m + 1) / 2) = 1 := by omega
          obtain ⟨k, hk⟩ := hrec.mp this
          exact ⟨k + 1, by rw [Nat.pow_succ]; omega⟩
        · have : onesCount ((m + 1) / 2) = 0 := by omega
          have := hz.mp this
          exact ⟨0, by simp; omega⟩
      · rintro ⟨k, hk⟩
        cases k with
        | zero =>
          simp at hk
          subst hk
          simp [onesCount]
        | succ k =>
          rw [Nat.pow_succ] at hk
          have h0 : (m + 1) % 2 = 0 := by omega
          have : (m + 1) / 2 = 2 ^ k := by omega
          have := hrec.mpr ⟨k, this⟩
          omega

/-- after `m < 2^32` packets the counter of a local stand-in is `m` -/
theorem feed_counter (m : Nat) : ∀ c, c + m < 4294967296 →
    ((StandIn.closedLocal c).feed m).1 = StandIn.closedLocal (c + m)
  | c, h => by
    induction m generalizing c with
    | zero => simp [StandIn.feed]
    | succ k ih =>
      have hmod : (c + 1) % 4294967296 = c + 1 := Nat.mod_eq_of_lt (by omega)
      have := ih (c + 1) (by omega)
      simp only [StandIn.feed, StandIn.handlePacket, hmod]
      rw [this]
      congr 1
      omega

theorem remote_feed (m : Nat) : (StandIn.closedRemote.feed m) = (StandIn.closedRemote, 0) := by
  induction m with
  | zero => simp [StandIn.feed]
  | succ k ih => simp [StandIn.feed, StandIn.handlePacket, ih]

end Uquic.Proofs.Close
