/-
C04: what one operation can do to any one controller of the connection — monotonicity of every
counter and window, and the frame conditions (which operations can move which field).
-/
import Uquic.Proofs.FlowInv

set_option linter.unusedVariables false

namespace Uquic.Proofs.Flow
open Uquic.Model.FlowControl

structure SendMono (c c' : Base) : Prop where
  sw : c.sendWindow ≤ c'.sendWindow
  lb : c.lastBlockedAt ≤ c'.lastBlockedAt
  bs : c.bytesSent ≤ c'.bytesSent

structure RecvMono (c c' : Base) : Prop where
  br : c.bytesRead ≤ c'.bytesRead
  hr : c.highestReceived ≤ c'.highestReceived
  rw : c.receiveWindow ≤ c'.receiveWindow
  rws : c.receiveWindowSize ≤ c'.receiveWindowSize
  hi : c'.receiveWindowSize ≤ max c.receiveWindowSize c.maxReceiveWindowSize
  mx : c'.maxReceiveWindowSize = c.maxReceiveWindowSize

theorem SendMono.refl (c : Base) : SendMono c c := ⟨by omega, by omega, by omega⟩
theorem RecvMono.refl (c : Base) : RecvMono c c := ⟨by omega, by omega, by omega, by omega, by omega, rfl⟩

/-- the effect of operation `op` on stream `id` -/
structure StreamRel (op : Op) (id : Nat) (st st' : Stream) : Prop where
  send : SendMono st.base st'.base
  recv : RecvMono st.base st'.base
  swFrame : (∀ v, op ≠ .smax id v) → st'.base.sendWindow = st.base.sendWindow
  swMax : ∀ v, op = .smax id v → st'.base.sendWindow = max st.base.sendWindow v
  rwFrame : (∀ now allow, op ≠ .supd id now allow) → st'.base.receiveWindow = st.base.receiveWindow
  fin : st.receivedFinalOffset = true → st'.receivedFinalOffset = true

theorem StreamRel.refl (op : Op) (id : Nat) (h : ∀ v, op ≠ .smax id v) (st : Stream) : StreamRel op id st st :=
  ⟨SendMono.refl _, RecvMono.refl _, fun _ => rfl, fun v e => absurd e (h v), fun _ => rfl, fun hf => hf⟩

theorem recv_fin_mono (st : Stream) (c : Base) (off : Int) (fin : Bool) (now : Int)
    (hf : st.receivedFinalOffset = true) : (st.updateHighestReceived c off fin now).1.receivedFinalOffset = true := by
  unfold Stream.updateHighestReceived Conn.incrementHighestReceived
  simp only []
  repeat' split
  all_goals simp [hf]

theorem target_cases {P : Stream → Stream → Prop} (hrefl : ∀ z, P z z) {l : List Stream} {i j : Nat}
    {x y z : Stream} (hi : l[i]? = some x) (hj : l[j]? = some z) (hP : i = j → P x y) :
    ∃ z', (l.set i y)[j]? = some z' ∧ P z z' := by
  by_cases e : i = j
  · subst e
    rw [hi] at hj; cases hj
    have hlt : i < l.length := by
      rcases Nat.lt_or_ge i l.length with h | h
      · exact h
      · rw [List.getElem?_eq_none h] at hi; cases hi
    exact ⟨y, List.getElem?_set_self hlt, hP rfl⟩
  · exact ⟨z, by rw [List.getElem?_set_ne e]; exact hj, hrefl z⟩

/-- Every operation except a successful 0-RTT reset keeps every stream, and moves its counters and
    windows only upwards; `sendWindow` is moved only by `MAX_STREAM_DATA` (to the maximum), and
    `receiveWindow` only by the stream's own `GetWindowUpdate`. -/
theorem stream_step {s : State} (op : Op) (hi : Inv s) (hp : Pre s op) {id : Nat} {st : Stream}
    (hs : s.streams[id]? = some st) (hr : (step s op).2 ≠ .resetOk) :
    ∃ st', (step s op).1.streams[id]? = some st' ∧ StreamRel op id st st' := by
  have l1 := hi.streams st (mem_of_getElem? hs)
  obtain ⟨a1, a2, a3, a4, a5, a6, a7⟩ := l1
  cases op with
  | newStream rw maxrw sw =>
    refine ⟨st, ?_, StreamRel.refl _ _ (by intro v; simp) st⟩
    simp only [step, stepT]
    have hlt : id < s.streams.length := by
      rcases Nat.lt_or_ge id s.streams.length with h | h
      · exact h
      · rw [List.getElem?_eq_none h] at hs; cases hs
    rw [List.getElem?_append_left hlt]; exact hs
  | rtt v => exact ⟨st, hs, StreamRel.refl _ _ (by intro v; simp) st⟩
  | cupd now allow =>
    refine ⟨st, ?_, StreamRel.refl _ _ (by intro v; simp) st⟩
    simp only [step, stepT]; split <;> exact hs
  | cmax v => exact ⟨st, hs, StreamRel.refl _ _ (by intro v; simp) st⟩
  | cwin => exact ⟨st, hs, StreamRel.refl _ _ (by intro v; simp) st⟩
  | cblocked => exact ⟨st, hs, StreamRel.refl _ _ (by intro v; simp) st⟩
  | swin i =>
    refine ⟨st, ?_, StreamRel.refl _ _ (by intro v; simp) st⟩
    simp only [step, stepT]; split <;> exact hs
  | reset =>
    simp only [step, stepT] at hr ⊢
    split
    · exact ⟨st, hs, StreamRel.refl _ _ (by intro v; simp) st⟩
    · rename_i c heq; simp [heq] at hr
  | recv i off fin now =>
    simp only [step, stepT]
    split
    · exact ⟨st, hs, StreamRel.refl _ _ (by intro v; simp) st⟩
    · rename_i st0 heq
      refine target_cases (StreamRel.refl _ _ (by intro v; simp)) heq hs ?_
      intro e; subst e
      rw [heq] at hs; cases hs
      obtain ⟨s1, s2, s3, s4, s5, s6, s7⟩ := recv_same_stream st s.conn off fin now
      have hh := recv_highest st s.conn off fin now
      simp only [] at hh
      refine ⟨⟨by omega, by omega, by omega⟩, ⟨by omega, by omega, by omega, by omega, by omega, s7⟩,
        fun _ => s2, by intro v e; simp at e, fun _ => s5, ?_⟩
      exact recv_fin_mono st s.conn off fin now
  | read i n =>
    simp only [step, stepT]
    split
    · exact ⟨st, hs, StreamRel.refl _ _ (by intro v; simp) st⟩
    · rename_i st0 heq
      refine target_cases (StreamRel.refl _ _ (by intro v; simp)) heq hs ?_
      intro e; subst e
      rw [heq] at hs; cases hs
      have h0 := hp.1
      refine ⟨⟨?_, ?_, ?_⟩, ⟨?_, ?_, ?_, ?_, ?_, ?_⟩, fun _ => ?_, by intro v e; simp at e, fun _ => ?_, ?_⟩
      all_goals (simp [Stream.addBytesRead, Base.addBytesRead, Conn.addBytesRead]; try omega)
  | abandon i =>
    simp only [step, stepT]
    split
    · exact ⟨st, hs, StreamRel.refl _ _ (by intro v; simp) st⟩
    · rename_i st0 heq
      refine target_cases (StreamRel.refl _ _ (by intro v; simp)) heq hs ?_
      intro e; subst e
      rw [heq] at hs; cases hs
      refine ⟨⟨?_, ?_, ?_⟩, ⟨?_, ?_, ?_, ?_, ?_, ?_⟩, fun _ => ?_, by intro v e; simp at e, fun _ => ?_, ?_⟩
      all_goals (simp only [Stream.abandon]; split <;> simp <;> try omega)
  | sent i n =>
    simp only [step, stepT]
    split
    · exact ⟨st, hs, StreamRel.refl _ _ (by intro v; simp) st⟩
    · rename_i st0 heq
      refine target_cases (StreamRel.refl _ _ (by intro v; simp)) heq hs ?_
      intro e; subst e
      rw [heq] at hs; cases hs
      have h0 := hp.1
      refine ⟨⟨?_, ?_, ?_⟩, ⟨?_, ?_, ?_, ?_, ?_, ?_⟩, fun _ => ?_, by intro v e; simp at e, fun _ => ?_, ?_⟩
      all_goals (simp [Stream.addBytesSent, Base.addBytesSent]; try omega)
  | smax i v =>
    simp only [step, stepT]
    split
    · refine ⟨st, hs, StreamRel.refl _ _ ?_ st⟩
      rename_i hnone
      intro v' e; simp at e; rw [e.1] at hnone; rw [hnone] at hs; cases hs
    · rename_i st0 heq
      by_cases e : i = id
      · subst e
        rw [heq] at hs; cases hs
        obtain ⟨u1, u2, u3, u4, u5, u6, u7, u8, _⟩ := updateSendWindow_spec st.base v
        have hlt : i < s.streams.length := by
          rcases Nat.lt_or_ge i s.streams.length with h | h
          · exact h
          · rw [List.getElem?_eq_none h] at heq; cases heq
        refine ⟨_, List.getElem?_set_self hlt, ⟨by simp only []; omega, by simp only []; omega, by simp only []; omega⟩,
          ⟨by simp only []; omega, by simp only []; omega, by simp only []; omega, by simp only []; omega,
           by simp only []; omega, u8⟩, ?_, ?_, fun _ => u6, fun hf => hf⟩
        · intro hne; exact absurd rfl (hne v)
        · intro v' e; simp at e; subst e; exact u2
      · refine ⟨st, by rw [List.getElem?_set_ne e]; exact hs, StreamRel.refl _ _ ?_ st⟩
        intro v' e'; simp at e'; exact e e'.1
  | sblocked i =>
    simp only [step, stepT]
    split
    · exact ⟨st, hs, StreamRel.refl _ _ (by intro v; simp) st⟩
    · rename_i st0 heq
      refine target_cases (StreamRel.refl _ _ (by intro v; simp)) heq hs ?_
      intro e; subst e
      rw [heq] at hs; cases hs
      obtain ⟨u1, u2, u3, u4, u5, u6, u7, u8⟩ := blocked_spec st.base
      simp only [Stream.isNewlyBlocked]
      refine ⟨⟨by simp only []; omega, by simp only []; omega, by simp only []; omega⟩,
        ⟨by simp only []; omega, by simp only []; omega, by simp only []; omega, by simp only []; omega,
         by simp only []; omega, u7⟩, fun _ => u2, by intro v e; simp at e, fun _ => u5, fun hf => hf⟩
  | supd i now allow =>
    simp only [step, stepT]
    split
    · exact ⟨st, hs, StreamRel.refl _ _ (by intro v; simp) st⟩
    · rename_i st0 heq
      have key : ∃ st', (s.streams.set i (st0.getWindowUpdate s.conn now s.rtt (s.allowOf allow)).1)[id]? = some st' ∧
          StreamRel (.supd i now allow) id st st' := by
        refine target_cases (StreamRel.refl _ _ (by intro v; simp)) heq hs ?_
        intro e; subst e
        rw [heq] at hs; cases hs
        have sp := supd_rel st s.conn now s.rtt (s.allowOf allow)
        simp only [] at sp
        obtain ⟨sp1, _, sp3⟩ := sp
        have hfin : st.receivedFinalOffset = true →
            (st.getWindowUpdate s.conn now s.rtt (s.allowOf allow)).1.receivedFinalOffset = true := by
          intro hf; rw [sp3]; exact hf
        rcases sp1 with u | ⟨_, u⟩ | ⟨e, _⟩
        · obtain ⟨u1, u2, u3, u4, u5, u6, u7, u8, u9⟩ := u
          exact ⟨⟨by omega, by omega, by omega⟩, ⟨by omega, by omega, by omega, by omega, by omega, u6⟩,
            fun _ => u2, by intro v e; simp at e, fun hne => absurd rfl (hne now allow), hfin⟩
        · obtain ⟨u1, u2, u3, u4, u5, u6, u7, u8, u9⟩ := u
          exact ⟨⟨by omega, by omega, by omega⟩, ⟨by omega, by omega, by omega, by omega, by omega, u6⟩,
            fun _ => u2, by intro v e; simp at e, fun hne => absurd rfl (hne now allow), hfin⟩
        · rw [e]; exact StreamRel.refl _ _ (by intro v; simp) st
      split <;> exact key

/-- the effect of operation `op` (with outcome `out`) on the connection controller -/
structure ConnRel (op : Op) (out : Out) (c c' : Base) : Prop where
  recv : RecvMono c c'
  send : out ≠ .resetOk → SendMono c c'
  swFrame : (∀ v, op ≠ .cmax v) → out ≠ .resetOk → c'.sendWindow = c.sendWindow
  swMax : ∀ v, op = .cmax v → c'.sendWindow = max c.sendWindow v
  rwFrame : (∀ now allow, op ≠ .cupd now allow) → c'.receiveWindow = c.receiveWindow

theorem ConnRel.refl (op : Op) (out : Out) (h : ∀ v, op ≠ .cmax v) (c : Base) : ConnRel op out c c :=
  ⟨RecvMono.refl _, fun _ => SendMono.refl _, fun _ _ => rfl, fun v e => absurd e (h v), fun _ => rfl⟩

theorem ConnRel.of_tune (op : Op) (out : Out) (h : ∀ v, op ≠ .cmax v) {c c' : Base} (t : TuneRel c c') :
    ConnRel op out c c' := by
  obtain ⟨t1, t2, t3, t4, t5, t6, t7, t8, t9⟩ := t
  exact ⟨⟨by omega, by omega, by omega, by omega, by omega, t7⟩, fun _ => ⟨by omega, by omega, by omega⟩,
    fun _ _ => t2, fun v e => absurd e (h v), fun _ => t6⟩

theorem conn_step {s : State} (op : Op) (hi : Inv s) (hp : Pre s op) :
    ConnRel op (step s op).2 s.conn (step s op).1.conn := by
  obtain ⟨b1, b2, b3, b4, b5, b6⟩ := hi.conn
  cases op with
  | newStream rw maxrw sw => exact ConnRel.refl _ _ (by intro v; simp) _
  | rtt v => exact ConnRel.refl _ _ (by intro v; simp) _
  | cwin => exact ConnRel.refl _ _ (by intro v; simp) _
  | swin i =>
    simp only [step, stepT]; split <;> exact ConnRel.refl _ _ (by intro v; simp) _
  | smax i v =>
    simp only [step, stepT]; split <;> exact ConnRel.refl _ _ (by intro v; simp) _
  | sblocked i =>
    simp only [step, stepT]; split <;> exact ConnRel.refl _ _ (by intro v; simp) _
  | cmax v =>
    simp only [step, stepT]
    obtain ⟨u1, u2, u3, u4, u5, u6, u7, u8, _⟩ := updateSendWindow_spec s.conn v
    exact ⟨⟨by omega, by omega, by omega, by omega, by omega, u8⟩, fun _ => ⟨by omega, by omega, by omega⟩,
      fun hne => absurd rfl (hne v), by intro v' e; simp at e; subst e; exact u2, fun _ => u6⟩
  | cblocked =>
    simp only [step, stepT]
    obtain ⟨u1, u2, u3, u4, u5, u6, u7, u8⟩ := blocked_spec s.conn
    exact ⟨⟨by omega, by omega, by omega, by omega, by omega, u7⟩, fun _ => ⟨by omega, by omega, by omega⟩,
      fun _ _ => u2, by intro v e; simp at e, fun _ => u5⟩
  | cupd now allow =>
    simp only [step, stepT]
    obtain ⟨u1, u2, u3, u4, u5, u6, u7, u8, u9⟩ := getWindowUpdate_rel s.conn now s.rtt (s.allowOf allow)
    have key : ∀ out, ConnRel (.cupd now allow) out s.conn (s.conn.getWindowUpdate now s.rtt (s.allowOf allow)).1 :=
      fun out => ⟨⟨by omega, by omega, by omega, by omega, by omega, u6⟩, fun _ => ⟨by omega, by omega, by omega⟩,
        fun _ _ => u2, by intro v e; simp at e, fun hne => absurd rfl (hne now allow)⟩
    split <;> exact key _
  | reset =>
    simp only [step, stepT]
    split
    · exact ConnRel.refl _ _ (by intro v; simp) _
    · rename_i c heq
      simp only [Conn.reset] at heq
      split at heq
      · simp at heq
      · simp at heq; subst heq
        exact ⟨⟨by simp, by simp, by simp, by simp, by simp only []; omega, rfl⟩, fun h => absurd rfl h,
          fun _ h => absurd rfl h, by intro v e; simp at e, fun _ => rfl⟩
  | recv i off fin now =>
    simp only [step, stepT]
    split
    · exact ConnRel.refl _ _ (by intro v; simp) _
    · rename_i st heq
      obtain ⟨c1, c2, c3, c4, c5, c6, c7⟩ := recv_same_conn st s.conn off fin now
      have hh := recv_highest st s.conn off fin now
      simp only [] at hh
      show ConnRel _ _ s.conn (st.updateHighestReceived s.conn off fin now).2.1
      exact ⟨⟨by omega, by omega, by omega, by omega, by omega, c7⟩, fun _ => ⟨by omega, by omega, by omega⟩,
        fun _ _ => c2, by intro v e; simp at e, fun _ => c5⟩
  | read i n =>
    simp only [step, stepT]
    split
    · exact ConnRel.refl _ _ (by intro v; simp) _
    · rename_i st heq
      have h0 := hp.1
      refine ⟨⟨?_, ?_, ?_, ?_, ?_, ?_⟩, fun _ => ⟨?_, ?_, ?_⟩, fun _ _ => ?_, by intro v e; simp at e, fun _ => ?_⟩
      all_goals (simp [Stream.addBytesRead, Base.addBytesRead, Conn.addBytesRead]; try omega)
  | abandon i =>
    simp only [step, stepT]
    split
    · exact ConnRel.refl _ _ (by intro v; simp) _
    · rename_i st heq
      refine ⟨⟨?_, ?_, ?_, ?_, ?_, ?_⟩, fun _ => ⟨?_, ?_, ?_⟩, fun _ _ => ?_, by intro v e; simp at e, fun _ => ?_⟩
      all_goals (simp only [Stream.abandon, Conn.addBytesRead, Base.addBytesRead]; split <;> simp <;> try omega)
  | sent i n =>
    simp only [step, stepT]
    split
    · exact ConnRel.refl _ _ (by intro v; simp) _
    · rename_i st heq
      have h0 := hp.1
      refine ⟨⟨?_, ?_, ?_, ?_, ?_, ?_⟩, fun _ => ⟨?_, ?_, ?_⟩, fun _ _ => ?_, by intro v e; simp at e, fun _ => ?_⟩
      all_goals (simp [Stream.addBytesSent, Base.addBytesSent]; try omega)
  | supd i now allow =>
    simp only [step, stepT]
    split
    · exact ConnRel.refl _ _ (by intro v; simp) _
    · rename_i st heq
      have sp := supd_rel st s.conn now s.rtt (s.allowOf allow)
      simp only [] at sp
      have key : ∀ out, ConnRel (.supd i now allow) out s.conn (st.getWindowUpdate s.conn now s.rtt (s.allowOf allow)).2.1 :=
        fun out => ConnRel.of_tune _ _ (by intro v; simp) sp.2.1
      split <;> exact key _

end Uquic.Proofs.Flow
