import Uquic.Proofs.WireVarint
import Uquic.Model.Wire.Frames

namespace Uquic.Proofs.Wire
open Uquic.Model.Wire Uquic.Model.Wire.Varint

/-- `pre` is a complete varint encoding (of any width) of `v` -/
def Decodes (pre : Bytes) (v : Nat) : Prop :=
  0 < pre.length ∧ v ≤ maxVarInt8 ∧ ∀ r, Varint.parse (pre ++ r) = .ok (v, pre.length)

theorem decodes_enc (v : Nat) (h : v ≤ maxVarInt8) : Decodes (enc v) v := by
  refine ⟨?_, h, ?_⟩
  · rw [len_enc v h]; exact len_pos v h
  · intro r; rw [parse_enc v h r, len_enc v h]

theorem take_of_decodes {pre : Bytes} {v : Nat} (h : Decodes pre v) (r : Bytes) :
    Varint.take (pre ++ r) = .ok (v, r) := by
  simp [Varint.take, h.2.2 r]

theorem takeV_of_decodes {pre : Bytes} {v : Nat} (h : Decodes pre v) (r : Bytes) :
    takeV (pre ++ r) = .ok (v, r) := by
  simp [takeV, take_of_decodes h r]

theorem parse_inv (b : Bytes) (v n : Nat) (h : Varint.parse b = .ok (v, n)) :
    ∃ pre r, b = pre ++ r ∧ pre.length = n ∧ Decodes pre v := by
  obtain ⟨h1, h2, h3, _, h5⟩ := parse_ok_inv b v n h
  refine ⟨b.take n, b.drop n, (List.take_append_drop n b).symm, by simp; omega, ?_, h3, ?_⟩
  · simp; omega
  · intro r; rw [h5 r]; simp; omega

theorem takeV_inv (b r : Bytes) (v : Nat) (h : takeV b = .ok (v, r)) :
    ∃ pre, b = pre ++ r ∧ Decodes pre v := by
  unfold takeV Varint.take at h
  cases hp : Varint.parse b with
  | error e => simp [hp] at h
  | ok x =>
    obtain ⟨v', n⟩ := x
    simp [hp] at h
    obtain ⟨hv, hr⟩ := h
    subst hv
    obtain ⟨pre, r', hb, hn, hd⟩ := parse_inv b v' n hp
    refine ⟨pre, ?_, hd⟩
    subst hb; subst hn
    simp at hr; rw [hr]

theorem takeV_error (b : Bytes) (e : Err) (h : takeV b = .error e) : e = .eof := by
  unfold takeV at h
  cases ht : Varint.take b with
  | ok x => simp [ht] at h
  | error e' => cases e' <;> simp [ht, Err.ofV] at h <;> exact h.symm

theorem parse_of_decodes {pre : Bytes} {v : Nat} (h : Decodes pre v) (r : Bytes) :
    Varint.parse (pre ++ r) = .ok (v, pre.length) := h.2.2 r

theorem takeV_cases (b : Bytes) :
    takeV b = .error .eof ∨ ∃ pre r v, b = pre ++ r ∧ Decodes pre v ∧ takeV b = .ok (v, r) := by
  cases h : takeV b with
  | error e => left; rw [takeV_error b e h]
  | ok x =>
    obtain ⟨v, r⟩ := x
    obtain ⟨pre, hb, hd⟩ := takeV_inv b r v h
    exact Or.inr ⟨pre, r, v, hb, hd, rfl⟩

theorem parse_cases (b : Bytes) :
    (∃ e, Varint.parse b = .error e) ∨ ∃ pre r v, b = pre ++ r ∧ Decodes pre v ∧ Varint.parse b = .ok (v, pre.length) := by
  cases h : Varint.parse b with
  | error e => exact Or.inl ⟨e, rfl⟩
  | ok x =>
    obtain ⟨v, n⟩ := x
    obtain ⟨pre, r, hb, hn, hd⟩ := parse_inv b v n h
    exact Or.inr ⟨pre, r, v, hb, hd, by rw [hn]⟩

theorem if_len_ok {c : Prop} [Decidable c] (hc : ¬c) (e : Err) (f : Frame) {x y : Nat} (hxy : x = y) :
    (if c then (Except.error e : Except Err (Frame × Nat)) else .ok (f, x)) = .ok (f, y) := by
  rw [if_neg hc, hxy]

/-- the shape shared by all "stability" statements: the result depends only on the consumed prefix -/
def Stable (P : Bytes → Except Err (Frame × Nat)) : Prop :=
  ∀ b f n, P b = .ok (f, n) → n ≤ b.length ∧ P (b.take n) = .ok (f, n)

/-! ### frames made of one varint (parsed with `Varint.parse`, consumed count = its length) -/

section one
variable (mk : Nat → Frame)

/-- the common body of parseMaxData / parseDataBlocked / parseRetireConnectionID -/
def parse1 (b : Bytes) : Except Err (Frame × Nat) :=
  match Varint.parse b with
  | .error e => .error (Err.ofV e)
  | .ok (v, l) => .ok (mk v, l)

theorem parse1_of {p : Bytes} {v : Nat} (h : Decodes p v) (r : Bytes) :
    parse1 mk (p ++ r) = .ok (mk v, p.length) := by
  simp [parse1, parse_of_decodes h r]

theorem parse1_inv (b : Bytes) (f : Frame) (n : Nat) (h : parse1 mk b = .ok (f, n)) :
    ∃ p r v, b = p ++ r ∧ Decodes p v ∧ f = mk v ∧ n = p.length := by
  unfold parse1 at h
  rcases parse_cases b with ⟨e, he⟩ | ⟨p, r, v, rfl, hd, hp⟩
  · simp [he] at h
  · simp [hp] at h
    exact ⟨p, r, v, rfl, hd, h.1.symm, h.2.symm⟩

end one

theorem parseMaxData_eq : parseMaxData = parse1 .maxData := rfl
theorem parseDataBlocked_eq : parseDataBlocked = parse1 .dataBlocked := rfl
theorem parseRetireConnectionID_eq : parseRetireConnectionID = parse1 .retireConnectionID := rfl

/-- MAX_STREAMS / STREAMS_BLOCKED: one varint, rejected above `maxStreamCount` -/
theorem parseMaxStreams_of {p : Bytes} {v : Nat} (h : Decodes p v) (hv : v ≤ maxStreamCount) (typ : Nat) (r : Bytes) :
    parseMaxStreams (p ++ r) typ = .ok (.maxStreams (if typ = ftUniMaxStreams then .uni else .bidi) v, p.length) := by
  simp [parseMaxStreams, parse_of_decodes h r, Nat.not_lt.mpr hv]

theorem parseMaxStreams_inv (b : Bytes) (typ : Nat) (f : Frame) (n : Nat) (h : parseMaxStreams b typ = .ok (f, n)) :
    ∃ p r v, b = p ++ r ∧ Decodes p v ∧ v ≤ maxStreamCount ∧
      f = .maxStreams (if typ = ftUniMaxStreams then .uni else .bidi) v ∧ n = p.length := by
  unfold parseMaxStreams at h
  rcases parse_cases b with ⟨e, he⟩ | ⟨p, r, v, rfl, hd, hp⟩
  · simp [he] at h
  · simp only [hp] at h
    by_cases hv : v > maxStreamCount
    · simp [hv] at h
    · simp [hv] at h
      exact ⟨p, r, v, rfl, hd, Nat.not_lt.mp hv, h.1.symm, h.2.symm⟩

theorem parseStreamsBlocked_of {p : Bytes} {v : Nat} (h : Decodes p v) (hv : v ≤ maxStreamCount) (typ : Nat) (r : Bytes) :
    parseStreamsBlocked (p ++ r) typ = .ok (.streamsBlocked (if typ = ftUniStreamBlocked then .uni else .bidi) v, p.length) := by
  simp [parseStreamsBlocked, parse_of_decodes h r, Nat.not_lt.mpr hv]

theorem parseStreamsBlocked_inv (b : Bytes) (typ : Nat) (f : Frame) (n : Nat) (h : parseStreamsBlocked b typ = .ok (f, n)) :
    ∃ p r v, b = p ++ r ∧ Decodes p v ∧ v ≤ maxStreamCount ∧
      f = .streamsBlocked (if typ = ftUniStreamBlocked then .uni else .bidi) v ∧ n = p.length := by
  unfold parseStreamsBlocked at h
  rcases parse_cases b with ⟨e, he⟩ | ⟨p, r, v, rfl, hd, hp⟩
  · simp [he] at h
  · simp only [hp] at h
    by_cases hv : v > maxStreamCount
    · simp [hv] at h
    · simp [hv] at h
      exact ⟨p, r, v, rfl, hd, Nat.not_lt.mp hv, h.1.symm, h.2.symm⟩

/-! ### frames built from a fixed sequence of varints -/

theorem parseMaxStreamData_of {p1 p2 : Bytes} {sid v : Nat} (h1 : Decodes p1 sid) (h2 : Decodes p2 v) (r : Bytes) :
    parseMaxStreamData (p1 ++ p2 ++ r) = .ok (.maxStreamData sid v, p1.length + p2.length) := by
  unfold parseMaxStreamData
  simp only [List.append_assoc, takeV_of_decodes h1, takeV_of_decodes h2]
  simp; omega

theorem parseMaxStreamData_inv (b : Bytes) (f : Frame) (n : Nat) (h : parseMaxStreamData b = .ok (f, n)) :
    ∃ p1 p2 r sid v, b = p1 ++ p2 ++ r ∧ Decodes p1 sid ∧ Decodes p2 v ∧ f = .maxStreamData sid v ∧ n = p1.length + p2.length := by
  unfold parseMaxStreamData at h
  split at h
  · simp at h
  · rename_i sid b1 h1
    split at h
    · simp at h
    · rename_i v b2 h2
      obtain ⟨p1, hb, hd1⟩ := takeV_inv _ _ _ h1
      obtain ⟨p2, hb1, hd2⟩ := takeV_inv _ _ _ h2
      simp at h
      refine ⟨p1, p2, b2, sid, v, by rw [hb, hb1]; simp, hd1, hd2, h.1.symm, ?_⟩
      rw [← h.2, hb, hb1]; simp; omega

end Uquic.Proofs.Wire
