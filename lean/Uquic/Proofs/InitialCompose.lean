/-
C10 ∘ C09 helper definitions and lemmas: the first flight of a spec with a per-datagram frame
builder, as a list of (base offset, share length) pairs computed with C10's `popLen` / `cryptoBudget`,
and the payloads C09's model of `MarshalInitialPacketPayload` builds for the shares.

* `flightShares`  — what `PackCoalescedPacket` pops for datagram 0, 1, 2, … (C10's model, iterated
  exactly like the oracle's `predictSeq`: datagram `i` is packed with `planOf spec i`, starts where
  datagram `i-1` ended, and the flight ends when nothing is left or nothing can be popped).
* `flightPayloads` — C09's `marshalInitial` applied to the single CRYPTO frame popped for each share.
* `carries_cons` / `carries_flight` — per-datagram `carries` facts whose shares are consecutive
  compose to a `carries` fact about the concatenated shares.
-/
import Uquic.Proofs.FramesMoreTiles
import Uquic.Proofs.FramesLenient
import Uquic.Proofs.FramesAppend
import Uquic.Proofs.InitialSizes

namespace Uquic.Proofs.Compose
open Uquic.Spec.Framing Uquic.Spec.FramingMon Uquic.Model.UQuic.Frames Uquic.Proofs.Frames Uquic.Proofs.FramesMore
open Uquic.Model

/-! ### C10's builder configuration read as C09's -/

def toRFCfg (rf : Initial.RF) : RFCfg :=
  ⟨rf.minPing, rf.maxPing, rf.minCrypto, rf.maxCrypto, rf.minPad, rf.maxPad, rf.length⟩

def toQFrame : Initial.QFrame → QFrame
  | .crypto off len => .crypto off len
  | .padding l => .padding l
  | .ping => .ping

/-- the per-datagram frame builders; `none` for the flight builders, which are not handed
    per-datagram shares at all (they lay out the whole stream: `Props.C09.flight_carries`) -/
def toBuilder : Initial.Builder → Option Builder
  | .nil => some .none
  | .frames l => some (.frames (l.map toQFrame))
  | .random rf => some (.random (toRFCfg rf))
  | .multi l => some (.multi (l.map toRFCfg))
  | .flight _ => none
  | .randFlight _ => none

/-! ### the shares of the first flight (C10) -/

/-- (base offset, share length) of datagrams `i, i+1, …` when `remaining` bytes from offset `off` on
    are still to be sent: `PackCoalescedPacket` pops `popLen` bytes (the budget of `cryptoBudget`
    through `PopCryptoFrame` / `MaxDataLen`) for each datagram -/
def flightShares (spec : Initial.Spec) (hdrLenOf : Nat → Nat) (maxSize : Nat) :
    (fuel i off remaining : Nat) → List (Nat × Nat)
  | 0, _, _, _ => []
  | fuel + 1, i, off, remaining =>
    let n := Initial.popLen spec (Initial.planOf spec i) (hdrLenOf i) off remaining maxSize
    if n = 0 then [] else (off, n) :: flightShares spec hdrLenOf maxSize fuel (i + 1) (off + n) (remaining - n)

/-- consecutive non-empty shares from `off` to `e` -/
inductive SharesFrom : Nat → List (Nat × Nat) → Nat → Prop
  | nil (off : Nat) : SharesFrom off [] off
  | cons {off n e : Nat} {rest : List (Nat × Nat)} (hn : 0 < n) (h : SharesFrom (off + n) rest e) :
      SharesFrom off ((off, n) :: rest) e

/-- where a flight that starts at `off` ends -/
def sharesEnd (off : Nat) : List (Nat × Nat) → Nat
  | [] => off
  | (_, n) :: rest => sharesEnd (off + n) rest

theorem popLen_le (spec : Initial.Spec) (plan : Initial.Plan) (hdr off remaining maxSize : Nat) :
    Initial.popLen spec plan hdr off remaining maxSize ≤ remaining := by
  unfold Initial.popLen; exact Nat.min_le_right _ _

/-- base offset of datagram `i+1` = base offset of datagram `i` + share length of datagram `i`; the
    shares never reach beyond the stream -/
theorem flightShares_chain (spec : Initial.Spec) (hdrLenOf : Nat → Nat) (maxSize : Nat) :
    ∀ (fuel i off remaining : Nat),
      SharesFrom off (flightShares spec hdrLenOf maxSize fuel i off remaining)
        (sharesEnd off (flightShares spec hdrLenOf maxSize fuel i off remaining)) ∧
      sharesEnd off (flightShares spec hdrLenOf maxSize fuel i off remaining) ≤ off + remaining := by
  intro fuel
  induction fuel with
  | zero => intro i off remaining; exact ⟨SharesFrom.nil _, by simp [flightShares, sharesEnd]⟩
  | succ fuel ih =>
    intro i off remaining
    simp only [flightShares]
    have hle := popLen_le spec (Initial.planOf spec i) (hdrLenOf i) off remaining maxSize
    split
    · exact ⟨SharesFrom.nil _, by simp [sharesEnd]⟩
    · rename_i hn
      obtain ⟨h1, h2⟩ := ih (i + 1) (off + Initial.popLen spec (Initial.planOf spec i) (hdrLenOf i) off remaining maxSize)
        (remaining - Initial.popLen spec (Initial.planOf spec i) (hdrLenOf i) off remaining maxSize)
      exact ⟨SharesFrom.cons (by omega) h1, by simp only [sharesEnd]; omega⟩

/-- the flight drains the stream when every datagram can pop something (no `pop:stuck`) and the fuel
    suffices (each datagram takes at least one byte) -/
theorem flightShares_drains (spec : Initial.Spec) (hdrLenOf : Nat → Nat) (maxSize : Nat)
    (hprog : ∀ i off remaining, 0 < remaining →
      0 < Initial.popLen spec (Initial.planOf spec i) (hdrLenOf i) off remaining maxSize) :
    ∀ (fuel i off remaining : Nat), remaining ≤ fuel →
      sharesEnd off (flightShares spec hdrLenOf maxSize fuel i off remaining) = off + remaining := by
  intro fuel
  induction fuel with
  | zero => intro i off remaining h; simp [flightShares, sharesEnd]; omega
  | succ fuel ih =>
    intro i off remaining h
    simp only [flightShares]
    have hle := popLen_le spec (Initial.planOf spec i) (hdrLenOf i) off remaining maxSize
    split
    · rename_i hn
      by_cases hr : remaining = 0
      · simp [sharesEnd, hr]
      · have := hprog i off remaining (by omega); omega
    · rename_i hn
      simp only [sharesEnd]
      rw [ih _ _ _ (by omega)]; omega

theorem SharesFrom.mem {off e : Nat} {l : List (Nat × Nat)} (h : SharesFrom off l e) :
    ∀ s ∈ l, off ≤ s.1 ∧ 0 < s.2 ∧ s.1 + s.2 ≤ e := by
  induction h with
  | nil => intro s hs; simp at hs
  | cons hn rest ih =>
    rename_i o n e' l'
    intro s hs
    have hle : o + n ≤ e' := by
      clear ih hs
      generalize o + n = x at rest
      induction rest with
      | nil => exact Nat.le_refl _
      | cons hn' _ ih' => omega
    rcases List.mem_cons.mp hs with rfl | hs
    · exact ⟨Nat.le_refl _, hn, hle⟩
    · have := ih s hs; omega

/-! ### composing `carries` facts -/

theorem readAll_singleton {p : List UInt8} {fs : List Frame} (h : readAll [p] = some fs) :
    readFrames p = some fs := by
  simp only [readAll] at h
  cases hr : readFrames p with
  | none => rw [hr] at h; simp at h
  | some a => rw [hr] at h; simpa using h

/-- a datagram that carries `A` at `base`, followed by datagrams that carry `B` at `base + |A|`:
    together they carry `A ++ B` at `base` -/
theorem carries_cons {A B : List UInt8} {base : Nat} {p : List UInt8} {ps : List (List UInt8)}
    (h1 : carries A base [p] = true) (h2 : carries B (base + A.length) ps = true) :
    carries (A ++ B) base (p :: ps) = true := by
  unfold carries at h1 h2 ⊢
  obtain ⟨f1, r1, d1, c1⟩ := carriesAt_elim h1
  obtain ⟨f2, r2, d2, c2⟩ := carriesAt_elim h2
  have r1' := readAll_singleton r1
  refine carriesAt_intro (fs := f1 ++ f2) (by simp [readAll, r1', r2]) ?_ ?_
  · intro c hc
    rw [cryptoOf_append] at hc
    rcases List.mem_append.mp hc with hc | hc
    · obtain ⟨s, lo, hi⟩ := d1 c hc
      rw [sliceEq_iff] at s
      obtain ⟨s1, s2, s3⟩ := s
      refine ⟨sliceEq_iff.mpr ⟨s1, by simp; omega, ?_⟩, lo, by simp; omega⟩
      rw [List.drop_append_of_le_length (by omega), List.take_append_of_le_length (by simp; omega)]
      exact s3
    · obtain ⟨s, lo, hi⟩ := d2 c hc
      rw [sliceEq_iff] at s
      obtain ⟨s1, s2, s3⟩ := s
      refine ⟨sliceEq_iff.mpr ⟨by omega, by simp; omega, ?_⟩, by omega, by simp; omega⟩
      have e : c.1 - base = A.length + (c.1 - (base + A.length)) := by omega
      rw [e, ← List.drop_drop, List.drop_left]
      exact s3
  · intro i lo hi
    rw [cryptoOf_append]
    by_cases hA : i < base + A.length
    · obtain ⟨c, hc, h3, h4⟩ := c1 i lo hA
      exact ⟨c, List.mem_append_left _ hc, h3, h4⟩
    · obtain ⟨c, hc, h3, h4⟩ := c2 i (by omega) (by simp at hi; omega)
      exact ⟨c, List.mem_append_right _ hc, h3, h4⟩

theorem carries_nil (base : Nat) : carries [] base [] = true := by
  simp [carries, carriesAt, readAll, cryptoOf, coversAll, rangesOf]

/-- datagram `k` carries share `k` at its base offset -/
def EachCarries (CH : List UInt8) : List (Nat × Nat) → List (List UInt8) → Prop
  | [], [] => True
  | s :: ss, p :: ps => carries ((CH.drop s.1).take s.2) s.1 [p] = true ∧ EachCarries CH ss ps
  | _, _ => False

theorem SharesFrom.le {o e : Nat} {l : List (Nat × Nat)} (h : SharesFrom o l e) : o ≤ e := by
  induction h with
  | nil => exact Nat.le_refl _
  | cons hn' _ ih' => omega

/-- consecutive shares, each carried by its datagram at its base offset: the flight carries the part
    of the stream between the first base offset and the end of the last share -/
theorem carries_flight (CH : List UInt8) : ∀ (shares : List (Nat × Nat)) (ps : List (List UInt8)) (off e : Nat),
    SharesFrom off shares e → e ≤ CH.length → EachCarries CH shares ps →
    carries ((CH.drop off).take (e - off)) off ps = true := by
  intro shares
  induction shares with
  | nil =>
    intro ps off e hs _ hf
    cases ps with
    | nil =>
      cases hs
      simpa using carries_nil off
    | cons p ps => simp [EachCarries] at hf
  | cons s rest ih =>
    intro ps off e hs he hf
    cases ps with
    | nil => simp [EachCarries] at hf
    | cons p ps' =>
      obtain ⟨hp, hrest⟩ := hf
      cases hs with
      | cons hn hs' =>
        rename_i n
        have hle : off + n ≤ e := hs'.le
        have h2 := ih ps' (off + n) e hs' he hrest
        have hlen : ((CH.drop off).take n).length = n := by simp; omega
        have := carries_cons (A := (CH.drop off).take n) (B := (CH.drop (off + n)).take (e - (off + n))) hp
          (by rw [hlen]; exact h2)
        have e1 : (CH.drop off).take n ++ (CH.drop (off + n)).take (e - (off + n)) = (CH.drop off).take (e - off) := by
          rw [← List.drop_drop, ← List.take_add]
          congr 1; omega
        rw [e1] at this
        exact this

/-- trailing PADDING (what `appendInitialPacketPayload` adds inside the AEAD) does not change what a
    flight carries -/
def padded : List (List UInt8) → List Nat → List (List UInt8)
  | p :: ps, k :: ks => (p ++ List.replicate k 0) :: padded ps ks
  | ps, [] => ps
  | [], _ => []

theorem readAll_padded : ∀ (ps : List (List UInt8)) (ks : List Nat) (fs : List Frame), readAll ps = some fs →
    ∃ fs', readAll (padded ps ks) = some fs' ∧ cryptoOf fs' = cryptoOf fs := by
  intro ps
  induction ps with
  | nil => intro ks fs h; cases ks <;> exact ⟨fs, by simpa [padded] using h, rfl⟩
  | cons p ps ih =>
    intro ks fs h
    cases ks with
    | nil => exact ⟨fs, by simpa [padded] using h, rfl⟩
    | cons k ks =>
      simp only [readAll] at h
      cases hr : readFrames p with
      | none => rw [hr] at h; simp at h
      | some a =>
        cases hra : readAll ps with
        | none => rw [hr, hra] at h; simp at h
        | some b =>
          rw [hr, hra] at h
          obtain rfl : a ++ b = fs := by simpa using h
          obtain ⟨b', hb', hc'⟩ := ih ks b hra
          have hpad : readFrames (p ++ List.replicate k 0) = some (a ++ List.replicate k Frame.padding) := by
            rw [readFrames_append hr]
            have := readFrames_paddings k []
            rw [List.append_nil, readFrames_nil] at this
            rw [this]; simp
          refine ⟨(a ++ List.replicate k Frame.padding) ++ b', by simp [padded, readAll, hpad, hb'], ?_⟩
          simp [cryptoOf_append, cryptoOf_replicate_padding, hc']

theorem carries_padded {X : List UInt8} {base : Nat} {ps : List (List UInt8)} (ks : List Nat)
    (h : carries X base ps = true) : carries X base (padded ps ks) = true := by
  unfold carries at h ⊢
  obtain ⟨fs, r, d, c⟩ := carriesAt_elim h
  obtain ⟨fs', r', hc⟩ := readAll_padded ps ks fs r
  exact carriesAt_intro r' (by rw [hc]; exact d) (by rw [hc]; exact c)

end Uquic.Proofs.Compose
