/-
C01 ∘ C03: C03's ReceiveStream model, fed slices of one source string `W`, meets C01's contract
(`recvStream_contract : ContractOn (recvStream fc) W (·.alive = true)`).

`RcvInv W r` is the invariant of the receive side of the pipe: what was read is the source prefix up to the
read position and lies inside delivered segments; while no frame was rejected (`alive`) C03's stream invariant
`SInv` holds for the source `srcOf W`, the stream is neither shut down nor cancelled, the sorter's gaps are
exactly the offsets no delivered segment covers, and the final offset is the end of every delivered FIN
segment; after a rejection the stream is closed for shutdown and returns nothing more.
-/
import Uquic.Proofs.StreamE2ERead
import Uquic.Spec.StreamE2E

namespace Uquic.Proofs.StreamE2E
open Uquic.Model.Reassembly Uquic.Proofs.Sorter Uquic.Proofs.Stream Uquic.Spec.StreamPipe Uquic.Spec.StreamE2E

/-- the source string as a total function (C03's `src`) -/
def srcOf (W : List UInt8) : Nat → UInt8 := fun i => W[i]?.getD 0

theorem slice_get {W : List UInt8} {x : Segment} (h : Slice W x) {j : Nat} (hj : j < x.data.length) :
    x.data[j]? = some (srcOf W (x.off + j)) ∧ x.off + j < W.length := by
  obtain ⟨t, ht⟩ := h.1
  have h1 : (W.drop x.off)[j]? = x.data[j]? := by rw [← ht, List.getElem?_append_left hj]
  rw [List.getElem?_drop] at h1
  have h2 : x.data[j]? = some x.data[j] := List.getElem?_eq_getElem hj
  rw [h2] at h1
  have hlt : x.off + j < W.length := by
    rcases Nat.lt_or_ge (x.off + j) W.length with hlt | hge
    · exact hlt
    · rw [List.getElem?_eq_none hge] at h1; cases h1
  refine ⟨?_, hlt⟩
  rw [h2]
  simp only [srcOf, h1, Option.getD_some]

theorem slice_srcSeg {W : List UInt8} {x : Segment} (h : Slice W x) :
    x.data = srcSeg (srcOf W) x.off x.data.length :=
  eq_srcSeg (fun _ hj => (slice_get h hj).1)

/-! ### what `handleStreamFrame` touches -/

theorem complete_flags (o : FrameOut) (ab : Bool) :
    (o.complete ab).s.shutdown = o.s.shutdown ∧ (o.complete ab).s.cancelledLocally = o.s.cancelledLocally ∧
    (o.complete ab).s.cancelledRemotely = o.s.cancelledRemotely := by
  unfold FrameOut.complete
  obtain ⟨f1, f2, f3⟩ := isNewlyCompleted_flags o.s
  split
  · simp
  · simp only
    split
    · cases ab <;> simp [f1, f2, f3]
    · simp [f1, f2, f3]

/-- the frame before `isNewlyCompleted` is consulted -/
def preFrame (s : RStream) (off : Nat) (data : Bytes) (fin : Bool) (cb : Option Nat) : FrameOut :=
  match (s.fc.updateHighestReceived (off + data.length) fin).2 with
  | some e => ⟨{ s with fc := (s.fc.updateHighestReceived (off + data.length) fin).1 }, some e, []⟩
  | none => ({ s with fc := (s.fc.updateHighestReceived (off + data.length) fin).1 } : RStream).acceptFrame off data fin cb

theorem hsf_eq (s : RStream) (off : Nat) (data : Bytes) (fin : Bool) (cb : Option Nat) :
    s.handleStreamFrame off data fin cb =
      FrameOut.complete ⟨(preFrame s off data fin cb).s, (preFrame s off data fin cb).err,
        Ev.fcUpdate (off + data.length) fin :: (preFrame s off data fin cb).evs⟩ true := rfl

theorem acceptFrame_same (s : RStream) (off : Nat) (data : Bytes) (fin : Bool) (cb : Option Nat) :
    (s.acceptFrame off data fin cb).s.cur = s.cur ∧ (s.acceptFrame off data fin cb).s.curIsLast = s.curIsLast ∧
    (s.acceptFrame off data fin cb).s.readPos = s.readPos ∧ (s.acceptFrame off data fin cb).s.shutdown = s.shutdown ∧
    (s.acceptFrame off data fin cb).s.cancelledLocally = s.cancelledLocally ∧
    (s.acceptFrame off data fin cb).s.cancelledRemotely = s.cancelledRemotely ∧
    (s.acceptFrame off data fin cb).s.finalOffset = (if fin = true then off + data.length else s.finalOffset) := by
  unfold RStream.acceptFrame
  cases fin <;> simp <;> split <;> simp

theorem acceptFrame_sorter (s : RStream) (off : Nat) (data : Bytes) (fin : Bool) (cb : Option Nat)
    (hcl : s.cancelledLocally = false) :
    (s.acceptFrame off data fin cb).s.sorter = (s.sorter.push data off cb).s ∧
    ((s.acceptFrame off data fin cb).err = none →
      (s.sorter.push data off cb).res = .ok ∨ (s.sorter.push data off cb).res = .dup) := by
  unfold RStream.acceptFrame
  cases fin <;> simp [hcl] <;> split <;> simp_all

/-- fields no STREAM frame — accepted or rejected — ever changes -/
theorem hsf_same (s : RStream) (off : Nat) (data : Bytes) (fin : Bool) (cb : Option Nat) :
    (s.handleStreamFrame off data fin cb).s.cur = s.cur ∧ (s.handleStreamFrame off data fin cb).s.curIsLast = s.curIsLast ∧
    (s.handleStreamFrame off data fin cb).s.readPos = s.readPos ∧
    (s.handleStreamFrame off data fin cb).s.shutdown = s.shutdown ∧
    (s.handleStreamFrame off data fin cb).s.cancelledLocally = s.cancelledLocally ∧
    (s.handleStreamFrame off data fin cb).s.cancelledRemotely = s.cancelledRemotely := by
  rw [hsf_eq]
  obtain ⟨_, _, e3, _, e5, _, _, _, e9⟩ := complete_fields
    ⟨(preFrame s off data fin cb).s, (preFrame s off data fin cb).err,
      Ev.fcUpdate (off + data.length) fin :: (preFrame s off data fin cb).evs⟩ true
  obtain ⟨g1, g2, g3⟩ := complete_flags
    ⟨(preFrame s off data fin cb).s, (preFrame s off data fin cb).err,
      Ev.fcUpdate (off + data.length) fin :: (preFrame s off data fin cb).evs⟩ true
  rw [e3, e5, e9, g1, g2, g3]
  simp only
  unfold preFrame
  split
  · exact ⟨rfl, rfl, rfl, rfl, rfl, rfl⟩
  · obtain ⟨a1, a2, a3, a4, a5, a6, _⟩ := acceptFrame_same
      ({ s with fc := (s.fc.updateHighestReceived (off + data.length) fin).1 } : RStream) off data fin cb
    exact ⟨a1, a2, a3, a4, a5, a6⟩

/-- a frame the flow controller accepts goes to the sorter, and a FIN fixes the final offset -/
theorem hsf_accept (s : RStream) (off : Nat) (data : Bytes) (fin : Bool) (cb : Option Nat)
    (hcl : s.cancelledLocally = false) (hu : (s.fc.updateHighestReceived (off + data.length) fin).2 = none) :
    (s.handleStreamFrame off data fin cb).s.sorter = (s.sorter.push data off cb).s ∧
    (s.handleStreamFrame off data fin cb).s.finalOffset = (if fin = true then off + data.length else s.finalOffset) ∧
    ((s.handleStreamFrame off data fin cb).err = none →
      (s.sorter.push data off cb).res = .ok ∨ (s.sorter.push data off cb).res = .dup) := by
  rw [hsf_eq]
  obtain ⟨e1, e2, _, _, _, _, _, e8, _⟩ := complete_fields
    ⟨(preFrame s off data fin cb).s, (preFrame s off data fin cb).err,
      Ev.fcUpdate (off + data.length) fin :: (preFrame s off data fin cb).evs⟩ true
  rw [e1, e2, e8]
  simp only
  unfold preFrame
  rw [hu]
  simp only
  obtain ⟨b1, b2⟩ := acceptFrame_sorter
    ({ s with fc := (s.fc.updateHighestReceived (off + data.length) fin).1 } : RStream) off data fin cb hcl
  exact ⟨b1, (acceptFrame_same _ off data fin cb).2.2.2.2.2.2, b2⟩

/-- a frame the flow controller rejects is answered with an error -/
theorem hsf_reject (s : RStream) (off : Nat) (data : Bytes) (fin : Bool) (cb : Option Nat) (e : StreamErr)
    (hu : (s.fc.updateHighestReceived (off + data.length) fin).2 = some e) :
    (s.handleStreamFrame off data fin cb).err = some e := by
  rw [hsf_eq, (complete_fields _ _).1]
  simp only
  unfold preFrame
  rw [hu]

/-! ### the invariant -/

/-- while no frame was rejected -/
structure LiveInv (W : List UInt8) (r : Rcv) : Prop where
  sinv : SInv (srcOf W) r.s
  plain : Plain r.s
  /-- the sorter's gaps are exactly the offsets no delivered segment covers -/
  gaps : ∀ p, p < maxByteCount → (¬ inGap r.s.sorter.gaps p ↔ ∃ x ∈ r.segs, x.off ≤ p ∧ p < x.off + x.data.length)
  /-- the final offset is the end of every delivered FIN segment … -/
  fins : ∀ x ∈ r.segs, x.fin = true → r.s.finalOffset = x.off + x.data.length
  /-- … and is known only from one -/
  finseg : r.s.finalOffset ≠ maxByteCount → ∃ x ∈ r.segs, x.fin = true ∧ x.off + x.data.length = r.s.finalOffset

structure RcvInv (W : List UInt8) (r : Rcv) : Prop where
  out_eq : r.out = srcSeg (srcOf W) 0 r.s.readPos
  out_cov : ∀ i, i < r.s.readPos → ∃ x ∈ r.segs, x.off ≤ i ∧ i < x.off + x.data.length
  slices : ∀ x ∈ r.segs, Slice W x
  dead : r.alive = false → r.s.shutdown = true ∧
    (r.s.curIsLast = true → r.s.cur = none → ∃ x ∈ r.segs, x.fin = true ∧ x.off + x.data.length = r.s.readPos)
  live : r.alive = true → LiveInv W r

theorem LiveInv.out_cov {W : List UInt8} {r : Rcv} (L : LiveInv W r) :
    ∀ i, i < r.s.readPos → ∃ x ∈ r.segs, x.off ≤ i ∧ i < x.off + x.data.length := by
  intro i hi
  have h1 := L.sinv.readPos_le
  have h2 := L.sinv.high_rp
  have h3 := L.sinv.hmax
  apply (L.gaps i (by omega)).mp
  rintro ⟨g, hg, hg1, _⟩
  have := L.sinv.sorter.grp g hg
  omega

/-- io.EOF was reached: the read position is the end of a delivered FIN segment -/
theorem LiveInv.eof_seg {W : List UInt8} {r : Rcv} (L : LiveInv W r) (hl : r.s.curIsLast = true) (hc : r.s.cur = none) :
    ∃ x ∈ r.segs, x.fin = true ∧ x.off + x.data.length = r.s.readPos := by
  have h1 := L.sinv.last hl
  have h2 := L.sinv.cur_none hc
  have h3 := L.sinv.high_rp
  have h4 := L.sinv.hmax
  have hne : r.s.finalOffset ≠ maxByteCount := by omega
  have h5 := (L.sinv.final hne).2
  obtain ⟨x, hx, hxf, hxe⟩ := L.finseg hne
  exact ⟨x, hx, hxf, by omega⟩

theorem rcvInv_init (W : List UInt8) (fc : FC) (h0 : fc.highest = 0) : RcvInv W ({ s := { fc := fc } } : Rcv) := by
  refine ⟨by simp [srcSeg_zero], fun i hi => by simp at hi, fun x hx => by simp at hx, fun h => by simp at h, fun _ => ?_⟩
  refine ⟨sinv_init _ fc h0, ⟨rfl, rfl, rfl⟩, fun p hp => ?_, fun x hx => by simp at hx, fun h => by simp at h⟩
  constructor
  · intro hg
    exact absurd ⟨(0, maxByteCount), by simp, Nat.zero_le _, hp⟩ hg
  · rintro ⟨x, hx, _⟩; simp at hx

/-! ### the two operations keep it -/

theorem frame_sinv' {src : Nat → UInt8} {s : RStream} (h : SInv src s) (off : Nat) (data : Bytes) (fin : Bool)
    (cb : Option Nat) (hd : data = srcSeg src off data.length) (hmax : 2 * (off + data.length) < maxByteCount)
    (hok : (s.handleStreamFrame off data fin cb).err = none) : SInv src (s.handleStreamFrame off data fin cb).s := by
  have h1 := frame_sinv h off data.length fin cb hmax (by rw [← hd]; exact hok)
  rw [← hd] at h1
  exact h1.1

theorem rcvInv_deliver {W : List UInt8} {r : Rcv} (h : RcvInv W r) (x : Segment) (hx : Slice W x) :
    RcvInv W (r.deliver x) := by
  have hmem : ∀ {y : Segment}, y ∈ r.segs → y ∈ x :: r.segs := fun hy => List.mem_cons_of_mem _ hy
  have hcov' : ∀ i, i < r.s.readPos → ∃ y ∈ x :: r.segs, y.off ≤ i ∧ i < y.off + y.data.length :=
    fun i hi => let ⟨y, hy, hc⟩ := h.out_cov i hi; ⟨y, hmem hy, hc⟩
  have hsl' : ∀ y ∈ x :: r.segs, Slice W y := by
    intro y hy
    rcases List.mem_cons.mp hy with rfl | hy
    · exact hx
    · exact h.slices y hy
  unfold Rcv.deliver
  by_cases hal : r.alive = true
  · rw [if_pos hal]
    simp only
    have L := h.live hal
    obtain ⟨s1, s2, s3, s4, s5, s6⟩ := hsf_same r.s x.off x.data x.fin none
    by_cases hok : (r.s.handleStreamFrame x.off x.data x.fin none).err.isNone = true
    · rw [if_pos hok]
      have hok' : (r.s.handleStreamFrame x.off x.data x.fin none).err = none := Option.isNone_iff_eq_none.mp hok
      have hu : (r.s.fc.updateHighestReceived (x.off + x.data.length) x.fin).2 = none := by
        cases hu : (r.s.fc.updateHighestReceived (x.off + x.data.length) x.fin).2 with
        | none => rfl
        | some e => rw [hsf_reject _ _ _ _ _ e hu] at hok'; cases hok'
      obtain ⟨a1, a2, a3⟩ := hsf_accept r.s x.off x.data x.fin none L.plain.2.1 hu
      have hsinv := frame_sinv' L.sinv x.off x.data x.fin none (slice_srcSeg hx) hx.2 hok'
      have sp := push_spec L.sinv.sorter x.data x.off none (by have := hx.2; omega) (fun j hj => (slice_get hx hj).1)
      refine ⟨by simp only; rw [s3]; exact h.out_eq, by simp only; rw [s3]; exact hcov', hsl',
        fun hd => (by have : r.alive = false := hd; rw [hal] at this; cases this), fun _ => ?_⟩
      refine ⟨hsinv, ⟨by simp only; rw [s4]; exact L.plain.1, by simp only; rw [s5]; exact L.plain.2.1,
        by simp only; rw [s6]; exact L.plain.2.2⟩, ?_, ?_, ?_⟩
      · intro p hp
        simp only
        rw [a1, sp.gaps p]
        constructor
        · intro hn
          by_cases hin : x.off ≤ p ∧ p < x.off + x.data.length
          · exact ⟨x, List.mem_cons_self, hin⟩
          · have : ¬ inGap r.s.sorter.gaps p := fun hg => hn ⟨hg, hin⟩
            obtain ⟨y, hy, hc⟩ := (L.gaps p hp).mp this
            exact ⟨y, hmem hy, hc⟩
        · rintro ⟨y, hy, hc⟩ ⟨hg, hnin⟩
          rcases List.mem_cons.mp hy with rfl | hy
          · exact hnin hc
          · exact (L.gaps p hp).mpr ⟨y, hy, hc⟩ hg
      · intro y hy hyf
        simp only
        rw [a2]
        rcases List.mem_cons.mp hy with rfl | hy
        · rw [if_pos hyf]
        · have hold := L.fins y hy hyf
          by_cases hxf : x.fin = true
          · rw [if_pos hxf]
            have hb := (h.slices y hy).2
            have hne : r.s.finalOffset ≠ maxByteCount := by omega
            obtain ⟨c1, c2⟩ := L.sinv.final hne
            have := ((fc_accept r.s.fc (x.off + x.data.length) x.fin hu).2.2.1 c1).2.2 hxf
            omega
          · rw [if_neg hxf]; exact hold
      · simp only
        rw [a2]
        by_cases hxf : x.fin = true
        · rw [if_pos hxf]
          intro _
          exact ⟨x, List.mem_cons_self, hxf, rfl⟩
        · rw [if_neg hxf]
          intro hne
          obtain ⟨y, hy, hc⟩ := L.finseg hne
          exact ⟨y, hmem hy, hc⟩
    · rw [if_neg hok]
      refine ⟨?_, ?_, hsl', fun _ => ⟨rfl, ?_⟩, fun hl => by cases hl⟩
      · simp only [RStream.closeForShutdown]; rw [s3]; exact h.out_eq
      · simp only [RStream.closeForShutdown]; rw [s3]; exact hcov'
      · simp only [RStream.closeForShutdown]
        rw [s1, s2, s3]
        intro a b
        obtain ⟨y, hy, hc⟩ := L.eof_seg a b
        exact ⟨y, hmem hy, hc⟩
  · rw [if_neg hal]
    have hal' : r.alive = false := by simpa using hal
    obtain ⟨d1, d2⟩ := h.dead hal'
    exact ⟨h.out_eq, hcov', hsl', fun _ => ⟨d1, fun a b => let ⟨y, hy, hc⟩ := d2 a b; ⟨y, hmem hy, hc⟩⟩,
      fun hl => by have : r.alive = true := hl; exact absurd this hal⟩

theorem rcvInv_read {W : List UInt8} {r : Rcv} (h : RcvInv W r) (n : Nat) : RcvInv W (r.read n).1 := by
  unfold Rcv.read
  simp only
  by_cases hal : r.alive = true
  · have L := h.live hal
    obtain ⟨r1, r2, r3, r4, _, _, _⟩ := read_spec L.sinv n
    obtain ⟨l1, l2, _, _⟩ := read_live L.sinv L.plain n r.s.readPos (fun p h1 h2 => by omega)
    have L' : LiveInv W { r with s := (r.s.read n).s, out := r.out ++ (r.s.read n).data } :=
      ⟨r1, l1, fun p hp => by simp only; rw [l2]; exact L.gaps p hp,
        fun x hx hf => by simp only; rw [r4]; exact L.fins x hx hf,
        fun hne => by simp only at hne ⊢; rw [r4] at hne ⊢; exact L.finseg hne⟩
    refine ⟨?_, L'.out_cov, h.slices, fun hd => (by have : r.alive = false := hd; rw [hal] at this; cases this), fun _ => L'⟩
    simp only
    rw [h.out_eq, r3, r2]
    have := srcSeg_append (srcOf W) 0 r.s.readPos (r.s.read n).data.length
    rw [Nat.zero_add] at this
    rw [srcSeg_length]
    exact this
  · have hal' : r.alive = false := by simpa using hal
    obtain ⟨d1, d2⟩ := h.dead hal'
    obtain ⟨e1, e2, e3, e4, e5, _⟩ := read_shutdown r.s n d1
    refine ⟨by simp only; rw [e1, e3, List.append_nil]; exact h.out_eq, by simp only; rw [e3]; exact h.out_cov, h.slices,
      fun _ => ⟨e2, by simp only; rw [e3, e4, e5]; exact d2⟩, fun hl => by have : r.alive = true := hl; exact absurd this hal⟩

theorem rcvInv_of_reachW {W : List UInt8} {fc : FC} (h0 : fc.highest = 0) {r : (recvStream fc).R}
    (h : ReachW (recvStream fc) W r) : RcvInv W r := by
  induction h with
  | init => exact rcvInv_init W fc h0
  | deliver x hs _ ih => exact rcvInv_deliver ih x hs
  | read n _ ih => exact rcvInv_read ih n

/-! ### the contract -/

/-- **C03's ReceiveStream model meets C01's reassembly contract** on every state reached by delivering slices
of one source string `W` (any order, overlap, duplication, FIN anywhere) and reading with buffers of any
size; the two completeness clauses hold as long as no frame was rejected (`alive`). -/
theorem recvStream_contract (fc : FC) (h0 : fc.highest = 0) (W : List UInt8) :
    ContractOn (recvStream fc) W (fun r : Rcv => r.alive = true) where
  segs_init := rfl
  out_init := rfl
  segs_deliver := by
    intro r s _ x
    show x ∈ (Rcv.deliver r s).segs ↔ x = s ∨ x ∈ r.segs
    unfold Rcv.deliver
    split
    · simp only
      split <;> simp
    · simp
  out_deliver := by
    intro r s _
    show (Rcv.deliver r s).out = r.out
    unfold Rcv.deliver
    split
    · simp only
      split <;> rfl
    · rfl
  segs_read := fun _ _ _ => rfl
  out_read := fun _ _ _ => rfl
  from_segment := by
    intro r hr i hi
    have I := rcvInv_of_reachW h0 hr
    have hout : (recvStream fc).out r = srcSeg (srcOf W) 0 r.s.readPos := I.out_eq
    rw [hout] at hi ⊢
    rw [srcSeg_length] at hi
    obtain ⟨x, hx, h1, h2⟩ := I.out_cov i hi
    refine ⟨x, hx, h1, h2, ?_⟩
    rw [srcSeg_get _ _ _ _ hi, (slice_get (I.slices x hx) (j := i - x.off) (by omega)).1]
    congr 2; omega
  read_len := by
    intro r n hr
    have I := rcvInv_of_reachW h0 hr
    show (r.s.read n).data.length ≤ n
    by_cases hal : r.alive = true
    · exact (read_spec (I.live hal).sinv n).2.2.2.2.2.2
    · have hal' : r.alive = false := by simpa using hal
      rw [(read_shutdown r.s n (I.dead hal').1).1]; simp
  eof_sound := by
    intro r n hr heof
    have I := rcvInv_of_reachW h0 hr
    have I' := rcvInv_read I n
    have hst : (r.s.read n).status = .eof := of_decide_eq_true heof
    have hout : ((recvStream fc).out ((recvStream fc).read r n).1).length = (r.s.read n).s.readPos := by
      have : (recvStream fc).out ((recvStream fc).read r n).1 = srcSeg (srcOf W) 0 (r.s.read n).s.readPos := I'.out_eq
      rw [this, srcSeg_length]
    rw [hout]
    show ∃ s ∈ r.segs, _
    by_cases hal : r.alive = true
    · have L := I.live hal
      obtain ⟨_, _, _, _, r5, _, _⟩ := read_spec L.sinv n
      obtain ⟨h1, h2⟩ := r5 hst
      obtain ⟨x, hx, hxf, hxe⟩ := L.finseg h2
      exact ⟨x, hx, hxf, by omega⟩
    · have hal' : r.alive = false := by simpa using hal
      obtain ⟨d1, d2⟩ := I.dead hal'
      obtain ⟨_, _, e3, _, _, e6⟩ := read_shutdown r.s n d1
      obtain ⟨x, hx, hxf, hxe⟩ := d2 (e6 hst).1 (e6 hst).2
      exact ⟨x, hx, hxf, by omega⟩
  progress := by
    intro r n c hr hal hcov hle
    have I := rcvInv_of_reachW h0 hr
    have L := I.live hal
    have hout : ((recvStream fc).out r).length = r.s.readPos := by
      have : (recvStream fc).out r = srcSeg (srcOf W) 0 r.s.readPos := I.out_eq
      rw [this, srcSeg_length]
    rw [hout] at hle ⊢
    show min n (c - r.s.readPos) ≤ (r.s.read n).data.length
    obtain ⟨_, _, hp, _⟩ := read_live L.sinv L.plain n c (fun p _ h2 => by
      obtain ⟨x, hx, hc1, hc2⟩ := hcov p h2
      have hb := (I.slices x hx).2
      have hpm : p < maxByteCount := by omega
      exact ⟨hpm, (L.gaps p hpm).mpr ⟨x, hx, hc1, hc2⟩⟩)
    have r3 := (read_spec L.sinv n).2.2.1
    omega
  eof_complete := by
    intro r n hr hal hn hW hfin
    have I := rcvInv_of_reachW h0 hr
    have L := I.live hal
    have hout : ((recvStream fc).out r).length = r.s.readPos := by
      have : (recvStream fc).out r = srcSeg (srcOf W) 0 r.s.readPos := I.out_eq
      rw [this, srcSeg_length]
    rw [hout] at hfin
    obtain ⟨x, hx, hxf, hxe⟩ := hfin
    have hfo := L.fins x hx hxf
    have hb := (I.slices x hx).2
    have hst := read_eof_at_final L.sinv L.plain (by omega) (by omega) n hn
    show decide ((r.s.read n).status = .eof) = true
    exact decide_eq_true hst

end Uquic.Proofs.StreamE2E
