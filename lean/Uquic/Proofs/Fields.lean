/-
Helper lemmas for C19: byte classes, generated tables, and the loop invariant of parseHeaders.
-/
import Uquic.Model.H3.Fields
import Uquic.Spec.H3FieldsWF
import Uquic.Spec.H3FieldsMon

namespace Uquic.Proofs.Fields
open Uquic.Model.H3.Fields Uquic.Gen.H3Fields
open Uquic.Spec.H3Fields (isPseudoName lowerTchar fieldValueByte isDigitByte connectionSpecific allowedPseudo
  fieldSize sectionSize NameTokens ValueBytes NoConnectionSpecific TeTrailers PseudoKnown PseudoFirst PseudoUnique
  ClSingle ClNumeric SizeOk WellFormedG WellFormed)

abbrev Field := List Nat × List Nat

/-! ### byte classes -/

theorem isPseudo_eq (n : List Nat) : isPseudo n = isPseudoName n := rfl

theorem tokenByte_lt (b : Nat) (h : isTokenByte b = true) : b < 127 := by
  simp only [isTokenByte, Bool.or_eq_true, Bool.and_eq_true, decide_eq_true_eq, beq_iff_eq] at h
  omega

theorem tokenByte_lower_small : ∀ b, b < 127 → isTokenByte b = true → isUpper b = false → lowerTchar b = true := by
  decide

theorem tokenByte_lower (b : Nat) (h : isTokenByte b = true) (hu : isUpper b = false) : lowerTchar b = true :=
  tokenByte_lower_small b (tokenByte_lt b h) h hu

theorem lowerTchar_small : ∀ b, b < 127 → lowerTchar b = true → isTokenByte b = true ∧ isUpper b = false := by
  decide

theorem lowerTchar_lt (b : Nat) (h : lowerTchar b = true) : b < 127 := by
  simp only [lowerTchar, Bool.or_eq_true, Bool.and_eq_true, decide_eq_true_eq, List.contains_eq_mem,
    List.mem_cons, List.not_mem_nil, or_false] at h
  omega

theorem lowerTchar_token (b : Nat) (h : lowerTchar b = true) : isTokenByte b = true ∧ isUpper b = false :=
  lowerTchar_small b (lowerTchar_lt b h) h

theorem validValueByte_iff (b : Nat) : validValueByte b = fieldValueByte b := by
  by_cases h : b < 128
  · revert b; decide
  · have h1 : validValueByte b = true := by
      have : isCTL b = false := by
        simp only [isCTL, Bool.or_eq_false_iff, decide_eq_false_iff_not, beq_eq_false_iff_ne]; omega
      simp [validValueByte, this]
    have h2 : fieldValueByte b = true := by
      simp only [fieldValueByte, Bool.or_eq_true, decide_eq_true_eq]; omega
    rw [h1, h2]

theorem validFieldValue_bytes (v : List Nat) (h : validFieldValue v = true) : ∀ b ∈ v, fieldValueByte b = true := by
  intro b hb
  have := List.all_eq_true.mp h b hb
  rwa [validValueByte_iff] at this

/-- a name accepted by `ValidHeaderFieldName` is ASCII, so the lower-case test is the ASCII one -/
theorem validFieldName_ascii (n : List Nat) (h : validFieldName n = true) : isASCII n = true := by
  simp only [validFieldName, Bool.and_eq_true] at h
  apply List.all_eq_true.mpr
  intro b hb
  have := tokenByte_lt b (List.all_eq_true.mp h.2 b hb)
  simp only [decide_eq_true_eq]; omega

theorem regular_name_tokens (ext : List Nat → Bool) (n : List Nat) (hv : validFieldName n = true)
    (hl : lowerFix ext n = true) : n ≠ [] ∧ ∀ b ∈ n, lowerTchar b = true := by
  have ha := validFieldName_ascii n hv
  simp only [lowerFix, ha, if_true, Bool.not_eq_true', List.any_eq_false] at hl
  simp only [validFieldName, Bool.and_eq_true, Bool.not_eq_true', List.isEmpty_eq_false_iff] at hv
  refine ⟨hv.1, fun b hb => ?_⟩
  have hu : isUpper b = false := by
    have := hl b hb
    simpa using this
  exact tokenByte_lower b (List.all_eq_true.mp hv.2 b hb) hu

/-! ### generated tables against the RFC lists -/

theorem overhead_eq : headerFieldOverhead = 32 := by decide
theorem trailer_overhead_eq : trailerFieldOverhead = 32 := by decide

theorem connectionSpecific_sub : ∀ n ∈ connectionSpecific, n ∈ invalidHeaderFields := by decide

theorem pseudoCases_ok : ∀ p ∈ pseudoCases,
    (p.2 = false → p.1 ∈ allowedPseudo true) ∧ (p.2 = true → p.1 ∈ allowedPseudo false) := by decide

theorem lookup_mem {α β} [BEq α] [LawfulBEq α] (l : List (α × β)) (a : α) (b : β) (h : l.lookup a = some b) : (a, b) ∈ l := by
  induction l with
  | nil => simp [List.lookup] at h
  | cons p ps ih =>
    obtain ⟨x, y⟩ := p
    simp only [List.lookup] at h
    by_cases hx : a == x
    · simp only [hx] at h
      have := eq_of_beq hx
      simp_all
    · simp only [hx] at h
      exact List.mem_cons_of_mem _ (ih h)

theorem pseudo_allowed (isReq : Bool) (n : List Nat) (r : Bool) (h : pseudoCases.lookup n = some r)
    (h1 : (isReq && r) = false) (h2 : (!isReq && !r) = false) : n ∈ allowedPseudo isReq := by
  have hm := lookup_mem _ _ _ h
  have := pseudoCases_ok _ hm
  cases isReq <;> cases r <;> simp_all

/-! ### the loop invariant -/

theorem sectionSize_append (a b : List Field) : sectionSize (a ++ b) = sectionSize a + sectionSize b := by
  simp [sectionSize, List.map_append, List.sum_append]

/-- value of the first field called `n` -/
abbrev fieldValue := Uquic.Spec.H3FieldsMon.fieldValue

def knownPseudo : List (List Nat) := [nPath, nMethod, nAuthority, nProtocol, nScheme, nStatus]

theorem pseudoCases_known : ∀ p ∈ pseudoCases, p.1 ∈ knownPseudo := by decide

/-- the regular fields other than content-length, as `Header.Add` stores them -/
def decodedHeaders (fs : List Field) : Headers :=
  (fs.filter (fun f => !isPseudoName f.1 && f.1 != nContentLength)).map (fun f => (canonKey f.1, f.2))

structure Inv (isReq : Bool) (lim0 : Int) (pre : List Field) (s : PS) : Prop where
  lim : s.limit = lim0 - sectionSize pre
  nonneg : pre ≠ [] → 0 ≤ s.limit
  names : NameTokens pre
  values : ValueBytes pre
  noconn : NoConnectionSpecific pre
  te : TeTrailers pre
  known : PseudoKnown isReq pre
  first : PseudoFirst pre
  allPseudo : s.firstRegular = false → ∀ f ∈ pre, isPseudoName f.1 = true
  someRegular : s.firstRegular = true → ∃ f ∈ pre, isPseudoName f.1 = false
  headers : s.hdr.headers = decodedHeaders pre
  seen : s.seen = (pre.filter (fun f => isPseudoName f.1)).map Prod.fst
  nodup : s.seen.Nodup
  clNone : s.readCL = false → (∀ f ∈ pre, f.1 ≠ nContentLength) ∧ s.clStr = []
  clSome : s.readCL = true → ∀ f ∈ pre, f.1 = nContentLength → f.2 = s.clStr
  clWitness : s.readCL = true → ∃ f ∈ pre, f.1 = nContentLength ∧ f.2 = s.clStr
  hdrv : ∀ n ∈ knownPseudo, getPseudo s.hdr n = fieldValue pre n

theorem inv_init (isReq : Bool) (lim : Int) : Inv isReq lim [] { limit := lim } := by
  refine ⟨by simp [sectionSize], by simp, ?_, ?_, ?_, ?_, ?_, ?_, ?_, ?_, ?_, ?_, ?_, ?_, ?_, ?_, ?_⟩ <;>
    simp [NameTokens, ValueBytes, NoConnectionSpecific, TeTrailers, PseudoKnown, PseudoFirst, decodedHeaders]
  intro n hn
  simp only [knownPseudo, List.mem_cons, List.not_mem_nil, or_false] at hn
  rcases hn with h | h | h | h | h | h <;> subst h <;> decide

theorem getPseudo_setPseudo (h : Hdr) (m : List Nat) (hm : m ∈ knownPseudo) (v : List Nat) (n : List Nat) :
    getPseudo (setPseudo h m v) n = if n = m then v else getPseudo h n := by
  simp only [knownPseudo, List.mem_cons, List.not_mem_nil, or_false] at hm
  rcases hm with rfl | rfl | rfl | rfl | rfl | rfl <;>
  · simp only [setPseudo, getPseudo, nPath, nMethod, nAuthority, nProtocol, nScheme, nStatus]
    simp (config := { decide := true }) only [if_true, if_false]
    repeat' split
    all_goals first | rfl | simp_all

theorem fieldValue_append_of_not_mem (pre : List Field) (f : Field) (n : List Nat)
    (h : ∀ g ∈ pre, g.1 ≠ n) : fieldValue (pre ++ [f]) n = if f.1 = n then f.2 else [] := by
  simp only [fieldValue, Uquic.Spec.H3FieldsMon.fieldValue, List.find?_append]
  have : pre.find? (fun g => g.1 == n) = none := by
    simp only [List.find?_eq_none, beq_iff_eq]
    intro g hg; exact h g hg
  simp only [this, Option.none_or, List.find?_cons, List.find?_nil]
  by_cases hf : f.1 = n
  · simp [hf]
  · have : (f.1 == n) = false := by simp [hf]
    simp [hf, this]

theorem fieldValue_append_of_ne (pre : List Field) (f : Field) (n : List Nat) (h : f.1 ≠ n) :
    fieldValue (pre ++ [f]) n = fieldValue pre n := by
  simp only [fieldValue, Uquic.Spec.H3FieldsMon.fieldValue, List.find?_append]
  cases hp : pre.find? (fun g => g.1 == n) with
  | some g => simp
  | none => simp [h]

end Uquic.Proofs.Fields
