import Uquic.Proofs.WireRoundTrip

/-! `decode (append v ++ rest) = v` for every frame kind. -/

namespace Uquic.Proofs.Wire
open Uquic.Model.Wire Uquic.Model.Wire.Varint Uquic.Spec.WireMon

theorem lt62 {v : Nat} (h : v < 2 ^ 62) : v ≤ maxVarInt8 := by rw [max8_eq]; omega

/-- generic step: a frame whose bytes are `enc t ++ body` -/
theorem decode_frame (c : Ctx) (f : Frame) (t : Nat) (body rest : Bytes) (n : Nat)
    (hbytes : f.bytes = enc t ++ body) (ht0 : t ≠ 0) (htm : t ≤ maxVarInt8) (hacc : typeAccepted c t)
    (hbody : parseBody c t (body ++ rest) = .ok (f, n)) (hn : n = body.length) :
    decode c (f.bytes ++ rest) = .frame f f.bytes.length := by
  rw [hbytes, List.append_assoc, decode_of_body c t (body ++ rest) f n ht0 htm hacc hbody]
  simp [len_enc t htm, hn]

section
variable (c : Ctx) (rest : Bytes)

theorem rt_ping (hacc : typeAccepted c ftPing) : decode c (Frame.ping.bytes ++ rest) = .frame .ping Frame.ping.bytes.length :=
  decode_frame c .ping ftPing [] rest 0 (by simp [Frame.bytes, u8_eq_enc ftPing (by decide)]) (by decide) (by decide) hacc
    (by rw [body_ping]) rfl

theorem rt_handshakeDone (hacc : typeAccepted c ftHandshakeDone) :
    decode c (Frame.handshakeDone.bytes ++ rest) = .frame .handshakeDone Frame.handshakeDone.bytes.length :=
  decode_frame c .handshakeDone ftHandshakeDone [] rest 0 (by simp [Frame.bytes, u8_eq_enc ftHandshakeDone (by decide)])
    (by decide) (by decide) hacc (by rw [body_handshakeDone]) rfl

theorem rt_immediateAck (hacc : typeAccepted c ftImmediateAck) :
    decode c (Frame.immediateAck.bytes ++ rest) = .frame .immediateAck Frame.immediateAck.bytes.length :=
  decode_frame c .immediateAck ftImmediateAck [] rest 0 (by simp [Frame.bytes]) (by decide) (by decide) hacc
    (by rw [body_immediateAck]) rfl

theorem rt_maxData (v : Nat) (hv : v < 2 ^ 62) (hacc : typeAccepted c ftMaxData) :
    decode c ((Frame.maxData v).bytes ++ rest) = .frame (.maxData v) (Frame.maxData v).bytes.length :=
  decode_frame c _ ftMaxData (enc v) rest _ (by simp [Frame.bytes, u8_eq_enc ftMaxData (by decide)]) (by decide) (by decide) hacc
    (by rw [body_maxData, parseMaxData_eq]; exact parse1_of _ (decodes_enc v (lt62 hv)) rest) rfl

theorem rt_dataBlocked (v : Nat) (hv : v < 2 ^ 62) (hacc : typeAccepted c ftDataBlocked) :
    decode c ((Frame.dataBlocked v).bytes ++ rest) = .frame (.dataBlocked v) (Frame.dataBlocked v).bytes.length :=
  decode_frame c _ ftDataBlocked (enc v) rest _ (by simp [Frame.bytes, u8_eq_enc ftDataBlocked (by decide)]) (by decide)
    (by decide) hacc (by rw [body_dataBlocked, parseDataBlocked_eq]; exact parse1_of _ (decodes_enc v (lt62 hv)) rest) rfl

theorem rt_retireConnectionID (v : Nat) (hv : v < 2 ^ 62) (hacc : typeAccepted c ftRetireConnectionID) :
    decode c ((Frame.retireConnectionID v).bytes ++ rest) =
      .frame (.retireConnectionID v) (Frame.retireConnectionID v).bytes.length :=
  decode_frame c _ ftRetireConnectionID (enc v) rest _ (by simp [Frame.bytes, u8_eq_enc ftRetireConnectionID (by decide)])
    (by decide) (by decide) hacc
    (by rw [body_retireConnectionID, parseRetireConnectionID_eq]; exact parse1_of _ (decodes_enc v (lt62 hv)) rest) rfl

theorem msc_eq : maxStreamCount = 2 ^ 60 := by decide

theorem rt_maxStreams (t : StreamType) (v : Nat) (hv : v ≤ 2 ^ 60) (hacc : typeAccepted c (Frame.maxStreams t v).typ) :
    decode c ((Frame.maxStreams t v).bytes ++ rest) = .frame (.maxStreams t v) (Frame.maxStreams t v).bytes.length := by
  have hd := decodes_enc v (by rw [max8_eq]; omega)
  have hm : v ≤ maxStreamCount := by rw [msc_eq]; exact hv
  cases t with
  | bidi =>
    exact decode_frame c _ ftBidiMaxStreams (enc v) rest _ (by simp [Frame.bytes, u8_eq_enc ftBidiMaxStreams (by decide)])
      (by decide) (by decide) hacc
      (by rw [body_maxStreamsBidi]; simpa (config := {decide := true}) using parseMaxStreams_of hd hm ftBidiMaxStreams rest) rfl
  | uni =>
    exact decode_frame c _ ftUniMaxStreams (enc v) rest _ (by simp [Frame.bytes, u8_eq_enc ftUniMaxStreams (by decide)])
      (by decide) (by decide) hacc
      (by rw [body_maxStreamsUni]; simpa using parseMaxStreams_of hd hm ftUniMaxStreams rest) rfl

theorem rt_streamsBlocked (t : StreamType) (v : Nat) (hv : v ≤ 2 ^ 60) (hacc : typeAccepted c (Frame.streamsBlocked t v).typ) :
    decode c ((Frame.streamsBlocked t v).bytes ++ rest) =
      .frame (.streamsBlocked t v) (Frame.streamsBlocked t v).bytes.length := by
  have hd := decodes_enc v (by rw [max8_eq]; omega)
  have hm : v ≤ maxStreamCount := by rw [msc_eq]; exact hv
  cases t with
  | bidi =>
    exact decode_frame c _ ftBidiStreamBlocked (enc v) rest _
      (by simp [Frame.bytes, u8_eq_enc ftBidiStreamBlocked (by decide)]) (by decide) (by decide) hacc
      (by rw [body_streamsBlockedBidi]
          simpa (config := {decide := true}) using parseStreamsBlocked_of hd hm ftBidiStreamBlocked rest) rfl
  | uni =>
    exact decode_frame c _ ftUniStreamBlocked (enc v) rest _
      (by simp [Frame.bytes, u8_eq_enc ftUniStreamBlocked (by decide)]) (by decide) (by decide) hacc
      (by rw [body_streamsBlockedUni]; simpa using parseStreamsBlocked_of hd hm ftUniStreamBlocked rest) rfl

theorem rt_maxStreamData (sid v : Nat) (hs : sid < 2 ^ 62) (hv : v < 2 ^ 62) (hacc : typeAccepted c ftMaxStreamData) :
    decode c ((Frame.maxStreamData sid v).bytes ++ rest) =
      .frame (.maxStreamData sid v) (Frame.maxStreamData sid v).bytes.length :=
  decode_frame c _ ftMaxStreamData (enc sid ++ enc v) rest _
    (by simp [Frame.bytes, u8_eq_enc ftMaxStreamData (by decide)]) (by decide) (by decide) hacc
    (by rw [body_maxStreamData]; exact parseMaxStreamData_of (decodes_enc sid (lt62 hs)) (decodes_enc v (lt62 hv)) rest)
    (by simp <;> omega)

theorem rt_stopSending (sid ec : Nat) (hs : sid < 2 ^ 62) (he : ec < 2 ^ 62) (hacc : typeAccepted c ftStopSending) :
    decode c ((Frame.stopSending sid ec).bytes ++ rest) = .frame (.stopSending sid ec) (Frame.stopSending sid ec).bytes.length :=
  decode_frame c _ ftStopSending (enc sid ++ enc ec) rest _
    (by simp [Frame.bytes, u8_eq_enc ftStopSending (by decide)]) (by decide) (by decide) hacc
    (by rw [body_stopSending]; exact parseStopSending_of (decodes_enc sid (lt62 hs)) (decodes_enc ec (lt62 he)) rest)
    (by simp <;> omega)

theorem rt_streamDataBlocked (sid v : Nat) (hs : sid < 2 ^ 62) (hv : v < 2 ^ 62) (hacc : typeAccepted c 0x15) :
    decode c ((Frame.streamDataBlocked sid v).bytes ++ rest) =
      .frame (.streamDataBlocked sid v) (Frame.streamDataBlocked sid v).bytes.length :=
  decode_frame c _ 0x15 (enc sid ++ enc v) rest _
    (by simp only [Frame.bytes]; rw [show ([0x15] : Bytes) = [u8 0x15] by decide, u8_eq_enc 0x15 (by decide)]; simp)
    (by decide) (by decide) hacc
    (by rw [body_streamDataBlocked]; exact parseStreamDataBlocked_of (decodes_enc sid (lt62 hs)) (decodes_enc v (lt62 hv)) rest)
    (by simp <;> omega)

theorem rt_resetStream (sid ec fs rs : Nat) (hs : sid < 2 ^ 62) (he : ec < 2 ^ 62) (hf : fs < 2 ^ 62) (hr : rs ≤ fs)
    (hacc : typeAccepted c (Frame.resetStream sid ec fs rs).typ) :
    decode c ((Frame.resetStream sid ec fs rs).bytes ++ rest) =
      .frame (.resetStream sid ec fs rs) (Frame.resetStream sid ec fs rs).bytes.length := by
  by_cases h0 : rs = 0
  · subst h0
    exact decode_frame c _ ftResetStream (enc sid ++ enc ec ++ enc fs) rest _ (by simp [Frame.bytes, posI64]) (by decide) (by decide)
      (by simpa [Frame.typ] using hacc)
      (by rw [body_resetStream]
          exact parseResetStream_of (decodes_enc sid (lt62 hs)) (decodes_enc ec (lt62 he)) (decodes_enc fs (lt62 hf)) rest)
      (by simp <;> omega)
  · have hpos : posI64 rs = true := by simp [posI64]; omega
    exact decode_frame c _ ftResetStreamAt (enc sid ++ enc ec ++ enc fs ++ enc rs) rest _
      (by simp [Frame.bytes, h0, hpos]) (by decide) (by decide) (by simpa [Frame.typ, h0] using hacc)
      (by rw [body_resetStreamAt]
          exact parseResetStreamAt_of (decodes_enc sid (lt62 hs)) (decodes_enc ec (lt62 he)) (decodes_enc fs (lt62 hf))
            (decodes_enc rs (lt62 (by omega))) hr rest)
      (by simp <;> omega)

theorem rt_ackFrequency (seq th mad rt : Nat) (hs : seq < 2 ^ 62) (ht : th < 2 ^ 62) (hr : rt < 2 ^ 62)
    (hm : mad % 1000 = 0) (hm2 : mad / 1000 < 2 ^ 62) (hm3 : mad < 2 ^ 63) (hacc : typeAccepted c ftAckFrequency) :
    decode c ((Frame.ackFrequency seq th mad rt).bytes ++ rest) =
      .frame (.ackFrequency seq th mad rt) (Frame.ackFrequency seq th mad rt).bytes.length := by
  have hdelay : ackFreqDelay (mad / 1000) = mad := by
    unfold ackFreqDelay
    have : mad / 1000 * 1000 = mad := by omega
    rw [this, Nat.mod_eq_of_lt (by omega), if_neg (by omega)]
  have hb := parseAckFrequency_of (decodes_enc seq (lt62 hs)) (decodes_enc th (lt62 ht)) (decodes_enc (mad / 1000) (lt62 hm2))
    (decodes_enc rt (lt62 hr)) rest
  rw [hdelay] at hb
  exact decode_frame c _ ftAckFrequency (enc seq ++ enc th ++ enc (mad / 1000) ++ enc rt) rest _ (by simp [Frame.bytes])
    (by decide) (by decide) hacc (by rw [body_ackFrequency]; exact hb) (by simp <;> omega)

end

end Uquic.Proofs.Wire
