/-
C01: `ReassemblyContract` is satisfiable — a naive reference reassembler (keep every segment, read
byte by byte from the first segment covering the position) meets it. This is only a non-vacuity witness
for the hypotheses of the composition theorems; the real receive side is property C03.
-/
import Uquic.Spec.StreamPipe
import Uquic.Proofs.SendFrame

namespace Uquic.Proofs.RefReasm
open Uquic.Model.Stream.Send Uquic.Spec.StreamPipe

structure R where
  segs : List Segment := []
  out : Bytes := []

def byteOf (i : Nat) (s : Segment) : Option UInt8 :=
  if s.off ≤ i ∧ i < s.off + s.data.length then s.data[i - s.off]? else none

def byteAt (segs : List Segment) (i : Nat) : Option UInt8 := segs.findSome? (byteOf i)

def readGo (segs : List Segment) : Nat → Nat → Bytes
  | _, 0 => []
  | pos, n + 1 =>
    match byteAt segs pos with
    | some b => b :: readGo segs (pos + 1) n
    | none => []

def finAt (segs : List Segment) (e : Nat) : Bool := segs.any fun s => s.fin && s.off + s.data.length == e

def ref : Reassembler where
  R := R
  init := {}
  deliver r s := { r with segs := s :: r.segs }
  read r n :=
    let bs := readGo r.segs r.out.length n
    ({ r with out := r.out ++ bs }, bs, finAt r.segs (r.out.length + bs.length))
  segs r := r.segs
  out r := r.out

theorem byteAt_some {segs : List Segment} {i : Nat} {b : UInt8} (h : byteAt segs i = some b) :
    ∃ s ∈ segs, s.off ≤ i ∧ i < s.off + s.data.length ∧ s.data[i - s.off]? = some b := by
  unfold byteAt at h
  obtain ⟨s, hs, hb⟩ := List.exists_of_findSome?_eq_some h
  unfold byteOf at hb
  split at hb
  · rename_i hc; exact ⟨s, hs, hc.1, hc.2, hb⟩
  · simp at hb

theorem byteAt_covered {segs : List Segment} {i : Nat}
    (h : ∃ s ∈ segs, s.off ≤ i ∧ i < s.off + s.data.length) : (byteAt segs i).isSome = true := by
  obtain ⟨s, hs, h1, h2⟩ := h
  unfold byteAt
  rw [List.findSome?_isSome_iff]
  refine ⟨s, hs, ?_⟩
  unfold byteOf
  simp only [h1, h2, and_self, ↓reduceIte]
  rw [List.getElem?_eq_getElem (by omega)]; rfl

theorem readGo_len (segs : List Segment) (pos n : Nat) : (readGo segs pos n).length ≤ n := by
  induction n generalizing pos with
  | zero => unfold readGo; simp
  | succ n ih =>
    unfold readGo
    split
    · simp only [List.length_cons]; have := ih (pos + 1); omega
    · simp

theorem readGo_from (segs : List Segment) (pos n j : Nat) (hj : j < (readGo segs pos n).length) :
    ∃ s ∈ segs, s.off ≤ pos + j ∧ pos + j < s.off + s.data.length ∧ (readGo segs pos n)[j]? = s.data[pos + j - s.off]? := by
  induction n generalizing pos j with
  | zero => simp [readGo] at hj
  | succ n ih =>
    unfold readGo at hj ⊢
    split at hj
    · rename_i b hb
      cases j with
      | zero =>
        obtain ⟨s, hs, h1, h2, h3⟩ := byteAt_some hb
        exact ⟨s, hs, by simpa using h1, by simpa using h2, by simpa using h3.symm⟩
      | succ j =>
        simp only [List.length_cons] at hj
        obtain ⟨s, hs, h1, h2, h3⟩ := ih (pos + 1) j (by omega)
        refine ⟨s, hs, by omega, by omega, ?_⟩
        simp only [List.getElem?_cons_succ]
        rw [h3]; congr 1; omega
    · simp at hj

theorem readGo_progress (segs : List Segment) (pos n c : Nat)
    (hcov : ∀ i, pos ≤ i → i < c → ∃ s ∈ segs, s.off ≤ i ∧ i < s.off + s.data.length) :
    min n (c - pos) ≤ (readGo segs pos n).length := by
  induction n generalizing pos with
  | zero => simp
  | succ n ih =>
    by_cases hp : pos < c
    · have hs := byteAt_covered (hcov pos (Nat.le_refl _) hp)
      unfold readGo
      cases hb : byteAt segs pos with
      | none => simp [hb] at hs
      | some b =>
        simp only [List.length_cons]
        have := ih (pos + 1) (fun i h1 h2 => hcov i (by omega) h2)
        omega
    · have : c - pos = 0 := by omega
      simp [this]

/-- the invariant of reachable states: every byte returned came from a delivered segment -/
theorem reach_from_segment {r : ref.R} (h : Reach ref r) :
    ∀ i, i < (ref.out r).length → ∃ s ∈ ref.segs r, s.off ≤ i ∧ i < s.off + s.data.length ∧ (ref.out r)[i]? = s.data[i - s.off]? := by
  induction h with
  | init => intro i hi; simp [ref] at hi
  | deliver s _ ih =>
    intro i hi
    obtain ⟨x, hx, h⟩ := ih i hi
    exact ⟨x, List.mem_cons_of_mem _ hx, h⟩
  | @read r n _ ih =>
    intro i hi
    simp only [ref] at hi ⊢
    by_cases hlt : i < r.out.length
    · obtain ⟨x, hx, h1, h2, h3⟩ := ih i hlt
      exact ⟨x, hx, h1, h2, by rw [List.getElem?_append_left hlt]; exact h3⟩
    · simp only [List.length_append] at hi
      obtain ⟨x, hx, h1, h2, h3⟩ := readGo_from r.segs r.out.length n (i - r.out.length) (by omega)
      refine ⟨x, hx, by omega, by omega, ?_⟩
      rw [List.getElem?_append_right (by omega), h3]; congr 1; omega

theorem ref_contract : ReassemblyContract ref where
  segs_init := rfl
  out_init := rfl
  segs_deliver := fun r s _ x => by simp [ref]
  out_deliver := fun _ _ _ => rfl
  segs_read := fun _ _ _ => rfl
  out_read := fun _ _ _ => rfl
  from_segment := fun _ hr => reach_from_segment hr
  read_len := fun r n _ => readGo_len _ _ _
  eof_sound := fun r n _ h => by
    simp only [ref, finAt, List.any_eq_true, Bool.and_eq_true, beq_iff_eq] at h
    obtain ⟨s, hs, hf, he⟩ := h
    exact ⟨s, hs, hf, by simp only [ref, List.length_append]; exact he⟩
  progress := fun r n _ c _ _ hcov hle => by
    have := readGo_progress r.segs r.out.length n c (fun i _ h2 => hcov i h2)
    exact this
  eof_complete := fun r n W _ hc _ hW h => by
    obtain ⟨s, hs, hf, he⟩ := h
    -- nothing lies beyond the end of the source string, so the read returns no bytes
    have hnil : readGo r.segs r.out.length n = [] := by
      cases n with
      | zero => unfold readGo; rfl
      | succ n =>
        unfold readGo
        cases hb : byteAt r.segs r.out.length with
        | none => rfl
        | some b =>
          obtain ⟨x, hx, h1, h2, _⟩ := byteAt_some hb
          have hne : x.data ≠ [] := by intro h; simp [h] at h2; omega
          have := Uquic.Proofs.Send.prefix_drop_length_le (hc x hx) hne
          simp only [ref] at hW
          omega
    simp only [ref, finAt, List.any_eq_true, Bool.and_eq_true, beq_iff_eq, hnil, List.length_nil, Nat.add_zero]
    exact ⟨s, hs, hf, he⟩

end Uquic.Proofs.RefReasm
