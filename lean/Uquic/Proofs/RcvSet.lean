/-
Refinement of the interval-list history (Model.Rcv.Hist) to the set-based specification
(Spec.RcvSet.SetHist): canonical form of WF range lists, correctness of `runsDesc`.
-/
import Uquic.Proofs.RcvInv
import Uquic.Spec.RcvSet

namespace Uquic.Proofs.Rcv
open Uquic.Model.Rcv Uquic.Spec.RcvSet

/-- strictly ascending -/
def Asc : List Int → Prop
  | [] => True
  | [_] => True
  | x :: y :: rest => x < y ∧ Asc (y :: rest)

theorem Asc.tail {x : Int} {xs : List Int} (h : Asc (x :: xs)) : Asc xs := by
  cases xs with
  | nil => trivial
  | cons y ys => exact h.2

theorem Asc.head_lt {x : Int} {xs : List Int} (h : Asc (x :: xs)) : ∀ y ∈ xs, x < y := by
  induction xs generalizing x with
  | nil => simp
  | cons z zs ih =>
    intro y hy
    rcases List.mem_cons.mp hy with rfl | hy
    · exact h.1
    · have := ih h.2 y hy; have := h.1; omega

/-- two WF range lists that cover the same numbers are equal (canonical form) -/
theorem WF_unique : ∀ (l1 l2 : List Range), WF l1 → WF l2 → (∀ q, covers l1 q ↔ covers l2 q) → l1 = l2 := by
  intro l1
  induction l1 with
  | nil =>
    intro l2 _ h2 hc
    cases l2 with
    | nil => rfl
    | cons r rest =>
      have : covers (r :: rest) r.2 := (covers_cons _ _ _).mpr (Or.inl ⟨h2.1, Int.le_refl _⟩)
      have := (hc r.2).mpr this
      simp at this
  | cons r1 rest1 ih =>
    intro l2 h1 h2 hc
    cases l2 with
    | nil =>
      have : covers (r1 :: rest1) r1.2 := (covers_cons _ _ _).mpr (Or.inl ⟨h1.1, Int.le_refl _⟩)
      have := (hc r1.2).mp this
      simp at this
    | cons r2 rest2 =>
      have c1 : ∀ q, covers (r1 :: rest1) q → q ≤ r1.2 := fun q hq => covers_le_head h1 hq
      have c2 : ∀ q, covers (r2 :: rest2) q → q ≤ r2.2 := fun q hq => covers_le_head h2 hq
      have top1 : covers (r1 :: rest1) r1.2 := (covers_cons _ _ _).mpr (Or.inl ⟨h1.1, Int.le_refl _⟩)
      have top2 : covers (r2 :: rest2) r2.2 := (covers_cons _ _ _).mpr (Or.inl ⟨h2.1, Int.le_refl _⟩)
      have e2 : r1.2 = r2.2 := by
        have a := c2 _ ((hc _).mp top1)
        have b := c1 _ ((hc _).mpr top2)
        omega
      -- a number just below a head's start is not covered
      have below1 : ¬ covers (r1 :: rest1) (r1.1 - 1) := by
        intro hq
        rcases (covers_cons _ _ _).mp hq with ⟨a, _⟩ | ⟨x, hx, _, b⟩
        · omega
        · have := h1.2.1 x hx; omega
      have below2 : ¬ covers (r2 :: rest2) (r2.1 - 1) := by
        intro hq
        rcases (covers_cons _ _ _).mp hq with ⟨a, _⟩ | ⟨x, hx, _, b⟩
        · omega
        · have := h2.2.1 x hx; omega
      have e1 : r1.1 = r2.1 := by
        have h1' := h1.1; have h2' := h2.1
        by_cases hlt : r2.1 < r1.1
        · exfalso; apply below1
          exact (hc _).mpr ((covers_cons _ _ _).mpr (Or.inl ⟨by omega, by omega⟩))
        · by_cases hgt : r1.1 < r2.1
          · exfalso; apply below2
            exact (hc _).mp ((covers_cons _ _ _).mpr (Or.inl ⟨by omega, by omega⟩))
          · omega
      have er : r1 = r2 := Prod.ext e1 e2
      subst er
      congr 1
      apply ih rest2 h1.2.2 h2.2.2
      intro q
      constructor
      · intro hq
        obtain ⟨x, hx, a, b⟩ := hq
        have hlow := h1.2.1 x hx
        rcases (covers_cons _ _ _).mp ((hc q).mp ((covers_cons _ _ _).mpr (Or.inr ⟨x, hx, a, b⟩))) with ⟨a', _⟩ | h'
        · omega
        · exact h'
      · intro hq
        obtain ⟨x, hx, a, b⟩ := hq
        have hlow := h2.2.1 x hx
        rcases (covers_cons _ _ _).mp ((hc q).mpr ((covers_cons _ _ _).mpr (Or.inr ⟨x, hx, a, b⟩))) with ⟨a', _⟩ | h'
        · omega
        · exact h'

/-- `runsDescAux xs acc` for ascending `xs` all above `acc`'s top -/
theorem runsDescAux_spec : ∀ (xs : List Int) (acc : List Range), Asc xs → WF acc →
    (∀ r, acc.head? = some r → ∀ x ∈ xs, r.2 < x) →
    WF (runsDescAux xs acc) ∧ (∀ q, covers (runsDescAux xs acc) q ↔ covers acc q ∨ q ∈ xs) := by
  intro xs
  induction xs with
  | nil => intro acc _ hw _; simp [runsDescAux, hw]
  | cons x rest ih =>
    intro acc hasc hw habove
    cases acc with
    | nil =>
      simp only [runsDescAux]
      have := ih [(x, x)] hasc.tail (by simp [WF]) (by
        intro r hr y hy; simp at hr; subst hr; exact hasc.head_lt y hy)
      refine ⟨this.1, fun q => ?_⟩
      rw [this.2 q]
      simp only [covers_cons, covers_nil, or_false, List.mem_cons]
      constructor
      · rintro (⟨a, b⟩ | h)
        · exact Or.inr (Or.inl (by arith))
        · exact Or.inr (Or.inr h)
      · rintro (h | rfl | h)
        · exact absurd h (by simp)
        · exact Or.inl ⟨by arith, by arith⟩
        · exact Or.inr h
    | cons r acc' =>
      obtain ⟨s, e⟩ := r
      have hex : e < x := habove (s, e) rfl x (by simp)
      simp only [runsDescAux]
      split
      · rename_i hadj
        have hw' : WF ((s, x) :: acc') := ⟨by have := hw.1; arith, hw.2.1, hw.2.2⟩
        have := ih ((s, x) :: acc') hasc.tail hw' (by
          intro r hr y hy; simp at hr; subst hr; exact hasc.head_lt y hy)
        refine ⟨this.1, fun q => ?_⟩
        rw [this.2 q]
        simp only [covers_cons, List.mem_cons]
        have := hw.1
        constructor
        · rintro ((⟨a, b⟩ | h) | h)
          · (try simp at a b this)
            by_cases hq : q = x
            · exact Or.inr (Or.inl hq)
            · exact Or.inl (Or.inl ⟨a, by arith⟩)
          · exact Or.inl (Or.inr h)
          · exact Or.inr (Or.inr h)
        · rintro ((⟨a, b⟩ | h) | rfl | h)
          · (try simp at a b); exact Or.inl (Or.inl ⟨a, by arith⟩)
          · exact Or.inl (Or.inr h)
          · exact Or.inl (Or.inl ⟨by arith, by arith⟩)
          · exact Or.inr h
      · rename_i hnadj
        have hw' : WF ((x, x) :: (s, e) :: acc') := by
          refine ⟨by arith, ?_, hw⟩
          intro y hy
          rcases List.mem_cons.mp hy with rfl | hy
          · arith
          · have := hw.2.1 y hy; have := hw.1; arith
        have := ih ((x, x) :: (s, e) :: acc') hasc.tail hw' (by
          intro r hr y hy; simp at hr; subst hr; exact hasc.head_lt y hy)
        refine ⟨this.1, fun q => ?_⟩
        rw [this.2 q]
        simp only [covers_cons, List.mem_cons]
        constructor
        · rintro ((⟨a, b⟩ | h) | h)
          · (try simp at a b); exact Or.inr (Or.inl (by omega))
          · exact Or.inl h
          · exact Or.inr (Or.inr h)
        · rintro (h | rfl | h)
          · exact Or.inl (Or.inr h)
          · exact Or.inl (Or.inl ⟨by arith, by arith⟩)
          · exact Or.inr h

theorem runsDesc_spec (t : List Int) (h : Asc t) :
    WF (runsDesc t) ∧ ∀ q, covers (runsDesc t) q ↔ q ∈ t := by
  have := runsDescAux_spec t [] h (by simp [WF]) (by simp)
  exact ⟨this.1, fun q => by rw [runsDesc, this.2 q]; simp⟩

/-- a WF range list IS the run decomposition of the set it covers -/
theorem ranges_eq_runs (l : List Range) (t : List Int) (hw : WF l) (ha : Asc t)
    (hc : ∀ q, covers l q ↔ q ∈ t) : l = runsDesc t := by
  have := runsDesc_spec t ha
  exact WF_unique l (runsDesc t) hw this.1 (fun q => by rw [hc q, this.2 q])

end Uquic.Proofs.Rcv
