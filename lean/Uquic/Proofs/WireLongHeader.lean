import Uquic.Proofs.WireHeader
import Uquic.Proofs.WireFrames

/-! Long header: `ExtendedHeader.Append` → `parseHeader` + `ParseExtended` round trip, `GetLength` exact. -/

namespace Uquic.Proofs.Wire
open Uquic.Model.Wire Uquic.Model.Wire.Varint Uquic.Model.Wire.Hdr

theorem hdr_consts : ptInitial = 1 ∧ ptRetry = 2 ∧ ptHandshake = 3 ∧ pt0RTT = 4 ∧ version1 = 1 ∧ version2 = 0x6b3343cf
    ∧ supportedVersions = [1, 0x6b3343cf] ∧ Hdr.maxConnIDLen = 20 := by decide

/-- the 2-byte Length field written by `AppendWithLen(…, 2)` decodes to the value -/
theorem appendWithLen2 (pre : Bytes) (v : Nat) (h : v ≤ 16383) :
    ∃ p, appendWithLen pre v 2 = some (pre ++ p) ∧ p.length = 2 ∧ Decodes p v := by
  have hm := max8_eq
  have hfit : fits v = true := by simp [fits, hm]; omega
  by_cases h1 : v ≤ 63
  · refine ⟨[0x40, u8 v], ?_, rfl, ?_⟩
    · unfold appendWithLen
      have hl : len v = 1 := by unfold len; rw [max1_eq, if_pos h1]
      simp [hfit, hl]
    · refine ⟨by simp, by rw [hm]; omega, fun r => ?_⟩
      have : ((0x40 : UInt8)).toNat / 64 = 1 := by decide
      simp only [List.cons_append, List.nil_append]
      rw [parse_w2 _ _ _ this, u8_toNat]
      simp; omega
  · refine ⟨enc v, ?_, ?_, decodes_enc v (by rw [hm]; omega)⟩
    · unfold appendWithLen
      have hl : len v = 2 := by unfold len; rw [max1_eq, max2_eq, if_neg h1, if_pos h]
      simp [hfit, hl, append]
    · rw [len_enc v (by rw [hm]; omega)]; unfold len; rw [max1_eq, max2_eq, if_neg h1, if_pos h]

theorem typeOfBits_bitsOfType (v t : Nat) (ht : t = ptInitial ∨ t = pt0RTT ∨ t = ptHandshake) :
    typeOfBits v (bitsOfType v t) = t ∧ bitsOfType v t < 4 := by
  obtain ⟨c1, c2, c3, c4, _⟩ := hdr_consts
  unfold typeOfBits bitsOfType
  by_cases hv : v = version2
  · rcases ht with rfl | rfl | rfl <;> simp [hv, c1, c2, c3, c4]
  · rcases ht with rfl | rfl | rfl <;> simp [hv, c1, c2, c3, c4]

/-- `parseLongHeader` on the layout `version ‖ dcil ‖ dcid ‖ scil ‖ scid ‖ [token] ‖ length` for a supported version
    and a non-Retry type -/
theorem parseLongHeader_layout (first v : Nat) (dest src tl tk token p tail : Bytes) (t len : Nat)
    (hv : v = version1 ∨ v = version2) (hq : first / 64 % 2 = 1)
    (hd : dest.length ≤ 20) (hs : src.length ≤ 20)
    (ht : typeOfBits v (first / 16 % 4) = t) (htr : t = ptInitial ∨ t = pt0RTT ∨ t = ptHandshake)
    (htok : if t = ptInitial then (Decodes tl token.length ∧ tk = token) else (tl = [] ∧ tk = [] ∧ token = []))
    (hp : Decodes p len) :
    parseLongHeader first (beBytes 4 v ++ u8 dest.length :: (dest ++ u8 src.length :: (src ++ (tl ++ tk ++ (p ++ tail))))) =
      ({ typeByte := first, ptype := t, version := v, dest := dest, src := src, length := len, token := token },
       4 + 1 + dest.length + 1 + src.length + tl.length + tk.length + p.length, none) := by
  obtain ⟨c1, c2, c3, c4, cv1, cv2, csv, cmax⟩ := hdr_consts
  have hv32 : v < 2 ^ 32 := by rcases hv with rfl | rfl <;> simp [cv1, cv2]
  have hud : (u8 dest.length).toNat = dest.length := by rw [u8_toNat]; omega
  have hus : (u8 src.length).toNat = src.length := by rw [u8_toNat]; omega
  have e4 : beBytes 4 v = [u8 (v / 256 ^ 3), u8 (v / 256 ^ 2), u8 (v / 256 ^ 1), u8 (v / 256 ^ 0)] := rfl
  have hver : beNat [u8 (v / 256 ^ 3), u8 (v / 256 ^ 2), u8 (v / 256 ^ 1), u8 (v / 256 ^ 0)] = v := by
    rw [← e4, beNat_beBytes]; exact Nat.mod_eq_of_lt (by omega)
  have hsup : supportedVersions.contains v = true := by rcases hv with rfl | rfl <;> simp [csv, cv1, cv2]
  have hv0 : v ≠ 0 := by rcases hv with rfl | rfl <;> simp [cv1, cv2]
  have htRetry : t ≠ ptRetry := by rcases htr with rfl | rfl | rfl <;> simp [c1, c2, c3, c4]
  rw [e4]
  unfold parseLongHeader
  simp only [List.cons_append, List.nil_append, List.length_cons, List.take_succ_cons, List.take_zero, hver]
  rw [if_neg (by omega)]
  rw [if_neg (by intro hc; omega)]
  simp only [List.getD_cons_succ, List.getD_cons_zero, hud, List.drop_succ_cons, List.drop_zero, cmax]
  rw [if_neg (by omega)]
  rw [if_neg (by simp)]
  have hgd : (dest ++ u8 src.length :: (src ++ (tl ++ tk ++ (p ++ tail)))).getD dest.length 0 = u8 src.length := by
    simp [List.getD_eq_getElem?_getD]
  have htd : (dest ++ u8 src.length :: (src ++ (tl ++ tk ++ (p ++ tail)))).take dest.length = dest := List.take_left' rfl
  have hdd : (dest ++ u8 src.length :: (src ++ (tl ++ tk ++ (p ++ tail)))).drop (dest.length + 1)
      = src ++ (tl ++ tk ++ (p ++ tail)) := by
    rw [← List.drop_drop]; simp
  simp only [hgd, hus, htd, hdd]
  rw [if_neg (by omega)]
  rw [if_neg (by simp)]
  have hts : (src ++ (tl ++ tk ++ (p ++ tail))).take src.length = src := List.take_left' rfl
  have hds : (src ++ (tl ++ tk ++ (p ++ tail))).drop src.length = tl ++ tk ++ (p ++ tail) := by simp
  simp only [hts, hds, hv0, if_false, hsup, Bool.not_true, Bool.false_eq_true, ht, htRetry]
  by_cases hini : t = ptInitial
  · simp only [hini, if_true] at htok ⊢
    obtain ⟨hdt, htk⟩ := htok
    have hparse := parse_of_decodes hdt (tk ++ (p ++ tail))
    rw [List.append_assoc, hparse]
    simp only [List.drop_left, htk]
    rw [if_neg (by simp)]
    simp only [List.take_left' rfl, List.drop_left, parse_of_decodes hp tail]
    simp [htk]; omega
  · simp only [hini, if_false] at htok ⊢
    obtain ⟨htp, htp2, htk⟩ := htok
    rw [htp, htp2, htk]
    simp only [List.nil_append, parse_of_decodes hp tail]
    simp; omega

theorem parseHeader_cons (t : UInt8) (rest : Bytes) :
    parseHeader (t :: rest) = ({ (parseLongHeader t.toNat rest).1 with parsedLen := (parseLongHeader t.toNat rest).2.1 + 1 },
      (parseLongHeader t.toNat rest).2.2) := rfl

theorem parseExtended_cons (parsedLen : Nat) (t : UInt8) (rest : Bytes) :
    parseExtended parsedLen (t :: rest) =
      (if (t :: rest).length < parsedLen + (t.toNat % 4 + 1) then some (.error .eof)
       else some (.ok { pn := beNat (((t :: rest).drop parsedLen).take (t.toNat % 4 + 1)), pnLen := t.toNat % 4 + 1,
                        parsedLen := parsedLen + (t.toNat % 4 + 1), reservedOK := t.toNat / 4 % 4 = 0 })) := rfl

/-- what `parseHeader` + `ParseExtended` return for the bytes `ExtendedHeader.Append` writes -/
theorem longHeader_roundtrip (h : Header) (pn pnLen : Nat) (rest : Bytes)
    (ht : h.ptype = ptInitial ∨ h.ptype = pt0RTT ∨ h.ptype = ptHandshake)
    (hv : h.version = version1 ∨ h.version = version2)
    (hd : h.dest.length ≤ 20) (hs : h.src.length ≤ 20)
    (htok : if h.ptype = ptInitial then h.token.length ≤ maxVarInt8 else h.token = [])
    (hlen : h.length ≤ 16383) (hpn : 1 ≤ pnLen ∧ pnLen ≤ 4) :
    ∃ b first, appendLong h pn pnLen h.version = .ok b ∧ b.length = getLength h pnLen ∧
      parseHeader (b ++ rest) = ({ h with typeByte := first, parsedLen := b.length - pnLen }, none) ∧
      parseExtended (b.length - pnLen) (b ++ rest) =
        some (.ok { pn := pn % 256 ^ pnLen, pnLen := pnLen, parsedLen := b.length, reservedOK := true }) := by
  obtain ⟨c1, c2, c3, c4, cv1, cv2, csv, cmax⟩ := hdr_consts
  obtain ⟨hty, hb4⟩ := typeOfBits_bitsOfType h.version h.ptype ht
  have hnr : h.ptype ≠ ptRetry := by rcases ht with e | e | e <;> rw [e] <;> simp [c1, c2, c3, c4]
  have happn : appendPacketNumber pn pnLen = some (beBytes pnLen pn) := by
    unfold appendPacketNumber; rw [if_neg (by omega)]
  generalize hbits : bitsOfType h.version h.ptype = bits at *
  obtain ⟨first, hfirst⟩ : ∃ f, f = 0xc0 + bits * 16 + (pnLen + 255) % 256 % 4 := ⟨_, rfl⟩
  have hf256 : first < 256 := by omega
  have hu : (u8 first).toNat = first := by rw [u8_toNat]; omega
  have hq : first / 64 % 2 = 1 := by omega
  have hb16 : first / 16 % 4 = bits := by omega
  have hp4 : first % 4 + 1 = pnLen := by omega
  have hres : first / 4 % 4 = 0 := by omega
  -- the bytes before the Length field
  obtain ⟨tl, htl⟩ : ∃ x : Bytes, x = if h.ptype = ptInitial then enc h.token.length else [] := ⟨_, rfl⟩
  obtain ⟨tk, htk⟩ : ∃ x : Bytes, x = if h.ptype = ptInitial then h.token else [] := ⟨_, rfl⟩
  obtain ⟨b1, hb1⟩ : ∃ x : Bytes, x = [u8 first] ++ beBytes 4 h.version ++ [u8 h.dest.length] ++ h.dest ++ [u8 h.src.length] ++ h.src ++ tl ++ tk := ⟨_, rfl⟩
  obtain ⟨p, happ, hpl, hpd⟩ := appendWithLen2 b1 h.length hlen
  have htokfit : (h.ptype ≠ ptInitial ∨ fits h.token.length = true) := by
    by_cases hi : h.ptype = ptInitial
    · right; simp only [hi, if_true] at htok; simpa [fits] using htok
    · left; exact hi
  have hb1' : (if h.ptype = ptInitial then
        [u8 first] ++ beBytes 4 h.version ++ [u8 h.dest.length] ++ h.dest ++ [u8 h.src.length] ++ h.src ++ enc h.token.length ++ h.token
      else [u8 first] ++ beBytes 4 h.version ++ [u8 h.dest.length] ++ h.dest ++ [u8 h.src.length] ++ h.src) = b1 := by
    rw [hb1, htl, htk]
    by_cases hi : h.ptype = ptInitial <;> simp [hi]
  have hok : appendLong h pn pnLen h.version = .ok (b1 ++ p ++ beBytes pnLen pn) := by
    unfold appendLong
    rw [if_neg (by rw [cmax]; omega)]
    simp only [hnr, ne_eq, not_false_eq_true, if_true, if_false, hbits, ← hfirst]
    have : (!decide (h.ptype ≠ ptInitial ∨ fits h.token.length = true)) = false := by simp [htokfit]
    simp only [this, Bool.false_eq_true, if_false]
    rw [hb1', happ, happn]
  have htokD : if h.ptype = ptInitial then (Decodes tl h.token.length ∧ tk = h.token) else (tl = [] ∧ tk = [] ∧ h.token = []) := by
    by_cases hi : h.ptype = ptInitial
    · simp only [hi, if_true] at htok ⊢
      rw [htl, htk]; simp only [hi, if_true]
      exact ⟨decodes_enc _ htok, trivial⟩
    · simp only [hi, if_false] at htok ⊢
      rw [htl, htk]; simp only [hi, if_false]
      exact ⟨trivial, trivial, htok⟩
  have hlay := parseLongHeader_layout first h.version h.dest h.src tl tk h.token p (beBytes pnLen pn ++ rest) h.ptype h.length
    hv hq hd hs (by rw [hb16, hty]) ht htokD hpd
  have hblen : (b1 ++ p ++ beBytes pnLen pn).length = getLength h pnLen := by
    rw [hb1, htl, htk]
    simp only [getLength, List.length_append, List.length_singleton, beBytes_length, hpl]
    by_cases hi : h.ptype = ptInitial
    · simp only [hi, if_true] at htok
      simp only [hi, if_true, len_enc _ htok]; omega
    · simp [hi]; omega
  refine ⟨b1 ++ p ++ beBytes pnLen pn, first, hok, hblen, ?_, ?_⟩
  · have hshape : b1 ++ p ++ beBytes pnLen pn ++ rest =
        u8 first :: (beBytes 4 h.version ++ u8 h.dest.length :: (h.dest ++ u8 h.src.length :: (h.src ++ (tl ++ tk ++ (p ++ (beBytes pnLen pn ++ rest)))))) := by
      rw [hb1]; simp
    rw [hshape]
    rw [parseHeader_cons, hu, hlay]
    congr 1
    have : (b1 ++ p ++ beBytes pnLen pn).length - pnLen = 4 + 1 + h.dest.length + 1 + h.src.length + tl.length + tk.length + p.length + 1 := by
      rw [hb1]; simp only [List.length_append, List.length_singleton, beBytes_length]; omega
    rw [this]
  · have hne : b1 ++ p ++ beBytes pnLen pn ++ rest = u8 first :: ((b1.drop 1) ++ p ++ beBytes pnLen pn ++ rest) := by
      rw [hb1]; simp
    have hl2 : (b1 ++ p ++ beBytes pnLen pn).length - pnLen = (b1 ++ p).length := by
      simp only [List.length_append, beBytes_length]; omega
    rw [hl2]
    rw [hne, parseExtended_cons, hu, hp4, ← hne]
    rw [if_neg (by simp only [List.length_append, beBytes_length]; omega)]
    have hdr : (b1 ++ p ++ beBytes pnLen pn ++ rest).drop (b1 ++ p).length = beBytes pnLen pn ++ rest := by
      rw [List.append_assoc (b1 ++ p)]; exact List.drop_left
    rw [hdr, take_beBytes, beNat_beBytes, hres]
    simp only [List.length_append, beBytes_length]
    simp

end Uquic.Proofs.Wire
