/-
Glue lemmas for C04: the frame loop of `Conn.handleFrames` around the flow-control handlers.
The loop lemma itself (`frameLoop_eq_spec`) is the one proved for C15 (Proofs/StreamsGlue.lean).
-/
import Uquic.Model.FlowGlue
import Uquic.Proofs.StreamsGlue

set_option linter.unusedSimpArgs false
set_option linter.unusedVariables false

namespace Uquic.Proofs.FlowGlue
open Uquic.Model.FlowGlue
open Uquic.Model.Streams (frameLoop handleFramesG firstErrorSpec branchGuard)

/-- every dispatch branch a flow-control frame can take carries its skip guard (regenerated fact) -/
theorem all_guarded (f : PFrame) : f.guarded = true := by
  have h := Uquic.Proofs.Streams.branch_guards
  cases f <;> simp only [PFrame.guarded, PFrame.branch] <;>
    first | exact h.1 | exact h.2.2

theorem spec_append_none {σ F E} (h : σ → F → σ × Option E) (pre rest : List F) :
    ∀ s s1, firstErrorSpec h s pre = (s1, none) →
      firstErrorSpec h s (pre ++ rest) = firstErrorSpec h s1 rest := by
  induction pre with
  | nil => intro s s1 hp; simp [firstErrorSpec] at hp; subst hp; rfl
  | cons f fs ih =>
    intro s s1 hp
    simp only [firstErrorSpec, List.cons_append] at hp ⊢
    cases hh : h s f with
    | mk s' e =>
      rw [hh] at hp
      cases e with
      | none => simp only at hp ⊢; exact ih s' s1 hp
      | some x => simp at hp

theorem spec_cons_some {σ F E} (h : σ → F → σ × Option E) (s : σ) (f : F) (rest : List F) (e : E)
    (hf : (h s f).2 = some e) : firstErrorSpec h s (f :: rest) = ((h s f).1, some e) := by
  simp only [firstErrorSpec]
  cases hh : h s f with
  | mk s' e' =>
    rw [hh] at hf
    simp only at hf
    subst hf
    rfl

theorem spec_all_none {σ F E} (h : σ → F → σ × Option E) (fs : List F) :
    ∀ s, (∀ s' f, f ∈ fs → (h s' f).2 = none) → (firstErrorSpec h s fs).2 = none := by
  induction fs with
  | nil => intro s _; rfl
  | cons f fs ih =>
    intro s hall
    simp only [firstErrorSpec]
    cases hh : h s f with
    | mk s' e =>
      have := hall s f (List.mem_cons_self ..)
      rw [hh] at this
      simp only at this
      subst this
      simp only
      exact ih s' (fun s'' f' hf' => hall s'' f' (List.mem_cons_of_mem _ hf'))

end Uquic.Proofs.FlowGlue
