/-
C03: the stage of `push` between startGap and endGap (`startGap ≠ endGap`): the gaps strictly between
them disappear together with every frame that starts in `[startGap.End, endGap.Start)`.
-/
import Uquic.Proofs.SorterFront

namespace Uquic.Proofs.Sorter
open Uquic.Model.Reassembly

theorem mid_spec {src : Nat → UInt8} {s : Sorter} (h : Inv src s) (start : Nat)
    (pre : List Gap) (sg : Gap) (mid : List Gap) (eg : Gap) (post : List Gap) (q1 : Queue) (pos : Nat)
    (hgaps : s.gaps = pre ++ sg :: (mid ++ eg :: post))
    (hsub : q1.Sublist s.queue)
    (hmem : ∀ x, x ∈ q1 ↔ (x ∈ s.queue ∧ ¬(start ≤ x.1 ∧ x.1 < pos)))
    (hpos : pos ≤ sg.2 ∨ (start = sg.2 ∧ ∃ nx, (mid ++ eg :: post).head? = some nx ∧ pos = nx.1)) :
    ∃ q2 dmid, midStage false (mid ++ eg :: post) q1 sg.2 eg.1 = some (eg :: post, q2, dmid) ∧
      q2.Sublist q1 ∧ (∀ x, x ∈ q2 ↔ (x ∈ q1 ∧ ¬(sg.2 ≤ x.1 ∧ x.1 < eg.1))) ∧
      (dmid ++ cbsOf q2).Perm (cbsOf q1) := by
  have hwf : GapsWF (pre ++ sg :: (mid ++ eg :: post)) := hgaps ▸ h.gwf
  have hwr := hwf.of_append_right
  have hwr2 := hwr.tail
  have hwmid := hwr2.of_append_left
  have hwr3 := hwr2.of_append_right
  have hsgmem : sg ∈ s.gaps := by rw [hgaps]; simp
  have hegmem : eg ∈ s.gaps := by rw [hgaps]; simp
  have hmidmem : ∀ g ∈ mid, g ∈ s.gaps := by intro g hg; rw [hgaps]; simp [hg]
  have hsgpos : sg.1 < sg.2 := h.gwf.pos sg hsgmem
  have hegpos : eg.1 < eg.2 := h.gwf.pos eg hegmem
  have hsgmid : ∀ g ∈ mid, sg.2 < g.1 := fun g hg => hwr.head_lt g (by simp [hg])
  have hsgeg : sg.2 < eg.1 := hwr.head_lt eg (by simp)
  have hmideg : ∀ g ∈ mid, g.2 < eg.1 := fun g hg => hwr2.cross g hg eg (by simp)
  have hq1 : QInv q1 := h.qinv.sublist hsub
  -- the first gap behind startGap
  obtain ⟨nsg, hnsg, hnsgmem, hnsg_le⟩ : ∃ nsg, (mid ++ eg :: post).head? = some nsg ∧ nsg ∈ s.gaps ∧ nsg.1 ≤ eg.1 ∧
      (∀ g ∈ mid, nsg.1 ≤ g.1) ∧ (mid = [] → nsg = eg) ∧ (∀ g gs, mid = g :: gs → nsg = g) := by
    cases mid with
    | nil => exact ⟨eg, rfl, hegmem, Nat.le_refl _, by simp, fun _ => rfl, by simp⟩
    | cons g gs =>
      refine ⟨g, rfl, hmidmem g (by simp), Nat.le_of_lt (by have := hmideg g (by simp); have := hwmid.pos g (by simp); omega), ?_, by simp, ?_⟩
      · intro g' hg'
        rcases List.mem_cons.mp hg' with hg' | hg'
        · subst hg'; exact Nat.le_refl _
        · have := hwmid.head_lt g' hg'
          have := hwmid.pos g (by simp)
          omega
      · intro g' gs' hc; cases hc; rfl
  obtain ⟨hnsg_eg, hnsg_mid, hnsg_nil, hnsg_cons⟩ := hnsg_le
  have hnsgpos : nsg.1 < nsg.2 := h.gwf.pos nsg hnsgmem
  have hsgnsg : sg.2 < nsg.1 := hwr.head_lt nsg (by
    cases mid with
    | nil => rw [hnsg_nil rfl]; simp
    | cons g gs => rw [hnsg_cons g gs rfl]; simp)
  have hnsgmax : nsg.2 ≤ maxByteCount := h.gap_le_max nsg hnsgmem
  have hpos_le : pos ≤ nsg.1 := by
    rcases hpos with hp | ⟨_, nx, hnx, hp⟩
    · omega
    · rw [hnsg] at hnx; cases hnx; omega
  have hnb : ¬ inEntry q1 nsg.1 := fun hc =>
    h.excl ⟨nsg, hnsgmem, Nat.le_refl _, hnsgpos⟩ (hc.sublist hsub)
  -- first: deleteConsecutive(startGapEnd)
  have hcons1 := deleteConsecutive_conserve (q1.length + 1) q1 hq1.nodup sg.2
  have hR : ∀ x, x ∈ (deleteConsecutive (q1.length + 1) q1 sg.2).1 ↔ (x ∈ q1 ∧ ¬(sg.2 ≤ x.1 ∧ x.1 < nsg.1)) := by
    rcases hpos with hp | ⟨hst, nx, hnx, hp⟩
    · have hbnd : Boundary q1 sg.2 := (h.boundary_gap_end hsgmem).sublist hsub
      have hrun : Run q1 sg.2 nsg.1 := by
        intro p hp1 hp2
        have hng : ¬ inGap s.gaps p := by
          rw [hgaps]
          exact not_inGap_after hwf hp1 (by rw [hnsg]; simp; omega)
        obtain ⟨y, hy, hy1, hy2⟩ := h.cov (by have := h.grp sg hsgmem; omega) (by omega) hng
        have hyk : sg.2 ≤ y.1 := by
          have := h.boundary_gap_end hsgmem y hy
          omega
        exact ⟨y, (hmem y).mpr ⟨hy, by omega⟩, hy1, hy2⟩
      exact deleteConsecutive_run (q1.length + 1) q1 sg.2 nsg.1 hq1 (Nat.lt_succ_self _) (by omega) hbnd hrun hnb
    · rw [hnsg] at hnx; cases hnx
      have hnone : qget q1 sg.2 = none := by
        rw [qget_none_iff]
        intro e he
        have := ((hmem _).mp he).2
        simp only at this
        omega
      rw [deleteConsecutive_none _ _ _ hnone]
      intro x
      simp only
      constructor
      · intro hx
        refine ⟨hx, ?_⟩
        have := ((hmem x).mp hx).2
        omega
      · intro hx; exact hx.1
  have hsubR : (deleteConsecutive (q1.length + 1) q1 sg.2).1.Sublist q1 := hcons1.2.2
  have hqR : QInv (deleteConsecutive (q1.length + 1) q1 sg.2).1 := hq1.sublist hsubR
  -- then the sweep over `mid`
  have hsweep := sweepMid_mem mid eg.1 (deleteConsecutive (q1.length + 1) q1 sg.2).1 hqR hwmid hmideg
    (by
      intro p ⟨g, hg, hgp⟩ hpc hng
      have hgpos := hwmid.pos g hg
      have hng' : ¬ inGap s.gaps p := by
        rw [hgaps, inGap_append, inGap_cons, inGap_append, inGap_cons]
        have := hsgmid g hg
        rintro (⟨x, hx, h1, h2⟩ | h1 | h1 | h1 | ⟨x, hx, h1, h2⟩)
        · have := hwf.cross x hx sg (by simp); omega
        · omega
        · exact hng h1
        · omega
        · have := hwr3.head_lt x hx; omega
      obtain ⟨y, hy, hy1, hy2⟩ := h.cov (by have := h.grp g (hmidmem g hg); omega)
        (by have := h.gap_le_max eg hegmem; omega) hng'
      have hnsg_p : nsg.1 ≤ p := by have := hnsg_mid g hg; omega
      have hyk : nsg.1 ≤ y.1 := by
        rcases Nat.lt_or_ge y.1 nsg.1 with hc | hc
        · exact absurd ⟨y, hy, Nat.le_of_lt hc, by omega⟩ (h.excl ⟨nsg, hnsgmem, Nat.le_refl _, hnsgpos⟩)
        · exact hc
      exact ⟨y, (hR y).mpr ⟨(hmem y).mpr ⟨hy, by omega⟩, by omega⟩, hy1, hy2⟩)
    (by
      intro p hp hc
      refine h.excl ?_ ((hc.sublist hsubR).sublist hsub)
      obtain ⟨g, hg, h1, h2⟩ := hp
      exact ⟨g, hmidmem g hg, h1, h2⟩)
    (fun hc => h.excl ⟨eg, hegmem, Nat.le_refl _, hegpos⟩ ((hc.sublist hsubR).sublist hsub))
  have hcons2 := sweepMid_conserve mid (deleteConsecutive (q1.length + 1) q1 sg.2).1 hqR.nodup
  refine ⟨(sweepMid mid (deleteConsecutive (q1.length + 1) q1 sg.2).1).1,
    (deleteConsecutive (q1.length + 1) q1 sg.2).2 ++ (sweepMid mid (deleteConsecutive (q1.length + 1) q1 sg.2).1).2,
    ?_, hcons2.2.2.trans hsubR, ?_, ?_⟩
  · simp only [midStage, Bool.false_eq_true, if_false]
    rw [dropMid_spec mid eg post _ hmideg (by omega)]
  · intro x
    rw [hsweep x, hR x]
    constructor
    · rintro ⟨⟨hx, h1⟩, h2⟩
      refine ⟨hx, ?_⟩
      rintro ⟨h3, h4⟩
      cases mid with
      | nil =>
        rw [hnsg_nil rfl] at h1
        exact h1 ⟨h3, h4⟩
      | cons g gs =>
        rw [hnsg_cons g gs rfl] at h1
        have hk := h.key_not_inGap (hsub.subset hx)
        have hgk : ¬(g.1 ≤ x.1 ∧ x.1 < g.2) := fun hc => hk ⟨g, hmidmem g (by simp), hc.1, hc.2⟩
        exact h2 ⟨⟨g, by simp, by omega⟩, h4⟩
    · rintro ⟨hx, h1⟩
      refine ⟨⟨hx, ?_⟩, ?_⟩
      · rintro ⟨h2, h3⟩; exact h1 ⟨h2, by omega⟩
      · rintro ⟨⟨g, hg, hgx⟩, h3⟩
        have := hsgmid g hg
        have := hwmid.pos g hg
        exact h1 ⟨by omega, h3⟩
  · rw [List.append_assoc]
    exact (List.Perm.append_left _ hcons2.2.1).trans hcons1.2.1

end Uquic.Proofs.Sorter
