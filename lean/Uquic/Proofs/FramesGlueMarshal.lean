/-
C09 helper lemmas (round 4): MarshalInitialPacketPayload on ANY list of non-empty CRYPTO frames
(one fresh pop, several pops, retransmissions in any order, split frames): when it returns a payload,
it has reassembled the frames into the data `cd` at the lowest frame offset `lo`, and the payload is
the spec's builder applied to exactly `(cd, lo)`.
-/
import Uquic.Proofs.FramesGlueReasm
import Uquic.Proofs.FramesMoreTiles

namespace Uquic.Proofs.Glue
open Uquic.Spec.Framing Uquic.Spec.FramingMon Uquic.Model.UQuic.Frames Uquic.Proofs.Frames Uquic.Proofs.FramesMore
open Uquic.Proofs.Planned (CovF)

/-- the builder call MarshalInitialPacketPayload makes once the frames are reassembled; `layout` is the
    pass-through layout (the frames as they came, absolute offsets) -/
def builderCallM (fb : Builder) (idx : Int) (layout : List QFrame) (cd : List UInt8) (lo : Nat) (d : Draws)
    (perm : List Nat) : Outcome (List UInt8) :=
  match fb with
  | .none => qfBuild layout cd 0
  | .frames qfs => if qfs.isEmpty then qfBuild layout cd 0 else qfBuild qfs cd lo
  | .random c => rfBuild c cd lo d perm
  | .multi per =>
    match mfSelect per idx with
    | .ok c => rfBuild c cd lo d perm
    | .err e => .err e
    | .panic => .panic
    | .wrap => .wrap

theorem lift_ok' {o : Outcome (List UInt8)} {p : List UInt8} {idx idx' : Int}
    (h : (match o with
      | .ok p => Outcome.ok (p, idx + 1)
      | .err e => Outcome.err e
      | .panic => Outcome.panic
      | .wrap => Outcome.wrap) = Outcome.ok (p, idx')) : idx' = idx + 1 ∧ o = .ok p := by
  cases o with
  | ok q => simp at h; exact ⟨h.2.symm, by rw [h.1]⟩
  | err e => simp at h
  | panic => simp at h
  | wrap => simp at h

def passLayout (frames : List CF) : List QFrame := frames.map fun f => QFrame.crypto f.1 f.2.length

theorem passLayout_eq (frames : List CF) :
    ((asLenient frames).map fun f => QFrame.crypto f.1 f.2.1) = passLayout frames := by
  simp [asLenient, passLayout, List.map_map]

theorem marshal_reassembles (fb : Builder) (idx : Int) (frames : List CF) (d : Draws) (perm : List Nat)
    (p : List UInt8) (idx' : Int) (hok : FramesOk frames) (hne : frames ≠ [])
    (h : marshalInitial fb idx false frames d perm = .ok (p, idx')) :
    (∃ cd lo, Reassembled frames lo cd ∧ idx' = idx + 1 ∧
      builderCallM fb idx (passLayout frames) cd lo d perm = .ok p) ∨
    (Uquic.Gen.Frames.marshalReassembleFatal = false ∧ wireAll frames = some p ∧ idx' = idx + 1) := by
  unfold marshalInitial at h
  cases hw : wireAll frames with
  | none => rw [hw] at h; simp at h
  | some orig =>
    rw [hw] at h
    simp only [Bool.false_eq_true, if_false] at h
    cases hch : chReadAll orig with
    | err => rw [hch] at h; simp at h
    | panic => rw [hch] at h; simp at h
    | ok out =>
      rw [hch] at h
      obtain rfl := chReadAll_wireAll hw hch
      simp only [asLenient_fill] at h
      cases hs : sortByOff (asLenient frames) with
      | nil =>
        exfalso
        obtain ⟨f, hf⟩ := List.exists_mem_of_ne_nil _ hne
        have : (f.1, f.2.length, f.2) ∈ sortByOff (asLenient frames) :=
          mem_sortByOff.mpr (mem_asLenient.mpr ⟨f, hf, rfl⟩)
        rw [hs] at this; simp at this
      | cons f0 rest =>
        rw [hs] at h
        simp only [] at h
        cases hre : reassemble f0.1 (f0 :: rest) [] with
        | none =>
          rw [hre] at h
          simp only [] at h
          cases hfat : Uquic.Gen.Frames.marshalReassembleFatal with
          | true => rw [hfat] at h; simp at h
          | false =>
            rw [hfat] at h
            simp only [Bool.false_eq_true, if_false, Outcome.ok.injEq, Prod.mk.injEq] at h
            exact Or.inr ⟨rfl, by rw [h.1], h.2.symm⟩
        | some cd =>
          left
          rw [hre] at h
          have R := reassembled_of_sorted hs hre
          have hlo64 : f0.1 < 18446744073709551615 := by
            obtain ⟨f, hf, e⟩ := R.hit
            have := (hok f hf).2
            rw [maxVarInt8_eq] at this; omega
          have hmin : (asLenient frames).foldl (fun m f => if f.1 < m then f.1 else m) 18446744073709551615 = f0.1 := by
            apply foldMin_eq (lo := f0.1)
            · intro x hx
              obtain ⟨f, hf, rfl⟩ := mem_asLenient.mp hx
              exact R.low f hf
            · obtain ⟨f, hf, e⟩ := R.hit
              exact ⟨(f.1, f.2.length, f.2), mem_asLenient.mpr ⟨f, hf, rfl⟩, e⟩
            · exact hlo64
          simp only [hmin, passLayout_eq] at h
          have hne64 : ¬ f0.1 = 18446744073709551615 := by omega
          simp only [hne64, if_false] at h
          refine ⟨cd, f0.1, R, ?_⟩
          cases fb with
          | none => simp only [if_true] at h; exact lift_ok' h
          | frames qfs =>
            by_cases he : qfs.isEmpty = true
            · simp only [he, if_true] at h
              have := lift_ok' h
              exact ⟨this.1, by simp [builderCallM, he, this.2]⟩
            · simp only [he] at h
              have := lift_ok' h
              exact ⟨this.1, by simp [builderCallM, he, this.2]⟩
          | random c =>
            simp only [Bool.false_eq_true, if_false] at h
            exact lift_ok' h
          | multi per =>
            simp only [Bool.false_eq_true, if_false] at h
            exact lift_ok' h

/-! ### what the builder returns carries the reassembled data -/

theorem Reassembled.rep {frames : List CF} {lo : Nat} {cd : List UInt8} (h : Reassembled frames lo cd)
    (hok : FramesOk frames) : lo + cd.length ≤ maxVarInt8 := by
  have hpos := h.nonempty hok
  obtain ⟨f, hf, a, b⟩ := h.cover (lo + cd.length - 1) (by omega) (by omega)
  have := (hok f hf).2
  omega

/-- what a share must satisfy for the spec's builder to be one of the proved cases:
    * pass-through (nil builder / empty QUICFrames): lowest offset at most MaxUint16 — `QUICFrames.build`
      rebases on `min(MaxUint16, offset)`;
    * a QUICFrames layout: it tiles a share of this length from offset 0 (`layoutTiles`, the monitor
      predicate) and its wire offsets are representable;
    * QUICRandomFrames / QUICMultiDatagramFrames: nothing. -/
def BuilderFits (fb : Builder) (lo n : Nat) : Prop :=
  match fb with
  | .none => lo ≤ 65535
  | .frames qfs =>
    if qfs.isEmpty then lo ≤ 65535
    else layoutTiles qfs n = true ∧ layoutLowest qfs = 0 ∧
      ∀ off len, QFrame.crypto off len ∈ qfs → off + (lo : Int) ≤ maxVarInt8
  | _ => True

theorem passLayout_lowest {frames : List CF} {lo : Nat} {cd : List UInt8} (R : Reassembled frames lo cd)
    (hlo : lo ≤ 65535) : lowestOffset (passLayout frames) = lo := by
  obtain ⟨_, h2, h3⟩ := foldl_low_le (passLayout frames) 65535
  obtain ⟨f, hf, e⟩ := R.hit
  have m : QFrame.crypto f.1 f.2.length ∈ passLayout frames := List.mem_map.mpr ⟨f, hf, rfl⟩
  have a := h2 _ m
  have b := h3 (lo : Int) (by omega) (by
    intro g hg
    obtain ⟨f', hf', rfl⟩ := List.mem_map.mp hg
    have := R.low f' hf'
    simp [QFrame.infoOff]; omega)
  have a' : (QFrame.crypto (f.1 : Int) (f.2.length : Int)).infoOff = (f.1 : Int) := rfl
  rw [a'] at a
  unfold lowestOffset; omega

/-- the pass-through path: the frames as they came, absolute offsets, rebased on the lowest one -/
theorem passThroughM_carries {frames : List CF} {lo : Nat} {cd p : List UInt8} (R : Reassembled frames lo cd)
    (hok : FramesOk frames) (hne : frames ≠ []) (hlo : lo ≤ 65535)
    (h : qfBuild (passLayout frames) cd 0 = .ok p) : carries cd lo [p] = true := by
  have hlow := passLayout_lowest R hlo
  have hrep := R.rep hok
  obtain ⟨p', hp', hc⟩ := buildAll_carries_int (low := (lo : Int)) (data := cd) (base := 0)
    (fs := passLayout frames) (by omega)
    (by
      intro g hg
      obtain ⟨f, hf, rfl⟩ := List.mem_map.mp hg
      have := R.low f hf
      have := (hok f hf).2
      exact ⟨by omega, by omega, by omega, by omega, by omega⟩)
    (by
      intro o l hm
      obtain ⟨f, hf, e⟩ := List.mem_map.mp hm
      simp only [QFrame.crypto.injEq] at e
      have := R.low f hf
      have := (R.piece f hf).1
      omega)
    (by
      intro i hi
      obtain ⟨f, hf, a, b⟩ := R.cover (lo + i) (by omega) (by omega)
      have hl := R.low f hf
      have hp := (R.piece f hf).1
      have hpos := (hok f hf).1
      refine ⟨f.1, f.2.length, List.mem_map.mpr ⟨f, hf, rfl⟩, ?_, ?_⟩
      · unfold rstart; omega
      · unfold rlen rstart
        split <;> omega)
  have hnil : (passLayout frames).isEmpty = false := by
    cases frames with
    | nil => exact absurd rfl hne
    | cons f fs => simp [passLayout]
  simp only [qfBuild, hnil, Bool.false_eq_true, if_false, hlow, hp'] at h
  obtain rfl : p' = p := by simpa using h
  simpa using hc

theorem builderCallM_carries (fb : Builder) (idx : Int) {frames : List CF} {lo : Nat} {cd : List UInt8}
    (d : Draws) (perm : List Nat) (p : List UInt8) (R : Reassembled frames lo cd) (hok : FramesOk frames)
    (hne : frames ≠ []) (hfit : BuilderFits fb lo cd.length)
    (h : builderCallM fb idx (passLayout frames) cd lo d perm = .ok p) : carries cd lo [p] = true := by
  have hrep := R.rep hok
  cases fb with
  | none => exact passThroughM_carries R hok hne hfit h
  | frames qfs =>
    simp only [builderCallM] at h
    simp only [BuilderFits] at hfit
    by_cases he : qfs.isEmpty = true
    · rw [if_pos he] at h hfit
      exact passThroughM_carries R hok hne hfit h
    · rw [if_neg he] at h hfit
      obtain ⟨ht, hl, hr⟩ := hfit
      obtain ⟨p', hp', hc⟩ := layoutTiles_build qfs cd lo ht (by rw [hl]; omega) (by omega)
        (by
          intro o l hm
          have : layoutOf' qfs = qfs := by unfold layoutOf'; rw [if_neg he]
          rw [this] at hm
          exact hr o l hm)
      rw [hp'] at h
      obtain rfl : p' = p := by simpa using h
      rw [hl] at hc
      simpa using hc
  | random c =>
    have := rfBuild_spec c cd lo d perm hrep
    simp only [builderCallM] at h
    rw [h] at this
    exact this
  | multi per =>
    simp only [builderCallM] at h
    cases hs : mfSelect per idx with
    | ok c =>
      rw [hs] at h
      have := rfBuild_spec c cd lo d perm hrep
      simp only [] at h
      rw [h] at this
      exact this
    | err e => rw [hs] at h; simp at h
    | panic => rw [hs] at h; simp at h
    | wrap => rw [hs] at h; simp at h

theorem readAll_single {p : List UInt8} {fs : List Frame} (h : readAll [p] = some fs) :
    readFrames p = some fs := by
  simp only [readAll] at h
  cases hr : readFrames p with
  | none => rw [hr] at h; simp at h
  | some a => rw [hr] at h; simpa using h

theorem take_drop_take (W : List UInt8) (lo n k m : Nat) (h : k + m ≤ n) :
    (((W.drop lo).take n).drop k).take m = (W.drop (lo + k)).take m := by
  apply List.ext_getElem?
  intro i
  simp only [List.getElem?_take, List.getElem?_drop]
  by_cases hi : i < m
  · rw [if_pos hi, if_pos hi, if_pos (by omega)]
    congr 1; omega
  · rw [if_neg hi, if_neg hi]

/-- a payload that carries the slice `(W.drop lo).take n` at `lo` carries `W`'s bytes `[lo, lo+n)` -/
theorem carries_subslice {W : List UInt8} {lo n : Nat} {ps : List (List UInt8)} (hn : lo + n ≤ W.length)
    (h : carries ((W.drop lo).take n) lo ps = true) : carriesAt W 0 lo (lo + n) ps = true := by
  unfold carries at h
  obtain ⟨fs, hr, hd, hc⟩ := carriesAt_elim h
  have hlen : ((W.drop lo).take n).length = n := by simp; omega
  rw [hlen] at hd hc
  refine carriesAt_intro hr ?_ hc
  intro c hcm
  obtain ⟨s, a, b⟩ := hd c hcm
  rw [sliceEq_iff] at s
  obtain ⟨s1, s2, s3⟩ := s
  rw [hlen] at s2
  refine ⟨sliceEq_iff.mpr ⟨by omega, by omega, ?_⟩, a, b⟩
  rw [take_drop_take W lo n (c.1 - lo) c.2.length (by omega)] at s3
  rw [show c.1 - 0 = lo + (c.1 - lo) by omega]
  exact s3

end Uquic.Proofs.Glue
