/-
C19 (round 5): the response writer under write faults — invariant over ALL handler scripts.
-/
import Uquic.Model.H3.RespFault

namespace Uquic.Proofs.RespFault
open Uquic.Model.H3.RespFault

theorem layout_snoc (w : List Frame) (f : Frame) : layout (w ++ [f]) = (layout w).bind (phase · f) := by
  simp [layout, List.foldl_append]

/-- `headerWritten` says exactly whether THE header section is on the wire; nothing but interim header
    sections precedes it, nothing but DATA frames follows it (while the handler runs) -/
structure Inv (s : St) : Prop where
  lay : layout s.wire = some (if s.headerWritten then 1 else 0)
  wc : s.headerWritten = true → s.headerComplete = true
  cs : s.headerComplete = true → 200 ≤ s.status

theorem inv_init : Inv {} := ⟨by simp [layout], by simp, by simp⟩

theorem inv_writeHeader (s : St) (st : Nat) (h : Inv s) : Inv (writeHeader s st) := by
  obtain ⟨h1, h2, h3⟩ := h
  unfold writeHeader
  split
  · exact ⟨h1, h2, h3⟩
  rename_i hc
  split
  · exact ⟨h1, h2, h3⟩
  rename_i hr
  have hw : s.headerWritten = false := by
    cases hw : s.headerWritten
    · rfl
    · exact absurd (h2 hw) hc
  simp only []
  split
  · rename_i hlt
    unfold emitHeader
    split
    · exact ⟨by simpa using h1, by simp [hw], by simp_all⟩
    · refine ⟨?_, by simp [hw], by simp_all⟩
      simp only [layout_snoc, hw] at h1 ⊢
      simp [h1, phase, hlt]
  · rename_i hge
    exact ⟨by simpa using h1, by simp, by simp; omega⟩

theorem inv_doWrite (s : St) (n : Nat) (h : Inv s) (hc : s.headerComplete = true) :
    Inv (doWrite .markAfter s n).1 ∧ (doWrite .markAfter s n).1.headerComplete = true := by
  obtain ⟨h1, h2, h3⟩ := h
  have hst := h3 hc
  unfold doWrite
  by_cases hw : s.headerWritten = true
  · -- the header section is on the wire
    simp only [hw, if_true, Bool.not_true, Bool.false_eq_true, if_false]
    split
    · exact ⟨⟨by simpa [hw] using h1, h2, h3⟩, hc⟩
    split
    · exact ⟨⟨by simpa [hw] using h1, h2, h3⟩, hc⟩
    · refine ⟨⟨?_, by simp [hc], by simpa using h3⟩, hc⟩
      simp only [layout_snoc, hw, if_true] at h1 ⊢
      simp [h1, phase]
  · have hw' : s.headerWritten = false := by simpa using hw
    simp only [hw', Bool.false_eq_true, if_false, emitHeader]
    by_cases he : s.expired = true
    · simp only [he, if_true]
      exact ⟨⟨by simpa [hw'] using h1, by simp [hw'], h3⟩, hc⟩
    · have he' : s.expired = false := by simpa using he
      simp only [he', Bool.false_eq_true, if_false, if_true, Bool.not_true]
      have hl : layout (s.wire ++ [Frame.hdr s.status s.cl]) = some 1 := by
        simp only [layout_snoc, hw', Bool.false_eq_true, if_false] at h1 ⊢
        have : ¬ s.status < 200 := by omega
        simp [h1, phase, this]
      split
      · exact ⟨⟨by simpa using hl, by simp [hc], by simpa using h3⟩, hc⟩
      · refine ⟨⟨?_, by simp [hc], by simpa using h3⟩, hc⟩
        simp only [layout_snoc, hl, if_true]
        simp [phase]

theorem inv_congr (s t : St) (h : Inv s) (h1 : t.wire = s.wire) (h2 : t.headerWritten = s.headerWritten)
    (h3 : t.headerComplete = s.headerComplete) (h4 : t.status = s.status) : Inv t :=
  ⟨by rw [h1, h2]; exact h.lay, by rw [h2, h3]; exact h.wc, by rw [h3, h4]; exact h.cs⟩

theorem inv_write (s : St) (n : Nat) (h : Inv s) : Inv (write .markAfter s n).1 := by
  unfold write
  by_cases hc : s.headerComplete = true
  · simp only [hc, Bool.not_true, Bool.false_eq_true, if_false]
    split
    · exact h
    · split
      · exact inv_congr s _ h rfl rfl (by simp [hc]) rfl
      · exact (inv_doWrite { s with headerComplete := true, numWritten := s.numWritten + n } n
          (inv_congr s _ h rfl rfl (by simp [hc]) rfl) rfl).1
  · have hc' : s.headerComplete = false := by simpa using hc
    simp only [hc', Bool.not_false, if_true, Bool.not_true, Bool.false_eq_true, if_false]
    have h200 := inv_writeHeader s 200 h
    have hcomp : (writeHeader s 200).headerComplete = true := by simp [writeHeader, hc']
    split
    · exact inv_congr _ _ h200 rfl rfl rfl rfl
    · exact (inv_doWrite { writeHeader s 200 with numWritten := (writeHeader s 200).numWritten + n } n
        (inv_congr (writeHeader s 200) _ h200 rfl rfl rfl rfl) hcomp).1

theorem inv_flush (s : St) (h : Inv s) : Inv (flush .markAfter s).1 := by
  unfold flush
  have hs : Inv (if !s.headerComplete then writeHeader s 200 else s) ∧
      (if !s.headerComplete then writeHeader s 200 else s).headerComplete = true := by
    by_cases hc : s.headerComplete = true
    · simp [hc, h]
    · have hc' : s.headerComplete = false := by simpa using hc
      simp only [hc', Bool.not_false, if_true]
      exact ⟨inv_writeHeader s 200 h, by simp [writeHeader, hc']⟩
  have := (inv_doWrite _ 0 hs.1 hs.2).1
  simp only []
  split <;> simp_all

theorem inv_step (s : St) (a : Act) (h : Inv s) : Inv (step .markAfter s a).1 := by
  cases a with
  | writeHeader st => exact inv_writeHeader s st h
  | write n => exact inv_write s n h
  | flush => exact inv_flush s h
  | deadline e => exact ⟨h.lay, h.wc, h.cs⟩
  | setTrailer => exact ⟨h.lay, h.wc, h.cs⟩

theorem inv_handler (acts : List Act) : ∀ s, Inv s → Inv (handler .markAfter s acts).1 := by
  induction acts with
  | nil => intro s h; simpa [handler] using h
  | cons a as ih =>
    intro s h
    have h1 := inv_step s a h
    rcases hs : step .markAfter s a with ⟨s1, o⟩
    rw [hs] at h1
    have h2 := ih s1 h1
    rcases hh : handler .markAfter s1 as with ⟨s2, os⟩
    rw [hh] at h2
    simpa [handler, hs, hh] using h2

/-- `deadline` and `expired` survive untouched wherever the writer does not set them -/
theorem writeHeader_expired (s : St) (st : Nat) : (writeHeader s st).expired = s.expired := by
  unfold writeHeader emitHeader
  repeat' split
  all_goals (by_cases he : s.expired = true <;> simp [he])

theorem doWrite_expired (d : Discipline) (s : St) (n : Nat) : (doWrite d s n).1.expired = s.expired := by
  unfold doWrite emitHeader
  cases d <;> simp only [] <;> repeat' split
  all_goals simp_all

theorem doWrite_written (s : St) (n : Nat) (he : s.expired = false) : (doWrite .markAfter s n).1.headerWritten = true := by
  unfold doWrite emitHeader
  by_cases hw : s.headerWritten = true
  · simp only [hw, if_true, Bool.not_true, Bool.false_eq_true, if_false]
    repeat' split
    all_goals simp_all
  · have hw' : s.headerWritten = false := by simpa using hw
    simp only [hw', he, Bool.false_eq_true, if_false, if_true, Bool.not_true]
    repeat' split
    all_goals simp_all

theorem flush_expired (d : Discipline) (s : St) : (flush d s).1.expired = s.expired := by
  unfold flush
  have h1 : (if !s.headerComplete then writeHeader s 200 else s).expired = s.expired := by
    split
    · exact writeHeader_expired s 200
    · rfl
  have h2 := doWrite_expired d (if !s.headerComplete then writeHeader s 200 else s) 0
  simp only []
  split <;> simp_all

theorem flush_written (s : St) (he : s.expired = false) : (flush .markAfter s).1.headerWritten = true := by
  unfold flush
  have h1 : (if !s.headerComplete then writeHeader s 200 else s).expired = false := by
    split
    · rw [writeHeader_expired]; exact he
    · exact he
  have h2 := doWrite_written (if !s.headerComplete then writeHeader s 200 else s) 0 h1
  simp only []
  split <;> simp_all

/-- the state in which handleRequestStream leaves the response -/
theorem finish_layout (s : St) (h : Inv s) :
    (layout (finish .markAfter s).wire).isSome = true ∧
    (s.expired = false → layout (finish .markAfter s).wire = some 1 ∨ layout (finish .markAfter s).wire = some 2) := by
  unfold finish
  simp only []
  generalize hs1 : (if (!s.headerWritten && s.cl.isNone) = true then { s with cl := some s.numWritten } else s) = s1
  have hi1 : Inv s1 := by
    subst hs1
    split
    · exact inv_congr s _ h rfl rfl rfl rfl
    · exact h
  have he1 : s1.expired = s.expired := by
    subst hs1
    split <;> rfl
  have hi2 := inv_flush s1 hi1
  have he2 := flush_expired .markAfter s1
  split
  · rename_i ht
    simp only [Bool.and_eq_true, Bool.not_eq_true'] at ht
    have hw := flush_written s1 (by rw [← he2]; exact ht.2)
    have hl := hi2.lay
    rw [hw] at hl
    simp only [layout_snoc, hl, if_true]
    simp [phase]
  · have hl := hi2.lay
    refine ⟨by rw [hl]; rfl, fun he => ?_⟩
    have hw := flush_written s1 (by rw [he1]; exact he)
    rw [hw] at hl
    left; simpa using hl

end Uquic.Proofs.RespFault
