/-
`wire.AckFrame.AcksPacket` (C06): the binary search of the source (`sort.Search`, modelled with fuel as
`Model.Sent.searchLoop` / `acksPacketBin`) equals the linear search `acksPacket` on every ACK frame accepted by
`validateAckRanges`, and its index is in range for every frame.
-/
import Uquic.Proofs.SentAcked

namespace Uquic.Proofs.Sent
open Uquic.Model.Sent

theorem searchLoop_spec (f : Nat → Bool) (n : Nat) (mono : ∀ a b, a ≤ b → b < n → f a = true → f b = true) :
    ∀ (fuel i j : Nat), i ≤ j → j ≤ n → j - i ≤ fuel → (∀ k, k < i → f k = false) → (j < n → f j = true) →
      searchLoop f fuel i j ≤ n ∧ (∀ k, k < searchLoop f fuel i j → f k = false) ∧
      (searchLoop f fuel i j < n → f (searchLoop f fuel i j) = true) := by
  intro fuel
  induction fuel with
  | zero =>
    intro i j hij hjn hf hlo hhi
    have : i = j := by omega
    subst this
    simp only [searchLoop]
    exact ⟨hjn, hlo, hhi⟩
  | succ fuel ih =>
    intro i j hij hjn hf hlo hhi
    simp only [searchLoop]
    by_cases hlt : i < j
    · simp only [hlt, if_true]
      have hh1 : i ≤ (i + j) / 2 := by omega
      have hh2 : (i + j) / 2 < j := by omega
      cases hfh : f ((i + j) / 2) with
      | false =>
        simp only [Bool.not_false, if_true]
        refine ih _ _ (by omega) hjn (by omega) ?_ hhi
        intro k hk
        cases hfk : f k with
        | false => rfl
        | true =>
          have := mono k ((i + j) / 2) (by omega) (by omega) hfk
          rw [hfh] at this; exact absurd this (by decide)
      | true =>
        simp only [Bool.not_true, Bool.false_eq_true, if_false]
        exact ih _ _ hh1 (by omega) (by omega) hlo (fun _ => hfh)
    · have : i = j := by omega
      subst this
      simp only [hlt, if_false]
      exact ⟨hjn, hlo, hhi⟩

/-- without any assumption on `f` except that it holds at the last index: the result is an index -/
theorem searchLoop_lt (f : Nat → Bool) (n : Nat) (hn : 0 < n) (hl : f (n - 1) = true) :
    ∀ (fuel i j : Nat), i ≤ j → j ≤ n → i < n → searchLoop f fuel i j < n := by
  intro fuel
  induction fuel with
  | zero => intro i j _ _ h; simpa [searchLoop] using h
  | succ fuel ih =>
    intro i j hij hjn hin
    simp only [searchLoop]
    by_cases hlt : i < j
    · simp only [hlt, if_true]
      cases hfh : f ((i + j) / 2) with
      | false =>
        simp only [Bool.not_false, if_true]
        have hne : (i + j) / 2 ≠ n - 1 := by
          intro e; rw [e, hl] at hfh; exact absurd hfh (by decide)
        exact ih _ _ (by omega) hjn (by omega)
      | true =>
        simp only [Bool.not_true, Bool.false_eq_true, if_false]
        exact ih _ _ (by omega) (by omega) hin
    · simp only [hlt, if_false]; exact hin

theorem find_of_least (g : Range → Bool) : ∀ (l : List Range) (r : Nat),
    (∀ k, k < r → (match l[k]? with | some x => g x | none => false) = false) →
    (r < l.length → (match l[r]? with | some x => g x | none => false) = true) → r ≤ l.length →
    l.find? g = l[r]? := by
  intro l
  induction l with
  | nil => intro r _ _ _; simp
  | cons a as ih =>
    intro r hlo hhi hr
    cases r with
    | zero =>
      have := hhi (by simp)
      simp only [List.getElem?_cons_zero] at this
      simp [List.find?, this]
    | succ r =>
      have h0 := hlo 0 (by omega)
      simp only [List.getElem?_cons_zero] at h0
      simp only [List.find?, h0, List.getElem?_cons_succ]
      refine ih r ?_ ?_ (by simpa using hr)
      · intro k hk; have := hlo (k + 1) (by omega); simpa using this
      · intro h; have := hhi (by simpa using h); simpa using this

theorem geSmallest_mono {ranges : List Range} (hv : ValidRanges ranges) (p : PN) :
    ∀ a b, a ≤ b → b < ranges.length → geSmallest ranges p a = true → geSmallest ranges p b = true := by
  intro a b hab hb ha
  rcases Nat.lt_or_ge a b with hlt | hge
  · have hp := List.pairwise_iff_getElem.mp hv.2 a b (by omega) hb hlt
    have hw := hv.1 (ranges[b]) (List.getElem_mem hb)
    unfold geSmallest at ha ⊢
    rw [List.getElem?_eq_getElem (by omega)] at ha
    rw [List.getElem?_eq_getElem hb]
    simp only [decide_eq_true_eq] at ha ⊢
    omega
  · have : a = b := by omega
    subst this; exact ha

/-- **acks_packet_binary_eq_linear**: for every ACK frame accepted by `validateAckRanges` (every range non-empty,
    ranges strictly descending with a gap), the binary search of `wire.AckFrame.AcksPacket` (`sort.Search`) gives
    the same answer as the linear search "first range whose Smallest ≤ p" — for every packet number and whatever
    `lowest` / `largest` are. -/
theorem acksPacketBin_eq_linear (ranges : List Range) (hv : ValidRanges ranges) (lowest largest p : PN) :
    acksPacketBin ranges lowest largest p = acksPacket ranges lowest largest p := by
  unfold acksPacketBin acksPacket
  split
  · rfl
  · obtain ⟨s1, s2, s3⟩ := searchLoop_spec (geSmallest ranges p) ranges.length (geSmallest_mono hv p) ranges.length 0 ranges.length
      (Nat.zero_le _) (Nat.le_refl _) (by omega) (by intro k hk; omega) (by intro h; omega)
    have hf := find_of_least (fun r => decide (p ≥ r.1)) ranges (sortSearch ranges.length (geSmallest ranges p))
      (by intro k hk; exact s2 k hk) (by intro h; exact s3 h) s1
    rw [hf]

/-- the index `sort.Search` returns in `AcksPacket` is always in range (the Go code's
    `f.AckRanges[i]` cannot panic): `p` is at least `LowestAcked()`, the Smallest of the LAST range, so the search
    predicate holds at the last index — for every list of ranges, validated or not -/
theorem acksPacketBin_index_in_range (ranges : List Range) (bot : Range) (hl : ranges.getLast? = some bot) (p : PN)
    (hp : ¬ p < bot.1) : sortSearch ranges.length (geSmallest ranges p) < ranges.length := by
  have hne : ranges ≠ [] := by intro e; simp [e] at hl
  have hn : 0 < ranges.length := List.length_pos_iff.mpr hne
  refine searchLoop_lt _ _ hn ?_ _ _ _ (Nat.zero_le _) (Nat.le_refl _) hn
  unfold geSmallest
  rw [List.getLast?_eq_getElem?] at hl
  rw [hl]
  simp only [decide_eq_true_eq]; omega

end Uquic.Proofs.Sent
