/-
Helper lemmas for C17: blocked callers. The close error recorded in the waitable objects is changed by
the fan-out only; once it is set, every call / wake step returns it.
-/
import Uquic.Model.Close.Blocked

namespace Uquic.Proofs.Close
open Uquic.Model.Close

/-- the close errors recorded in the objects, in order -/
def errs (s : Sys) : List (Option Cause) := s.res.map (·.closeErr)

theorem attempt_closeErr (k : CallKind) (r : Res) : (attempt k r).1.closeErr = r.closeErr := by
  unfold attempt
  split <;> (try split) <;> (try split) <;> simp_all

theorem map_set_getD {β : Type} (f : Res → β) (l : List Res) (i : Nat) (a d : Res)
    (h : f a = f (l.getD i d)) : (l.set i a).map f = l.map f := by
  induction l generalizing i with
  | nil => simp
  | cons x xs ih =>
    cases i with
    | zero => simp at h; simp [h]
    | succ j =>
      simp at h
      simp [ih j h]

theorem setRes_errs (s : Sys) (i : Nat) (r' : Res) (h : r'.closeErr = (s.getRes i).closeErr) :
    errs (s.setRes i r') = errs s := by
  unfold errs Sys.setRes
  exact map_set_getD (·.closeErr) s.res i r' {} h

theorem step_errs (s : Sys) (st : Step) (h : ∀ c, st ≠ .fanout c) : errs (s.step st).1 = errs s := by
  cases st with
  | call id k i =>
    have := setRes_errs s i (attempt k (s.getRes i)).1 (attempt_closeErr _ _)
    simp only [Sys.step]
    split <;> simpa [errs] using this
  | wake id =>
    simp only [Sys.step]
    split
    · rfl
    · rename_i w _
      have := setRes_errs s w.res (attempt w.kind (s.getRes w.res)).1 (attempt_closeErr _ _)
      split <;> simpa [errs] using this
  | supply i n =>
    have := setRes_errs s i { s.getRes i with avail := (s.getRes i).avail + n } rfl
    simpa [Sys.step, errs] using this
  | fanout c => exact absurd rfl (h c)

theorem run_append (s : Sys) (a b : List Step) :
    s.run (a ++ b) = ((s.run a).1.run b |>.1, (s.run a).2 ++ ((s.run a).1.run b).2) := by
  induction a generalizing s with
  | nil => simp [Sys.run]
  | cons x xs ih =>
    simp only [List.cons_append, Sys.run]
    rw [ih]
    simp [List.append_assoc]

theorem run_errs (s : Sys) (l : List Step) (h : ∀ st ∈ l, ∀ c, st ≠ .fanout c) : errs (s.run l).1 = errs s := by
  induction l generalizing s with
  | nil => rfl
  | cons x xs ih =>
    simp only [Sys.run]
    rw [ih _ (fun st hst => h st (List.mem_cons_of_mem _ hst))]
    exact step_errs s x (h x List.mem_cons_self)

theorem fanout_errs (s : Sys) (c : Cause) :
    errs (s.step (.fanout c)).1 = (errs s).map (fun o => match o with | some c0 => some c0 | none => some c) := by
  simp [Sys.step, errs, closeRes, List.map_map, Function.comp_def]
  intro a _
  cases a.closeErr <;> rfl

theorem fanout_signalled (s : Sys) (c : Cause) : ∀ w ∈ (s.step (.fanout c)).1.waiters, w.signalled = true := by
  intro w hw
  simp [Sys.step] at hw
  obtain ⟨x, _, rfl⟩ := hw
  rfl

/-- all objects carry the close error `c` -/
def ClosedWith (s : Sys) (c : Cause) : Prop := ∀ o ∈ errs s, o = some c

theorem closedWith_step (s : Sys) (c : Cause) (h : ClosedWith s c) (st : Step) : ClosedWith (s.step st).1 c := by
  by_cases hf : ∃ c', st = .fanout c'
  · obtain ⟨c', rfl⟩ := hf
    intro o ho
    rw [fanout_errs] at ho
    simp at ho
    obtain ⟨a, ha, rfl⟩ := ho
    have := h a ha
    subst this
    rfl
  · have : ∀ c', st ≠ .fanout c' := fun c' hc => hf ⟨c', hc⟩
    intro o ho
    rw [step_errs s st this] at ho
    exact h o ho

theorem closedWith_run (s : Sys) (c : Cause) (h : ClosedWith s c) (l : List Step) : ClosedWith (s.run l).1 c := by
  induction l generalizing s with
  | nil => exact h
  | cons x xs ih =>
    simp only [Sys.run]
    exact ih _ (closedWith_step s c h x)

theorem getRes_closeErr (s : Sys) (c : Cause) (h : ClosedWith s c) (i : Nat) (hi : i < s.res.length) :
    (s.getRes i).closeErr = some c := by
  apply h
  unfold errs Sys.getRes
  have : s.res.getD i {} = s.res[i] := by simp [List.getD_eq_getElem?_getD, List.getElem?_eq_getElem hi]
  rw [this]
  exact List.mem_map_of_mem (List.getElem_mem hi)

theorem attempt_closed (k : CallKind) (r : Res) (c : Cause) (h : r.closeErr = some c)
    (hk : k.errFirst = true ∨ r.avail = 0) : attempt k r = (r, .err c) := by
  unfold attempt
  rcases hk with hk | hk
  · simp [hk, h]
  · by_cases he : k.errFirst = true
    · simp [he, h]
    · simp [he, h, hk]

theorem call_closed (s : Sys) (c : Cause) (h : ClosedWith s c) (id : Nat) (k : CallKind) (i : Nat)
    (hi : i < s.res.length) (hk : k.errFirst = true ∨ (s.getRes i).avail = 0) :
    (s.step (.call id k i)).2 = [(id, .err c)] ∧ (s.step (.call id k i)).1.waiters = s.waiters := by
  have ha := attempt_closed k (s.getRes i) c (getRes_closeErr s c h i hi) hk
  simp [Sys.step, ha, Sys.setRes]

theorem wake_closed (s : Sys) (c : Cause) (h : ClosedWith s c) (w : Waiter)
    (hfind : s.waiters.find? (fun x => x.id == w.id && x.signalled) = some w)
    (hi : w.res < s.res.length) (hk : w.kind.errFirst = true ∨ (s.getRes w.res).avail = 0) :
    (s.step (.wake w.id)).2 = [(w.id, .err c)] := by
  have ha := attempt_closed w.kind (s.getRes w.res) c (getRes_closeErr s c h w.res hi) hk
  simp [Sys.step, hfind, ha]

/-- a datagram call on a closed object either hands out a queued unit or returns the cause -/
theorem attempt_closed_datagram (k : CallKind) (r : Res) (c : Cause) (h : r.closeErr = some c) :
    (attempt k r).2 = .err c ∨ ((attempt k r).2 = .ok ∧ (attempt k r).1.avail + 1 = r.avail) := by
  unfold attempt
  by_cases he : k.errFirst = true
  · simp [he, h]
  · by_cases ha : r.avail > 0
    · right; simp [he, ha]; omega
    · left; simp [he, ha, h]

end Uquic.Proofs.Close
