/-
History-level invariant for C07: the interval list against the ghost set of received numbers.
-/
import Uquic.Proofs.Rcv

namespace Uquic.Proofs.Rcv
open Uquic.Model.Rcv

theorem cap_pos : 1 ≤ maxNumAckRanges := by decide

/-- ranges dropped by the cap when `p` is registered -/
def capDropped (h : Hist) (p : Int) : List Range :=
  if p < h.deletedBelow then [] else (addRev p h.ranges).1.drop maxNumAckRanges

/-- `R`: every number handed to `ReceivedPacket`; `F`: ranges the cap has forgotten -/
structure HistInv (h : Hist) (R : List Int) (F : List Range) : Prop where
  wf : WF h.ranges
  len : h.ranges.length ≤ maxNumAckRanges
  sound : ∀ q, covers h.ranges q → q ∈ R ∧ h.deletedBelow ≤ q
  complete : ∀ q ∈ R, covers h.ranges q ∨ q < h.deletedBelow ∨ covers F q
  top : ∀ q ∈ R, q < h.deletedBelow ∨ ∃ t, h.ranges.head? = some t ∧ q ≤ t.2

theorem HistInv.init : HistInv {} [] [] :=
  ⟨by simp [WF], by simp, by simp, by simp, by simp⟩

theorem covers_take_or_drop (n : Nat) (l : List Range) (q : Int) (h : covers l q) :
    covers (l.take n) q ∨ covers (l.drop n) q := by
  obtain ⟨r, hr, a⟩ := h
  rw [← List.take_append_drop n l] at hr
  rcases List.mem_append.mp hr with hr | hr
  · exact Or.inl ⟨r, hr, a⟩
  · exact Or.inr ⟨r, hr, a⟩

theorem covers_append (a b : List Range) (q : Int) : covers (a ++ b) q ↔ covers a q ∨ covers b q := by
  simp only [covers, List.mem_append]
  constructor
  · rintro ⟨r, hr | hr, x⟩
    · exact Or.inl ⟨r, hr, x⟩
    · exact Or.inr ⟨r, hr, x⟩
  · rintro (⟨r, hr, x⟩ | ⟨r, hr, x⟩)
    · exact ⟨r, Or.inl hr, x⟩
    · exact ⟨r, Or.inr hr, x⟩

theorem head_covered {t : Range} {l : List Range} (h : WF l) (ht : l.head? = some t) : covers l t.2 := by
  cases l with
  | nil => simp at ht
  | cons r rest =>
    simp at ht; subst ht
    exact (covers_cons _ _ _).mpr (Or.inl ⟨h.1, Int.le_refl _⟩)

theorem le_head_of_covers {l : List Range} (h : WF l) {q : Int} (hc : covers l q) :
    ∃ t, l.head? = some t ∧ q ≤ t.2 := by
  cases l with
  | nil => simp at hc
  | cons r rest => exact ⟨r, rfl, covers_le_head h hc⟩

theorem HistInv.recv {h : Hist} {R : List Int} {F : List Range} (inv : HistInv h R F) (p : Int) :
    HistInv (h.receivedPacket p).1 (p :: R) (F ++ capDropped h p) := by
  unfold Hist.receivedPacket capDropped
  split
  · -- delayed packet below the forget threshold: nothing changes
    rename_i hlt
    refine ⟨inv.wf, inv.len, ?_, ?_, ?_⟩
    · intro q hq; have := inv.sound q hq; exact ⟨by simp [this.1], this.2⟩
    · intro q hq
      rcases List.mem_cons.mp hq with rfl | hq
      · exact Or.inr (Or.inl hlt)
      · simpa using inv.complete q hq
    · intro q hq
      rcases List.mem_cons.mp hq with rfl | hq
      · exact Or.inl hlt
      · exact inv.top q hq
  · rename_i hge
    have hwf := addRev_wf p h.ranges inv.wf
    have hcov := addRev_covers p h.ranges inv.wf
    -- the list after the cap
    have key : ∀ l' : List Range, (l' = (addRev p h.ranges).1 ∨ l' = (addRev p h.ranges).1.take maxNumAckRanges) →
        (l' = (addRev p h.ranges).1 → l'.length ≤ maxNumAckRanges) →
        HistInv { h with ranges := l' } (p :: R) (F ++ (addRev p h.ranges).1.drop maxNumAckRanges) := by
      intro l' hl' hlen
      have hwf' : WF l' := by
        rcases hl' with rfl | rfl
        · exact hwf
        · exact WF_take _ _ hwf
      have hsub : ∀ q, covers l' q → covers (addRev p h.ranges).1 q := by
        rcases hl' with rfl | rfl
        · exact fun q hq => hq
        · exact fun q hq => covers_take _ _ _ hq
      have hfull : ∀ q, covers (addRev p h.ranges).1 q → covers l' q ∨ covers ((addRev p h.ranges).1.drop maxNumAckRanges) q := by
        rcases hl' with rfl | rfl
        · exact fun q hq => Or.inl hq
        · exact fun q hq => covers_take_or_drop _ _ _ hq
      have hhead : l'.head? = (addRev p h.ranges).1.head? := by
        rcases hl' with rfl | rfl
        · rfl
        · cases hh : (addRev p h.ranges).1 with
          | nil => simp
          | cons a b =>
            have : maxNumAckRanges = (maxNumAckRanges - 1) + 1 := by have := cap_pos; omega
            rw [this]; simp
      refine ⟨hwf', ?_, ?_, ?_, ?_⟩
      · rcases hl' with rfl | rfl
        · exact hlen rfl
        · simp [List.length_take]; omega
      · intro q hq
        rcases (hcov q).mp (hsub q hq) with hq | rfl
        · have := inv.sound q hq; exact ⟨by simp [this.1], this.2⟩
        · exact ⟨by simp, by simp; omega⟩
      · intro q hq
        have hc : covers (addRev p h.ranges).1 q ∨ q < h.deletedBelow ∨ covers F q := by
          rcases List.mem_cons.mp hq with rfl | hq
          · exact Or.inl ((hcov q).mpr (Or.inr rfl))
          · rcases inv.complete q hq with hh | hh | hh
            · exact Or.inl ((hcov q).mpr (Or.inl hh))
            · exact Or.inr (Or.inl hh)
            · exact Or.inr (Or.inr hh)
        rcases hc with hh | hh | hh
        · rcases hfull q hh with h1 | h1
          · exact Or.inl h1
          · exact Or.inr (Or.inr ((covers_append _ _ _).mpr (Or.inr h1)))
        · exact Or.inr (Or.inl hh)
        · exact Or.inr (Or.inr ((covers_append _ _ _).mpr (Or.inl hh)))
      · intro q hq
        have hc : q < h.deletedBelow ∨ covers (addRev p h.ranges).1 q ∨
            ∃ t, h.ranges.head? = some t ∧ q ≤ t.2 := by
          rcases List.mem_cons.mp hq with rfl | hq
          · exact Or.inr (Or.inl ((hcov q).mpr (Or.inr rfl)))
          · rcases inv.top q hq with hh | hh
            · exact Or.inl hh
            · exact Or.inr (Or.inr hh)
        rw [hhead]
        rcases hc with hh | hh | ⟨t, ht, hqt⟩
        · exact Or.inl hh
        · exact Or.inr (le_head_of_covers hwf hh)
        · have hct := (hcov t.2).mpr (Or.inl (head_covered inv.wf ht))
          obtain ⟨t', ht', hle⟩ := le_head_of_covers hwf hct
          exact Or.inr ⟨t', ht', by omega⟩
    simp only
    split
    · rename_i hlong
      exact key _ (Or.inr rfl) (fun e => by
        have : ((addRev p h.ranges).1.take maxNumAckRanges).length = (addRev p h.ranges).1.length := by rw [e]
        simp [List.length_take] at this; omega)
    · rename_i hshort
      have hd : (addRev p h.ranges).1.drop maxNumAckRanges = [] := by
        apply List.drop_eq_nil_of_le; omega
      have := key _ (Or.inl rfl) (fun _ => by omega)
      exact this

theorem delBelowDesc_length (p : Int) (l : List Range) : (delBelowDesc p l).1.length ≤ l.length := by
  induction l with
  | nil => simp [delBelowDesc]
  | cons r rest ih =>
    unfold delBelowDesc
    generalize delBelowDesc p rest = d at ih
    obtain ⟨rest', st⟩ := d
    simp only at ih ⊢
    cases st with
    | true => simp; omega
    | false =>
      simp only [Bool.false_eq_true, if_false]
      split
      · simp
      · split <;> (simp; omega)

theorem HistInv.del {h : Hist} {R : List Int} {F : List Range} (inv : HistInv h R F) (p : Int) :
    HistInv (h.deleteBelow p) R F := by
  unfold Hist.deleteBelow
  split
  · exact inv
  · rename_i hge
    obtain ⟨dwf, dcov, _, _, dsub⟩ := delBelowDesc_spec p h.ranges inv.wf
    refine ⟨dwf, ?_, ?_, ?_, ?_⟩
    · -- the result is no longer than the input: every element comes from a distinct end… use covers-free bound
      have := delBelowDesc_length p h.ranges
      exact Nat.le_trans this inv.len
    · intro q hq
      have := (dcov q).mp hq
      exact ⟨(inv.sound q this.1).1, this.2⟩
    · intro q hq
      rcases inv.complete q hq with hh | hh | hh
      · by_cases hpq : p ≤ q
        · exact Or.inl ((dcov q).mpr ⟨hh, hpq⟩)
        · exact Or.inr (Or.inl (by simp; omega))
      · exact Or.inr (Or.inl (by simp; omega))
      · exact Or.inr (Or.inr hh)
    · intro q hq
      rcases inv.top q hq with hh | ⟨t, ht, hqt⟩
      · exact Or.inl (by simp; omega)
      · by_cases hpt : p ≤ t.2
        · have hct := (dcov t.2).mpr ⟨head_covered inv.wf ht, hpt⟩
          obtain ⟨t', ht', hle⟩ := le_head_of_covers dwf hct
          exact Or.inr ⟨t', ht', by omega⟩
        · exact Or.inl (by simp; omega)

end Uquic.Proofs.Rcv
