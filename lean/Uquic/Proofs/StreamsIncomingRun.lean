/-
Run-level consequences of the incoming-map invariant: induction over arbitrary step lists (C15).
-/
import Uquic.Proofs.StreamsIncoming

set_option linter.unusedSimpArgs false
set_option linter.unusedVariables false

namespace Uquic.Proofs.Streams
open Uquic.Model.Streams

theorem run_nil (m : Incoming) : m.run [] = (m, []) := rfl
theorem run_cons (m : Incoming) (o : InOp) (os : List InOp) :
    m.run (o :: os) = (((m.step o).1.run os).1, (m.step o).2 :: ((m.step o).1.run os).2) := rfl

/-- MAX_STREAMS values queued by a list of frames / events -/
def msOfFrames (fs : List Frame) : List Int :=
  fs.filterMap fun f => match f with | .maxStreams _ n => some n | _ => none
def msVals (evs : List InEv) : List Int := evs.flatMap fun ev => msOfFrames ev.frames

/-- ids returned by `AcceptStream` calls -/
def acceptedIds (evs : List InEv) : List Int := evs.flatMap fun ev => streamsOfRets ev.rets

theorem msVals_cons (e : InEv) (es : List InEv) : msVals (e :: es) = msOfFrames e.frames ++ msVals es := by
  simp [msVals]
theorem acceptedIds_cons (e : InEv) (es : List InEv) :
    acceptedIds (e :: es) = streamsOfRets e.rets ++ acceptedIds es := by
  simp [acceptedIds]

theorem run_inv (first : Int) (hf0 : 0 ≤ first) (hf3 : first ≤ 3) (ops : List InOp) :
    ∀ m : Incoming, InInv first m → (∀ op ∈ ops, op.wf first) → InInv first (m.run ops).1 := by
  induction ops with
  | nil => intro m h _; simpa [run_nil] using h
  | cons o os ih =>
    intro m h hw
    rw [run_cons]
    exact ih _ (step_facts first hf0 hf3 m o h (hw o (by simp))).inv (fun op hop => hw op (by simp [hop]))

theorem run_maxNum (first : Int) (hf0 : 0 ≤ first) (hf3 : first ≤ 3) (ops : List InOp) :
    ∀ m : Incoming, InInv first m → (∀ op ∈ ops, op.wf first) → (m.run ops).1.maxNum = m.maxNum := by
  induction ops with
  | nil => intro m h _; rfl
  | cons o os ih =>
    intro m h hw
    rw [run_cons]
    have sf := step_facts first hf0 hf3 m o h (hw o (by simp))
    rw [ih _ sf.inv (fun op hop => hw op (by simp [hop]))]; exact sf.maxNum

/-- credit theorem, generalised over the start state -/
theorem run_credit (first : Int) (hf0 : 0 ≤ first) (hf3 : first ≤ 3) (ops : List InOp) :
    ∀ m : Incoming, InInv first m → (∀ op ∈ ops, op.wf first) →
      credit first m ≤ credit first (m.run ops).1 ∧
      (msVals (m.run ops).2).Pairwise (· < ·) ∧
      ∀ v ∈ msVals (m.run ops).2, credit first m < v ∧ v ≤ credit first (m.run ops).1 ∧ v ≤ maxStreamCount := by
  induction ops with
  | nil => intro m h _; simp [run_nil, msVals]
  | cons o os ih =>
    intro m h hw
    rw [run_cons]
    have sf := step_facts first hf0 hf3 m o h (hw o (by simp))
    obtain ⟨i1, i2, i3⟩ := ih _ sf.inv (fun op hop => hw op (by simp [hop]))
    simp only [msVals_cons]
    rcases sf.credit with ⟨hfs, hms⟩ | ⟨n, hfs, h1, h2, h3⟩
    · have hc : credit first (m.step o).1 = credit first m := by simp [credit, hms]
      rw [hfs]; simp only [msOfFrames, List.filterMap_nil, List.nil_append]
      rw [hc] at i1 i3
      exact ⟨i1, i2, i3⟩
    · rw [hfs]; simp only [msOfFrames, List.filterMap_cons, List.filterMap_nil, List.singleton_append]
      refine ⟨by omega, ?_, ?_⟩
      · rw [List.pairwise_cons]
        refine ⟨?_, i2⟩
        intro v hv; have := (i3 v hv).1; omega
      · intro v hv
        rcases List.mem_cons.mp hv with hv | hv
        · subst hv; exact ⟨h1, by omega, h3⟩
        · have := i3 v hv; exact ⟨by omega, this.2.1, this.2.2⟩

theorem streamsOfRets_step (first : Int) (m : Incoming) (op : InOp) (sf : InStepFacts first m op) :
    (streamsOfRets (m.step op).2.rets = [] ∧ (m.step op).1.nextAccept = m.nextAccept) ∨
    (streamsOfRets (m.step op).2.rets = [m.nextAccept] ∧ (m.step op).1.nextAccept = m.nextAccept + 4) := by
  by_cases hex : ∃ c id, (c, Ret.stream id) ∈ (m.step op).2.rets
  · obtain ⟨c, id, hm⟩ := hex
    obtain ⟨h1, h2, h3⟩ := sf.ret c id hm
    right; rw [h3]; subst h1
    exact ⟨by simp [streamsOfRets], h2⟩
  · left
    have hn : ∀ c id, (c, Ret.stream id) ∉ (m.step op).2.rets := fun c id hm => hex ⟨c, id, hm⟩
    refine ⟨?_, sf.noret hn⟩
    simp only [streamsOfRets, List.filterMap_eq_nil_iff]
    intro r hr
    obtain ⟨c, x⟩ := r
    cases x with
    | stream id => exact absurd hr (hn c id)
    | err e => rfl
    | panic => rfl

/-- accept theorem, generalised over the start state -/
theorem run_accept (first : Int) (hf0 : 0 ≤ first) (hf3 : first ≤ 3) (ops : List InOp) :
    ∀ m : Incoming, InInv first m → (∀ op ∈ ops, op.wf first) →
      acceptedIds (m.run ops).2 =
        (List.range (acceptedIds (m.run ops).2).length).map (fun (i : Nat) => m.nextAccept + 4 * (i : Int)) ∧
      (m.run ops).1.nextAccept = m.nextAccept + 4 * ((acceptedIds (m.run ops).2).length : Int) := by
  induction ops with
  | nil => intro m h _; simp [run_nil, acceptedIds]
  | cons o os ih =>
    intro m h hw
    rw [run_cons]
    have sf := step_facts first hf0 hf3 m o h (hw o (by simp))
    obtain ⟨i1, i2⟩ := ih _ sf.inv (fun op hop => hw op (by simp [hop]))
    simp only [acceptedIds_cons]
    rcases streamsOfRets_step first m o sf with ⟨hs, hn⟩ | ⟨hs, hn⟩
    · rw [hs]; simp only [List.nil_append]; rw [hn] at i1 i2; exact ⟨i1, i2⟩
    · rw [hs]; rw [hn] at i1 i2
      simp only [List.singleton_append, List.length_cons]
      refine ⟨?_, by rw [i2]; push_cast; omega⟩
      rw [List.range_succ_eq_map, List.map_cons, List.map_map]
      congr 1
      · simp
      · rw [i1]; simp only [List.length_map, List.length_range]
        apply List.map_congr_left
        intro i _; simp only [Function.comp]; push_cast; omega

end Uquic.Proofs.Streams
