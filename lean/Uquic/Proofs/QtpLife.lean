import Uquic.Model.UQuic.SpecLife
import Uquic.Proofs.QtpClone
import Uquic.Proofs.QtpPopulate
import Uquic.Proofs.QtpBasic

namespace Uquic.Proofs.Qtp
open Uquic.Model.QTP Uquic.Model.CloneSpec Uquic.Model.SpecLife Uquic.Spec.QtpMon

/-- the per-attempt copy carries the spec's list and no cached bytes -/
theorem cloneVal_eq (e : ExtVal) : cloneVal e = { ps := e.ps, cache := none } := by
  have h := clone_copies_all.2.2.1
  simp [cloneVal, cloneExt, h]

/-- connection setup on a value without cached bytes puts on the wire what `wireOf` says -/
theorem setupOn_fresh (ps : List Param) (S : List Nat) (d : Option (List Nat)) (scid : List Nat) :
    (setupOn { ps := ps, cache := none } S d scid).map (·.1) = wireOf ps S d scid := by
  unfold setupOn wireOf
  cases d <;> simp only <;> split <;> simp_all

theorem runAttempts_unshared (S : List Nat) (rand : Bool) (e : ExtVal) (as : List Attempt) :
    runAttempts false S rand e as = (as.map fun a => wireOf e.ps S (drawsOf rand a) a.scid, e) := by
  induction as with
  | nil => rfl
  | cons a as ih =>
    have hf := setupOn_fresh e.ps S (drawsOf rand a) a.scid
    simp only [runAttempts, valueFor, cloneVal_eq, Bool.false_eq_true, if_false]
    cases hs : setupOn { ps := e.ps, cache := none } S (drawsOf rand a) a.scid with
    | none =>
      rw [hs] at hf
      simp only [Option.map_none] at hf
      simp [ih, ← hf]
    | some r =>
      rw [hs] at hf
      simp only [Option.map_some] at hf
      simp [ih, ← hf]

theorem step_unshared_cache (s : Spec) (o : Op) (hc : s.ext.cache = none) :
    (step false s o).1.ext.cache = none := by
  cases o <;> simp [step, hc, runAttempts_unshared]

theorem run_unshared_cache (s : Spec) (os : List Op) (hc : s.ext.cache = none) :
    (run false s os).1.ext.cache = none := by
  induction os generalizing s with
  | nil => exact hc
  | cons o os ih => exact ih _ (step_unshared_cache s o hc)

theorem run_append (sh : Bool) (s : Spec) (xs ys : List Op) :
    (run sh s (xs ++ ys)).1 = (run sh (run sh s xs).1 ys).1 := by
  induction xs generalizing s with
  | nil => rfl
  | cons x xs ih => simp only [List.cons_append, run]; exact ih _

theorem allRewritten_mem_id {l l' : List Param} (h : AllRewritten l l') :
    ∀ p' ∈ l', ∃ p ∈ l, p'.id = p.id := by
  induction h with
  | nil => intro p' hp; cases hp
  | cons hr _ ih =>
    intro q hq
    rcases List.mem_cons.mp hq with rfl | hq
    · exact ⟨_, List.mem_cons_self, hr.id_eq⟩
    · obtain ⟨p, hp, he⟩ := ih q hq
      exact ⟨p, List.mem_cons_of_mem _ hp, he⟩

end Uquic.Proofs.Qtp
