/-
C10 helpers: the size arithmetic of `appendInitialPacketPayload` (`Model.Initial.assemble`), of the
CRYPTO budget (`cryptoBudget`, `maxDataLen`, `popLen`) and of the randomised builder's payload.
All integer arithmetic, proved in full.
-/
import Uquic.Proofs.InitialHeader
import Uquic.Model.UQuic.InitialBuild

namespace Uquic.Proofs.Initial
open Uquic.Model.Initial

theorem bytes_length (h : Hdr) (len : Nat) : (h.bytes len).length = h.len := by
  unfold Hdr.bytes
  simp only [List.length_append, List.length_cons, List.length_nil, beBytes_length, varintBytes_length,
    varintBytesW_length]
  rw [hdrLen_eq, lenW_eq]

theorem maxPacketBufferSize_eq : maxPacketBufferSize = 1452 := by decide
theorem defaultUDPMin_eq : defaultUDPMin = 1200 := by decide
theorem paddingReserve_eq : paddingReserve = 16 := by decide
theorem defaultInitialPacketSize_eq : defaultInitialPacketSize = 1280 := by decide
theorem minInitialPacketSize_eq : minInitialPacketSize = 1200 := by decide
theorem maxPN_eq : maxPN = 4611686018427387903 := by decide
theorem minCIDLenInitial_eq : minCIDLenInitial = 8 := by decide
theorem maxCIDLen_eq : maxCIDLen = 20 := by decide

/-- everything `assemble` guarantees about the sizes of an emitted packet -/
theorem assemble_ok (h : Hdr) (p : List Nat) (plan : Plan) (udpMin cap : Nat) (out : Out)
    (hok : assemble h p plan udpMin cap = .ok out) :
    out.payloadLen = p.length + innerPad plan h.len h.pnLen p.length ∧
    out.lengthField = h.pnLen + out.payloadLen + tagLen ∧
    out.packetLen = h.len + out.payloadLen + tagLen ∧
    out.packetLen ≤ cap ∧
    (1 ≤ h.pnLen ∧ h.pnLen ≤ 4) ∧
    out.datagramLen = datagramLenOf plan udpMin cap out.packetLen ∧
    out.plain = h.bytes out.lengthField ++ (p ++ List.replicate (innerPad plan h.len h.pnLen p.length) 0) := by
  unfold assemble at hok
  simp only [List.length_append, List.length_replicate] at hok
  split at hok
  · cases hok
  · split at hok
    · cases hok
    · rename_i h1 h2
      injection hok with hok
      subst hok
      exact ⟨rfl, by simp only []; omega, rfl, by simp only []; omega, by omega, rfl, rfl⟩

/-- the minimum-payload padding makes packet number + payload at least 4 bytes -/
theorem samplePad_spec (pnLen n : Nat) : pnLen + (n + samplePad pnLen n) ≥ 4 ∨ pnLen ≥ 4 := by
  unfold samplePad; split <;> omega

theorem innerPad_sample (plan : Plan) (hl pnLen n : Nat) (hp : pnLen ≤ 4) : pnLen + (n + innerPad plan hl pnLen n) ≥ 4 := by
  unfold innerPad
  have := samplePad_spec pnLen (n + exactFill plan hl n)
  omega

/-- `assemble` fails exactly with the diagnosable errors -/
theorem assemble_err (h : Hdr) (p : List Nat) (plan : Plan) (udpMin cap : Nat) (e : Err)
    (herr : assemble h p plan udpMin cap = .error e) :
    (e = .nofit ∧ h.len + (p.length + innerPad plan h.len h.pnLen p.length) + tagLen > cap) ∨
    (e = .badPnLen ∧ (h.pnLen < 1 ∨ h.pnLen > 4)) := by
  unfold assemble at herr
  simp only [List.length_append, List.length_replicate] at herr
  split at herr
  · injection herr with herr; subst herr; left; exact ⟨rfl, by omega⟩
  · split at herr
    · injection herr with herr; subst herr; right; exact ⟨rfl, by assumption⟩
    · cases herr

/-! ### CRYPTO budget -/

theorem varintLen_pos (v : Nat) : 1 ≤ varintLen v := by
  unfold varintLen; repeat' split
  all_goals omega

theorem varintLen_le (v : Nat) : varintLen v ≤ 8 := by
  unfold varintLen; repeat' split
  all_goals omega

theorem varintLen_mono {a b : Nat} (h : a ≤ b) : varintLen a ≤ varintLen b := by
  unfold varintLen; repeat' split
  all_goals omega

theorem varintLen_eq_one {v : Nat} (h : v < 64) : varintLen v = 1 := by
  unfold varintLen; rw [if_pos h]

theorem varintLen_le_two {v : Nat} (h : v < 16384) : varintLen v ≤ 2 := by
  unfold varintLen; repeat' split
  all_goals omega

theorem lt_of_varintLen_eq_one {v : Nat} (h : varintLen v = 1) : v < 64 := by
  unfold varintLen at h
  split at h
  · assumption
  · split at h
    · omega
    · split at h <;> omega

/-- a CRYPTO frame whose data length is at most `maxDataLen off M` occupies at most `M` bytes
    (for budgets below 16 KB: `MaxDataLen` only ever gives back one byte for a longer length varint) -/
theorem maxDataLen_fits (off M n : Nat) (hn : n ≤ maxDataLen off M) (hpos : 0 < n) (hM : M ≤ 16384) :
    cryptoFrameLen off n ≤ M := by
  unfold maxDataLen at hn
  unfold cryptoFrameLen
  simp only [] at hn
  split at hn
  · omega
  · rename_i hh
    have hoff := varintLen_pos off
    split at hn
    · have h2 : varintLen n ≤ 2 := varintLen_le_two (by omega)
      omega
    · rename_i h1
      have hm : varintLen (M - (1 + varintLen off + 1)) = 1 := by omega
      have := lt_of_varintLen_eq_one hm
      have h1' : varintLen n = 1 := varintLen_eq_one (by omega)
      omega

/-- `InitialPackets[idx].CryptoLength = c` pins the CRYPTO data popped for the datagram to exactly `c`
    ("the budget arithmetic cancels exactly") whenever the budget is not capped by the packet size and
    that much data is left -/
theorem popLen_cryptoLength (spec : Spec) (plan : Plan) (hdr off remaining maxSize : Nat)
    (hc : 0 < plan.cryptoLength) (hc2 : plan.cryptoLength < 16384)
    (hfit : hdr + cryptoFrameLen off plan.cryptoLength < maxSize - tagLen)
    (hrem : plan.cryptoLength ≤ remaining) :
    popLen spec plan hdr off remaining maxSize = plan.cryptoLength := by
  unfold popLen cryptoBudget
  unfold cryptoFrameLen at hfit
  simp only [hc, if_true]
  rw [if_pos hfit]
  have hsub : hdr + (1 + varintLen off + varintLen plan.cryptoLength + plan.cryptoLength) - hdr =
      1 + varintLen off + varintLen plan.cryptoLength + plan.cryptoLength := by omega
  rw [hsub]
  have hmd : maxDataLen off (1 + varintLen off + varintLen plan.cryptoLength + plan.cryptoLength) = plan.cryptoLength := by
    unfold maxDataLen
    simp only []
    have hp := varintLen_pos plan.cryptoLength
    rw [if_neg (by omega)]
    have hm : 1 + varintLen off + varintLen plan.cryptoLength + plan.cryptoLength - (1 + varintLen off + 1) =
        varintLen plan.cryptoLength + plan.cryptoLength - 1 := by omega
    rw [hm]
    by_cases h64 : plan.cryptoLength < 64
    · have h1 := varintLen_eq_one h64
      rw [h1]
      have h1' : varintLen (1 + plan.cryptoLength - 1) = 1 := varintLen_eq_one (by omega)
      rw [if_neg (by omega)]; omega
    · have h2 : varintLen plan.cryptoLength = 2 := by
        unfold varintLen; rw [if_neg h64, if_pos hc2]
      rw [h2]
      have hne : varintLen (2 + plan.cryptoLength - 1) ≠ 1 := by
        intro h; have := lt_of_varintLen_eq_one h; omega
      rw [if_pos hne]; omega
  rw [hmd]
  exact Nat.min_eq_left hrem

/-- the reserve path: for a `QUICRandomFrames` spec with `Length` and `MinPADDING ≥ 1` the popped CRYPTO
    frame (one frame, as the packer sees it) is at most `Length - paddingReserve` bytes -/
theorem popLen_reserve (spec : Spec) (rf : RF) (plan : Plan) (hdr off remaining maxSize : Nat)
    (hb : spec.builder = .random rf) (hplan : plan.cryptoLength = 0)
    (hlen : rf.length > paddingReserve) (hlen2 : rf.length ≤ 16384) (hpad : rf.minPad ≥ 1)
    (hfit : hdr + rf.length - paddingReserve < maxSize - tagLen)
    (hpos : 0 < popLen spec plan hdr off remaining maxSize) :
    cryptoFrameLen off (popLen spec plan hdr off remaining maxSize) ≤ rf.length - paddingReserve := by
  have hle : popLen spec plan hdr off remaining maxSize ≤ maxDataLen off (rf.length - paddingReserve) := by
    unfold popLen cryptoBudget
    simp only [hplan, Nat.lt_irrefl, if_false, hb]
    have h1 : rf.length > 0 ∧ rf.minPad ≥ 1 := ⟨by omega, hpad⟩
    rw [if_pos h1]
    have h2 : 0 < hdr + rf.length - paddingReserve ∧ hdr + rf.length - paddingReserve < maxSize - tagLen := ⟨by omega, hfit⟩
    rw [if_pos h2]
    have h3 : hdr + rf.length - paddingReserve - hdr = rf.length - paddingReserve := by omega
    rw [h3]
    exact Nat.min_le_left _ _
  exact maxDataLen_fits _ _ _ hle hpos (by omega)

end Uquic.Proofs.Initial
