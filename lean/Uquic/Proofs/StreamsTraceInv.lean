/-
Trace-level lift (C15), part 3: the maps replaced by `ResetFor0RTT` (`oldOut` / `oldIn`, kept because goroutines are
still blocked inside them) are closed and stay closed, and a closed map hands out no stream and queues no frame — so
the steps those goroutines still make do not show up in any projection.  `MInv` is preserved by every operation.
-/
import Uquic.Proofs.StreamsTraceComp

set_option linter.unusedSimpArgs false
set_option linter.unusedVariables false

namespace Uquic.Proofs.Streams
open Uquic.Model.Streams

/-! ### the dispatch on the caller id -/

theorem onOutList_res {α} (c : Nat) (f : Outgoing → Outgoing × α) (d : α) : ∀ l : List Outgoing,
    (onOutList c f d l).2 = d ∨ ∃ o ∈ l, (onOutList c f d l).2 = (f o).2
  | [] => Or.inl rfl
  | o :: os => by
    unfold onOutList
    split
    · exact Or.inr ⟨o, by simp, rfl⟩
    · rcases onOutList_res c f d os with h | ⟨o', ho', h⟩
      · exact Or.inl h
      · exact Or.inr ⟨o', by simp [ho'], h⟩

theorem onOutList_mem {α} (c : Nat) (f : Outgoing → Outgoing × α) (d : α) : ∀ l : List Outgoing,
    ∀ x ∈ (onOutList c f d l).1, x ∈ l ∨ ∃ o ∈ l, x = (f o).1
  | [], x, hx => by simp [onOutList] at hx
  | o :: os, x, hx => by
    unfold onOutList at hx
    split at hx
    · simp only [List.mem_cons] at hx
      rcases hx with rfl | hx
      · exact Or.inr ⟨o, by simp, rfl⟩
      · exact Or.inl (by simp [hx])
    · simp only [List.mem_cons] at hx
      rcases hx with rfl | hx
      · exact Or.inl (by simp)
      · rcases onOutList_mem c f d os x hx with h | ⟨o', ho', h⟩
        · exact Or.inl (by simp [h])
        · exact Or.inr ⟨o', by simp [ho'], h⟩

theorem onInList_res {α} (c : Nat) (f : Incoming → Incoming × α) (d : α) : ∀ l : List Incoming,
    (onInList c f d l).2 = d ∨ ∃ o ∈ l, (onInList c f d l).2 = (f o).2
  | [] => Or.inl rfl
  | o :: os => by
    unfold onInList
    split
    · exact Or.inr ⟨o, by simp, rfl⟩
    · rcases onInList_res c f d os with h | ⟨o', ho', h⟩
      · exact Or.inl h
      · exact Or.inr ⟨o', by simp [ho'], h⟩

theorem onInList_mem {α} (c : Nat) (f : Incoming → Incoming × α) (d : α) : ∀ l : List Incoming,
    ∀ x ∈ (onInList c f d l).1, x ∈ l ∨ ∃ o ∈ l, x = (f o).1
  | [], x, hx => by simp [onInList] at hx
  | o :: os, x, hx => by
    unfold onInList at hx
    split at hx
    · simp only [List.mem_cons] at hx
      rcases hx with rfl | hx
      · exact Or.inr ⟨o, by simp, rfl⟩
      · exact Or.inl (by simp [hx])
    · simp only [List.mem_cons] at hx
      rcases hx with rfl | hx
      · exact Or.inl (by simp)
      · rcases onInList_mem c f d os x hx with h | ⟨o', ho', h⟩
        · exact Or.inl (by simp [h])
        · exact Or.inr ⟨o', by simp [ho'], h⟩

/-- `onOut` runs `f` on the current bidi map, on the current uni map, or on a replaced map (or on nothing) -/
theorem onOut_cases {α} (m : Map) (c : Nat) (f : Outgoing → Outgoing × α) (d : α) :
    m.onOut c f d = ({ m with outBidi := (f m.outBidi).1 }, (f m.outBidi).2) ∨
    m.onOut c f d = ({ m with outUni := (f m.outUni).1 }, (f m.outUni).2) ∨
    m.onOut c f d = ({ m with oldOut := (onOutList c f d m.oldOut).1 }, (onOutList c f d m.oldOut).2) := by
  unfold Map.onOut
  split
  · exact Or.inl rfl
  split
  · exact Or.inr (Or.inl rfl)
  · exact Or.inr (Or.inr rfl)

theorem onIn_cases {α} (m : Map) (c : Nat) (f : Incoming → Incoming × α) (d : α) :
    m.onIn c f d = ({ m with inBidi := (f m.inBidi).1 }, (f m.inBidi).2) ∨
    m.onIn c f d = ({ m with inUni := (f m.inUni).1 }, (f m.inUni).2) ∨
    m.onIn c f d = ({ m with oldIn := (onInList c f d m.oldIn).1 }, (onInList c f d m.oldIn).2) := by
  unfold Map.onIn
  split
  · exact Or.inl rfl
  split
  · exact Or.inr (Or.inl rfl)
  · exact Or.inr (Or.inr rfl)

/-! ### closed maps stay closed, hand out nothing -/

theorem updProc_closeErr (o : Outgoing) (w : Nat) (f : Proc → Proc) : (o.updProc w f).closeErr = o.closeErr := rfl
theorem dropProc_closeErr (o : Outgoing) (w : Nat) : (o.dropProc w).closeErr = o.closeErr := rfl

theorem maybeUnblock_closeErr (o : Outgoing) : o.maybeUnblock.closeErr = o.closeErr := by
  unfold Outgoing.maybeUnblock
  split
  · rfl
  · split <;> rfl

theorem recv_closeErr (o : Outgoing) (w : Nat) : (o.recv w).closeErr = o.closeErr := by
  unfold Outgoing.recv
  split
  · rfl
  · split
    · rfl
    · split
      · rfl
      · split <;> rfl

theorem ctxDone_closeErr (o : Outgoing) (w : Nat) : (o.ctxDone w).closeErr = o.closeErr := by
  unfold Outgoing.ctxDone
  split
  · rfl
  · split <;> rfl

theorem cancelLocked_closed (o : Outgoing) (w : Nat) :
    (o.cancelLocked w).1.closeErr = o.closeErr ∧ idsOfOptRet (o.cancelLocked w).2 = [] := by
  unfold Outgoing.cancelLocked
  split
  · exact ⟨rfl, rfl⟩
  · split
    · exact ⟨rfl, rfl⟩
    · refine ⟨?_, rfl⟩
      simp only [dropProc_closeErr, maybeUnblock_closeErr]

theorem wakeLocked_closed (o : Outgoing) (w : Nat) (hc : o.closeErr ≠ none) :
    (o.wakeLocked w).1.closeErr ≠ none ∧ idsOfOptRet (o.wakeLocked w).2 = [] := by
  unfold Outgoing.wakeLocked
  split
  · exact ⟨hc, rfl⟩
  · split
    · exact ⟨hc, rfl⟩
    · split
      · exact ⟨hc, rfl⟩
      · next hn => exact absurd hn hc

theorem updAcc_closeErr (i : Incoming) (a : Nat) (f : Acc → Acc) : (i.updAcc a f).closeErr = i.closeErr := rfl
theorem dropAcc_closeErr (i : Incoming) (a : Nat) : (i.dropAcc a).closeErr = i.closeErr := rfl

theorem accRecv_closeErr (i : Incoming) (a : Nat) : (i.accRecv a).closeErr = i.closeErr := by
  unfold Incoming.accRecv
  split
  · rfl
  · split
    · rfl
    · split
      · rfl
      · split <;> rfl

theorem accCtx_closed (i : Incoming) (a : Nat) :
    (i.accCtx a).1.closeErr = i.closeErr ∧ idsOfOptRet (i.accCtx a).2 = [] := by
  unfold Incoming.accCtx
  split
  · exact ⟨rfl, rfl⟩
  · split <;> exact ⟨rfl, rfl⟩

theorem accLocked_closed (i : Incoming) (a : Nat) (hc : i.closeErr ≠ none) :
    (i.accLocked a).1.closeErr ≠ none ∧ idsOfOptRet (i.accLocked a).2.1 = [] ∧ (i.accLocked a).2.2 = [] := by
  unfold Incoming.accLocked
  split
  · exact ⟨hc, rfl, rfl⟩
  · split
    · exact ⟨hc, rfl, rfl⟩
    · split
      · exact ⟨hc, rfl, rfl⟩
      · next hn => exact absurd hn hc

/-! ### `oldOut` / `oldIn` under the operations -/

theorem setOut_old (m : Map) (t : STyp) (o : Outgoing) :
    (m.setOut t o).oldOut = m.oldOut ∧ (m.setOut t o).oldIn = m.oldIn := by cases t <;> exact ⟨rfl, rfl⟩
theorem setInc_old (m : Map) (t : STyp) (i : Incoming) :
    (m.setInc t i).oldOut = m.oldOut ∧ (m.setInc t i).oldIn = m.oldIn := by cases t <;> exact ⟨rfl, rfl⟩

theorem onOut_old {α} (m : Map) (c : Nat) (f : Outgoing → Outgoing × α) (d : α)
    (hf : ∀ o, o.closeErr ≠ none → (f o).1.closeErr ≠ none) (h : ∀ o ∈ m.oldOut, o.closeErr ≠ none) :
    (∀ o ∈ (m.onOut c f d).1.oldOut, o.closeErr ≠ none) ∧ (m.onOut c f d).1.oldIn = m.oldIn := by
  rcases onOut_cases m c f d with e | e | e <;> rw [e]
  · exact ⟨h, rfl⟩
  · exact ⟨h, rfl⟩
  · refine ⟨?_, rfl⟩
    intro o ho
    rcases onOutList_mem c f d m.oldOut o ho with h1 | ⟨o', ho', rfl⟩
    · exact h o h1
    · exact hf o' (h o' ho')

theorem onIn_old {α} (m : Map) (c : Nat) (f : Incoming → Incoming × α) (d : α)
    (hf : ∀ i, i.closeErr ≠ none → (f i).1.closeErr ≠ none) (h : ∀ i ∈ m.oldIn, i.closeErr ≠ none) :
    (∀ i ∈ (m.onIn c f d).1.oldIn, i.closeErr ≠ none) ∧ (m.onIn c f d).1.oldOut = m.oldOut := by
  rcases onIn_cases m c f d with e | e | e <;> rw [e]
  · exact ⟨h, rfl⟩
  · exact ⟨h, rfl⟩
  · refine ⟨?_, rfl⟩
    intro o ho
    rcases onInList_mem c f d m.oldIn o ho with h1 | ⟨o', ho', rfl⟩
    · exact h o h1
    · exact hf o' (h o' ho')

theorem closeWithError_old (m : Map) (e : Err) :
    (m.closeWithError e).1.oldOut = m.oldOut ∧ (m.closeWithError e).1.oldIn = m.oldIn ∧
    (m.closeWithError e).1.outBidi.closeErr = some e ∧ (m.closeWithError e).1.outUni.closeErr = some e ∧
    (m.closeWithError e).1.inBidi.closeErr = some e ∧
    ((m.closeWithError e).2 = false → (m.closeWithError e).1.inUni.closeErr = some e) := by
  have hin : ∀ i : Incoming, (i.closeWithError e).1.closeErr = some e := by
    intro i; unfold Incoming.closeWithError; simp only; split <;> rfl
  unfold Map.closeWithError
  simp only
  split
  · refine ⟨rfl, rfl, rfl, rfl, hin _, ?_⟩
    intro h; cases h
  · exact ⟨rfl, rfl, rfl, rfl, hin _, fun _ => hin _⟩

theorem old_step (m : Map) (op : MapOp) (ho : ∀ o ∈ m.oldOut, o.closeErr ≠ none) (hi : ∀ i ∈ m.oldIn, i.closeErr ≠ none) :
    (∀ o ∈ (m.step op).1.oldOut, o.closeErr ≠ none) ∧ (∀ i ∈ (m.step op).1.oldIn, i.closeErr ≠ none) := by
  unfold Map.step
  split
  · exact ⟨ho, hi⟩
  cases op with
  | openStream t =>
    simp only
    split
    · exact ⟨ho, hi⟩
    · rw [(setOut_old _ _ _).1, (setOut_old _ _ _).2]; exact ⟨ho, hi⟩
  | openSync t c b =>
    simp only
    split
    · exact ⟨ho, hi⟩
    · rw [(setOut_old _ _ _).1, (setOut_old _ _ _).2]; exact ⟨ho, hi⟩
  | accept t c =>
    simp only
    split
    · exact ⟨ho, hi⟩
    · rw [(setInc_old _ _ _).1, (setInc_old _ _ _).2]; exact ⟨ho, hi⟩
  | cancelCtx c =>
    simp only
    have x := onOut_old m c (fun o => (o.cancelCtx c, ())) () (fun o h => h) ho
    have y := onIn_old (m.onOut c (fun o => (o.cancelCtx c, ())) ()).1 c (fun i => (i.cancelCtx c, ())) () (fun i h => h)
      (by rw [x.2]; exact hi)
    exact ⟨by rw [y.2]; exact x.1, y.1⟩
  | outRecv c =>
    have x := onOut_old m c (fun o => (o.recv c, ())) () (fun o h => by simpa [recv_closeErr] using h) ho
    exact ⟨x.1, by simp only; rw [x.2]; exact hi⟩
  | outCtxDone c =>
    have x := onOut_old m c (fun o => (o.ctxDone c, ())) () (fun o h => by simpa [ctxDone_closeErr] using h) ho
    exact ⟨x.1, by simp only; rw [x.2]; exact hi⟩
  | outWakeLocked c =>
    have x := onOut_old m c (fun o => o.wakeLocked c) none (fun o h => (wakeLocked_closed o c h).1) ho
    exact ⟨x.1, by simp only; rw [x.2]; exact hi⟩
  | outCancelLocked c =>
    have x := onOut_old m c (fun o => o.cancelLocked c) none (fun o h => by rw [(cancelLocked_closed o c).1]; exact h) ho
    exact ⟨x.1, by simp only; rw [x.2]; exact hi⟩
  | accLocked c =>
    have y := onIn_old m c (fun i => i.accLocked c) (none, []) (fun i h => (accLocked_closed i c h).1) hi
    exact ⟨by simp only; rw [y.2]; exact ho, y.1⟩
  | accRecv c =>
    have y := onIn_old m c (fun i => (i.accRecv c, ())) () (fun i h => by simpa [accRecv_closeErr] using h) hi
    exact ⟨by simp only; rw [y.2]; exact ho, y.1⟩
  | accCtx c =>
    have y := onIn_old m c (fun i => i.accCtx c) none (fun i h => by rw [(accCtx_closed i c).1]; exact h) hi
    exact ⟨by simp only; rw [y.2]; exact ho, y.1⟩
  | recvFrame id =>
    simp only [Map.getReceiveStream]
    split <;> split <;> exact ⟨ho, hi⟩
  | sendFrame id =>
    simp only [Map.getSendStream]
    split <;> split <;> exact ⟨ho, hi⟩
  | delete id =>
    simp only [Map.deleteStream]
    split
    · rw [(setOut_old _ _ _).1, (setOut_old _ _ _).2]; exact ⟨ho, hi⟩
    · rw [(setInc_old _ _ _).1, (setInc_old _ _ _).2]; exact ⟨ho, hi⟩
  | maxStreams t n =>
    simp only [Map.handleMaxStreams]
    rw [(setOut_old _ _ _).1, (setOut_old _ _ _).2]; exact ⟨ho, hi⟩
  | params nb nu =>
    simp only [Map.handleParams, Map.handleMaxStreams]
    rw [(setOut_old _ _ _).1, (setOut_old _ _ _).2, (setOut_old _ _ _).1, (setOut_old _ _ _).2]; exact ⟨ho, hi⟩
  | close e =>
    simp only
    have := closeWithError_old m e
    rw [this.1, this.2.1]; exact ⟨ho, hi⟩
  | resetFor0RTT =>
    simp only [Map.resetFor0RTT]
    have C := closeWithError_old { m with reset := true } .rejected0RTT
    generalize ({ m with reset := true } : Map).closeWithError .rejected0RTT = r at C ⊢
    obtain ⟨m2, p⟩ := r
    simp only at C ⊢
    split
    · rw [C.1, C.2.1]; exact ⟨ho, hi⟩
    · next hp =>
      have hp' : p = false := by simpa using hp
      refine ⟨?_, ?_⟩
      · intro o hm
        simp only [List.mem_append, List.mem_filter, List.mem_cons, List.not_mem_nil, or_false] at hm
        rcases hm with hm | ⟨rfl | rfl, _⟩
        · rw [C.1] at hm; exact ho o hm
        · rw [C.2.2.1]; simp
        · rw [C.2.2.2.1]; simp
      · intro i hm
        simp only [List.mem_append, List.mem_filter, List.mem_cons, List.not_mem_nil, or_false] at hm
        rcases hm with hm | ⟨rfl | rfl, _⟩
        · rw [C.2.1] at hm; exact hi i hm
        · rw [C.2.2.2.2.1]; simp
        · rw [C.2.2.2.2.2 hp']; simp
  | useResetMaps => exact ⟨ho, hi⟩

theorem minv_new (pers : Persp) (nb nu : Int) : MInv pers nb nu (Map.new pers nb nu) :=
  ⟨reach_new pers nb nu, by simp [Map.new], by simp [Map.new]⟩

theorem minv_step {pers : Persp} {nb nu : Int} {m : Map} (h : MInv pers nb nu m) (op : MapOp) (hw : op.wf) :
    MInv pers nb nu (m.step op).1 :=
  ⟨reach_step pers nb nu m op h.reach hw, (old_step m op h.oldOut h.oldIn).1, (old_step m op h.oldOut h.oldIn).2⟩

theorem minv_run {pers : Persp} {nb nu : Int} (ops : List MapOp) : ∀ {m : Map}, MInv pers nb nu m → (∀ op ∈ ops, op.wf) →
    MInv pers nb nu (ops.foldl (fun m o => (m.step o).1) m) := by
  induction ops with
  | nil => intro m h _; exact h
  | cons o os ih =>
    intro m h hw
    simp only [List.foldl_cons]
    exact ih (minv_step h o (hw o (by simp))) (fun op hop => hw op (by simp [hop]))

end Uquic.Proofs.Streams
