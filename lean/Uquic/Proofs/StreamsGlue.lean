/-
Glue lemmas for C15: the frame loop of `handleFrames` and the advertised / enforced stream limits.
-/
import Uquic.Model.Streams.Glue

set_option linter.unusedSimpArgs false
set_option linter.unusedVariables false

namespace Uquic.Proofs.Streams
open Uquic.Model.Streams

theorem frameLoop_skip {σ F E} (h : σ → F → σ × Option E) (guard : F → Bool) (trace : Bool)
    (hg : ∀ f, guard f = true) (x : E) (fs : List F) :
    ∀ s, frameLoop h guard trace s (some x) true fs = (s, if trace then some x else none) := by
  induction fs with
  | nil => intro s; rfl
  | cons f fs ih => intro s; simp [frameLoop, hg f, ih]

theorem frameLoop_eq_spec {σ F E} (h : σ → F → σ × Option E) (guard : F → Bool) (trace : Bool)
    (hg : ∀ f, guard f = true) (fs : List F) :
    ∀ s, frameLoop h guard trace s none false fs = firstErrorSpec h s fs := by
  induction fs with
  | nil => intro s; simp [frameLoop, firstErrorSpec]
  | cons f fs ih =>
    intro s
    simp only [frameLoop, firstErrorSpec, Bool.false_and, Bool.false_eq_true, if_false]
    cases hh : h s f with
    | mk s' e =>
      cases e with
      | none => simp only; exact ih s'
      | some x =>
        simp only
        cases trace with
        | false => rfl
        | true => simp [frameLoop_skip h guard true hg x fs s']

theorem branch_guards : branchGuard "stream" = true ∧ branchGuard "ack" = true ∧ branchGuard "other" = true := by
  decide

theorem all_guarded (f : PFrame) : f.guarded = true := by
  cases f <;> simp only [PFrame.guarded, PFrame.branch] <;>
    first | exact branch_guards.1 | exact branch_guards.2.1 | exact branch_guards.2.2

theorem populateLimit_range (d v : Int) (hd : 0 ≤ d) (hd2 : d ≤ maxStreamCount) :
    0 ≤ populateLimit d v ∧ populateLimit d v ≤ maxStreamCount := by
  have : maxStreamCount = 1152921504606846976 := rfl
  simp only [populateLimit]
  split <;> split <;> (try split) <;> omega

/-- the fixed tree: the covering Config carries exactly the advertised stream limits -/
theorem coverConfig_eq (conf p : Limits) : coverConfig conf p = p := by
  simp [coverConfig, coverConfigWith, coverOne, maxOver, paramField, Uquic.Gen.Streams.coverKeepsConfig,
    Uquic.Gen.Streams.coverBidiSources, Uquic.Gen.Streams.coverUniSources]

/-- the old shape: pointwise maximum of Config and advertised -/
theorem coverConfigMax_eq (conf p : Limits) : coverConfigMax conf p = ⟨max conf.bidi p.bidi, max conf.uni p.uni⟩ := by
  simp [coverConfigMax, coverConfigWith, coverOne, maxOver, paramField]

end Uquic.Proofs.Streams
