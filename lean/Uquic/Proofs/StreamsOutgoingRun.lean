/-
Outgoing map: one step of the transition system and induction over arbitrary step lists (C15).
-/
import Uquic.Proofs.StreamsOutgoingIds

set_option linter.unusedSimpArgs false
set_option linter.unusedVariables false

namespace Uquic.Proofs.Streams
open Uquic.Model.Streams

def openedOf (ev : OutEv) : List Int := idsOfOptRet ev.opened ++ streamsOfRets ev.rets

/-- operations the dispatch in `streamsMap` can produce: stream counts come out of a varint -/
def _root_.Uquic.Model.Streams.OutOp.wf : OutOp → Prop
  | .setMax n => 0 ≤ n
  | _ => True

theorem streamsOfRets_optRet (w : Nat) (r : Option Ret) : streamsOfRets (optRet w r) = idsOfOptRet r := by
  cases r with
  | none => rfl
  | some r => cases r <;> rfl

structure OutStepFacts (m : Outgoing) (op : OutOp) : Prop where
  fifo : FifoInv (m.step op).1
  inv : ∃ k', IdInv (m.step op).1 k'
  ids : (openedOf (m.step op).2 = [] ∧ (m.step op).1.nextStream = m.nextStream) ∨
    (openedOf (m.step op).2 = [m.nextStream] ∧ (m.step op).1.nextStream = m.nextStream + 4 ∧
      m.nextStream ≤ m.maxStream)
  maxMono : m.maxStream ≤ (m.step op).1.maxStream
  sb : SBFacts m (m.step op).1 (m.step op).2.frames
  typ : (m.step op).1.typ = m.typ
  pers : (m.step op).1.pers = m.pers
  /-- a blocked caller that is handed a stream was at the head of the queue -/
  served : ∀ w id, (w, Ret.stream id) ∈ (m.step op).2.rets →
    m.closeErr = none ∧ (m.openQueue = [] ∨ m.openQueue.head? = some w)
  /-- `OpenStream` never overtakes queued `OpenStreamSync` callers -/
  overtake : op = .openStream → m.closeErr = none → m.openQueue ≠ [] →
    (m.step op).2.opened = some (.err .limitReached)

theorem OutStepFacts.of_mf {m : Outgoing} {op : OutOp} {k : Nat} (hf : FifoInv m) (hi : IdInv m k)
    {ids : List Int} (mf : MF m (m.step op).1 ids (m.step op).2.frames)
    (hids : openedOf (m.step op).2 = ids)
    (hs : ∀ w id, (w, Ret.stream id) ∈ (m.step op).2.rets →
      m.closeErr = none ∧ (m.openQueue = [] ∨ m.openQueue.head? = some w))
    (ho : op = .openStream → m.closeErr = none → m.openQueue ≠ [] →
      (m.step op).2.opened = some (.err .limitReached)) : OutStepFacts m op :=
  ⟨fifo_step m op hf, mf.inv k hi, by rw [hids]; exact mf.ids, mf.maxMono, mf.sb, mf.typ, mf.pers, hs, ho⟩

theorem mem_optRet (w w' : Nat) (r : Option Ret) (x : Ret) (h : (w', x) ∈ optRet w r) : w' = w ∧ r = some x := by
  cases r with
  | none => simp [optRet] at h
  | some r => simp [optRet] at h; exact ⟨h.1, by rw [h.2]⟩

theorem out_step_facts (m : Outgoing) (op : OutOp) (k : Nat) (hf : FifoInv m) (hi : IdInv m k) (hw : op.wf) :
    OutStepFacts m op := by
  cases op with
  | openStream =>
    refine OutStepFacts.of_mf hf hi (mf_openStream m) ?_ (by simp [Outgoing.step]) ?_
    · simp [openedOf, Outgoing.step, idsOfOptRet, streamsOfRets]
    · intro _ hc hq
      simp only [Outgoing.step, Outgoing.openStream, hc]
      have : (!m.openQueue.isEmpty) = true := by cases hq' : m.openQueue <;> simp_all
      simp [this]
  | syncCall w c =>
    refine OutStepFacts.of_mf hf hi (mf_syncCall m w c) ?_ ?_ (by simp)
    · simp [openedOf, Outgoing.step, idsOfOptRet, streamsOfRets_optRet]
    · intro w' id hm
      simp only [Outgoing.step] at hm
      obtain ⟨_, hr⟩ := mem_optRet _ _ _ _ hm
      -- a stream is returned at once only when nobody is queued and the map is open
      revert hr
      unfold Outgoing.syncCall
      split
      · simp
      split
      · simp
      · next hc =>
        split
        · simp
        split
        · next hcond =>
          intro _
          refine ⟨hc, Or.inl ?_⟩
          cases hq : m.openQueue with
          | nil => rfl
          | cons a b => simp [hq] at hcond
        · simp
  | recv w =>
    exact OutStepFacts.of_mf hf hi (MF.of_same (by
      simp only [Outgoing.step, Outgoing.recv]
      split
      · exact SameIds.rfl' m
      split
      · exact SameIds.rfl' m
      split
      · exact same_updProc _ _ _
      split
      · exact same_updProc _ _ _
      · exact SameIds.rfl' m)) (by simp [openedOf, Outgoing.step, idsOfOptRet, streamsOfRets])
      (by simp [Outgoing.step]) (by simp)
  | ctxDone w =>
    exact OutStepFacts.of_mf hf hi (MF.of_same (by
      simp only [Outgoing.step, Outgoing.ctxDone]
      split
      · exact SameIds.rfl' m
      split
      · exact same_updProc _ _ _
      · exact SameIds.rfl' m)) (by simp [openedOf, Outgoing.step, idsOfOptRet, streamsOfRets])
      (by simp [Outgoing.step]) (by simp)
  | wakeLocked w =>
    obtain ⟨mf, hsv⟩ := mf_wakeLocked m w hf
    refine OutStepFacts.of_mf hf hi mf ?_ ?_ (by simp)
    · simp [openedOf, Outgoing.step, idsOfOptRet, streamsOfRets_optRet]
    · intro w' id hm
      simp only [Outgoing.step] at hm
      obtain ⟨rfl, hr⟩ := mem_optRet _ _ _ _ hm
      have := hsv id hr
      exact ⟨this.1, Or.inr this.2⟩
  | cancelLocked w =>
    obtain ⟨mf, hns⟩ := mf_cancelLocked m w
    refine OutStepFacts.of_mf hf hi mf ?_ ?_ (by simp)
    · simp [openedOf, Outgoing.step, idsOfOptRet, streamsOfRets_optRet]
    · intro w' id hm
      simp only [Outgoing.step] at hm
      obtain ⟨_, hr⟩ := mem_optRet _ _ _ _ hm
      exact absurd hr (hns id)
  | cancelCtx w =>
    exact OutStepFacts.of_mf hf hi (MF.of_same (same_updProc _ _ _))
      (by simp [openedOf, Outgoing.step, idsOfOptRet, streamsOfRets]) (by simp [Outgoing.step]) (by simp)
  | getStream id =>
    exact OutStepFacts.of_mf hf hi (MF.of_same (SameIds.rfl' m))
      (by simp [openedOf, Outgoing.step, idsOfOptRet, streamsOfRets]) (by simp [Outgoing.step]) (by simp)
  | delete id =>
    have hmf : MF m (m.step (.delete id)).1 [] (m.step (.delete id)).2.frames := by
      simp only [Outgoing.step, Outgoing.deleteStream]
      split
      · refine ⟨?_, Or.inl ⟨rfl, rfl⟩, Int.le_refl _, ?_, rfl, rfl⟩
        · intro k' h'
          exact ⟨k', ⟨h'.hnext, h'.hmax, fun x hx => h'.below x (List.mem_filter.mp hx).1, h'.blocked⟩⟩
        · exact ⟨Int.le_refl _, fun _ h => h, Or.inl rfl, by simp⟩
      · exact MF.of_same (SameIds.rfl' m)
    exact OutStepFacts.of_mf hf hi hmf (by
      simp [openedOf, Outgoing.step, idsOfOptRet, streamsOfRets]) (by
      simp [Outgoing.step]) (by simp)
  | setMax n =>
    obtain ⟨mf, _⟩ := mf_setMax m n hw k hi
    exact OutStepFacts.of_mf hf hi mf (by simp [openedOf, Outgoing.step, idsOfOptRet, streamsOfRets])
      (by simp [Outgoing.step]) (by simp)
  | close e =>
    have hmf : MF m (m.step (.close e)).1 [] (m.step (.close e)).2.frames := by
      simp only [Outgoing.step, Outgoing.closeWithError]
      refine ⟨?_, Or.inl ⟨rfl, rfl⟩, Int.le_refl _, ?_, rfl, rfl⟩
      · intro k' h'
        exact ⟨k', ⟨h'.hnext, h'.hmax, h'.below, by intro hc; simp at hc⟩⟩
      · exact ⟨Int.le_refl _, fun _ h => h, Or.inl rfl, by simp⟩
    exact OutStepFacts.of_mf hf hi hmf (by simp [openedOf, Outgoing.step, idsOfOptRet, streamsOfRets])
      (by simp [Outgoing.step]) (by simp)

/-! ### induction over step lists -/

theorem orun_nil (m : Outgoing) : m.run [] = (m, []) := rfl
theorem orun_cons (m : Outgoing) (o : OutOp) (os : List OutOp) :
    m.run (o :: os) = (((m.step o).1.run os).1, (m.step o).2 :: ((m.step o).1.run os).2) := rfl

def openedIds (evs : List OutEv) : List Int := evs.flatMap openedOf
def sbVals (evs : List OutEv) : List Int := evs.flatMap fun ev => sbOfFrames ev.frames

theorem openedIds_cons (e : OutEv) (es : List OutEv) : openedIds (e :: es) = openedOf e ++ openedIds es := by
  simp [openedIds]
theorem sbVals_cons (e : OutEv) (es : List OutEv) : sbVals (e :: es) = sbOfFrames e.frames ++ sbVals es := by
  simp [sbVals]

theorem orun_inv (ops : List OutOp) :
    ∀ (m : Outgoing) (k : Nat), FifoInv m → IdInv m k → (∀ op ∈ ops, op.wf) →
      FifoInv (m.run ops).1 ∧ (∃ k', IdInv (m.run ops).1 k') ∧ m.maxStream ≤ (m.run ops).1.maxStream ∧
      (m.run ops).1.typ = m.typ ∧ (m.run ops).1.pers = m.pers := by
  induction ops with
  | nil => intro m k hf hi _; exact ⟨hf, ⟨k, hi⟩, Int.le_refl _, rfl, rfl⟩
  | cons o os ih =>
    intro m k hf hi hw
    rw [orun_cons]
    have sf := out_step_facts m o k hf hi (hw o (by simp))
    obtain ⟨k', hk'⟩ := sf.inv
    obtain ⟨r1, r2, r3, r4, r5⟩ := ih _ k' sf.fifo hk' (fun op hop => hw op (by simp [hop]))
    refine ⟨r1, r2, ?_, by rw [r4, sf.typ], by rw [r5, sf.pers]⟩
    show m.maxStream ≤ ((m.step o).1.run os).1.maxStream
    have := sf.maxMono; omega

/-- opened ids are consecutive from `nextStream` and stay within the (final) limit -/
theorem orun_ids (ops : List OutOp) :
    ∀ (m : Outgoing) (k : Nat), FifoInv m → IdInv m k → (∀ op ∈ ops, op.wf) →
      openedIds (m.run ops).2 =
        (List.range (openedIds (m.run ops).2).length).map (fun (i : Nat) => m.nextStream + 4 * (i : Int)) ∧
      (m.run ops).1.nextStream = m.nextStream + 4 * ((openedIds (m.run ops).2).length : Int) ∧
      ∀ id ∈ openedIds (m.run ops).2, id ≤ (m.run ops).1.maxStream := by
  induction ops with
  | nil => intro m k _ _ _; simp [orun_nil, openedIds]
  | cons o os ih =>
    intro m k hf hi hw
    rw [orun_cons]
    have sf := out_step_facts m o k hf hi (hw o (by simp))
    obtain ⟨k', hk'⟩ := sf.inv
    have hw' : ∀ op ∈ os, op.wf := fun op hop => hw op (by simp [hop])
    obtain ⟨i1, i2, i3⟩ := ih _ k' sf.fifo hk' hw'
    obtain ⟨_, _, hmono, _, _⟩ := orun_inv os _ k' sf.fifo hk' hw'
    simp only [openedIds_cons]
    rcases sf.ids with ⟨hs, hn⟩ | ⟨hs, hn, hle⟩
    · rw [hs]; simp only [List.nil_append]; rw [hn] at i1 i2; exact ⟨i1, i2, i3⟩
    · rw [hs]; rw [hn] at i1 i2
      simp only [List.singleton_append, List.length_cons]
      refine ⟨?_, by rw [i2]; push_cast; omega, ?_⟩
      · rw [List.range_succ_eq_map, List.map_cons, List.map_map]
        congr 1
        · simp
        · rw [i1]; simp only [List.length_map, List.length_range]
          apply List.map_congr_left
          intro i _; simp only [Function.comp]; push_cast; omega
      · intro id hid
        rcases List.mem_cons.mp hid with hid | hid
        · subst hid; have := sf.maxMono; omega
        · exact i3 id hid

/-- STREAMS_BLOCKED values are strictly increasing and equal the limit at the time they are sent -/
theorem orun_sb (ops : List OutOp) :
    ∀ (m : Outgoing) (k : Nat), FifoInv m → IdInv m k → (∀ op ∈ ops, op.wf) →
      limitNum m ≤ limitNum (m.run ops).1 ∧
      (limitNum (m.run ops).1 = limitNum m → m.blockedSent = true → (m.run ops).1.blockedSent = true) ∧
      (sbVals (m.run ops).2).Pairwise (· < ·) ∧
      ∀ v ∈ sbVals (m.run ops).2, limitNum m ≤ v ∧ (v = limitNum m → m.blockedSent = false) ∧
        v ≤ limitNum (m.run ops).1 ∧ (v = limitNum (m.run ops).1 → (m.run ops).1.blockedSent = true) := by
  induction ops with
  | nil => intro m k _ _ _; simp [orun_nil, sbVals]
  | cons o os ih =>
    intro m k hf hi hw
    rw [orun_cons]
    have sf := out_step_facts m o k hf hi (hw o (by simp))
    obtain ⟨k', hk'⟩ := sf.inv
    obtain ⟨i1, i2, i3, i4⟩ := ih _ k' sf.fifo hk' (fun op hop => hw op (by simp [hop]))
    have hmono := sf.sb.mono
    have hkeep := sf.sb.keep
    simp only [sbVals_cons]
    have hA : limitNum m ≤ limitNum ((m.step o).1.run os).1 := by omega
    have hB : limitNum ((m.step o).1.run os).1 = limitNum m → m.blockedSent = true →
        ((m.step o).1.run os).1.blockedSent = true := by
      intro he hb
      have h1 : limitNum (m.step o).1 = limitNum m := by omega
      exact i2 (by omega) (hkeep h1 hb)
    rcases sf.sb.sent with hs | ⟨hs, hb', hwhy⟩
    · rw [hs]; simp only [List.nil_append]
      refine ⟨hA, hB, i3, ?_⟩
      intro v hv
      obtain ⟨a1, a2, a3, a4⟩ := i4 v hv
      refine ⟨by omega, ?_, a3, a4⟩
      intro he
      have h1 : limitNum (m.step o).1 = limitNum m := by omega
      have h2 := a2 (by omega)
      cases hbs : m.blockedSent with
      | false => rfl
      | true => have := hkeep h1 hbs; rw [this] at h2; simp at h2
    · rw [hs]; simp only [List.singleton_append]
      refine ⟨hA, hB, ?_, ?_⟩
      · rw [List.pairwise_cons]
        refine ⟨?_, i3⟩
        intro v hv
        obtain ⟨a1, a2, _, _⟩ := i4 v hv
        have : v ≠ limitNum (m.step o).1 := by
          intro he; have := a2 he; rw [hb'] at this; simp at this
        omega
      · intro v hv
        rcases List.mem_cons.mp hv with hv | hv
        · subst hv
          refine ⟨hmono, ?_, i1, ?_⟩
          · intro he
            rcases hwhy with hlt | hbf
            · omega
            · exact hbf
          · intro he; exact i2 he.symm hb'
        · obtain ⟨a1, a2, a3, a4⟩ := i4 v hv
          refine ⟨by omega, ?_, a3, a4⟩
          intro he
          have h1 : limitNum (m.step o).1 = limitNum m := by omega
          have h2 := a2 (by omega)
          rw [hb'] at h2; simp at h2

end Uquic.Proofs.Streams
