/-
Outgoing map: one step of the transition system and induction over arbitrary step lists (C15).
-/
import Uquic.Proofs.StreamsOutgoingIds

set_option linter.unusedSimpArgs false
set_option linter.unusedVariables false

namespace Uquic.Proofs.Streams
open Uquic.Model.Streams

def openedOf (ev : OutEv) : List Int := idsOfOptRet ev.opened ++ streamsOfRets ev.rets

/-- operations the dispatch in `streamsMap` can produce: stream counts come out of a varint -/
def _root_.Uquic.Model.Streams.OutOp.wf : OutOp → Prop
  | .setMax n => 0 ≤ n
  | _ => True

theorem streamsOfRets_optRet (w : Nat) (r : Option Ret) : streamsOfRets (optRet w r) = idsOfOptRet r := by
  cases r with
  | none => rfl
  | some r => cases r <;> rfl

structure OutStepFacts (m : Outgoing) (op : OutOp) : Prop where
  fifo : FifoInv (m.step op).1
  inv : ∃ k', IdInv (m.step op).1 k'
  ids : (openedOf (m.step op).2 = [] ∧ (m.step op).1.nextStream = m.nextStream) ∨
    (openedOf (m.step op).2 = [m.nextStream] ∧ (m.step op).1.nextStream = m.nextStream + 4 ∧
      m.nextStream ≤ m.maxStream)
  maxMono : m.maxStream ≤ (m.step op).1.maxStream
  sb : SBFacts m (m.step op).1 (m.step op).2.frames
  typ : (m.step op).1.typ = m.typ
  pers : (m.step op).1.pers = m.pers
  /-- a blocked caller that is handed a stream was at the head of the queue -/
  served : ∀ w id, (w, Ret.stream id) ∈ (m.step op).2.rets →
    m.closeErr = none ∧ (m.openQueue = [] ∨ m.openQueue.head? = some w)
  /-- `OpenStream` never overtakes queued `OpenStreamSync` callers -/
  overtake : op = .openStream → m.closeErr = none → m.openQueue ≠ [] →
    (m.step op).2.opened = some (.err .limitReached)

theorem OutStepFacts.of_mf {m : Outgoing} {op : OutOp} {k : Nat} (hf : FifoInv m) (hi : IdInv m k)
    {ids : List Int} (mf : MF m (m.step op).1 ids (m.step op).2.frames)
    (hids : openedOf (m.step op).2 = ids)
    (hs : ∀ w id, (w, Ret.stream id) ∈ (m.step op).2.rets →
      m.closeErr = none ∧ (m.openQueue = [] ∨ m.openQueue.head? = some w))
    (ho : op = .openStream → m.closeErr = none → m.openQueue ≠ [] →
      (m.step op).2.opened = some (.err .limitReached)) : OutStepFacts m op :=
  ⟨fifo_step m op hf, mf.inv k hi, by rw [hids]; exact mf.ids, mf.maxMono, mf.sb, mf.typ, mf.pers, hs, ho⟩

theorem mem_optRet (w w' : Nat) (r : Option Ret) (x : Ret) (h : (w', x) ∈ optRet w r) : w' = w ∧ r = some x := by
  cases r with
  | none => simp [optRet] at h
  | some r => simp [optRet] at h; exact ⟨h.1, by rw [h.2]⟩

theorem out_step_facts (m : Outgoing) (op : OutOp) (k : Nat) (hf : FifoInv m) (hi : IdInv m k) (hw : op.wf) :
    OutStepFacts m op := by
  cases op with
  | openStream =>
    refine OutStepFacts.of_mf hf hi (mf_openStream m) ?_ (by simp [Outgoing.step]) ?_
    · simp [openedOf, Outgoing.step, idsOfOptRet, streamsOfRets]
    · intro _ hc hq
      simp only [Outgoing.step, Outgoing.openStream, hc]
      have : (!m.openQueue.isEmpty) = true := by cases hq' : m.openQueue <;> simp_all
      simp [this]
  | syncCall w c =>
    refine OutStepFacts.of_mf hf hi (mf_syncCall m w c) ?_ ?_ (by simp)
    · simp [openedOf, Outgoing.step, idsOfOptRet, streamsOfRets_optRet]
    · intro w' id hm
      simp only [Outgoing.step] at hm
      obtain ⟨_, hr⟩ := mem_optRet _ _ _ _ hm
      -- a stream is returned at once only when nobody is queued and the map is open
      revert hr
      unfold Outgoing.syncCall
      split
      · simp
      split
      · simp
      · next hc =>
        split
        · simp
        split
        · next hcond =>
          intro _
          refine ⟨hc, Or.inl ?_⟩
          cases hq : m.openQueue with
          | nil => rfl
          | cons a b => simp [hq] at hcond
        · simp
  | recv w =>
    exact OutStepFacts.of_mf hf hi (MF.of_same (by
      simp only [Outgoing.step, Outgoing.recv]
      split
      · exact SameIds.rfl' m
      split
      · exact SameIds.rfl' m
      split
      · exact same_updProc _ _ _
      split
      · exact same_updProc _ _ _
      · exact SameIds.rfl' m)) (by simp [openedOf, Outgoing.step, idsOfOptRet, streamsOfRets])
      (by simp [Outgoing.step]) (by simp)
  | ctxDone w =>
    exact OutStepFacts.of_mf hf hi (MF.of_same (by
      simp only [Outgoing.step, Outgoing.ctxDone]
      split
      · exact SameIds.rfl' m
      split
      · exact same_updProc _ _ _
      · exact SameIds.rfl' m)) (by simp [openedOf, Outgoing.step, idsOfOptRet, streamsOfRets])
      (by simp [Outgoing.step]) (by simp)
  | wakeLocked w =>
    obtain ⟨mf, hsv⟩ := mf_wakeLocked m w hf
    refine OutStepFacts.of_mf hf hi mf ?_ ?_ (by simp)
    · simp [openedOf, Outgoing.step, idsOfOptRet, streamsOfRets_optRet]
    · intro w' id hm
      simp only [Outgoing.step] at hm
      obtain ⟨rfl, hr⟩ := mem_optRet _ _ _ _ hm
      have := hsv id hr
      exact ⟨this.1, Or.inr this.2⟩
  | cancelLocked w =>
    obtain ⟨mf, hns⟩ := mf_cancelLocked m w
    refine OutStepFacts.of_mf hf hi mf ?_ ?_ (by simp)
    · simp [openedOf, Outgoing.step, idsOfOptRet, streamsOfRets_optRet]
    · intro w' id hm
      simp only [Outgoing.step] at hm
      obtain ⟨_, hr⟩ := mem_optRet _ _ _ _ hm
      exact absurd hr (hns id)
  | cancelCtx w =>
    exact OutStepFacts.of_mf hf hi (MF.of_same (same_updProc _ _ _))
      (by simp [openedOf, Outgoing.step, idsOfOptRet, streamsOfRets]) (by simp [Outgoing.step]) (by simp)
  | getStream id =>
    exact OutStepFacts.of_mf hf hi (MF.of_same (SameIds.rfl' m))
      (by simp [openedOf, Outgoing.step, idsOfOptRet, streamsOfRets]) (by simp [Outgoing.step]) (by simp)
  | delete id =>
    have hmf : MF m (m.step (.delete id)).1 [] (m.step (.delete id)).2.frames := by
      simp only [Outgoing.step, Outgoing.deleteStream]
      split
      · refine ⟨?_, Or.inl ⟨rfl, rfl⟩, Int.le_refl _, ?_, rfl, rfl⟩
        · intro k' h'
          exact ⟨k', ⟨h'.hnext, h'.hmax, fun x hx => h'.below x (List.mem_filter.mp hx).1, h'.blocked⟩⟩
        · exact ⟨Int.le_refl _, fun _ h => h, Or.inl rfl, by simp⟩
      · exact MF.of_same (SameIds.rfl' m)
    exact OutStepFacts.of_mf hf hi hmf (by
      simp [openedOf, Outgoing.step, idsOfOptRet, streamsOfRets]) (by
      simp [Outgoing.step]) (by simp)
  | setMax n =>
    obtain ⟨mf, _⟩ := mf_setMax m n hw k hi
    exact OutStepFacts.of_mf hf hi mf (by simp [openedOf, Outgoing.step, idsOfOptRet, streamsOfRets])
      (by simp [Outgoing.step]) (by simp)
  | close e =>
    have hmf : MF m (m.step (.close e)).1 [] (m.step (.close e)).2.frames := by
      simp only [Outgoing.step, Outgoing.closeWithError]
      refine ⟨?_, Or.inl ⟨rfl, rfl⟩, Int.le_refl _, ?_, rfl, rfl⟩
      · intro k' h'
        exact ⟨k', ⟨h'.hnext, h'.hmax, h'.below, by intro hc; simp at hc⟩⟩
      · exact ⟨Int.le_refl _, fun _ h => h, Or.inl rfl, by simp⟩
    exact OutStepFacts.of_mf hf hi hmf (by simp [openedOf, Outgoing.step, idsOfOptRet, streamsOfRets])
      (by simp [Outgoing.step]) (by simp)

end Uquic.Proofs.Streams
